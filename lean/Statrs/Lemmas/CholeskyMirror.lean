/-
  Statrs.Draft.Lemmas.CholeskyMirror — a function-indexed MIRROR of the hand model of nalgebra's
  `Cholesky::new` (`Statrs.Model.LA.cholAxpy / cholStep / choleskyNew`, Statrs/Model/Multivariate.lean)
  with a proved equation to the list model, for EVERY carrier `α`.

  A square `n × n` list-of-lists `m` is `ofFn n (ent m)`; on matrices of that form every step of the
  list algorithm is `ofFn n` of the corresponding step on entry functions `ℕ → ℕ → α`
  (`axpyF`, `sweepF`, `stepF`, `newF`), with literally the same arithmetic expressions.  All the
  list ↔ function bookkeeping is done here once; the mathematics (Props/C09/CholeskyGeneral*) is
  then about `newF`.
-/
import Statrs.Model.Multivariate
import Mathlib.Tactic
set_option linter.unusedSectionVars false
set_option linter.unusedVariables false
namespace Statrs.Lemmas.Cholesky
open Statrs Statrs.Model

section generic
variable {α : Type} [Add α] [Sub α] [Mul α] [Div α] [Neg α] [LT α] [LE α] [BEq α]
  [DecidableLT α] [DecidableLE α] [OfScientific α] [Inhabited α] [RFun α]

/-- the `n × n` list-of-lists with entries `A i j` -/
def ofFn (n : ℕ) (A : ℕ → ℕ → α) : List (List α) :=
  (List.range n).map (fun i => (List.range n).map (fun j => A i j))

/-- the entry function of a list-of-lists -/
def ent (m : List (List α)) : ℕ → ℕ → α := fun i j => LA.mget m i j

/-- `m` is an `n × n` matrix -/
def IsSq (n : ℕ) (m : List (List α)) : Prop := m.length = n ∧ ∀ r ∈ m, r.length = n

/-- full(∀α): length of `ofFn n A`. -/
theorem ofFn_length (n : ℕ) (A : ℕ → ℕ → α) : (ofFn n A).length = n := by simp [ofFn]

/-- full(∀α): `ofFn n A` is `n × n`. -/
theorem isSq_ofFn (n : ℕ) (A : ℕ → ℕ → α) : IsSq n (ofFn n A) := by
  refine ⟨ofFn_length n A, fun r hr => ?_⟩
  simp only [ofFn, List.mem_map, List.mem_range] at hr
  obtain ⟨i, _, rfl⟩ := hr
  simp

/-- full(∀α): rows of `ofFn n A`. -/
theorem getElem_ofFn (n : ℕ) (A : ℕ → ℕ → α) (i : ℕ) (h : i < (ofFn n A).length) :
    (ofFn n A)[i] = (List.range n).map (fun j => A i j) := by
  simp [ofFn]

/-- full(∀α): entries of `ofFn n A`. -/
theorem mget_ofFn (n : ℕ) (A : ℕ → ℕ → α) (i j : ℕ) (hi : i < n) (hj : j < n) :
    LA.mget (ofFn n A) i j = A i j := by
  simp [LA.mget, ofFn, hi, hj]

/-- full(∀α): entry function of `ofFn n A`. -/
theorem ent_ofFn (n : ℕ) (A : ℕ → ℕ → α) (i j : ℕ) (hi : i < n) (hj : j < n) :
    ent (ofFn n A) i j = A i j := mget_ofFn n A i j hi hj

/-- full(∀α): every square matrix is `ofFn` of its entry function -/
theorem eq_ofFn_ent {n : ℕ} {m : List (List α)} (h : IsSq n m) : m = ofFn n (ent m) := by
  obtain ⟨hl, hr⟩ := h
  apply List.ext_getElem
  · simp [ofFn, hl]
  · intro i h1 h2
    rw [getElem_ofFn]
    have hri : (m[i]).length = n := hr _ (List.getElem_mem h1)
    apply List.ext_getElem
    · simp [hri]
    · intro j h3 h4
      simp [ent, LA.mget, List.getD_eq_getElem?_getD, h1, h3]

/-- full(∀α): extensionality for `n × n` lists-of-lists through `mget`. -/
theorem isSq_symm_ext {n : ℕ} {m m' : List (List α)} (h : IsSq n m) (h' : IsSq n m')
    (he : ∀ i j, i < n → j < n → LA.mget m i j = LA.mget m' i j) : m = m' := by
  rw [eq_ofFn_ent h, eq_ofFn_ent h']
  unfold ofFn
  apply List.map_congr_left
  intro i hi
  apply List.map_congr_left
  intro j hj
  exact he i j (List.mem_range.mp hi) (List.mem_range.mp hj)

/-- full(∀α): `ofFn n` only depends on the entries with indices `< n`. -/
theorem ofFn_congr {n : ℕ} {A B : ℕ → ℕ → α} (h : ∀ i j, i < n → j < n → A i j = B i j) :
    ofFn n A = ofFn n B := by
  unfold ofFn
  apply List.map_congr_left
  intro i hi
  apply List.map_congr_left
  intro j hj
  exact h i j (List.mem_range.mp hi) (List.mem_range.mp hj)

/-! ### the mirror algorithm on entry functions -/

/-- mirror of `LA.cholAxpy` -/
def axpyF (A : ℕ → ℕ → α) (j k : ℕ) : ℕ → ℕ → α :=
  fun r c => if j ≤ r ∧ c = j then ((-(A j k)) * (A r k)) * (1.0 : α) + (1.0 : α) * (A r j) else A r c

/-- mirror of the axpy sweep `for k in 0..j` -/
def sweepF (A : ℕ → ℕ → α) (j : ℕ) : ℕ → ℕ → α :=
  (List.range j).foldl (fun A k => axpyF A j k) A

/-- mirror of the scaling of column `j` after a successful pivot -/
def scaleF (B : ℕ → ℕ → α) (j : ℕ) : ℕ → ℕ → α :=
  fun r c => if j ≤ r ∧ c = j then (if r = j then RFun.sqrt (B j j) else (B r j) / RFun.sqrt (B j j)) else B r c

/-- mirror of `LA.cholStep` -/
def stepF (A : ℕ → ℕ → α) (j : ℕ) : Option (ℕ → ℕ → α) :=
  if ((sweepF A j) j j == (0.0 : α)) = true then none
  else if (0.0 : α) ≤ (sweepF A j) j j then some (scaleF (sweepF A j) j)
  else none

/-- mirror of `LA.choleskyNew` on `n × n` input -/
def newF (n : ℕ) (A : ℕ → ℕ → α) : Option (ℕ → ℕ → α) :=
  (List.range n).foldl (fun o j => o.bind (fun A => stepF A j)) (some A)

/-- mirror of `LA.choleskyUnpack` -/
def unpackF (A : ℕ → ℕ → α) : ℕ → ℕ → α := fun i j => if i < j then (0.0 : α) else A i j

/-! ### the list model is `ofFn` of the mirror -/

/-- full(∀α): `LA.cholAxpy` on `ofFn n A` is `ofFn n` of the mirror `axpyF`. -/
theorem cholAxpy_ofFn (n : ℕ) (A : ℕ → ℕ → α) (j k : ℕ) (hj : j < n) (hk : k < n) :
    LA.cholAxpy (ofFn n A) j k = ofFn n (axpyF A j k) := by
  unfold LA.cholAxpy
  apply List.ext_getElem
  · simp [ofFn_length]
  · intro r h1 h2
    have hr : r < n := by simpa [ofFn_length] using h2
    rw [List.getElem_mapIdx, getElem_ofFn, getElem_ofFn]
    by_cases hrj : r < j
    · rw [if_pos hrj]
      apply List.map_congr_left
      intro c _
      simp [axpyF, Nat.not_le.mpr hrj]
    · rw [if_neg hrj]
      have hjr : j ≤ r := Nat.le_of_not_lt hrj
      apply List.ext_getElem
      · simp
      · intro c h3 h4
        have hc : c < n := by simpa using h4
        rw [List.getElem_set]
        simp only [List.getElem_map, List.getElem_range, axpyF, hjr, true_and]
        by_cases hcj : j = c
        · subst hcj
          simp [mget_ofFn n A j k hj hk, hk, hj]
        · rw [if_neg hcj, if_neg (fun h => hcj h.symm)]

/-- full(∀α): the axpy sweep on `ofFn n A` is `ofFn n` of the mirror sweep. -/
theorem sweep_ofFn (n : ℕ) (j : ℕ) (hj : j < n) : ∀ (l : List ℕ) (A : ℕ → ℕ → α), (∀ k ∈ l, k < n) →
    l.foldl (fun m k => LA.cholAxpy m j k) (ofFn n A) = ofFn n (l.foldl (fun A k => axpyF A j k) A) := by
  intro l
  induction l with
  | nil => intro A _; rfl
  | cons k t ih =>
    intro A h
    rw [List.foldl_cons, List.foldl_cons, cholAxpy_ofFn n A j k hj (h k List.mem_cons_self),
      ih _ (fun x hx => h x (List.mem_cons_of_mem _ hx))]

/-- full(∀α): the column scaling of `LA.cholStep` on `ofFn n B` is `ofFn n (scaleF B j)`. -/
theorem scale_ofFn (n : ℕ) (B : ℕ → ℕ → α) (j : ℕ) (hj : j < n) :
    (ofFn n B).mapIdx (fun r row =>
      if r < j then row
      else if r = j then row.set j (RFun.sqrt (B j j))
      else row.set j ((row.getD j default) / RFun.sqrt (B j j))) = ofFn n (scaleF B j) := by
  apply List.ext_getElem
  · simp [ofFn_length]
  · intro r h1 h2
    have hr : r < n := by simpa [ofFn_length] using h2
    rw [List.getElem_mapIdx, getElem_ofFn, getElem_ofFn]
    by_cases hrj : r < j
    · rw [if_pos hrj]
      apply List.map_congr_left
      intro c _
      simp [scaleF, Nat.not_le.mpr hrj]
    · rw [if_neg hrj]
      have hjr : j ≤ r := Nat.le_of_not_lt hrj
      by_cases hrj' : r = j
      · subst hrj'
        rw [if_pos rfl]
        apply List.ext_getElem
        · simp
        · intro c h3 h4
          rw [List.getElem_set]
          simp only [List.getElem_map, List.getElem_range, scaleF, le_refl, true_and, if_true]
          by_cases hcj : r = c
          · subst hcj; simp
          · rw [if_neg hcj, if_neg (fun h => hcj h.symm)]
      · rw [if_neg hrj']
        apply List.ext_getElem
        · simp
        · intro c h3 h4
          rw [List.getElem_set]
          simp only [List.getElem_map, List.getElem_range, scaleF, hjr, true_and, if_neg hrj']
          by_cases hcj : j = c
          · subst hcj; simp [hj]
          · rw [if_neg hcj, if_neg (fun h => hcj h.symm)]

/-- full(∀α): `LA.cholStep` on `ofFn n A` is the mirror `stepF`. -/
theorem cholStep_ofFn (n : ℕ) (A : ℕ → ℕ → α) (j : ℕ) (hj : j < n) :
    LA.cholStep (ofFn n A) j = (stepF A j).map (ofFn n) := by
  unfold LA.cholStep stepF
  have hs : (List.range j).foldl (fun m k => LA.cholAxpy m j k) (ofFn n A) = ofFn n (sweepF A j) :=
    sweep_ofFn n j hj (List.range j) A (fun k hk => lt_trans (List.mem_range.mp hk) hj)
  simp only [hs, mget_ofFn n (sweepF A j) j j hj hj]
  by_cases h0 : ((sweepF A j) j j == (0.0 : α)) = true
  · simp [h0]
  · rw [if_neg h0, if_neg h0]
    by_cases h1 : (0.0 : α) ≤ (sweepF A j) j j
    · rw [if_pos h1, if_pos h1, Option.map_some, scale_ofFn n _ j hj]
    · rw [if_neg h1, if_neg h1]; rfl

/-- full(∀α): the fold of `LA.cholStep` is the fold of the mirror `stepF`. -/
theorem choleskyNew_fold_ofFn (n : ℕ) : ∀ (l : List ℕ) (o : Option (ℕ → ℕ → α)), (∀ j ∈ l, j < n) →
    l.foldl (fun om j => om.bind (fun m => LA.cholStep m j)) (o.map (ofFn n)) =
      (l.foldl (fun o j => o.bind (fun A => stepF A j)) o).map (ofFn n) := by
  intro l
  induction l with
  | nil => intro o _; rfl
  | cons j t ih =>
    intro o h
    rw [List.foldl_cons, List.foldl_cons]
    have : (o.map (ofFn n)).bind (fun m => LA.cholStep m j) = (o.bind (fun A => stepF A j)).map (ofFn n) := by
      cases o with
      | none => rfl
      | some A => simp [cholStep_ofFn n A j (h j List.mem_cons_self)]
    rw [this, ih _ (fun x hx => h x (List.mem_cons_of_mem _ hx))]

/-- full(∀α): on `n × n` input, `Cholesky::new` of the list model is the mirror `newF` on entry functions. -/
theorem choleskyNew_ofFn (n : ℕ) (A : ℕ → ℕ → α) :
    LA.choleskyNew (ofFn n A) = (newF n A).map (ofFn n) := by
  unfold LA.choleskyNew newF
  rw [ofFn_length]
  exact choleskyNew_fold_ofFn n (List.range n) (some A) (fun j hj => List.mem_range.mp hj)

/-- full(∀α): `Cholesky::new m` for a square `m`, through the mirror. -/
theorem choleskyNew_eq_mirror {n : ℕ} {m : List (List α)} (h : IsSq n m) :
    LA.choleskyNew m = (newF n (ent m)).map (ofFn n) := by
  conv_lhs => rw [eq_ofFn_ent h]
  exact choleskyNew_ofFn n (ent m)

/-- full(∀α): `LA.choleskyUnpack` on `ofFn n A` is `ofFn n (unpackF A)`. -/
theorem choleskyUnpack_ofFn (n : ℕ) (A : ℕ → ℕ → α) :
    LA.choleskyUnpack (ofFn n A) = ofFn n (unpackF A) := by
  unfold LA.choleskyUnpack
  apply List.ext_getElem
  · simp [ofFn_length]
  · intro r h1 h2
    rw [List.getElem_mapIdx, getElem_ofFn, getElem_ofFn]
    apply List.ext_getElem
    · simp
    · intro c h3 h4
      simp [unpackF]

end generic
end Statrs.Lemmas.Cholesky
