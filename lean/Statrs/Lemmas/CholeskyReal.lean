/-
  Statrs.Draft.Lemmas.CholeskyReal — the mirror of nalgebra's Cholesky (`Lemmas/CholeskyMirror`) over ℝ:

    * closed forms of the axpy sweep and of one step (`sweepF_real`, `stepF_real`): step `j` succeeds
      iff the pivot `A j j − Σ_{k<j} (A j k)²` is positive;
    * the invariant `CholInv M j A` of the left-looking column algorithm after `j` columns
      (positive diagonal so far, `Σ_{k ≤ c} A r k · A c k = M r c` on the finished columns, the rest
      untouched), its preservation by a successful step, and `newF_inv`: a successful run of `n`
      steps ends in a state satisfying `CholInv M n`;
    * back substitution (`backsub`) and the key identity `pivot_eq_quadForm`: the `j`-th pivot is the
      value of the quadratic form of `M` at a vector with `z j = 1` supported in `[0, j]`.
-/
import Statrs.Lemmas.CholeskyMirror
import Statrs.Real.Simp
import Statrs.Lemmas.Multivariate
import Mathlib.Tactic
set_option linter.unusedSectionVars false
set_option linter.unusedVariables false
namespace Statrs.Lemmas.Cholesky
open Statrs Statrs.Model Statrs.Lemmas.Multivariate Finset

/-- full(ℝ): the mirror axpy over ℝ (literals `1.0` removed). -/
theorem axpyF_real (A : ℕ → ℕ → ℝ) (j k r c : ℕ) :
    axpyF A j k r c = if j ≤ r ∧ c = j then A r j - A j k * A r k else A r c := by
  unfold axpyF
  rw [lit1]
  split_ifs <;> ring

/-- full(ℝ): the first `t` axpys of the sweep of step `j`. -/
theorem sweep_partial (A : ℕ → ℕ → ℝ) (j : ℕ) : ∀ t, t ≤ j →
    (List.range t).foldl (fun A k => axpyF A j k) A =
      fun r c => if j ≤ r ∧ c = j then A r j - ∑ k ∈ range t, A j k * A r k else A r c := by
  intro t
  induction t with
  | zero =>
    intro _
    funext r c
    simp only [List.range_zero, List.foldl_nil, Finset.range_zero, Finset.sum_empty, sub_zero]
    split_ifs with h
    · rw [h.2]
    · rfl
  | succ t ih =>
    intro ht
    rw [List.range_succ, List.foldl_append, ih (by omega)]
    simp only [List.foldl_cons, List.foldl_nil]
    funext r c
    rw [axpyF_real]
    have htj : t ≠ j := by omega
    by_cases h : j ≤ r ∧ c = j
    · obtain ⟨h1, h2⟩ := h
      subst h2
      simp only [h1, htj, and_false, and_true, if_false, if_true, le_refl, Finset.sum_range_succ]
      ring
    · simp only [if_neg h]

/-- full(ℝ): over ℝ the axpy sweep of step `j` replaces column `j` (rows `r ≥ j`) by
    `A r j − Σ_{k<j} A j k · A r k` -/
theorem sweepF_real (A : ℕ → ℕ → ℝ) (j r c : ℕ) :
    sweepF A j r c = if j ≤ r ∧ c = j then A r j - ∑ k ∈ range j, A j k * A r k else A r c := by
  unfold sweepF
  rw [sweep_partial A j j le_rfl]

/-- the `j`-th pivot (the value tested by `sqrt_denom`) -/
def pivot (A : ℕ → ℕ → ℝ) (j : ℕ) : ℝ := A j j - ∑ k ∈ range j, A j k * A j k

/-- full(ℝ): the diagonal entry after the sweep is the pivot. -/
theorem sweepF_diag (A : ℕ → ℕ → ℝ) (j : ℕ) : sweepF A j j j = pivot A j := by
  rw [sweepF_real]; simp [pivot]

/-- full(ℝ): over ℝ step `j` succeeds iff the pivot is positive -/
theorem stepF_real (A : ℕ → ℕ → ℝ) (j : ℕ) :
    stepF A j = if 0 < pivot A j then some (scaleF (sweepF A j) j) else none := by
  unfold stepF
  simp only [sweepF_diag, real_beq, lit0]
  by_cases h0 : pivot A j = 0
  · rw [if_pos h0, if_neg (by rw [h0]; exact lt_irrefl 0)]
  · rw [if_neg h0]
    by_cases h1 : 0 ≤ pivot A j
    · rw [if_pos h1, if_pos (lt_of_le_of_ne h1 (Ne.symm h0))]
    · rw [if_neg h1, if_neg (fun h => h1 h.le)]

/-- full(ℝ): the state after a successful step -/
theorem scaleF_sweepF_real (A : ℕ → ℕ → ℝ) (j r c : ℕ) :
    scaleF (sweepF A j) j r c =
      if j ≤ r ∧ c = j then
        (if r = j then Real.sqrt (pivot A j)
         else (A r j - ∑ k ∈ range j, A j k * A r k) / Real.sqrt (pivot A j))
      else A r c := by
  unfold scaleF
  rw [sweepF_diag, rfun_sqrt]
  by_cases h : j ≤ r ∧ c = j
  · rw [if_pos h, if_pos h]
    by_cases hr : r = j
    · rw [if_pos hr, if_pos hr]
    · rw [if_neg hr, if_neg hr, sweepF_real, if_pos ⟨h.1, rfl⟩]
  · rw [if_neg h, if_neg h, sweepF_real, if_neg h]

/-- full(ℝ): no steps. -/
theorem newF_zero (M : ℕ → ℕ → ℝ) : newF 0 M = some M := rfl

/-- full(∀α): one more step of the mirror algorithm. -/
theorem newF_succ {α : Type} [Add α] [Sub α] [Mul α] [Div α] [Neg α] [LT α] [LE α] [BEq α]
    [DecidableLT α] [DecidableLE α] [OfScientific α] [Inhabited α] [RFun α]
    (n : ℕ) (M : ℕ → ℕ → α) : newF (n + 1) M = (newF n M).bind (fun A => stepF A n) := by
  unfold newF
  rw [List.range_succ, List.foldl_append]
  rfl

/-! ### the invariant -/

/-- state of the left-looking algorithm after columns `0 .. j-1` have been finished -/
structure CholInv (M : ℕ → ℕ → ℝ) (j : ℕ) (A : ℕ → ℕ → ℝ) : Prop where
  diag_pos : ∀ c, c < j → 0 < A c c
  prod : ∀ c, c < j → ∀ r, c ≤ r → ∑ k ∈ range (c + 1), A r k * A c k = M r c
  rest : ∀ r c, (j ≤ c ∨ r < c) → A r c = M r c

/-- full(ℝ): the invariant holds initially. -/
theorem cholInv_zero (M : ℕ → ℕ → ℝ) : CholInv M 0 M :=
  ⟨fun c h => absurd h (Nat.not_lt_zero c), fun c h => absurd h (Nat.not_lt_zero c), fun _ _ _ => rfl⟩

/-- full(ℝ): under the invariant the pivot is the Schur-complement diagonal `M j j − Σ_{k<j} (A j k)²` -/
theorem pivot_of_inv {M A : ℕ → ℕ → ℝ} {j : ℕ} (h : CholInv M j A) :
    pivot A j = M j j - ∑ k ∈ range j, A j k * A j k := by
  unfold pivot
  rw [h.rest j j (Or.inl le_rfl)]

/-- full(ℝ): a successful step preserves the invariant -/
theorem cholInv_step {M A : ℕ → ℕ → ℝ} {j : ℕ} (h : CholInv M j A) (hp : 0 < pivot A j) :
    CholInv M (j + 1) (scaleF (sweepF A j) j) := by
  have hs : 0 < Real.sqrt (pivot A j) := Real.sqrt_pos.mpr hp
  have hss : Real.sqrt (pivot A j) * Real.sqrt (pivot A j) = pivot A j := Real.mul_self_sqrt hp.le
  have hold : ∀ r c, c ≠ j → scaleF (sweepF A j) j r c = A r c := by
    intro r c hc
    rw [scaleF_sweepF_real, if_neg (fun hh => hc hh.2)]
  refine ⟨?_, ?_, ?_⟩
  · intro c hc
    rcases Nat.lt_succ_iff_lt_or_eq.mp hc with hc | rfl
    · rw [hold c c (by omega)]; exact h.diag_pos c hc
    · rw [scaleF_sweepF_real, if_pos ⟨le_rfl, rfl⟩, if_pos rfl]; exact hs
  · intro c hc r hr
    rcases Nat.lt_succ_iff_lt_or_eq.mp hc with hc | rfl
    · rw [← h.prod c hc r hr]
      apply Finset.sum_congr rfl
      intro k hk
      have hk' : k < c + 1 := Finset.mem_range.mp hk
      rw [hold r k (by omega), hold c k (by omega)]
    · rw [Finset.sum_range_succ]
      have h1 : ∑ k ∈ range c, scaleF (sweepF A c) c r k * scaleF (sweepF A c) c c k =
          ∑ k ∈ range c, A c k * A r k := by
        apply Finset.sum_congr rfl
        intro k hk
        have hk' : k < c := Finset.mem_range.mp hk
        rw [hold r k (by omega), hold c k (by omega), mul_comm]
      rw [h1, scaleF_sweepF_real A c c c, if_pos ⟨le_rfl, rfl⟩, if_pos rfl,
        scaleF_sweepF_real A c r c, if_pos ⟨hr, rfl⟩]
      by_cases hrc : r = c
      · subst hrc
        rw [if_pos rfl, hss, pivot_of_inv h]
        ring
      · rw [if_neg hrc, div_mul_cancel₀ _ hs.ne', h.rest r c (Or.inl le_rfl)]
        ring
  · intro r c hrc
    have hcj : c ≠ j ∨ r < j := by omega
    rw [scaleF_sweepF_real]
    rw [if_neg (by rintro ⟨h1, h2⟩; omega)]
    exact h.rest r c (by omega)

/-- full(ℝ): a successful run of `n` steps ends in a state satisfying the invariant -/
theorem newF_inv (M : ℕ → ℕ → ℝ) : ∀ (n : ℕ) (A : ℕ → ℕ → ℝ), newF n M = some A → CholInv M n A := by
  intro n
  induction n with
  | zero =>
    intro A h
    rw [newF_zero] at h
    cases h
    exact cholInv_zero M
  | succ n ih =>
    intro A h
    rw [newF_succ] at h
    cases hB : newF n M with
    | none => rw [hB] at h; cases h
    | some B =>
      rw [hB, Option.bind_some, stepF_real] at h
      have hI := ih B hB
      by_cases hp : 0 < pivot B n
      · rw [if_pos hp] at h
        cases h
        exact cholInv_step hI hp
      · rw [if_neg hp] at h; cases h

/-- full(ℝ): `newF (n+1) M` in terms of `newF n M` and the pivot -/
theorem newF_succ_real (M : ℕ → ℕ → ℝ) (n : ℕ) (B : ℕ → ℕ → ℝ) (hB : newF n M = some B) :
    newF (n + 1) M = if 0 < pivot B n then some (scaleF (sweepF B n) n) else none := by
  rw [newF_succ, hB, Option.bind_some, stepF_real]

/-- full(ℝ): if a longer run succeeds, every prefix succeeds -/
theorem newF_prefix (M : ℕ → ℕ → ℝ) (n : ℕ) (h : newF (n + 1) M ≠ none) : newF n M ≠ none := by
  intro h0
  apply h
  rw [newF_succ, h0]
  rfl

/-! ### back substitution and the pivot as a value of the quadratic form -/

/-- the lower-triangular part of `A` -/
def lowerF (A : ℕ → ℕ → ℝ) : ℕ → ℕ → ℝ := fun r k => if k ≤ r then A r k else 0

/-- full(ℝ): back substitution: a lower-triangular system with a non-zero diagonal, transposed, is solvable -/
theorem backsub (A : ℕ → ℕ → ℝ) : ∀ (j : ℕ), (∀ k, k < j → A k k ≠ 0) → ∀ b : ℕ → ℝ,
    ∃ x : ℕ → ℝ, ∀ k, k < j → ∑ i ∈ range j, lowerF A i k * x i = b k := by
  intro j
  induction j with
  | zero => intro _ b; exact ⟨fun _ => 0, fun k hk => absurd hk (Nat.not_lt_zero k)⟩
  | succ j ih =>
    intro hd b
    have hjj : A j j ≠ 0 := hd j (Nat.lt_succ_self j)
    obtain ⟨x', hx'⟩ := ih (fun k hk => hd k (Nat.lt_succ_of_lt hk))
      (fun k => b k - lowerF A j k * (b j / A j j))
    refine ⟨Function.update x' j (b j / A j j), ?_⟩
    intro k hk
    rw [Finset.sum_range_succ, Function.update_self]
    have hsum : ∑ i ∈ range j, lowerF A i k * Function.update x' j (b j / A j j) i =
        ∑ i ∈ range j, lowerF A i k * x' i := by
      apply Finset.sum_congr rfl
      intro i hi
      have : i ≠ j := by have := Finset.mem_range.mp hi; omega
      rw [Function.update_of_ne this]
    rw [hsum]
    rcases Nat.lt_succ_iff_lt_or_eq.mp hk with hk | rfl
    · rw [hx' k hk]; ring
    · have hz : ∑ i ∈ range k, lowerF A i k * x' i = 0 := by
        apply Finset.sum_eq_zero
        intro i hi
        have : ¬ k ≤ i := by have := Finset.mem_range.mp hi; omega
        simp [lowerF, this]
      rw [hz, zero_add]
      simp only [lowerF, le_refl, if_true]
      field_simp

/-- the quadratic form of `M` on vectors indexed by `range n` -/
def quadF (n : ℕ) (M : ℕ → ℕ → ℝ) (z : ℕ → ℝ) : ℝ :=
  ∑ r ∈ range n, ∑ c ∈ range n, z r * M r c * z c

/-- full(ℝ): on the finished columns `M = T Tᵀ` (lower triangle), `T` = the finished columns -/
theorem inv_lower_prod {M A : ℕ → ℕ → ℝ} {j : ℕ} (h : CholInv M j A) (r c : ℕ) (hcj : c < j) (hcr : c ≤ r) :
    ∑ k ∈ range j, lowerF A r k * lowerF A c k = M r c := by
  rw [← h.prod c hcj r hcr]
  have hsub : range (c + 1) ⊆ range j := Finset.range_subset_range.mpr (by omega)
  rw [← Finset.sum_subset hsub]
  · apply Finset.sum_congr rfl
    intro k hk
    have hk' : k < c + 1 := Finset.mem_range.mp hk
    simp [lowerF, show k ≤ c by omega, show k ≤ r by omega]
  · intro k _ hk
    have hk' : ¬ k ≤ c := by
      intro hh; exact hk (Finset.mem_range.mpr (by omega))
    simp [lowerF, hk']

/-- full(ℝ): on `[0, j]²` the matrix is `T Tᵀ + pivot · e_j e_jᵀ`, `T` = the finished columns -/
theorem inv_factor {M A : ℕ → ℕ → ℝ} {j : ℕ} (h : CholInv M j A)
    (hsym : ∀ r c, r ≤ j → c ≤ j → M r c = M c r) (r c : ℕ) (hr : r ≤ j) (hc : c ≤ j) :
    M r c = ∑ k ∈ range j, lowerF A r k * lowerF A c k + (if r = j ∧ c = j then pivot A j else 0) := by
  -- the statement is symmetric in `r, c`: reduce to `c ≤ r`
  have key : ∀ r c, r ≤ j → c ≤ r →
      M r c = ∑ k ∈ range j, lowerF A r k * lowerF A c k + (if r = j ∧ c = j then pivot A j else 0) := by
    intro r c hr hcr
    by_cases hcj : c < j
    · rw [if_neg (by omega), add_zero, inv_lower_prod h r c hcj hcr]
    · have hc' : c = j := by omega
      have hr' : r = j := by omega
      subst hc'; subst hr'
      rw [if_pos ⟨rfl, rfl⟩, pivot_of_inv h]
      have : ∑ k ∈ range r, lowerF A r k * lowerF A r k = ∑ k ∈ range r, A r k * A r k := by
        apply Finset.sum_congr rfl
        intro k hk
        have hk' : k < r := Finset.mem_range.mp hk
        simp [lowerF, show k ≤ r by omega]
      rw [this]; ring
  rcases le_total c r with hcr | hrc
  · exact key r c hr hcr
  · rw [hsym r c hr hc, key c r hc hrc]
    congr 1
    · apply Finset.sum_congr rfl; intro k _; ring
    · simp only [and_comm]

/-- full(ℝ): the `j`-th pivot is the quadratic form of `M` at a vector with `z j = 1`, supported in `[0, j]` -/
theorem pivot_eq_quadForm {M A : ℕ → ℕ → ℝ} {j n : ℕ} (hjn : j < n) (h : CholInv M j A)
    (hsym : ∀ r c, r ≤ j → c ≤ j → M r c = M c r) :
    ∃ z : ℕ → ℝ, z j = 1 ∧ quadF n M z = pivot A j := by
  obtain ⟨x, hx⟩ := backsub A j (fun k hk => (h.diag_pos k hk).ne') (fun k => - A j k)
  let z : ℕ → ℝ := fun i => if i < j then x i else if i = j then 1 else 0
  have hzj : z j = 1 := by simp [z]
  have hzgt : ∀ i, j < i → z i = 0 := by
    intro i hi
    simp [z, show ¬ i < j by omega, show i ≠ j by omega]
  refine ⟨z, hzj, ?_⟩
  -- every term of the quadratic form, with the factorisation of `M` on `[0, j]²`
  have hterm : ∀ r c, z r * M r c * z c =
      ∑ k ∈ range j, (z r * lowerF A r k) * (z c * lowerF A c k) +
        (if r = j ∧ c = j then pivot A j else 0) := by
    intro r c
    by_cases hr : r ≤ j
    · by_cases hc : c ≤ j
      · rw [inv_factor h hsym r c hr hc, mul_add, add_mul, Finset.mul_sum, Finset.sum_mul]
        congr 1
        · apply Finset.sum_congr rfl; intro k _; ring
        · by_cases hh : r = j ∧ c = j
          · rw [if_pos hh, hh.1, hh.2, hzj]; ring
          · rw [if_neg hh]; ring
      · rw [hzgt c (by omega), if_neg (by omega)]
        simp
    · rw [hzgt r (by omega), if_neg (by omega)]
      simp
  -- the columns of `T` are orthogonal to `z`
  have hcol : ∀ k, k < j → ∑ r ∈ range n, z r * lowerF A r k = 0 := by
    intro k hk
    have hsub : range (j + 1) ⊆ range n := Finset.range_subset_range.mpr (by omega)
    rw [← Finset.sum_subset hsub]
    · rw [Finset.sum_range_succ, hzj]
      have : ∑ r ∈ range j, z r * lowerF A r k = ∑ i ∈ range j, lowerF A i k * x i := by
        apply Finset.sum_congr rfl
        intro i hi
        have : i < j := Finset.mem_range.mp hi
        simp [z, this, mul_comm]
      rw [this, hx k hk]
      simp [lowerF, show k ≤ j by omega]
    · intro i _ hi
      have : j < i := by
        by_contra hh; exact hi (Finset.mem_range.mpr (by omega))
      rw [hzgt i this, zero_mul]
  unfold quadF
  simp only [hterm, Finset.sum_add_distrib]
  have h1 : ∑ r ∈ range n, ∑ c ∈ range n, ∑ k ∈ range j, (z r * lowerF A r k) * (z c * lowerF A c k) = 0 := by
    have : ∀ r ∈ range n, ∑ c ∈ range n, ∑ k ∈ range j, (z r * lowerF A r k) * (z c * lowerF A c k) = 0 := by
      intro r _
      rw [Finset.sum_comm]
      apply Finset.sum_eq_zero
      intro k hk
      rw [← Finset.mul_sum, hcol k (Finset.mem_range.mp hk), mul_zero]
    exact Finset.sum_eq_zero this
  have h2 : ∑ r ∈ range n, ∑ c ∈ range n, (if r = j ∧ c = j then pivot A j else 0) = pivot A j := by
    rw [Finset.sum_eq_single j]
    · rw [Finset.sum_eq_single j]
      · simp
      · intro c _ hc; simp [hc]
      · intro hj; exact absurd (Finset.mem_range.mpr hjn) hj
    · intro r _ hr; simp [hr]
    · intro hj; exact absurd (Finset.mem_range.mpr hjn) hj
  rw [h1, h2, zero_add]

/-- full(ℝ): if the quadratic form of the (symmetric) `M` is positive on non-zero vectors, every prefix of the
    algorithm succeeds -/
theorem newF_of_posQuad (M : ℕ → ℕ → ℝ) (n : ℕ) (hsym : ∀ r c, r < n → c < n → M r c = M c r)
    (hpd : ∀ z : ℕ → ℝ, (∃ i, i < n ∧ z i ≠ 0) → 0 < quadF n M z) :
    ∀ j, j ≤ n → ∃ A, newF j M = some A := by
  intro j
  induction j with
  | zero => intro _; exact ⟨M, newF_zero M⟩
  | succ j ih =>
    intro hj
    obtain ⟨B, hB⟩ := ih (by omega)
    have hI := newF_inv M j B hB
    obtain ⟨z, hz1, hzq⟩ := pivot_eq_quadForm (n := n) (by omega) hI
      (fun r c hr hc => hsym r c (by omega) (by omega))
    have hp : 0 < pivot B j := by
      rw [← hzq]
      exact hpd z ⟨j, by omega, by rw [hz1]; exact one_ne_zero⟩
    exact ⟨_, by rw [newF_succ_real M j B hB, if_pos hp]⟩

end Statrs.Lemmas.Cholesky
