/-
  Statrs.Draft.Lemmas.CholeskySolve — the two triangular solves of nalgebra's `Cholesky::inverse`
  (hand models `LA.solveLower`, `LA.adSolveLower`, `LA.choleskyInverse`) over ℝ:

    * function-indexed mirrors `fwdF`, `bwdF` with proved equations to the list model on
      `ofFn n A` / `ofFnV n b`;
    * `fwdF_spec`: forward substitution solves `L y = b` (`L` = lower triangle of `A`, non-zero diagonal);
    * `bwdF_spec`: back substitution solves `Lᵀ x = y`;
    * `choleskyInverse_ofFn`: the list `Cholesky::inverse` is `ofFn n` of the column-wise double solve.
-/
import Statrs.Lemmas.CholeskyReal
set_option linter.unusedSectionVars false
set_option linter.unusedVariables false
namespace Statrs.Lemmas.Cholesky
open Statrs Statrs.Model Statrs.Lemmas.Multivariate Finset

/-- the length-`n` list with entries `v i` -/
def ofFnV (n : ℕ) (v : ℕ → ℝ) : List ℝ := (List.range n).map v

/-- full(ℝ): length of `ofFnV n v`. -/
theorem ofFnV_length (n : ℕ) (v : ℕ → ℝ) : (ofFnV n v).length = n := by simp [ofFnV]

/-- full(ℝ): entries of `ofFnV n v`. -/
theorem getElem_ofFnV (n : ℕ) (v : ℕ → ℝ) (i : ℕ) (h : i < (ofFnV n v).length) : (ofFnV n v)[i] = v i := by
  simp [ofFnV]

/-- full(ℝ): entries of `ofFnV n v` through `getD`. -/
theorem getD_ofFnV (n : ℕ) (v : ℕ → ℝ) (i : ℕ) (hi : i < n) (d : ℝ) : (ofFnV n v).getD i d = v i := by
  simp [ofFnV, hi]

/-- full(ℝ): `ofFnV n` only depends on the entries with index `< n`. -/
theorem ofFnV_congr {n : ℕ} {v w : ℕ → ℝ} (h : ∀ i, i < n → v i = w i) : ofFnV n v = ofFnV n w := by
  unfold ofFnV
  apply List.map_congr_left
  intro i hi
  exact h i (List.mem_range.mp hi)

/-- full(ℝ): every length-`n` list is `ofFnV n` of its entry function. -/
theorem eq_ofFnV {n : ℕ} {b : List ℝ} (h : b.length = n) : b = ofFnV n (fun i => b.getD i 0) := by
  apply List.ext_getElem
  · simp [ofFnV, h]
  · intro i h1 h2
    rw [getElem_ofFnV]
    simp [List.getD_eq_getElem?_getD, h1]

/-- full(ℝ): `LA.col` of `ofFn n A`. -/
theorem col_ofFn (n : ℕ) (A : ℕ → ℕ → ℝ) (c : ℕ) (hc : c < n) :
    LA.col (ofFn n A) c = ofFnV n (fun i => A i c) := by
  unfold LA.col ofFn ofFnV
  rw [List.map_map]
  apply List.map_congr_left
  intro i _
  simp [hc]

/-- full(ℝ): `LA.identity n` over ℝ. -/
theorem identity_eq_ofFn (n : ℕ) :
    (LA.identity n : List (List ℝ)) = ofFn n (fun i j => if i = j then 1 else 0) := by
  unfold LA.identity ofFn
  simp only [lit0, lit1]

/-- full(ℝ): `LA.transpose` of `ofFn n A`. -/
theorem transpose_ofFn (n : ℕ) (A : ℕ → ℕ → ℝ) : LA.transpose (ofFn n A) = ofFn n (fun i j => A j i) := by
  unfold LA.transpose
  rw [ofFn_length]
  unfold ofFn
  apply List.map_congr_left
  intro j hj
  have := col_ofFn n A j (List.mem_range.mp hj)
  unfold ofFn at this
  rw [this]
  rfl

/-! ### forward substitution -/

/-- mirror of one step of `LA.solveLower` -/
noncomputable def fwdStepF (A : ℕ → ℕ → ℝ) (b : ℕ → ℝ) (i : ℕ) : ℕ → ℝ :=
  fun r => if r < i then b r else if r = i then b i / A i i else b r - (b i / A i i) * A r i

/-- mirror of `LA.solveLower` -/
noncomputable def fwdF (n : ℕ) (A : ℕ → ℕ → ℝ) (b : ℕ → ℝ) : ℕ → ℝ := (List.range n).foldl (fwdStepF A) b

/-- full(ℝ): one step of `LA.solveLower` on `ofFn`/`ofFnV` is the mirror `fwdStepF`. -/
theorem solveLower_step_ofFn (n : ℕ) (A : ℕ → ℕ → ℝ) (b : ℕ → ℝ) (i : ℕ) (hi : i < n) :
    (ofFnV n b).mapIdx (fun r br =>
      if r < i then br
      else if r = i then ((ofFnV n b).getD i default) / (LA.mget (ofFn n A) i i)
      else ((-(((ofFnV n b).getD i default) / (LA.mget (ofFn n A) i i))) * (LA.mget (ofFn n A) r i)) * (1.0 : ℝ)
            + (1.0 : ℝ) * br) = ofFnV n (fwdStepF A b i) := by
  apply List.ext_getElem
  · simp [ofFnV_length]
  · intro r h1 h2
    have hr : r < n := by simpa [ofFnV_length] using h2
    rw [List.getElem_mapIdx, getElem_ofFnV, getElem_ofFnV, getD_ofFnV n b i hi, mget_ofFn n A i i hi hi,
      mget_ofFn n A r i hr hi, lit1]
    unfold fwdStepF
    split_ifs <;> ring

/-- full(ℝ): the fold of `LA.solveLower` is the fold of the mirror. -/
theorem solveLower_fold_ofFn (n : ℕ) (A : ℕ → ℕ → ℝ) : ∀ (l : List ℕ) (b : ℕ → ℝ), (∀ i ∈ l, i < n) →
    l.foldl (fun b i =>
      let coeff := (b.getD i default) / (LA.mget (ofFn n A) i i)
      b.mapIdx (fun r br =>
        if r < i then br
        else if r = i then coeff
        else ((-coeff) * (LA.mget (ofFn n A) r i)) * (1.0 : ℝ) + (1.0 : ℝ) * br)) (ofFnV n b) =
      ofFnV n (l.foldl (fwdStepF A) b) := by
  intro l
  induction l with
  | nil => intro b _; rfl
  | cons i t ih =>
    intro b h
    rw [List.foldl_cons, List.foldl_cons]
    have := solveLower_step_ofFn n A b i (h i List.mem_cons_self)
    simp only at this ⊢
    rw [this, ih _ (fun x hx => h x (List.mem_cons_of_mem _ hx))]

/-- full(ℝ): `LA.solveLower` on `ofFn n A`, `ofFnV n b` is `ofFnV n (fwdF n A b)`. -/
theorem solveLower_ofFn (n : ℕ) (A : ℕ → ℕ → ℝ) (b : ℕ → ℝ) :
    LA.solveLower (ofFn n A) (ofFnV n b) = ofFnV n (fwdF n A b) := by
  unfold LA.solveLower fwdF
  rw [ofFn_length]
  exact solveLower_fold_ofFn n A (List.range n) b (fun i hi => List.mem_range.mp hi)

/-- state of forward substitution after `t` steps -/
structure FwdInv (A : ℕ → ℕ → ℝ) (b0 : ℕ → ℝ) (t : ℕ) (b : ℕ → ℝ) : Prop where
  done : ∀ r, r < t → ∑ k ∈ range (r + 1), A r k * b k = b0 r
  rest : ∀ r, t ≤ r → b r = b0 r - ∑ k ∈ range t, A r k * b k

/-- full(ℝ): one step of forward substitution preserves `FwdInv`. -/
theorem fwdInv_step {A : ℕ → ℕ → ℝ} {b0 b : ℕ → ℝ} {t : ℕ} (hd : A t t ≠ 0) (h : FwdInv A b0 t b) :
    FwdInv A b0 (t + 1) (fwdStepF A b t) := by
  have hlt : ∀ k, k < t → fwdStepF A b t k = b k := fun k hk => by simp [fwdStepF, hk]
  have hsum : ∀ r, ∑ k ∈ range t, A r k * fwdStepF A b t k = ∑ k ∈ range t, A r k * b k := by
    intro r
    apply Finset.sum_congr rfl
    intro k hk
    rw [hlt k (Finset.mem_range.mp hk)]
  refine ⟨?_, ?_⟩
  · intro r hr
    rcases Nat.lt_succ_iff_lt_or_eq.mp hr with hr | rfl
    · rw [← h.done r hr]
      apply Finset.sum_congr rfl
      intro k hk
      have : k < r + 1 := Finset.mem_range.mp hk
      rw [hlt k (by omega)]
    · rw [Finset.sum_range_succ, hsum]
      have : fwdStepF A b r r = b r / A r r := by simp [fwdStepF]
      rw [this, h.rest r le_rfl]
      field_simp
      ring
  · intro r hr
    rw [Finset.sum_range_succ, hsum]
    have h1 : fwdStepF A b t t = b t / A t t := by simp [fwdStepF]
    have h2 : fwdStepF A b t r = b r - (b t / A t t) * A r t := by
      simp [fwdStepF, show ¬ r < t by omega, show r ≠ t by omega]
    rw [h1, h2, h.rest r (by omega)]
    ring

/-- full(ℝ): `FwdInv` after `t` steps of forward substitution. -/
theorem fwd_fold_inv (A : ℕ → ℕ → ℝ) (b0 : ℕ → ℝ) : ∀ t, (∀ k, k < t → A k k ≠ 0) →
    FwdInv A b0 t ((List.range t).foldl (fwdStepF A) b0) := by
  intro t
  induction t with
  | zero => intro _; exact ⟨fun r hr => absurd hr (Nat.not_lt_zero r), fun r _ => by simp⟩
  | succ t ih =>
    intro hd
    rw [List.range_succ, List.foldl_append]
    exact fwdInv_step (hd t (Nat.lt_succ_self t)) (ih (fun k hk => hd k (Nat.lt_succ_of_lt hk)))

/-- full(ℝ): forward substitution solves `L y = b` -/
theorem fwdF_spec (n : ℕ) (A : ℕ → ℕ → ℝ) (b : ℕ → ℝ) (hd : ∀ k, k < n → A k k ≠ 0) (r : ℕ) (hr : r < n) :
    ∑ k ∈ range n, lowerF A r k * fwdF n A b k = b r := by
  have h := (fwd_fold_inv A b n hd).done r hr
  rw [← h]
  have hsub : range (r + 1) ⊆ range n := Finset.range_subset_range.mpr (by omega)
  rw [← Finset.sum_subset hsub]
  · apply Finset.sum_congr rfl
    intro k hk
    have : k < r + 1 := Finset.mem_range.mp hk
    simp [lowerF, show k ≤ r by omega, fwdF]
  · intro k _ hk
    have : ¬ k ≤ r := fun hh => hk (Finset.mem_range.mpr (by omega))
    simp [lowerF, this]

/-! ### back substitution -/

/-- mirror of one step of `LA.adSolveLower` -/
noncomputable def bwdStepF (n : ℕ) (A : ℕ → ℕ → ℝ) (b : ℕ → ℝ) (i : ℕ) : ℕ → ℝ :=
  Function.update b i ((b i - ∑ r ∈ Ico (i + 1) n, A r i * b r) / A i i)

/-- mirror of `LA.adSolveLower` -/
noncomputable def bwdF (n : ℕ) (A : ℕ → ℕ → ℝ) (b : ℕ → ℝ) : ℕ → ℝ := (List.range n).reverse.foldl (bwdStepF n A) b

/-- full(ℝ): the sum over `(List.range n).drop i` is the sum over `Finset.Ico i n`. -/
theorem sum_drop_range (n i : ℕ) (f : ℕ → ℝ) :
    (((List.range n).drop i).map f).sum = ∑ r ∈ Ico i n, f r := by
  rcases Nat.lt_or_ge n i with h | h
  · rw [List.drop_eq_nil_of_le (by simp; omega), Finset.Ico_eq_empty (by omega)]; simp
  · have h1 : ((List.range n).map f).sum = (((List.range n).take i).map f).sum + (((List.range n).drop i).map f).sum := by
      rw [← List.sum_append, ← List.map_append, List.take_append_drop]
    rw [List.take_range, min_eq_left h, list_sum_range_eq_finset, list_sum_range_eq_finset] at h1
    rw [Finset.sum_Ico_eq_sub _ h]
    linarith

/-- full(ℝ): `List.set` on `ofFnV` is `Function.update`. -/
theorem set_ofFnV (n : ℕ) (b : ℕ → ℝ) (i : ℕ) (v : ℝ) :
    (ofFnV n b).set i v = ofFnV n (Function.update b i v) := by
  apply List.ext_getElem
  · simp [ofFnV_length]
  · intro r h1 h2
    rw [List.getElem_set, getElem_ofFnV, getElem_ofFnV]
    by_cases h : i = r
    · subst h; simp
    · rw [if_neg h, Function.update_of_ne (fun hh => h hh.symm)]

/-- full(ℝ): the `dotx` of one step of `LA.adSolveLower` is `Σ_{r>i} A r i · b r`. -/
theorem adSolve_dot_ofFn (n : ℕ) (A : ℕ → ℕ → ℝ) (b : ℕ → ℝ) (i : ℕ) (hi : i < n) :
    LA.dotx (LA.col ((ofFn n A).drop (i + 1)) i) ((ofFnV n b).drop (i + 1)) =
      ∑ r ∈ Ico (i + 1) n, A r i * b r := by
  rw [dotx_eq_sum, ← sum_drop_range]
  congr 1
  unfold LA.col ofFn ofFnV
  rw [← List.map_drop, ← List.map_drop, List.map_map, List.zipWith_map, List.zipWith_self]
  apply List.map_congr_left
  intro r _
  simp [hi]

/-- full(ℝ): one step of `LA.adSolveLower` on `ofFn`/`ofFnV` is the mirror `bwdStepF`. -/
theorem adSolve_step_ofFn (n : ℕ) (A : ℕ → ℕ → ℝ) (b : ℕ → ℝ) (i : ℕ) (hi : i < n) :
    (ofFnV n b).set i ((((ofFnV n b).getD i default) -
        LA.dotx (LA.col ((ofFn n A).drop (i + 1)) i) ((ofFnV n b).drop (i + 1))) / (LA.mget (ofFn n A) i i)) =
      ofFnV n (bwdStepF n A b i) := by
  rw [adSolve_dot_ofFn n A b i hi, getD_ofFnV n b i hi, mget_ofFn n A i i hi hi, set_ofFnV]
  rfl

/-- full(ℝ): the fold of `LA.adSolveLower` is the fold of the mirror. -/
theorem adSolve_fold_ofFn (n : ℕ) (A : ℕ → ℕ → ℝ) : ∀ (l : List ℕ) (b : ℕ → ℝ), (∀ i ∈ l, i < n) →
    l.foldl (fun b i =>
      let d := LA.dotx (LA.col ((ofFn n A).drop (i + 1)) i) (b.drop (i + 1))
      b.set i (((b.getD i default) - d) / (LA.mget (ofFn n A) i i))) (ofFnV n b) =
      ofFnV n (l.foldl (bwdStepF n A) b) := by
  intro l
  induction l with
  | nil => intro b _; rfl
  | cons i t ih =>
    intro b h
    rw [List.foldl_cons, List.foldl_cons]
    have := adSolve_step_ofFn n A b i (h i List.mem_cons_self)
    simp only at this ⊢
    rw [this, ih _ (fun x hx => h x (List.mem_cons_of_mem _ hx))]

/-- full(ℝ): `LA.adSolveLower` on `ofFn n A`, `ofFnV n b` is `ofFnV n (bwdF n A b)`. -/
theorem adSolveLower_ofFn (n : ℕ) (A : ℕ → ℕ → ℝ) (b : ℕ → ℝ) :
    LA.adSolveLower (ofFn n A) (ofFnV n b) = ofFnV n (bwdF n A b) := by
  unfold LA.adSolveLower bwdF
  rw [ofFn_length]
  exact adSolve_fold_ofFn n A (List.range n).reverse b (fun i hi => List.mem_range.mp (List.mem_reverse.mp hi))

/-- full(ℝ): back substitution from a state in which the rows `≥ t` are already solved -/
theorem bwd_fold_inv (n : ℕ) (A : ℕ → ℕ → ℝ) (b0 : ℕ → ℝ) (hd : ∀ k, k < n → A k k ≠ 0) :
    ∀ t, t ≤ n → ∀ b : ℕ → ℝ,
      (∀ i, t ≤ i → i < n → ∑ r ∈ Ico i n, A r i * b r = b0 i) → (∀ i, i < t → b i = b0 i) →
      ∀ i, i < n → ∑ r ∈ Ico i n, A r i * ((List.range t).reverse.foldl (bwdStepF n A) b) r = b0 i := by
  intro t
  induction t with
  | zero => intro _ b h1 _ i hi; exact h1 i (Nat.zero_le i) hi
  | succ t ih =>
    intro ht b h1 h2 i hi
    rw [List.range_succ, List.reverse_append, List.reverse_singleton, List.singleton_append, List.foldl_cons]
    have htn : t < n := by omega
    apply ih (by omega) (bwdStepF n A b t) _ _ i hi
    · intro i' hti hin
      have hne : ∀ r ∈ Ico (t + 1) n, bwdStepF n A b t r = b r := by
        intro r hr
        have : r ≠ t := by have := (Finset.mem_Ico.mp hr).1; omega
        simp [bwdStepF, Function.update_of_ne this]
      rcases Nat.eq_or_lt_of_le hti with rfl | hti
      · rw [← Finset.sum_Ioo_add_eq_sum_Ico htn]
        have hIoo : Ioo t n = Ico (t + 1) n := by
          ext x; simp only [Finset.mem_Ioo, Finset.mem_Ico]; omega
        rw [hIoo, Finset.sum_congr rfl (fun r hr => by rw [hne r hr])]
        have : bwdStepF n A b t t = (b t - ∑ r ∈ Ico (t + 1) n, A r t * b r) / A t t := by
          simp [bwdStepF]
        rw [this, h2 t (Nat.lt_succ_self t)]
        have := hd t htn
        field_simp
        ring
      · rw [← h1 i' hti hin]
        apply Finset.sum_congr rfl
        intro r hr
        have : r ≠ t := by have := (Finset.mem_Ico.mp hr).1; omega
        simp [bwdStepF, Function.update_of_ne this]
    · intro i' hi'
      have : i' ≠ t := by omega
      simp only [bwdStepF, Function.update_of_ne this]
      exact h2 i' (by omega)

/-- full(ℝ): back substitution solves `Lᵀ x = y` -/
theorem bwdF_spec (n : ℕ) (A : ℕ → ℕ → ℝ) (b : ℕ → ℝ) (hd : ∀ k, k < n → A k k ≠ 0) (i : ℕ) (hi : i < n) :
    ∑ r ∈ range n, lowerF A r i * bwdF n A b r = b i := by
  have h := bwd_fold_inv n A b hd n le_rfl b (fun i h1 h2 => by omega) (fun _ _ => rfl) i hi
  rw [← h]
  have hsub : Ico i n ⊆ range n := by
    intro x hx; exact Finset.mem_range.mpr (Finset.mem_Ico.mp hx).2
  rw [← Finset.sum_subset hsub]
  · apply Finset.sum_congr rfl
    intro r hr
    have : i ≤ r := (Finset.mem_Ico.mp hr).1
    simp [lowerF, this, bwdF]
  · intro r hr hnr
    have : ¬ i ≤ r := fun hh => hnr (Finset.mem_Ico.mpr ⟨hh, Finset.mem_range.mp hr⟩)
    simp [lowerF, this]

/-! ### `Cholesky::inverse` -/

/-- mirror of `LA.choleskyInverse`: column `c` is the double solve of the unit vector `e_c` -/
noncomputable def inverseF (n : ℕ) (A : ℕ → ℕ → ℝ) : ℕ → ℕ → ℝ :=
  fun i c => bwdF n A (fwdF n A (fun k => if k = c then 1 else 0)) i

/-- full(ℝ): `LA.choleskyInverse` on `ofFn n A` is `ofFn n (inverseF n A)`. -/
theorem choleskyInverse_ofFn (n : ℕ) (A : ℕ → ℕ → ℝ) :
    LA.choleskyInverse (ofFn n A) = ofFn n (inverseF n A) := by
  unfold LA.choleskyInverse
  rw [ofFn_length]
  have hcols : (List.range n).map (fun c =>
        LA.adSolveLower (ofFn n A) (LA.solveLower (ofFn n A) (LA.col (LA.identity n) c))) =
      ofFn n (fun c i => inverseF n A i c) := by
    have hr : ofFn n (fun c i => inverseF n A i c) =
        (List.range n).map (fun c => ofFnV n (fun i => inverseF n A i c)) := rfl
    rw [hr]
    apply List.map_congr_left
    intro c hc
    have hc' : c < n := List.mem_range.mp hc
    have h1 := col_ofFn n (fun i j => if i = j then (1 : ℝ) else 0) c hc'
    rw [← identity_eq_ofFn] at h1
    rw [h1, solveLower_ofFn, adSolveLower_ofFn]
    rfl
  rw [hcols, transpose_ofFn]

end Statrs.Lemmas.Cholesky
