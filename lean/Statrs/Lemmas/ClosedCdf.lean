/-
  Statrs.Lemmas.ClosedCdf — helper lemmas for the closed-form continuous families
  (Uniform, Exp, Cauchy, Laplace, Gumbel, Pareto, Triangular, Weibull, Dirac).

  Part 1: "clean forms" — the generated `X.cdf` / `X.sf` over ℝ rewritten with Mathlib's
  functions and rational literals (these are the generated bodies, only re-spelled; each is
  proved by unfolding the generated definition).
  Part 2: small real-analysis facts used by Props/C01 and Props/C02.
-/
import Statrs.Real.Simp
import Statrs.Gen.D_uniform
import Statrs.Gen.D_exponential
import Statrs.Gen.D_cauchy
import Statrs.Gen.D_laplace
import Statrs.Gen.D_gumbel
import Statrs.Gen.D_pareto
import Statrs.Gen.D_triangular
import Statrs.Gen.D_weibull
import Statrs.Gen.D_dirac
import Mathlib.Tactic
namespace Statrs.Lemmas.ClosedCdf
open Statrs Statrs.Gen

/-! ## Part 1 — clean forms of the generated bodies over ℝ -/

theorem uniform_cdf_eq (d : Uniform ℝ) (x : ℝ) :
    Uniform.cdf d x = if x ≤ d.f_min then 0 else if d.f_max ≤ x then 1
      else (x - d.f_min) / (d.f_max - d.f_min) := by
  unfold Uniform.cdf; norm_num

theorem uniform_sf_eq (d : Uniform ℝ) (x : ℝ) :
    Uniform.sf d x = if x ≤ d.f_min then 1 else if d.f_max ≤ x then 0
      else (d.f_max - x) / (d.f_max - d.f_min) := by
  unfold Uniform.sf; norm_num

theorem exp_cdf_eq (d : Exp ℝ) (x : ℝ) :
    Exp.cdf d x = if x < 0 then 0 else 1 - Real.exp (-d.f_rate * x) := by
  unfold Exp.cdf; rfun_norm; norm_num

theorem exp_sf_eq (d : Exp ℝ) (x : ℝ) :
    Exp.sf d x = if x < 0 then 1 else Real.exp (-d.f_rate * x) := by
  unfold Exp.sf; rfun_norm; norm_num

theorem cauchy_cdf_eq (d : Cauchy ℝ) (x : ℝ) :
    Cauchy.cdf d x = 1 / Real.pi * Real.arctan ((x - d.f_location) / d.f_scale) + 1 / 2 := by
  unfold Cauchy.cdf; rfun_norm; norm_num

theorem cauchy_sf_eq (d : Cauchy ℝ) (x : ℝ) :
    Cauchy.sf d x = 1 / Real.pi * Real.arctan ((d.f_location - x) / d.f_scale) + 1 / 2 := by
  unfold Cauchy.sf; rfun_norm; norm_num

theorem laplace_cdf_eq (d : Laplace ℝ) (x : ℝ) :
    Laplace.cdf d x =
      if d.f_location ≤ x then 1 - Real.exp (-|x - d.f_location| / d.f_scale) / 2
      else Real.exp (-|x - d.f_location| / d.f_scale) / 2 := by
  unfold Laplace.cdf; rfun_norm; norm_num

theorem laplace_sf_eq (d : Laplace ℝ) (x : ℝ) :
    Laplace.sf d x =
      if d.f_location ≤ x then Real.exp (-|x - d.f_location| / d.f_scale) / 2
      else 1 - Real.exp (-|x - d.f_location| / d.f_scale) / 2 := by
  unfold Laplace.sf; rfun_norm; norm_num

theorem gumbel_cdf_eq (d : Gumbel ℝ) (x : ℝ) :
    Gumbel.cdf d x = Real.exp (-Real.exp (-(x - d.f_location) / d.f_scale)) := by
  unfold Gumbel.cdf; rfun_norm

theorem gumbel_sf_eq (d : Gumbel ℝ) (x : ℝ) :
    Gumbel.sf d x = 1 - Real.exp (-Real.exp (-(x - d.f_location) / d.f_scale)) := by
  unfold Gumbel.sf; rfun_norm; ring

theorem pareto_cdf_eq (d : Pareto ℝ) (x : ℝ) :
    Pareto.cdf d x = if x < d.f_scale then 0 else 1 - (d.f_scale / x) ^ d.f_shape := by
  unfold Pareto.cdf; rfun_norm; norm_num

theorem pareto_sf_eq (d : Pareto ℝ) (x : ℝ) :
    Pareto.sf d x = if x < d.f_scale then 1 else (d.f_scale / x) ^ d.f_shape := by
  unfold Pareto.sf; rfun_norm; norm_num

theorem triangular_cdf_eq (d : Triangular ℝ) (x : ℝ) :
    Triangular.cdf d x =
      if x ≤ d.f_min then 0
      else if x ≤ d.f_mode then
        ((x - d.f_min) * (x - d.f_min)) / ((d.f_max - d.f_min) * (d.f_mode - d.f_min))
      else if x < d.f_max then
        1 - ((d.f_max - x) * (d.f_max - x)) / ((d.f_max - d.f_min) * (d.f_max - d.f_mode))
      else 1 := by
  unfold Triangular.cdf; rfun_norm; norm_num

theorem triangular_sf_eq (d : Triangular ℝ) (x : ℝ) :
    Triangular.sf d x =
      if x ≤ d.f_min then 1
      else if x ≤ d.f_mode then
        1 - ((x - d.f_min) * (x - d.f_min)) / ((d.f_max - d.f_min) * (d.f_mode - d.f_min))
      else if x < d.f_max then
        ((d.f_max - x) * (d.f_max - x)) / ((d.f_max - d.f_min) * (d.f_max - d.f_mode))
      else 0 := by
  unfold Triangular.sf; rfun_norm; norm_num

theorem weibull_cdf_eq (d : Weibull ℝ) (x : ℝ) :
    Weibull.cdf d x =
      if x < 0 then 0 else 1 - Real.exp (-(x ^ d.f_shape) * d.f_scale_pow_shape_inv) := by
  unfold Weibull.cdf; rfun_norm; norm_num

theorem weibull_sf_eq (d : Weibull ℝ) (x : ℝ) :
    Weibull.sf d x =
      if x < 0 then 1 else Real.exp (-(x ^ d.f_shape) * d.f_scale_pow_shape_inv) := by
  unfold Weibull.sf; rfun_norm; norm_num

theorem dirac_cdf_eq (d : Dirac ℝ) (x : ℝ) :
    Dirac.cdf d x = if x < d.f_0 then 0 else 1 := by
  unfold Dirac.cdf; norm_num

theorem dirac_sf_eq (d : Dirac ℝ) (x : ℝ) :
    Dirac.sf d x = if x < d.f_0 then 1 else 0 := by
  unfold Dirac.sf; norm_num

/-! ## Part 2 — real-analysis helpers -/

/-- `1 - exp (-t)` lies in `[0,1)` for `t ≥ 0`. -/
theorem one_sub_exp_neg_nonneg {t : ℝ} (ht : 0 ≤ t) : 0 ≤ 1 - Real.exp (-t) := by
  have : Real.exp (-t) ≤ 1 := Real.exp_le_one_iff.mpr (by linarith)
  linarith

theorem arctan_neg_div (a b s : ℝ) :
    Real.arctan ((a - b) / s) = -Real.arctan ((b - a) / s) := by
  rw [← Real.arctan_neg]; congr 1; ring

/-- `1/π · arctan t + 1/2 ∈ (0,1)`. -/
theorem cauchy_core_pos (t : ℝ) : 0 < 1 / Real.pi * Real.arctan t + 1 / 2 := by
  have hpi := Real.pi_pos
  have h := Real.neg_pi_div_two_lt_arctan t
  have : 1 / Real.pi * Real.arctan t + 1 / 2 = (Real.arctan t + Real.pi / 2) / Real.pi := by
    field_simp
  rw [this]; apply div_pos <;> linarith

theorem cauchy_core_lt_one (t : ℝ) : 1 / Real.pi * Real.arctan t + 1 / 2 < 1 := by
  have hpi := Real.pi_pos
  have h := Real.arctan_lt_pi_div_two t
  have : 1 / Real.pi * Real.arctan t + 1 / 2 = (Real.arctan t + Real.pi / 2) / Real.pi := by
    field_simp
  rw [this, div_lt_one hpi]; linarith

theorem cauchy_core_mono {s t : ℝ} (h : s ≤ t) :
    1 / Real.pi * Real.arctan s + 1 / 2 ≤ 1 / Real.pi * Real.arctan t + 1 / 2 := by
  have hpi : 0 ≤ 1 / Real.pi := by positivity
  have := Real.arctan_strictMono.monotone h
  nlinarith

/-- `x ↦ (s/x)^k` is antitone on `[s,∞)` for `s,k > 0`. -/
theorem pareto_tail_anti {s k x y : ℝ} (hs : 0 < s) (hk : 0 < k) (hx : s ≤ x) (hxy : x ≤ y) :
    (s / y) ^ k ≤ (s / x) ^ k := by
  have hx0 : 0 < x := lt_of_lt_of_le hs hx
  have hy0 : 0 < y := lt_of_lt_of_le hx0 hxy
  apply Real.rpow_le_rpow (by positivity) _ hk.le
  exact div_le_div_of_nonneg_left hs.le hx0 hxy

theorem pareto_tail_le_one {s k x : ℝ} (hs : 0 < s) (hk : 0 < k) (hx : s ≤ x) :
    (s / x) ^ k ≤ 1 := by
  have hx0 : 0 < x := lt_of_lt_of_le hs hx
  apply Real.rpow_le_one (by positivity) _ hk.le
  rw [div_le_one hx0]; exact hx

theorem pareto_tail_nonneg {s k x : ℝ} (hs : 0 < s) (hx : s ≤ x) : 0 ≤ (s / x) ^ k := by
  have hx0 : 0 < x := lt_of_lt_of_le hs hx
  positivity

end Statrs.Lemmas.ClosedCdf
