/-
  Statrs.Lemmas.ClosedCdfErfc — clean forms over ℝ of the generated cdf/sf bodies of the
  erfc-based families (Normal, LogNormal, Levy).  `SF.erfc` / `SF.erf` stay abstract.
  Over ℝ `RFun.isInf _ = false`, so the `x = +inf` branches of LogNormal/Levy disappear.
-/
import Statrs.Real.Simp
import Statrs.Gen.D_normal
import Statrs.Gen.D_log_normal
import Statrs.Gen.D_levy
import Mathlib.Tactic
namespace Statrs.Lemmas.ClosedCdfErfc
open Statrs Statrs.Gen
variable [SF ℝ]

theorem normal_cdf_eq (d : Normal ℝ) (x : ℝ) :
    Normal.cdf d x = 1 / 2 * SF.erfc ((d.f_mean - x) / (d.f_std_dev * Real.sqrt 2)) := by
  unfold Normal.cdf D.normal.cdf_unchecked; rfun_norm; norm_num

theorem normal_sf_eq (d : Normal ℝ) (x : ℝ) :
    Normal.sf d x = 1 / 2 * SF.erfc ((x - d.f_mean) / (d.f_std_dev * Real.sqrt 2)) := by
  unfold Normal.sf D.normal.sf_unchecked; rfun_norm; norm_num

theorem log_normal_cdf_eq (d : LogNormal ℝ) (x : ℝ) :
    LogNormal.cdf d x = if x ≤ 0 then 0
      else 1 / 2 * SF.erfc ((d.f_location - Real.log x) / (d.f_scale * Real.sqrt 2)) := by
  unfold LogNormal.cdf; rfun_norm; norm_num

theorem log_normal_sf_eq (d : LogNormal ℝ) (x : ℝ) :
    LogNormal.sf d x = if x ≤ 0 then 1
      else 1 / 2 * SF.erfc ((Real.log x - d.f_location) / (d.f_scale * Real.sqrt 2)) := by
  unfold LogNormal.sf; rfun_norm; norm_num

theorem levy_cdf_eq (d : Levy ℝ) (x : ℝ) :
    Levy.cdf d x = if x ≤ d.f_mu then 0
      else SF.erfc (Real.sqrt (1 / 2 * d.f_c / (x - d.f_mu))) := by
  unfold Levy.cdf; rfun_norm; norm_num

theorem levy_sf_eq (d : Levy ℝ) (x : ℝ) :
    Levy.sf d x = if x ≤ d.f_mu then 1
      else SF.erf (Real.sqrt (1 / 2 * d.f_c / (x - d.f_mu))) := by
  unfold Levy.sf; rfun_norm; norm_num

omit [SF ℝ] in
theorem sqrt_two_pos : 0 < Real.sqrt 2 := Real.sqrt_pos.mpr (by norm_num)

end Statrs.Lemmas.ClosedCdfErfc
