/-
  Statrs.Lemmas.ClosedCdfMathlib — closed forms of `ProbabilityTheory.cdf` for Mathlib's
  `paretoMeasure` and `cauchyMeasure` (Mathlib only provides the integral forms; the exponential
  one is `ProbabilityTheory.cdf_expMeasure_eq`).  Pure Mathlib facts, no model definitions.
-/
import Mathlib.Probability.CDF
import Mathlib.Probability.Distributions.Exponential
import Mathlib.Probability.Distributions.Cauchy
import Mathlib.Probability.Distributions.Pareto
import Mathlib.MeasureTheory.Integral.IntegralEqImproper
import Mathlib.Analysis.SpecialFunctions.Trigonometric.ArctanDeriv
import Mathlib.Tactic
namespace Statrs.Lemmas.ClosedCdfMathlib
open MeasureTheory ProbabilityTheory Set Filter Topology
open scoped NNReal

/-- closed form of Mathlib's Pareto cdf (Mathlib only has the integral form) -/
theorem cdf_paretoMeasure_eq' {t r : ℝ} (ht : 0 < t) (hr : 0 < r) (x : ℝ) :
    cdf (paretoMeasure t r) x = if x < t then 0 else 1 - (t / x) ^ r := by
  rw [cdf_paretoMeasure_eq_integral ht hr]
  have hind : paretoPDFReal t r = (Ici t).indicator (fun y => r * t ^ r * y ^ (-(r + 1))) := by
    funext y; simp only [paretoPDFReal, indicator, mem_Ici]
  rw [hind, setIntegral_indicator measurableSet_Ici]
  split_ifs with hx
  · have : Iic x ∩ Ici t = ∅ := by
      ext y; simp only [mem_inter_iff, mem_Iic, mem_Ici, mem_empty_iff_false, iff_false]
      intro ⟨h1, h2⟩; linarith
    rw [this]; simp
  · have hx' : t ≤ x := not_lt.mp hx
    have hx0 : 0 < x := lt_of_lt_of_le ht hx'
    rw [inter_comm, Ici_inter_Iic, integral_Icc_eq_integral_Ioc,
      ← intervalIntegral.integral_of_le hx', intervalIntegral.integral_const_mul,
      integral_rpow]
    · have e1 : -(r + 1) + 1 = -r := by ring
      rw [e1, Real.rpow_neg hx0.le, Real.rpow_neg ht.le, Real.div_rpow ht.le hx0.le]
      have := Real.rpow_pos_of_pos ht r
      have := Real.rpow_pos_of_pos hx0 r
      field_simp
      ring
    · right
      constructor
      · linarith
      · rw [uIcc_of_le hx']; intro h0; have := h0.1; linarith

/-- closed form of Mathlib's Cauchy cdf (not in Mathlib) -/
theorem cdf_cauchyMeasure_eq' (x₀ : ℝ) {γ : ℝ≥0} (hγ : γ ≠ 0) (x : ℝ) :
    cdf (cauchyMeasure x₀ γ) x = 1 / Real.pi * Real.arctan ((x - x₀) / γ) + 1 / 2 := by
  have hs : (0 : ℝ) < γ := by positivity
  rw [cdf_eq_real, cauchyMeasure_of_scale_ne_zero x₀ hγ, measureReal_def,
    withDensity_apply _ measurableSet_Iic]
  have hI : ∫ y in Iic x, cauchyPDFReal x₀ γ y =
      (∫⁻ y in Iic x, cauchyPDF x₀ γ y).toReal := by
    unfold cauchyPDF
    exact integral_eq_lintegral_of_nonneg_ae
      (ae_of_all _ fun y => (cauchyPDF_pos x₀ hγ y).le)
      (stronglyMeasurable_cauchyPDFReal x₀ γ).aestronglyMeasurable
  rw [← hI]
  have hderiv : ∀ y ∈ Iic x, HasDerivAt (fun y => Real.pi⁻¹ * Real.arctan ((y - x₀) / γ))
      (cauchyPDFReal x₀ γ y) y := by
    intro y _
    have h1 : HasDerivAt (fun y : ℝ => (y - x₀) / (γ : ℝ)) (1 / (γ : ℝ)) y :=
      ((hasDerivAt_id y).sub_const x₀).div_const _
    have h2 := (h1.arctan).const_mul Real.pi⁻¹
    refine h2.congr_deriv ?_
    rw [cauchyPDFReal_def', NNReal.coe_inv]
    field_simp
  have htend : Tendsto (fun y => Real.pi⁻¹ * Real.arctan ((y - x₀) / γ)) atBot
      (𝓝 (Real.pi⁻¹ * (-(Real.pi / 2)))) := by
    apply Tendsto.const_mul
    have h3 : Tendsto (fun y : ℝ => (y - x₀) / (γ : ℝ)) atBot atBot := by
      apply Tendsto.atBot_div_const hs
      simpa [sub_eq_add_neg] using tendsto_atBot_add_const_right atBot (-x₀) tendsto_id
    exact (tendsto_nhds_of_tendsto_nhdsWithin Real.tendsto_arctan_atBot).comp h3
  rw [integral_Iic_of_hasDerivAt_of_tendsto' hderiv
    (integrable_cauchyPDFReal x₀).integrableOn htend]
  have := Real.pi_pos
  field_simp
  ring

end Statrs.Lemmas.ClosedCdfMathlib
