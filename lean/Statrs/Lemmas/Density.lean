/-
  Helper lemmas for the density properties C03/C04 (pure real analysis, no model definitions).
-/
import Statrs.Real.Simp
import Mathlib.Tactic
import Mathlib.Analysis.SpecialFunctions.Pow.Deriv
import Mathlib.Analysis.SpecialFunctions.Gamma.Basic
namespace Statrs.Lemmas.Density
open Real

theorem lit_0 : (0.0 : ℝ) = 0 := by norm_num
theorem lit_1 : (1.0 : ℝ) = 1 := by norm_num
theorem lit_2 : (2.0 : ℝ) = 2 := by norm_num
theorem lit_half : (0.5 : ℝ) = 1 / 2 := by norm_num
theorem lit_3half : (1.5 : ℝ) = 3 / 2 := by norm_num
theorem lit_80 : (80.0 : ℝ) = 80 := by norm_num
theorem lit_160 : (160.0 : ℝ) = 160 := by norm_num

/-- `rfun_norm`, then float literals to numerals and the trivialised IEEE tests (`isInf`, `ulpsEq`)
    to propositions -/
macro "model_norm" : tactic => `(tactic| (rfun_norm; (try simp only [lit_0, lit_1, lit_2, lit_half,
  lit_3half, lit_80, lit_160, Bool.false_eq_true, if_false, if_true, decide_eq_true_eq, false_or, or_false,
  false_and, and_false, not_false_eq_true] at *)))

/-- `log (x ^ y) = y * log x` for `0 ≤ x` as soon as the power is non-zero (covers `0 ^ 0 = 1`). -/
theorem log_rpow_of_ne_zero {x y : ℝ} (hx : 0 ≤ x) (h : x ^ y ≠ 0) :
    Real.log (x ^ y) = y * Real.log x := by
  rcases hx.lt_or_eq with hpos | rfl
  · exact Real.log_rpow hpos y
  · by_cases hy : y = 0
    · subst hy; simp
    · exact absurd (Real.zero_rpow hy) h

/-- a product is positive only if no factor vanishes -/
theorem ne_zero_of_mul_pos_left {a b : ℝ} (h : 0 < a * b) : a ≠ 0 := by
  rintro rfl; simp at h

theorem ne_zero_of_mul_pos_right {a b : ℝ} (h : 0 < a * b) : b ≠ 0 := by
  rintro rfl; simp at h

/-- `x as i32` is the identity on `[0, 2^31)` -/
theorem wrapI32_of_small (x : Int) (h0 : 0 ≤ x) (h : x < 2 ^ 31) : wrapI32 x = x := by
  unfold wrapI32; omega

end Statrs.Lemmas.Density
