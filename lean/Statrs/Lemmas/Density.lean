/-
  Helper lemmas for the density properties C03/C04 (pure real analysis, no model definitions).
-/
import Statrs.Real.Simp
import Mathlib.Tactic
import Mathlib.Analysis.SpecialFunctions.Pow.Deriv
import Mathlib.Analysis.SpecialFunctions.Gamma.Basic
namespace Statrs.Lemmas.Density
open Real

/-- `log (x ^ y) = y * log x` for `0 ≤ x` as soon as the power is non-zero (covers `0 ^ 0 = 1`). -/
theorem log_rpow_of_ne_zero {x y : ℝ} (hx : 0 ≤ x) (h : x ^ y ≠ 0) :
    Real.log (x ^ y) = y * Real.log x := by
  rcases hx.lt_or_eq with hpos | rfl
  · exact Real.log_rpow hpos y
  · by_cases hy : y = 0
    · subst hy; simp
    · exact absurd (Real.zero_rpow hy) h

/-- a product is positive only if no factor vanishes -/
theorem ne_zero_of_mul_pos_left {a b : ℝ} (h : 0 < a * b) : a ≠ 0 := by
  rintro rfl; simp at h

theorem ne_zero_of_mul_pos_right {a b : ℝ} (h : 0 < a * b) : b ≠ 0 := by
  rintro rfl; simp at h

end Statrs.Lemmas.Density
