/-
  Fundamental-theorem-of-calculus helpers for C03: a continuous `F` whose derivative is a
  non-negative `f` off a finite set of kinks satisfies `∫ a..b f = F b - F a` on every interval.
  (Integrability of `f` is not assumed: it follows from `f ≥ 0`.)
-/
import Mathlib.MeasureTheory.Integral.IntervalIntegral.FundThmCalculus
import Mathlib.Tactic
namespace Statrs.Lemmas.Density
open Set MeasureTheory

/-- no kink strictly inside `[a,b]` -/
theorem ftc_nonneg {F f : ℝ → ℝ} {a b : ℝ} (hab : a ≤ b) (hc : ContinuousOn F (Icc a b))
    (hd : ∀ x ∈ Ioo a b, HasDerivAt F (f x) x) (hnn : ∀ x ∈ Ioo a b, 0 ≤ f x) :
    IntervalIntegrable f volume a b ∧ ∫ t in a..b, f t = F b - F a := by
  have hint : IntervalIntegrable f volume a b := by
    apply intervalIntegral.intervalIntegrable_deriv_of_nonneg (g := F)
    · rwa [uIcc_of_le hab]
    · rwa [min_eq_left hab, max_eq_right hab]
    · rwa [min_eq_left hab, max_eq_right hab]
  exact ⟨hint, intervalIntegral.integral_eq_sub_of_hasDerivAt_of_le hab hc hd hint⟩

/-- finitely many kinks -/
theorem ftc_nonneg_finite_kinks {F f : ℝ → ℝ} (s : Finset ℝ) :
    ∀ {a b : ℝ}, a ≤ b → ContinuousOn F (Icc a b) →
      (∀ x ∈ Ioo a b, x ∉ s → HasDerivAt F (f x) x) → (∀ x ∈ Ioo a b, 0 ≤ f x) →
      IntervalIntegrable f volume a b ∧ ∫ t in a..b, f t = F b - F a := by
  induction s using Finset.induction_on with
  | empty =>
    intro a b hab hc hd hnn
    exact ftc_nonneg hab hc (fun x hx => hd x hx (by simp)) hnn
  | insert k s hk ih =>
    intro a b hab hc hd hnn
    by_cases hkab : k ∈ Ioo a b
    · obtain ⟨h1, h2⟩ := hkab
      have I1 := ih h1.le (hc.mono (Icc_subset_Icc le_rfl h2.le))
        (fun x hx hxs => hd x ⟨hx.1, hx.2.trans h2⟩ (by
          simp only [Finset.mem_insert, not_or]; exact ⟨hx.2.ne, hxs⟩))
        (fun x hx => hnn x ⟨hx.1, hx.2.trans h2⟩)
      have I2 := ih h2.le (hc.mono (Icc_subset_Icc h1.le le_rfl))
        (fun x hx hxs => hd x ⟨h1.trans hx.1, hx.2⟩ (by
          simp only [Finset.mem_insert, not_or]; exact ⟨hx.1.ne', hxs⟩))
        (fun x hx => hnn x ⟨h1.trans hx.1, hx.2⟩)
      refine ⟨I1.1.trans I2.1, ?_⟩
      rw [← intervalIntegral.integral_add_adjacent_intervals I1.1 I2.1, I1.2, I2.2]; ring
    · refine ih hab hc (fun x hx hxs => hd x hx ?_) hnn
      simp only [Finset.mem_insert, not_or]
      exact ⟨fun h => hkab (h ▸ hx), hxs⟩

/-- the form used by the property theorems: globally continuous `F`, derivative `f ≥ 0` off `s` -/
theorem integral_eq_sub_of_kinks {F f : ℝ → ℝ} (s : Finset ℝ) (hc : Continuous F)
    (hd : ∀ x, x ∉ s → HasDerivAt F (f x) x) (hnn : ∀ x, 0 ≤ f x) {a b : ℝ} (hab : a ≤ b) :
    ∫ t in a..b, f t = F b - F a :=
  (ftc_nonneg_finite_kinks s hab hc.continuousOn (fun x _ hx => hd x hx) (fun x _ => hnn x)).2

/-- continuity at a kink from one-sided local agreement with continuous branches -/
theorem continuousAt_of_branches {F G₁ G₂ : ℝ → ℝ} {l k u : ℝ} (hl : l < k) (hu : k < u)
    (h₁ : ∀ y, l < y → y ≤ k → F y = G₁ y) (h₂ : ∀ y, k ≤ y → y < u → F y = G₂ y)
    (c₁ : ContinuousAt G₁ k) (c₂ : ContinuousAt G₂ k) : ContinuousAt F k := by
  rw [continuousAt_iff_continuous_left_right]
  constructor
  · refine (c₁.continuousWithinAt).congr_of_eventuallyEq ?_ (h₁ k hl le_rfl)
    filter_upwards [Ioc_mem_nhdsLE hl] with y hy using h₁ y hy.1 hy.2
  · refine (c₂.continuousWithinAt).congr_of_eventuallyEq ?_ (h₂ k le_rfl hu)
    filter_upwards [Ico_mem_nhdsGE hu] with y hy using h₂ y hy.1 hy.2

/-- differentiability at a junction where both branches have the same derivative -/
theorem hasDerivAt_of_branches {F G₁ G₂ : ℝ → ℝ} {k m : ℝ}
    (h₁ : ∀ y, y ≤ k → F y = G₁ y) (h₂ : ∀ y, k ≤ y → F y = G₂ y)
    (d₁ : HasDerivAt G₁ m k) (d₂ : HasDerivAt G₂ m k) : HasDerivAt F m k := by
  have e₁ : HasDerivWithinAt F m (Iic k) k :=
    d₁.hasDerivWithinAt.congr (fun y hy => h₁ y hy) (h₁ k le_rfl)
  have e₂ : HasDerivWithinAt F m (Ici k) k :=
    d₂.hasDerivWithinAt.congr (fun y hy => h₂ y hy) (h₂ k le_rfl)
  have := e₁.union e₂
  rwa [Iic_union_Ici, hasDerivWithinAt_univ] at this

end Statrs.Lemmas.Density
