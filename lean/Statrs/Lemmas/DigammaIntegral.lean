/-
  Real-analysis helpers for the entropy-as-integral theorems of C07: logarithmic moments of the
  Γ-type kernels, obtained by differentiating the Mellin transform in its exponent
  (`mellin_hasDerivAt_of_isBigO_rpow`, transported from ℂ to ℝ in `hasDerivAt_integral_rpow_mul`):
      d/ds ∫₀^∞ t^(s−1) f(t) dt = ∫₀^∞ ln t · t^(s−1) f(t) dt,
  with `ψ = Γ'/Γ` the true digamma function `Lemmas.Transfer.psi`:
    ∫₀^∞ ln t · t^(a−1) e^{−rt} dt        = r^{−a} Γ(a) (ψ(a) − ln r)             (Gamma, Erlang, ChiSquared),
    ∫₀^∞ ln x · x^(−b−1) e^{−r/x} dx      = −r^{−b} Γ(b) (ψ(b) − ln r)            (InverseGamma; t = 1/x),
    ∫₀¹ ln t · t^(a−1) (1−t)^(b−1) dt     = B(a,b) (ψ(a) − ψ(a+b))                (Beta),
    ∫₀¹ ln(1−t) · t^(a−1) (1−t)^(b−1) dt  = B(a,b) (ψ(b) − ψ(a+b))                (Beta; t ↦ 1−t),
    ∫₀^∞ ln t · t^(k−1) e^{−t²/2} dt      = 2^(k/2−2) Γ(k/2) (ψ(k/2) + ln 2)      (Chi),
  each with integrability.  Pure Mathlib statements; no model definitions.
-/
import Mathlib
import Statrs.Lemmas.TransferDigamma
import Statrs.Lemmas.MomentIntegralsGamma
namespace Statrs.Lemmas.DigammaIntegral
open MeasureTheory Set Filter Asymptotics Topology Real
open Statrs.Lemmas.Transfer Statrs.Lemmas.MomentIntegralsGamma

/-- a function vanishing on `(-∞,0)` and integrable on `(0,∞)` is integrable on ℝ -/
theorem integrable_of_integrableOn_Ioi {f : ℝ → ℝ} (h0 : ∀ x, x < 0 → f x = 0)
    (hI : IntegrableOn f (Ioi 0)) : Integrable f := by
  rw [← integrableOn_univ, ← Iio_union_Ici (a := (0:ℝ)), integrableOn_union]
  refine ⟨?_, Iff.mpr integrableOn_Ici_iff_integrableOn_Ioi hI⟩
  exact (integrableOn_zero (α := ℝ) (μ := volume) (s := Iio 0)).congr_fun
    (fun x hx => (h0 x hx).symm) measurableSet_Iio

/-- a function vanishing outside `[0,1]` and integrable on `(0,1)` is integrable on ℝ -/
theorem integrable_of_integrableOn_Ioo {f : ℝ → ℝ} (h0 : ∀ x, x < 0 ∨ 1 < x → f x = 0)
    (hI : IntegrableOn f (Ioo 0 1)) : Integrable f := by
  have hcc : IntegrableOn f (Icc 0 1) := Iff.mpr integrableOn_Icc_iff_integrableOn_Ioo hI
  have : Integrable (indicator (Icc 0 1) f) := hcc.integrable_indicator measurableSet_Icc
  refine this.congr (Filter.Eventually.of_forall fun x => ?_)
  by_cases hx : x ∈ Icc (0:ℝ) 1
  · rw [indicator_of_mem hx]
  · rw [indicator_of_notMem hx]
    refine (h0 x ?_).symm
    by_contra hc
    rw [not_or, not_lt, not_lt] at hc
    exact hx ⟨hc.1, hc.2⟩

/-- Mellin transform of a real function at a real point, as a real integral -/
theorem mellin_ofReal (f : ℝ → ℝ) (u : ℝ) :
    mellin (fun t => ((f t : ℝ) : ℂ)) (u : ℂ) = ((∫ t in Ioi (0:ℝ), t ^ (u - 1) * f t : ℝ) : ℂ) := by
  unfold mellin
  rw [← integral_complex_ofReal]
  refine setIntegral_congr_fun measurableSet_Ioi fun t ht => ?_
  have ht' : (0:ℝ) ≤ t := le_of_lt ht
  simp only [smul_eq_mul]
  rw [Complex.ofReal_mul, Complex.ofReal_cpow ht']
  push_cast
  rfl

/-- real form of `mellin_hasDerivAt_of_isBigO_rpow`: for a real kernel `f` that is locally integrable
    on `(0,∞)`, `O(t^(−a))` at `∞` and `O(t^(−b))` at `0+`, the map `s ↦ ∫₀^∞ t^(s−1) f(t) dt` has
    derivative `∫₀^∞ t^(s−1) ln t · f(t) dt` at every `b < s < a` (and that integrand is integrable) -/
theorem hasDerivAt_integral_rpow_mul {f : ℝ → ℝ} {a b s : ℝ}
    (hfc : LocallyIntegrableOn f (Ioi 0)) (hf_top : f =O[atTop] (· ^ (-a))) (hs_top : s < a)
    (hf_bot : f =O[𝓝[>] 0] (· ^ (-b))) (hs_bot : b < s) :
    IntegrableOn (fun t => t ^ (s - 1) * (Real.log t * f t)) (Ioi 0) ∧
    HasDerivAt (fun u : ℝ => ∫ t in Ioi (0:ℝ), t ^ (u - 1) * f t)
      (∫ t in Ioi (0:ℝ), t ^ (s - 1) * (Real.log t * f t)) s := by
  set F : ℝ → ℂ := fun t => ((f t : ℝ) : ℂ) with hF
  have hFc : LocallyIntegrableOn F (Ioi 0) := by
    intro x hx
    obtain ⟨U, hU, hint⟩ := hfc x hx
    exact ⟨U, hU, hint.ofReal⟩
  have hFtop : F =O[atTop] (· ^ (-a)) := by
    rw [← isBigO_norm_left]
    simpa [hF] using hf_top.norm_left
  have hFbot : F =O[𝓝[>] 0] (· ^ (-b)) := by
    rw [← isBigO_norm_left]
    simpa [hF] using hf_bot.norm_left
  obtain ⟨hconv, hder⟩ := mellin_hasDerivAt_of_isBigO_rpow (E := ℂ) (s := (s : ℂ)) hFc hFtop
    (by simpa using hs_top) hFbot (by simpa using hs_bot)
  have hlog : (fun t => Real.log t • F t) = fun t => (((Real.log t * f t : ℝ)) : ℂ) := by
    funext t; simp [hF]
  rw [hlog] at hconv hder
  refine ⟨?_, ?_⟩
  · -- integrability
    have := hconv
    unfold MellinConvergent at this
    have h2 : IntegrableOn (fun t : ℝ => ((t ^ (s - 1) * (Real.log t * f t) : ℝ) : ℂ)) (Ioi 0) := by
      refine this.congr_fun (fun t ht => ?_) measurableSet_Ioi
      have ht' : (0:ℝ) ≤ t := le_of_lt ht
      simp only [smul_eq_mul]
      rw [Complex.ofReal_mul (t ^ (s-1)), Complex.ofReal_cpow ht']
      push_cast; rfl
    have h3 := h2.re
    exact h3.congr (Eventually.of_forall fun t => Complex.ofReal_re _)
  · have h := hder.real_of_complex
    rw [mellin_ofReal, Complex.ofReal_re] at h
    refine h.congr_of_eventuallyEq (Eventually.of_forall fun u => ?_)
    show _ = (mellin (fun t => ((f t : ℝ) : ℂ)) (u : ℂ)).re
    rw [mellin_ofReal, Complex.ofReal_re]


/-- `Γ'(a) = ψ(a) Γ(a)` for `a > 0` -/
theorem deriv_Gamma_eq_psi_mul {a : ℝ} (ha : 0 < a) : deriv Real.Gamma a = psi a * Real.Gamma a := by
  rw [psi_def, div_mul_cancel₀ _ (Real.Gamma_pos_of_pos ha).ne']

theorem hasDerivAt_Gamma_psi {a : ℝ} (ha : 0 < a) : HasDerivAt Real.Gamma (psi a * Real.Gamma a) a := by
  rw [← deriv_Gamma_eq_psi_mul ha]
  exact (Real.differentiableAt_Gamma (notPole_of_pos ha)).hasDerivAt

/-! ### `x^(a−1) e^{−r x}` -/
/-- `d/da ∫₀^∞ t^(a−1) e^{−rt} dt = ∫₀^∞ ln t · t^(a−1) e^{−rt} dt`, with integrability -/
theorem hasDerivAt_gammaKernel_integral {a r : ℝ} (ha : 0 < a) (hr : 0 < r) :
    IntegrableOn (fun t => t ^ (a - 1) * (Real.log t * Real.exp (-(r * t)))) (Ioi 0) ∧
    HasDerivAt (fun u : ℝ => ∫ t in Ioi (0:ℝ), t ^ (u - 1) * Real.exp (-(r * t)))
      (∫ t in Ioi (0:ℝ), t ^ (a - 1) * (Real.log t * Real.exp (-(r * t)))) a := by
  refine hasDerivAt_integral_rpow_mul (a := a + 1) (b := 0) ?_ ?_ (lt_add_one a) ?_ ha
  · refine (Continuous.continuousOn ?_).locallyIntegrableOn measurableSet_Ioi
    fun_prop
  · have := (isLittleO_exp_neg_mul_rpow_atTop hr (-(a + 1))).isBigO
    simpa only [neg_mul] using this
  · simp_rw [neg_zero, rpow_zero]
    refine isBigO_const_of_tendsto (?_ : Tendsto _ _ (𝓝 (Real.exp (-(r * 0))))) one_ne_zero
    have : Continuous fun t : ℝ => Real.exp (-(r * t)) := by fun_prop
    exact this.continuousWithinAt

/-- `∫₀^∞ ln t · t^(a−1) e^{−rt} dt = r^{−a} Γ(a) (ψ(a) − ln r)` -/
theorem integral_log_gammaKernel {a r : ℝ} (ha : 0 < a) (hr : 0 < r) :
    ∫ t in Ioi (0:ℝ), t ^ (a - 1) * (Real.log t * Real.exp (-(r * t)))
      = (1 / r) ^ a * Real.Gamma a * (psi a - Real.log r) := by
  obtain ⟨_, hder⟩ := hasDerivAt_gammaKernel_integral ha hr
  have hpos : (0:ℝ) < 1 / r := by positivity
  have h1 : HasDerivAt (fun u : ℝ => (1 / r) ^ u) (Real.log (1 / r) * 1 * (1 / r) ^ a) a :=
    (hasDerivAt_id a).const_rpow hpos
  have h2 := h1.mul (hasDerivAt_Gamma_psi ha)
  have heq : (fun u : ℝ => ∫ t in Ioi (0:ℝ), t ^ (u - 1) * Real.exp (-(r * t)))
      =ᶠ[𝓝 a] fun u => (1 / r) ^ u * Real.Gamma u := by
    filter_upwards [lt_mem_nhds ha] with u hu
    exact integral_gammaKernel hu hr
  have := (hder.congr_of_eventuallyEq heq.symm).unique h2
  rw [this, one_div, Real.log_inv]
  ring

theorem integrableOn_log_gammaKernel {a r : ℝ} (ha : 0 < a) (hr : 0 < r) :
    IntegrableOn (fun t => t ^ (a - 1) * (Real.log t * Real.exp (-(r * t)))) (Ioi 0) :=
  (hasDerivAt_gammaKernel_integral ha hr).1

/-! ### `x^(−b−1) e^{−r/x}` (substitution `t = 1/x`) -/
theorem invGamma_log_subst {b r : ℝ} (x : ℝ) (hx : x ∈ Ioi (0:ℝ)) :
    (|(-1:ℝ)| * x ^ ((-1:ℝ) - 1)) •
      ((fun y : ℝ => y ^ (b - 1) * (Real.log y * Real.exp (-(r * y)))) (x ^ (-1:ℝ)))
      = -(x ^ (-b - 1) * (Real.log x * Real.exp (-(r / x)))) := by
  have hx' : 0 < x := hx
  simp only [smul_eq_mul, abs_neg, abs_one, one_mul]
  rw [← rpow_mul hx'.le, rpow_neg_one, Real.log_inv, div_eq_mul_inv,
    show -b - 1 = (-1 - 1) + (-1) * (b - 1) by ring, rpow_add hx']
  ring

theorem integrableOn_log_invGammaKernel {b r : ℝ} (hb : 0 < b) (hr : 0 < r) :
    IntegrableOn (fun x : ℝ => x ^ (-b - 1) * (Real.log x * Real.exp (-(r / x)))) (Ioi 0) := by
  have h := (integrableOn_Ioi_comp_rpow_iff
    (fun y : ℝ => y ^ (b - 1) * (Real.log y * Real.exp (-(r * y)))) (p := -1) (by norm_num)).mpr
    (integrableOn_log_gammaKernel hb hr)
  have h2 := (h.congr_fun (fun x hx => invGamma_log_subst (b := b) (r := r) x hx)
    measurableSet_Ioi).neg
  refine h2.congr_fun (fun x _ => ?_) measurableSet_Ioi
  simp

/-- `∫₀^∞ ln x · x^(−b−1) e^{−r/x} dx = −r^{−b} Γ(b) (ψ(b) − ln r)` -/
theorem integral_log_invGammaKernel {b r : ℝ} (hb : 0 < b) (hr : 0 < r) :
    ∫ x in Ioi (0:ℝ), x ^ (-b - 1) * (Real.log x * Real.exp (-(r / x)))
      = -((1 / r) ^ b * Real.Gamma b * (psi b - Real.log r)) := by
  have h := integral_comp_rpow_Ioi
    (fun y : ℝ => y ^ (b - 1) * (Real.log y * Real.exp (-(r * y)))) (p := -1) (by norm_num)
  rw [setIntegral_congr_fun measurableSet_Ioi
    (fun x hx => invGamma_log_subst (b := b) (r := r) x hx), integral_neg,
    integral_log_gammaKernel hb hr] at h
  rw [← h, neg_neg]

/-! ### `x^(a−1) (1−x)^(b−1)` on `(0,1)` -/

theorem indicator_Ioo_comp_one_sub (h : ℝ → ℝ) (x : ℝ) :
    indicator (Ioo (0:ℝ) 1) h (1 - x) = indicator (Ioo (0:ℝ) 1) (fun y => h (1 - y)) x := by
  by_cases hx : x ∈ Ioo (0:ℝ) 1
  · have : 1 - x ∈ Ioo (0:ℝ) 1 := ⟨by linarith [hx.2], by linarith [hx.1]⟩
    rw [indicator_of_mem hx, indicator_of_mem this]
  · have : 1 - x ∉ Ioo (0:ℝ) 1 := fun hc => hx ⟨by linarith [hc.2], by linarith [hc.1]⟩
    rw [indicator_of_notMem hx, indicator_of_notMem this]

/-- reflection `x ↦ 1 − x` on `(0,1)` -/
theorem setIntegral_Ioo_comp_one_sub (h : ℝ → ℝ) :
    ∫ x in Ioo (0:ℝ) 1, h (1 - x) = ∫ x in Ioo (0:ℝ) 1, h x := by
  rw [← integral_indicator measurableSet_Ioo, ← integral_indicator measurableSet_Ioo,
    ← integral_sub_left_eq_self (indicator (Ioo (0:ℝ) 1) h) volume 1]
  exact integral_congr_ae (Eventually.of_forall fun x => (indicator_Ioo_comp_one_sub h x).symm)

theorem integrableOn_Ioo_comp_one_sub {h : ℝ → ℝ} (hi : IntegrableOn h (Ioo 0 1)) :
    IntegrableOn (fun x => h (1 - x)) (Ioo 0 1) := by
  rw [← integrable_indicator_iff measurableSet_Ioo] at hi ⊢
  exact (hi.comp_sub_left 1).congr (Eventually.of_forall fun x => indicator_Ioo_comp_one_sub h x)

/-- `∂/∂a ∫₀¹ t^(a−1)(1−t)^(b−1) dt = ∫₀¹ ln t · t^(a−1)(1−t)^(b−1) dt`, with integrability
    (Mellin transform of `(1−t)^(b−1)·1_(0,1)`) -/
theorem hasDerivAt_betaKernel_integral {a b : ℝ} (ha : 0 < a) (hb : 0 < b) :
    IntegrableOn (fun t => t ^ (a - 1) * (Real.log t * (1 - t) ^ (b - 1))) (Ioo 0 1) ∧
    HasDerivAt (fun u : ℝ => ∫ t in Ioo (0:ℝ) 1, t ^ (u - 1) * (1 - t) ^ (b - 1))
      (∫ t in Ioo (0:ℝ) 1, t ^ (a - 1) * (Real.log t * (1 - t) ^ (b - 1))) a := by
  set f : ℝ → ℝ := indicator (Ioo (0:ℝ) 1) (fun t => (1 - t) ^ (b - 1)) with hf
  have hsub : Ioi (0:ℝ) ∩ Ioo 0 1 = Ioo 0 1 := by
    ext x; constructor
    · exact fun h => h.2
    · exact fun h => ⟨h.1, h⟩
  have hconv : ∀ g : ℝ → ℝ, (∫ t in Ioi (0:ℝ), g t * f t) = ∫ t in Ioo (0:ℝ) 1, g t * (1 - t) ^ (b - 1) := by
    intro g
    have e : (fun t => g t * f t) = indicator (Ioo (0:ℝ) 1) (fun t => g t * (1 - t) ^ (b - 1)) := by
      funext t; rw [hf, indicator_mul_right]
    rw [e, setIntegral_indicator measurableSet_Ioo, hsub]
  have hfi : IntegrableOn f (Ioi 0) := by
    have h1 := integrableOn_betaKernel (a := 1) one_pos hb
    have h2 : IntegrableOn (fun t : ℝ => (1 - t) ^ (b - 1)) (Ioo 0 1) :=
      h1.congr_fun (fun x _ => by simp) measurableSet_Ioo
    exact (h2.integrable_indicator measurableSet_Ioo).integrableOn
  have htop : f =O[atTop] (· ^ (-(a + 1))) := by
    have : f =ᶠ[atTop] fun _ => (0:ℝ) := by
      filter_upwards [eventually_gt_atTop (1:ℝ)] with t ht
      rw [hf, indicator_of_notMem]
      exact fun hc => absurd hc.2 (not_lt.mpr ht.le)
    exact this.trans_isBigO (isBigO_zero _ _)
  have hbot : f =O[𝓝[>] 0] (· ^ (-(0:ℝ))) := by
    simp_rw [neg_zero, rpow_zero]
    refine isBigO_const_of_tendsto (?_ : Tendsto _ _ (𝓝 ((1 - 0 : ℝ) ^ (b - 1)))) one_ne_zero
    have hc : ContinuousAt (fun t : ℝ => (1 - t) ^ (b - 1)) 0 := by
      have h1 : ContinuousAt (fun t : ℝ => 1 - t) 0 := by fun_prop
      exact ContinuousAt.rpow_const h1 (Or.inl (by norm_num))
    have ht : Tendsto (fun t : ℝ => (1 - t) ^ (b - 1)) (𝓝[>] 0) (𝓝 ((1 - 0 : ℝ) ^ (b - 1))) :=
      hc.tendsto.mono_left nhdsWithin_le_nhds
    refine ht.congr' ?_
    filter_upwards [Ioo_mem_nhdsGT (zero_lt_one' ℝ)] with t ht
    rw [hf, indicator_of_mem ht]
  obtain ⟨hi, hd⟩ := hasDerivAt_integral_rpow_mul (a := a + 1) (b := 0) (s := a)
    hfi.locallyIntegrableOn htop (lt_add_one a) hbot ha
  refine ⟨?_, ?_⟩
  · have e : (fun t => t ^ (a - 1) * (Real.log t * f t))
        = indicator (Ioo (0:ℝ) 1) (fun t => t ^ (a - 1) * (Real.log t * (1 - t) ^ (b - 1))) := by
      funext t; rw [hf, indicator_mul_right, indicator_mul_right]
    rw [e] at hi
    have h2 := hi.mono_set (fun x (hx : x ∈ Ioo (0:ℝ) 1) => (hx.1 : x ∈ Ioi (0:ℝ)))
    exact h2.congr_fun (fun x hx => indicator_of_mem hx _) measurableSet_Ioo
  · have e2 : (∫ t in Ioi (0:ℝ), t ^ (a - 1) * (Real.log t * f t))
        = ∫ t in Ioo (0:ℝ) 1, t ^ (a - 1) * (Real.log t * (1 - t) ^ (b - 1)) := by
      have := hconv (fun t => t ^ (a - 1) * Real.log t)
      simp only [mul_assoc] at this
      exact this
    rw [e2] at hd
    refine hd.congr_of_eventuallyEq (Eventually.of_forall fun u => ?_)
    exact (hconv (fun t => t ^ (u - 1))).symm

theorem integrableOn_log_betaKernel {a b : ℝ} (ha : 0 < a) (hb : 0 < b) :
    IntegrableOn (fun t => t ^ (a - 1) * (Real.log t * (1 - t) ^ (b - 1))) (Ioo 0 1) :=
  (hasDerivAt_betaKernel_integral ha hb).1

/-- `∫₀¹ ln t · t^(a−1) (1−t)^(b−1) dt = B(a,b) (ψ(a) − ψ(a+b))` -/
theorem integral_log_betaKernel {a b : ℝ} (ha : 0 < a) (hb : 0 < b) :
    ∫ t in Ioo (0:ℝ) 1, t ^ (a - 1) * (Real.log t * (1 - t) ^ (b - 1))
      = Real.Gamma a * Real.Gamma b / Real.Gamma (a + b) * (psi a - psi (a + b)) := by
  obtain ⟨_, hder⟩ := hasDerivAt_betaKernel_integral ha hb
  have hab : 0 < a + b := add_pos ha hb
  have hGab : Real.Gamma (a + b) ≠ 0 := (Real.Gamma_pos_of_pos hab).ne'
  have h1 : HasDerivAt (fun u : ℝ => Real.Gamma (u + b)) (psi (a + b) * Real.Gamma (a + b)) a := by
    have := (hasDerivAt_Gamma_psi hab).comp_add_const a b
    simpa using this
  have h2 := ((hasDerivAt_Gamma_psi ha).mul_const (Real.Gamma b)).div h1 hGab
  have heq : (fun u : ℝ => ∫ t in Ioo (0:ℝ) 1, t ^ (u - 1) * (1 - t) ^ (b - 1))
      =ᶠ[𝓝 a] fun u => Real.Gamma u * Real.Gamma b / Real.Gamma (u + b) := by
    filter_upwards [lt_mem_nhds ha] with u hu
    exact integral_betaKernel hu hb
  have := (hder.congr_of_eventuallyEq heq.symm).unique h2
  rw [this]
  field_simp

/-- `∫₀¹ ln(1−t) · t^(a−1) (1−t)^(b−1) dt = B(a,b) (ψ(b) − ψ(a+b))` (reflection `t ↦ 1 − t`) -/
theorem integral_log_one_sub_betaKernel {a b : ℝ} (ha : 0 < a) (hb : 0 < b) :
    ∫ t in Ioo (0:ℝ) 1, t ^ (a - 1) * (Real.log (1 - t) * (1 - t) ^ (b - 1))
      = Real.Gamma a * Real.Gamma b / Real.Gamma (a + b) * (psi b - psi (a + b)) := by
  have h := setIntegral_Ioo_comp_one_sub
    (fun t => t ^ (b - 1) * (Real.log t * (1 - t) ^ (a - 1)))
  simp only [sub_sub_cancel] at h
  rw [integral_log_betaKernel hb ha] at h
  rw [← add_comm b a, mul_comm (Real.Gamma a), ← h]
  refine setIntegral_congr_fun measurableSet_Ioo fun t _ => ?_
  ring

theorem integrableOn_log_one_sub_betaKernel {a b : ℝ} (ha : 0 < a) (hb : 0 < b) :
    IntegrableOn (fun t => t ^ (a - 1) * (Real.log (1 - t) * (1 - t) ^ (b - 1))) (Ioo 0 1) := by
  have h := integrableOn_Ioo_comp_one_sub (integrableOn_log_betaKernel hb ha)
  simp only [sub_sub_cancel] at h
  refine h.congr_fun (fun t _ => ?_) measurableSet_Ioo
  ring

/-! ### `x^(k−1) e^{−x²/2}` -/
/-- `d/dk ∫₀^∞ t^(k−1) e^{−t²/2} dt = ∫₀^∞ ln t · t^(k−1) e^{−t²/2} dt`, with integrability -/
theorem hasDerivAt_chiKernel_integral {k : ℝ} (hk : 0 < k) :
    IntegrableOn (fun t => t ^ (k - 1) * (Real.log t * Real.exp (-(t * t / 2)))) (Ioi 0) ∧
    HasDerivAt (fun u : ℝ => ∫ t in Ioi (0:ℝ), t ^ (u - 1) * Real.exp (-(t * t / 2)))
      (∫ t in Ioi (0:ℝ), t ^ (k - 1) * (Real.log t * Real.exp (-(t * t / 2)))) k := by
  refine hasDerivAt_integral_rpow_mul (a := k + 1) (b := 0) ?_ ?_ (lt_add_one k) ?_ hk
  · refine (Continuous.continuousOn ?_).locallyIntegrableOn measurableSet_Ioi
    fun_prop
  · have h1 : (fun t : ℝ => Real.exp (-(t * t / 2))) =O[atTop] fun t : ℝ => Real.exp (-1 * t) := by
      refine IsBigO.of_bound 1 ?_
      filter_upwards [eventually_ge_atTop (2:ℝ)] with t ht
      rw [Real.norm_of_nonneg (Real.exp_pos _).le, Real.norm_of_nonneg (Real.exp_pos _).le, one_mul]
      apply Real.exp_le_exp.mpr
      nlinarith
    exact h1.trans (isLittleO_exp_neg_mul_rpow_atTop one_pos (-(k + 1))).isBigO
  · simp_rw [neg_zero, rpow_zero]
    refine isBigO_const_of_tendsto (?_ : Tendsto _ _ (𝓝 (Real.exp (-((0:ℝ) * 0 / 2))))) one_ne_zero
    have : Continuous fun t : ℝ => Real.exp (-(t * t / 2)) := by fun_prop
    exact this.continuousWithinAt

theorem integrableOn_log_chiKernel {k : ℝ} (hk : 0 < k) :
    IntegrableOn (fun t => t ^ (k - 1) * (Real.log t * Real.exp (-(t * t / 2)))) (Ioi 0) :=
  (hasDerivAt_chiKernel_integral hk).1

/-- `∫₀^∞ ln t · t^(k−1) e^{−t²/2} dt = 2^(k/2−2) Γ(k/2) (ψ(k/2) + ln 2)` -/
theorem integral_log_chiKernel {k : ℝ} (hk : 0 < k) :
    ∫ t in Ioi (0:ℝ), t ^ (k - 1) * (Real.log t * Real.exp (-(t * t / 2)))
      = (2:ℝ) ^ (k / 2 - 2) * Real.Gamma (k / 2) * (psi (k / 2) + Real.log 2) := by
  obtain ⟨_, hder⟩ := hasDerivAt_chiKernel_integral hk
  have hk2 : 0 < k / 2 := by positivity
  have hlin : HasDerivAt (fun u : ℝ => u / 2) (1 / 2) k := by
    simpa using (hasDerivAt_id k).div_const 2
  have h1 : HasDerivAt (fun u : ℝ => (2:ℝ) ^ (u / 2 - 1))
      (Real.log 2 * (1 / 2) * (2:ℝ) ^ (k / 2 - 1)) k :=
    (hlin.sub_const 1).const_rpow two_pos
  have h2 : HasDerivAt (fun u : ℝ => Real.Gamma (u / 2))
      (psi (k / 2) * Real.Gamma (k / 2) * (1 / 2)) k :=
    HasDerivAt.comp (h₂ := Real.Gamma) k (hasDerivAt_Gamma_psi hk2) hlin
  have h3 := h1.mul h2
  have heq : (fun u : ℝ => ∫ t in Ioi (0:ℝ), t ^ (u - 1) * Real.exp (-(t * t / 2)))
      =ᶠ[𝓝 k] fun u => (2:ℝ) ^ (u / 2 - 1) * Real.Gamma (u / 2) := by
    filter_upwards [lt_mem_nhds hk] with u hu
    have := integral_chiKernel hu (le_refl (0:ℝ))
    simpa using this
  have := (hder.congr_of_eventuallyEq heq.symm).unique h3
  have hA : (2:ℝ) ^ (k / 2 - 2) = (2:ℝ) ^ (k / 2 - 1) / 2 := by
    rw [show k / 2 - 2 = (k / 2 - 1) - 1 by ring, rpow_sub_one two_ne_zero]
  rw [this, hA]
  ring

end Statrs.Lemmas.DigammaIntegral
