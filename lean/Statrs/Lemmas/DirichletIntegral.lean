/-
  The Dirichlet integral (pure Mathlib, no model imports).

    * `lintegral_betaKernel`  : `∫₀ᶜ u^(a-1) (c-u)^(b-1) du = c^(a+b-1) B(a,b)`
    * `lintegral_dirKernel`   : `∫_{Δ_m} ∏ yᵢ^(βᵢ-1) (1-Σy)^(b-1) dy = ∏ Γ(βᵢ) Γ(b) / Γ(Σβ + b)` for every `m`
      (induction on `m`: Tonelli in the last free coordinate + the scaled Beta integral)
    * `simplexKernel α` / `simplexCoord` : the same kernel indexed by all `m+1` categories, the coordinate
      functions `X_i(y) = yᵢ (i < m)`, `X_m(y) = 1 - Σ y`, and
      `integral_simplexKernel`, `integral_coord_mul_simplexKernel`, `integral_coord_mul_coord_mul_simplexKernel`
      — normalisation, first and second raw moments (Bochner integrals, with integrability).
-/
import Mathlib
set_option linter.unusedSectionVars false
set_option linter.unusedVariables false
namespace Statrs.Lemmas.DirichletIntegral
open MeasureTheory ProbabilityTheory Set

/-- the one-dimensional kernel `u^(a-1) (c-u)^(b-1)` on `(0, c)` -/
noncomputable def betaKernel (a b c u : ℝ) : ℝ :=
  if 0 < u ∧ u < c then u ^ (a - 1) * (c - u) ^ (b - 1) else 0

theorem betaKernel_nonneg (a b c u : ℝ) : 0 ≤ betaKernel a b c u := by
  unfold betaKernel
  split_ifs with h
  · exact mul_nonneg (Real.rpow_nonneg h.1.le _) (Real.rpow_nonneg (by linarith [h.2]) _)
  · exact le_rfl

theorem measurable_betaKernel (a b c : ℝ) : Measurable (betaKernel a b c) := by
  unfold betaKernel
  refine Measurable.ite ?_ (by fun_prop) measurable_const
  exact (measurableSet_lt measurable_const measurable_id).inter (measurableSet_lt measurable_id measurable_const)

theorem lintegral_betaKernel_one {a b : ℝ} (ha : 0 < a) (hb : 0 < b) :
    ∫⁻ v, ENNReal.ofReal (betaKernel a b 1 v) = ENNReal.ofReal (beta a b) := by
  have hB := beta_pos ha hb
  have h : ∀ v, ENNReal.ofReal (betaKernel a b 1 v) = ENNReal.ofReal (beta a b) * betaPDF a b v := by
    intro v
    unfold betaPDF betaPDFReal betaKernel
    rw [← ENNReal.ofReal_mul hB.le]
    congr 1
    split_ifs
    · field_simp
    · simp
  simp_rw [h]
  rw [lintegral_const_mul' _ _ ENNReal.ofReal_ne_top, lintegral_betaPDF_eq_one ha hb, mul_one]

/-- the scaled Beta integral: `∫₀ᶜ u^(a-1) (c-u)^(b-1) du = c^(a+b-1) B(a,b)` (`0` for `c ≤ 0`) -/
theorem lintegral_betaKernel {a b : ℝ} (ha : 0 < a) (hb : 0 < b) (c : ℝ) :
    ∫⁻ u, ENNReal.ofReal (betaKernel a b c u) =
      ENNReal.ofReal (if 0 < c then c ^ (a + b - 1) * beta a b else 0) := by
  by_cases hc : 0 < c
  · rw [if_pos hc]
    have hmap := Real.map_volume_mul_left hc.ne'
    have hF : Measurable (fun u => ENNReal.ofReal (betaKernel a b c u)) :=
      (measurable_betaKernel a b c).ennreal_ofReal
    have h1 : ∫⁻ u, ENNReal.ofReal (betaKernel a b c u) ∂(Measure.map (c * ·) volume) =
        ∫⁻ v, ENNReal.ofReal (betaKernel a b c (c * v)) := lintegral_map hF (measurable_const_mul c)
    rw [hmap, lintegral_smul_measure, abs_of_pos (inv_pos.mpr hc), smul_eq_mul] at h1
    have h2 : ∫⁻ u, ENNReal.ofReal (betaKernel a b c u) =
        ENNReal.ofReal c * ∫⁻ v, ENNReal.ofReal (betaKernel a b c (c * v)) := by
      rw [← h1, ← mul_assoc, ← ENNReal.ofReal_mul hc.le, mul_inv_cancel₀ hc.ne', ENNReal.ofReal_one, one_mul]
    have h3 : ∀ v, ENNReal.ofReal (betaKernel a b c (c * v)) =
        ENNReal.ofReal (c ^ (a + b - 2)) * ENNReal.ofReal (betaKernel a b 1 v) := by
      intro v
      rw [← ENNReal.ofReal_mul (Real.rpow_nonneg hc.le _)]
      congr 1
      unfold betaKernel
      have hiff : (0 < c * v ∧ c * v < c) ↔ (0 < v ∧ v < 1) := by
        constructor
        · rintro ⟨h1, h2⟩
          exact ⟨(mul_pos_iff_of_pos_left hc).mp h1, by nlinarith⟩
        · rintro ⟨h1, h2⟩
          exact ⟨mul_pos hc h1, by nlinarith⟩
      by_cases hv : 0 < v ∧ v < 1
      · rw [if_pos (hiff.mpr hv), if_pos hv]
        have h1v : 0 < 1 - v := by linarith [hv.2]
        rw [show c - c * v = c * (1 - v) by ring, Real.mul_rpow hc.le hv.1.le, Real.mul_rpow hc.le h1v.le,
          show a + b - 2 = (a - 1) + (b - 1) by ring, Real.rpow_add hc]
        ring
      · rw [if_neg (fun h => hv (hiff.mp h)), if_neg hv, mul_zero]
    simp_rw [h3] at h2
    rw [h2, lintegral_const_mul' _ _ ENNReal.ofReal_ne_top, lintegral_betaKernel_one ha hb, ← mul_assoc,
      ← ENNReal.ofReal_mul hc.le, ← ENNReal.ofReal_mul (mul_nonneg hc.le (Real.rpow_nonneg hc.le _))]
    congr 2
    rw [show a + b - 1 = 1 + (a + b - 2) by ring, Real.rpow_add hc, Real.rpow_one]
  · rw [if_neg hc]
    have : ∀ u, betaKernel a b c u = 0 := by
      intro u
      unfold betaKernel
      rw [if_neg]
      rintro ⟨h1, h2⟩
      exact hc (lt_trans h1 h2)
    simp [this]

/-- the Dirichlet kernel in the first `m` coordinates: `∏ yᵢ^(βᵢ-1) · (1 - Σ y)^(b-1)` on the open simplex -/
noncomputable def dirKernel (m : ℕ) (β : Fin m → ℝ) (b : ℝ) (y : Fin m → ℝ) : ℝ :=
  if (∀ i, 0 < y i) ∧ ∑ i, y i < 1 then (∏ i, y i ^ (β i - 1)) * (1 - ∑ i, y i) ^ (b - 1) else 0

theorem measurableSet_simplex (m : ℕ) : MeasurableSet {y : Fin m → ℝ | (∀ i, 0 < y i) ∧ ∑ i, y i < 1} := by
  have h1 : {y : Fin m → ℝ | ∀ i, 0 < y i} = ⋂ i, {y | 0 < y i} := by ext y; simp
  have h2 : MeasurableSet {y : Fin m → ℝ | ∀ i, 0 < y i} := by
    rw [h1]
    exact MeasurableSet.iInter (fun i => measurableSet_lt measurable_const (measurable_pi_apply i))
  have h3 : MeasurableSet {y : Fin m → ℝ | ∑ i, y i < 1} :=
    measurableSet_lt (Finset.measurable_sum _ (fun i _ => measurable_pi_apply i)) measurable_const
  exact h2.inter h3

theorem measurable_dirKernel (m : ℕ) (β : Fin m → ℝ) (b : ℝ) : Measurable (dirKernel m β b) := by
  unfold dirKernel
  refine Measurable.ite (measurableSet_simplex m) ?_ measurable_const
  refine Measurable.mul ?_ ?_
  · exact Finset.measurable_prod _ (fun i _ => (measurable_pi_apply i).pow_const _)
  · exact (measurable_const.sub (Finset.measurable_sum _ (fun i _ => measurable_pi_apply i))).pow_const _

theorem dirKernel_nonneg (m : ℕ) (β : Fin m → ℝ) (b : ℝ) (y : Fin m → ℝ) : 0 ≤ dirKernel m β b y := by
  unfold dirKernel
  split_ifs with h
  · exact mul_nonneg (Finset.prod_nonneg (fun i _ => Real.rpow_nonneg (h.1 i).le _))
      (Real.rpow_nonneg (by linarith [h.2]) _)
  · exact le_rfl

/-- splitting off the last free coordinate -/
theorem dirKernel_snoc (m : ℕ) (β : Fin (m + 1) → ℝ) (b : ℝ) (y : Fin m → ℝ) (u : ℝ) :
    dirKernel (m + 1) β b (Fin.snoc y u) =
      (if ∀ i, 0 < y i then ∏ i : Fin m, y i ^ (β i.castSucc - 1) else 0) *
        betaKernel (β (Fin.last m)) b (1 - ∑ i, y i) u := by
  unfold dirKernel betaKernel
  simp only [Fin.forall_fin_succ', Fin.sum_univ_castSucc, Fin.prod_univ_castSucc, Fin.snoc_castSucc,
    Fin.snoc_last]
  have e1 : (((∀ i, 0 < y i) ∧ 0 < u) ∧ ∑ i, y i + u < 1) ↔
      ((∀ i, 0 < y i) ∧ (0 < u ∧ u < 1 - ∑ i, y i)) := by
    constructor
    · rintro ⟨⟨h1, h2⟩, h3⟩; exact ⟨h1, h2, by linarith⟩
    · rintro ⟨h1, h2, h3⟩; exact ⟨⟨h1, h2⟩, by linarith⟩
  rw [if_congr e1 rfl rfl]
  by_cases hA : ∀ i, 0 < y i
  · by_cases hB : 0 < u ∧ u < 1 - ∑ i, y i
    · rw [if_pos ⟨hA, hB⟩, if_pos hA, if_pos hB, show 1 - (∑ i, y i + u) = 1 - ∑ i, y i - u by ring]
      ring
    · rw [if_neg (fun h : (∀ i, 0 < y i) ∧ (0 < u ∧ u < 1 - ∑ i, y i) => hB h.2), if_neg hB, mul_zero]
  · rw [if_neg (fun h : (∀ i, 0 < y i) ∧ (0 < u ∧ u < 1 - ∑ i, y i) => hA h.1), if_neg hA, zero_mul]

/-- **the Dirichlet integral**, every dimension `m`: `∫_{Δ_m} ∏ yᵢ^(βᵢ-1) (1-Σy)^(b-1) dy = ∏Γ(βᵢ)·Γ(b)/Γ(Σβ+b)` -/
theorem lintegral_dirKernel (m : ℕ) : ∀ (β : Fin m → ℝ) (b : ℝ), (∀ i, 0 < β i) → 0 < b →
    ∫⁻ y, ENNReal.ofReal (dirKernel m β b y) =
      ENNReal.ofReal ((∏ i, Real.Gamma (β i)) * Real.Gamma b / Real.Gamma (∑ i, β i + b)) := by
  induction m with
  | zero =>
    intro β b hβ hb
    have h : ∀ y : Fin 0 → ℝ, dirKernel 0 β b y = 1 := by
      intro y; simp [dirKernel]
    simp_rw [h]
    simp [(Real.Gamma_pos_of_pos hb).ne', volume_pi, Measure.pi_empty_univ]
  | succ m ih =>
    intro β b hβ hb
    set a := β (Fin.last m) with ha_def
    have ha : 0 < a := hβ _
    set β' : Fin m → ℝ := fun i => β i.castSucc with hβ'
    have hab : 0 < a + b := by linarith
    have mp := volume_preserving_piFinSuccAbove (fun _ : Fin (m + 1) => ℝ) (Fin.last m)
    have hsymm : ∀ p : ℝ × (Fin m → ℝ),
        (MeasurableEquiv.piFinSuccAbove (fun _ : Fin (m + 1) => ℝ) (Fin.last m)).symm p = Fin.snoc p.2 p.1 := by
      intro p
      simp [MeasurableEquiv.piFinSuccAbove_symm_apply, Fin.insertNthEquiv, Fin.insertNth_last']
    have h1 : ∫⁻ y : Fin (m + 1) → ℝ, ENNReal.ofReal (dirKernel (m + 1) β b y) =
        ∫⁻ p : ℝ × (Fin m → ℝ), ENNReal.ofReal (dirKernel (m + 1) β b (Fin.snoc p.2 p.1))
          ∂((volume : Measure ℝ).prod (volume : Measure (Fin m → ℝ))) := by
      rw [← mp.symm.lintegral_comp_emb (MeasurableEquiv.measurableEmbedding _)
        (fun y => ENNReal.ofReal (dirKernel (m + 1) β b y))]
      simp_rw [hsymm]
      rfl
    have hmeas : Measurable (fun p : ℝ × (Fin m → ℝ) =>
        ENNReal.ofReal (dirKernel (m + 1) β b (Fin.snoc p.2 p.1))) := by
      have : Measurable (fun p : ℝ × (Fin m → ℝ) => (Fin.snoc p.2 p.1 : Fin (m + 1) → ℝ)) := by
        simp_rw [← hsymm]
        exact (MeasurableEquiv.piFinSuccAbove (fun _ : Fin (m + 1) => ℝ) (Fin.last m)).symm.measurable
      exact ((measurable_dirKernel (m + 1) β b).comp this).ennreal_ofReal
    rw [h1, lintegral_prod_symm _ hmeas.aemeasurable]
    have hinner : ∀ y : Fin m → ℝ,
        ∫⁻ u : ℝ, ENNReal.ofReal (dirKernel (m + 1) β b (Fin.snoc y u)) =
          ENNReal.ofReal (beta a b) * ENNReal.ofReal (dirKernel m β' (a + b) y) := by
      intro y
      simp_rw [dirKernel_snoc]
      have hP : 0 ≤ (if ∀ i, 0 < y i then ∏ i : Fin m, y i ^ (β i.castSucc - 1) else 0) := by
        split_ifs with h
        · exact Finset.prod_nonneg (fun i _ => Real.rpow_nonneg (h i).le _)
        · exact le_rfl
      simp_rw [ENNReal.ofReal_mul hP]
      rw [lintegral_const_mul' _ _ ENNReal.ofReal_ne_top, lintegral_betaKernel ha hb,
        ← ENNReal.ofReal_mul hP, ← ENNReal.ofReal_mul (beta_pos ha hb).le]
      congr 1
      unfold dirKernel
      by_cases hA : ∀ i, 0 < y i
      · by_cases hB : ∑ i, y i < 1
        · rw [if_pos hA, if_pos (by linarith : 0 < 1 - ∑ i, y i), if_pos ⟨hA, hB⟩]
          ring
        · rw [if_neg (by linarith : ¬ 0 < 1 - ∑ i, y i),
            if_neg (fun h : (∀ i, 0 < y i) ∧ ∑ i, y i < 1 => hB h.2)]
          ring
      · rw [if_neg hA, if_neg (fun h : (∀ i, 0 < y i) ∧ ∑ i, y i < 1 => hA h.1)]
        ring
    simp_rw [hinner]
    rw [lintegral_const_mul' _ _ ENNReal.ofReal_ne_top, ih β' (a + b) (fun i => hβ _) hab,
      ← ENNReal.ofReal_mul (beta_pos ha hb).le]
    congr 1
    unfold ProbabilityTheory.beta
    rw [Fin.prod_univ_castSucc, Fin.sum_univ_castSucc]
    have hG := (Real.Gamma_pos_of_pos hab).ne'
    rw [show ∑ i : Fin m, β' i + (a + b) = ∑ i : Fin m, β i.castSucc + β (Fin.last m) + b by
      rw [hβ', ha_def]; ring]
    field_simp
    rw [hβ', ha_def]
    ring

/-! ### all `m+1` categories at once -/

/-- the coordinates of the simplex point parametrised by `y`: `(y₀, …, y_{m-1}, 1 - Σ y)` -/
noncomputable def simplexCoord {m : ℕ} (y : Fin m → ℝ) : Fin (m + 1) → ℝ := Fin.snoc y (1 - ∑ i, y i)

/-- the open simplex `Δ_m`, in the first `m` coordinates -/
def simplex (m : ℕ) : Set (Fin m → ℝ) := {y | (∀ i, 0 < y i) ∧ ∑ i, y i < 1}

/-- `∏ X_i^(αᵢ-1)` on the open simplex, `0` outside -/
noncomputable def simplexKernel {m : ℕ} (α : Fin (m + 1) → ℝ) (y : Fin m → ℝ) : ℝ :=
  dirKernel m (fun i => α i.castSucc) (α (Fin.last m)) y

/-- the normalising constant `∏ Γ(αᵢ) / Γ(Σ α)` -/
noncomputable def dirNorm {m : ℕ} (α : Fin (m + 1) → ℝ) : ℝ := (∏ i, Real.Gamma (α i)) / Real.Gamma (∑ i, α i)

theorem dirNorm_pos {m : ℕ} (α : Fin (m + 1) → ℝ) (hα : ∀ i, 0 < α i) : 0 < dirNorm α :=
  div_pos (Finset.prod_pos (fun i _ => Real.Gamma_pos_of_pos (hα i)))
    (Real.Gamma_pos_of_pos (Finset.sum_pos (fun i _ => hα i) Finset.univ_nonempty))

theorem simplexCoord_pos {m : ℕ} (y : Fin m → ℝ) (hy : y ∈ simplex m) (i : Fin (m + 1)) :
    0 < simplexCoord y i := by
  unfold simplexCoord
  refine Fin.lastCases ?_ (fun j => ?_) i
  · rw [Fin.snoc_last]; linarith [hy.2]
  · rw [Fin.snoc_castSucc]; exact hy.1 j

theorem sum_simplexCoord {m : ℕ} (y : Fin m → ℝ) : ∑ i, simplexCoord y i = 1 := by
  unfold simplexCoord
  rw [Fin.sum_univ_castSucc]
  simp

theorem simplexKernel_eq {m : ℕ} (α : Fin (m + 1) → ℝ) (y : Fin m → ℝ) :
    simplexKernel α y =
      if (∀ i, 0 < y i) ∧ ∑ i, y i < 1 then ∏ i, simplexCoord y i ^ (α i - 1) else 0 := by
  unfold simplexKernel dirKernel simplexCoord
  simp only [Fin.prod_univ_castSucc, Fin.snoc_castSucc, Fin.snoc_last]

theorem simplexKernel_nonneg {m : ℕ} (α : Fin (m + 1) → ℝ) (y : Fin m → ℝ) : 0 ≤ simplexKernel α y :=
  dirKernel_nonneg _ _ _ _

theorem measurable_simplexKernel {m : ℕ} (α : Fin (m + 1) → ℝ) : Measurable (simplexKernel α) :=
  measurable_dirKernel _ _ _

theorem measurable_simplexCoord {m : ℕ} (i : Fin (m + 1)) :
    Measurable (fun y : Fin m → ℝ => simplexCoord y i) := by
  unfold simplexCoord
  refine Fin.lastCases ?_ (fun j => ?_) i
  · simp only [Fin.snoc_last]
    exact measurable_const.sub (Finset.measurable_sum _ (fun i _ => measurable_pi_apply i))
  · simp only [Fin.snoc_castSucc]
    exact measurable_pi_apply j

theorem simplexKernel_zero_of_notMem {m : ℕ} (α : Fin (m + 1) → ℝ) (y : Fin m → ℝ) (hy : y ∉ simplex m) :
    simplexKernel α y = 0 := by
  rw [simplexKernel_eq, if_neg (fun h : (∀ i, 0 < y i) ∧ ∑ i, y i < 1 => hy h)]

/-- the Dirichlet integral, all categories -/
theorem lintegral_simplexKernel {m : ℕ} (α : Fin (m + 1) → ℝ) (hα : ∀ i, 0 < α i) :
    ∫⁻ y, ENNReal.ofReal (simplexKernel α y) = ENNReal.ofReal (dirNorm α) := by
  unfold simplexKernel dirNorm
  rw [lintegral_dirKernel m _ _ (fun i => hα _) (hα _), Fin.prod_univ_castSucc, Fin.sum_univ_castSucc]

/-- from a finite `lintegral` to the Bochner integral -/
theorem integral_of_lintegral_ofReal {X : Type*} [MeasurableSpace X] {μ : Measure X} {f : X → ℝ}
    (hf : Measurable f) (h0 : ∀ x, 0 ≤ f x) {C : ℝ} (hC : 0 ≤ C)
    (h : ∫⁻ x, ENNReal.ofReal (f x) ∂μ = ENNReal.ofReal C) : Integrable f μ ∧ ∫ x, f x ∂μ = C := by
  constructor
  · refine ⟨hf.aestronglyMeasurable, ?_⟩
    rw [hasFiniteIntegral_iff_ofReal (Filter.Eventually.of_forall h0), h]
    exact ENNReal.ofReal_lt_top
  · rw [integral_eq_lintegral_of_nonneg_ae (Filter.Eventually.of_forall h0) hf.aestronglyMeasurable, h,
      ENNReal.toReal_ofReal hC]

/-- normalisation -/
theorem integral_simplexKernel {m : ℕ} (α : Fin (m + 1) → ℝ) (hα : ∀ i, 0 < α i) :
    Integrable (simplexKernel α) ∧ ∫ y, simplexKernel α y = dirNorm α :=
  integral_of_lintegral_ofReal (measurable_simplexKernel α) (simplexKernel_nonneg α) (dirNorm_pos α hα).le
    (lintegral_simplexKernel α hα)

/-- raising one exponent: `X_i · K(α) = K(α + eᵢ)` -/
theorem coord_mul_simplexKernel {m : ℕ} (α : Fin (m + 1) → ℝ) (i : Fin (m + 1)) (y : Fin m → ℝ) :
    simplexCoord y i * simplexKernel α y = simplexKernel (Function.update α i (α i + 1)) y := by
  rw [simplexKernel_eq, simplexKernel_eq]
  by_cases hy : (∀ i, 0 < y i) ∧ ∑ i, y i < 1
  · rw [if_pos hy, if_pos hy, ← Finset.mul_prod_erase Finset.univ _ (Finset.mem_univ i),
      ← Finset.mul_prod_erase Finset.univ _ (Finset.mem_univ i), ← mul_assoc]
    congr 1
    · rw [Function.update_self, show α i + 1 - 1 = 1 + (α i - 1) by ring,
        Real.rpow_add (simplexCoord_pos y hy i), Real.rpow_one]
    · apply Finset.prod_congr rfl
      intro j hj
      rw [Function.update_of_ne (Finset.ne_of_mem_erase hj)]
  · rw [if_neg hy, if_neg hy, mul_zero]

theorem dirNorm_update {m : ℕ} (α : Fin (m + 1) → ℝ) (hα : ∀ i, 0 < α i) (i : Fin (m + 1)) :
    dirNorm (Function.update α i (α i + 1)) = α i / (∑ j, α j) * dirNorm α := by
  unfold dirNorm
  have hA : 0 < ∑ j, α j := Finset.sum_pos (fun i _ => hα i) Finset.univ_nonempty
  have hsum : ∑ j, Function.update α i (α i + 1) j = (∑ j, α j) + 1 := by
    rw [← Finset.add_sum_erase Finset.univ _ (Finset.mem_univ i), ← Finset.add_sum_erase Finset.univ α (Finset.mem_univ i),
      Function.update_self]
    have : ∑ x ∈ Finset.univ.erase i, Function.update α i (α i + 1) x = ∑ x ∈ Finset.univ.erase i, α x :=
      Finset.sum_congr rfl (fun j hj => Function.update_of_ne (Finset.ne_of_mem_erase hj) _ _)
    rw [this]; ring
  have hprod : ∏ j, Real.Gamma (Function.update α i (α i + 1) j) = α i * ∏ j, Real.Gamma (α j) := by
    rw [← Finset.mul_prod_erase Finset.univ _ (Finset.mem_univ i),
      ← Finset.mul_prod_erase Finset.univ (fun j => Real.Gamma (α j)) (Finset.mem_univ i), Function.update_self,
      Real.Gamma_add_one (hα i).ne']
    have : ∏ x ∈ Finset.univ.erase i, Real.Gamma (Function.update α i (α i + 1) x) =
        ∏ x ∈ Finset.univ.erase i, Real.Gamma (α x) :=
      Finset.prod_congr rfl (fun j hj => by rw [Function.update_of_ne (Finset.ne_of_mem_erase hj)])
    rw [this]; ring
  rw [hsum, hprod, Real.Gamma_add_one hA.ne']
  have := (Real.Gamma_pos_of_pos hA).ne'
  field_simp

theorem update_pos {m : ℕ} (α : Fin (m + 1) → ℝ) (hα : ∀ i, 0 < α i) (i : Fin (m + 1)) :
    ∀ j, 0 < Function.update α i (α i + 1) j := by
  intro j
  by_cases h : j = i
  · subst h; rw [Function.update_self]; linarith [hα j]
  · rw [Function.update_of_ne h]; exact hα j

/-- first raw moments of the kernel -/
theorem integral_coord_mul_simplexKernel {m : ℕ} (α : Fin (m + 1) → ℝ) (hα : ∀ i, 0 < α i) (i : Fin (m + 1)) :
    Integrable (fun y => simplexCoord y i * simplexKernel α y) ∧
    ∫ y, simplexCoord y i * simplexKernel α y = α i / (∑ j, α j) * dirNorm α := by
  simp_rw [coord_mul_simplexKernel]
  rw [← dirNorm_update α hα i]
  exact integral_simplexKernel _ (update_pos α hα i)

/-- second raw moments of the kernel -/
theorem integral_coord_mul_coord_mul_simplexKernel {m : ℕ} (α : Fin (m + 1) → ℝ) (hα : ∀ i, 0 < α i)
    (i j : Fin (m + 1)) :
    Integrable (fun y => simplexCoord y j * (simplexCoord y i * simplexKernel α y)) ∧
    ∫ y, simplexCoord y j * (simplexCoord y i * simplexKernel α y) =
      (α j + if j = i then 1 else 0) / (∑ l, α l + 1) * (α i / (∑ l, α l)) * dirNorm α := by
  simp_rw [coord_mul_simplexKernel]
  have h := integral_simplexKernel _ (update_pos _ (update_pos α hα i) j)
  refine ⟨h.1, ?_⟩
  rw [h.2, dirNorm_update _ (update_pos α hα i) j, dirNorm_update α hα i]
  have hsum : ∑ l, Function.update α i (α i + 1) l = (∑ l, α l) + 1 := by
    rw [← Finset.add_sum_erase Finset.univ _ (Finset.mem_univ i), ← Finset.add_sum_erase Finset.univ α (Finset.mem_univ i),
      Function.update_self]
    have : ∑ x ∈ Finset.univ.erase i, Function.update α i (α i + 1) x = ∑ x ∈ Finset.univ.erase i, α x :=
      Finset.sum_congr rfl (fun j hj => Function.update_of_ne (Finset.ne_of_mem_erase hj) _ _)
    rw [this]; ring
  rw [hsum]
  by_cases hji : j = i
  · subst hji; rw [Function.update_self, if_pos rfl]; ring
  · rw [Function.update_of_ne hji, if_neg hji]; ring

end Statrs.Lemmas.DirichletIntegral
