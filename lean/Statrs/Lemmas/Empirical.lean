/-
  Lemmas for C15 (Empirical distribution): the list-as-ordered-map operations of
  `Statrs.Model.Empirical` over ℝ against `Multiset ℝ`, and the Welford update/downdate algebra.
-/
import Statrs.Real.Simp
import Statrs.Model.Empirical
import Statrs.Spec.EmpiricalSpec
import Mathlib.Tactic
namespace Statrs.Lemmas.Empirical
open Statrs Statrs.Model

/-! ### `NonNan::cmp` over ℝ -/

theorem keyCmp_lt {a b : ℝ} (h : a < b) : keyCmp a b = Ordering.lt := by
  unfold keyCmp; rw [if_pos h.le, if_neg (not_le.2 h)]

theorem keyCmp_self (a : ℝ) : keyCmp a a = Ordering.eq := by
  unfold keyCmp; rw [if_pos le_rfl, if_pos le_rfl]

theorem keyCmp_gt {a b : ℝ} (h : b < a) : keyCmp a b = Ordering.gt := by
  unfold keyCmp; rw [if_neg (not_le.2 h), if_pos h.le]

/-! ### the map as a multiset -/

/-- the multiset a `(key, multiplicity)` list stands for -/
def expand : List (ℝ × Int) → Multiset ℝ
  | [] => 0
  | p :: t => Multiset.replicate p.2.toNat p.1 + expand t

/-- the keys, in map order -/
def keys (d : List (ℝ × Int)) : List ℝ := d.map Prod.fst

/-- representation invariant of the `BTreeMap`: keys strictly increasing, multiplicities ≥ 1 -/
def WF (d : List (ℝ × Int)) : Prop :=
  (keys d).Pairwise (· < ·) ∧ ∀ p ∈ d, 1 ≤ p.2

theorem WF_nil : WF [] := ⟨List.Pairwise.nil, by simp⟩

theorem WF_cons {p : ℝ × Int} {t : List (ℝ × Int)} :
    WF (p :: t) ↔ (∀ x ∈ keys t, p.1 < x) ∧ 1 ≤ p.2 ∧ WF t := by
  unfold WF keys
  simp only [List.map_cons, List.pairwise_cons, List.mem_cons, forall_eq_or_imp]
  tauto

@[simp] theorem expand_nil : expand [] = 0 := rfl
@[simp] theorem expand_cons (p : ℝ × Int) (t : List (ℝ × Int)) :
    expand (p :: t) = Multiset.replicate p.2.toNat p.1 + expand t := rfl
@[simp] theorem keys_nil : keys [] = [] := rfl
@[simp] theorem keys_cons (p : ℝ × Int) (t : List (ℝ × Int)) : keys (p :: t) = p.1 :: keys t := rfl

theorem mem_expand_keys {d : List (ℝ × Int)} {x : ℝ} (h : x ∈ expand d) : x ∈ keys d := by
  induction d with
  | nil => simp at h
  | cons p t ih =>
    simp only [expand_cons, Multiset.mem_add] at h
    rcases h with h | h
    · simp [Multiset.eq_of_mem_replicate h]
    · simp [ih h]

theorem mem_keys_expand {d : List (ℝ × Int)} (hd : ∀ p ∈ d, 1 ≤ p.2) {x : ℝ} (h : x ∈ keys d) :
    x ∈ expand d := by
  induction d with
  | nil => simp at h
  | cons p t ih =>
    simp only [keys_cons, List.mem_cons] at h
    simp only [expand_cons, Multiset.mem_add]
    rcases h with h | h
    · left
      have : 1 ≤ p.2 := hd p (by simp)
      rw [h, Multiset.mem_replicate]
      exact ⟨by omega, rfl⟩
    · right; exact ih (fun q hq => hd q (by simp [hq])) h

theorem mem_expand_iff {d : List (ℝ × Int)} (hd : WF d) {x : ℝ} : x ∈ expand d ↔ x ∈ keys d :=
  ⟨mem_expand_keys, mem_keys_expand hd.2⟩

theorem expand_eq_zero_iff {d : List (ℝ × Int)} (hd : WF d) : expand d = 0 ↔ d = [] := by
  constructor
  · intro h
    cases d with
    | nil => rfl
    | cons p t =>
      exfalso
      have : p.1 ∈ expand (p :: t) := mem_keys_expand hd.2 (by simp)
      rw [h] at this; simp at this
  · rintro rfl; rfl

/-! ### `entry().and_modify().or_insert()` -/

theorem keys_mapIncr (d : List (ℝ × Int)) (v : ℝ) : ∀ x ∈ keys (mapIncr d v), x = v ∨ x ∈ keys d := by
  induction d with
  | nil => intro x hx; simpa [mapIncr] using hx
  | cons p t ih =>
    obtain ⟨k, c⟩ := p
    intro x hx
    rcases lt_trichotomy v k with h | h | h
    · simp only [mapIncr, keyCmp_lt h, keys_cons, List.mem_cons] at hx ⊢; tauto
    · subst h
      simp only [mapIncr, keyCmp_self, keys_cons, List.mem_cons] at hx ⊢; tauto
    · simp only [mapIncr, keyCmp_gt h, keys_cons, List.mem_cons] at hx ⊢
      rcases hx with hx | hx
      · tauto
      · rcases ih x hx with h' | h' <;> tauto

theorem WF_mapIncr {d : List (ℝ × Int)} (hd : WF d) (v : ℝ) : WF (mapIncr d v) := by
  induction d with
  | nil => simp [mapIncr, WF]
  | cons p t ih =>
    obtain ⟨k, c⟩ := p
    rw [WF_cons] at hd
    obtain ⟨hk, hc, ht⟩ := hd
    rcases lt_trichotomy v k with h | h | h
    · simp only [mapIncr, keyCmp_lt h]
      rw [WF_cons, WF_cons]
      refine ⟨?_, le_rfl, hk, hc, ht⟩
      intro x hx
      simp only [keys_cons, List.mem_cons] at hx
      rcases hx with rfl | hx
      · exact h
      · exact h.trans (hk x hx)
    · subst h
      simp only [mapIncr, keyCmp_self]
      rw [WF_cons]
      exact ⟨hk, by simp only; omega, ht⟩
    · simp only [mapIncr, keyCmp_gt h]
      rw [WF_cons]
      refine ⟨?_, hc, ih ht⟩
      intro x hx
      rcases keys_mapIncr t v x hx with rfl | hx
      · exact h
      · exact hk x hx

theorem expand_mapIncr {d : List (ℝ × Int)} (hd : WF d) (v : ℝ) :
    expand (mapIncr d v) = v ::ₘ expand d := by
  induction d with
  | nil => simp [mapIncr]
  | cons p t ih =>
    obtain ⟨k, c⟩ := p
    rw [WF_cons] at hd
    obtain ⟨hk, hc, ht⟩ := hd
    rcases lt_trichotomy v k with h | h | h
    · simp [mapIncr, keyCmp_lt h]
    · subst h
      simp only [mapIncr, keyCmp_self, expand_cons]
      have : (c + 1).toNat = c.toNat + 1 := by simp only at hc; omega
      rw [this, Multiset.replicate_succ, Multiset.cons_add]
    · simp only [mapIncr, keyCmp_gt h, expand_cons, ih ht, Multiset.add_cons]

/-! ### `entry()` lookup, `OccupiedEntry::remove`, `*entry.get_mut() -= 1` -/

theorem mapGet_none {d : List (ℝ × Int)} (hd : WF d) {v : ℝ} (h : mapGet d v = none) :
    v ∉ expand d := by
  induction d with
  | nil => simp
  | cons p t ih =>
    obtain ⟨k, c⟩ := p
    have hd' := hd
    rw [WF_cons] at hd
    obtain ⟨hk, hc, ht⟩ := hd
    rw [mem_expand_iff hd']
    rcases lt_trichotomy v k with h' | h' | h'
    · simp only [keys_cons, List.mem_cons, not_or]
      exact ⟨h'.ne, fun hx => absurd (hk v hx) (not_lt.2 h'.le)⟩
    · subst h'
      simp [mapGet, keyCmp_self] at h
    · simp only [mapGet, keyCmp_gt h'] at h
      simp only [keys_cons, List.mem_cons, not_or]
      exact ⟨h'.ne', fun hx => ih ht h (mem_keys_expand ht.2 hx)⟩

theorem mapGet_some {d : List (ℝ × Int)} {v : ℝ} {c : Int} (h : mapGet d v = some c) :
    (v, c) ∈ d := by
  induction d with
  | nil => simp [mapGet] at h
  | cons p t ih =>
    obtain ⟨k, c'⟩ := p
    rcases lt_trichotomy v k with h' | h' | h'
    · simp [mapGet, keyCmp_lt h'] at h
    · subst h'
      simp only [mapGet, keyCmp_self, Option.some.injEq] at h
      subst h; simp
    · simp only [mapGet, keyCmp_gt h'] at h
      exact List.mem_cons_of_mem _ (ih h)

theorem mapRemove_sublist (d : List (ℝ × Int)) (v : ℝ) : (mapRemove d v).Sublist d := by
  induction d with
  | nil => simp [mapRemove]
  | cons p t ih =>
    obtain ⟨k, c⟩ := p
    rcases lt_trichotomy v k with h' | h' | h'
    · simp [mapRemove, keyCmp_lt h']
    · subst h'
      simp [mapRemove, keyCmp_self]
    · simp only [mapRemove, keyCmp_gt h']
      exact ih.cons_cons _

theorem WF_sublist {d d' : List (ℝ × Int)} (h : d'.Sublist d) (hd : WF d) : WF d' :=
  ⟨hd.1.sublist (h.map _), fun p hp => hd.2 p (h.subset hp)⟩

theorem WF_mapRemove {d : List (ℝ × Int)} (hd : WF d) (v : ℝ) : WF (mapRemove d v) :=
  WF_sublist (mapRemove_sublist d v) hd

theorem expand_mapRemove {d : List (ℝ × Int)} (hd : WF d) {v : ℝ}
    (h : mapGet d v = some 1) : expand (mapRemove d v) = (expand d).erase v := by
  induction d with
  | nil => simp [mapGet] at h
  | cons p t ih =>
    obtain ⟨k, c⟩ := p
    rw [WF_cons] at hd
    obtain ⟨hk, hc, ht⟩ := hd
    rcases lt_trichotomy v k with h' | h' | h'
    · simp [mapGet, keyCmp_lt h'] at h
    · subst h'
      simp only [mapGet, keyCmp_self, Option.some.injEq] at h
      subst h
      simp [mapRemove, keyCmp_self]
    · simp only [mapGet, keyCmp_gt h'] at h
      simp only [mapRemove, keyCmp_gt h', expand_cons, ih ht h]
      rw [Multiset.erase_add_right_neg]
      intro hv
      exact h'.ne' (Multiset.eq_of_mem_replicate hv)

theorem keys_mapDecr (d : List (ℝ × Int)) (v : ℝ) : keys (mapDecr d v) = keys d := by
  induction d with
  | nil => simp [mapDecr]
  | cons p t ih =>
    obtain ⟨k, c⟩ := p
    rcases lt_trichotomy v k with h' | h' | h'
    · simp [mapDecr, keyCmp_lt h']
    · subst h'
      simp [mapDecr, keyCmp_self]
    · simp [mapDecr, keyCmp_gt h', ih]

theorem WF_mapDecr {d : List (ℝ × Int)} (hd : WF d) {v : ℝ} {c : Int}
    (h : mapGet d v = some c) (hc2 : 2 ≤ c) : WF (mapDecr d v) := by
  refine ⟨by rw [keys_mapDecr]; exact hd.1, ?_⟩
  have hpos := hd.2
  clear hd
  induction d with
  | nil => simp [mapDecr]
  | cons p t ih =>
    obtain ⟨k, c'⟩ := p
    rcases lt_trichotomy v k with h' | h' | h'
    · simp [mapGet, keyCmp_lt h'] at h
    · subst h'
      simp only [mapGet, keyCmp_self, Option.some.injEq] at h
      subst h
      simp only [mapDecr, keyCmp_self]
      intro p hp
      rcases List.mem_cons.1 hp with rfl | hp
      · simp only [usub]; split_ifs <;> omega
      · exact hpos p (List.mem_cons_of_mem _ hp)
    · simp only [mapGet, keyCmp_gt h'] at h
      simp only [mapDecr, keyCmp_gt h']
      intro p hp
      rcases List.mem_cons.1 hp with rfl | hp
      · exact hpos _ (by simp)
      · exact ih h (fun q hq => hpos q (List.mem_cons_of_mem _ hq)) p hp

theorem mapDecr_ne_nil {d : List (ℝ × Int)} {v : ℝ} {c : Int}
    (h : mapGet d v = some c) : mapDecr d v ≠ [] := by
  intro hn
  have := congrArg List.length (congrArg keys hn)
  rw [keys_mapDecr] at this
  cases d with
  | nil => simp [mapGet] at h
  | cons p t => simp at this

theorem expand_mapDecr {d : List (ℝ × Int)} (hd : WF d) {v : ℝ} {c : Int}
    (h : mapGet d v = some c) (hc2 : 2 ≤ c) : expand (mapDecr d v) = (expand d).erase v := by
  induction d with
  | nil => simp [mapGet] at h
  | cons p t ih =>
    obtain ⟨k, c'⟩ := p
    rw [WF_cons] at hd
    obtain ⟨hk, hc, ht⟩ := hd
    rcases lt_trichotomy v k with h' | h' | h'
    · simp [mapGet, keyCmp_lt h'] at h
    · subst h'
      simp only [mapGet, keyCmp_self, Option.some.injEq] at h
      subst h
      simp only [mapDecr, keyCmp_self, expand_cons]
      have e1 : usub c' 1 = c' - 1 := by simp only [usub]; split_ifs <;> omega
      have e2 : c'.toNat = (c' - 1).toNat + 1 := by omega
      rw [e1, e2, Multiset.replicate_succ, Multiset.cons_add, Multiset.erase_cons_head]
    · simp only [mapGet, keyCmp_gt h'] at h
      simp only [mapDecr, keyCmp_gt h', expand_cons, ih ht h]
      rw [Multiset.erase_add_right_neg]
      intro hv
      exact h'.ne' (Multiset.eq_of_mem_replicate hv)

/-! ### range sums (`cdf`, `sf`) -/

theorem foldl_add_int (l : List Int) (a : Int) : l.foldl (· + ·) a = a + l.sum := by
  induction l generalizing a with
  | nil => simp
  | cons x t ih => simp only [List.foldl_cons, List.sum_cons, ih]; ring

theorem mapSumTo_filter (d : List (ℝ × Int)) (x : ℝ) :
    mapSumTo d x = ((d.filter (fun p => decide (p.1 ≤ x))).map Prod.snd).foldl (· + ·) 0 := by
  unfold mapSumTo
  congr 2
  apply List.filter_congr
  intro p _
  rcases lt_trichotomy x p.1 with h | h | h
  · simp [keyCmp_lt h, not_le.2 h]
  · simp [← h, keyCmp_self]
  · simp [keyCmp_gt h, h.le]

theorem mapSumFrom_filter (d : List (ℝ × Int)) (x : ℝ) :
    mapSumFrom d x = ((d.filter (fun p => decide (x < p.1))).map Prod.snd).foldl (· + ·) 0 := by
  unfold mapSumFrom
  congr 2
  apply List.filter_congr
  intro p _
  rcases lt_trichotomy x p.1 with h | h | h
  · simp [keyCmp_lt h, h]
  · simp [← h, keyCmp_self]
  · simp [keyCmp_gt h, not_lt.2 h.le]

theorem card_filter_replicate (P : ℝ → Prop) [DecidablePred P] (n : ℕ) (k : ℝ) :
    Multiset.card ((Multiset.replicate n k).filter P) = if P k then n else 0 := by
  split_ifs with h
  · rw [Multiset.filter_eq_self.2 (fun a ha => by rw [Multiset.eq_of_mem_replicate ha]; exact h),
      Multiset.card_replicate]
  · rw [Multiset.filter_eq_nil.2 (fun a ha => by rw [Multiset.eq_of_mem_replicate ha]; exact h),
      Multiset.card_zero]

/-- Σ of the multiplicities of the entries satisfying `P` = number of held values satisfying `P` -/
theorem sum_filter_eq_card (P : ℝ → Prop) [DecidablePred P] {d : List (ℝ × Int)}
    (hd : ∀ p ∈ d, 1 ≤ p.2) :
    ((d.filter (fun p => decide (P p.1))).map Prod.snd).sum
      = (Multiset.card ((expand d).filter P) : Int) := by
  induction d with
  | nil => simp
  | cons p t ih =>
    have ih' := ih (fun q hq => hd q (List.mem_cons_of_mem _ hq))
    have hp : 1 ≤ p.2 := hd p (by simp)
    simp only [expand_cons, Multiset.filter_add, Multiset.card_add, card_filter_replicate,
      List.filter_cons]
    by_cases h : P p.1
    · simp only [h, decide_true, if_true, List.map_cons, List.sum_cons, ih']
      push_cast; omega
    · simp only [h, decide_false, if_false]
      simpa using ih'

theorem mapSumTo_eq {d : List (ℝ × Int)} (hd : ∀ p ∈ d, 1 ≤ p.2) (x : ℝ) :
    mapSumTo d x = (Multiset.card ((expand d).filter (fun y => y ≤ x)) : Int) := by
  rw [mapSumTo_filter, foldl_add_int, zero_add]
  exact sum_filter_eq_card (fun y => y ≤ x) hd

theorem mapSumFrom_eq {d : List (ℝ × Int)} (hd : ∀ p ∈ d, 1 ≤ p.2) (x : ℝ) :
    mapSumFrom d x = (Multiset.card ((expand d).filter (fun y => x < y)) : Int) := by
  rw [mapSumFrom_filter, foldl_add_int, zero_add]
  exact sum_filter_eq_card (fun y => x < y) hd

/-! ### first / last key -/

theorem head_isLeast {d : List (ℝ × Int)} (hd : WF d) {a : ℝ} (h : (keys d).head? = some a) :
    IsLeast {x | x ∈ expand d} a := by
  cases d with
  | nil => simp at h
  | cons p t =>
    simp only [keys_cons, List.head?_cons, Option.some.injEq] at h
    subst h
    refine ⟨mem_keys_expand hd.2 (by simp), ?_⟩
    intro x hx
    have hx' : x ∈ keys (p :: t) := mem_expand_keys hx
    rw [WF_cons] at hd
    simp only [keys_cons, List.mem_cons] at hx'
    rcases hx' with rfl | hx'
    · exact le_rfl
    · exact (hd.1 x hx').le

theorem last_isGreatest {d : List (ℝ × Int)} (hd : WF d) {a : ℝ}
    (h : (keys d).reverse.head? = some a) : IsGreatest {x | x ∈ expand d} a := by
  have hs : (keys d).reverse.Pairwise (fun a b => b < a) := List.pairwise_reverse.2 hd.1
  have hmem : ∀ x, x ∈ expand d ↔ x ∈ (keys d).reverse := fun x => by
    rw [mem_expand_iff hd, List.mem_reverse]
  generalize (keys d).reverse = l at h hs hmem
  cases l with
  | nil => simp at h
  | cons b t =>
    simp only [List.head?_cons, Option.some.injEq] at h
    subst h
    rw [List.pairwise_cons] at hs
    refine ⟨(hmem b).2 (by simp), ?_⟩
    intro x hx
    rcases List.mem_cons.1 ((hmem x).1 hx) with rfl | hx'
    · exact le_rfl
    · exact (hs.1 x hx').le

/-! ### the map is determined by the multiset it stands for -/

theorem WF_expand_inj {d₁ d₂ : List (ℝ × Int)} (h₁ : WF d₁) (h₂ : WF d₂)
    (h : expand d₁ = expand d₂) : d₁ = d₂ := by
  induction d₁ generalizing d₂ with
  | nil =>
    symm; rw [← expand_eq_zero_iff h₂, ← h]; rfl
  | cons p t ih =>
    cases d₂ with
    | nil =>
      exact (expand_eq_zero_iff h₁).1 (by rw [h]; rfl)
    | cons q u =>
      have l₁ := head_isLeast h₁ (a := p.1) (by simp)
      have l₂ := head_isLeast h₂ (a := q.1) (by simp)
      rw [h] at l₁
      have hk : p.1 = q.1 := l₁.unique l₂
      have w₁ := WF_cons.1 h₁
      have w₂ := WF_cons.1 h₂
      have n₁ : p.1 ∉ expand t := fun hx => absurd (w₁.1 _ (mem_expand_keys hx)) (lt_irrefl _)
      have n₂ : q.1 ∉ expand u := fun hx => absurd (w₂.1 _ (mem_expand_keys hx)) (lt_irrefl _)
      have hc := congrArg (Multiset.count p.1) h
      simp only [expand_cons, Multiset.count_add, Multiset.count_replicate_self,
        Multiset.count_eq_zero_of_notMem n₁] at hc
      rw [hk, Multiset.count_replicate_self, Multiset.count_eq_zero_of_notMem n₂] at hc
      have hcnt : p.2 = q.2 := by have := w₁.2.1; have := w₂.2.1; omega
      have hpq : p = q := Prod.ext hk hcnt
      subst hpq
      simp only [expand_cons, add_right_inj] at h
      rw [ih w₁.2.2 w₂.2.2 h]

end Statrs.Lemmas.Empirical
