/-
  Lemmas for C15: the Welford update / downdate identities on `Multiset ℝ`
  (sample mean and sum of squared deviations when one value is inserted).
-/
import Statrs.Spec.EmpiricalSpec
import Mathlib.Tactic
namespace Statrs.Lemmas.EmpiricalMoments
open Statrs.Spec.EmpiricalSpec

theorem count_cons (m : Multiset ℝ) (v : ℝ) : count (v ::ₘ m) = count m + 1 := by
  unfold count; rw [Multiset.card_cons]; push_cast; ring

theorem count_pos {m : Multiset ℝ} (h : m ≠ 0) : 0 < count m := by
  unfold count
  exact_mod_cast Multiset.card_pos.2 h

theorem one_le_count {m : Multiset ℝ} (h : m ≠ 0) : 1 ≤ count m := by
  unfold count
  exact_mod_cast Multiset.card_pos.2 h

theorem sum_sq_sub (m : Multiset ℝ) (a : ℝ) :
    (m.map (fun x => (x - a) ^ 2)).sum
      = (m.map (fun x => x ^ 2)).sum - 2 * a * m.sum + count m * a ^ 2 := by
  unfold count
  induction m using Multiset.induction_on with
  | empty => simp
  | cons x s ih =>
    simp only [Multiset.map_cons, Multiset.sum_cons, Multiset.card_cons, ih]; push_cast; ring

/-- `Σ (x - x̄)² = Σ x² - (Σ x)² / n` -/
theorem ssd_eq {m : Multiset ℝ} (h : m ≠ 0) :
    ssd m = (m.map (fun x => x ^ 2)).sum - m.sum ^ 2 / count m := by
  have hn : count m ≠ 0 := (count_pos h).ne'
  unfold ssd; rw [sum_sq_sub]; unfold mean
  field_simp; ring

theorem mean_singleton (v : ℝ) : mean {v} = v := by
  unfold mean count; simp

theorem ssd_singleton (v : ℝ) : ssd {v} = 0 := by
  unfold ssd; rw [mean_singleton]; simp

/-- Welford mean update -/
theorem mean_cons {m : Multiset ℝ} (h : m ≠ 0) (v : ℝ) :
    mean (v ::ₘ m) = mean m + (v - mean m) / (count m + 1) := by
  have hn : 0 < count m := count_pos h
  unfold mean; rw [count_cons, Multiset.sum_cons]
  field_simp; ring

/-- Welford second-moment update -/
theorem ssd_cons {m : Multiset ℝ} (h : m ≠ 0) (v : ℝ) :
    ssd (v ::ₘ m) = ssd m + count m * (v - mean m) * (v - mean m) / (count m + 1) := by
  have hn : 0 < count m := count_pos h
  rw [ssd_eq h, ssd_eq (Multiset.cons_ne_zero), count_cons, Multiset.map_cons, Multiset.sum_cons,
    Multiset.sum_cons]
  unfold mean
  field_simp; ring

end Statrs.Lemmas.EmpiricalMoments
