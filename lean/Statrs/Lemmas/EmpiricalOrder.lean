/-
  Statrs.Draft.Lemmas.EmpiricalOrder — the step cdf `Spec.EmpiricalSpec.cdf m` of a finite multiset of reals
  against its order statistics (specification side only; nothing here mentions the model):

    * `orderStat m k` — the `k`-th smallest held value (0-based, via `Multiset.sort`); it is
      `Spec.OrderStats.kth l k` when `m` is the multiset of a list `l`;
    * counting in a sorted list: `card {y ∈ m | y ≤ x} ≥ k+1` iff `orderStat m k ≤ x`;
    * `quantileIdx p n = ⌈p·n⌉ − 1` and `cdf_isQuantileLE`: for `0 < p ≤ 1` (levels `k/n` included) the order statistic
      `⌈p·n⌉` (1-based) is the smallest `x` with `cdf x ≥ p`;
    * `cdf_isQuantile`: when `p·n` is not an integer (`p` is not a level of the step function) it is the
      `p`-quantile in the older, strong sense `Lemmas.Bisect.IsQuantile` (no flat piece at level `p`).
-/
import Statrs.Spec.EmpiricalSpec
import Statrs.Lemmas.OrderStats
import Statrs.Lemmas.BisectWeak
import Mathlib.Data.Multiset.Sort
namespace Statrs.Lemmas.EmpiricalOrder
open Statrs Statrs.Spec Statrs.Lemmas.Bisect

/-- the `k`-th smallest held value, `k` counted from 0 (junk `0` for `k ≥ |m|`) -/
noncomputable def orderStat (m : Multiset ℝ) (k : ℕ) : ℝ := (m.sort (· ≤ ·)).getD k 0

/-- full(ℝ): `orderStat` inside the range is the entry of the sorted list -/
theorem orderStat_eq_getElem (m : Multiset ℝ) (k : ℕ) (h : k < Multiset.card m) :
    orderStat m k = (m.sort (· ≤ ·))[k]'(by rw [Multiset.length_sort]; exact h) := by
  unfold orderStat
  rw [List.getD_eq_getElem?_getD, List.getElem?_eq_getElem (by rw [Multiset.length_sort]; exact h)]; rfl

/-- full(ℝ): an order statistic is a held value -/
theorem orderStat_mem (m : Multiset ℝ) (k : ℕ) (h : k < Multiset.card m) : orderStat m k ∈ m := by
  rw [orderStat_eq_getElem m k h, ← Multiset.mem_sort (r := (· ≤ ·))]
  exact List.getElem_mem _

/-- full(ℝ): order statistics are non-decreasing in the index -/
theorem orderStat_mono (m : Multiset ℝ) (i j : ℕ) (hij : i ≤ j) (hj : j < Multiset.card m) :
    orderStat m i ≤ orderStat m j := by
  rw [orderStat_eq_getElem m i (by omega), orderStat_eq_getElem m j hj]
  rcases Nat.eq_or_lt_of_le hij with rfl | hlt
  · exact le_refl _
  · exact List.pairwise_iff_getElem.1 (Multiset.pairwise_sort m (· ≤ ·)) i j _ _ hlt

/-- full(ℝ): on the multiset of a list, `orderStat` is the `kth` of `Spec.OrderStats` -/
theorem orderStat_coe (l : List ℝ) (k : ℕ) : orderStat (l : Multiset ℝ) k = Spec.OrderStats.kth l k := by
  unfold orderStat Spec.OrderStats.kth
  congr 1
  apply List.Perm.eq_of_pairwise' (Multiset.pairwise_sort _ (· ≤ ·)) (OrderStats.sorted_pairwise l)
  have h1 : ((l : Multiset ℝ).sort (· ≤ ·)).Perm l := by
    rw [← Multiset.coe_eq_coe, Multiset.sort_eq]
  exact h1.trans (OrderStats.sorted_perm l).symm

/-! ### counting in a sorted list -/

/-- full(ℝ): in a sorted list, `s[i] ≤ x` puts at least `i+1` entries `≤ x` -/
theorem sorted_count_ge : ∀ (s : List ℝ), s.Pairwise (· ≤ ·) → ∀ (i : ℕ) (hi : i < s.length) (x : ℝ),
    s[i] ≤ x → i + 1 ≤ (s.filter (fun y => decide (y ≤ x))).length := by
  intro s
  induction s with
  | nil => intro _ i hi; simp at hi
  | cons a t ih =>
    intro hs i hi x hx
    rw [List.pairwise_cons] at hs
    cases i with
    | zero =>
      simp only [List.getElem_cons_zero] at hx
      simp [hx]
    | succ j =>
      simp only [List.getElem_cons_succ] at hx
      have hj : j < t.length := by simpa using hi
      have ha : a ≤ x := (hs.1 _ (List.getElem_mem hj)).trans hx
      have := ih hs.2 j hj x hx
      simp only [List.filter_cons, ha, decide_true, if_true, List.length_cons]
      omega

/-- full(ℝ): in a sorted list, `x < s[i]` leaves at most `i` entries `≤ x` -/
theorem sorted_count_le : ∀ (s : List ℝ), s.Pairwise (· ≤ ·) → ∀ (i : ℕ) (hi : i < s.length) (x : ℝ),
    x < s[i] → (s.filter (fun y => decide (y ≤ x))).length ≤ i := by
  intro s
  induction s with
  | nil => intro _ i hi; simp at hi
  | cons a t ih =>
    intro hs i hi x hx
    rw [List.pairwise_cons] at hs
    cases i with
    | zero =>
      simp only [List.getElem_cons_zero] at hx
      have : (a :: t).filter (fun y => decide (y ≤ x)) = [] := by
        rw [List.filter_eq_nil_iff]
        intro y hy
        simp only [List.mem_cons] at hy
        rcases hy with rfl | hy
        · simpa using hx
        · simpa using hx.trans_le (hs.1 y hy)
      rw [this]; simp
    | succ j =>
      simp only [List.getElem_cons_succ] at hx
      have hj : j < t.length := by simpa using hi
      have := ih hs.2 j hj x hx
      have hle : ((a :: t).filter (fun y => decide (y ≤ x))).length
          ≤ (t.filter (fun y => decide (y ≤ x))).length + 1 := by
        rw [List.filter_cons]; split_ifs <;> simp
      omega

/-- full(ℝ): the count `#{y ∈ m | y ≤ x}` computed on the sorted list -/
theorem card_filter_le (m : Multiset ℝ) (x : ℝ) :
    Multiset.card (m.filter (fun y => y ≤ x)) = ((m.sort (· ≤ ·)).filter (fun y => decide (y ≤ x))).length := by
  conv_lhs => rw [← Multiset.sort_eq m (· ≤ ·)]
  rw [Multiset.filter_coe, Multiset.coe_card]

/-- full(ℝ): at least `k+1` held values are `≤ x` when the `k`-th smallest is -/
theorem card_filter_ge_of_orderStat_le (m : Multiset ℝ) (k : ℕ) (h : k < Multiset.card m) (x : ℝ)
    (hx : orderStat m k ≤ x) : k + 1 ≤ Multiset.card (m.filter (fun y => y ≤ x)) := by
  rw [card_filter_le]
  rw [orderStat_eq_getElem m k h] at hx
  exact sorted_count_ge _ (Multiset.pairwise_sort m (· ≤ ·)) k _ x hx

/-- full(ℝ): at most `k` held values are `≤ x` when `x` is below the `k`-th smallest -/
theorem card_filter_le_of_lt_orderStat (m : Multiset ℝ) (k : ℕ) (h : k < Multiset.card m) (x : ℝ)
    (hx : x < orderStat m k) : Multiset.card (m.filter (fun y => y ≤ x)) ≤ k := by
  rw [card_filter_le]
  rw [orderStat_eq_getElem m k h] at hx
  exact sorted_count_le _ (Multiset.pairwise_sort m (· ≤ ·)) k _ x hx

/-! ### the quantile index -/

/-- 0-based index of the order statistic `⌈p·n⌉` (1-based) -/
noncomputable def quantileIdx (p : ℝ) (n : ℕ) : ℕ := ⌈p * (n : ℝ)⌉.toNat - 1

/-- full(ℝ): `1 ≤ ⌈p·n⌉ ≤ n` for `0 < p ≤ 1`, `n ≥ 1` -/
theorem ceil_bounds {p : ℝ} {n : ℕ} (hn : 0 < n) (hp0 : 0 < p) (hp1 : p ≤ 1) :
    1 ≤ ⌈p * (n : ℝ)⌉ ∧ ⌈p * (n : ℝ)⌉ ≤ n := by
  have hn' : (0 : ℝ) < n := by exact_mod_cast hn
  constructor
  · have : (0 : ℝ) < p * n := mul_pos hp0 hn'
    have := Int.ceil_pos.2 this
    omega
  · apply Int.ceil_le.2
    push_cast
    nlinarith

/-- full(ℝ): the quantile index is a valid index -/
theorem quantileIdx_lt {p : ℝ} {n : ℕ} (hn : 0 < n) (hp0 : 0 < p) (hp1 : p ≤ 1) : quantileIdx p n < n := by
  obtain ⟨h1, h2⟩ := ceil_bounds hn hp0 hp1
  unfold quantileIdx; omega

/-- full(ℝ): `quantileIdx + 1 = ⌈p·n⌉` as reals -/
theorem quantileIdx_cast {p : ℝ} {n : ℕ} (hn : 0 < n) (hp0 : 0 < p) (hp1 : p ≤ 1) :
    ((quantileIdx p n : ℕ) : ℝ) + 1 = (⌈p * (n : ℝ)⌉ : ℝ) := by
  obtain ⟨h1, h2⟩ := ceil_bounds hn hp0 hp1
  have : ((quantileIdx p n : ℕ) : ℤ) + 1 = ⌈p * (n : ℝ)⌉ := by unfold quantileIdx; omega
  exact_mod_cast this

/-- full(ℝ): the quantile index is monotone in `p` -/
theorem quantileIdx_mono {p q : ℝ} {n : ℕ} (hpq : p ≤ q) : quantileIdx p n ≤ quantileIdx q n := by
  unfold quantileIdx
  have : ⌈p * (n : ℝ)⌉ ≤ ⌈q * (n : ℝ)⌉ := Int.ceil_mono (by nlinarith [show (0:ℝ) ≤ n from Nat.cast_nonneg n])
  omega

/-- `Q(p)`: the order statistic `⌈p·n⌉` of the held values -/
noncomputable def quantile (m : Multiset ℝ) (p : ℝ) : ℝ := orderStat m (quantileIdx p (Multiset.card m))

/-- full(ℝ): `Q(p)` is a held value -/
theorem quantile_mem {m : Multiset ℝ} (hm : m ≠ 0) {p : ℝ} (hp0 : 0 < p) (hp1 : p ≤ 1) : quantile m p ∈ m :=
  orderStat_mem m _ (quantileIdx_lt (Multiset.card_pos.2 hm) hp0 hp1)

/-- full(ℝ): `Q(p)` is monotone in `p` on `(0, 1]` -/
theorem quantile_mono {m : Multiset ℝ} (hm : m ≠ 0) {p q : ℝ} (hp0 : 0 < p) (hpq : p ≤ q) (hq1 : q ≤ 1) :
    quantile m p ≤ quantile m q :=
  orderStat_mono m _ _ (quantileIdx_mono hpq) (quantileIdx_lt (Multiset.card_pos.2 hm) (hp0.trans_le hpq) hq1)

/-- full(ℝ): For `0 < p ≤ 1` and a non-empty multiset, the order statistic `⌈p·n⌉` is the smallest `x` with
    `cdf x ≥ p`. -/
theorem cdf_isQuantileLE {m : Multiset ℝ} (hm : m ≠ 0) {p : ℝ} (hp0 : 0 < p) (hp1 : p ≤ 1) :
    IsQuantileLE (EmpiricalSpec.cdf m) p (quantile m p) := by
  have hn : 0 < Multiset.card m := Multiset.card_pos.2 hm
  have hn' : (0 : ℝ) < (Multiset.card m : ℝ) := by exact_mod_cast hn
  have hk := quantileIdx_lt hn hp0 hp1
  have hc := quantileIdx_cast hn hp0 hp1
  refine ⟨fun x hx => ?_, fun x hx => ?_⟩
  · have h1 := card_filter_le_of_lt_orderStat m _ hk x hx
    have h1' : (Multiset.card (m.filter (fun y => y ≤ x)) : ℝ) ≤ (quantileIdx p (Multiset.card m) : ℝ) := by
      exact_mod_cast h1
    have h2 : (⌈p * (Multiset.card m : ℝ)⌉ : ℝ) < p * (Multiset.card m : ℝ) + 1 := Int.ceil_lt_add_one _
    unfold EmpiricalSpec.cdf EmpiricalSpec.count
    rw [div_lt_iff₀ hn']
    linarith
  · have h1 := card_filter_ge_of_orderStat_le m _ hk x hx
    have h1' : (quantileIdx p (Multiset.card m) : ℝ) + 1 ≤ (Multiset.card (m.filter (fun y => y ≤ x)) : ℝ) := by
      exact_mod_cast h1
    have h2 : p * (Multiset.card m : ℝ) ≤ (⌈p * (Multiset.card m : ℝ)⌉ : ℝ) := Int.le_ceil _
    unfold EmpiricalSpec.cdf EmpiricalSpec.count
    rw [le_div_iff₀ hn']
    linarith

/-- full(ℝ): When moreover `p·n` is not an integer (`p` is not one of the levels `k/n` of the step cdf), the order
    statistic `⌈p·n⌉` is the `p`-quantile in the strong sense: `cdf > p` from it on. -/
theorem cdf_isQuantile {m : Multiset ℝ} (hm : m ≠ 0) {p : ℝ} (hp0 : 0 < p) (hp1 : p ≤ 1)
    (hlev : ∀ k : ℤ, p * (Multiset.card m : ℝ) ≠ (k : ℝ)) :
    IsQuantile (EmpiricalSpec.cdf m) p (quantile m p) := by
  have hw := cdf_isQuantileLE hm hp0 hp1
  have hn : 0 < Multiset.card m := Multiset.card_pos.2 hm
  have hn' : (0 : ℝ) < (Multiset.card m : ℝ) := by exact_mod_cast hn
  have hk := quantileIdx_lt hn hp0 hp1
  have hc := quantileIdx_cast hn hp0 hp1
  refine ⟨hw.below, hw.atOrAbove, fun x hx => ?_⟩
  have h1 := card_filter_ge_of_orderStat_le m _ hk x hx.le
  have h1' : (quantileIdx p (Multiset.card m) : ℝ) + 1 ≤ (Multiset.card (m.filter (fun y => y ≤ x)) : ℝ) := by
    exact_mod_cast h1
  have h2 : p * (Multiset.card m : ℝ) < (⌈p * (Multiset.card m : ℝ)⌉ : ℝ) :=
    lt_of_le_of_ne (Int.le_ceil _) (hlev _)
  unfold EmpiricalSpec.cdf EmpiricalSpec.count
  rw [lt_div_iff₀ hn']
  linarith

/-- full(ℝ): the step cdf is `0` below every held value -/
theorem cdf_eq_zero_of_lt {m : Multiset ℝ} {x : ℝ} (h : ∀ y ∈ m, x < y) : EmpiricalSpec.cdf m x = 0 := by
  unfold EmpiricalSpec.cdf
  rw [Multiset.filter_eq_nil.2 (fun y hy => not_le.2 (h y hy))]
  simp

/-- full(ℝ): the step cdf is `1` from the largest held value on -/
theorem cdf_eq_one_of_ge {m : Multiset ℝ} (hm : m ≠ 0) {x : ℝ} (h : ∀ y ∈ m, y ≤ x) :
    EmpiricalSpec.cdf m x = 1 := by
  unfold EmpiricalSpec.cdf EmpiricalSpec.count
  rw [Multiset.filter_eq_self.2 h]
  have : (Multiset.card m : ℝ) ≠ 0 := by exact_mod_cast (Multiset.card_pos.2 hm).ne'
  exact div_self this

/-- full(ℝ): the step cdf is `≥ 0` -/
theorem cdf_nonneg (m : Multiset ℝ) (x : ℝ) : 0 ≤ EmpiricalSpec.cdf m x := by
  unfold EmpiricalSpec.cdf EmpiricalSpec.count; positivity

/-- full(ℝ): the step cdf is `≤ 1` -/
theorem cdf_le_one (m : Multiset ℝ) (x : ℝ) : EmpiricalSpec.cdf m x ≤ 1 := by
  unfold EmpiricalSpec.cdf EmpiricalSpec.count
  apply div_le_one_of_le₀ _ (by positivity)
  exact_mod_cast Multiset.card_le_card (Multiset.filter_le _ _)

/-- full(ℝ): the step cdf is monotone -/
theorem cdf_mono (m : Multiset ℝ) : Monotone (EmpiricalSpec.cdf m) := by
  intro x y hxy
  unfold EmpiricalSpec.cdf EmpiricalSpec.count
  apply div_le_div_of_nonneg_right _ (by positivity)
  exact_mod_cast Multiset.card_le_card
    (Multiset.monotone_filter_right m (fun z hz => le_trans hz hxy))

end Statrs.Lemmas.EmpiricalOrder
