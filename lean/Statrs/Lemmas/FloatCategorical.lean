/-
  Statrs.Lemmas.FloatCategorical — the running-sum table of `Categorical` on a carrier satisfying the
  IEEE order laws: `prob_mass_to_cdf` is the list of left-to-right partial sums (`runSums`), and for
  non-negative non-NaN masses the table is non-negative and non-decreasing, each mass is below its partial
  sum, and the validation loop `Multinomial.newLoop` returns the last partial sum.
-/
import Statrs.Model.CategoricalModel
import Statrs.Lemmas.FloatLawsBasic
import Statrs.Lemmas.FloatLawsExtra
set_option linter.unusedSectionVars false
namespace Statrs.Lemmas.FloatCat
open Statrs Statrs.Gen Statrs.Spec Statrs.Model

section
variable {α : Type} [Add α] [Sub α] [Mul α] [Div α] [Neg α] [LT α] [LE α] [BEq α]
  [DecidableLT α] [DecidableLE α] [OfScientific α] [Inhabited α] [RFun α]

/-- carrier-generic mirror of the running sums: `runSums s [p₁,p₂,…] = [s+p₁, (s+p₁)+p₂, …]` -/
def runSums (s : α) : List α → List α
  | [] => []
  | p :: t => (s + p) :: runSums (s + p) t

omit [Sub α] [Mul α] [Div α] [Neg α] [LT α] [LE α] [BEq α] [DecidableLT α] [DecidableLE α] [OfScientific α]
  [Inhabited α] [RFun α] in
/-- full(∀α): the fold of `prob_mass_to_cdf` from state `(s, acc)` ends in `(last partial sum, acc ++ runSums s l)` -/
theorem foldl_runSums (l : List α) (s : α) (acc : List α) :
    l.foldl (fun (st : α × List α) p => let sum := st.1 + p; (sum, st.2 ++ [sum])) (s, acc) =
      (((s :: runSums s l).getLast (by simp)), acc ++ runSums s l) := by
  induction l generalizing s acc with
  | nil => simp [runSums]
  | cons p t ih =>
    simp only [List.foldl_cons, runSums]
    rw [ih]
    simp [List.getLast_cons]

omit [Sub α] [Mul α] [Div α] [Neg α] [LT α] [LE α] [BEq α] [DecidableLT α] [DecidableLE α] [Inhabited α]
  [RFun α] in
/-- full(∀α): the generated table is the mirror (`gen = mirror`) -/
theorem prob_mass_to_cdf_eq (l : List α) : prob_mass_to_cdf (α := α) l = runSums (0.0 : α) l := by
  unfold prob_mass_to_cdf
  rw [foldl_runSums]; simp

omit [Sub α] [Mul α] [Div α] [Neg α] [LT α] [LE α] [BEq α] [DecidableLT α] [DecidableLE α] [OfScientific α]
  [Inhabited α] [RFun α] in
/-- full(∀α): one partial sum per mass -/
theorem runSums_length (s : α) (l : List α) : (runSums s l).length = l.length := by
  induction l generalizing s with
  | nil => rfl
  | cons p t ih => simp [runSums, ih]

/-- the validation loop accepts exactly the lists of non-NaN, not-negative entries, and returns the last
    partial sum -/
theorem newLoop_some (l : List α) (s r : α) (h : Multinomial.newLoop l s = some r) :
    (∀ p ∈ l, RFun.isNaN p = false ∧ ¬ p < (0.0 : α)) ∧ r = (s :: runSums s l).getLast (by simp) := by
  induction l generalizing s with
  | nil => simp [Multinomial.newLoop] at h; simp [runSums, h]
  | cons p t ih =>
    unfold Multinomial.newLoop at h
    split_ifs at h with hc
    obtain ⟨h1, h2⟩ := ih _ h
    refine ⟨?_, ?_⟩
    · intro q hq
      rcases List.mem_cons.1 hq with rfl | hq
      · constructor
        · cases hn : RFun.isNaN q with
          | false => rfl
          | true => exact absurd (Or.inl hn) hc
        · exact fun hlt => hc (Or.inr hlt)
      · exact h1 q hq
    · rw [h2]; simp [runSums, List.getLast_cons]

variable (L : FloatLaws α) (E : ExtraLaws α)
include L E

/-- full(∀α): for `0 ≤ s` and non-negative masses, every partial sum is `≥ s` (hence `≥ 0`, not NaN) -/
theorem runSums_ge (l : List α) (s : α) (hs : (0.0 : α) ≤ s) (hl : ∀ p ∈ l, (0.0 : α) ≤ p) :
    ∀ e ∈ runSums s l, s ≤ e := by
  induction l generalizing s with
  | nil => simp [runSums]
  | cons p t ih =>
    have hp : (0.0 : α) ≤ p := hl p (by simp)
    have hsum : NN (s + p) := E.add_nn_of_nonneg s p hs hp
    have hz := L.exact.add_zero s (L.le_nnr hs)
    have hstep : s ≤ s + p :=
      L.le_of_beq_of_le (L.beq_symm hz) (L.mono.add_le_add_left _ _ s hp (L.beq_nnl hz) hsum)
    intro e he
    simp only [runSums, List.mem_cons] at he
    rcases he with rfl | he
    · exact hstep
    · exact L.le_tr hstep (ih (s + p) (L.le_tr hs hstep) (fun q hq => hl q (by simp [hq])) e he)

/-- full(∀α): the table of partial sums is non-decreasing -/
theorem runSums_sorted (l : List α) (s : α) (hs : (0.0 : α) ≤ s) (hl : ∀ p ∈ l, (0.0 : α) ≤ p) :
    (runSums s l).Pairwise (· ≤ ·) := by
  induction l generalizing s with
  | nil => simp [runSums]
  | cons p t ih =>
    have hp : (0.0 : α) ≤ p := hl p (by simp)
    have hstep : s ≤ s + p := runSums_ge L E (p :: t) s hs hl (s + p) (by simp [runSums])
    have hs' : (0.0 : α) ≤ s + p := L.le_tr hs hstep
    simp only [runSums, List.pairwise_cons]
    exact ⟨runSums_ge L E t (s + p) hs' (fun q hq => hl q (by simp [hq])),
      ih (s + p) hs' (fun q hq => hl q (by simp [hq]))⟩

/-- full(∀α): each mass is below the partial sum at its own index: `pₖ ≤ sₖ` -/
theorem mass_le_runSums (l : List α) (s : α) (hs : (0.0 : α) ≤ s) (hl : ∀ p ∈ l, (0.0 : α) ≤ p)
    (i : Nat) (hi : i < l.length) : l[i] ≤ (runSums s l)[i]'(by rw [runSums_length]; exact hi) := by
  induction l generalizing s i with
  | nil => simp at hi
  | cons p t ih =>
    have hp : (0.0 : α) ≤ p := hl p (by simp)
    have hstep : s ≤ s + p := runSums_ge L E (p :: t) s hs hl (s + p) (by simp [runSums])
    cases i with
    | zero =>
      simp only [runSums, List.getElem_cons_zero]
      have hz := L.exact.zero_add p (L.le_nnr hp)
      exact L.le_of_beq_of_le (L.beq_symm hz)
        (L.mono.add_le_add_right _ _ p hs (L.beq_nnl hz) (L.le_nnr hstep))
    | succ j =>
      simp only [runSums, List.getElem_cons_succ]
      exact ih (s + p) (L.le_tr hs hstep) (fun q hq => hl q (by simp [hq])) j (by simpa using hi)

end
end Statrs.Lemmas.FloatCat
