/-
  Statrs.Draft.Lemmas.FloatCtorTactic — the decision procedure of the carrier-generic C09 constructor theorems
  (`Draft/C09/FloatConstructors{A,B,C}.lean`).

  A scalar constructor is a nest of `if`s over the atoms `RFun.isNaN x`, `RFun.isInf x`, `RFun.isFinite x`,
  `x ≤ c`, `c < x`, `x == y`.  `order_facts O T` puts the fields of `OrderLaws α` (totality on non-NaN values,
  `<` = strict part, `==` = equivalence, comparisons exclude NaN, finite ⇔ neither NaN nor infinite) and the
  NaN-freeness of the literals `0.0`, `1.0`, `0.5`, `2.0` into the context; `fctor [defs]` unfolds the
  constructor and the documented domain, splits the `if`s and lets `grind` instantiate the laws.
-/
import Statrs.Spec.FloatLaws
import Mathlib.Tactic
namespace Statrs.Lemmas
open Statrs Statrs.Spec

/-- the order laws and literal facts as local hypotheses -/
syntax "order_facts" term:max term:max : tactic
macro_rules
  | `(tactic| order_facts $O $T) =>
    `(tactic| (
        have hle_total := OrderLaws.le_total $O
        have hlt_iff := OrderLaws.lt_iff $O
        have hbeq_iff := OrderLaws.beq_iff $O
        have hle_nn_left := OrderLaws.le_nn_left $O
        have hle_nn_right := OrderLaws.le_nn_right $O
        have hfin_iff := OrderLaws.fin_iff $O
        have hfin_nn := OrderLaws.fin_nn $O
        have hle_trans := OrderLaws.le_trans $O
        have hzero_nn := OrderLaws.fin_nn $O _ (LitLaws.zero_fin $T)
        have hone_nn := OrderLaws.fin_nn $O _ (LitLaws.one_fin $T)
        have hhalf_nn := OrderLaws.fin_nn $O _ (LitLaws.half_fin $T)
        have htwo_nn := OrderLaws.fin_nn $O _ (LitLaws.two_fin $T)))

syntax "fctor" "[" Lean.Parser.Tactic.simpLemma,* "]" : tactic
macro_rules
  | `(tactic| fctor [$ls,*]) =>
    `(tactic| (simp only [$ls,*, NN, Spec.Fin] at * <;> (try split_ifs) <;> (try simp only [exceptMap]) <;> grind))

end Statrs.Lemmas
