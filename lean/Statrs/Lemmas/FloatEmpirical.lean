/-
  Statrs.Lemmas.FloatEmpirical — counting lemmas for the hand model of `Empirical` (Model/Empirical.lean) on a
  carrier satisfying the IEEE order laws: `keyCmp` on non-NaN keys, the partial counts `mapSumTo`/`mapSumFrom`
  (monotone in the argument, complementary, between `0` and the total), and the state invariant `EmpOK`
  (keys not NaN, multiplicities ≥ 1, `sum` = total multiplicity), preserved by `add`/`remove`.
-/
import Statrs.Model.Empirical
import Statrs.Lemmas.FloatLawsBasic
set_option linter.unusedSectionVars false
namespace Statrs.Lemmas.FloatEmp
open Statrs Statrs.Spec Statrs.Model

/-- total multiplicity of a key/count list -/
def tot {β : Type} (d : List (β × Int)) : Int := (d.map Prod.snd).sum

/-- full: a left fold of `+` over integers is the start value plus the list sum -/
theorem foldl_add_int (l : List Int) (a : Int) : l.foldl (· + ·) a = a + l.sum := by
  induction l generalizing a with
  | nil => simp
  | cons x t ih => simp only [List.foldl_cons, List.sum_cons, ih]; omega

/-- full: a filtered sum of non-negative counts lies between `0` and the total -/
theorem filter_sum_bounds {β : Type} (P : β × Int → Bool) (d : List (β × Int)) (h : ∀ p ∈ d, 0 ≤ p.2) :
    0 ≤ ((d.filter P).map Prod.snd).sum ∧ ((d.filter P).map Prod.snd).sum ≤ tot d := by
  induction d with
  | nil => simp [tot]
  | cons p t ih =>
    have hp := h p (by simp)
    have := ih (fun q hq => h q (by simp [hq]))
    unfold tot at *
    by_cases hP : P p = true <;> simp [hP] <;> omega

/-- full: a filtered sum of non-negative counts is monotone in the predicate -/
theorem filter_sum_mono {β : Type} (P Q : β × Int → Bool) (d : List (β × Int)) (h : ∀ p ∈ d, 0 ≤ p.2)
    (hPQ : ∀ p ∈ d, P p = true → Q p = true) :
    ((d.filter P).map Prod.snd).sum ≤ ((d.filter Q).map Prod.snd).sum := by
  induction d with
  | nil => simp
  | cons p t ih =>
    have hp := h p (by simp)
    have := ih (fun q hq => h q (by simp [hq])) (fun q hq => hPQ q (by simp [hq]))
    by_cases hP : P p = true
    · have hQ := hPQ p (by simp) hP
      simp [hP, hQ]; omega
    · by_cases hQ : Q p = true <;> simp [hP, hQ] <;> omega

/-- full: the sums over a predicate and over its negation add up to the total -/
theorem filter_sum_compl {β : Type} (P Q : β × Int → Bool) (d : List (β × Int))
    (hPQ : ∀ p ∈ d, Q p = !P p) :
    ((d.filter P).map Prod.snd).sum + ((d.filter Q).map Prod.snd).sum = tot d := by
  induction d with
  | nil => simp [tot]
  | cons p t ih =>
    have := ih (fun q hq => hPQ q (by simp [hq]))
    have hq := hPQ p (by simp)
    unfold tot at *
    cases hP : P p <;> simp [hP] at hq <;> simp [hP, hq] <;> omega

section
variable {α : Type} [Add α] [Sub α] [Mul α] [Div α] [Neg α] [LT α] [LE α] [BEq α]
  [DecidableLT α] [DecidableLE α] [OfScientific α] [Inhabited α] [RFun α]

/-- the two filters of the model, as Boolean predicates -/
def toP (x : α) (p : α × Int) : Bool := match keyCmp x p.1 with | Ordering.lt => false | _ => true
/-- the filter of `mapSumFrom` (`x.cmp(k) == Less`) as a Boolean predicate -/
def fromP (x : α) (p : α × Int) : Bool := match keyCmp x p.1 with | Ordering.lt => true | _ => false

omit [Add α] [Sub α] [Mul α] [Div α] [Neg α] [LT α] [BEq α] [DecidableLT α] [OfScientific α] [Inhabited α] [RFun α] in
/-- full(∀α): `mapSumTo` is the sum of the counts selected by `toP` (`gen = mirror`) -/
theorem mapSumTo_eq (d : List (α × Int)) (x : α) :
    mapSumTo d x = ((d.filter (toP x)).map Prod.snd).sum := by
  unfold mapSumTo; rw [foldl_add_int]; simp only [Int.zero_add]; rfl

omit [Add α] [Sub α] [Mul α] [Div α] [Neg α] [LT α] [BEq α] [DecidableLT α] [OfScientific α] [Inhabited α] [RFun α] in
/-- full(∀α): `mapSumFrom` is the sum of the counts selected by `fromP` (`gen = mirror`) -/
theorem mapSumFrom_eq (d : List (α × Int)) (x : α) :
    mapSumFrom d x = ((d.filter (fromP x)).map Prod.snd).sum := by
  unfold mapSumFrom; rw [foldl_add_int]; simp only [Int.zero_add]; rfl

omit [Add α] [Sub α] [Mul α] [Div α] [Neg α] [LT α] [BEq α] [DecidableLT α] [OfScientific α] [Inhabited α] [RFun α] in
/-- full(∀α): the two filters are complementary -/
theorem fromP_eq_not_toP (x : α) (p : α × Int) : fromP x p = !toP x p := by
  unfold fromP toP; cases keyCmp x p.1 <;> rfl

omit [Add α] [Sub α] [Mul α] [Div α] [Neg α] [LT α] [BEq α] [DecidableLT α] [OfScientific α] [Inhabited α] [RFun α] in
/-- full(∀α): `mapSumTo + mapSumFrom = total` — exact integer complementarity of the two counts -/
theorem mapSumTo_add_mapSumFrom (d : List (α × Int)) (x : α) : mapSumTo d x + mapSumFrom d x = tot d := by
  rw [mapSumTo_eq, mapSumFrom_eq]
  exact filter_sum_compl _ _ d (fun p _ => fromP_eq_not_toP x p)

variable (L : FloatLaws α)
include L

/-- full(∀α): on non-NaN operands `keyCmp a b = lt` is `a < b` -/
theorem keyCmp_lt_iff {a b : α} (ha : NN a) (hb : NN b) : keyCmp a b = Ordering.lt ↔ a < b := by
  unfold keyCmp
  by_cases h1 : a ≤ b <;> by_cases h2 : b ≤ a <;> simp only [h1, h2, if_true, if_false]
  · simp; exact fun h => L.lt_not_le h h2
  · simp; exact L.lt_of_le_not_le h1 h2
  · simp; exact fun h => h1 (L.lt_le h)
  · rcases L.ord.le_total a b ha hb with h | h
    · exact absurd h h1
    · exact absurd h h2

/-- full(∀α): on non-NaN keys `toP x p` is `¬ x < key` -/
theorem toP_iff {x : α} {p : α × Int} (hx : NN x) (hp : NN p.1) : toP x p = true ↔ ¬ x < p.1 := by
  rw [← keyCmp_lt_iff L hx hp]; unfold toP; cases keyCmp x p.1 <;> simp

/-- full(∀α): on non-NaN keys `fromP x p` is `x < key` -/
theorem fromP_iff {x : α} {p : α × Int} (hx : NN x) (hp : NN p.1) : fromP x p = true ↔ x < p.1 := by
  rw [← keyCmp_lt_iff L hx hp]; unfold fromP; cases keyCmp x p.1 <;> simp

/-- full(∀α): the count of keys `≤ x` is non-decreasing in `x` -/
theorem mapSumTo_mono (d : List (α × Int)) (hk : ∀ p ∈ d, NN p.1) (hc : ∀ p ∈ d, 0 ≤ p.2) {x y : α}
    (hxy : x ≤ y) : mapSumTo d x ≤ mapSumTo d y := by
  rw [mapSumTo_eq, mapSumTo_eq]
  refine filter_sum_mono _ _ d hc (fun p hp h => ?_)
  rw [toP_iff L (L.le_nnl hxy) (hk p hp)] at h
  rw [toP_iff L (L.le_nnr hxy) (hk p hp)]
  exact fun hy => h (L.lt_of_le_of_lt' hxy hy)

/-- full(∀α): the count of keys `> x` is non-increasing in `x` -/
theorem mapSumFrom_anti (d : List (α × Int)) (hk : ∀ p ∈ d, NN p.1) (hc : ∀ p ∈ d, 0 ≤ p.2) {x y : α}
    (hxy : x ≤ y) : mapSumFrom d y ≤ mapSumFrom d x := by
  rw [mapSumFrom_eq, mapSumFrom_eq]
  refine filter_sum_mono _ _ d hc (fun p hp h => ?_)
  rw [fromP_iff L (L.le_nnr hxy) (hk p hp)] at h
  rw [fromP_iff L (L.le_nnl hxy) (hk p hp)]
  exact L.lt_of_le_of_lt' hxy h

omit L in
/-- full(∀α): `0 ≤ mapSumTo ≤ total` for non-negative counts -/
theorem mapSumTo_bounds (d : List (α × Int)) (hc : ∀ p ∈ d, 0 ≤ p.2) (x : α) :
    0 ≤ mapSumTo d x ∧ mapSumTo d x ≤ tot d := by
  rw [mapSumTo_eq]; exact filter_sum_bounds _ d hc

omit L in
/-- full(∀α): `0 ≤ mapSumFrom ≤ total` for non-negative counts -/
theorem mapSumFrom_bounds (d : List (α × Int)) (hc : ∀ p ∈ d, 0 ≤ p.2) (x : α) :
    0 ≤ mapSumFrom d x ∧ mapSumFrom d x ≤ tot d := by
  rw [mapSumFrom_eq]; exact filter_sum_bounds _ d hc

/-- full(∀α): below every key nothing is counted; at/above every key everything is -/
theorem mapSumTo_below (d : List (α × Int)) (hk : ∀ p ∈ d, NN p.1) {x : α} (hx : NN x)
    (h : ∀ p ∈ d, x < p.1) : mapSumTo d x = 0 := by
  rw [mapSumTo_eq, List.filter_eq_nil_iff.2]; · simp
  intro p hp; rw [toP_iff L hx (hk p hp)]; exact fun h' => h' (h p hp)

/-- full(∀α): at/above every key everything is counted -/
theorem mapSumTo_above (d : List (α × Int)) (hk : ∀ p ∈ d, NN p.1) {x : α} (hx : NN x)
    (h : ∀ p ∈ d, p.1 ≤ x) : mapSumTo d x = tot d := by
  rw [mapSumTo_eq, List.filter_eq_self.2]; · rfl
  intro p hp; rw [toP_iff L hx (hk p hp)]; exact L.le_not_lt (h p hp)

/-! ### the state invariant and its preservation (no order laws needed) -/

omit L

/-- State invariant of `Empirical`: keys are not NaN, multiplicities are `≥ 1`, and the `sum` field is the
    total multiplicity.  Holds for `Empirical::new()` and is preserved by `add` and `remove`
    (`empOK_new`, `empOK_add`, `empOK_remove`), for every carrier. -/
structure EmpOK (e : Empirical α) : Prop where
  keys_nn : ∀ p ∈ e.f_data, NN p.1
  counts_pos : ∀ p ∈ e.f_data, 1 ≤ p.2
  sum_eq : e.f_sum = tot e.f_data

/-- full(∀α): `Empirical::new()` satisfies the invariant -/
theorem empOK_new : EmpOK (unwrapE (Empirical.new (α := α))) :=
  ⟨by simp [Empirical.new, unwrapE], by simp [Empirical.new, unwrapE], by simp [Empirical.new, unwrapE, tot]⟩

/-- full(∀α): `mapIncr` keeps keys non-NaN and counts `≥ 1`, and adds exactly one to the total -/
theorem mapIncr_spec (d : List (α × Int)) (v : α) (hv : NN v) (hk : ∀ p ∈ d, NN p.1)
    (hc : ∀ p ∈ d, 1 ≤ p.2) :
    (∀ p ∈ mapIncr d v, NN p.1) ∧ (∀ p ∈ mapIncr d v, 1 ≤ p.2) ∧ tot (mapIncr d v) = tot d + 1 := by
  induction d with
  | nil => simpa [mapIncr, tot] using hv
  | cons q t ih =>
    obtain ⟨k, c⟩ := q
    have hq := hk (k, c) (by simp)
    have hqc := hc (k, c) (by simp)
    obtain ⟨i1, i2, i3⟩ := ih (fun p hp => hk p (by simp [hp])) (fun p hp => hc p (by simp [hp]))
    unfold mapIncr
    cases keyCmp v k
    · refine ⟨?_, ?_, ?_⟩
      · intro p hp; simp only [List.mem_cons] at hp
        rcases hp with rfl | rfl | hp
        · exact hv
        · exact hq
        · exact hk p (by simp [hp])
      · intro p hp; simp only [List.mem_cons] at hp
        rcases hp with rfl | rfl | hp
        · simp
        · exact hqc
        · exact hc p (by simp [hp])
      · simp [tot]; omega
    · refine ⟨?_, ?_, ?_⟩
      · intro p hp; simp only [List.mem_cons] at hp
        rcases hp with rfl | hp
        · exact hq
        · exact hk p (by simp [hp])
      · intro p hp; simp only [List.mem_cons] at hp
        rcases hp with rfl | hp
        · simp at hqc ⊢; omega
        · exact hc p (by simp [hp])
      · simp [tot]; omega
    · refine ⟨?_, ?_, ?_⟩
      · intro p hp; simp only [List.mem_cons] at hp
        rcases hp with rfl | hp
        · exact hq
        · exact i1 p hp
      · intro p hp; simp only [List.mem_cons] at hp
        rcases hp with rfl | hp
        · exact hqc
        · exact i2 p hp
      · simp [tot] at i3 ⊢; omega

/-- full(∀α): `add` preserves the invariant (a NaN data point is ignored) -/
theorem empOK_add {e : Empirical α} (h : EmpOK e) (v : α) : EmpOK (e.add v) := by
  unfold Empirical.add
  cases hn : RFun.isNaN v with
  | true => simpa using h
  | false =>
    simp only [Bool.false_eq_true, if_false]
    obtain ⟨i1, i2, i3⟩ := mapIncr_spec e.f_data v hn h.keys_nn h.counts_pos
    exact ⟨i1, i2, by simp only; rw [i3, h.sum_eq]⟩

/-- full(∀α): when `mapGet` finds count `c`: `1 ≤ c ≤ total`, `mapRemove` removes exactly `c`, `mapDecr` replaces `c` by `c − 1`; keys/counts stay valid -/
theorem mapGet_spec (d : List (α × Int)) (v : α) (c : Int) (hg : mapGet d v = some c)
    (hk : ∀ p ∈ d, NN p.1) (hc : ∀ p ∈ d, 1 ≤ p.2) :
    1 ≤ c ∧ c ≤ tot d ∧
    (∀ p ∈ mapRemove d v, NN p.1) ∧ (∀ p ∈ mapRemove d v, 1 ≤ p.2) ∧ tot (mapRemove d v) = tot d - c ∧
    (∀ p ∈ mapDecr d v, NN p.1) ∧ (2 ≤ c → ∀ p ∈ mapDecr d v, 1 ≤ p.2) ∧
      tot (mapDecr d v) = tot d - c + usub c 1 := by
  induction d with
  | nil => simp [mapGet] at hg
  | cons q t ih =>
    obtain ⟨k, c'⟩ := q
    have hq := hk (k, c') (by simp)
    have hqc : 1 ≤ c' := hc (k, c') (by simp)
    have hk' : ∀ p ∈ t, NN p.1 := fun p hp => hk p (by simp [hp])
    have hc' : ∀ p ∈ t, 1 ≤ p.2 := fun p hp => hc p (by simp [hp])
    have htot : 0 ≤ tot t := by
      unfold tot
      have : ∀ l : List (α × Int), (∀ p ∈ l, 1 ≤ p.2) → 0 ≤ (l.map Prod.snd).sum := by
        intro l; induction l with
        | nil => simp
        | cons a b ihb =>
          intro hh; have := hh a (by simp); have := ihb (fun p hp => hh p (by simp [hp]))
          simp; omega
      exact this t hc'
    unfold mapGet at hg
    unfold mapRemove mapDecr
    cases hcmp : keyCmp v k <;> simp only [hcmp] at hg ⊢
    · cases hg
    · injection hg with hg; subst hg
      refine ⟨hqc, by simp [tot] at htot ⊢; omega, hk', hc', by simp [tot], ?_, ?_, ?_⟩
      · intro p hp; simp only [List.mem_cons] at hp
        rcases hp with rfl | hp
        · exact hq
        · exact hk' p hp
      · intro h2 p hp; simp only [List.mem_cons] at hp
        rcases hp with rfl | hp
        · simp [usub]; split_ifs <;> omega
        · exact hc' p hp
      · simp [tot]; omega
    · obtain ⟨j1, j2, j3, j4, j5, j6, j7, j8⟩ := ih hg hk' hc'
      refine ⟨j1, by simp [tot] at j2 ⊢; omega, ?_, ?_, by simp [tot] at j5 ⊢; omega, ?_, ?_,
        by simp [tot] at j8 ⊢; omega⟩
      · intro p hp; simp only [List.mem_cons] at hp
        rcases hp with rfl | hp
        · exact hq
        · exact j3 p hp
      · intro p hp; simp only [List.mem_cons] at hp
        rcases hp with rfl | hp
        · exact hqc
        · exact j4 p hp
      · intro p hp; simp only [List.mem_cons] at hp
        rcases hp with rfl | hp
        · exact hq
        · exact j6 p hp
      · intro h2 p hp; simp only [List.mem_cons] at hp
        rcases hp with rfl | hp
        · exact hqc
        · exact j7 h2 p hp

/-- full(∀α): `remove` preserves the invariant -/
theorem empOK_remove {e : Empirical α} (h : EmpOK e) (v : α) : EmpOK (e.remove v) := by
  unfold Empirical.remove
  cases hn : RFun.isNaN v with
  | true => simpa using h
  | false =>
    simp only [Bool.false_eq_true, if_false]
    cases hg : mapGet e.f_data v with
    | none => simpa using h
    | some c =>
      obtain ⟨j1, j2, j3, j4, j5, j6, j7, j8⟩ := mapGet_spec e.f_data v c hg h.keys_nn h.counts_pos
      simp only
      by_cases hc1 : c = 1
      · subst hc1
        simp only [if_true, true_and]
        split_ifs with hem
        · have : mapRemove e.f_data v = [] := by simpa using hem
          exact ⟨by simp [this], by simp [this], by simp [this, tot]⟩
        · refine ⟨j3, j4, ?_⟩
          simp only; rw [j5, h.sum_eq]; unfold usub; rw [if_neg (by omega)]
      · rw [if_neg hc1, if_neg (fun h => hc1 h.1)]
        refine ⟨j6, j7 (by omega), ?_⟩
        simp only; rw [j8, h.sum_eq]; unfold usub; rw [if_neg (by omega), if_neg (by omega)]; omega

end
end Statrs.Lemmas.FloatEmp
