/-
  Statrs.Lemmas.FloatHistory — the association list of the hand model of `Empirical` (Model/Empirical.lean) on a
  carrier satisfying the IEEE order laws (`OrderLaws`, hence `Float`): key comparison trichotomy, the
  lookup `mapGet` after `mapIncr`/`mapRemove`/`mapDecr`, preservation of strict sortedness, and
  extensionality (a strictly sorted list with counts `≥ 1` is determined by its lookup function up to the
  representative of each key modulo `a ≤ b ∧ b ≤ a`, i.e. IEEE `==`).
-/
import Statrs.Lemmas.FloatEmpirical
set_option linter.unusedSectionVars false
namespace Statrs.Lemmas.FloatHist
open Statrs Statrs.Spec Statrs.Model Statrs.Lemmas.FloatEmp

section
variable {α : Type} [Add α] [Sub α] [Mul α] [Div α] [Neg α] [LT α] [LE α] [BEq α]
  [DecidableLT α] [DecidableLE α] [OfScientific α] [Inhabited α] [RFun α]

/-- key equivalence: `a ≤ b ∧ b ≤ a` — under `OrderLaws` exactly IEEE `a == b` (`keq_iff_beq`): equal
    non-NaN values, with `-0.0` and `+0.0` identified -/
abbrev KEq (a b : α) : Prop := a ≤ b ∧ b ≤ a

/-- the association list is strictly increasing in the key -/
abbrev Srt (d : List (α × Int)) : Prop := d.Pairwise (fun p q => p.1 < q.1)

/-- multiplicity of (the `==`-class of) `v` in the association list -/
def cnt (d : List (α × Int)) (v : α) : Int := (mapGet d v).getD 0

variable (O : OrderLaws α)
include O

/-- full(∀α): `KEq` is IEEE `==` -/
theorem keq_iff_beq (a b : α) : KEq a b ↔ (a == b) = true := (O.beq_iff a b).symm

/-- full(∀α): `a < b ⇒ a ≤ b` -/
theorem ltle {a b : α} (h : a < b) : a ≤ b := ((O.lt_iff a b).1 h).1
/-- full(∀α): `a < b ⇒ ¬ b ≤ a` -/
theorem ltnle {a b : α} (h : a < b) : ¬ b ≤ a := ((O.lt_iff a b).1 h).2
/-- full(∀α): `a < b ≤ c ⇒ a < c` -/
theorem lt_le_tr {a b c : α} (h1 : a < b) (h2 : b ≤ c) : a < c :=
  (O.lt_iff a c).2 ⟨O.le_trans _ _ _ (ltle O h1) h2, fun h => ltnle O h1 (O.le_trans _ _ _ h2 h)⟩
/-- full(∀α): `a ≤ b < c ⇒ a < c` -/
theorem le_lt_tr {a b c : α} (h1 : a ≤ b) (h2 : b < c) : a < c :=
  (O.lt_iff a c).2 ⟨O.le_trans _ _ _ h1 (ltle O h2), fun h => ltnle O h2 (O.le_trans _ _ _ h h1)⟩
/-- full(∀α): `<` is transitive -/
theorem lt_tr {a b c : α} (h1 : a < b) (h2 : b < c) : a < c := lt_le_tr O h1 (ltle O h2)
/-- full(∀α): `KEq` is symmetric -/
theorem keq_symm {a b : α} (h : KEq a b) : KEq b a := ⟨h.2, h.1⟩
/-- full(∀α): `KEq` is transitive -/
theorem keq_tr {a b c : α} (h1 : KEq a b) (h2 : KEq b c) : KEq a c :=
  ⟨O.le_trans _ _ _ h1.1 h2.1, O.le_trans _ _ _ h2.2 h1.2⟩

/-- full(∀α): `a < b ⇒ keyCmp a b = Less` -/
theorem keyCmp_of_lt {a b : α} (h : a < b) : keyCmp a b = Ordering.lt := by
  unfold keyCmp; rw [if_pos (ltle O h), if_neg (ltnle O h)]
/-- full(∀α): `b < a ⇒ keyCmp a b = Greater` -/
theorem keyCmp_of_gt {a b : α} (h : b < a) : keyCmp a b = Ordering.gt := by
  unfold keyCmp; rw [if_neg (ltnle O h), if_pos (ltle O h)]
omit O in
/-- full(∀α): `a ≤ b ≤ a ⇒ keyCmp a b = Equal` -/
theorem keyCmp_of_keq {a b : α} (h : KEq a b) : keyCmp a b = Ordering.eq := by
  unfold keyCmp; rw [if_pos h.1, if_pos h.2]

/-- full(∀α): trichotomy of `keyCmp` on non-NaN keys -/
theorem keyCmp_cases {a b : α} (ha : NN a) (hb : NN b) :
    (a < b ∧ keyCmp a b = Ordering.lt) ∨ (KEq a b ∧ keyCmp a b = Ordering.eq) ∨
      (b < a ∧ keyCmp a b = Ordering.gt) := by
  by_cases h1 : a ≤ b <;> by_cases h2 : b ≤ a
  · exact Or.inr (Or.inl ⟨⟨h1, h2⟩, keyCmp_of_keq ⟨h1, h2⟩⟩)
  · have := (O.lt_iff a b).2 ⟨h1, h2⟩; exact Or.inl ⟨this, keyCmp_of_lt O this⟩
  · have := (O.lt_iff b a).2 ⟨h2, h1⟩; exact Or.inr (Or.inr ⟨this, keyCmp_of_gt O this⟩)
  · rcases O.le_total a b ha hb with h | h <;> contradiction

/-- full(∀α): `keyCmp` does not see the representative of the stored key -/
theorem keyCmp_congr_right (x : α) {k1 k2 : α} (h : KEq k1 k2) : keyCmp x k1 = keyCmp x k2 := by
  have e1 : x ≤ k1 ↔ x ≤ k2 := ⟨fun h' => O.le_trans _ _ _ h' h.1, fun h' => O.le_trans _ _ _ h' h.2⟩
  have e2 : k1 ≤ x ↔ k2 ≤ x := ⟨fun h' => O.le_trans _ _ _ h.2 h', fun h' => O.le_trans _ _ _ h.1 h'⟩
  unfold keyCmp; simp only [e1, e2]

/-- full(∀α): `keyCmp` does not see the representative of the search key -/
theorem keyCmp_congr_left {x1 x2 : α} (k : α) (h : KEq x1 x2) : keyCmp x1 k = keyCmp x2 k := by
  have e1 : x1 ≤ k ↔ x2 ≤ k := ⟨fun h' => O.le_trans _ _ _ h.2 h', fun h' => O.le_trans _ _ _ h.1 h'⟩
  have e2 : k ≤ x1 ↔ k ≤ x2 := ⟨fun h' => O.le_trans _ _ _ h' h.1, fun h' => O.le_trans _ _ _ h' h.2⟩
  unfold keyCmp; simp only [e1, e2]

/-- full(∀α): the lookup does not see the representative of the search key -/
theorem mapGet_congr (d : List (α × Int)) {v1 v2 : α} (h : KEq v1 v2) : mapGet d v1 = mapGet d v2 := by
  induction d with
  | nil => rfl
  | cons q t ih =>
    obtain ⟨k, c⟩ := q
    simp only [mapGet, keyCmp_congr_left O k h, ih]

/-- full(∀α): a search key below the first stored key is not found -/
theorem mapGet_lt_head {k : α} {c : Int} {t : List (α × Int)} {v : α} (h : v < k) :
    mapGet ((k, c) :: t) v = none := by
  simp only [mapGet, keyCmp_of_lt O h]

/-- full(∀α): a search key below every stored key is not found -/
theorem mapGet_lt_all (d : List (α × Int)) {v : α} (h : ∀ p ∈ d, v < p.1) : mapGet d v = none := by
  cases d with
  | nil => rfl
  | cons q t => obtain ⟨k, c⟩ := q; exact mapGet_lt_head O (h (k, c) (by simp))

/-- full(∀α): lookup after `entry(w).and_modify(+1).or_insert(1)`: the class of `w` gains one, all other
    classes are untouched -/
theorem mapGet_mapIncr (d : List (α × Int)) (hk : ∀ p ∈ d, NN p.1) {w v : α} (hw : NN w) (hv : NN v) :
    mapGet (mapIncr d w) v = if KEq w v then some ((mapGet d v).getD 0 + 1) else mapGet d v := by
  induction d with
  | nil =>
    rcases keyCmp_cases O hv hw with ⟨h, hc⟩ | ⟨h, hc⟩ | ⟨h, hc⟩
    · simp only [mapIncr, mapGet, hc]; rw [if_neg (fun h' => ltnle O h h'.1)]
    · simp only [mapIncr, mapGet, hc]; rw [if_pos (keq_symm O h)]; rfl
    · simp only [mapIncr, mapGet, hc]; rw [if_neg (fun h' => ltnle O h h'.2)]
  | cons q t ih =>
    obtain ⟨k, c⟩ := q
    have hkk := hk (k, c) (by simp)
    have ih := ih (fun p hp => hk p (by simp [hp]))
    rcases keyCmp_cases O hw hkk with ⟨h, hc⟩ | ⟨h, hc⟩ | ⟨h, hc⟩
    · -- w < k
      simp only [mapIncr, hc]
      rcases keyCmp_cases O hv hw with ⟨h2, hc2⟩ | ⟨h2, hc2⟩ | ⟨h2, hc2⟩
      · rw [if_neg (fun h' => ltnle O h2 h'.1), mapGet_lt_head O h2, mapGet_lt_head O (lt_tr O h2 h)]
      · rw [if_pos (keq_symm O h2), mapGet_lt_head O (le_lt_tr O h2.1 h)]
        simp only [mapGet, hc2]; rfl
      · rw [if_neg (fun h' => ltnle O h2 h'.2)]
        conv_lhs => unfold mapGet
        simp only [hc2]
    · -- w ≈ k
      simp only [mapIncr, hc]
      rcases keyCmp_cases O hv hkk with ⟨h2, hc2⟩ | ⟨h2, hc2⟩ | ⟨h2, hc2⟩
      · rw [if_neg (fun h' => ltnle O h2 (O.le_trans _ _ _ h.2 h'.1)), mapGet_lt_head O h2, mapGet_lt_head O h2]
      · rw [if_pos (keq_tr O h (keq_symm O h2))]; simp only [mapGet, hc2]; rfl
      · rw [if_neg (fun h' => ltnle O h2 (O.le_trans _ _ _ h'.2 h.1))]; simp only [mapGet, hc2]
    · -- k < w
      simp only [mapIncr, hc]
      rcases keyCmp_cases O hv hkk with ⟨h2, hc2⟩ | ⟨h2, hc2⟩ | ⟨h2, hc2⟩
      · rw [if_neg (fun h' => ltnle O (lt_tr O h2 h) h'.1), mapGet_lt_head O h2, mapGet_lt_head O h2]
      · rw [if_neg (fun h' => ltnle O h (O.le_trans _ _ _ h'.1 h2.1))]; simp only [mapGet, hc2]
      · simp only [mapGet, hc2]; exact ih

/-- full(∀α): lookup after `OccupiedEntry::remove` on a strictly sorted list: the class of `w` disappears -/
theorem mapGet_mapRemove (d : List (α × Int)) (hk : ∀ p ∈ d, NN p.1) (hs : Srt d) {w v : α} (hw : NN w)
    (hv : NN v) : mapGet (mapRemove d w) v = if KEq w v then none else mapGet d v := by
  induction d with
  | nil => simp [mapRemove, mapGet]
  | cons q t ih =>
    obtain ⟨k, c⟩ := q
    have hkk := hk (k, c) (by simp)
    obtain ⟨hs1, hs2⟩ := List.pairwise_cons.1 hs
    have ih := ih (fun p hp => hk p (by simp [hp])) hs2
    rcases keyCmp_cases O hw hkk with ⟨h, hc⟩ | ⟨h, hc⟩ | ⟨h, hc⟩
    · simp only [mapRemove, hc]
      by_cases hq : KEq w v
      · rw [if_pos hq]; exact mapGet_lt_head O (le_lt_tr O hq.2 h)
      · rw [if_neg hq]
    · simp only [mapRemove, hc]
      by_cases hq : KEq w v
      · rw [if_pos hq]
        exact mapGet_lt_all O t (fun p hp => le_lt_tr O (O.le_trans _ _ _ hq.2 h.1) (hs1 p hp))
      · rw [if_neg hq]
        rcases keyCmp_cases O hv hkk with ⟨h2, hc2⟩ | ⟨h2, hc2⟩ | ⟨h2, hc2⟩
        · rw [mapGet_lt_head O h2]; exact mapGet_lt_all O t (fun p hp => lt_tr O h2 (hs1 p hp))
        · exact absurd (keq_tr O h (keq_symm O h2)) hq
        · simp only [mapGet, hc2]
    · simp only [mapRemove, hc]
      rcases keyCmp_cases O hv hkk with ⟨h2, hc2⟩ | ⟨h2, hc2⟩ | ⟨h2, hc2⟩
      · rw [mapGet_lt_head O h2, mapGet_lt_head O h2]; simp
      · rw [if_neg (fun h' => ltnle O h (O.le_trans _ _ _ h'.1 h2.1))]; simp only [mapGet, hc2]
      · simp only [mapGet, hc2]; exact ih

/-- full(∀α): lookup after `*entry.get_mut() -= 1`: the count of the class of `w` drops by one -/
theorem mapGet_mapDecr (d : List (α × Int)) (hk : ∀ p ∈ d, NN p.1) {w v : α} (hw : NN w) (hv : NN v) :
    mapGet (mapDecr d w) v = if KEq w v then (mapGet d v).map (fun c => usub c 1) else mapGet d v := by
  induction d with
  | nil => simp [mapDecr, mapGet]
  | cons q t ih =>
    obtain ⟨k, c⟩ := q
    have hkk := hk (k, c) (by simp)
    have ih := ih (fun p hp => hk p (by simp [hp]))
    rcases keyCmp_cases O hw hkk with ⟨h, hc⟩ | ⟨h, hc⟩ | ⟨h, hc⟩
    · simp only [mapDecr, hc]
      by_cases hq : KEq w v
      · rw [if_pos hq, mapGet_lt_head O (le_lt_tr O hq.2 h)]; rfl
      · rw [if_neg hq]
    · simp only [mapDecr, hc]
      rcases keyCmp_cases O hv hkk with ⟨h2, hc2⟩ | ⟨h2, hc2⟩ | ⟨h2, hc2⟩
      · rw [mapGet_lt_head O h2, mapGet_lt_head O h2]; simp
      · rw [if_pos (keq_tr O h (keq_symm O h2))]; simp only [mapGet, hc2]; rfl
      · rw [if_neg (fun h' => ltnle O h2 (O.le_trans _ _ _ h'.2 h.1))]; simp only [mapGet, hc2]
    · simp only [mapDecr, hc]
      rcases keyCmp_cases O hv hkk with ⟨h2, hc2⟩ | ⟨h2, hc2⟩ | ⟨h2, hc2⟩
      · rw [mapGet_lt_head O h2, mapGet_lt_head O h2]; simp
      · rw [if_neg (fun h' => ltnle O h (O.le_trans _ _ _ h'.1 h2.1))]; simp only [mapGet, hc2]
      · simp only [mapGet, hc2]; exact ih

/-! ### strict sortedness is preserved -/

omit O in
/-- full(∀α): every key of `mapIncr d w` is `w` or a key of `d` -/
theorem mem_mapIncr (d : List (α × Int)) (w : α) :
    ∀ p ∈ mapIncr d w, p.1 = w ∨ ∃ q ∈ d, q.1 = p.1 := by
  induction d with
  | nil => intro p hp; simp only [mapIncr, List.mem_singleton] at hp; subst hp; exact Or.inl rfl
  | cons q t ih =>
    obtain ⟨k, c⟩ := q
    intro p hp
    unfold mapIncr at hp
    cases hc : keyCmp w k <;> simp only [hc, List.mem_cons] at hp
    · rcases hp with rfl | rfl | hp
      · exact Or.inl rfl
      · exact Or.inr ⟨_, by simp, rfl⟩
      · exact Or.inr ⟨p, by simp [hp], rfl⟩
    · rcases hp with rfl | hp
      · exact Or.inr ⟨(k, c), by simp, rfl⟩
      · exact Or.inr ⟨p, by simp [hp], rfl⟩
    · rcases hp with rfl | hp
      · exact Or.inr ⟨_, by simp, rfl⟩
      · rcases ih p hp with h | ⟨q, hq, hq'⟩
        · exact Or.inl h
        · exact Or.inr ⟨q, by simp [hq], hq'⟩

/-- full(∀α): `mapIncr` keeps the list strictly sorted -/
theorem srt_mapIncr (d : List (α × Int)) (hk : ∀ p ∈ d, NN p.1) (hs : Srt d) {w : α} (hw : NN w) :
    Srt (mapIncr d w) := by
  induction d with
  | nil => simp [mapIncr]
  | cons q t ih =>
    obtain ⟨k, c⟩ := q
    have hkk := hk (k, c) (by simp)
    obtain ⟨hs1, hs2⟩ := List.pairwise_cons.1 hs
    have ih := ih (fun p hp => hk p (by simp [hp])) hs2
    rcases keyCmp_cases O hw hkk with ⟨h, hc⟩ | ⟨h, hc⟩ | ⟨h, hc⟩
    · simp only [mapIncr, hc]
      refine List.pairwise_cons.2 ⟨fun p hp => ?_, hs⟩
      rcases List.mem_cons.1 hp with rfl | hp
      · exact h
      · exact lt_tr O h (hs1 p hp)
    · simp only [mapIncr, hc]
      exact List.pairwise_cons.2 ⟨fun p hp => hs1 p hp, hs2⟩
    · simp only [mapIncr, hc]
      refine List.pairwise_cons.2 ⟨fun p hp => ?_, ih⟩
      rcases mem_mapIncr t w p hp with h' | ⟨q, hq, hq'⟩
      · show k < p.1; rw [h']; exact h
      · show k < p.1; rw [← hq']; exact hs1 q hq

omit O in
/-- full(∀α): `mapRemove d w` is a sublist of `d` -/
theorem mapRemove_sublist (d : List (α × Int)) (w : α) : (mapRemove d w).Sublist d := by
  induction d with
  | nil => simp [mapRemove]
  | cons q t ih =>
    obtain ⟨k, c⟩ := q
    unfold mapRemove
    cases keyCmp w k
    · exact List.Sublist.refl _
    · exact List.sublist_cons_self _ _
    · exact List.Sublist.cons_cons _ ih

omit O in
/-- full(∀α): `mapRemove` keeps the list strictly sorted -/
theorem srt_mapRemove (d : List (α × Int)) (hs : Srt d) (w : α) : Srt (mapRemove d w) :=
  List.Pairwise.sublist (mapRemove_sublist d w) hs

omit O in
/-- full(∀α): `mapDecr` does not change the keys -/
theorem mapDecr_keys (d : List (α × Int)) (w : α) : (mapDecr d w).map Prod.fst = d.map Prod.fst := by
  induction d with
  | nil => simp [mapDecr]
  | cons q t ih =>
    obtain ⟨k, c⟩ := q
    unfold mapDecr
    cases keyCmp w k <;> simp [ih]

omit O in
/-- full(∀α): `mapDecr` keeps the list strictly sorted -/
theorem srt_mapDecr (d : List (α × Int)) (hs : Srt d) (w : α) : Srt (mapDecr d w) := by
  have h1 : (d.map Prod.fst).Pairwise (· < ·) := List.pairwise_map.2 hs
  rw [← mapDecr_keys d w] at h1
  exact List.pairwise_map.1 h1

/-! ### extensionality -/

/-- two association lists are the same up to the representative of each key -/
abbrev SameUpToRep (d1 d2 : List (α × Int)) : Prop :=
  List.Forall₂ (fun p q : α × Int => KEq p.1 q.1 ∧ p.2 = q.2) d1 d2

/-- full(∀α): two strictly sorted lists with non-NaN keys and the same lookup function have the same
    length, the same counts, and pairwise `==` keys -/
theorem sameUpToRep_of_mapGet (d1 d2 : List (α × Int)) (hk1 : ∀ p ∈ d1, NN p.1) (hk2 : ∀ p ∈ d2, NN p.1)
    (hs1 : Srt d1) (hs2 : Srt d2) (h : ∀ v, NN v → mapGet d1 v = mapGet d2 v) : SameUpToRep d1 d2 := by
  induction d1 generalizing d2 with
  | nil =>
    cases d2 with
    | nil => exact List.Forall₂.nil
    | cons q t =>
      obtain ⟨k, c⟩ := q
      have hkk := hk2 (k, c) (by simp)
      have := h k hkk
      simp [mapGet, keyCmp_of_keq ⟨O.le_refl k hkk, O.le_refl k hkk⟩] at this
  | cons q1 t1 ih =>
    obtain ⟨k1, c1⟩ := q1
    have hkk1 := hk1 (k1, c1) (by simp)
    have e1 : keyCmp k1 k1 = Ordering.eq := keyCmp_of_keq ⟨O.le_refl k1 hkk1, O.le_refl k1 hkk1⟩
    cases d2 with
    | nil =>
      have := h k1 hkk1
      simp [mapGet, e1] at this
    | cons q2 t2 =>
      obtain ⟨k2, c2⟩ := q2
      have hkk2 := hk2 (k2, c2) (by simp)
      have e2 : keyCmp k2 k2 = Ordering.eq := keyCmp_of_keq ⟨O.le_refl k2 hkk2, O.le_refl k2 hkk2⟩
      obtain ⟨a1, b1⟩ := List.pairwise_cons.1 hs1
      obtain ⟨a2, b2⟩ := List.pairwise_cons.1 hs2
      rcases keyCmp_cases O hkk1 hkk2 with ⟨hh, hc⟩ | ⟨hh, hc⟩ | ⟨hh, hc⟩
      · have := h k1 hkk1
        simp [mapGet, e1, hc] at this
      · have hcc := h k1 hkk1
        simp only [mapGet, e1, hc, Option.some.injEq] at hcc
        refine List.Forall₂.cons ⟨hh, hcc⟩ (ih t2 (fun p hp => hk1 p (by simp [hp]))
          (fun p hp => hk2 p (by simp [hp])) b1 b2 (fun v hv => ?_))
        rcases keyCmp_cases O hv hkk1 with ⟨h2, hc2⟩ | ⟨h2, hc2⟩ | ⟨h2, hc2⟩
        · rw [mapGet_lt_all O t1 (fun p hp => lt_tr O h2 (a1 p hp)),
            mapGet_lt_all O t2 (fun p hp => lt_tr O (lt_le_tr O h2 hh.1) (a2 p hp))]
        · rw [mapGet_lt_all O t1 (fun p hp => le_lt_tr O h2.1 (a1 p hp)),
            mapGet_lt_all O t2 (fun p hp => le_lt_tr O (O.le_trans _ _ _ h2.1 hh.1) (a2 p hp))]
        · have := h v hv
          have hc3 : keyCmp v k2 = Ordering.gt := keyCmp_of_gt O (le_lt_tr O hh.2 h2)
          simpa only [mapGet, hc2, hc3] using this
      · have := h k2 hkk2
        simp [mapGet, e2, keyCmp_of_lt O hh] at this

/-- full(∀α): lists that agree up to representatives have the same count `≤ x` for EVERY `x` (NaN included) -/
theorem mapSumTo_sameUpToRep {d1 d2 : List (α × Int)} (h : SameUpToRep d1 d2) (x : α) :
    mapSumTo d1 x = mapSumTo d2 x := by
  rw [mapSumTo_eq, mapSumTo_eq]
  induction h with
  | nil => rfl
  | @cons p q l1 l2 hpq _ ih =>
    have : toP x p = toP x q := by unfold toP; rw [keyCmp_congr_right O x hpq.1]
    simp only [List.filter_cons, this]
    split_ifs
    · simp only [List.map_cons, List.sum_cons, ih, hpq.2]
    · exact ih

/-- full(∀α): lists that agree up to representatives have the same count `> x` for every `x` -/
theorem mapSumFrom_sameUpToRep {d1 d2 : List (α × Int)} (h : SameUpToRep d1 d2) (x : α) :
    mapSumFrom d1 x = mapSumFrom d2 x := by
  rw [mapSumFrom_eq, mapSumFrom_eq]
  induction h with
  | nil => rfl
  | @cons p q l1 l2 hpq _ ih =>
    have : fromP x p = fromP x q := by unfold fromP; rw [keyCmp_congr_right O x hpq.1]
    simp only [List.filter_cons, this]
    split_ifs
    · simp only [List.map_cons, List.sum_cons, ih, hpq.2]
    · exact ih

omit O in
/-- full(∀α): lists that agree up to representatives have the same total -/
theorem tot_sameUpToRep {d1 d2 : List (α × Int)} (h : SameUpToRep d1 d2) : tot d1 = tot d2 := by
  unfold tot
  induction h with
  | nil => rfl
  | cons hpq _ ih => simp only [List.map_cons, List.sum_cons, ih, hpq.2]

omit O in
/-- full(∀α): first keys of lists that agree up to representatives: both absent or `==` -/
theorem head_sameUpToRep {d1 d2 : List (α × Int)} (h : SameUpToRep d1 d2) :
    (d1 = [] ∧ d2 = []) ∨ ∃ a b, (d1.map Prod.fst).head? = some a ∧ (d2.map Prod.fst).head? = some b ∧ KEq a b := by
  cases h with
  | nil => exact Or.inl ⟨rfl, rfl⟩
  | cons hpq _ => exact Or.inr ⟨_, _, rfl, rfl, hpq.1⟩

omit O in
/-- full(∀α): reversal keeps agreement up to representatives -/
theorem reverse_sameUpToRep {d1 d2 : List (α × Int)} (h : SameUpToRep d1 d2) :
    SameUpToRep d1.reverse d2.reverse := List.rel_reverse h

end
end Statrs.Lemmas.FloatHist
