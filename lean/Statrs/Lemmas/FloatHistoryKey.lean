/-
  Statrs.Lemmas.FloatHistoryKey — which representative (`+0.0` or `-0.0`) of a key the association list of the hand
  model of `Empirical` stores: `mapKey d v` is the stored key `==` to `v` (a carrier-free mirror of the B-tree
  search, same walk as `mapGet`); its evolution under `mapIncr`/`mapRemove`/`mapDecr`.
-/
import Statrs.Lemmas.FloatHistory
set_option linter.unusedSectionVars false
namespace Statrs.Lemmas.FloatHist
open Statrs Statrs.Spec Statrs.Model Statrs.Lemmas.FloatEmp

section
variable {α : Type} [Add α] [Sub α] [Mul α] [Div α] [Neg α] [LT α] [LE α] [BEq α]
  [DecidableLT α] [DecidableLE α] [OfScientific α] [Inhabited α] [RFun α]

/-- the stored key that compares `Equal` to the search key `v` (same walk as `mapGet`) -/
def mapKey : List (α × Int) → α → Option α
  | [], _ => none
  | (k, _) :: t, v =>
    match keyCmp v k with
    | Ordering.lt => none
    | Ordering.eq => some k
    | Ordering.gt => mapKey t v

/-- full(∀α): a key is found exactly when a count is found -/
theorem mapKey_isSome (d : List (α × Int)) (v : α) : (mapKey d v).isSome = (mapGet d v).isSome := by
  induction d with
  | nil => rfl
  | cons q t ih =>
    obtain ⟨k, c⟩ := q
    simp only [mapKey, mapGet]
    cases keyCmp v k <;> simp [ih]

/-- full(∀α): `mapDecr` does not change the stored keys -/
theorem mapKey_mapDecr (d : List (α × Int)) (w v : α) : mapKey (mapDecr d w) v = mapKey d v := by
  induction d with
  | nil => rfl
  | cons q t ih =>
    obtain ⟨k, c⟩ := q
    unfold mapDecr
    cases keyCmp w k <;> simp only [mapKey, ih]

variable (O : OrderLaws α)
include O

/-- full(∀α): the lookup does not see the representative of the search key -/
theorem mapKey_congr (d : List (α × Int)) {v1 v2 : α} (h : KEq v1 v2) : mapKey d v1 = mapKey d v2 := by
  induction d with
  | nil => rfl
  | cons q t ih =>
    obtain ⟨k, c⟩ := q
    simp only [mapKey, keyCmp_congr_left O k h, ih]

/-- full(∀α): a search key below the first stored key is not found -/
theorem mapKey_lt_head {k : α} {c : Int} {t : List (α × Int)} {v : α} (h : v < k) :
    mapKey ((k, c) :: t) v = none := by
  simp only [mapKey, keyCmp_of_lt O h]

/-- full(∀α): a search key below every stored key is not found -/
theorem mapKey_lt_all (d : List (α × Int)) {v : α} (h : ∀ p ∈ d, v < p.1) : mapKey d v = none := by
  cases d with
  | nil => rfl
  | cons q t => obtain ⟨k, c⟩ := q; exact mapKey_lt_head O (h (k, c) (by simp))

/-- full(∀α): lookup after `entry(w).and_modify(+1).or_insert(1)`: a new class stores `w` itself, an existing class keeps its stored key -/
theorem mapKey_mapIncr (d : List (α × Int)) (hk : ∀ p ∈ d, NN p.1) {w v : α} (hw : NN w) (hv : NN v) :
    mapKey (mapIncr d w) v = if KEq w v then some ((mapKey d v).getD w) else mapKey d v := by
  induction d with
  | nil =>
    rcases keyCmp_cases O hv hw with ⟨h, hc⟩ | ⟨h, hc⟩ | ⟨h, hc⟩
    · simp only [mapIncr, mapKey, hc]; rw [if_neg (fun h' => ltnle O h h'.1)]
    · simp only [mapIncr, mapKey, hc]; rw [if_pos (keq_symm O h)]; rfl
    · simp only [mapIncr, mapKey, hc]; rw [if_neg (fun h' => ltnle O h h'.2)]
  | cons q t ih =>
    obtain ⟨k, c⟩ := q
    have hkk := hk (k, c) (by simp)
    have ih := ih (fun p hp => hk p (by simp [hp]))
    rcases keyCmp_cases O hw hkk with ⟨h, hc⟩ | ⟨h, hc⟩ | ⟨h, hc⟩
    · -- w < k
      simp only [mapIncr, hc]
      rcases keyCmp_cases O hv hw with ⟨h2, hc2⟩ | ⟨h2, hc2⟩ | ⟨h2, hc2⟩
      · rw [if_neg (fun h' => ltnle O h2 h'.1), mapKey_lt_head O h2, mapKey_lt_head O (lt_tr O h2 h)]
      · rw [if_pos (keq_symm O h2), mapKey_lt_head O (le_lt_tr O h2.1 h)]
        simp only [mapKey, hc2]; rfl
      · rw [if_neg (fun h' => ltnle O h2 h'.2)]
        conv_lhs => unfold mapKey
        simp only [hc2]
    · -- w ≈ k
      simp only [mapIncr, hc]
      rcases keyCmp_cases O hv hkk with ⟨h2, hc2⟩ | ⟨h2, hc2⟩ | ⟨h2, hc2⟩
      · rw [if_neg (fun h' => ltnle O h2 (O.le_trans _ _ _ h.2 h'.1)), mapKey_lt_head O h2, mapKey_lt_head O h2]
      · rw [if_pos (keq_tr O h (keq_symm O h2))]; simp only [mapKey, hc2]; rfl
      · rw [if_neg (fun h' => ltnle O h2 (O.le_trans _ _ _ h'.2 h.1))]; simp only [mapKey, hc2]
    · -- k < w
      simp only [mapIncr, hc]
      rcases keyCmp_cases O hv hkk with ⟨h2, hc2⟩ | ⟨h2, hc2⟩ | ⟨h2, hc2⟩
      · rw [if_neg (fun h' => ltnle O (lt_tr O h2 h) h'.1), mapKey_lt_head O h2, mapKey_lt_head O h2]
      · rw [if_neg (fun h' => ltnle O h (O.le_trans _ _ _ h'.1 h2.1))]; simp only [mapKey, hc2]
      · simp only [mapKey, hc2]; exact ih

/-- full(∀α): lookup after `OccupiedEntry::remove` on a strictly sorted list: the class of `w` disappears -/
theorem mapKey_mapRemove (d : List (α × Int)) (hk : ∀ p ∈ d, NN p.1) (hs : Srt d) {w v : α} (hw : NN w)
    (hv : NN v) : mapKey (mapRemove d w) v = if KEq w v then none else mapKey d v := by
  induction d with
  | nil => simp [mapRemove, mapKey]
  | cons q t ih =>
    obtain ⟨k, c⟩ := q
    have hkk := hk (k, c) (by simp)
    obtain ⟨hs1, hs2⟩ := List.pairwise_cons.1 hs
    have ih := ih (fun p hp => hk p (by simp [hp])) hs2
    rcases keyCmp_cases O hw hkk with ⟨h, hc⟩ | ⟨h, hc⟩ | ⟨h, hc⟩
    · simp only [mapRemove, hc]
      by_cases hq : KEq w v
      · rw [if_pos hq]; exact mapKey_lt_head O (le_lt_tr O hq.2 h)
      · rw [if_neg hq]
    · simp only [mapRemove, hc]
      by_cases hq : KEq w v
      · rw [if_pos hq]
        exact mapKey_lt_all O t (fun p hp => le_lt_tr O (O.le_trans _ _ _ hq.2 h.1) (hs1 p hp))
      · rw [if_neg hq]
        rcases keyCmp_cases O hv hkk with ⟨h2, hc2⟩ | ⟨h2, hc2⟩ | ⟨h2, hc2⟩
        · rw [mapKey_lt_head O h2]; exact mapKey_lt_all O t (fun p hp => lt_tr O h2 (hs1 p hp))
        · exact absurd (keq_tr O h (keq_symm O h2)) hq
        · simp only [mapKey, hc2]
    · simp only [mapRemove, hc]
      rcases keyCmp_cases O hv hkk with ⟨h2, hc2⟩ | ⟨h2, hc2⟩ | ⟨h2, hc2⟩
      · rw [mapKey_lt_head O h2, mapKey_lt_head O h2]; simp
      · rw [if_neg (fun h' => ltnle O h (O.le_trans _ _ _ h'.1 h2.1))]; simp only [mapKey, hc2]
      · simp only [mapKey, hc2]; exact ih

/-- full(∀α): in a strictly sorted list with non-NaN keys every stored key finds itself -/
theorem mapKey_self (d : List (α × Int)) (hk : ∀ p ∈ d, NN p.1) (hs : Srt d) :
    ∀ p ∈ d, mapKey d p.1 = some p.1 := by
  induction d with
  | nil => intro p hp; simp at hp
  | cons q t ih =>
    obtain ⟨k, c⟩ := q
    have hkk := hk (k, c) (by simp)
    obtain ⟨hs1, hs2⟩ := List.pairwise_cons.1 hs
    intro p hp
    rcases List.mem_cons.1 hp with rfl | hp
    · simp only [mapKey, keyCmp_of_keq ⟨O.le_refl _ hkk, O.le_refl _ hkk⟩]
    · simp only [mapKey, keyCmp_of_gt O (hs1 p hp)]
      exact ih (fun p hp => hk p (by simp [hp])) hs2 p hp

/-- full(∀α): two strictly sorted lists that agree up to representatives and store the same representative for
    every class are EQUAL -/
theorem eq_of_sameUpToRep_of_mapKey {d1 d2 : List (α × Int)} (h : SameUpToRep d1 d2)
    (hk1 : ∀ p ∈ d1, NN p.1) (hk2 : ∀ p ∈ d2, NN p.1) (hs1 : Srt d1) (hs2 : Srt d2)
    (hkey : ∀ v, NN v → mapKey d1 v = mapKey d2 v) : d1 = d2 := by
  induction h with
  | nil => rfl
  | @cons p q l1 l2 hpq _ ih =>
    obtain ⟨k1, c1⟩ := p
    obtain ⟨k2, c2⟩ := q
    have hkk1 := hk1 (k1, c1) (by simp)
    obtain ⟨a1, b1⟩ := List.pairwise_cons.1 hs1
    obtain ⟨a2, b2⟩ := List.pairwise_cons.1 hs2
    have hk : k1 = k2 := by
      have := hkey k1 hkk1
      simp only [mapKey, keyCmp_of_keq ⟨O.le_refl _ hkk1, O.le_refl _ hkk1⟩, keyCmp_of_keq hpq.1] at this
      injection this
    have hc : c1 = c2 := hpq.2
    subst hk; subst hc
    congr 1
    refine ih (fun p hp => hk1 p (by simp [hp])) (fun p hp => hk2 p (by simp [hp])) b1 b2 (fun v hv => ?_)
    rcases keyCmp_cases O hv hkk1 with ⟨h2, hc2⟩ | ⟨h2, hc2⟩ | ⟨h2, hc2⟩
    · rw [mapKey_lt_all O l1 (fun p hp => lt_tr O h2 (a1 p hp)),
        mapKey_lt_all O l2 (fun p hp => lt_tr O h2 (a2 p hp))]
    · rw [mapKey_lt_all O l1 (fun p hp => le_lt_tr O h2.1 (a1 p hp)),
        mapKey_lt_all O l2 (fun p hp => le_lt_tr O h2.1 (a2 p hp))]
    · have := hkey v hv
      simpa only [mapKey, hc2] using this

end
end Statrs.Lemmas.FloatHist
