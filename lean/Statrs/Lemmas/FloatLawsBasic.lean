/-
  Statrs.Lemmas.FloatLawsBasic — the derived toolbox of `Statrs.Spec.FloatLaws`: order reasoning with IEEE
  `≤ < ==` (NaN-aware), literals, `Fin ⇒ NN`, NaN-freeness of `+ − × ÷` from the operand classes, and the
  range lemmas used by every closed-form cdf/sf/pdf proof
  (`0 ≤ y ≤ 1 ⇒ 0 ≤ 1 − y ≤ 1`, `0 ≤ a ≤ b, 0 < b ⇒ 0 ≤ a / b ≤ 1`, …).

  All lemmas live in the namespace `Statrs.Spec.FloatLaws`, so they are available by dot notation on a
  hypothesis `L : FloatLaws α` (`L.lt_le h`, `L.div_mem_unit …`).
-/
import Statrs.Spec.FloatLaws
import Mathlib.Tactic
set_option linter.unusedSectionVars false
namespace Statrs.Spec.FloatLaws
open Statrs Statrs.Spec

variable {α : Type} [Add α] [Sub α] [Mul α] [Div α] [Neg α] [LT α] [LE α] [BEq α]
  [OfScientific α] [RFun α] (L : FloatLaws α)
include L

/-! ### NaN classification -/

/-- full(∀α): every value is a NaN or not -/
theorem nn_or_nan (x : α) : NN x ∨ RFun.isNaN x = true := by
  cases h : RFun.isNaN x
  · exact Or.inl h
  · exact Or.inr rfl

/-- full(∀α): `NN` is the negation of `isNaN = true` -/
theorem nn_iff (x : α) : NN x ↔ ¬ RFun.isNaN x = true := by
  show RFun.isNaN x = false ↔ _
  cases RFun.isNaN x <;> simp

/-- full(∀α): finite ⇒ not NaN -/
theorem fin_nn' {a : α} (h : Fin a) : NN a := L.ord.fin_nn a h
/-- full(∀α): finite ⇒ not infinite -/
theorem fin_not_inf {a : α} (h : Fin a) : RFun.isInf a = false := ((L.ord.fin_iff a).1 h).2
/-- full(∀α): not NaN and not infinite ⇒ finite -/
theorem fin_of {a : α} (h1 : NN a) (h2 : RFun.isInf a = false) : Fin a := (L.ord.fin_iff a).2 ⟨h1, h2⟩

/-! ### order -/

/-- full(∀α): `≤` is reflexive on non-NaN values -/
theorem le_rfl' {a : α} (h : NN a) : a ≤ a := L.ord.le_refl a h
/-- full(∀α): `≤` is transitive -/
theorem le_tr {a b c : α} (h1 : a ≤ b) (h2 : b ≤ c) : a ≤ c := L.ord.le_trans a b c h1 h2
/-- full(∀α): `a ≤ b` ⇒ `a` is not NaN -/
theorem le_nnl {a b : α} (h : a ≤ b) : NN a := L.ord.le_nn_left a b h
/-- full(∀α): `a ≤ b` ⇒ `b` is not NaN -/
theorem le_nnr {a b : α} (h : a ≤ b) : NN b := L.ord.le_nn_right a b h
/-- full(∀α): `a < b ⇒ a ≤ b` -/
theorem lt_le {a b : α} (h : a < b) : a ≤ b := ((L.ord.lt_iff a b).1 h).1
/-- full(∀α): `a < b ⇒ ¬ b ≤ a` -/
theorem lt_not_le {a b : α} (h : a < b) : ¬ b ≤ a := ((L.ord.lt_iff a b).1 h).2
/-- full(∀α): `a < b` ⇒ `a` is not NaN -/
theorem lt_nnl {a b : α} (h : a < b) : NN a := L.le_nnl (L.lt_le h)
/-- full(∀α): `a < b` ⇒ `b` is not NaN -/
theorem lt_nnr {a b : α} (h : a < b) : NN b := L.le_nnr (L.lt_le h)
/-- full(∀α): `a ≤ b`, `¬ b ≤ a` ⇒ `a < b` -/
theorem lt_of_le_not_le {a b : α} (h1 : a ≤ b) (h2 : ¬ b ≤ a) : a < b := (L.ord.lt_iff a b).2 ⟨h1, h2⟩
/-- full(∀α): `a ≤ b ⇒ ¬ b < a` -/
theorem le_not_lt {a b : α} (h : a ≤ b) : ¬ b < a := fun h' => L.lt_not_le h' h
/-- full(∀α): `<` is irreflexive -/
theorem lt_irrefl' (a : α) : ¬ a < a := fun h => L.lt_not_le h (L.lt_le h)

/-- full(∀α): on non-NaN values `¬ b ≤ a` is `a < b` -/
theorem lt_of_not_le {a b : α} (ha : NN a) (hb : NN b) (h : ¬ b ≤ a) : a < b := by
  rcases L.ord.le_total a b ha hb with h1 | h1
  · exact L.lt_of_le_not_le h1 h
  · exact absurd h1 h

/-- full(∀α): on non-NaN values `¬ a < b` is `b ≤ a` -/
theorem le_of_not_lt {a b : α} (ha : NN a) (hb : NN b) (h : ¬ a < b) : b ≤ a := by
  by_contra h'
  exact h (L.lt_of_not_le ha hb h')

/-- full(∀α): on non-NaN values `a ≤ b` or `b < a` -/
theorem le_or_lt' {a b : α} (ha : NN a) (hb : NN b) : a ≤ b ∨ b < a := by
  by_cases h : a ≤ b
  · exact Or.inl h
  · exact Or.inr (L.lt_of_not_le hb ha h)

/-- full(∀α): `a < b ≤ c ⇒ a < c` -/
theorem lt_of_lt_of_le' {a b c : α} (h1 : a < b) (h2 : b ≤ c) : a < c := by
  refine L.lt_of_le_not_le (L.le_tr (L.lt_le h1) h2) (fun h => ?_)
  exact L.lt_not_le h1 (L.le_tr h2 h)

/-- full(∀α): `a ≤ b < c ⇒ a < c` -/
theorem lt_of_le_of_lt' {a b c : α} (h1 : a ≤ b) (h2 : b < c) : a < c := by
  refine L.lt_of_le_not_le (L.le_tr h1 (L.lt_le h2)) (fun h => ?_)
  exact L.lt_not_le h2 (L.le_tr h h1)

/-- full(∀α): `<` is transitive -/
theorem lt_tr {a b c : α} (h1 : a < b) (h2 : b < c) : a < c := L.lt_of_lt_of_le' h1 (L.lt_le h2)

/-- full(∀α): a comparison with a NaN is false -/
theorem not_le_nan_left {a b : α} (h : RFun.isNaN a = true) : ¬ a ≤ b := fun h' => by
  have := L.le_nnl h'; simp [NN, h] at this
/-- full(∀α): `a ≤ NaN` is false -/
theorem not_le_nan_right {a b : α} (h : RFun.isNaN b = true) : ¬ a ≤ b := fun h' => by
  have := L.le_nnr h'; simp [NN, h] at this
/-- full(∀α): `NaN < b` is false -/
theorem not_lt_nan_left {a b : α} (h : RFun.isNaN a = true) : ¬ a < b :=
  fun h' => L.not_le_nan_left h (L.lt_le h')
/-- full(∀α): `a < NaN` is false -/
theorem not_lt_nan_right {a b : α} (h : RFun.isNaN b = true) : ¬ a < b :=
  fun h' => L.not_le_nan_right h (L.lt_le h')

/-! ### IEEE equality `==` -/

/-- full(∀α): `a == b ⇒ a ≤ b` -/
theorem beq_le {a b : α} (h : (a == b) = true) : a ≤ b := ((L.ord.beq_iff a b).1 h).1
/-- full(∀α): `a == b ⇒ b ≤ a` -/
theorem beq_ge {a b : α} (h : (a == b) = true) : b ≤ a := ((L.ord.beq_iff a b).1 h).2
/-- full(∀α): `a ≤ b`, `b ≤ a` ⇒ `a == b` -/
theorem beq_of_le_le {a b : α} (h1 : a ≤ b) (h2 : b ≤ a) : (a == b) = true := (L.ord.beq_iff a b).2 ⟨h1, h2⟩
/-- full(∀α): `==` is symmetric -/
theorem beq_symm {a b : α} (h : (a == b) = true) : (b == a) = true := L.beq_of_le_le (L.beq_ge h) (L.beq_le h)
/-- full(∀α): `==` is transitive -/
theorem beq_tr {a b c : α} (h1 : (a == b) = true) (h2 : (b == c) = true) : (a == c) = true :=
  L.beq_of_le_le (L.le_tr (L.beq_le h1) (L.beq_le h2)) (L.le_tr (L.beq_ge h2) (L.beq_ge h1))
/-- full(∀α): `==` is reflexive on non-NaN values -/
theorem beq_rfl' {a : α} (h : NN a) : (a == a) = true := L.beq_of_le_le (L.le_rfl' h) (L.le_rfl' h)
/-- full(∀α): `a == b` ⇒ `a` is not NaN -/
theorem beq_nnl {a b : α} (h : (a == b) = true) : NN a := L.le_nnl (L.beq_le h)
/-- full(∀α): `a == b` ⇒ `b` is not NaN -/
theorem beq_nnr {a b : α} (h : (a == b) = true) : NN b := L.le_nnr (L.beq_le h)
/-- full(∀α): `a ≤ b == c ⇒ a ≤ c` -/
theorem le_of_le_of_beq {a b c : α} (h1 : a ≤ b) (h2 : (b == c) = true) : a ≤ c := L.le_tr h1 (L.beq_le h2)
/-- full(∀α): `a == b ≤ c ⇒ a ≤ c` -/
theorem le_of_beq_of_le {a b c : α} (h1 : (a == b) = true) (h2 : b ≤ c) : a ≤ c := L.le_tr (L.beq_le h1) h2
/-- full(∀α): `a < b == c ⇒ a < c` -/
theorem lt_of_lt_of_beq {a b c : α} (h1 : a < b) (h2 : (b == c) = true) : a < c :=
  L.lt_of_lt_of_le' h1 (L.beq_le h2)
/-- full(∀α): `a == b < c ⇒ a < c` -/
theorem lt_of_beq_of_lt {a b c : α} (h1 : (a == b) = true) (h2 : b < c) : a < c :=
  L.lt_of_le_of_lt' (L.beq_le h1) h2
/-- full(∀α): `a < b ⇒ ¬ a == b` -/
theorem lt_not_beq {a b : α} (h : a < b) : ¬ (a == b) = true := fun h' => L.lt_not_le h (L.beq_ge h')
/-- full(∀α): `a < b ⇒ ¬ b == a` -/
theorem lt_not_beq' {a b : α} (h : a < b) : ¬ (b == a) = true := fun h' => L.lt_not_le h (L.beq_le h')
/-- full(∀α): `≤` is `<` or `==` -/
theorem lt_or_beq_of_le {a b : α} (h : a ≤ b) : a < b ∨ (a == b) = true := by
  by_cases h' : b ≤ a
  · exact Or.inr (L.beq_of_le_le h h')
  · exact Or.inl (L.lt_of_le_not_le h h')

/-! ### literals -/

/-- full(∀α): `0.0` is finite -/
theorem zero_fin : Fin (0.0 : α) := L.lit.zero_fin
/-- full(∀α): `1.0` is finite -/
theorem one_fin : Fin (1.0 : α) := L.lit.one_fin
/-- full(∀α): `0.5` is finite -/
theorem half_fin : Fin (0.5 : α) := L.lit.half_fin
/-- full(∀α): `2.0` is finite -/
theorem two_fin : Fin (2.0 : α) := L.lit.two_fin
/-- full(∀α): `0.0` is not NaN -/
theorem zero_nn : NN (0.0 : α) := L.fin_nn' L.lit.zero_fin
/-- full(∀α): `1.0` is not NaN -/
theorem one_nn : NN (1.0 : α) := L.fin_nn' L.lit.one_fin
/-- full(∀α): `0.5` is not NaN -/
theorem half_nn : NN (0.5 : α) := L.fin_nn' L.lit.half_fin
/-- full(∀α): `2.0` is not NaN -/
theorem two_nn : NN (2.0 : α) := L.fin_nn' L.lit.two_fin
/-- full(∀α): `0.0 ≤ 0.0` -/
theorem zero_le_zero : (0.0 : α) ≤ 0.0 := L.le_rfl' L.zero_nn
/-- full(∀α): `1.0 ≤ 1.0` -/
theorem one_le_one : (1.0 : α) ≤ 1.0 := L.le_rfl' L.one_nn
/-- full(∀α): `0.0 < 0.5` -/
theorem zero_lt_half : (0.0 : α) < 0.5 := L.lit.zero_lt_half
/-- full(∀α): `0.5 < 1.0` -/
theorem half_lt_one : (0.5 : α) < 1.0 := L.lit.half_lt_one
/-- full(∀α): `0.0 < 1.0` -/
theorem zero_lt_one : (0.0 : α) < 1.0 := L.lt_tr L.lit.zero_lt_half L.lit.half_lt_one
/-- full(∀α): `0.0 ≤ 1.0` -/
theorem zero_le_one : (0.0 : α) ≤ 1.0 := L.lt_le L.zero_lt_one
/-- full(∀α): `0.0 ≤ 0.5` -/
theorem zero_le_half : (0.0 : α) ≤ 0.5 := L.lt_le L.zero_lt_half
/-- full(∀α): `0.5 ≤ 1.0` -/
theorem half_le_one : (0.5 : α) ≤ 1.0 := L.lt_le L.half_lt_one
/-- full(∀α): `0.0 < 2.0` -/
theorem zero_lt_two : (0.0 : α) < 2.0 := L.lt_tr L.zero_lt_one L.lit.one_lt_two
/-- full(∀α): `1.0` is not IEEE-zero -/
theorem one_not_beq_zero : ¬ ((1.0 : α) == (0.0 : α)) = true := L.lt_not_beq' L.zero_lt_one
/-- full(∀α): a positive value is not IEEE-zero -/
theorem pos_not_beq_zero {c : α} (h : (0.0 : α) < c) : ¬ (c == (0.0 : α)) = true := L.lt_not_beq' h

/-! ### the special values -/

/-- full(∀α): every non-NaN value is `≤ +∞` -/
theorem le_inf {a : α} (h : NN a) : a ≤ (RFun.inf : α) := L.inf.le_inf a h
/-- full(∀α): `−∞ ≤` every non-NaN value -/
theorem negInf_le {a : α} (h : NN a) : (RFun.negInf : α) ≤ a := L.inf.negInf_le a h
/-- full(∀α): `+∞` is not NaN -/
theorem inf_nn : NN (RFun.inf : α) := L.inf.inf_nn
/-- full(∀α): `−∞` is not NaN -/
theorem negInf_nn : NN (RFun.negInf : α) := L.inf.negInf_nn
/-- full(∀α): `+∞` is not finite, so it is strictly above every finite value's … only `¬ Fin` is derivable -/
theorem inf_not_fin : ¬ Fin (RFun.inf : α) := fun h => by
  have := L.fin_not_inf h; rw [L.inf.inf_isInf] at this; exact Bool.noConfusion this
/-- full(∀α): `−∞` is not finite -/
theorem negInf_not_fin : ¬ Fin (RFun.negInf : α) := fun h => by
  have := L.fin_not_inf h; rw [L.inf.negInf_isInf] at this; exact Bool.noConfusion this

/-! ### NaN-freeness of the four operations -/

private theorem nn_of_not {x : α} (h : ¬ RFun.isNaN x = true) : NN x := (L.nn_iff x).2 h

/-- full(∀α): the negation of a non-NaN value is not NaN -/
theorem neg_nn {a : α} (h : NN a) : NN (-a) := by
  show RFun.isNaN (-a) = false
  rw [L.nan.neg_nan]; exact h

/-- full(∀α): a sum is not NaN when both operands are non-NaN and one of them is finite -/
theorem add_nn {a b : α} (ha : NN a) (hb : NN b) (hf : Fin a ∨ Fin b) : NN (a + b) := by
  apply L.nn_of_not; intro h
  rcases L.nan.add_nan a b h with h1 | h1 | ⟨h1, h2⟩
  · simp [NN, h1] at ha
  · simp [NN, h1] at hb
  · rcases hf with hf | hf
    · have := L.fin_not_inf hf; simp [h1] at this
    · have := L.fin_not_inf hf; simp [h2] at this

/-- full(∀α): a difference is not NaN when both operands are non-NaN and one of them is finite -/
theorem sub_nn {a b : α} (ha : NN a) (hb : NN b) (hf : Fin a ∨ Fin b) : NN (a - b) := by
  apply L.nn_of_not; intro h
  rcases L.nan.sub_nan a b h with h1 | h1 | ⟨h1, h2⟩
  · simp [NN, h1] at ha
  · simp [NN, h1] at hb
  · rcases hf with hf | hf
    · have := L.fin_not_inf hf; simp [h1] at this
    · have := L.fin_not_inf hf; simp [h2] at this

/-- full(∀α): a product of finite operands is not NaN -/
theorem mul_nn {a b : α} (ha : Fin a) (hb : Fin b) : NN (a * b) := by
  apply L.nn_of_not; intro h
  rcases L.nan.mul_nan a b h with h1 | h1 | ⟨_, h2⟩ | ⟨h1, _⟩
  · have := L.fin_nn' ha; simp [NN, h1] at this
  · have := L.fin_nn' hb; simp [NN, h1] at this
  · have := L.fin_not_inf hb; simp [h2] at this
  · have := L.fin_not_inf ha; simp [h1] at this

/-- full(∀α): a product of non-NaN operands that are both not IEEE-zero is not NaN -/
theorem mul_nn_of_ne_zero {a b : α} (ha : NN a) (hb : NN b) (ha0 : ¬ (a == (0.0 : α)) = true)
    (hb0 : ¬ (b == (0.0 : α)) = true) : NN (a * b) := by
  apply L.nn_of_not; intro h
  rcases L.nan.mul_nan a b h with h1 | h1 | ⟨h1, _⟩ | ⟨_, h2⟩
  · simp [NN, h1] at ha
  · simp [NN, h1] at hb
  · exact ha0 h1
  · exact hb0 h2

/-- full(∀α): a finite non-zero factor times a non-NaN value is not NaN -/
theorem mul_nn_of_fin_ne_zero {a b : α} (ha : Fin a) (ha0 : ¬ (a == (0.0 : α)) = true) (hb : NN b) :
    NN (a * b) := by
  apply L.nn_of_not; intro h
  rcases L.nan.mul_nan a b h with h1 | h1 | ⟨h1, _⟩ | ⟨h1, _⟩
  · have := L.fin_nn' ha; simp [NN, h1] at this
  · simp [NN, h1] at hb
  · exact ha0 h1
  · have := L.fin_not_inf ha; simp [h1] at this

/-- full(∀α): a quotient of non-NaN operands with a non-zero divisor is not NaN when one operand is finite -/
theorem div_nn {a b : α} (ha : NN a) (hb : NN b) (hb0 : ¬ (b == (0.0 : α)) = true)
    (hf : Fin a ∨ Fin b) : NN (a / b) := by
  apply L.nn_of_not; intro h
  rcases L.nan.div_nan a b h with h1 | h1 | ⟨_, h2⟩ | ⟨h1, h2⟩
  · simp [NN, h1] at ha
  · simp [NN, h1] at hb
  · exact hb0 h2
  · rcases hf with hf | hf
    · have := L.fin_not_inf hf; simp [h1] at this
    · have := L.fin_not_inf hf; simp [h2] at this

/-- full(∀α): NaN operands give NaN results (one lemma per operation and side) -/
theorem add_nan_left {a : α} (b : α) (h : RFun.isNaN a = true) : RFun.isNaN (a + b) = true :=
  L.nan.nan_add a b (Or.inl h)
/-- full(∀α): a NaN right summand gives a NaN sum -/
theorem add_nan_right (a : α) {b : α} (h : RFun.isNaN b = true) : RFun.isNaN (a + b) = true :=
  L.nan.nan_add a b (Or.inr h)
/-- full(∀α): a NaN minuend gives a NaN difference -/
theorem sub_nan_left {a : α} (b : α) (h : RFun.isNaN a = true) : RFun.isNaN (a - b) = true :=
  L.nan.nan_sub a b (Or.inl h)
/-- full(∀α): a NaN subtrahend gives a NaN difference -/
theorem sub_nan_right (a : α) {b : α} (h : RFun.isNaN b = true) : RFun.isNaN (a - b) = true :=
  L.nan.nan_sub a b (Or.inr h)
/-- full(∀α): a NaN left factor gives a NaN product -/
theorem mul_nan_left {a : α} (b : α) (h : RFun.isNaN a = true) : RFun.isNaN (a * b) = true :=
  L.nan.nan_mul a b (Or.inl h)
/-- full(∀α): a NaN right factor gives a NaN product -/
theorem mul_nan_right (a : α) {b : α} (h : RFun.isNaN b = true) : RFun.isNaN (a * b) = true :=
  L.nan.nan_mul a b (Or.inr h)
/-- full(∀α): a NaN numerator gives a NaN quotient -/
theorem div_nan_left {a : α} (b : α) (h : RFun.isNaN a = true) : RFun.isNaN (a / b) = true :=
  L.nan.nan_div a b (Or.inl h)
/-- full(∀α): a NaN divisor gives a NaN quotient -/
theorem div_nan_right (a : α) {b : α} (h : RFun.isNaN b = true) : RFun.isNaN (a / b) = true :=
  L.nan.nan_div a b (Or.inr h)

/-! ### signs of differences, products and quotients -/

/-- full(∀α): `b ≤ a`, `b` finite ⇒ `0 ≤ a − b` -/
theorem sub_nonneg_of_le {a b : α} (hb : Fin b) (h : b ≤ a) : (0.0 : α) ≤ a - b := by
  have h1 : NN (b - b) := L.sub_nn (L.fin_nn' hb) (L.fin_nn' hb) (Or.inl hb)
  have h2 : NN (a - b) := L.sub_nn (L.le_nnr h) (L.fin_nn' hb) (Or.inr hb)
  exact L.le_of_beq_of_le (L.beq_symm (L.exact.sub_self b hb)) (L.mono.sub_le_sub_right b a b h h1 h2)

/-- full(∀α): `b ≤ a`, `a` finite ⇒ `0 ≤ a − b` -/
theorem sub_nonneg_of_le' {a b : α} (ha : Fin a) (h : b ≤ a) : (0.0 : α) ≤ a - b := by
  have h1 : NN (a - a) := L.sub_nn (L.fin_nn' ha) (L.fin_nn' ha) (Or.inl ha)
  have h2 : NN (a - b) := L.sub_nn (L.fin_nn' ha) (L.le_nnl h) (Or.inl ha)
  exact L.le_of_beq_of_le (L.beq_symm (L.exact.sub_self a ha)) (L.mono.sub_le_sub_left b a a h h2 h1)

/-- full(∀α): `0 ≤ a`, `0 < c`, one of them finite ⇒ `0 ≤ a / c` -/
theorem div_nonneg {a c : α} (ha : (0.0 : α) ≤ a) (hc : (0.0 : α) < c) (hf : Fin a ∨ Fin c) :
    (0.0 : α) ≤ a / c := by
  have hc0 := L.pos_not_beq_zero hc
  have hz : ((0.0 : α) / c == (0.0 : α)) = true := L.exact.zero_div c (L.lt_nnr hc) hc0
  have h2 : NN (a / c) := L.div_nn (L.le_nnr ha) (L.lt_nnr hc) hc0 hf
  exact L.le_of_beq_of_le (L.beq_symm hz) (L.mono.div_le_div_right _ _ c ha hc (L.beq_nnl hz) h2)

/-- full(∀α): `0 ≤ a ≤ b`, `0 < b`, `b` finite ⇒ `0 ≤ a / b ≤ 1` and the quotient is not NaN -/
theorem div_mem_unit {a b : α} (ha : (0.0 : α) ≤ a) (hab : a ≤ b) (hb : (0.0 : α) < b) (hf : Fin b) :
    (0.0 : α) ≤ a / b ∧ a / b ≤ (1.0 : α) := by
  have hb0 := L.pos_not_beq_zero hb
  refine ⟨L.div_nonneg ha hb (Or.inr hf), ?_⟩
  have h1 : ((b / b) == (1.0 : α)) = true := L.exact.div_self b hf hb0
  have h2 : NN (a / b) := L.div_nn (L.le_nnl hab) (L.lt_nnr hb) hb0 (Or.inr hf)
  exact L.le_of_le_of_beq (L.mono.div_le_div_right a b b hab hb h2 (L.beq_nnl h1)) h1

/-- full(∀α): `0 ≤ y ≤ 1 ⇒ 0 ≤ 1 − y ≤ 1` -/
theorem one_sub_mem_unit {y : α} (h0 : (0.0 : α) ≤ y) (h1 : y ≤ (1.0 : α)) :
    (0.0 : α) ≤ (1.0 : α) - y ∧ (1.0 : α) - y ≤ (1.0 : α) := by
  refine ⟨L.sub_nonneg_of_le' L.one_fin h1, ?_⟩
  have hz : (((1.0 : α) - (0.0 : α)) == (1.0 : α)) = true := L.exact.sub_zero _ L.one_nn
  have h2 : NN ((1.0 : α) - y) := L.sub_nn L.one_nn (L.le_nnr h0) (Or.inl L.one_fin)
  exact L.le_of_le_of_beq (L.mono.sub_le_sub_left _ _ _ h0 (L.beq_nnl hz) h2) hz

/-- full(∀α): `x ↦ 1 − x` is antitone on non-NaN values -/
theorem one_sub_anti {x y : α} (h : x ≤ y) : (1.0 : α) - y ≤ (1.0 : α) - x :=
  L.mono.sub_le_sub_left x y _ h (L.sub_nn L.one_nn (L.le_nnl h) (Or.inl L.one_fin))
    (L.sub_nn L.one_nn (L.le_nnr h) (Or.inl L.one_fin))

/-- full(∀α): `0 ≤ a`, `0 ≤ b`, one of them finite, product not NaN ⇒ `0 ≤ a · b` -/
theorem mul_nonneg {a b : α} (ha : (0.0 : α) ≤ a) (hb : (0.0 : α) ≤ b) (hf : Fin a ∨ Fin b)
    (hn : NN (a * b)) : (0.0 : α) ≤ a * b := by
  rcases hf with hf | hf
  · have hz : ((a * (0.0 : α)) == (0.0 : α)) = true := L.exact.mul_zero a hf
    exact L.le_of_beq_of_le (L.beq_symm hz) (L.mono.mul_le_mul_left _ _ a hb ha (L.beq_nnl hz) hn)
  · have hz : (((0.0 : α) * b) == (0.0 : α)) = true := L.exact.zero_mul b hf
    exact L.le_of_beq_of_le (L.beq_symm hz) (L.mono.mul_le_mul_right _ _ b ha hb (L.beq_nnl hz) hn)

/-- full(∀α): `0 ≤ a ≤ b`, `0 ≤ c ≤ d`, non-NaN products ⇒ `a · c ≤ b · d` -/
theorem mul_le_mul' {a b c d : α} (ha : (0.0 : α) ≤ a) (hab : a ≤ b) (hc : (0.0 : α) ≤ c) (hcd : c ≤ d)
    (h1 : NN (a * c)) (h2 : NN (b * c)) (h3 : NN (b * d)) : a * c ≤ b * d :=
  L.le_tr (L.mono.mul_le_mul_right a b c hab hc h1 h2)
    (L.mono.mul_le_mul_left c d b hcd (L.le_tr ha hab) h2 h3)

/-- full(∀α): an IEEE-zero is `≤` and `≥` zero -/
theorem neg_nonpos {a : α} (h : (0.0 : α) ≤ a) : -a ≤ (0.0 : α) :=
  L.le_of_le_of_beq (L.mono.neg_le_neg _ _ h) L.exact.neg_zero
/-- full(∀α): `a ≤ 0 ⇒ 0 ≤ −a` -/
theorem neg_nonneg {a : α} (h : a ≤ (0.0 : α)) : (0.0 : α) ≤ -a :=
  L.le_of_beq_of_le (L.beq_symm L.exact.neg_zero) (L.mono.neg_le_neg _ _ h)

/-- full(∀α): division by a positive divisor respects IEEE equality of the numerator -/
theorem div_congr_left {a a' c : α} (h : (a == a') = true) (hc : (0.0 : α) < c) (h1 : NN (a / c))
    (h2 : NN (a' / c)) : ((a / c) == (a' / c)) = true :=
  L.beq_of_le_le (L.mono.div_le_div_right _ _ c (L.beq_le h) hc h1 h2)
    (L.mono.div_le_div_right _ _ c (L.beq_ge h) hc h2 h1)

/-- full(∀α): `1 − x` respects IEEE equality -/
theorem one_sub_congr {x y : α} (h : (x == y) = true) : (((1.0 : α) - x) == ((1.0 : α) - y)) = true :=
  L.beq_of_le_le (L.one_sub_anti (L.beq_ge h)) (L.one_sub_anti (L.beq_le h))

/-! ### branch-guard helpers -/

/-- full(∀α): a non-NaN `x` that fails `x ≤ a` satisfies `a < x` -/
theorem gt_of_not_le {x a : α} (hx : NN x) (ha : NN a) (h : ¬ x ≤ a) : a < x := L.lt_of_not_le ha hx h

/-- full(∀α): the clamp `if 1 < y then 1 else y` of a non-NaN value is `≤ 1` -/
theorem le_one_of_not_gt {y : α} (hy : NN y) (h : ¬ (1.0 : α) < y) : y ≤ (1.0 : α) :=
  L.le_of_not_lt L.one_nn hy h

end Statrs.Spec.FloatLaws
