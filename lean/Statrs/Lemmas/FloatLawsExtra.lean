/-
  Statrs.Lemmas.FloatLawsExtra — laws of IEEE-754 binary64 (round-to-nearest-even, gradual underflow) that
  the closed-form range proofs need and that are NOT in `Statrs.Spec.FloatLaws`.

  Every field has been checked by hand against IEEE-754 for ±0, ±∞, NaN, overflow and subnormals; the
  comment after each field says why it is true there.  Theorems that use them take `(E : ExtraLaws α)`.
-/
import Statrs.Spec.FloatLaws
import Statrs.Lemmas.FloatLawsBasic
set_option linter.unusedSectionVars false
namespace Statrs.Spec
open Statrs

variable (α : Type) [Add α] [Sub α] [Mul α] [Div α] [Neg α] [LT α] [LE α] [BEq α]
  [OfScientific α] [RFun α]

/-- IEEE-754 facts missing from `FloatLaws` (all true for binary64, round-to-nearest-even). -/
structure ExtraLaws : Prop where
  /-- `a < b ⇒ 0 < fl(b − a)`.  With gradual underflow the exact difference of two distinct finite doubles
      is a non-zero multiple of `2^-1074`, hence at least `2^-1074` in magnitude, and rounding to nearest
      does not move it to zero (the classical "x − y = 0 iff x = y" property; it FAILS under flush-to-zero,
      which Rust/x86-64 does not enable).  Overflow gives `+∞ > 0`.  For infinite operands `b − a` is `+∞`
      (`a = −∞` or `b = +∞`; `∞ − ∞` is excluded by `NN`). -/
  sub_pos : ∀ a b : α, a < b → NN (b - a) → (0.0 : α) < b - a
  /-- A sum of two non-negative values is never NaN: the only invalid addition is `(+∞) + (−∞)`, and
      `0 ≤ a`, `0 ≤ b` excludes `−∞` (and NaN). -/
  add_nn_of_nonneg : ∀ a b : α, (0.0 : α) ≤ a → (0.0 : α) ≤ b → NN (a + b)
  /-- the infinite values are exactly the values IEEE-equal to `+∞` or `−∞` -/
  isInf_iff : ∀ a : α, RFun.isInf a = true ↔
    ((a == (RFun.inf : α)) = true ∨ (a == (RFun.negInf : α)) = true)
  /-- sign symmetry of correctly rounded multiplication (round-to-nearest-even is symmetric about 0):
      `(−a)·b = −(a·b)` and `a·(−b) = −(a·b)` bit for bit when the product is not NaN -/
  neg_mul : ∀ a b : α, NN (a * b) → (((-a) * b) == (-(a * b))) = true
  mul_neg : ∀ a b : α, NN (a * b) → ((a * (-b)) == (-(a * b))) = true
  /-- `(−a) + a = +0` for finite `a` (exact cancellation; `x − x = +0` in round-to-nearest) -/
  neg_add_self : ∀ a : α, Fin a → (((-a) + a) == (0.0 : α)) = true
  /-- a positive factor times `+∞` is `+∞` -/
  mul_inf_of_pos : ∀ a : α, (0.0 : α) < a → ((a * (RFun.inf : α)) == (RFun.inf : α)) = true
  /-- `−(+∞) = −∞` (sign flip is exact) -/
  neg_inf_eq : ((-(RFun.inf : α)) == (RFun.negInf : α)) = true
  /-- an infinite operand and a non-NaN difference give the matching infinite result -/
  inf_sub : ∀ b : α, NN ((RFun.inf : α) - b) → (((RFun.inf : α) - b) == (RFun.inf : α)) = true
  negInf_sub : ∀ b : α, NN ((RFun.negInf : α) - b) →
    (((RFun.negInf : α) - b) == (RFun.negInf : α)) = true
  /-- `(±∞) ÷ c = ±∞` for a positive finite `c` -/
  inf_div : ∀ c : α, (0.0 : α) < c → Fin c → (((RFun.inf : α) / c) == (RFun.inf : α)) = true
  negInf_div : ∀ c : α, (0.0 : α) < c → Fin c → (((RFun.negInf : α) / c) == (RFun.negInf : α)) = true
  /-- `|x|`: NaN only for NaN, IEEE-equal to `x` for `0 ≤ x` and to `−x` for `x ≤ 0` (`|−0| = +0 == −0`) -/
  abs_nan : ∀ a : α, RFun.isNaN (RFun.abs a) = RFun.isNaN a
  abs_of_nonneg : ∀ a : α, (0.0 : α) ≤ a → (RFun.abs a == a) = true
  abs_of_nonpos : ∀ a : α, a ≤ (0.0 : α) → (RFun.abs a == -a) = true
  /-- exact binary64 facts about the literals `0.5`, `1.0`, `2.0` (all representable, results exact) -/
  half_add_half : (((0.5 : α) + (0.5 : α)) == (1.0 : α)) = true
  one_div_two : (((1.0 : α) / (2.0 : α)) == (0.5 : α)) = true
  one_sub_half : (((1.0 : α) - (0.5 : α)) == (0.5 : α)) = true
  /-- the crate's constants `PI = 3.141592653589793`, `FRAC_PI_2 = 1.5707963267948966` are finite,
      `1 ≤ PI`, `1/PI = 0.3183098861837907` is finite, and
      `fl(fl(1/PI) · FRAC_PI_2) = 0.5` exactly (evaluated in binary64) -/
  pi_fin : Fin (RFun.pi : α)
  one_le_pi : (1.0 : α) ≤ (RFun.pi : α)
  inv_pi_fin : Fin ((1.0 : α) / (RFun.pi : α))
  fracPi2_fin : Fin (RFun.fracPi2 : α)
  inv_pi_mul_fracPi2 : ((((1.0 : α) / (RFun.pi : α)) * (RFun.fracPi2 : α)) == (0.5 : α)) = true

namespace ExtraLaws
variable {α}
variable (E : ExtraLaws α) (L : FloatLaws α)
include E L

/-- full(∀α): a finite value is strictly below `+∞` -/
theorem fin_lt_inf {a : α} (h : Fin a) : a < (RFun.inf : α) := by
  refine L.lt_of_le_not_le (L.le_inf (L.fin_nn' h)) (fun h' => ?_)
  have hb : (a == (RFun.inf : α)) = true := L.beq_of_le_le (L.le_inf (L.fin_nn' h)) h'
  have : RFun.isInf a = true := (E.isInf_iff _).2 (Or.inl hb)
  rw [L.fin_not_inf h] at this; exact Bool.noConfusion this

/-- full(∀α): a finite value is strictly above `−∞` -/
theorem negInf_lt_fin {a : α} (h : Fin a) : (RFun.negInf : α) < a := by
  refine L.lt_of_le_not_le (L.negInf_le (L.fin_nn' h)) (fun h' => ?_)
  have hb : (a == (RFun.negInf : α)) = true := L.beq_of_le_le h' (L.negInf_le (L.fin_nn' h))
  have : RFun.isInf a = true := (E.isInf_iff _).2 (Or.inr hb)
  rw [L.fin_not_inf h] at this; exact Bool.noConfusion this

/-- full(∀α): a non-NaN value between two finite values is finite -/
theorem fin_of_between {a x b : α} (ha : Fin a) (hb : Fin b) (h1 : a ≤ x) (h2 : x ≤ b) : Fin x := by
  apply L.fin_of (L.le_nnr h1)
  cases hi : RFun.isInf x with
  | false => rfl
  | true =>
    exfalso
    rcases (E.isInf_iff x).1 hi with h | h
    · exact L.lt_not_le (E.fin_lt_inf L hb) (L.le_tr (L.beq_ge h) h2)
    · exact L.lt_not_le (E.negInf_lt_fin L ha) (L.le_tr h1 (L.beq_le h))

end ExtraLaws
end Statrs.Spec
