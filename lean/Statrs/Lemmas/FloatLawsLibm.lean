/-
  Statrs.Lemmas.FloatLawsLibm — consequences of `LibmLaws` (assumed monotonicity/range of `exp`, `atan`, …)
  together with `FloatLaws`/`ExtraLaws`, used by the `…_libm` range theorems.
-/
import Statrs.Lemmas.FloatLawsBasic
import Statrs.Lemmas.FloatLawsExtra
set_option linter.unusedSectionVars false
namespace Statrs.Spec.LibmLaws
open Statrs Statrs.Spec

variable {α : Type} [Add α] [Sub α] [Mul α] [Div α] [Neg α] [LT α] [LE α] [BEq α]
  [OfScientific α] [RFun α] (M : LibmLaws α) (L : FloatLaws α) (E : ExtraLaws α)
include M L

/-- rel(LibmLaws): `exp` respects IEEE equality (monotone in both directions) -/
theorem exp_congr {a b : α} (h : (a == b) = true) : (RFun.exp a == RFun.exp b) = true :=
  L.beq_of_le_le (M.exp_mono _ _ (L.beq_le h)) (M.exp_mono _ _ (L.beq_ge h))

/-- rel(LibmLaws): `a ≤ 0 ⇒ 0 ≤ exp a ≤ 1` -/
theorem exp_mem_unit {a : α} (h : a ≤ (0.0 : α)) :
    (0.0 : α) ≤ RFun.exp a ∧ RFun.exp a ≤ (1.0 : α) :=
  ⟨M.exp_nonneg a (L.le_nnl h), L.le_of_le_of_beq (M.exp_mono _ _ h) M.exp_zero⟩

/-- rel(LibmLaws): `exp` of an IEEE-zero is IEEE-equal to `1` -/
theorem exp_of_beq_zero {a : α} (h : (a == (0.0 : α)) = true) : (RFun.exp a == (1.0 : α)) = true :=
  L.beq_tr (exp_congr M L h) M.exp_zero

/-- rel(LibmLaws): `exp` of a value IEEE-equal to `−∞` is IEEE-equal to `0` -/
theorem exp_of_beq_negInf {a : α} (h : (a == (RFun.negInf : α)) = true) :
    (RFun.exp a == (0.0 : α)) = true :=
  L.beq_tr (exp_congr M L h) M.exp_negInf

include E

/-- rel(LibmLaws): `a ≤ 0 ⇒ exp a` is finite -/
theorem exp_fin_of_nonpos {a : α} (h : a ≤ (0.0 : α)) : Fin (RFun.exp a) :=
  E.fin_of_between L L.zero_fin L.one_fin (exp_mem_unit M L h).1 (exp_mem_unit M L h).2

end Statrs.Spec.LibmLaws

namespace Statrs.Spec.ExtraLaws
open Statrs Statrs.Spec
variable {α : Type} [Add α] [Sub α] [Mul α] [Div α] [Neg α] [LT α] [LE α] [BEq α]
  [OfScientific α] [RFun α] (E : ExtraLaws α) (L : FloatLaws α)
include E L

omit E in
/-- full(∀α): the negation of a finite value is finite -/
theorem neg_fin {a : α} (h : Fin a) : Fin (-a) := by
  apply L.fin_of (L.neg_nn (L.fin_nn' h))
  rw [L.nan.neg_inf]; exact L.fin_not_inf h

omit E in
/-- full(∀α): negation respects IEEE equality -/
theorem neg_congr {a b : α} (h : (a == b) = true) : ((-a) == (-b)) = true :=
  L.beq_of_le_le (L.mono.neg_le_neg _ _ (L.beq_ge h)) (L.mono.neg_le_neg _ _ (L.beq_le h))

omit E in
/-- full(∀α): `0 < r ⇒ −r < 0` -/
theorem neg_neg_of_pos {r : α} (h : (0.0 : α) < r) : -r < (0.0 : α) := by
  refine L.lt_of_le_not_le (L.neg_nonpos (L.lt_le h)) (fun h' => ?_)
  -- `0 ≤ −r ⇒ −(−r) ≤ −0`, i.e. `r ≤ 0`
  have h1 := L.mono.neg_le_neg _ _ h'
  have h2 : r ≤ (0.0 : α) :=
    L.le_tr (L.beq_ge (L.exact.neg_neg r (L.lt_nnr h))) (L.le_of_le_of_beq h1 L.exact.neg_zero)
  exact L.lt_not_le h h2

/-- full(∀α): for a finite rate `0 < r` and `0 ≤ x` (also `x = +∞`): `(−r)·x` is not NaN, is `≤ 0`, and is
    IEEE-equal to `−(r·x)` -/
theorem neg_rate_mul {r x : α} (hr : (0.0 : α) < r) (hf : Fin r) (hx : (0.0 : α) ≤ x) :
    NN ((-r) * x) ∧ (-r) * x ≤ (0.0 : α) ∧ (((-r) * x) == (-(r * x))) = true ∧ (0.0 : α) ≤ r * x := by
  have hrx : NN (r * x) := L.mul_nn_of_fin_ne_zero hf (L.pos_not_beq_zero hr) (L.le_nnr hx)
  have h0 : (0.0 : α) ≤ r * x := L.mul_nonneg (L.lt_le hr) hx (Or.inl hf) hrx
  have hb := E.neg_mul r x hrx
  exact ⟨L.beq_nnl hb, L.le_of_beq_of_le hb (L.neg_nonpos h0), hb, h0⟩

/-- full(∀α): `x ↦ (−r)·x` is antitone on `0 ≤ x` for a finite rate `0 < r` -/
theorem neg_rate_mul_anti {r x y : α} (hr : (0.0 : α) < r) (hf : Fin r) (hx : (0.0 : α) ≤ x) (hxy : x ≤ y) :
    (-r) * y ≤ (-r) * x := by
  obtain ⟨_, _, bx, _⟩ := E.neg_rate_mul L hr hf hx
  obtain ⟨_, _, by', _⟩ := E.neg_rate_mul L hr hf (L.le_tr hx hxy)
  have hm : r * x ≤ r * y := L.mono.mul_le_mul_left _ _ r hxy (L.lt_le hr)
    (L.mul_nn_of_fin_ne_zero hf (L.pos_not_beq_zero hr) (L.le_nnl hxy))
    (L.mul_nn_of_fin_ne_zero hf (L.pos_not_beq_zero hr) (L.le_nnr hxy))
  exact L.le_of_beq_of_le by' (L.le_of_le_of_beq (L.mono.neg_le_neg _ _ hm) (L.beq_symm bx))

/-- full(∀α): an infinite value is not IEEE-zero -/
theorem inf_ne_zero {a : α} (h : RFun.isInf a = true) : ¬ (a == (0.0 : α)) = true := fun h0 => by
  rcases (E.isInf_iff a).1 h with h1 | h1
  · exact L.lt_not_le (E.fin_lt_inf L L.zero_fin) (L.le_tr (L.beq_ge h1) (L.beq_le h0))
  · exact L.lt_not_le (E.negInf_lt_fin L L.zero_fin) (L.le_tr (L.beq_ge h0) (L.beq_le h1))

/-- full(∀α): the square of a non-NaN value is not NaN and non-negative … only NaN-freeness here -/
theorem mul_self_nn {a : α} (h : NN a) : NN (a * a) := by
  apply (L.nn_iff _).2; intro hn
  rcases L.nan.mul_nan a a hn with h1 | h1 | ⟨h1, h2⟩ | ⟨h1, h2⟩
  · simp [NN, h1] at h
  · simp [NN, h1] at h
  · exact E.inf_ne_zero L h2 h1
  · exact E.inf_ne_zero L h1 h2

/-- full(∀α): `0 ≤ a ⇒ 0 ≤ a·a` (also for `a = +∞`) -/
theorem mul_self_nonneg_of_nonneg {a : α} (h : (0.0 : α) ≤ a) : (0.0 : α) ≤ a * a := by
  have hn := E.mul_self_nn L (L.le_nnr h)
  rcases L.ord.le_total a (1.0 : α) (L.le_nnr h) L.one_nn with h1 | h1
  · have hf : Fin a := E.fin_of_between L L.zero_fin L.one_fin h h1
    exact L.mul_nonneg h h (Or.inl hf) hn
  · have hb := L.exact.one_mul a (L.le_nnr h)
    exact L.le_tr h (L.le_of_beq_of_le (L.beq_symm hb)
      (L.mono.mul_le_mul_right _ _ a h1 h (L.beq_nnl hb) hn))

/-- full(∀α): `0 ≤ a·a` for every non-NaN `a` (also `±∞`) -/
theorem mul_self_nonneg {a : α} (h : NN a) : (0.0 : α) ≤ a * a := by
  rcases L.ord.le_total _ _ L.zero_nn h with h0 | h0
  · exact E.mul_self_nonneg_of_nonneg L h0
  · -- `a·a == (−a)·(−a)`
    have hn := E.mul_self_nn L h
    have hneg : (0.0 : α) ≤ -a := L.neg_nonneg h0
    have h1 := E.mul_self_nonneg_of_nonneg L hneg
    -- `(−a)·(−a) == −(a·(−a)) == −(−(a·a)) == a·a`
    have hna : NN (a * (-a)) := L.beq_nnl (E.mul_neg a a hn)
    have e1 := E.neg_mul a (-a) hna
    have e2 := ExtraLaws.neg_congr L (E.mul_neg a a hn)
    have e3 := L.exact.neg_neg (a * a) hn
    exact L.le_of_le_of_beq h1 (L.beq_tr e1 (L.beq_tr e2 e3))

end Statrs.Spec.ExtraLaws
