/-
  Statrs.Draft.Lemmas.FloatLawsMore — further consequences of `FloatLaws` + `ExtraLaws` used by the float-level
  statistics theorems (C13, C15, C20, C05): differences/quotients of non-positive values, sums with a signed
  increment, IEEE-equal values share their class, a non-NaN square is non-negative.
  Same conventions as `Statrs.Lemmas.FloatLawsBasic` (namespace `Statrs.Spec.FloatLaws`, dot notation on `L`).
-/
import Statrs.Lemmas.FloatLawsBasic
import Statrs.Lemmas.FloatLawsExtra
set_option linter.unusedSectionVars false
namespace Statrs.Spec.FloatLaws
open Statrs Statrs.Spec

variable {α : Type} [Add α] [Sub α] [Mul α] [Div α] [Neg α] [LT α] [LE α] [BEq α]
  [OfScientific α] [RFun α] (L : FloatLaws α)
include L

/-- full(∀α): `a ≤ b`, `b` finite ⇒ `a − b ≤ 0` -/
theorem sub_nonpos_of_le {a b : α} (hb : Fin b) (h : a ≤ b) : a - b ≤ (0.0 : α) := by
  have h1 : NN (b - b) := L.sub_nn (L.fin_nn' hb) (L.fin_nn' hb) (Or.inl hb)
  have h2 : NN (a - b) := L.sub_nn (L.le_nnl h) (L.fin_nn' hb) (Or.inr hb)
  exact L.le_of_le_of_beq (L.mono.sub_le_sub_right a b b h h2 h1) (L.exact.sub_self b hb)

/-- full(∀α): `a ≤ 0`, `0 < c`, one of them finite ⇒ `a / c ≤ 0` -/
theorem div_nonpos {a c : α} (ha : a ≤ (0.0 : α)) (hc : (0.0 : α) < c) (hf : Fin a ∨ Fin c) :
    a / c ≤ (0.0 : α) := by
  have hc0 := L.pos_not_beq_zero hc
  have hz : ((0.0 : α) / c == (0.0 : α)) = true := L.exact.zero_div c (L.lt_nnr hc) hc0
  have h2 : NN (a / c) := L.div_nn (L.le_nnl ha) (L.lt_nnr hc) hc0 hf
  exact L.le_of_le_of_beq (L.mono.div_le_div_right _ _ c ha hc h2 (L.beq_nnl hz)) hz

/-- full(∀α): `0 ≤ q`, `m` finite ⇒ `m ≤ m + q` -/
theorem le_add_of_nonneg {m q : α} (hm : Fin m) (hq : (0.0 : α) ≤ q) : m ≤ m + q := by
  have h0 : NN (m + (0.0 : α)) := L.add_nn (L.fin_nn' hm) L.zero_nn (Or.inl hm)
  have h1 : NN (m + q) := L.add_nn (L.fin_nn' hm) (L.le_nnr hq) (Or.inl hm)
  exact L.le_of_beq_of_le (L.beq_symm (L.exact.add_zero m (L.fin_nn' hm)))
    (L.mono.add_le_add_left _ _ m hq h0 h1)

/-- full(∀α): `q ≤ 0`, `m` finite ⇒ `m + q ≤ m` -/
theorem add_le_of_nonpos {m q : α} (hm : Fin m) (hq : q ≤ (0.0 : α)) : m + q ≤ m := by
  have h0 : NN (m + (0.0 : α)) := L.add_nn (L.fin_nn' hm) L.zero_nn (Or.inl hm)
  have h1 : NN (m + q) := L.add_nn (L.fin_nn' hm) (L.le_nnl hq) (Or.inl hm)
  exact L.le_of_le_of_beq (L.mono.add_le_add_left _ _ m hq h1 h0) (L.exact.add_zero m (L.fin_nn' hm))

/-- full(∀α): negation respects IEEE equality -/
theorem neg_congr {a b : α} (h : (a == b) = true) : ((-a) == (-b)) = true :=
  L.beq_of_le_le (L.mono.neg_le_neg _ _ (L.beq_ge h)) (L.mono.neg_le_neg _ _ (L.beq_le h))

/-- full(∀α): `0 ≤ 2`, `1 ≤ 2` -/
theorem one_le_two : (1.0 : α) ≤ 2.0 := L.lt_le L.lit.one_lt_two

section extra
variable (E : ExtraLaws α)
include E

/-- full(∀α): IEEE-equal values are both infinite or both not -/
theorem isInf_congr {a b : α} (h : (a == b) = true) : RFun.isInf a = RFun.isInf b := by
  have key : ∀ {a b : α}, (a == b) = true → RFun.isInf a = true → RFun.isInf b = true := by
    intro a b h ha
    rcases (E.isInf_iff a).1 ha with h1 | h1
    · exact (E.isInf_iff b).2 (Or.inl (L.beq_tr (L.beq_symm h) h1))
    · exact (E.isInf_iff b).2 (Or.inr (L.beq_tr (L.beq_symm h) h1))
  cases ha : RFun.isInf a with
  | true => exact (key h ha).symm
  | false =>
    cases hb : RFun.isInf b with
    | false => rfl
    | true => rw [key (L.beq_symm h) hb] at ha; cases ha

/-- full(∀α): a value IEEE-equal to a finite value is finite -/
theorem fin_congr {a b : α} (h : (a == b) = true) (hb : Fin b) : Fin a :=
  L.fin_of (L.beq_nnl h) (by rw [L.isInf_congr E h]; exact L.fin_not_inf hb)

/-- full(∀α): an infinite value is not IEEE-zero -/
theorem inf_not_beq_zero {a : α} (h : RFun.isInf a = true) : ¬ (a == (0.0 : α)) = true := fun h0 => by
  have := L.fin_not_inf (L.fin_congr E h0 L.zero_fin); rw [h] at this; cases this

/-- full(∀α): the product of two non-NaN values with the same "zero/infinite" class is not NaN; in particular
    a square of a non-NaN value -/
theorem sq_nn {d : α} (h : NN d) : NN (d * d) := by
  rw [L.nn_iff]; intro hn
  rcases L.nan.mul_nan d d hn with h1 | h1 | ⟨h1, h2⟩ | ⟨h1, h2⟩
  · simp [NN, h1] at h
  · simp [NN, h1] at h
  · exact L.inf_not_beq_zero E h2 h1
  · exact L.inf_not_beq_zero E h1 h2

/-- full(∀α): `0 ≤ d ⇒ 0 ≤ d · d` (also for `d = +∞`) -/
theorem sq_nonneg_of_nonneg {d : α} (h : (0.0 : α) ≤ d) : (0.0 : α) ≤ d * d := by
  have hn : NN (d * d) := L.sq_nn E (L.le_nnr h)
  cases hi : RFun.isInf d with
  | false => exact L.mul_nonneg h h (Or.inl (L.fin_of (L.le_nnr h) hi)) hn
  | true =>
    have hpos : (0.0 : α) < d := L.lt_of_le_not_le h (fun h' =>
      L.inf_not_beq_zero E hi (L.beq_of_le_le h' h))
    have hdi : (d == (RFun.inf : α)) = true := by
      rcases (E.isInf_iff d).1 hi with h1 | h1
      · exact h1
      · exfalso
        have h0 : ((0.0 : α) == (RFun.negInf : α)) = true :=
          L.beq_of_le_le (L.le_tr h (L.beq_le h1)) (L.negInf_le L.zero_nn)
        have := L.fin_not_inf L.zero_fin
        have hz : RFun.isInf (0.0 : α) = true := by
          rw [L.isInf_congr E h0]; exact L.inf.negInf_isInf
        rw [hz] at this; cases this
    have h1 : ((d * d) == (d * (RFun.inf : α))) = true :=
      L.exact.mul_congr d d d _ (L.beq_rfl' (L.le_nnr h)) hdi hn
    have h2 := L.beq_tr h1 (E.mul_inf_of_pos d hpos)
    exact L.le_of_le_of_beq (L.le_inf L.zero_nn) (L.beq_symm h2)

/-- full(∀α): a square of a non-NaN value is non-negative: `0 ≤ d · d` -/
theorem sq_nonneg {d : α} (h : NN d) : (0.0 : α) ≤ d * d := by
  rcases L.ord.le_total _ _ L.zero_nn h with h0 | h0
  · exact L.sq_nonneg_of_nonneg E h0
  · -- `d ≤ 0`: `d·d == (−d)·(−d)`
    have he : (0.0 : α) ≤ -d := L.neg_nonneg h0
    have hen : NN (-d) := L.le_nnr he
    have hdd : NN (d * d) := L.sq_nn E h
    have hee : NN ((-d) * (-d)) := L.sq_nn E hen
    have hde : NN (d * (-d)) := by
      rw [L.nn_iff]; intro hn
      rcases L.nan.mul_nan _ _ hn with h1 | h1 | ⟨h1, h2⟩ | ⟨h1, h2⟩
      · simp [NN, h1] at h
      · simp [NN, h1] at hen
      · rw [L.nan.neg_inf] at h2; exact L.inf_not_beq_zero E h2 h1
      · have hz : (d == (0.0 : α)) = true := by
          have := L.neg_congr h2
          exact L.beq_tr (L.beq_symm (L.exact.neg_neg d h)) (L.beq_tr this L.exact.neg_zero)
        exact L.inf_not_beq_zero E h1 hz
    -- (−d)·(−d) == −(d·(−d)) == −(−(d·d)) == d·d
    have s1 : (((-d) * (-d)) == (-(d * (-d)))) = true := E.neg_mul d (-d) hde
    have s2 : ((d * (-d)) == (-(d * d))) = true := E.mul_neg d d hdd
    have s3 : ((-(d * (-d))) == (-(-(d * d)))) = true := L.neg_congr s2
    have s4 : ((-(-(d * d))) == (d * d)) = true := L.exact.neg_neg _ hdd
    have hall : (((-d) * (-d)) == (d * d)) = true := L.beq_tr s1 (L.beq_tr s3 s4)
    exact L.le_of_le_of_beq (L.sq_nonneg_of_nonneg E he) hall

/-- full(∀α): an IEEE-zero is not infinite; a non-negative infinite value is IEEE-equal to `+∞` -/
theorem beq_inf_of_nonneg_inf {d : α} (h : (0.0 : α) ≤ d) (hi : RFun.isInf d = true) :
    (d == (RFun.inf : α)) = true := by
  rcases (E.isInf_iff d).1 hi with h1 | h1
  · exact h1
  · exfalso
    have h0 : ((0.0 : α) == (RFun.negInf : α)) = true :=
      L.beq_of_le_le (L.le_tr h (L.beq_le h1)) (L.negInf_le L.zero_nn)
    have hz : RFun.isInf (0.0 : α) = true := by
      rw [L.isInf_congr E h0]; exact L.inf.negInf_isInf
    have := L.fin_not_inf L.zero_fin (α := α); rw [hz] at this; cases this

/-- full(∀α): `0 ≤ a`, `0 ≤ b`, product not NaN ⇒ `0 ≤ a · b` (no finiteness needed: `∞·∞ = ∞`) -/
theorem mul_nonneg_gen {a b : α} (ha : (0.0 : α) ≤ a) (hb : (0.0 : α) ≤ b) (hn : NN (a * b)) :
    (0.0 : α) ≤ a * b := by
  cases hia : RFun.isInf a with
  | false => exact L.mul_nonneg ha hb (Or.inl (L.fin_of (L.le_nnr ha) hia)) hn
  | true =>
    cases hib : RFun.isInf b with
    | false => exact L.mul_nonneg ha hb (Or.inr (L.fin_of (L.le_nnr hb) hib)) hn
    | true =>
      have hpos : (0.0 : α) < a := L.lt_of_le_not_le ha (fun h' =>
        L.inf_not_beq_zero E hia (L.beq_of_le_le h' ha))
      have h1 : ((a * b) == (a * (RFun.inf : α))) = true :=
        L.exact.mul_congr a a b _ (L.beq_rfl' (L.le_nnr ha)) (L.beq_inf_of_nonneg_inf E hb hib) hn
      exact L.le_of_le_of_beq (L.le_inf L.zero_nn) (L.beq_symm (L.beq_tr h1 (E.mul_inf_of_pos a hpos)))

/-- full(∀α): `0 ≤ a`, `b ≤ 0`, product not NaN ⇒ `a · b ≤ 0` -/
theorem mul_nonneg_nonpos {a b : α} (ha : (0.0 : α) ≤ a) (hb : b ≤ (0.0 : α)) (hn : NN (a * b)) :
    a * b ≤ (0.0 : α) := by
  have h1 : ((a * (-b)) == (-(a * b))) = true := E.mul_neg a b hn
  have h2 : (0.0 : α) ≤ a * (-b) := L.mul_nonneg_gen E ha (L.neg_nonneg hb) (L.beq_nnl h1)
  have h3 : (0.0 : α) ≤ -(a * b) := L.le_of_le_of_beq h2 h1
  have h4 := L.neg_nonpos h3
  exact L.le_of_beq_of_le (L.beq_symm (L.exact.neg_neg _ hn)) h4

/-- full(∀α): `a ≤ 0`, `b ≤ 0`, product not NaN ⇒ `0 ≤ a · b` -/
theorem mul_nonpos_nonpos {a b : α} (ha : a ≤ (0.0 : α)) (hb : b ≤ (0.0 : α)) (hn : NN (a * b)) :
    (0.0 : α) ≤ a * b := by
  have h1 : (((-a) * b) == (-(a * b))) = true := E.neg_mul a b hn
  have h2 : (-a) * b ≤ (0.0 : α) := L.mul_nonneg_nonpos E (L.neg_nonneg ha) hb (L.beq_nnl h1)
  have h3 : -(a * b) ≤ (0.0 : α) := L.le_of_beq_of_le (L.beq_symm h1) h2
  have h4 := L.neg_nonneg h3
  exact L.le_of_le_of_beq h4 (L.exact.neg_neg _ hn)

end extra
end Statrs.Spec.FloatLaws
