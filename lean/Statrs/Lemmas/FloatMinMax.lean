/-
  Statrs.Draft.Lemmas.FloatMinMax — the order hypotheses of the C13 min/max theorems (`C13.LtLaws`) follow from
  `Statrs.Spec.FloatLaws`, and the resulting `≤`-form: for non-empty NaN-free data `IterStatistics.min/max` are
  entries of the data that bracket every entry.  Used by the float-level C13, C14, C15 files.
-/
import Statrs.Props.C13.MinMax
import Statrs.Lemmas.FloatLawsBasic
set_option linter.unusedSectionVars false
set_option linter.unusedVariables false
namespace Statrs.Lemmas.FloatMinMax
open Statrs Statrs.Gen Statrs.Spec Statrs.Props

variable {α : Type} [Add α] [Sub α] [Mul α] [Div α] [Neg α] [LT α] [LE α] [BEq α]
  [DecidableLT α] [DecidableLE α] [OfScientific α] [Inhabited α] [RFun α] (L : FloatLaws α)
include L

/-- full(∀α): IEEE `<` is asymmetric and negatively transitive on non-NaN values -/
theorem ltLaws_of_floatLaws : C13.LtLaws α where
  asymm := fun a b h h' => L.lt_not_le h (L.lt_le h')
  negTrans := fun a b c ha hb hc h1 h2 h3 =>
    L.lt_not_le h3 (L.le_tr (L.le_of_not_lt hb hc h2) (L.le_of_not_lt ha hb h1))

/-- full(∀α): for non-empty NaN-free data `min`, `max` are entries and bracket every entry -/
theorem min_max_bracket_fl (l : List α) (hne : l ≠ []) (hnn : ∀ x ∈ l, NN x) :
    IterStatistics.min l ∈ l ∧ IterStatistics.max l ∈ l ∧
    ∀ x ∈ l, IterStatistics.min l ≤ x ∧ x ≤ IterStatistics.max l := by
  obtain ⟨m1, m2⟩ := C13.min_exact (ltLaws_of_floatLaws L) l hne hnn
  obtain ⟨M1, M2⟩ := C13.max_exact (ltLaws_of_floatLaws L) l hne hnn
  exact ⟨m1, M1, fun x hx => ⟨L.le_of_not_lt (hnn x hx) (hnn _ m1) (m2 x hx),
    L.le_of_not_lt (hnn _ M1) (hnn x hx) (M2 x hx)⟩⟩

end Statrs.Lemmas.FloatMinMax
