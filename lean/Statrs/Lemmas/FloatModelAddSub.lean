/-
  Statrs.Lemmas.FloatModelAddSub — binary64 `add`/`sub` of the model:
    * `uadd_rounds`/`usub_rounds` : on canonical finite-or-zero operands the result is the rounding
      (`Rounds`) of the exact real sum/difference; results are always canonical (`canon_uadd`);
    * `usub_eq_uadd_neg` : `a - b` is literally `a + (-b)` on the unpacked level;
    * `U_add`, `U_sub` in closed form (`fin64 (add …)`), behaviour on ∞/NaN, and monotonicity
      `uadd_mono_right/left` on the unpacked level.
-/
import Statrs.Lemmas.FloatModelOrder
namespace Statrs.Lemmas.FloatModel
open Float.Model
open Float.Model.UnpackedFloat

/-- full(Float.Model): `Sign.apply` as multiplication by ±1 over ℝ -/
theorem apply_cast (s : Sign) (n : ℕ) : ((s.apply (n : ℤ) : ℤ) : ℝ) = sgn s * (n : ℝ) := by
  cases s <;> simp [Sign.apply, sgn]

/-- full(Float.Model): `decreaseExponent` to a smaller exponent keeps the dyadic value -/
theorem decExp_val (m : ℕ) (e t : ℤ) (h : t ≤ e) :
    (((decreaseExponent m e t).1 : ℕ) : ℝ) * (2 : ℝ) ^ t = (m : ℝ) * (2 : ℝ) ^ e := by
  unfold decreaseExponent
  simp only [Nat.shiftLeft_eq]
  obtain ⟨k, rfl⟩ : ∃ k : ℕ, e = t + k := ⟨(e - t).toNat, by omega⟩
  have : (t + (k : ℤ) - t).toNat = k := by omega
  rw [this, zpow_add_nat]; push_cast; ring

/-- full(Float.Model): finite + finite is the rounding of the exact real sum -/
theorem uadd_ff (s₁ s₂ : Sign) (m₁ m₂ : ℕ) (e₁ e₂ : ℤ) (h₁ : 0 < m₁) (h₂ : 0 < m₂) :
    Rounds (val (.finite s₁ m₁ e₁ h₁) + val (.finite s₂ m₂ e₂ h₂))
      (UnpackedFloat.add .binary64 (.finite s₁ m₁ e₁ h₁) (.finite s₂ m₂ e₂ h₂)) := by
  simp only [UnpackedFloat.add]
  have := normalize_rounds (s₁.apply ((decreaseExponent m₁ e₁ (min e₁ e₂)).1 : ℤ) + s₂.apply ((decreaseExponent m₂ e₂ (min e₁ e₂)).1 : ℤ)) (min e₁ e₂) .positive
  convert this using 1
  push_cast
  rw [apply_cast, apply_cast, add_mul, mul_assoc, mul_assoc, decExp_val _ _ _ (min_le_left _ _),
    decExp_val _ _ _ (min_le_right _ _)]
  rfl

/-- full(Float.Model): finite − finite is the rounding of the exact real difference -/
theorem usub_ff (s₁ s₂ : Sign) (m₁ m₂ : ℕ) (e₁ e₂ : ℤ) (h₁ : 0 < m₁) (h₂ : 0 < m₂) :
    Rounds (val (.finite s₁ m₁ e₁ h₁) - val (.finite s₂ m₂ e₂ h₂))
      (UnpackedFloat.sub .binary64 (.finite s₁ m₁ e₁ h₁) (.finite s₂ m₂ e₂ h₂)) := by
  simp only [UnpackedFloat.sub]
  have := normalize_rounds (s₁.apply ((decreaseExponent m₁ e₁ (min e₁ e₂)).1 : ℤ) - s₂.apply ((decreaseExponent m₂ e₂ (min e₁ e₂)).1 : ℤ)) (min e₁ e₂) .positive
  convert this using 1
  push_cast
  rw [apply_cast, apply_cast, sub_mul, mul_assoc, mul_assoc, decExp_val _ _ _ (min_le_left _ _),
    decExp_val _ _ _ (min_le_right _ _)]
  rfl

/-- full(Float.Model): the sum of canonical finite-or-zero floats is the rounding of the real sum -/
theorem uadd_rounds {a b : UF} (ha : FZ a) (hb : FZ b) (ca : Canon a) (cb : Canon b) :
    Rounds (val a + val b) (UnpackedFloat.add .binary64 a b) := by
  rcases a with s | _ | s | ⟨s, m, e, hm⟩ <;> simp only [FZ] at ha <;>
  rcases b with s' | _ | s' | ⟨s', m', e', hm'⟩ <;> simp only [FZ] at hb
  · simp only [UnpackedFloat.add, val_zero, add_zero]
    split_ifs <;> exact Rounds.zero _
  · simp only [UnpackedFloat.add, val_zero, zero_add]
    exact Rounds.self trivial cb
  · simp only [UnpackedFloat.add, val_zero, add_zero]
    exact Rounds.self trivial ca
  · exact uadd_ff ..

/-- full(Float.Model): flipping the sign field negates the value -/
theorem val_neg_sign (s : Sign) (m : ℕ) (e : ℤ) (hm : 0 < m) :
    val (.finite (-s) m e hm) = - val (.finite s m e hm) := by
  cases s
  · show val (.finite .positive m e hm) = _
    simp [val, sgn]
  · show val (.finite .negative m e hm) = _
    simp [val, sgn]

/-- full(Float.Model): the difference of canonical finite-or-zero floats is the rounding of the real difference -/
theorem usub_rounds {a b : UF} (ha : FZ a) (hb : FZ b) (ca : Canon a) (cb : Canon b) :
    Rounds (val a - val b) (UnpackedFloat.sub .binary64 a b) := by
  rcases a with s | _ | s | ⟨s, m, e, hm⟩ <;> simp only [FZ] at ha <;>
  rcases b with s' | _ | s' | ⟨s', m', e', hm'⟩ <;> simp only [FZ] at hb
  · simp only [UnpackedFloat.sub, val_zero, sub_zero]
    split_ifs <;> exact Rounds.zero _
  · simp only [UnpackedFloat.sub, val_zero, zero_sub]
    rw [← val_neg_sign]
    exact Rounds.self trivial (by simpa [Canon] using cb)
  · simp only [UnpackedFloat.sub, val_zero, sub_zero]
    exact Rounds.self trivial ca
  · exact usub_ff ..

/-- full(Float.Model): sums of canonical operands are canonical -/
theorem canon_uadd {a b : UF} (ca : Canon a) (cb : Canon b) : Canon (UnpackedFloat.add .binary64 a b) := by
  rcases a with s | _ | s | ⟨s, m, e, hm⟩ <;> rcases b with s' | _ | s' | ⟨s', m', e', hm'⟩ <;>
    first
    | exact (uadd_ff ..).2.1
    | (simp only [UnpackedFloat.add]; first | exact ca | exact cb | ((try split_ifs) <;> trivial))

/-- full(Float.Model): differences of canonical operands are canonical -/
theorem canon_usub {a b : UF} (ca : Canon a) (cb : Canon b) : Canon (UnpackedFloat.sub .binary64 a b) := by
  rcases a with s | _ | s | ⟨s, m, e, hm⟩ <;> rcases b with s' | _ | s' | ⟨s', m', e', hm'⟩ <;>
    first
    | exact (usub_ff ..).2.1
    | (simp only [UnpackedFloat.sub]; first | exact ca | exact cb | ((try split_ifs) <;> trivial))

/-- full(Float.Model): `Sign.apply` of the opposite sign is the negation -/
theorem apply_neg (s : Sign) (n : ℤ) : (-s).apply n = -(s.apply n) := by
  cases s
  · show n = - -n; omega
  · rfl

/-- full(Float.Model): subtraction is addition of the negation, exactly -/
theorem usub_eq_uadd_neg (a b : UF) :
    UnpackedFloat.sub .binary64 a b = UnpackedFloat.add .binary64 a b.neg := by
  rcases a with s | _ | s | ⟨s, m, e, hm⟩ <;> rcases b with s' | _ | s' | ⟨s', m', e', hm'⟩ <;>
    simp only [UnpackedFloat.sub, UnpackedFloat.add, UnpackedFloat.neg]
  congr 1
  rw [apply_neg]; omega

/-! ### closed forms on `Float` -/

/-- full(Float): `a + b` unpacks to the overflow-clamped model sum of the unpacked operands -/
theorem U_add' (a b : Float) : U (a + b) = fin64 (UnpackedFloat.add .binary64 (U a) (U b)) := by
  rw [U_add, unpack_pack _ (canon_uadd (canon_U a) (canon_U b))]

/-- full(Float): `a - b` unpacks to the overflow-clamped model difference of the unpacked operands -/
theorem U_sub' (a b : Float) : U (a - b) = fin64 (UnpackedFloat.sub .binary64 (U a) (U b)) := by
  rw [U_sub, unpack_pack _ (canon_usub (canon_U a) (canon_U b))]

/-- full(Float): `a - b` and `a + (-b)` have the same unpacked view -/
theorem U_sub_eq (a b : Float) : U (a - b) = U (a + -b) := by
  rw [U_sub', U_add', U_neg, usub_eq_uadd_neg]

/-! ### classification and the infinite cases -/

/-- full(Float.Model): an unpacked float is NaN, an infinity, or finite-or-zero -/
theorem cls (u : UF) : u = .notANumber ∨ (∃ s, u = .infinity s) ∨ FZ u := by
  rcases u with s | _ | s | ⟨s, m, e, hm⟩
  · exact Or.inr (Or.inl ⟨s, rfl⟩)
  · exact Or.inl rfl
  · exact Or.inr (Or.inr trivial)
  · exact Or.inr (Or.inr trivial)

/-- full(Float.Model): NaN + x = NaN -/
theorem uadd_nan_left (x : UF) : UnpackedFloat.add .binary64 .notANumber x = .notANumber := by
  cases x <;> rfl
/-- full(Float.Model): x + NaN = NaN -/
theorem uadd_nan_right (x : UF) : UnpackedFloat.add .binary64 x .notANumber = .notANumber := by
  cases x <;> rfl
/-- full(Float.Model): ∞ + finite-or-zero = that ∞ -/
theorem uadd_inf_fz (s : Sign) {x : UF} (h : FZ x) :
    UnpackedFloat.add .binary64 (.infinity s) x = .infinity s := by
  cases x <;> first | rfl | exact absurd h (by simp [FZ])
/-- full(Float.Model): finite-or-zero + ∞ = that ∞ -/
theorem uadd_fz_inf (s : Sign) {x : UF} (h : FZ x) :
    UnpackedFloat.add .binary64 x (.infinity s) = .infinity s := by
  cases x <;> first | rfl | exact absurd h (by simp [FZ])

/-- full(Float.Model): a non-NaN sum with an infinite right operand is that infinity -/
theorem uadd_inf_right {a : UF} {s : Sign}
    (h : (UnpackedFloat.add .binary64 a (.infinity s)).isNaN = false) :
    UnpackedFloat.add .binary64 a (.infinity s) = .infinity s := by
  rcases a with s' | _ | s' | ⟨s', m, e, hm⟩
  · cases s <;> cases s' <;> first | rfl | (exact absurd h (by decide))
  · exact absurd h (by simp [UnpackedFloat.add, UnpackedFloat.isNaN])
  · rfl
  · rfl

/-- full(Float.Model): a non-NaN sum with an infinite left operand is that infinity -/
theorem uadd_inf_left {a : UF} {s : Sign}
    (h : (UnpackedFloat.add .binary64 (.infinity s) a).isNaN = false) :
    UnpackedFloat.add .binary64 (.infinity s) a = .infinity s := by
  rcases a with s' | _ | s' | ⟨s', m, e, hm⟩
  · cases s <;> cases s' <;> first | rfl | (exact absurd h (by decide))
  · exact absurd h (by simp [UnpackedFloat.add, UnpackedFloat.isNaN])
  · rfl
  · rfl

/-- full(Float.Model): only +∞ is ≥ +∞ -/
theorem inf_pos_le {b : UF} (h : (UnpackedFloat.infinity .positive).le b = true) :
    b = .infinity .positive := by
  have hn := le_nn h
  rw [le_iff_key _ _ hn.1 hn.2] at h
  rcases b with s' | _ | s' | ⟨s', m', e', hm'⟩ <;> (try cases s') <;>
    simp_all [key, kle, UnpackedFloat.isNaN]

/-- full(Float.Model): only −∞ is ≤ −∞ -/
theorem le_inf_neg {a : UF} (h : a.le (UnpackedFloat.infinity .negative) = true) :
    a = .infinity .negative := by
  have hn := le_nn h
  rw [le_iff_key _ _ hn.1 hn.2] at h
  rcases a with s' | _ | s' | ⟨s', m', e', hm'⟩ <;> (try cases s') <;>
    simp_all [key, kle, UnpackedFloat.isNaN]

/-- full(Float.Model): roundings of ordered reals are ordered by IEEE `≤` -/
theorem rounds_le {x y : ℝ} {u v : UF} (h : Rounds x u) (h' : Rounds y v) (hxy : x ≤ y) :
    u.le v = true :=
  (le_iff_val h.1 h'.1 h.2.1 h'.2.1).2 (h.mono h' hxy)

/-- full(Float.Model): `+` is monotone in the left operand (unpacked level) -/
theorem uadd_mono_right {a b c : UF} (ca : Canon a) (cb : Canon b) (cc : Canon c) (h : a.le b = true)
    (n1 : (UnpackedFloat.add .binary64 a c).isNaN = false)
    (n2 : (UnpackedFloat.add .binary64 b c).isNaN = false) :
    (UnpackedFloat.add .binary64 a c).le (UnpackedFloat.add .binary64 b c) = true := by
  rcases cls c with rfl | ⟨s, rfl⟩ | hc
  · rw [uadd_nan_right] at n1; exact absurd n1 (by decide)
  · rw [uadd_inf_right n1, uadd_inf_right n2]; exact ule_refl _ rfl
  · rcases cls a with rfl | ⟨sa, rfl⟩ | ha
    · exact absurd (le_nn h).1 (by decide)
    · cases sa
      · rw [uadd_inf_fz _ hc]; exact neg_inf_ule _ n2
      · have := inf_pos_le h; subst this; exact ule_refl _ n2
    · rcases cls b with rfl | ⟨sb, rfl⟩ | hb
      · exact absurd (le_nn h).2 (by decide)
      · cases sb
        · have := le_inf_neg h; subst this; exact absurd ha (by simp [FZ])
        · rw [uadd_inf_fz _ hc]; exact ule_inf _ n1
      · exact rounds_le (uadd_rounds ha hc ca cc) (uadd_rounds hb hc cb cc)
          (by have := (le_iff_val ha hb ca cb).1 h; linarith)

/-- full(Float.Model): `+` is monotone in the right operand (unpacked level) -/
theorem uadd_mono_left {a b c : UF} (ca : Canon a) (cb : Canon b) (cc : Canon c) (h : a.le b = true)
    (n1 : (UnpackedFloat.add .binary64 c a).isNaN = false)
    (n2 : (UnpackedFloat.add .binary64 c b).isNaN = false) :
    (UnpackedFloat.add .binary64 c a).le (UnpackedFloat.add .binary64 c b) = true := by
  rcases cls c with rfl | ⟨s, rfl⟩ | hc
  · rw [uadd_nan_left] at n1; exact absurd n1 (by decide)
  · rw [uadd_inf_left n1, uadd_inf_left n2]; exact ule_refl _ rfl
  · rcases cls a with rfl | ⟨sa, rfl⟩ | ha
    · exact absurd (le_nn h).1 (by decide)
    · cases sa
      · rw [uadd_fz_inf _ hc]; exact neg_inf_ule _ n2
      · have := inf_pos_le h; subst this; exact ule_refl _ n2
    · rcases cls b with rfl | ⟨sb, rfl⟩ | hb
      · exact absurd (le_nn h).2 (by decide)
      · cases sb
        · have := le_inf_neg h; subst this; exact absurd ha (by simp [FZ])
        · rw [uadd_fz_inf _ hc]; exact ule_inf _ n1
      · exact rounds_le (uadd_rounds hc ha cc ca) (uadd_rounds hc hb cc cb)
          (by have := (le_iff_val ha hb ca cb).1 h; linarith)

end Statrs.Lemmas.FloatModel
