/-
  Statrs.Lemmas.FloatModelBasic — first layer of lemmas about Lean's kernel-visible IEEE model
  `Float.Model` / `UnpackedFloat` (core has none):
    * `U a` : the unpacked view of a `Float`; `≤ < == isNaN isInf isFinite` on `Float` as statements
      about `U a`;
    * `key` : an order-embedding of the non-NaN unpacked floats into `ℤ × ℤ × ℤ` (lexicographic), with
      `UnpackedFloat.le/lt/beq` characterised through it (`le_iff_key`, `lt_iff_key`, `beq_iff_key`);
    * the derived order facts on unpacked floats (`ule_refl`, `ule_trans`, `ule_total`, …).
  All statements hold for arbitrary (also non-canonical) unpacked floats.
-/
import Mathlib.Tactic
import Statrs.Inst.Float
namespace Statrs.Lemmas.FloatModel
open Statrs
open Float.Model
open Float.Model.UnpackedFloat (Sign)

/-- unpacked floats -/
abbrev UF := UnpackedFloat

deriving instance DecidableEq for Sign
deriving instance DecidableEq for UnpackedFloat

/-- the unpacked view of a `Float` -/
def U (a : Float) : UF := a.toModel.unpack

/-! ### `Float` predicates and comparisons in terms of `U` -/

/-- full(Float): `≤` on `Float` is `UnpackedFloat.le` of the unpacked views -/
theorem le_def (a b : Float) : a ≤ b ↔ (U a).le (U b) = true := by
  show a.le b = true ↔ _
  simp only [Float.le]
  rw [decide_eq_true_iff]
  rfl

/-- full(Float): `<` on `Float` is `UnpackedFloat.lt` of the unpacked views -/
theorem lt_def (a b : Float) : a < b ↔ (U a).lt (U b) = true := by
  show a.lt b = true ↔ _
  simp only [Float.lt]
  rw [decide_eq_true_iff]
  rfl

/-- full(Float): `==` on `Float` is `UnpackedFloat.beq` of the unpacked views -/
theorem beq_def (a b : Float) : (a == b) = (U a).beq (U b) := rfl

/-- full(Float): `isNaN` on `Float` is `isNaN` of the unpacked view -/
theorem isNaN_def (a : Float) : (RFun.isNaN a : Bool) = (U a).isNaN := rfl
/-- full(Float): `isInf` on `Float` is `isInf` of the unpacked view -/
theorem isInf_def (a : Float) : (RFun.isInf a : Bool) = (U a).isInf := rfl
/-- full(Float): `isFinite` on `Float` is `isFinite` of the unpacked view -/
theorem isFinite_def (a : Float) : (RFun.isFinite a : Bool) = (U a).isFinite := rfl

/-! ### the order key -/

/-- order key of a non-NaN unpacked float: class (−∞, negative, zero, positive, +∞), then exponent,
    then mantissa (both negated for negative numbers) -/
def key : UF → ℤ × ℤ × ℤ
  | .notANumber => (0, 0, 0)
  | .infinity .negative => (-2, 0, 0)
  | .infinity .positive => (2, 0, 0)
  | .zero _ => (0, 0, 0)
  | .finite .negative m e _ => (-1, -e, -(m : ℤ))
  | .finite .positive m e _ => (1, e, (m : ℤ))

/-- lexicographic `≤` on keys (spelled out so that `omega` applies) -/
def kle (a b : ℤ × ℤ × ℤ) : Prop :=
  a.1 < b.1 ∨ (a.1 = b.1 ∧ (a.2.1 < b.2.1 ∨ (a.2.1 = b.2.1 ∧ a.2.2 ≤ b.2.2)))
/-- lexicographic `<` on keys -/
def klt (a b : ℤ × ℤ × ℤ) : Prop :=
  a.1 < b.1 ∨ (a.1 = b.1 ∧ (a.2.1 < b.2.1 ∨ (a.2.1 = b.2.1 ∧ a.2.2 < b.2.2)))

/-- full(ℤ): lexicographic `≤` on keys is reflexive -/
theorem kle_refl (a) : kle a a := by unfold kle; omega
/-- full(ℤ): lexicographic `≤` on keys is transitive -/
theorem kle_trans {a b c} : kle a b → kle b c → kle a c := by unfold kle; omega
/-- full(ℤ): lexicographic `≤` on keys is total -/
theorem kle_total (a b) : kle a b ∨ kle b a := by unfold kle; omega
/-- full(ℤ): `klt` is the strict part of `kle` -/
theorem klt_iff {a b} : klt a b ↔ kle a b ∧ ¬ kle b a := by unfold kle klt; omega
/-- full(ℤ): key equality is mutual `kle` -/
theorem keq_iff {a b : ℤ × ℤ × ℤ} : a = b ↔ kle a b ∧ kle b a := by
  obtain ⟨a1, a2, a3⟩ := a; obtain ⟨b1, b2, b3⟩ := b
  simp only [Prod.mk.injEq, kle]; omega

/-- full(Float.Model): on non-NaN unpacked floats `le` is `kle` of the keys -/
theorem le_iff_key (u v : UF) (hu : u.isNaN = false) (hv : v.isNaN = false) :
    u.le v = true ↔ kle (key u) (key v) := by
  unfold UnpackedFloat.le kle
  rcases u with s | _ | s | ⟨s, m, e, h⟩ <;> rcases v with s' | _ | s' | ⟨s', m', e', h'⟩ <;>
    (try cases s) <;> (try cases s') <;>
    simp [UnpackedFloat.isNaN] at hu hv <;>
    simp [UnpackedFloat.compare, key, compare, compareOfLessAndEq] <;>
    split_ifs <;> simp [Ordering.then] <;> omega

/-- full(Float.Model): on non-NaN unpacked floats `lt` is `klt` of the keys -/
theorem lt_iff_key (u v : UF) (hu : u.isNaN = false) (hv : v.isNaN = false) :
    u.lt v = true ↔ klt (key u) (key v) := by
  unfold UnpackedFloat.lt klt
  rcases u with s | _ | s | ⟨s, m, e, h⟩ <;> rcases v with s' | _ | s' | ⟨s', m', e', h'⟩ <;>
    (try cases s) <;> (try cases s') <;>
    simp [UnpackedFloat.isNaN] at hu hv <;>
    simp [UnpackedFloat.compare, key, compare, compareOfLessAndEq] <;>
    split_ifs <;> simp [Ordering.then] <;> omega

/-- full(Float.Model): on non-NaN unpacked floats `beq` is equality of the keys -/
theorem beq_iff_key (u v : UF) (hu : u.isNaN = false) (hv : v.isNaN = false) :
    u.beq v = true ↔ key u = key v := by
  unfold UnpackedFloat.beq
  rcases u with s | _ | s | ⟨s, m, e, h⟩ <;> rcases v with s' | _ | s' | ⟨s', m', e', h'⟩ <;>
    (try cases s) <;> (try cases s') <;>
    simp [UnpackedFloat.isNaN] at hu hv <;>
    simp [UnpackedFloat.compare, key, compare, compareOfLessAndEq] <;>
    split_ifs <;> simp <;> omega

/-! ### comparisons with a NaN are false -/

/-- full(Float.Model): comparing NaN with anything gives `none` -/
theorem compare_nan_left (b : UF) : UnpackedFloat.compare .notANumber b = none := by
  cases b <;> rfl
/-- full(Float.Model): comparing anything with NaN gives `none` -/
theorem compare_nan_right (a : UF) : UnpackedFloat.compare a .notANumber = none := by
  rcases a with s | _ | s | ⟨s, m, e, h⟩ <;> (try cases s) <;> rfl

/-- full(Float.Model): `isNaN u` means `u = notANumber` -/
theorem isNaN_eq_true {u : UF} (h : u.isNaN = true) : u = .notANumber := by
  cases u <;> simp_all [UnpackedFloat.isNaN]

/-- full(Float.Model): operands of a true `le` are not NaN -/
theorem le_nn {u v : UF} (h : u.le v = true) : u.isNaN = false ∧ v.isNaN = false := by
  constructor
  · cases hu : u.isNaN
    · rfl
    · rw [isNaN_eq_true hu] at h; simp [UnpackedFloat.le, compare_nan_left] at h
  · cases hv : v.isNaN
    · rfl
    · rw [isNaN_eq_true hv] at h; simp [UnpackedFloat.le, compare_nan_right] at h

/-- full(Float.Model): operands of a true `lt` are not NaN -/
theorem lt_nn {u v : UF} (h : u.lt v = true) : u.isNaN = false ∧ v.isNaN = false := by
  constructor
  · cases hu : u.isNaN
    · rfl
    · rw [isNaN_eq_true hu] at h; simp [UnpackedFloat.lt, compare_nan_left] at h
  · cases hv : v.isNaN
    · rfl
    · rw [isNaN_eq_true hv] at h; simp [UnpackedFloat.lt, compare_nan_right] at h

/-- full(Float.Model): operands of a true `beq` are not NaN -/
theorem beq_nn {u v : UF} (h : u.beq v = true) : u.isNaN = false ∧ v.isNaN = false := by
  constructor
  · cases hu : u.isNaN
    · rfl
    · rw [isNaN_eq_true hu] at h; simp [UnpackedFloat.beq, compare_nan_left] at h
  · cases hv : v.isNaN
    · rfl
    · rw [isNaN_eq_true hv] at h; simp [UnpackedFloat.beq, compare_nan_right] at h

/-! ### the order facts on unpacked floats -/

/-- full(Float.Model): `le` is reflexive on non-NaN values -/
theorem ule_refl (u : UF) (h : u.isNaN = false) : u.le u = true :=
  (le_iff_key u u h h).2 (kle_refl _)

/-- full(Float.Model): `le` is transitive -/
theorem ule_trans {u v w : UF} (h1 : u.le v = true) (h2 : v.le w = true) : u.le w = true := by
  have a := le_nn h1; have b := le_nn h2
  rw [le_iff_key _ _ a.1 a.2] at h1; rw [le_iff_key _ _ b.1 b.2] at h2
  exact (le_iff_key _ _ a.1 b.2).2 (kle_trans h1 h2)

/-- full(Float.Model): `le` is total on non-NaN values -/
theorem ule_total (u v : UF) (hu : u.isNaN = false) (hv : v.isNaN = false) :
    u.le v = true ∨ v.le u = true := by
  rw [le_iff_key _ _ hu hv, le_iff_key _ _ hv hu]; exact kle_total _ _

/-- full(Float.Model): `lt` is the strict part of `le` -/
theorem ult_iff (u v : UF) : u.lt v = true ↔ (u.le v = true ∧ ¬ v.le u = true) := by
  constructor
  · intro h
    have a := lt_nn h
    rw [lt_iff_key _ _ a.1 a.2, klt_iff] at h
    rwa [le_iff_key _ _ a.1 a.2, le_iff_key _ _ a.2 a.1]
  · rintro ⟨h1, h2⟩
    have a := le_nn h1
    rw [le_iff_key _ _ a.1 a.2] at h1; rw [le_iff_key _ _ a.2 a.1] at h2
    exact (lt_iff_key _ _ a.1 a.2).2 (klt_iff.2 ⟨h1, h2⟩)

/-- full(Float.Model): `beq` is mutual `le` -/
theorem ubeq_iff (u v : UF) : u.beq v = true ↔ (u.le v = true ∧ v.le u = true) := by
  constructor
  · intro h
    have a := beq_nn h
    rw [beq_iff_key _ _ a.1 a.2, keq_iff] at h
    rwa [le_iff_key _ _ a.1 a.2, le_iff_key _ _ a.2 a.1]
  · rintro ⟨h1, h2⟩
    have a := le_nn h1
    rw [le_iff_key _ _ a.1 a.2] at h1; rw [le_iff_key _ _ a.2 a.1] at h2
    exact (beq_iff_key _ _ a.1 a.2).2 (keq_iff.2 ⟨h1, h2⟩)

/-- full(Float.Model): `lt` implies `le` -/
theorem ult_le {u v : UF} (h : u.lt v = true) : u.le v = true := ((ult_iff u v).1 h).1

/-- full(Float.Model): `¬ v ≤ u` for non-NaN values is `u < v` -/
theorem ult_of_not_le {u v : UF} (hu : u.isNaN = false) (hv : v.isNaN = false)
    (h : ¬ v.le u = true) : u.lt v = true := by
  rcases ule_total u v hu hv with h1 | h1
  · exact (ult_iff u v).2 ⟨h1, h⟩
  · exact absurd h1 h

/-- full(Float.Model): finite ⇔ neither NaN nor infinite -/
theorem isFinite_iff (u : UF) : u.isFinite = true ↔ (u.isNaN = false ∧ u.isInf = false) := by
  cases u <;> simp [UnpackedFloat.isFinite, UnpackedFloat.isNaN, UnpackedFloat.isInf]

/-- full(Float.Model): +∞ is the top of the non-NaN values -/
theorem ule_inf (u : UF) (h : u.isNaN = false) : u.le (.infinity .positive) = true := by
  rcases u with s | _ | s | ⟨s, m, e, h⟩ <;> (try cases s) <;>
    simp_all [UnpackedFloat.le, UnpackedFloat.compare, UnpackedFloat.isNaN, compare]
/-- full(Float.Model): −∞ is the bottom of the non-NaN values -/
theorem neg_inf_ule (u : UF) (h : u.isNaN = false) : (UnpackedFloat.infinity .negative).le u = true := by
  rcases u with s | _ | s | ⟨s, m, e, h⟩ <;> (try cases s) <;>
    simp_all [UnpackedFloat.le, UnpackedFloat.compare, UnpackedFloat.isNaN, compare]

end Statrs.Lemmas.FloatModel
