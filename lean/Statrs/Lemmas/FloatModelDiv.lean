/-
  Statrs.Lemmas.FloatModelDiv — binary64 `div` of the model: for finite operands the result is the rounding
  of the exact real quotient (`udiv_ff`, any mantissas — `divCore` produces enough quotient bits and the
  remainder is turned into the right `Accuracy`), canonical results, `U_div'` closed form, and the two
  monotonicity facts on the unpacked level.
-/
import Statrs.Lemmas.FloatModelMul
namespace Statrs.Lemmas.FloatModel
open Float.Model
open Float.Model.UnpackedFloat

/-- full(Float.Model): real factor of a sign quotient -/
theorem sgn_div (s s' : Sign) : sgn (s / s') = sgn s / sgn s' := by
  have : s / s' = s * s' := by cases s <;> cases s' <;> rfl
  rw [this, sgn_mul]; cases s' <;> simp only [sgn] <;> ring

/-- full(Float.Model): `accuracyOfFraction r d` describes the fraction `r/d ∈ [0,1)` -/
theorem acc_of_fraction (r d : ℕ) (hd : 0 < d) (hr : r < d) :
    Acc ((r : ℝ) / (d : ℝ)) (accuracyOfFraction r d) := by
  have hd' : (0 : ℝ) < d := by exact_mod_cast hd
  unfold accuracyOfFraction
  split_ifs with h0
  · subst h0; simp [Acc]
  · have hr0 : (0 : ℝ) < r := by exact_mod_cast Nat.pos_of_ne_zero h0
    have hr1 : (r : ℝ) < d := by exact_mod_cast hr
    rcases lt_trichotomy (2 * r) d with h | h | h
    · rw [compare_lt_iff_lt.2 h]
      have : (2 : ℝ) * r < d := by exact_mod_cast h
      simp only [Acc]
      constructor
      · positivity
      · rw [div_lt_iff₀ hd']; linarith
    · rw [compare_eq_iff_eq.2 h]
      have : (2 : ℝ) * r = d := by exact_mod_cast h
      simp only [Acc]
      rw [div_eq_iff hd'.ne']; linarith
    · rw [compare_gt_iff_gt.2 h]
      have : (d : ℝ) < 2 * r := by exact_mod_cast h
      simp only [Acc]
      constructor
      · rw [lt_div_iff₀ hd']; linarith
      · rw [div_lt_iff₀ hd']; linarith

/-- full(Float.Model): finite / finite is the rounding of the exact real quotient (any mantissas) -/
theorem udiv_ff (s₁ s₂ : Sign) (m₁ m₂ : ℕ) (e₁ e₂ : ℤ) (h₁ : 0 < m₁) (h₂ : 0 < m₂) :
    Rounds (val (.finite s₁ m₁ e₁ h₁) / val (.finite s₂ m₂ e₂ h₂))
      (UnpackedFloat.div .binary64 (.finite s₁ m₁ e₁ h₁) (.finite s₂ m₂ e₂ h₂)) := by
  simp only [UnpackedFloat.div, divCore]
  set T : ℤ := min (e₁ - e₂) (Format.binary64.targetExponent (totalExponent m₁ e₁ - totalExponent m₂ e₂)) with hT
  obtain ⟨k, hk⟩ : ∃ k : ℕ, e₁ - e₂ - T = k := ⟨(e₁ - e₂ - T).toNat, by omega⟩
  have hk' : (e₁ - e₂ - T).toNat = k := by omega
  rw [hk']
  set m := m₁ <<< k with hm
  have hmk : m = m₁ * 2 ^ k := Nat.shiftLeft_eq _ _
  have hrlt : m % m₂ < m₂ := Nat.mod_lt _ h₂
  have hacc := acc_of_fraction (m % m₂) m₂ h₂ hrlt
  have hle : T ≤ Format.binary64.targetExponent (totalExponent (m / m₂) T) := by
    rw [target64, totalExponent]
    by_cases hT0 : T ≤ -1074
    · omega
    · have hq : 2 ^ 52 ≤ m / m₂ := by
        rw [Nat.le_div_iff_mul_le h₂]
        rw [target64, totalExponent, totalExponent] at hT
        have hkk : m₂.log2 + 53 ≤ m₁.log2 + k := by omega
        have a1 := Nat.lt_log2_self (n := m₂)
        have a2 := Nat.log2_self_le (n := m₁) (by omega)
        calc 2 ^ 52 * m₂ ≤ 2 ^ 52 * 2 ^ (m₂.log2 + 1) := Nat.mul_le_mul_left _ a1.le
          _ = 2 ^ (m₂.log2 + 53) := by rw [← pow_add]; congr 1; omega
          _ ≤ 2 ^ (m₁.log2 + k) := Nat.pow_le_pow_right (by norm_num) hkk
          _ = 2 ^ m₁.log2 * 2 ^ k := pow_add ..
          _ ≤ m₁ * 2 ^ k := Nat.mul_le_mul_right _ a2
          _ = m := hmk.symm
      have := log2_mono hq
      rw [Nat.log2_two_pow] at this
      omega
  have := rwa_rounds (s₁ / s₂) (m / m₂) T _ _ hacc hle
  convert this using 1
  simp only [val, sgn_div]
  have hm2 : (0 : ℝ) < m₂ := by exact_mod_cast h₂
  have hdm : ((m / m₂ : ℕ) : ℝ) + ((m % m₂ : ℕ) : ℝ) / (m₂ : ℝ) = (m : ℝ) / (m₂ : ℝ) := by
    have := Nat.div_add_mod m m₂
    have : (m : ℝ) = (m₂ : ℝ) * ((m / m₂ : ℕ) : ℝ) + ((m % m₂ : ℕ) : ℝ) := by exact_mod_cast this.symm
    rw [this]; field_simp
  rw [hdm, hmk]
  have hTe : T = e₁ - e₂ - k := by omega
  rw [hTe, zpow_sub₀ (by norm_num : (2 : ℝ) ≠ 0), zpow_sub₀ (by norm_num : (2 : ℝ) ≠ 0)]
  push_cast
  have hs2 : sgn s₂ ≠ 0 := by cases s₂ <;> simp [sgn]
  field_simp
  norm_cast

/-- full(Float.Model): finite-or-zero over finite: the rounding of the real quotient -/
theorem udiv_rounds {a : UF} (ha : FZ a) (s' : Sign) (m' : ℕ) (e' : ℤ) (hm' : 0 < m') :
    Rounds (val a / val (.finite s' m' e' hm')) (UnpackedFloat.div .binary64 a (.finite s' m' e' hm')) := by
  rcases a with s | _ | s | ⟨s, m, e, hm⟩ <;> simp only [FZ] at ha
  · simp only [UnpackedFloat.div, val_zero, zero_div]; exact Rounds.zero _
  · exact udiv_ff ..

/-- full(Float.Model): quotients are canonical -/
theorem canon_udiv (a b : UF) : Canon (UnpackedFloat.div .binary64 a b) := by
  rcases a with s | _ | s | ⟨s, m, e, hm⟩ <;> rcases b with s' | _ | s' | ⟨s', m', e', hm'⟩ <;>
    first
    | exact (udiv_ff ..).2.1
    | (simp only [UnpackedFloat.div]; trivial)

/-- full(Float): `a / b` unpacks to the overflow-clamped model quotient of the unpacked operands -/
theorem U_div' (a b : Float) : U (a / b) = fin64 (UnpackedFloat.div .binary64 (U a) (U b)) := by
  rw [U_div, unpack_pack _ (canon_udiv _ _)]

/-- full(Float.Model): `0 < c` on the unpacked level: `c` is `+∞` or a positive finite number -/
theorem zero_lt_cases {c : UF} (h : (UnpackedFloat.zero .positive).lt c = true) :
    c = .infinity .positive ∨ ∃ m e hm, c = .finite .positive m e hm := by
  have hn := lt_nn h
  rw [lt_iff_key _ _ hn.1 hn.2] at h
  rcases c with s | _ | s | ⟨s, m, e, hm⟩ <;> (try cases s) <;>
    simp_all [key, klt, UnpackedFloat.isNaN]

/-- full(Float.Model): a positive finite float has positive value -/
theorem val_pos_fin (m : ℕ) (e : ℤ) (hm : 0 < m) : 0 < val (.finite .positive m e hm) := by
  simp only [val, sgn, one_mul]; positivity

/-- full(Float.Model): dividing a sign by `+` keeps it -/
theorem sdiv_pos (s : Sign) : s / Sign.positive = s := by cases s <;> rfl

/-- full(Float.Model): `/` by a positive divisor is monotone (unpacked level) -/
theorem udiv_mono_right {a b c : UF} (ca : Canon a) (cb : Canon b) (h : a.le b = true)
    (h0 : (UnpackedFloat.zero .positive).lt c = true)
    (n1 : (UnpackedFloat.div .binary64 a c).isNaN = false)
    (n2 : (UnpackedFloat.div .binary64 b c).isNaN = false) :
    (UnpackedFloat.div .binary64 a c).le (UnpackedFloat.div .binary64 b c) = true := by
  rcases zero_lt_cases h0 with rfl | ⟨m, e, hm, rfl⟩
  · -- divisor +∞: both quotients are zeros
    rw [le_iff_key _ _ n1 n2]
    rcases a with s | _ | s | ⟨s, m, e, hm⟩ <;> rcases b with s' | _ | s' | ⟨s', m', e', hm'⟩ <;>
      simp_all [UnpackedFloat.div, key, kle, UnpackedFloat.isNaN]
  · rcases cls a with rfl | ⟨sa, rfl⟩ | ha
    · exact absurd (le_nn h).1 (by decide)
    · cases sa
      · exact neg_inf_ule _ n2
      · have := inf_pos_le h; subst this; exact ule_refl _ n2
    · rcases cls b with rfl | ⟨sb, rfl⟩ | hb
      · exact absurd (le_nn h).2 (by decide)
      · cases sb
        · have := le_inf_neg h; subst this; exact absurd ha (by simp [FZ])
        · exact ule_inf _ n1
      · exact rounds_le (udiv_rounds ha ..) (udiv_rounds hb ..)
          (div_le_div_of_nonneg_right ((le_iff_val ha hb ca cb).1 h) (val_pos_fin m e hm).le)

/-- full(Float.Model): a non-negative numerator over a larger positive divisor is not larger (unpacked level) -/
theorem udiv_mono_left {a b c : UF} (ca : Canon a) (cb : Canon b) (cc : Canon c)
    (ha0 : (UnpackedFloat.zero .positive).lt a = true) (h : a.le b = true)
    (hc0 : (UnpackedFloat.zero .positive).le c = true)
    (n1 : (UnpackedFloat.div .binary64 c a).isNaN = false)
    (n2 : (UnpackedFloat.div .binary64 c b).isNaN = false) :
    (UnpackedFloat.div .binary64 c b).le (UnpackedFloat.div .binary64 c a) = true := by
  have hb0 : (UnpackedFloat.zero .positive).lt b = true := by
    rw [ult_iff] at ha0 ⊢
    exact ⟨ule_trans ha0.1 h, fun h' => ha0.2 (ule_trans h h')⟩
  rcases cls c with rfl | ⟨s, rfl⟩ | hc
  · exact absurd (le_nn hc0).2 (by decide)
  · -- numerator ±∞: both divisors must be finite, both quotients are that infinity
    rcases zero_lt_cases ha0 with rfl | ⟨m, e, hm, rfl⟩
    · exact absurd n1 (by simp [UnpackedFloat.div, UnpackedFloat.isNaN])
    · rcases zero_lt_cases hb0 with rfl | ⟨m', e', hm', rfl⟩
      · exact absurd n2 (by simp [UnpackedFloat.div, UnpackedFloat.isNaN])
      · simp only [UnpackedFloat.div, sdiv_pos]; exact ule_refl _ rfl
  · have hcv := (zero_le_iff hc cc).1 hc0
    rcases zero_lt_cases hb0 with rfl | ⟨m', e', hm', rfl⟩
    · -- `c / +∞` is a zero, `c / a` is a zero or the rounding of a non-negative real
      have hz : ∃ s, UnpackedFloat.div .binary64 c (.infinity .positive) = .zero s := by
        rcases c with s | _ | s | ⟨s, m, e, hm⟩ <;> simp only [FZ] at hc
        · exact ⟨_, rfl⟩
        · exact ⟨_, rfl⟩
      obtain ⟨sz, hz⟩ := hz
      rw [hz]
      rcases zero_lt_cases ha0 with rfl | ⟨m, e, hm, rfl⟩
      · rw [hz]; exact ule_refl _ rfl
      · exact rounds_le (Rounds.zero sz) (udiv_rounds hc ..)
          (div_nonneg hcv (val_pos_fin m e hm).le)
    · rcases zero_lt_cases ha0 with rfl | ⟨m, e, hm, rfl⟩
      · have := inf_pos_le h; exact absurd this (by simp)
      · have hab := (le_iff_val (u := .finite .positive m e hm) (v := .finite .positive m' e' hm')
          trivial trivial ca cb).1 h
        exact rounds_le (udiv_rounds hc ..) (udiv_rounds hc ..)
          (div_le_div_of_nonneg_left hcv (val_pos_fin m e hm) hab)

end Statrs.Lemmas.FloatModel
