/-
  Statrs.Draft.Lemmas.FloatModelLerp — a rounding fact about binary64 round-to-nearest-even (`RNv`) that is NOT
  order-theoretic: for a real `y ≥ 0` on the subnormal grid (`y ∈ 2^−1074·ℤ`, e.g. a difference of two doubles)
  and a weight `0 ≤ t ≤ 1 − 2^−53` (every double `< 1`),
        RN( t · RN(y) ) ≤ y.
  Reason: if `RN(y) = m·u ≤ y` this is monotonicity; if `RN(y) = m·u > y` (so `y ≥ (m − ½)u`, `m > 2^52`), then
  `t·m·u ≤ m·u − m·u·2^−53 < (m − ½)u`, which rounds to at most `(m − 1)·u ≤ y`.  In the subnormal range `RN(y) = y`.
  This is why an interpolation `a + t·(b − a)` with `t < 1` never overshoots `b` in `f64`
  (`Draft/C05/FloatLerpLaws.lean`), although it does for `t = 1`.
-/
import Statrs.Lemmas.FloatModelRound
namespace Statrs.Lemmas.FloatModel

/-- full(ℝ): in the normal range the rounding scale of a real is determined by the real -/
theorem IsRN.scale_eq {x : ℝ} {m' : ℕ} {s s' : ℤ} (h' : IsRN x m' s') (hs : -1074 < s)
    (hlo : (2 : ℝ) ^ (s + 52) ≤ x) (hhi : x < (2 : ℝ) ^ (s + 53)) : s' = s := by
  obtain ⟨h1, _, h3, h4, _⟩ := h'
  have two : (1 : ℝ) < 2 := by norm_num
  rcases h4 with h4 | h4
  · exfalso
    subst h4
    have : (2 : ℝ) ^ ((-1074 : ℤ) + 53) ≤ (2 : ℝ) ^ (s + 52) := zpow_le_zpow_right₀ two.le (by omega)
    linarith
  · have a1 : s' + 52 < s + 53 := (zpow_lt_zpow_iff_right₀ two).1 (lt_of_le_of_lt h4 hhi)
    have a2 : s + 52 < s' + 53 := (zpow_lt_zpow_iff_right₀ two).1 (lt_of_le_of_lt hlo h3)
    omega

private theorem lerp_arith {t M u c : ℝ} (h1 : t * (M * u) ≤ (1 - c) * (M * u)) (h4 : 1 / 2 * u < c * M * u) :
    t * (M * u) < (M - 1 / 2) * u := by
  have e : (1 - c) * (M * u) = M * u - c * M * u := by ring
  have e' : (M - 1 / 2) * u = M * u - 1 / 2 * u := by ring
  rw [e] at h1; rw [e']; linarith

/-- full(ℝ): `y ≥ 0` on the grid `2^−1074·ℤ`, `0 ≤ t ≤ 1 − 2^−53` ⇒ `RN(t · RN(y)) ≤ y` -/
theorem rnv_mul_lt_one_le {y D t P : ℝ} (hy : 0 ≤ y) (hgrid : ∃ j : ℤ, y = (j : ℝ) * (2 : ℝ) ^ (-1074 : ℤ))
    (hD : RNv y D) (ht0 : 0 ≤ t) (ht1 : t ≤ 1 - (2 : ℝ) ^ (-53 : ℤ)) (hP : RNv (t * D) P) : P ≤ y := by
  have hD' := hD
  obtain ⟨m, s, hrn, hpos, _⟩ := hD
  rw [abs_of_nonneg hy] at hrn
  have hDeq : D = (m : ℝ) * (2 : ℝ) ^ s := hpos hy
  have hu : (0 : ℝ) < (2 : ℝ) ^ s := by positivity
  have hD0 : 0 ≤ D := by rw [hDeq]; positivity
  have h53pos : (0 : ℝ) < (2 : ℝ) ^ (-53 : ℤ) := by positivity
  have htD : t * D ≤ D := by nlinarith
  by_cases hDy : D ≤ y
  · have := hP.mono hD' (le_trans htD hDy)
    linarith
  · have hDy : y < D := not_le.1 hDy
    have hs0 : -1074 ≤ s := hrn.1
    -- on the lowest scale the rounding is exact
    have hs' : s ≠ -1074 := by
      intro hs1
      subst hs1
      obtain ⟨j, hj⟩ := hgrid
      have hq : y / (2 : ℝ) ^ (-1074 : ℤ) = (j : ℝ) := by rw [hj]; field_simp
      have hr := hrn.2.2.2.2.1
      rw [hq] at hr
      have hjm : j = (m : ℤ) := by
        by_contra hne
        have h1 : (1 : ℝ) ≤ |((j - (m : ℤ) : ℤ) : ℝ)| := by
          rw [← Int.cast_abs]; exact_mod_cast Int.one_le_abs (sub_ne_zero.2 hne)
        have h2 : |((j - (m : ℤ) : ℤ) : ℝ)| ≤ 1 / 2 := by push_cast; exact hr
        linarith
      have : D = y := by rw [hDeq, hj, hjm]; push_cast; ring
      linarith
    have hs1 : -1074 < s := lt_of_le_of_ne hs0 (Ne.symm hs')
    have hnorm : (2 : ℝ) ^ (s + 52) ≤ y := by
      rcases hrn.2.2.2.1 with h | h
      · exact absurd h hs'
      · exact h
    have e52 : (2 : ℝ) ^ (s + 52) = (2 : ℝ) ^ s * (2 : ℝ) ^ (52 : ℕ) := by exact_mod_cast zpow_add_nat s 52
    have e53 : (2 : ℝ) ^ (s + 53) = (2 : ℝ) ^ s * (2 : ℝ) ^ (53 : ℕ) := by exact_mod_cast zpow_add_nat s 53
    have hm_le : m ≤ 2 ^ 53 := hrn.le_two_pow
    -- `m > 2^52` because `m·u > y ≥ 2^52·u`
    have hm_gt_r : (2 : ℝ) ^ (52 : ℕ) < (m : ℝ) := by
      by_contra hc
      have hc' : (m : ℝ) ≤ (2 : ℝ) ^ (52 : ℕ) := not_lt.1 hc
      have h1 : (m : ℝ) * (2 : ℝ) ^ s ≤ (2 : ℝ) ^ (52 : ℕ) * (2 : ℝ) ^ s :=
        mul_le_mul_of_nonneg_right hc' hu.le
      have h2 : (2 : ℝ) ^ s * (2 : ℝ) ^ (52 : ℕ) ≤ y := by rw [← e52]; exact hnorm
      have h3 : y < (m : ℝ) * (2 : ℝ) ^ s := by rw [← hDeq]; exact hDy
      linarith
    have hm_gt : 2 ^ 52 < m := by exact_mod_cast hm_gt_r
    -- `y ≥ (m − ½)·u`
    have hy_lo : ((m : ℝ) - 1 / 2) * (2 : ℝ) ^ s ≤ y := by
      have h1 := (abs_le.1 hrn.2.2.2.2.1).1
      have : (m : ℝ) - 1 / 2 ≤ y / (2 : ℝ) ^ s := by linarith
      rwa [le_div_iff₀ hu] at this
    -- `t·D < (m − ½)·u`
    have hx_lt : t * D < ((m : ℝ) - 1 / 2) * (2 : ℝ) ^ s := by
      have h1 : t * D ≤ (1 - (2 : ℝ) ^ (-53 : ℤ)) * D := mul_le_mul_of_nonneg_right ht1 hD0
      have h2 : (2 : ℝ) ^ (-53 : ℤ) * (2 : ℝ) ^ (52 : ℕ) = 1 / 2 := by
        rw [show ((2 : ℝ) ^ (52 : ℕ)) = (2 : ℝ) ^ (52 : ℤ) by norm_num,
          ← zpow_add₀ (by norm_num : (2 : ℝ) ≠ 0)]; norm_num
      have h3 : 1 / 2 < (2 : ℝ) ^ (-53 : ℤ) * (m : ℝ) := by
        rw [← h2]; exact mul_lt_mul_of_pos_left hm_gt_r h53pos
      have h4 : 1 / 2 * (2 : ℝ) ^ s < (2 : ℝ) ^ (-53 : ℤ) * (m : ℝ) * (2 : ℝ) ^ s :=
        mul_lt_mul_of_pos_right h3 hu
      rw [hDeq] at h1 ⊢
      exact lerp_arith h1 h4
    -- `(m − 1)·u` is a grid point `≤ y`
    have hm1 : (((m - 1 : ℕ) : ℝ)) = (m : ℝ) - 1 := by
      rw [Nat.cast_sub (by omega)]; norm_num
    have hgm : RNv (((m - 1 : ℕ) : ℝ) * (2 : ℝ) ^ s) (((m - 1 : ℕ) : ℝ) * (2 : ℝ) ^ s) := by
      have h := IsRN.self (m := m - 1) (t := s) hs0 (by omega) (Or.inr (by omega))
      have hp : (0 : ℝ) ≤ ((m - 1 : ℕ) : ℝ) * (2 : ℝ) ^ s := by positivity
      exact ⟨m - 1, s, by rwa [abs_of_nonneg hp], fun _ => rfl, fun h0 => by
        have : ((m - 1 : ℕ) : ℝ) * (2 : ℝ) ^ s = 0 := le_antisymm h0 hp
        rw [this]; simp⟩
    have hm1_le_y : ((m - 1 : ℕ) : ℝ) * (2 : ℝ) ^ s ≤ y := by rw [hm1]; nlinarith
    suffices P ≤ ((m - 1 : ℕ) : ℝ) * (2 : ℝ) ^ s by linarith
    by_cases hxlow : t * D ≤ ((m - 1 : ℕ) : ℝ) * (2 : ℝ) ^ s
    · exact hP.mono hgm hxlow
    · have hxlow : ((m - 1 : ℕ) : ℝ) * (2 : ℝ) ^ s < t * D := not_le.1 hxlow
      obtain ⟨m', s', hrn', hpos', _⟩ := hP
      have hx0 : 0 ≤ t * D := mul_nonneg ht0 hD0
      rw [abs_of_nonneg hx0] at hrn'
      rw [hpos' hx0]
      -- the scale of `t·D` is `s`
      have hlo : (2 : ℝ) ^ (s + 52) ≤ t * D := by
        have : (2 : ℝ) ^ (52 : ℕ) ≤ ((m - 1 : ℕ) : ℝ) := by exact_mod_cast (by omega : 2 ^ 52 ≤ m - 1)
        rw [e52]; nlinarith
      have hhi : t * D < (2 : ℝ) ^ (s + 53) := by
        have : (m : ℝ) ≤ (2 : ℝ) ^ (53 : ℕ) := by exact_mod_cast hm_le
        rw [e53]; nlinarith
      have hse : s' = s := hrn'.scale_eq hs1 hlo hhi
      subst hse
      have h1 := (abs_le.1 hrn'.2.2.2.2.1).1
      have hxu : t * D / (2 : ℝ) ^ s' < (m : ℝ) - 1 / 2 := by rw [div_lt_iff₀ hu]; exact hx_lt
      have hlt : (m' : ℝ) < (m : ℝ) := by linarith
      have hle : m' ≤ m - 1 := by
        have : m' < m := by exact_mod_cast hlt
        omega
      have : (m' : ℝ) ≤ ((m - 1 : ℕ) : ℝ) := by exact_mod_cast hle
      exact mul_le_mul_of_nonneg_right this hu.le

end Statrs.Lemmas.FloatModel
