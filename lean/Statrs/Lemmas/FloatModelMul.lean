/-
  Statrs.Lemmas.FloatModelMul — binary64 `mul` of the model: on canonical finite-or-zero operands the
  result is the rounding of the exact real product (`umul_rounds`), results are canonical (`canon_umul`),
  `U_mul'` closed form, commutativity, the infinite cases, and monotonicity for a non-negative factor.
-/
import Statrs.Lemmas.FloatModelAddSub
namespace Statrs.Lemmas.FloatModel
open Float.Model
open Float.Model.UnpackedFloat

/-- full(Float.Model): real factor of a sign product -/
theorem sgn_mul (s s' : Sign) : sgn (s * s') = sgn s * sgn s' := by
  cases s <;> cases s' <;> simp [sgn]

/-- full(Float.Model): sign multiplication commutes -/
theorem smul_comm (s s' : Sign) : s * s' = s' * s := by cases s <;> cases s' <;> rfl

/-- full(ℕ): `Nat.log2` is monotone -/
theorem log2_mono {a b : ℕ} (h : a ≤ b) : a.log2 ≤ b.log2 := by
  by_cases ha : a = 0
  · subst ha; simp
  · have hb : b ≠ 0 := by omega
    rw [Nat.le_log2 hb]
    exact le_trans (Nat.log2_self_le ha) h

/-- full(Float.Model): finite × finite (canonical operands) is the rounding of the exact real product -/
theorem umul_ff (s₁ s₂ : Sign) (m₁ m₂ : ℕ) (e₁ e₂ : ℤ) (h₁ : 0 < m₁) (h₂ : 0 < m₂)
    (c₁ : Canon (.finite s₁ m₁ e₁ h₁)) (c₂ : Canon (.finite s₂ m₂ e₂ h₂)) :
    Rounds (val (.finite s₁ m₁ e₁ h₁) * val (.finite s₂ m₂ e₂ h₂))
      (UnpackedFloat.mul .binary64 (.finite s₁ m₁ e₁ h₁) (.finite s₂ m₂ e₂ h₂)) := by
  simp only [UnpackedFloat.mul]
  simp only [Canon] at c₁ c₂
  have hle : e₁ + e₂ ≤ Format.binary64.targetExponent (totalExponent (m₁ * m₂) (e₁ + e₂)) := by
    rw [target64, totalExponent]
    by_cases hb : 2 ^ 52 ≤ m₁ * m₂
    · have := log2_mono hb
      rw [Nat.log2_two_pow] at this
      omega
    · have h1 : ¬ 2 ^ 52 ≤ m₁ := fun h => hb (le_trans h (Nat.le_mul_of_pos_right _ h₂))
      have h2 : ¬ 2 ^ 52 ≤ m₂ := fun h => hb (le_trans h (Nat.le_mul_of_pos_left _ h₁))
      have := c₁.2.2.resolve_right h1
      have := c₂.2.2.resolve_right h2
      omega
  have := rwa_rounds (s₁ * s₂) (m₁ * m₂) (e₁ + e₂) .exact 0 rfl hle
  convert this using 1
  simp only [val, sgn_mul]
  rw [zpow_add₀ (by norm_num : (2 : ℝ) ≠ 0)]
  push_cast; ring

/-- full(Float.Model): the product of canonical finite-or-zero floats is the rounding of the real product -/
theorem umul_rounds {a b : UF} (ha : FZ a) (hb : FZ b) (ca : Canon a) (cb : Canon b) :
    Rounds (val a * val b) (UnpackedFloat.mul .binary64 a b) := by
  rcases a with s | _ | s | ⟨s, m, e, hm⟩ <;> simp only [FZ] at ha <;>
  rcases b with s' | _ | s' | ⟨s', m', e', hm'⟩ <;> simp only [FZ] at hb
  · simp only [UnpackedFloat.mul, val_zero, mul_zero]; exact Rounds.zero _
  · simp only [UnpackedFloat.mul, val_zero, zero_mul]; exact Rounds.zero _
  · simp only [UnpackedFloat.mul, val_zero, mul_zero]; exact Rounds.zero _
  · exact umul_ff _ _ _ _ _ _ _ _ ca cb

/-- full(Float.Model): products of canonical operands are canonical -/
theorem canon_umul {a b : UF} (ca : Canon a) (cb : Canon b) : Canon (UnpackedFloat.mul .binary64 a b) := by
  rcases a with s | _ | s | ⟨s, m, e, hm⟩ <;> rcases b with s' | _ | s' | ⟨s', m', e', hm'⟩ <;>
    first
    | exact (umul_ff _ _ _ _ _ _ _ _ ca cb).2.1
    | (simp only [UnpackedFloat.mul]; trivial)

/-- full(Float): `a * b` unpacks to the overflow-clamped model product of the unpacked operands -/
theorem U_mul' (a b : Float) : U (a * b) = fin64 (UnpackedFloat.mul .binary64 (U a) (U b)) := by
  rw [U_mul, unpack_pack _ (canon_umul (canon_U a) (canon_U b))]

/-- full(Float.Model): model multiplication commutes -/
theorem umul_comm (a b : UF) : UnpackedFloat.mul .binary64 a b = UnpackedFloat.mul .binary64 b a := by
  rcases a with s | _ | s | ⟨s, m, e, hm⟩ <;> rcases b with s' | _ | s' | ⟨s', m', e', hm'⟩ <;>
    simp only [UnpackedFloat.mul] <;> (try rw [smul_comm])
  rw [Nat.mul_comm m m', Int.add_comm e e']

/-- full(Float.Model): NaN × x = NaN -/
theorem umul_nan_left (x : UF) : UnpackedFloat.mul .binary64 .notANumber x = .notANumber := by
  cases x <;> rfl
/-- full(Float.Model): x × NaN = NaN -/
theorem umul_nan_right (x : UF) : UnpackedFloat.mul .binary64 x .notANumber = .notANumber := by
  cases x <;> rfl

/-- full(Float.Model): `0 ≤ c` for a finite-or-zero canonical `c` is `0 ≤ val c` -/
theorem zero_le_iff {c : UF} (hc : FZ c) (cc : Canon c) :
    (UnpackedFloat.zero .positive).le c = true ↔ 0 ≤ val c := by
  rw [le_iff_val (u := .zero .positive) trivial hc trivial cc]; rfl

/-- full(Float.Model): monotone in the left factor when the right factor is `+∞` -/
theorem umul_inf_mono {a b : UF} (h : a.le b = true)
    (n1 : (UnpackedFloat.mul .binary64 a (.infinity .positive)).isNaN = false)
    (n2 : (UnpackedFloat.mul .binary64 b (.infinity .positive)).isNaN = false) :
    (UnpackedFloat.mul .binary64 a (.infinity .positive)).le
      (UnpackedFloat.mul .binary64 b (.infinity .positive)) = true := by
  have hn := le_nn h
  rw [le_iff_key _ _ hn.1 hn.2] at h
  rw [le_iff_key _ _ n1 n2]
  rcases a with s | _ | s | ⟨s, m, e, hm⟩ <;> rcases b with s' | _ | s' | ⟨s', m', e', hm'⟩ <;>
    (try cases s) <;> (try cases s') <;>
    simp_all [UnpackedFloat.mul, key, kle, UnpackedFloat.isNaN]

/-- full(Float.Model): `*` by a non-negative right factor is monotone (unpacked level) -/
theorem umul_mono_right {a b c : UF} (ca : Canon a) (cb : Canon b) (cc : Canon c) (h : a.le b = true)
    (h0 : (UnpackedFloat.zero .positive).le c = true)
    (n1 : (UnpackedFloat.mul .binary64 a c).isNaN = false)
    (n2 : (UnpackedFloat.mul .binary64 b c).isNaN = false) :
    (UnpackedFloat.mul .binary64 a c).le (UnpackedFloat.mul .binary64 b c) = true := by
  rcases cls c with rfl | ⟨s, rfl⟩ | hc
  · exact absurd (le_nn h0).2 (by decide)
  · cases s
    · exact absurd h0 (by decide)
    · exact umul_inf_mono h n1 n2
  · have hc0 := (zero_le_iff hc cc).1 h0
    -- an infinite left factor times `c`: `c` is a positive finite number, the product is that infinity
    have hinf : ∀ s, (UnpackedFloat.mul .binary64 (.infinity s) c).isNaN = false →
        UnpackedFloat.mul .binary64 (.infinity s) c = .infinity s := by
      intro s hn
      rcases c with s' | _ | s' | ⟨s', m', e', hm'⟩
      · exact absurd hc (by simp [FZ])
      · exact absurd hc (by simp [FZ])
      · exact absurd hn (by simp [UnpackedFloat.mul, UnpackedFloat.isNaN])
      · cases s'
        · exfalso
          have : (0 : ℝ) < (m' : ℝ) * (2 : ℝ) ^ e' := by positivity
          simp only [val, sgn] at hc0; linarith
        · cases s <;> rfl
    rcases cls a with rfl | ⟨sa, rfl⟩ | ha
    · exact absurd (le_nn h).1 (by decide)
    · cases sa
      · rw [hinf _ n1]; exact neg_inf_ule _ n2
      · have := inf_pos_le h; subst this; exact ule_refl _ n2
    · rcases cls b with rfl | ⟨sb, rfl⟩ | hb
      · exact absurd (le_nn h).2 (by decide)
      · cases sb
        · have := le_inf_neg h; subst this; exact absurd ha (by simp [FZ])
        · rw [hinf _ n2]; exact ule_inf _ n1
      · exact rounds_le (umul_rounds ha hc ca cc) (umul_rounds hb hc cb cc)
          (mul_le_mul_of_nonneg_right ((le_iff_val ha hb ca cb).1 h) hc0)

/-- full(Float.Model): `*` by a non-negative left factor is monotone (unpacked level) -/
theorem umul_mono_left {a b c : UF} (ca : Canon a) (cb : Canon b) (cc : Canon c) (h : a.le b = true)
    (h0 : (UnpackedFloat.zero .positive).le c = true)
    (n1 : (UnpackedFloat.mul .binary64 c a).isNaN = false)
    (n2 : (UnpackedFloat.mul .binary64 c b).isNaN = false) :
    (UnpackedFloat.mul .binary64 c a).le (UnpackedFloat.mul .binary64 c b) = true := by
  rw [umul_comm c a, umul_comm c b] at *
  exact umul_mono_right ca cb cc h h0 n1 n2

end Statrs.Lemmas.FloatModel
