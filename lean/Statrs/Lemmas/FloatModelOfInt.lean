/-
  Statrs.Lemmas.FloatModelOfInt — `Float.ofNat` / `Float.ofInt` (through `Float.ofScientific n false 0`, both
  its fast path `n.toUInt64.toFloat * 1.0` and its big-integer path) return the packed rounding of the
  integer: `U_ofInt`.  Also `rounds_rep`: the rounding of a real of magnitude ≤ 2^1023 does not overflow.
-/
import Statrs.Lemmas.FloatModelSqrt
namespace Statrs.Lemmas.FloatModel
open Float.Model
open Float.Model.UnpackedFloat

/-- full(Float.Model): the rounding of a real of magnitude at most `2^1023` is representable (no overflow) -/
theorem rounds_rep {x : ℝ} {r : UF} (h : Rounds x r) (hx : |x| ≤ (2 : ℝ) ^ (1023 : ℤ)) : Rep r := by
  obtain ⟨hf, hc, m', t, hrn, h1, h2⟩ := h
  rcases r with s | _ | s | ⟨s, m, e, hm⟩
  · trivial
  · trivial
  · trivial
  · simp only [Canon] at hc
    simp only [Rep]
    refine ⟨hc.1, ?_, hc.2.1, hc.2.2⟩
    by_contra hgt
    have hgt : 972 ≤ e := by omega
    -- |val r| = m'·2^t ≤ 2^52·2^971
    have hself := IsRN.self (m := 2 ^ 52) (t := 971) (by norm_num) (by norm_num) (Or.inr le_rfl)
    have e1023 : ((2 ^ 52 : ℕ) : ℝ) * (2 : ℝ) ^ (971 : ℤ) = (2 : ℝ) ^ (1023 : ℤ) := by
      rw [show ((2 ^ 52 : ℕ) : ℝ) = (2 : ℝ) ^ (52 : ℤ) by norm_num,
        ← zpow_add₀ (by norm_num : (2 : ℝ) ≠ 0)]
      norm_num
    have hb : (m' : ℝ) * (2 : ℝ) ^ t ≤ (2 : ℝ) ^ (1023 : ℤ) := by
      rw [← e1023]
      rcases le_or_gt |x| ((2 : ℝ) ^ (1023 : ℤ)) with hle | hlt
      · have := hrn.mono (y := (2 : ℝ) ^ (1023 : ℤ)) (by rw [← e1023]; exact hself) hle
        exact this
      · exact absurd hx (not_le.2 hlt)
    have habs : (m : ℝ) * (2 : ℝ) ^ e = (m' : ℝ) * (2 : ℝ) ^ t := by
      rcases le_total 0 x with h0 | h0
      · have := h1 h0
        cases s <;> simp only [val, sgn] at this
        · have p1 : (0 : ℝ) < (m : ℝ) * (2 : ℝ) ^ e := by positivity
          have p2 : (0 : ℝ) ≤ (m' : ℝ) * (2 : ℝ) ^ t := by positivity
          linarith
        · linarith
      · have := h2 h0
        cases s <;> simp only [val, sgn] at this
        · linarith
        · have p1 : (0 : ℝ) < (m : ℝ) * (2 : ℝ) ^ e := by positivity
          have p2 : (0 : ℝ) ≤ (m' : ℝ) * (2 : ℝ) ^ t := by positivity
          linarith
    have hm52 : (2 : ℝ) ^ (52 : ℤ) ≤ (m : ℝ) := by
      have := hc.2.2.resolve_left (by omega)
      have : ((2 ^ 52 : ℕ) : ℝ) ≤ (m : ℝ) := by exact_mod_cast this
      rwa [show ((2 ^ 52 : ℕ) : ℝ) = (2 : ℝ) ^ (52 : ℤ) by norm_num] at this
    have he : (2 : ℝ) ^ (972 : ℤ) ≤ (2 : ℝ) ^ e := zpow_le_zpow_right₀ (by norm_num) hgt
    have : (2 : ℝ) ^ (52 : ℤ) * (2 : ℝ) ^ (972 : ℤ) ≤ (m : ℝ) * (2 : ℝ) ^ e :=
      mul_le_mul hm52 he (by positivity) (by positivity)
    rw [← zpow_add₀ (by norm_num : (2 : ℝ) ≠ 0)] at this
    have hlt : (2 : ℝ) ^ (1023 : ℤ) < (2 : ℝ) ^ ((52 : ℤ) + 972) :=
      zpow_lt_zpow_right₀ (by norm_num) (by norm_num)
    linarith

/-- full(Float): fast path of `Float.ofNat` (`n < 2^53`): `n.toUInt64.toFloat * 1.0` -/
theorem ofNat_small (n : ℕ) (h : n < 2 ^ 53) :
    Float.ofNat n = n.toUInt64.toFloat * Float.ofBits 0x3FF0000000000000 := by
  unfold Float.ofNat
  show Float.ofScientific n false 0 = _
  unfold Float.ofScientific
  rw [dif_pos ⟨h, by norm_num⟩]
  rfl

/-- full(Float): slow path of `Float.ofNat` (`n ≥ 2^53`): the model's `ofScientific n 0` -/
theorem ofNat_big (n : ℕ) (h : ¬ n < 2 ^ 53) :
    Float.ofNat n = Float.ofModel (Float.Model.ofScientific n 0) := by
  unfold Float.ofNat
  show Float.ofScientific n false 0 = _
  unfold Float.ofScientific
  rw [dif_neg (fun h' => h h'.1)]
  rfl

/-- full(Float): `UInt64.toFloat` unpacks to the packed `normalize` of the integer -/
theorem U_toFloat (k : UInt64) :
    U k.toFloat = (Float.Model.pack (UnpackedFloat.normalize .binary64 (k.toNat : ℤ) 0 .positive)).unpack := rfl

/-- full(Float): the table entry `10^0` is `1.0` -/
theorem U_ofBits_one : U (Float.ofBits 0x3FF0000000000000) = .finite .positive (2 ^ 52) (-52) (by decide) := by
  decide

/-- full(Float.Model): `ofScientific n 0` is one rounding of `n·2^53 · 2^-53` -/
theorem ofSci_big (n : ℕ) (h : n ≠ 0) :
    UnpackedFloat.ofScientific .binary64 n 0
      = roundWithAccuracy .binary64 .positive ((n <<< 53) * 1) (-53 + 0) .exact := by
  unfold UnpackedFloat.ofScientific
  have h3 : ¬ ((0 : ℤ) < -((2 ^ Format.binary64.exponentBits : ℤ) + (n.log2 : ℤ))) := by
    have : (0 : ℤ) ≤ (2 ^ Format.binary64.exponentBits : ℤ) + (n.log2 : ℤ) := by positivity
    omega
  rw [dif_neg h, if_neg (by norm_num), if_neg h3, if_pos le_rfl]
  rfl

/-- full(Float): `Float.ofNat n` is the packed rounding of `n` -/
theorem U_ofNat (n : ℕ) : ∃ r, Rounds (n : ℝ) r ∧ U (Float.ofNat n) = fin64 r := by
  by_cases h : n < 2 ^ 53
  · rw [ofNat_small n h, U_mul', U_toFloat, U_ofBits_one]
    have hk : (n.toUInt64.toNat : ℤ) = (n : ℤ) := by
      have : n.toUInt64.toNat = n := by
        simp [Nat.toUInt64]; omega
      rw [this]
    rw [hk]
    have h1 := normalize_rounds (n : ℤ) 0 .positive
    simp only [zpow_zero, mul_one, Int.cast_natCast] at h1
    have hrep : Rep (UnpackedFloat.normalize .binary64 (n : ℤ) 0 .positive) := by
      apply rounds_rep h1
      rw [abs_of_nonneg (by positivity)]
      have : (n : ℝ) ≤ (2 : ℝ) ^ (53 : ℕ) := by exact_mod_cast h.le
      calc (n : ℝ) ≤ (2 : ℝ) ^ (53 : ℤ) := by exact_mod_cast this
        _ ≤ (2 : ℝ) ^ (1023 : ℤ) := zpow_le_zpow_right₀ (by norm_num) (by norm_num)
    rw [unpack_pack _ hrep.canon, fin64_of_rep hrep]
    set r₁ := UnpackedFloat.normalize .binary64 (n : ℤ) 0 .positive
    have h2 := umul_rounds h1.1 (b := .finite .positive (2 ^ 52) (-52) (by decide)) trivial h1.2.1
      (by simp [Canon])
    have hone : val (.finite .positive (2 ^ 52) (-52) (by decide)) = 1 := by
      simp only [val, sgn, one_mul]
      rw [show ((2 ^ 52 : ℕ) : ℝ) = (2 : ℝ) ^ (52 : ℤ) by norm_num,
        ← zpow_add₀ (by norm_num : (2 : ℝ) ≠ 0)]
      norm_num
    rw [hone, mul_one] at h2
    refine ⟨_, ⟨h2.1, h2.2.1, ?_⟩, rfl⟩
    rw [h2.val_eq h1.1 h1.2.1]
    exact h1.2.2
  · rw [ofNat_big n h]
    have hn0 : n ≠ 0 := by omega
    have hU : U (Float.ofModel (Float.Model.ofScientific n 0))
        = (Float.Model.pack (UnpackedFloat.ofScientific .binary64 n 0)).unpack := rfl
    rw [hU, ofSci_big n hn0]
    have hle : (-53 + 0 : ℤ) ≤ Format.binary64.targetExponent (totalExponent ((n <<< 53) * 1) (-53 + 0)) := by
      rw [target64, totalExponent, Nat.mul_one, Nat.shiftLeft_eq, log2_mul_two_pow hn0]
      push_cast; omega
    have h1 := rwa_rounds .positive ((n <<< 53) * 1) (-53 + 0) .exact 0 rfl hle
    have hv : sgn .positive * (((((n <<< 53) * 1 : ℕ) : ℝ) + 0) * (2 : ℝ) ^ (-53 + 0 : ℤ)) = (n : ℝ) := by
      rw [Nat.mul_one, Nat.shiftLeft_eq]
      simp only [sgn, one_mul, add_zero]
      push_cast
      norm_num
      ring
    rw [hv] at h1
    generalize roundWithAccuracy .binary64 .positive ((n <<< 53) * 1) (-53 + 0) .exact = r at h1 ⊢
    exact ⟨r, h1, unpack_pack r h1.2.1⟩

/-- full(Float.Model): `neg` negates the value -/
theorem val_neg (u : UF) : val u.neg = - val u := by
  rcases u with s | _ | s | ⟨s, m, e, hm⟩ <;> simp only [UnpackedFloat.neg, val, neg_zero]
  exact val_neg_sign s m e hm

/-- full(Float.Model): the negation of a rounding is the rounding of the negation -/
theorem Rounds.neg {x : ℝ} {r : UF} (h : Rounds x r) : Rounds (-x) r.neg := by
  refine ⟨?_, ?_, ?_⟩
  · have := h.1; cases r <;> simp_all [FZ, UnpackedFloat.neg]
  · have := h.2.1; cases r <;> simp_all [Canon, UnpackedFloat.neg]
  · rw [val_neg]; exact h.2.2.neg

/-- full(Float.Model): overflow clamping commutes with negation -/
theorem fin64_neg (u : UF) : fin64 u.neg = (fin64 u).neg := by
  rcases u with s | _ | s | ⟨s, m, e, hm⟩ <;> simp only [UnpackedFloat.neg, fin64]
  split_ifs <;> rfl

/-- full(Float): `Float.ofInt i` is the packed rounding of `i` -/
theorem U_ofInt (i : ℤ) : ∃ r, Rounds (i : ℝ) r ∧ U (Float.ofInt i) = fin64 r := by
  rcases i with n | n
  · obtain ⟨r, h1, h2⟩ := U_ofNat n
    exact ⟨r, by simpa using h1, h2⟩
  · obtain ⟨r, h1, h2⟩ := U_ofNat (n + 1)
    refine ⟨r.neg, ?_, ?_⟩
    · have := h1.neg
      rw [Int.cast_negSucc]
      exact_mod_cast this
    · show U (-(Float.ofNat (n + 1))) = _
      rw [U_neg, h2, fin64_neg]

end Statrs.Lemmas.FloatModel
