/-
  Statrs.Lemmas.FloatModelOrder — on canonical finite-or-zero unpacked floats, IEEE comparison is
  comparison of the real values (`le_iff_val`, `lt_iff_val`, `beq_iff_val`); overflow-to-infinity
  `fin64` is monotone (`fin64_mono`) and preserves the predicates.
-/
import Statrs.Lemmas.FloatModelRound
namespace Statrs.Lemmas.FloatModel
open Float.Model
open Float.Model.UnpackedFloat

/-- full(ℝ): canonical (mantissa, exponent) pairs: lexicographically smaller ⇒ smaller value -/
theorem canon_pos_lt {m m' : ℕ} {e e' : ℤ} (hm : m < 2 ^ 53) (he : -1074 ≤ e)
    (hc' : e' = -1074 ∨ 2 ^ 52 ≤ m') (h : e < e' ∨ (e = e' ∧ m < m')) :
    (m : ℝ) * (2 : ℝ) ^ e < (m' : ℝ) * (2 : ℝ) ^ e' := by
  have hp : (0 : ℝ) < (2 : ℝ) ^ e := by positivity
  have hp' : (0 : ℝ) < (2 : ℝ) ^ e' := by positivity
  rcases h with h | ⟨rfl, h⟩
  · have h2 : (2 : ℝ) ^ (52 : ℕ) ≤ (m' : ℝ) := by
      exact_mod_cast hc'.resolve_left (by omega)
    have h1 : (m : ℝ) < (2 : ℝ) ^ (53 : ℕ) := by exact_mod_cast hm
    have e3 : (2 : ℝ) ^ (e + (53 : ℕ)) ≤ (2 : ℝ) ^ (e' + (52 : ℕ)) :=
      zpow_le_zpow_right₀ (by norm_num) (by push_cast; omega)
    rw [zpow_add_nat, zpow_add_nat] at e3
    calc (m : ℝ) * (2 : ℝ) ^ e < (2 : ℝ) ^ (53 : ℕ) * (2 : ℝ) ^ e := mul_lt_mul_of_pos_right h1 hp
      _ = (2 : ℝ) ^ e * (2 : ℝ) ^ (53 : ℕ) := by ring
      _ ≤ (2 : ℝ) ^ e' * (2 : ℝ) ^ (52 : ℕ) := e3
      _ = (2 : ℝ) ^ (52 : ℕ) * (2 : ℝ) ^ e' := by ring
      _ ≤ (m' : ℝ) * (2 : ℝ) ^ e' := mul_le_mul_of_nonneg_right h2 hp'.le
  · have : (m : ℝ) < m' := by exact_mod_cast h
    exact mul_lt_mul_of_pos_right this hp

/-- full(Float.Model): on canonical finite-or-zero floats a smaller key means a smaller value -/
theorem klt_val {u v : UF} (hu : FZ u) (hv : FZ v) (cu : Canon u) (cv : Canon v)
    (h : klt (key u) (key v)) : val u < val v := by
  rcases u with s | _ | s | ⟨s, m, e, hm⟩ <;> simp only [FZ] at hu <;>
  rcases v with s' | _ | s' | ⟨s', m', e', hm'⟩ <;> simp only [FZ] at hv
  · simp [klt, key] at h
  · have : (0 : ℝ) < (m' : ℝ) * (2 : ℝ) ^ e' := by positivity
    cases s' <;> simp [klt, key] at h
    simpa [val, sgn] using this
  · have : (0 : ℝ) < (m : ℝ) * (2 : ℝ) ^ e := by positivity
    cases s <;> simp [klt, key] at h
    simpa [val, sgn] using this
  · have p1 : (0 : ℝ) < (m : ℝ) * (2 : ℝ) ^ e := by positivity
    have p2 : (0 : ℝ) < (m' : ℝ) * (2 : ℝ) ^ e' := by positivity
    simp only [Canon] at cu cv
    cases s <;> cases s' <;> simp only [klt, key, val, sgn] at h ⊢
    · have := canon_pos_lt (m := m') (m' := m) (e := e') (e' := e) cv.2.1 cv.1 cu.2.2 (by omega)
      linarith
    · linarith
    · omega
    · have := canon_pos_lt (m := m) (m' := m') (e := e) (e' := e') cu.2.1 cu.1 cv.2.2 (by omega)
      linarith

/-- full(Float.Model): equal keys mean equal values -/
theorem keq_val {u v : UF} (hu : FZ u) (hv : FZ v) (h : key u = key v) : val u = val v := by
  rcases u with s | _ | s | ⟨s, m, e, hm⟩ <;> simp only [FZ] at hu <;>
  rcases v with s' | _ | s' | ⟨s', m', e', hm'⟩ <;> simp only [FZ] at hv
  · rfl
  · cases s' <;> simp [key] at h
  · cases s <;> simp [key] at h
  · cases s <;> cases s' <;> simp [key] at h <;> obtain ⟨rfl, h⟩ := h
    · have : m = m' := by omega
      subst this; rfl
    · have : m = m' := by omega
      subst this; rfl

/-- full(Float.Model): finite-or-zero values are not NaN -/
theorem fz_nn {u : UF} (h : FZ u) : u.isNaN = false := by cases u <;> simp_all [FZ, UnpackedFloat.isNaN]
/-- full(Float.Model): finite-or-zero values are not infinite -/
theorem fz_not_inf {u : UF} (h : FZ u) : u.isInf = false := by
  cases u <;> simp_all [FZ, UnpackedFloat.isInf]
/-- full(Float.Model): `FZ` is `isFinite` -/
theorem fz_iff (u : UF) : FZ u ↔ u.isFinite = true := by cases u <;> simp [FZ, UnpackedFloat.isFinite]

private theorem ktri (a b : ℤ × ℤ × ℤ) : klt a b ∨ a = b ∨ klt b a := by
  obtain ⟨a1, a2, a3⟩ := a; obtain ⟨b1, b2, b3⟩ := b
  simp only [klt, Prod.mk.injEq]; omega
private theorem kle_iff (a b : ℤ × ℤ × ℤ) : kle a b ↔ klt a b ∨ a = b := by
  obtain ⟨a1, a2, a3⟩ := a; obtain ⟨b1, b2, b3⟩ := b
  simp only [klt, kle, Prod.mk.injEq]; omega

/-- full(Float.Model): IEEE `≤` on canonical finite-or-zero floats is `≤` of the real values -/
theorem le_iff_val {u v : UF} (hu : FZ u) (hv : FZ v) (cu : Canon u) (cv : Canon v) :
    u.le v = true ↔ val u ≤ val v := by
  rw [le_iff_key _ _ (fz_nn hu) (fz_nn hv), kle_iff]
  constructor
  · rintro (h | h)
    · exact (klt_val hu hv cu cv h).le
    · exact (keq_val hu hv h).le
  · intro h
    rcases ktri (key u) (key v) with h1 | h1 | h1
    · exact Or.inl h1
    · exact Or.inr h1
    · exact absurd (klt_val hv hu cv cu h1) (not_lt.2 h)

/-- full(Float.Model): IEEE `<` on canonical finite-or-zero floats is `<` of the real values -/
theorem lt_iff_val {u v : UF} (hu : FZ u) (hv : FZ v) (cu : Canon u) (cv : Canon v) :
    u.lt v = true ↔ val u < val v := by
  rw [ult_iff, le_iff_val hu hv cu cv, le_iff_val hv hu cv cu]
  constructor
  · rintro ⟨h1, h2⟩; exact lt_of_not_ge h2
  · intro h; exact ⟨h.le, not_le.2 h⟩

/-- full(Float.Model): IEEE `==` on canonical finite-or-zero floats is equality of the real values -/
theorem beq_iff_val {u v : UF} (hu : FZ u) (hv : FZ v) (cu : Canon u) (cv : Canon v) :
    u.beq v = true ↔ val u = val v := by
  rw [ubeq_iff, le_iff_val hu hv cu cv, le_iff_val hv hu cv cu]
  constructor
  · rintro ⟨h1, h2⟩; exact le_antisymm h1 h2
  · intro h; exact ⟨h.le, h.ge⟩

/-! ### overflow to infinity -/

/-- full(Float.Model): overflow clamping keeps NaN-ness -/
theorem fin64_isNaN (u : UF) : (fin64 u).isNaN = u.isNaN := by
  rcases u with s | _ | s | ⟨s, m, e, hm⟩
  · rfl
  · rfl
  · rfl
  · simp only [fin64]; split_ifs <;> rfl

/-- full(Float.Model): overflow clamping fixes NaN -/
theorem fin64_nan : fin64 .notANumber = .notANumber := rfl
/-- full(Float.Model): overflow clamping fixes ±∞ -/
theorem fin64_inf (s : Sign) : fin64 (.infinity s) = .infinity s := rfl
/-- full(Float.Model): overflow clamping fixes ±0 -/
theorem fin64_zero (s : Sign) : fin64 (.zero s) = .zero s := rfl

/-- full(Float.Model): overflow to infinity is monotone on canonical values -/
theorem fin64_mono {u v : UF} (h : u.le v = true) : (fin64 u).le (fin64 v) = true := by
  have hn := le_nn h
  rw [le_iff_key _ _ hn.1 hn.2] at h
  rw [le_iff_key _ _ (by rw [fin64_isNaN]; exact hn.1) (by rw [fin64_isNaN]; exact hn.2)]
  rcases u with s | _ | s | ⟨s, m, e, hm⟩ <;> rcases v with s' | _ | s' | ⟨s', m', e', hm'⟩ <;>
    (try cases s) <;> (try cases s') <;> simp only [fin64] <;> (try split_ifs) <;>
    simp_all [key, kle, UnpackedFloat.isNaN] <;> omega

/-- full(Float.Model): a zero stays a zero, a value `== 0` stays `== 0` -/
theorem fin64_val_zero {u : UF} (hu : FZ u) (h : val u = 0) : ∃ s, u = .zero s := by
  rcases u with s | _ | s | ⟨s, m, e, hm⟩ <;> simp only [FZ] at hu
  · exact ⟨s, rfl⟩
  · exfalso
    have : (0 : ℝ) < (m : ℝ) * (2 : ℝ) ^ e := by positivity
    cases s <;> simp only [val, sgn] at h <;> linarith

end Statrs.Lemmas.FloatModel
