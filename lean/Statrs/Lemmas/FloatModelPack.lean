/-
  Statrs.Lemmas.FloatModelPack — `pack`/`unpack` of the binary64 model:
    * `Canon u` : `u` is in canonical form for binary64 (53-bit mantissa, or exponent −1074 and a shorter
      mantissa); `Rep u` : canonical and not overflowing (exponent ≤ 971) — the representable values;
    * `rep_unpack` : every bit pattern unpacks to a representable value (`rep_U` for `Float`);
    * `unpack_pack` : for canonical `u`, `unpack (pack u) = fin64 u`, where `fin64` sends the canonical
      values that do not fit (exponent > 971) to the infinity of their sign and is the identity otherwise.
-/
import Statrs.Lemmas.FloatModelBasic
namespace Statrs.Lemmas.FloatModel
open Statrs
open Float.Model
open Float.Model.UnpackedFloat

/-- canonical form for binary64 -/
def Canon : UF → Prop
  | .finite _ m e _ => -1074 ≤ e ∧ m < 2 ^ 53 ∧ (e = -1074 ∨ 2 ^ 52 ≤ m)
  | _ => True

/-- representable in binary64: canonical and in range -/
def Rep : UF → Prop
  | .finite _ m e _ => -1074 ≤ e ∧ e ≤ 971 ∧ m < 2 ^ 53 ∧ (e = -1074 ∨ 2 ^ 52 ≤ m)
  | _ => True

/-- overflow to infinity (what `pack` does with a canonical value that is too large) -/
def fin64 : UF → UF
  | .finite s m e h => if 971 < e then .infinity s else .finite s m e h
  | u => u

/-- full(Float.Model): representable values are canonical -/
theorem Rep.canon {u : UF} (h : Rep u) : Canon u := by
  cases u <;> simp_all [Rep, Canon]

/-- full(Float.Model): overflow clamping fixes representable values -/
theorem fin64_of_rep {u : UF} (h : Rep u) : fin64 u = u := by
  cases u <;> simp_all [Rep, fin64]

/-- full(Float.Model): clamped canonical values are representable -/
theorem rep_fin64 {u : UF} (h : Canon u) : Rep (fin64 u) := by
  rcases u with s | _ | s | ⟨s, m, e, hm⟩ <;> simp_all [Rep, fin64, Canon]
  split_ifs <;> simp
  omega

/-- full(Float.Model): `unpackSign` recovers the sign bit (missing from core's Pack/Lemmas) -/
theorem unpackSign_packComponents {spec : Format} {sign exponent mantissa} :
    unpackSign (packComponents spec sign exponent mantissa) = sign.toBitVec := by
  ext i hi
  simp [unpackSign, packComponents, BitVec.getLsbD_append]
  have : i = 0 := by omega
  subst this
  simp

/-- full(Float.Model): sign ↔ bit round trip -/
theorem sign_rt (s : Sign) : Sign.ofBitVec s.toBitVec = s := by cases s <;> rfl

/-- full(ℕ): 53-bit numbers have `log2 = 52` -/
theorem log2_eq_52 {m : ℕ} (h1 : 2 ^ 52 ≤ m) (h2 : m < 2 ^ 53) : m.log2 = 52 := by
  have hm : m ≠ 0 := by omega
  have a := (Nat.le_log2 hm (k := 52)).2 h1
  have b := (Nat.log2_lt hm (k := 53)).2 h2
  omega

/-- full(ℕ): numbers below `2^52` have `log2 < 52` -/
theorem log2_lt_52 {m : ℕ} (h2 : m < 2 ^ 52) : m.log2 < 52 := by
  by_cases hm : m = 0
  · subst hm; simp
  · exact (Nat.log2_lt hm (k := 52)).2 h2

/-- full(Float.Model): `unpack (pack u) = u` for normal `u` -/
theorem unpack_pack_normal (s : Sign) (m : ℕ) (e : ℤ) (hm : 0 < m) (h1 : 2 ^ 52 ≤ m) (h2 : m < 2 ^ 53)
    (he1 : -1074 ≤ e) (he2 : e ≤ 971) :
    UnpackedFloat.unpack .binary64 (UnpackedFloat.pack .binary64 (.finite s m e hm)) = .finite s m e hm := by
  have hl := log2_eq_52 h1 h2
  obtain ⟨n, rfl⟩ : ∃ n : ℕ, e = (n : ℤ) - 1075 := ⟨(e + 1075).toNat, by omega⟩
  have hb : ((n : ℤ) - 1075 + (Format.binary64.exponentBias : ℤ) + (Format.binary64.mantissaBitsWithoutImplicit : ℤ)).toNat = n := by
    simp [Format.exponentBias]; omega
  have hn1 : 1 ≤ n := by omega
  have hn2 : n ≤ 2046 := by omega
  simp only [UnpackedFloat.pack, hl, hb]
  rw [if_neg (by simp; omega), if_pos (by simp [Format.mantissaBits])]
  simp only [UnpackedFloat.unpack, unpackMantissa_packComponents, unpackExponent_packComponents, unpackSign_packComponents, sign_rt]
  have e1 : BitVec.ofNat 11 n ≠ -1#11 := by
    intro h; have := congrArg BitVec.toNat h; simp at this; omega
  have e2 : BitVec.ofNat 11 n ≠ 0#11 := by
    intro h; have := congrArg BitVec.toNat h; simp at this; omega
  rw [if_neg e1, if_neg e2]
  congr 1
  · clear hb
    rw [BitVec.toNat_append]
    have : (BitVec.ofNat 52 m).toNat = m - 2 ^ 52 := by simp; omega
    rw [this]
    have h3 : m - 2 ^ 52 < 2 ^ 52 := by omega
    have := Nat.two_pow_add_eq_or_of_lt h3 1
    have h4 : (1#1).toNat <<< 52 = 2 ^ 52 * 1 := by decide
    rw [h4, ← this]; omega
  · clear hb; simp [Format.exponentBias]; omega

/-- full(Float.Model): `unpack (pack u) = u` for subnormal `u` -/
theorem unpack_pack_subnormal (s : Sign) (m : ℕ) (hm : 0 < m) (h2 : m < 2 ^ 52) :
    UnpackedFloat.unpack .binary64 (UnpackedFloat.pack .binary64 (.finite s m (-1074) hm))
      = .finite s m (-1074) hm := by
  have hl := log2_lt_52 h2
  have hb : ((-1074 : ℤ) + (Format.binary64.exponentBias : ℤ) + (Format.binary64.mantissaBitsWithoutImplicit : ℤ)).toNat = 1 := by
    simp [Format.exponentBias]
  simp only [UnpackedFloat.pack, hb]
  rw [if_neg (by simp), if_neg (by simp [Format.mantissaBits]; omega)]
  simp only [UnpackedFloat.unpack, unpackMantissa_packComponents, unpackExponent_packComponents, unpackSign_packComponents, sign_rt]
  have e1 : (0#11 : BitVec 11) ≠ -1#11 := by decide
  have e3 : BitVec.ofNat 52 m ≠ 0#52 := by
    intro h; have := congrArg BitVec.toNat h; simp at this; omega
  rw [if_neg e1, if_pos True.intro, dif_neg e3]
  congr 1
  simp; omega

/-- full(Float.Model): a finite value with exponent > 971 packs to the infinity of its sign -/
theorem unpack_pack_overflow (s : Sign) (m : ℕ) (e : ℤ) (hm : 0 < m) (he2 : 971 < e) :
    UnpackedFloat.unpack .binary64 (UnpackedFloat.pack .binary64 (.finite s m e hm)) = .infinity s := by
  have hb : 2 ^ Format.binary64.exponentBits ≤ (e + (Format.binary64.exponentBias : ℤ) + (Format.binary64.mantissaBitsWithoutImplicit : ℤ)).toNat + 1 := by
    simp [Format.exponentBias]; omega
  simp only [UnpackedFloat.pack]
  rw [if_pos hb]
  simp only [UnpackedFloat.unpack, packedInfinity, unpackMantissa_packComponents, unpackExponent_packComponents, unpackSign_packComponents, sign_rt]
  simp

/-- full(Float.Model): `unpack (pack ±∞) = ±∞` -/
theorem unpack_pack_inf (s : Sign) :
    UnpackedFloat.unpack .binary64 (UnpackedFloat.pack .binary64 (.infinity s)) = .infinity s := by
  simp only [UnpackedFloat.pack, UnpackedFloat.unpack, packedInfinity, unpackMantissa_packComponents,
    unpackExponent_packComponents, unpackSign_packComponents, sign_rt]
  simp
/-- full(Float.Model): `unpack (pack ±0) = ±0` -/
theorem unpack_pack_zero (s : Sign) :
    UnpackedFloat.unpack .binary64 (UnpackedFloat.pack .binary64 (.zero s)) = .zero s := by
  simp only [UnpackedFloat.pack, UnpackedFloat.unpack, packedZero, unpackMantissa_packComponents,
    unpackExponent_packComponents, unpackSign_packComponents, sign_rt]
  simp
/-- full(Float.Model): `unpack (pack NaN) = NaN` -/
theorem unpack_pack_nan :
    UnpackedFloat.unpack .binary64 (UnpackedFloat.pack .binary64 .notANumber) = .notANumber := by
  simp only [UnpackedFloat.pack, UnpackedFloat.unpack, packedNaN, unpackMantissa_packComponents,
    unpackExponent_packComponents, unpackSign_packComponents, sign_rt]
  simp

/-- full(Float.Model): `unpack ∘ pack` on canonical values is overflow-to-infinity -/
theorem unpack_pack64 (u : UF) (h : Canon u) :
    UnpackedFloat.unpack .binary64 (UnpackedFloat.pack .binary64 u) = fin64 u := by
  rcases u with s | _ | s | ⟨s, m, e, hm⟩
  · exact unpack_pack_inf s
  · exact unpack_pack_nan
  · exact unpack_pack_zero s
  · simp only [Canon] at h
    simp only [fin64]
    split_ifs with he
    · exact unpack_pack_overflow s m e hm he
    · rcases h.2.2 with h3 | h3
      · by_cases h4 : 2 ^ 52 ≤ m
        · exact unpack_pack_normal s m e hm h4 h.2.1 h.1 (by omega)
        · subst h3; exact unpack_pack_subnormal s m hm (by omega)
      · exact unpack_pack_normal s m e hm h3 h.2.1 h.1 (by omega)

/-- full(Float.Model): the same for the `Float.Model` wrappers -/
theorem unpack_pack (u : UF) (h : Canon u) : (Float.Model.pack u).unpack = fin64 u :=
  unpack_pack64 u h

/-- full(Float.Model): every bit pattern unpacks to a representable value -/
theorem rep_unpack (b : BitVec 64) : Rep (UnpackedFloat.unpack .binary64 b) := by
  unfold UnpackedFloat.unpack
  simp only
  split_ifs with h1 h2 h3 h4 <;> simp only [Rep]
  · have := (unpackMantissa (spec := .binary64) b).isLt
    rw [h3]
    refine ⟨by simp [Format.exponentBias], by simp [Format.exponentBias], ?_, Or.inl (by simp [Format.exponentBias])⟩
    simp at this ⊢
    omega
  · have hlt := (unpackExponent (spec := .binary64) b).isLt
    have hm := (unpackMantissa (spec := .binary64) b).isLt
    have e1 : (unpackExponent (spec := .binary64) b).toNat ≠ 2047 := by
      intro h; apply h1; apply BitVec.eq_of_toNat_eq; rw [h]; decide
    have e2 : (unpackExponent (spec := .binary64) b).toNat ≠ 0 := by
      intro h; apply h3; apply BitVec.eq_of_toNat_eq; rw [h]; decide
    have h4 : (1#1 ++ unpackMantissa (spec := .binary64) b).toNat
        = 2 ^ 52 + (unpackMantissa (spec := .binary64) b).toNat := by
      rw [BitVec.toNat_append]
      have h3 : (unpackMantissa (spec := .binary64) b).toNat < 2 ^ 52 := hm
      have := Nat.two_pow_add_eq_or_of_lt h3 1
      have h4 : (1#1).toNat <<< 52 = 2 ^ 52 * 1 := by decide
      rw [h4, ← this]; omega
    rw [h4]
    simp only [Format.exponentBias] at *
    simp at hlt hm ⊢
    omega

/-- full(Float): every `Float` is a representable value -/
theorem rep_U (a : Float) : Rep (U a) := rep_unpack _

/-- full(Float): every `Float` unpacks to a canonical value -/
theorem canon_U (a : Float) : Canon (U a) := (rep_U a).canon

/-- full(Float): `U` of a packed canonical value -/
theorem U_ofModel_pack (u : UF) (h : Canon u) : U (Float.ofModel (Float.Model.pack u)) = fin64 u :=
  unpack_pack u h

/-! ### the arithmetic operations of `Float` on the unpacked view -/

/-- full(Float): `a + b` on the unpacked view (definitional) -/
theorem U_add (a b : Float) :
    U (a + b) = (Float.Model.pack (UnpackedFloat.add .binary64 (U a) (U b))).unpack := rfl
/-- full(Float): `a - b` on the unpacked view (definitional) -/
theorem U_sub (a b : Float) :
    U (a - b) = (Float.Model.pack (UnpackedFloat.sub .binary64 (U a) (U b))).unpack := rfl
/-- full(Float): `a * b` on the unpacked view (definitional) -/
theorem U_mul (a b : Float) :
    U (a * b) = (Float.Model.pack (UnpackedFloat.mul .binary64 (U a) (U b))).unpack := rfl
/-- full(Float): `a / b` on the unpacked view (definitional) -/
theorem U_div (a b : Float) :
    U (a / b) = (Float.Model.pack (UnpackedFloat.div .binary64 (U a) (U b))).unpack := rfl
/-- full(Float): `sqrt a` on the unpacked view (definitional) -/
theorem U_sqrt (a : Float) :
    U (RFun.sqrt a) = (Float.Model.pack (UnpackedFloat.sqrt .binary64 (U a))).unpack := rfl
/-- full(Float): `-a` on the unpacked view (definitional) -/
theorem U_neg_raw (a : Float) : U (-a) = (Float.Model.pack (U a).neg).unpack := rfl

/-- full(Float.Model): negation keeps representability -/
theorem rep_neg {u : UF} (h : Rep u) : Rep u.neg := by
  cases u <;> simp_all [Rep, UnpackedFloat.neg]

/-- full(Float): negation flips the sign field and nothing else -/
theorem U_neg (a : Float) : U (-a) = (U a).neg := by
  rw [U_neg_raw, unpack_pack _ (rep_neg (rep_U a)).canon, fin64_of_rep (rep_neg (rep_U a))]

/-- full(Float.Model): a NaN result survives packing -/
theorem unpack_pack_nan' : (Float.Model.pack .notANumber).unpack = .notANumber := unpack_pack_nan

/-! ### the special values and literals -/

/-- full(Float): `RFun.inf` is +∞ -/
theorem U_inf : U (RFun.inf : Float) = .infinity .positive := by decide
/-- full(Float): `RFun.negInf` is −∞ -/
theorem U_negInf : U (RFun.negInf : Float) = .infinity .negative := by decide
/-- full(Float): `RFun.nan` is NaN -/
theorem U_nan : U (RFun.nan : Float) = .notANumber := by decide
/-- full(Float): `0.0` is +0 -/
theorem U_zero : U (0.0 : Float) = .zero .positive := by decide
/-- full(Float): `1.0` is `2^52 · 2^-52` -/
theorem U_one : U (1.0 : Float) = .finite .positive (2 ^ 52) (-52) (by decide) := by decide

end Statrs.Lemmas.FloatModel
