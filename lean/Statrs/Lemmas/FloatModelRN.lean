/-
  Statrs.Lemmas.FloatModelRN — round-to-nearest-even into binary64, as a relation on real numbers.
  `IsRN x m t` : the non-negative real `x` lies in the binade/subnormal range with quantum `2^t`
  (`t = max (⌊log₂ x⌋ − 52) (−1074)`) and `m` is the round-half-even integer of `x / 2^t`; the rounded
  value is `m · 2^t`.  Pure real arithmetic (no reference to the float model):
    * `IsRN.mono`   : rounding is monotone,
    * `IsRN.unique` : the rounded value is determined by `x`,
    * `IsRN.self`   : canonical `m₀·2^t₀` rounds to itself.
-/
import Mathlib.Tactic
import Mathlib.Analysis.SpecialFunctions.Pow.Real
namespace Statrs.Lemmas.FloatModel

/-- `m` is the round-half-even integer of `q` -/
def RNE (q : ℝ) (m : ℕ) : Prop := |q - m| ≤ 1 / 2 ∧ (|q - m| = 1 / 2 → Even m)

/-- full(ℝ): round-half-even to an integer is monotone -/
theorem RNE.mono {q q' : ℝ} {m m' : ℕ} (h : RNE q m) (h' : RNE q' m') (hq : q ≤ q') : m ≤ m' := by
  by_contra hlt
  have hlt : m' + 1 ≤ m := by omega
  have hr : (m' : ℝ) + 1 ≤ m := by exact_mod_cast hlt
  have h1 := abs_le.1 h.1
  have h2 := abs_le.1 h'.1
  have e1 : q - m = -(1 / 2) := by linarith
  have e2 : q' - m' = 1 / 2 := by linarith
  have ev1 := h.2 (by rw [e1]; norm_num)
  have ev2 := h'.2 (by rw [e2]; norm_num)
  have : (m : ℝ) = m' + 1 := by linarith
  have : m = m' + 1 := by exact_mod_cast this
  rw [this] at ev1
  exact (Nat.even_add_one.1 ev1) ev2

/-- full(ℝ): an integer rounds to itself -/
theorem RNE.self (m : ℕ) : RNE (m : ℝ) m := by
  constructor
  · simp
  · intro h; simp at h

/-- `x ≥ 0` rounds (half-even, binary64 quantum `2^t`) to `m · 2^t` -/
def IsRN (x : ℝ) (m : ℕ) (t : ℤ) : Prop :=
  -1074 ≤ t ∧ 0 ≤ x ∧ x < (2 : ℝ) ^ (t + 53) ∧ (t = -1074 ∨ (2 : ℝ) ^ (t + 52) ≤ x) ∧
    RNE (x / (2 : ℝ) ^ t) m

private theorem two_zpow_pos (t : ℤ) : (0 : ℝ) < (2 : ℝ) ^ t := by positivity

/-- full(ℝ): `2^(t+n) = 2^t · 2^n` -/
theorem zpow_add_nat (t : ℤ) (n : ℕ) : (2 : ℝ) ^ (t + n) = (2 : ℝ) ^ t * (2 : ℝ) ^ n := by
  rw [zpow_add₀ (by norm_num : (2 : ℝ) ≠ 0)]; norm_cast

/-- full(ℝ): a rounded mantissa is at most `2^53` -/
theorem IsRN.le_two_pow {x : ℝ} {m : ℕ} {t : ℤ} (h : IsRN x m t) : m ≤ 2 ^ 53 := by
  obtain ⟨_, _, h3, _, h5, _⟩ := h
  have hp := two_zpow_pos t
  have e : (2 : ℝ) ^ (t + 53) = (2 : ℝ) ^ t * (2 : ℝ) ^ (53 : ℕ) := by exact_mod_cast zpow_add_nat t 53
  rw [e] at h3
  have hq : x / (2 : ℝ) ^ t < (2 : ℝ) ^ (53 : ℕ) := by
    rw [div_lt_iff₀ hp]; linarith
  have := abs_le.1 h5
  have hm : (m : ℝ) < (2 : ℝ) ^ (53 : ℕ) + 1 := by linarith
  have : (m : ℝ) < ((2 ^ 53 + 1 : ℕ) : ℝ) := by push_cast; linarith
  have : m < 2 ^ 53 + 1 := by exact_mod_cast this
  omega

/-- full(ℝ): above the subnormal quantum a rounded mantissa is at least `2^52` -/
theorem IsRN.two_pow_le {x : ℝ} {m : ℕ} {t : ℤ} (h : IsRN x m t) (ht : t ≠ -1074) : 2 ^ 52 ≤ m := by
  obtain ⟨_, _, _, h4, h5, _⟩ := h
  have h4 := h4.resolve_left ht
  have hp := two_zpow_pos t
  have e : (2 : ℝ) ^ (t + 52) = (2 : ℝ) ^ t * (2 : ℝ) ^ (52 : ℕ) := by exact_mod_cast zpow_add_nat t 52
  rw [e] at h4
  have hq : (2 : ℝ) ^ (52 : ℕ) ≤ x / (2 : ℝ) ^ t := by
    rw [le_div_iff₀ hp]; linarith
  have := abs_le.1 h5
  have hm : (2 : ℝ) ^ (52 : ℕ) - 1 < m := by linarith
  have : ((2 ^ 52 - 1 : ℕ) : ℝ) < (m : ℝ) := by
    rw [Nat.cast_sub (by norm_num)]; push_cast; linarith
  have : 2 ^ 52 - 1 < m := by exact_mod_cast this
  omega

/-- full(ℝ): rounding is monotone -/
theorem IsRN.mono {x y : ℝ} {m m' : ℕ} {t t' : ℤ} (h : IsRN x m t) (h' : IsRN y m' t') (hxy : x ≤ y) :
    (m : ℝ) * (2 : ℝ) ^ t ≤ (m' : ℝ) * (2 : ℝ) ^ t' := by
  have hp := two_zpow_pos t
  have hp' := two_zpow_pos t'
  rcases lt_trichotomy t t' with hlt | heq | hgt
  · -- a smaller binade: `m·2^t ≤ 2^(t+53) ≤ 2^(t'+52) ≤ m'·2^t'`
    have h1 : (m : ℝ) ≤ (2 : ℝ) ^ (53 : ℕ) := by exact_mod_cast h.le_two_pow
    have h2 : (2 : ℝ) ^ (52 : ℕ) ≤ (m' : ℝ) := by
      exact_mod_cast h'.two_pow_le (by have := h.1; omega)
    have e1 : (2 : ℝ) ^ (t + 53) = (2 : ℝ) ^ t * (2 : ℝ) ^ (53 : ℕ) := by exact_mod_cast zpow_add_nat t 53
    have e2 : (2 : ℝ) ^ (t' + 52) = (2 : ℝ) ^ t' * (2 : ℝ) ^ (52 : ℕ) := by exact_mod_cast zpow_add_nat t' 52
    have e3 : (2 : ℝ) ^ (t + 53) ≤ (2 : ℝ) ^ (t' + 52) :=
      zpow_le_zpow_right₀ (by norm_num) (by omega)
    calc (m : ℝ) * (2 : ℝ) ^ t ≤ (2 : ℝ) ^ (53 : ℕ) * (2 : ℝ) ^ t := by
          exact mul_le_mul_of_nonneg_right h1 hp.le
      _ = (2 : ℝ) ^ (t + 53) := by rw [e1]; ring
      _ ≤ (2 : ℝ) ^ (t' + 52) := e3
      _ = (2 : ℝ) ^ (52 : ℕ) * (2 : ℝ) ^ t' := by rw [e2]; ring
      _ ≤ (m' : ℝ) * (2 : ℝ) ^ t' := mul_le_mul_of_nonneg_right h2 hp'.le
  · subst heq
    have hq : x / (2 : ℝ) ^ t ≤ y / (2 : ℝ) ^ t := div_le_div_of_nonneg_right hxy hp.le
    have := RNE.mono h.2.2.2.2 h'.2.2.2.2 hq
    have : (m : ℝ) ≤ m' := by exact_mod_cast this
    exact mul_le_mul_of_nonneg_right this hp.le
  · -- impossible: `y < 2^(t'+53) ≤ 2^(t+52) ≤ x`
    exfalso
    have h4 := h.2.2.2.1.resolve_left (by have := h'.1; omega)
    have e3 : (2 : ℝ) ^ (t' + 53) ≤ (2 : ℝ) ^ (t + 52) :=
      zpow_le_zpow_right₀ (by norm_num) (by omega)
    have := h'.2.2.1
    linarith

/-- full(ℝ): the rounded value is determined by `x` -/
theorem IsRN.unique {x : ℝ} {m m' : ℕ} {t t' : ℤ} (h : IsRN x m t) (h' : IsRN x m' t') :
    (m : ℝ) * (2 : ℝ) ^ t = (m' : ℝ) * (2 : ℝ) ^ t' :=
  le_antisymm (h.mono h' le_rfl) (h'.mono h le_rfl)

/-- full(ℝ): a canonical dyadic rounds to itself -/
theorem IsRN.self {m : ℕ} {t : ℤ} (ht : -1074 ≤ t) (hm : m < 2 ^ 53) (hc : t = -1074 ∨ 2 ^ 52 ≤ m) :
    IsRN ((m : ℝ) * (2 : ℝ) ^ t) m t := by
  have hp := two_zpow_pos t
  refine ⟨ht, by positivity, ?_, ?_, ?_⟩
  · have e1 : (2 : ℝ) ^ (t + 53) = (2 : ℝ) ^ t * (2 : ℝ) ^ (53 : ℕ) := by exact_mod_cast zpow_add_nat t 53
    rw [e1, mul_comm]
    have : (m : ℝ) < (2 : ℝ) ^ (53 : ℕ) := by exact_mod_cast hm
    exact mul_lt_mul_of_pos_left this hp
  · rcases hc with hc | hc
    · exact Or.inl hc
    · right
      have e1 : (2 : ℝ) ^ (t + 52) = (2 : ℝ) ^ t * (2 : ℝ) ^ (52 : ℕ) := by exact_mod_cast zpow_add_nat t 52
      rw [e1, mul_comm (m : ℝ)]
      have : (2 : ℝ) ^ (52 : ℕ) ≤ (m : ℝ) := by exact_mod_cast hc
      exact mul_le_mul_of_nonneg_left this hp.le
  · rw [mul_div_assoc, div_self hp.ne', mul_one]; exact RNE.self m

/-- full(ℝ): exactness: a canonical dyadic value is returned unchanged by any correct rounding -/
theorem IsRN.exact {m m₀ : ℕ} {t t₀ : ℤ} (ht : -1074 ≤ t₀) (hm : m₀ < 2 ^ 53)
    (hc : t₀ = -1074 ∨ 2 ^ 52 ≤ m₀) (h : IsRN ((m₀ : ℝ) * (2 : ℝ) ^ t₀) m t) :
    (m : ℝ) * (2 : ℝ) ^ t = (m₀ : ℝ) * (2 : ℝ) ^ t₀ :=
  h.unique (IsRN.self ht hm hc)

end Statrs.Lemmas.FloatModel
