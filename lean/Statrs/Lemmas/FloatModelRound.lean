/-
  Statrs.Lemmas.FloatModelRound — what `UnpackedFloat.roundWithAccuracy` / `round` / `normalize` compute
  for binary64, in terms of the real-number relation `IsRN` (FloatModelRN):
    * `rwa_spec`  : for a mantissa/exponent/accuracy triple describing the real `x = (m+δ)·2^e` whose exponent
                    is not above its target, `roundWithAccuracy` returns `mk s m' t` with `IsRN x m' t`;
    * `round_spec`, `normalize_spec` : the same for `round` (any exponent) and `normalize` (signed mantissa);
    * `val`, `FZ`, `RNv`, `Rounds` : real value of a finite/zero unpacked float, and "`u` is a canonical
      finite/zero float whose value is the round-to-nearest-even of the real `x`";
      `Rounds.mono` (monotone), `Rounds.self` (identity on canonical values), `Rounds.val_eq` (exactness).
-/
import Statrs.Lemmas.FloatModelPack
import Statrs.Lemmas.FloatModelRN
namespace Statrs.Lemmas.FloatModel
open Float.Model
open Float.Model.UnpackedFloat

/-- canonical constructor from a rounded mantissa -/
def mk (s : Sign) (m : ℕ) (t : ℤ) : UF :=
  if m = 2 ^ 53 then .finite s (2 ^ 52) (t + 1) (by decide)
  else if h : m = 0 then .zero s else .finite s m t (Nat.pos_of_ne_zero h)

/-- full(Float.Model): `roundWithAccuracy` with the `let`-patterns projected -/
theorem rwa_eq (spec : Format) (s : Sign) (m : ℕ) (e : ℤ) (acc : Accuracy) :
    roundWithAccuracy spec s m e acc =
      (if h : (shiftToTargetExponent spec (shiftToTargetExponent spec m e acc).1.roundedMantissa
                (shiftToTargetExponent spec m e acc).2 .exact).1.mantissa = 0 then .zero s
       else .finite s (shiftToTargetExponent spec (shiftToTargetExponent spec m e acc).1.roundedMantissa
                (shiftToTargetExponent spec m e acc).2 .exact).1.mantissa
              (shiftToTargetExponent spec (shiftToTargetExponent spec m e acc).1.roundedMantissa
                (shiftToTargetExponent spec m e acc).2 .exact).2 (Nat.pos_of_ne_zero h)) := rfl

/-- full(Float.Model): `>>>` on extended mantissas is iterated `shiftRightOne` -/
theorem em_shift (em : ExtendedMantissa) (k : ℕ) :
    em >>> k = Nat.repeat ExtendedMantissa.shiftRightOne k em := rfl

/-- the fractional part `δ ∈ [0,1)` described by an `Accuracy` -/
def Acc (δ : ℝ) : Accuracy → Prop
  | .exact => δ = 0
  | .inexact .lt => 0 < δ ∧ δ < 1 / 2
  | .inexact .eq => δ = 1 / 2
  | .inexact .gt => 1 / 2 < δ ∧ δ < 1

/-- full(ℝ): the described fraction is ≥ 0 -/
theorem Acc.nonneg {δ : ℝ} {a : Accuracy} (h : Acc δ a) : 0 ≤ δ := by
  rcases a with _ | (_ | _ | _) <;> simp only [Acc] at h <;> linarith
/-- full(ℝ): the described fraction is < 1 -/
theorem Acc.lt_one {δ : ℝ} {a : Accuracy} (h : Acc δ a) : δ < 1 := by
  rcases a with _ | (_ | _ | _) <;> simp only [Acc] at h <;> linarith

/-- full(Float.Model): `ofMantissaAndAccuracy` stores the mantissa and the accuracy -/
theorem accuracy_ofMA (m : ℕ) (a : Accuracy) :
    (ExtendedMantissa.ofMantissaAndAccuracy m a).accuracy = a ∧
    (ExtendedMantissa.ofMantissaAndAccuracy m a).mantissa = m := by
  rcases a with _ | (_ | _ | _) <;> exact ⟨rfl, rfl⟩

/-- full(Float.Model): one right shift halves the described real and keeps the round/sticky description exact -/
theorem shiftRightOne_acc (em : ExtendedMantissa) (q : ℝ) (h : Acc (q - em.mantissa) em.accuracy) :
    Acc (q / 2 - em.shiftRightOne.mantissa) em.shiftRightOne.accuracy := by
  obtain ⟨m, r, st⟩ := em
  have hm : (m : ℝ) = 2 * ((m / 2 : ℕ) : ℝ) + ((m % 2 : ℕ) : ℝ) := by
    exact_mod_cast (Nat.div_add_mod m 2).symm
  rcases Nat.mod_two_eq_zero_or_one m with h2 | h2 <;> cases r <;> cases st <;>
    simp only [ExtendedMantissa.shiftRightOne, ExtendedMantissa.accuracy, h2, Acc, Bool.or_false, Bool.or_true, bne_self_eq_false, Nat.cast_zero, Nat.cast_one, add_zero] at h hm ⊢ <;>
    (try simp) <;> (try obtain ⟨h1, h2⟩ := h) <;>
    first | linarith | (constructor <;> linarith)

/-- full(Float.Model): one right shift halves the mantissa -/
theorem shiftRightOne_mantissa (em : ExtendedMantissa) : em.shiftRightOne.mantissa = em.mantissa / 2 := rfl

/-- full(Float.Model): `k` right shifts divide the described real by `2^k` -/
theorem repeat_acc (em : ExtendedMantissa) (q : ℝ) (h : Acc (q - em.mantissa) em.accuracy) (k : ℕ) :
    Acc (q / 2 ^ k - (em >>> k).mantissa) (em >>> k).accuracy ∧
      (em >>> k).mantissa = em.mantissa / 2 ^ k := by
  induction k with
  | zero => simpa [em_shift, Nat.repeat] using h
  | succ k ih =>
    have e : em >>> (k + 1) = (em >>> k).shiftRightOne := rfl
    rw [e]
    refine ⟨?_, ?_⟩
    · have := shiftRightOne_acc _ _ ih.1
      rwa [div_div, ← pow_succ] at this
    · rw [shiftRightOne_mantissa, ih.2, Nat.div_div_eq_div_mul, ← pow_succ]

/-- full(Float.Model): `roundToNearestEven` is round-half-even of the described real -/
theorem rne_of_acc (q : ℝ) (m : ℕ) (a : Accuracy) (h : Acc (q - m) a) :
    RNE q (a.roundToNearestEven m) := by
  rcases a with _ | (_ | _ | _) <;> simp only [Acc] at h <;>
    simp only [Accuracy.roundToNearestEven, RNE]
  · rw [h]; simp
  · have : |q - m| < 1 / 2 := by rw [abs_lt]; constructor <;> linarith
    exact ⟨this.le, fun h' => absurd h' this.ne⟩
  · rcases Nat.mod_two_eq_zero_or_one m with h2 | h2 <;> rw [h2]
    · simp only [add_zero]; rw [h]
      exact ⟨by norm_num, fun _ => Nat.even_iff.2 h2⟩
    · have : q - ((m + 1 : ℕ) : ℝ) = -(1 / 2) := by push_cast; linarith
      rw [this]
      exact ⟨by norm_num, fun _ => by rw [Nat.even_add_one, Nat.not_even_iff]; exact h2⟩
  · have e : q - ((m + 1 : ℕ) : ℝ) = (q - m) - 1 := by push_cast; ring
    have : |q - ((m + 1 : ℕ) : ℝ)| < 1 / 2 := by rw [e, abs_lt]; constructor <;> linarith
    exact ⟨this.le, fun h' => absurd h' this.ne⟩

/-- full(Float.Model): binary64 target exponent: `max (te − 53) (−1074)` -/
theorem target64 (te : ℤ) : Format.binary64.targetExponent te = max (te - 53) (-1074) := by
  simp [Format.targetExponent, Format.mantissaBits, Format.minExponent]

/-- full(ℕ): `log2 (2^53) = 53` -/
theorem log2_two_pow_53 : (2 ^ 53 : ℕ).log2 = 53 := Nat.log2_two_pow

/-- full(Float.Model): the second shift of `roundWithAccuracy` only renormalises a mantissa that rounded up to `2^53` -/
theorem second_shift (m' : ℕ) (t : ℤ) (ht : -1074 ≤ t) (hm : m' ≤ 2 ^ 53) (hc : t = -1074 ∨ 2 ^ 52 ≤ m') :
    (shiftToTargetExponent .binary64 m' t .exact).1.mantissa = (if m' = 2 ^ 53 then 2 ^ 52 else m') ∧
    (shiftToTargetExponent .binary64 m' t .exact).2 = (if m' = 2 ^ 53 then t + 1 else t) := by
  unfold shiftToTargetExponent shiftToExponent
  simp only [target64, totalExponent]
  by_cases h53 : m' = 2 ^ 53
  · subst h53
    rw [log2_two_pow_53]
    have : (max (((53 : ℕ) : ℤ) + 1 + t - 53) (-1074) - t).toNat = 1 := by omega
    rw [this]
    simp [em_shift, Nat.repeat, ExtendedMantissa.shiftRightOne, ExtendedMantissa.ofMantissaAndAccuracy]
  · have hlt : m' < 2 ^ 53 := by omega
    have : (max ((m'.log2 : ℤ) + 1 + t - 53) (-1074) - t).toNat = 0 := by
      by_cases h52 : 2 ^ 52 ≤ m'
      · rw [log2_eq_52 h52 hlt]; omega
      · have := log2_lt_52 (m := m') (by omega)
        have ht' : t = -1074 := by omega
        omega
    rw [this]
    simp [em_shift, Nat.repeat, ExtendedMantissa.ofMantissaAndAccuracy]
    omega

/-- full(Float.Model): `roundWithAccuracy` returns `mk s m' t` with `IsRN x m' t` for the described real `x = (m+δ)·2^e` (exponent not above target) -/
theorem rwa_spec (s : Sign) (m : ℕ) (e : ℤ) (acc : Accuracy) (δ : ℝ) (hδ : Acc δ acc)
    (hle : e ≤ Format.binary64.targetExponent (totalExponent m e)) :
    ∃ m' t, IsRN (((m : ℝ) + δ) * (2 : ℝ) ^ e) m' t ∧
      roundWithAccuracy .binary64 s m e acc = mk s m' t := by
  rw [target64, totalExponent] at hle
  set t : ℤ := max ((m.log2 : ℤ) + 1 + e - 53) (-1074) with ht
  obtain ⟨k, hk⟩ : ∃ k : ℕ, t = e + k := ⟨(t - e).toNat, by omega⟩
  have hk' : (t - e).toNat = k := by omega
  -- first shift
  have hs1 : shiftToTargetExponent .binary64 m e acc
      = (ExtendedMantissa.ofMantissaAndAccuracy m acc >>> k, t) := by
    unfold shiftToTargetExponent shiftToExponent
    simp only [target64, totalExponent, ← ht, hk']
    rw [hk]
  have hA := accuracy_ofMA m acc
  have hq := repeat_acc (ExtendedMantissa.ofMantissaAndAccuracy m acc) ((m : ℝ) + δ)
    (by rw [hA.1, hA.2]; simpa using hδ) k
  rw [hA.2] at hq
  set em₁ := ExtendedMantissa.ofMantissaAndAccuracy m acc >>> k with hem
  set q : ℝ := ((m : ℝ) + δ) / 2 ^ k with hqd
  have hrne : RNE q em₁.roundedMantissa := rne_of_acc q _ _ hq.1
  have hx : ((m : ℝ) + δ) * (2 : ℝ) ^ e = q * (2 : ℝ) ^ t := by
    rw [hk, zpow_add_nat, hqd]; field_simp
  have hp : (0 : ℝ) < (2 : ℝ) ^ t := by positivity
  have hδ0 := hδ.nonneg
  have hδ1 := hδ.lt_one
  -- the bracket
  have hrn : IsRN (((m : ℝ) + δ) * (2 : ℝ) ^ e) em₁.roundedMantissa t := by
    refine ⟨by omega, by positivity, ?_, ?_, ?_⟩
    · have h1 : (m : ℝ) + 1 ≤ (2 : ℝ) ^ (m.log2 + 1 : ℕ) := by
        have := Nat.lt_log2_self (n := m)
        exact_mod_cast this
      have h2 : (2 : ℝ) ^ (e + (m.log2 + 1 : ℕ)) ≤ (2 : ℝ) ^ (t + 53) :=
        zpow_le_zpow_right₀ (by norm_num) (by push_cast; omega)
      rw [zpow_add_nat] at h2
      have hpe : (0 : ℝ) < (2 : ℝ) ^ e := by positivity
      calc ((m : ℝ) + δ) * (2 : ℝ) ^ e < ((m : ℝ) + 1) * (2 : ℝ) ^ e := by
            apply mul_lt_mul_of_pos_right _ hpe; linarith
        _ ≤ (2 : ℝ) ^ (m.log2 + 1 : ℕ) * (2 : ℝ) ^ e := mul_le_mul_of_nonneg_right h1 hpe.le
        _ = (2 : ℝ) ^ e * (2 : ℝ) ^ (m.log2 + 1 : ℕ) := by ring
        _ ≤ _ := h2
    · by_cases h : t = -1074
      · exact Or.inl h
      · right
        have hm0 : m ≠ 0 := by
          rintro rfl
          simp at ht; omega
        have h1 : (2 : ℝ) ^ (m.log2 : ℕ) ≤ (m : ℝ) := by
          have := Nat.log2_self_le hm0
          exact_mod_cast this
        have h2 : t + 52 = e + (m.log2 : ℕ) := by omega
        rw [h2, zpow_add_nat]
        have hpe : (0 : ℝ) < (2 : ℝ) ^ e := by positivity
        calc (2 : ℝ) ^ e * (2 : ℝ) ^ (m.log2 : ℕ) ≤ (2 : ℝ) ^ e * (m : ℝ) :=
              mul_le_mul_of_nonneg_left h1 hpe.le
          _ ≤ ((m : ℝ) + δ) * (2 : ℝ) ^ e := by nlinarith
    · rw [hx, mul_div_assoc, div_self hp.ne', mul_one]; exact hrne
  refine ⟨em₁.roundedMantissa, t, hrn, ?_⟩
  have h2 := second_shift em₁.roundedMantissa t (by omega) hrn.le_two_pow
    (by by_cases h : t = -1074
        · exact Or.inl h
        · exact Or.inr (hrn.two_pow_le h))
  rw [rwa_eq, hs1]
  simp only [h2.1, h2.2, mk]
  by_cases h53 : em₁.roundedMantissa = 2 ^ 53
  · simp [h53]
  · simp only [h53, if_false]

/-! ### `round` and `normalize` -/

/-- full(ℕ): `log2 (m · 2^j) = log2 m + j` -/
theorem log2_mul_two_pow {m : ℕ} (h : m ≠ 0) (j : ℕ) : (m * 2 ^ j).log2 = m.log2 + j := by
  have h0 : m * 2 ^ j ≠ 0 := Nat.mul_ne_zero h (by positivity)
  rw [Nat.log2_eq_iff h0]
  have a := Nat.log2_self_le h
  have b := Nat.lt_log2_self (n := m)
  constructor
  · rw [pow_add]; exact Nat.mul_le_mul_right _ a
  · rw [show m.log2 + j + 1 = (m.log2 + 1) + j by omega, pow_add]
    exact Nat.mul_lt_mul_of_pos_right b (by positivity)

/-- full(Float.Model): `round` returns `mk s m' t` with `IsRN (m·2^e) m' t` -/
theorem round_spec (s : Sign) (m : ℕ) (e : ℤ) (hm : 0 < m) :
    ∃ m' t, IsRN ((m : ℝ) * (2 : ℝ) ^ e) m' t ∧ UnpackedFloat.round .binary64 s m e = mk s m' t := by
  unfold UnpackedFloat.round decreaseExponent
  simp only
  set t := Format.binary64.targetExponent (totalExponent m e) with ht
  set j := (e - t).toNat with hj
  have hm0 : m ≠ 0 := by omega
  have hlog : (m <<< j).log2 = m.log2 + j := by rw [Nat.shiftLeft_eq]; exact log2_mul_two_pow hm0 j
  have hte : totalExponent (m <<< j) (e - j) = totalExponent m e := by
    simp only [totalExponent, hlog]; push_cast; omega
  have hle : e - (j : ℤ) ≤ Format.binary64.targetExponent (totalExponent (m <<< j) (e - j)) := by
    rw [hte, ← ht]; omega
  obtain ⟨m', t', h1, h2⟩ := rwa_spec s (m <<< j) (e - j) .exact 0 rfl hle
  refine ⟨m', t', ?_, h2⟩
  have : (((m <<< j : ℕ) : ℝ) + 0) * (2 : ℝ) ^ (e - (j : ℤ)) = (m : ℝ) * (2 : ℝ) ^ e := by
    rw [Nat.shiftLeft_eq, zpow_sub₀ (by norm_num : (2 : ℝ) ≠ 0)]
    push_cast
    field_simp
    simp
  rwa [this] at h1

/-- sign as a real factor -/
def sgn : Sign → ℝ
  | .positive => 1
  | .negative => -1

/-- real value of a finite or zero unpacked float (junk `0` for NaN/∞) -/
noncomputable def val : UF → ℝ
  | .finite s m e _ => sgn s * ((m : ℝ) * (2 : ℝ) ^ e)
  | _ => 0

/-- finite or zero -/
def FZ : UF → Prop
  | .finite .. => True
  | .zero _ => True
  | _ => False

/-- full(ℝ): zero rounds to mantissa 0 -/
theorem IsRN.zero {m : ℕ} {t : ℤ} (h : IsRN 0 m t) : m = 0 := by
  have := abs_le.1 h.2.2.2.2.1
  rw [zero_div] at this
  have : (m : ℝ) < 1 := by linarith
  have : m < 1 := by exact_mod_cast this
  omega

/-- full(Float.Model): value of `mk s m t` -/
theorem val_mk (s : Sign) (m : ℕ) (t : ℤ) : val (mk s m t) = sgn s * ((m : ℝ) * (2 : ℝ) ^ t) := by
  unfold mk
  split_ifs with h1 h2
  · subst h1
    simp only [val]
    rw [zpow_add₀ (by norm_num : (2 : ℝ) ≠ 0)]
    push_cast; ring
  · subst h2; simp [val]
  · rfl

/-- full(Float.Model): `mk` is finite or zero -/
theorem fz_mk (s : Sign) (m : ℕ) (t : ℤ) : FZ (mk s m t) := by
  unfold mk; split_ifs <;> trivial

/-- full(Float.Model): `mk` of a rounded mantissa is canonical -/
theorem canon_mk {x : ℝ} {m : ℕ} {t : ℤ} (s : Sign) (h : IsRN x m t) : Canon (mk s m t) := by
  unfold mk
  have h1 := h.le_two_pow
  have h0 := h.1
  split_ifs with h53 hz
  · simp only [Canon]; omega
  · trivial
  · simp only [Canon]
    refine ⟨h0, by omega, ?_⟩
    by_cases ht : t = -1074
    · exact Or.inl ht
    · exact Or.inr (h.two_pow_le ht)

/-- `r` is the round-to-nearest-even (binary64, no overflow) of the real `x` -/
def RNv (x r : ℝ) : Prop :=
  ∃ m t, IsRN |x| m t ∧ (0 ≤ x → r = (m : ℝ) * (2 : ℝ) ^ t) ∧ (x ≤ 0 → r = -((m : ℝ) * (2 : ℝ) ^ t))

/-- full(ℝ): rounding of reals (both signs) is monotone -/
theorem RNv.mono {x y r r' : ℝ} (h : RNv x r) (h' : RNv y r') (hxy : x ≤ y) : r ≤ r' := by
  obtain ⟨m, t, h1, h2, h3⟩ := h
  obtain ⟨m', t', h1', h2', h3'⟩ := h'
  have hp : (0 : ℝ) ≤ (m : ℝ) * (2 : ℝ) ^ t := by positivity
  have hp' : (0 : ℝ) ≤ (m' : ℝ) * (2 : ℝ) ^ t' := by positivity
  rcases le_total 0 x with hx | hx
  · have hy : 0 ≤ y := le_trans hx hxy
    rw [h2 hx, h2' hy]
    apply h1.mono h1'
    rwa [abs_of_nonneg hx, abs_of_nonneg hy]
  · rcases le_total 0 y with hy | hy
    · rw [h3 hx, h2' hy]; linarith
    · rw [h3 hx, h3' hy]
      have := h1'.mono h1 (by rw [abs_of_nonpos hx, abs_of_nonpos hy]; linarith)
      linarith

/-- full(ℝ): the rounded value is unique -/
theorem RNv.unique {x r r' : ℝ} (h : RNv x r) (h' : RNv x r') : r = r' :=
  le_antisymm (h.mono h' le_rfl) (h'.mono h le_rfl)

/-- full(ℝ): rounding commutes with negation -/
theorem RNv.neg {x r : ℝ} (h : RNv x r) : RNv (-x) (-r) := by
  obtain ⟨m, t, h1, h2, h3⟩ := h
  refine ⟨m, t, by rwa [abs_neg], fun hx => ?_, fun hx => ?_⟩
  · rw [h3 (by linarith)]; ring
  · rw [h2 (by linarith)]

/-- `u` is a canonical finite-or-zero float whose value is the rounding of `x` -/
def Rounds (x : ℝ) (u : UF) : Prop := FZ u ∧ Canon u ∧ RNv x (val u)

/-- full(Float.Model): `mk s m t` rounds the signed real -/
theorem Rounds.mk_of_isRN {x : ℝ} {m : ℕ} {t : ℤ} (s : Sign) (h : IsRN x m t) :
    Rounds (sgn s * x) (mk s m t) := by
  refine ⟨fz_mk s m t, canon_mk s h, m, t, ?_, ?_, ?_⟩
  · cases s <;> simp only [sgn, one_mul, neg_one_mul, abs_neg] <;> rwa [abs_of_nonneg h.2.1]
  · intro hx
    rw [val_mk]
    cases s
    · -- negative sign and `0 ≤ -x` force `x = 0`
      have hx0 : x = 0 := by simp only [sgn] at hx; linarith [h.2.1]
      subst hx0
      rw [h.zero]; simp
    · simp [sgn]
  · intro hx
    rw [val_mk]
    cases s
    · simp [sgn]
    · have hx0 : x = 0 := by simp only [sgn] at hx; linarith [h.2.1]
      subst hx0
      rw [h.zero]; simp

/-- full(Float.Model): zeros have value 0 -/
theorem val_zero (s : Sign) : val (.zero s) = 0 := rfl

/-- full(Float.Model): a zero is a rounding of `0` -/
theorem Rounds.zero (s : Sign) : Rounds 0 (.zero s) := by
  refine ⟨trivial, trivial, 0, -1074, ?_, ?_, ?_⟩
  · have := IsRN.self (m := 0) (t := -1074) le_rfl (by norm_num) (Or.inl rfl)
    simpa using this
  · intro _; simp [val]
  · intro _; simp [val]

/-- full(Float.Model): a canonical finite-or-zero float is the rounding of its own value -/
theorem Rounds.self {u : UF} (hf : FZ u) (hc : Canon u) : Rounds (val u) u := by
  rcases u with s | _ | s | ⟨s, m, e, hm⟩
  · exact absurd hf (by simp [FZ])
  · exact absurd hf (by simp [FZ])
  · exact Rounds.zero s
  · simp only [Canon] at hc
    have h := IsRN.self hc.1 hc.2.1 hc.2.2
    have hmk : mk s m e = .finite s m e hm := by
      unfold mk; rw [if_neg (by omega), dif_neg (by omega)]
    have := Rounds.mk_of_isRN s h
    rwa [hmk] at this

/-- full(Float.Model): roundings of ordered reals have ordered values -/
theorem Rounds.mono {x y : ℝ} {u v : UF} (h : Rounds x u) (h' : Rounds y v) (hxy : x ≤ y) :
    val u ≤ val v := h.2.2.mono h'.2.2 hxy

/-- full(Float.Model): exactness: if the exact result is the value of a canonical float, the rounding has that value -/
theorem Rounds.val_eq {u w : UF} (h : Rounds (val w) u) (hf : FZ w) (hc : Canon w) : val u = val w :=
  h.2.2.unique (Rounds.self hf hc).2.2

/-- full(Float.Model): a rounding of 0 has value 0 -/
theorem Rounds.val_eq_zero {u : UF} (h : Rounds 0 u) : val u = 0 :=
  h.2.2.unique (Rounds.zero .positive).2.2

/-- full(Float.Model): `roundWithAccuracy` rounds the described signed real -/
theorem rwa_rounds (s : Sign) (m : ℕ) (e : ℤ) (acc : Accuracy) (δ : ℝ) (hδ : Acc δ acc)
    (hle : e ≤ Format.binary64.targetExponent (totalExponent m e)) :
    Rounds (sgn s * (((m : ℝ) + δ) * (2 : ℝ) ^ e)) (roundWithAccuracy .binary64 s m e acc) := by
  obtain ⟨m', t, h1, h2⟩ := rwa_spec s m e acc δ hδ hle
  rw [h2]; exact Rounds.mk_of_isRN s h1

/-- full(Float.Model): `round` rounds the signed dyadic -/
theorem round_rounds (s : Sign) (m : ℕ) (e : ℤ) (hm : 0 < m) :
    Rounds (sgn s * ((m : ℝ) * (2 : ℝ) ^ e)) (UnpackedFloat.round .binary64 s m e) := by
  obtain ⟨m', t, h1, h2⟩ := round_spec s m e hm
  rw [h2]; exact Rounds.mk_of_isRN s h1

/-- full(Float.Model): `normalize` rounds the signed dyadic `z · 2^e` -/
theorem normalize_rounds (z : ℤ) (e : ℤ) (zs : Sign) :
    Rounds ((z : ℝ) * (2 : ℝ) ^ e) (UnpackedFloat.normalize .binary64 z e zs) := by
  unfold UnpackedFloat.normalize
  rcases lt_trichotomy z 0 with h | h | h
  · rw [compare_lt_iff_lt.2 h]
    simp only
    have := round_rounds .negative (-z).toNat e (by omega)
    have e1 : (((-z).toNat : ℕ) : ℝ) = -(z : ℝ) := by
      have : (((-z).toNat : ℕ) : ℤ) = -z := by omega
      exact_mod_cast this
    rw [e1] at this
    simpa [sgn] using this
  · subst h
    simp only [compare_eq_iff_eq.2 rfl]
    simpa using Rounds.zero zs
  · rw [compare_gt_iff_gt.2 h]
    simp only
    have := round_rounds .positive z.toNat e (by omega)
    have e1 : ((z.toNat : ℕ) : ℝ) = (z : ℝ) := by
      have : ((z.toNat : ℕ) : ℤ) = z := by omega
      exact_mod_cast this
    rw [e1] at this
    simpa [sgn] using this

end Statrs.Lemmas.FloatModel
