/-
  Statrs.Lemmas.FloatModelSqrt — binary64 `sqrt` of the model: for a positive finite operand the result
  is the rounding of the real square root (`usqrt_f`: `sqrtCore` produces ≥ 53 root bits and the remainder
  gives the right `Accuracy`), canonical results, `U_sqrt'`, monotonicity on the non-negative values.
-/
import Statrs.Lemmas.FloatModelDiv
namespace Statrs.Lemmas.FloatModel
open Float.Model
open Float.Model.UnpackedFloat

/-- full(Float.Model): `sqrt` of a positive finite float is the rounding of the real square root -/
theorem usqrt_f (m : ℕ) (e : ℤ) (hm : 0 < m) :
    Rounds (Real.sqrt (val (.finite .positive m e hm)))
      (UnpackedFloat.sqrt .binary64 (.finite .positive m e hm)) := by
  simp only [UnpackedFloat.sqrt, sqrtCore]
  set T : ℤ := min (e.ediv 2) (Format.binary64.targetExponent ((totalExponent m e + 1).ediv 2)) with hT
  have hT1 : T ≤ e / 2 := by rw [hT]; exact min_le_left _ _
  have hT2 : T ≤ Format.binary64.targetExponent ((totalExponent m e + 1) / 2) := by
    rw [hT]; exact min_le_right _ _
  obtain ⟨k, hk⟩ : ∃ k : ℕ, e - 2 * T = k := ⟨(e - 2 * T).toNat, by omega⟩
  have hk' : (e - 2 * T).toNat = k := by omega
  rw [hk']
  set m' := m <<< k with hm'
  have hmk : m' = m * 2 ^ k := Nat.shiftLeft_eq _ _
  set root := Nat.sqrt m' with hroot
  have hr1 : root * root ≤ m' := Nat.sqrt_le m'
  have hr2 : m' < (root + 1) * (root + 1) := Nat.lt_succ_sqrt m'
  have hr1' : (root : ℝ) * root ≤ (m' : ℝ) := by exact_mod_cast hr1
  have hr2' : (m' : ℝ) < ((root : ℝ) + 1) * ((root : ℝ) + 1) := by exact_mod_cast hr2
  have hm0 : (0 : ℝ) ≤ (m' : ℝ) := by positivity
  have hrt0 : (0 : ℝ) ≤ (root : ℝ) := by positivity
  have hsq : Real.sqrt (m' : ℝ) * Real.sqrt (m' : ℝ) = (m' : ℝ) := Real.mul_self_sqrt hm0
  have hs0 : 0 ≤ Real.sqrt (m' : ℝ) := Real.sqrt_nonneg _
  have hacc : Acc (Real.sqrt (m' : ℝ) - root)
      (if m' - root * root = 0 then Accuracy.exact
        else Accuracy.inexact (if m' - root * root ≤ root then .lt else .gt)) := by
    split_ifs with h1 h2
    · have : m' = root * root := by omega
      have : (m' : ℝ) = (root : ℝ) * root := by exact_mod_cast this
      simp only [Acc]
      rw [this, Real.sqrt_mul_self hrt0]; ring
    · have a1 : root * root < m' := by omega
      have a2 : m' ≤ root * root + root := by omega
      have a1' : (root : ℝ) * root < (m' : ℝ) := by exact_mod_cast a1
      have a2' : (m' : ℝ) ≤ (root : ℝ) * root + root := by exact_mod_cast a2
      simp only [Acc]
      constructor
      · nlinarith
      · nlinarith
    · have a1 : root * root + root + 1 ≤ m' := by omega
      have a1' : (root : ℝ) * root + root + 1 ≤ (m' : ℝ) := by exact_mod_cast a1
      simp only [Acc]
      constructor
      · nlinarith
      · nlinarith
  have hle : T ≤ Format.binary64.targetExponent (totalExponent root T) := by
    rw [target64, totalExponent]
    by_cases hT0 : T ≤ -1074
    · omega
    · have hq : 2 ^ 52 ≤ root := by
        rw [hroot, Nat.le_sqrt]
        rw [target64, totalExponent] at hT2
        have hkk : 104 ≤ m.log2 + k := by omega
        have a2 := Nat.log2_self_le (n := m) (by omega)
        calc 2 ^ 52 * 2 ^ 52 = 2 ^ 104 := by norm_num
          _ ≤ 2 ^ (m.log2 + k) := Nat.pow_le_pow_right (by norm_num) hkk
          _ = 2 ^ m.log2 * 2 ^ k := pow_add ..
          _ ≤ m * 2 ^ k := Nat.mul_le_mul_right _ a2
          _ = m' := hmk.symm
      have := log2_mono hq
      rw [Nat.log2_two_pow] at this
      omega
  have := rwa_rounds .positive root T _ _ hacc hle
  convert this using 1
  simp only [val, sgn, one_mul]
  have he : e = 2 * T + k := by omega
  have hp : (0 : ℝ) < (2 : ℝ) ^ T := by positivity
  have : (m : ℝ) * (2 : ℝ) ^ e = (m' : ℝ) * ((2 : ℝ) ^ T) ^ 2 := by
    rw [he, zpow_add_nat, hmk, two_mul, zpow_add₀ (by norm_num : (2 : ℝ) ≠ 0)]
    push_cast; ring
  rw [this, Real.sqrt_mul hm0, Real.sqrt_sq hp.le]
  ring

/-- full(Float.Model): square roots are canonical -/
theorem canon_usqrt (a : UF) : Canon (UnpackedFloat.sqrt .binary64 a) := by
  rcases a with s | _ | s | ⟨s, m, e, hm⟩ <;> (try cases s) <;>
    first
    | exact (usqrt_f ..).2.1
    | (simp only [UnpackedFloat.sqrt]; trivial)

/-- full(Float): `sqrt a` unpacks to the overflow-clamped model square root -/
theorem U_sqrt' (a : Float) : U (RFun.sqrt a) = fin64 (UnpackedFloat.sqrt .binary64 (U a)) := by
  rw [U_sqrt, unpack_pack _ (canon_usqrt _)]

/-- full(Float.Model): `0 ≤ a` on the unpacked level: a zero, `+∞`, or a positive finite number -/
theorem zero_le_cases {c : UF} (h : (UnpackedFloat.zero .positive).le c = true) :
    (∃ s, c = .zero s) ∨ c = .infinity .positive ∨ ∃ m e hm, c = .finite .positive m e hm := by
  have hn := le_nn h
  rw [le_iff_key _ _ hn.1 hn.2] at h
  rcases c with s | _ | s | ⟨s, m, e, hm⟩ <;> (try cases s) <;>
    simp_all [key, kle, UnpackedFloat.isNaN]

/-- full(Float.Model): `sqrt` is monotone on the non-negative values (unpacked level) -/
theorem usqrt_mono {a b : UF} (ca : Canon a) (cb : Canon b)
    (h0 : (UnpackedFloat.zero .positive).le a = true) (h : a.le b = true) :
    (UnpackedFloat.sqrt .binary64 a).le (UnpackedFloat.sqrt .binary64 b) = true := by
  have hb0 := ule_trans h0 h
  rcases zero_le_cases hb0 with ⟨sb, rfl⟩ | rfl | ⟨m', e', hm', rfl⟩
  · -- `b` is a zero, so `a` is a zero
    rcases zero_le_cases h0 with ⟨sa, rfl⟩ | rfl | ⟨m, e, hm, rfl⟩
    · show (UnpackedFloat.zero sa).le (.zero sb) = true
      rfl
    · exact absurd (inf_pos_le h) (by simp)
    · exfalso
      have := (le_iff_val (u := .finite .positive m e hm) (v := .zero sb) trivial trivial ca trivial).1 h
      have := val_pos_fin m e hm
      simp only [val_zero] at *; linarith
  · -- `sqrt b = +∞`
    rcases zero_le_cases h0 with ⟨sa, rfl⟩ | rfl | ⟨m, e, hm, rfl⟩
    · exact ule_inf _ rfl
    · exact ule_refl _ rfl
    · exact ule_inf _ (fz_nn (usqrt_f ..).1)
  · rcases zero_le_cases h0 with ⟨sa, rfl⟩ | rfl | ⟨m, e, hm, rfl⟩
    · exact rounds_le (Rounds.zero sa) (usqrt_f ..) (Real.sqrt_nonneg _)
    · have := inf_pos_le h; exact absurd this (by simp)
    · exact rounds_le (usqrt_f ..) (usqrt_f ..)
        (Real.sqrt_le_sqrt ((le_iff_val (u := .finite .positive m e hm)
          (v := .finite .positive m' e' hm') trivial trivial ca cb).1 h))

end Statrs.Lemmas.FloatModel
