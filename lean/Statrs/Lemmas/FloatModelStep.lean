/-
  Statrs.Draft.Lemmas.FloatModelStep — a rounding fact about binary64 round-to-nearest-even (`RNv`,
  `Statrs.Lemmas.FloatModelRound`) that is NOT order-theoretic:
      for `y ≥ 0` and a divisor `c ≥ 2`,   RN( RN(y) / c ) ≤ y,
  and its mirror image for `y ≤ 0`.  Reason: if `2^k ≤ y < 2^(k+1)` (`k ≥ −1074`) then `RN(y) ≤ 2^(k+1)` and
  `RN(RN(y)/c) ≤ RN(2^k) = 2^k ≤ y`; if `0 ≤ y < 2^−1074` then `RN(y) ≤ 2^−1074`, `RN(y)/c ≤ 2^−1075`, which rounds
  (tie to even) to `0`.  This is what makes a streaming-mean step `m + (x − m)/i` (`i ≥ 2`) stay on the near side
  of `x` (`Draft/C13/FloatStepLaws.lean`).
-/
import Statrs.Lemmas.FloatModelRound
import Mathlib.Data.Int.Log
namespace Statrs.Lemmas.FloatModel

/-- full(ℝ): `0` rounds to `0` -/
theorem rnv_zero : RNv 0 0 := by
  have := (Rounds.zero .positive).2.2
  simpa [val] using this

/-- full(ℝ): a power of two `2^k`, `k ≥ −1074`, is on the binary64 grid (unbounded exponent) -/
theorem rnv_two_zpow (k : ℤ) (hk : -1074 ≤ k) : RNv ((2 : ℝ) ^ k) ((2 : ℝ) ^ k) := by
  have hpos : (0 : ℝ) < (2 : ℝ) ^ k := by positivity
  by_cases hn : -1022 ≤ k
  · -- normal: `2^k = 2^52 · 2^(k − 52)`
    have h := IsRN.self (m := 2 ^ 52) (t := k - 52) (by omega) (by norm_num) (Or.inr le_rfl)
    have e : (((2 ^ 52 : ℕ) : ℝ)) * (2 : ℝ) ^ (k - 52) = (2 : ℝ) ^ k := by
      rw [show ((2 ^ 52 : ℕ) : ℝ) = (2 : ℝ) ^ (52 : ℤ) by norm_num, ← zpow_add₀ (by norm_num : (2 : ℝ) ≠ 0)]
      congr 1; omega
    rw [e] at h
    refine ⟨2 ^ 52, k - 52, by rwa [abs_of_pos hpos], fun _ => e.symm, fun h0 => ?_⟩
    exact absurd h0 (not_le.2 hpos)
  · -- subnormal: `2^k = 2^(k + 1074) · 2^−1074`
    have hj : (k + 1074).toNat < 52 := by omega
    have h := IsRN.self (m := 2 ^ (k + 1074).toNat) (t := -1074) le_rfl
      (lt_of_lt_of_le (Nat.pow_lt_pow_right (by norm_num) hj) (Nat.pow_le_pow_right (by norm_num) (by norm_num)))
      (Or.inl rfl)
    have e : (((2 ^ (k + 1074).toNat : ℕ) : ℝ)) * (2 : ℝ) ^ (-1074 : ℤ) = (2 : ℝ) ^ k := by
      have : ((2 ^ (k + 1074).toNat : ℕ) : ℝ) = (2 : ℝ) ^ (((k + 1074).toNat : ℕ) : ℤ) := by
        push_cast; rw [zpow_natCast]
      rw [this, ← zpow_add₀ (by norm_num : (2 : ℝ) ≠ 0)]
      congr 1; omega
    rw [e] at h
    refine ⟨2 ^ (k + 1074).toNat, -1074, by rwa [abs_of_pos hpos], fun _ => e.symm, fun h0 => ?_⟩
    exact absurd h0 (not_le.2 hpos)

/-- full(ℝ): half of the smallest subnormal rounds (tie to even) to `0` -/
theorem rnv_half_min : RNv ((2 : ℝ) ^ (-1075 : ℤ)) 0 := by
  have hpos : (0 : ℝ) < (2 : ℝ) ^ (-1075 : ℤ) := by positivity
  refine ⟨0, -1074, ⟨le_rfl, abs_nonneg _, ?_, Or.inl rfl, ?_⟩, fun _ => by simp, fun _ => by simp⟩
  · rw [abs_of_pos hpos]
    exact zpow_lt_zpow_right₀ (by norm_num) (by norm_num)
  · rw [abs_of_pos hpos]
    have e : (2 : ℝ) ^ (-1075 : ℤ) / (2 : ℝ) ^ (-1074 : ℤ) = 1 / 2 := by
      rw [← zpow_sub₀ (by norm_num : (2 : ℝ) ≠ 0)]; norm_num
    rw [e]
    constructor
    · simp
    · intro _; exact ⟨0, rfl⟩

/-- full(ℝ): `y ≥ 0`, `c ≥ 2` ⇒ `RN(RN(y)/c) ≤ y` -/
theorem rnv_div_le {y D c Q : ℝ} (hy : 0 ≤ y) (hD : RNv y D) (hc : 2 ≤ c) (hQ : RNv (D / c) Q) : Q ≤ y := by
  have hD0 : 0 ≤ D := rnv_zero.mono hD hy
  have hcpos : (0 : ℝ) < c := by linarith
  by_cases hsmall : y < (2 : ℝ) ^ (-1074 : ℤ)
  · have h1 : D ≤ (2 : ℝ) ^ (-1074 : ℤ) := hD.mono (rnv_two_zpow (-1074) le_rfl) hsmall.le
    have h2 : D / c ≤ (2 : ℝ) ^ (-1075 : ℤ) := by
      rw [div_le_iff₀ hcpos]
      have e : (2 : ℝ) ^ (-1074 : ℤ) = (2 : ℝ) ^ (-1075 : ℤ) * 2 := by
        rw [show (-1074 : ℤ) = -1075 + 1 by norm_num, zpow_add₀ (by norm_num : (2 : ℝ) ≠ 0)]; norm_num
      have hp : (0 : ℝ) < (2 : ℝ) ^ (-1075 : ℤ) := by positivity
      nlinarith
    have := hQ.mono rnv_half_min h2
    linarith
  · have hypos : 0 < y := lt_of_lt_of_le (by positivity) (not_lt.1 hsmall)
    have hk1 : ((2 : ℕ) : ℝ) ^ Int.log 2 y ≤ y := Int.zpow_log_le_self (by norm_num) hypos
    have hk2 : y < ((2 : ℕ) : ℝ) ^ (Int.log 2 y + 1) := Int.lt_zpow_succ_log_self (by norm_num) y
    have hk : -1074 ≤ Int.log 2 y := by
      rw [← Int.zpow_le_iff_le_log (by norm_num) hypos]
      exact_mod_cast not_lt.1 hsmall
    rw [Nat.cast_ofNat] at hk1 hk2
    set k := Int.log 2 y
    have h1 : D ≤ (2 : ℝ) ^ (k + 1) := hD.mono (rnv_two_zpow (k + 1) (by omega)) hk2.le
    have h2 : D / c ≤ (2 : ℝ) ^ k := by
      rw [div_le_iff₀ hcpos]
      have e : (2 : ℝ) ^ (k + 1) = (2 : ℝ) ^ k * 2 := by
        rw [zpow_add₀ (by norm_num : (2 : ℝ) ≠ 0)]; norm_num
      have hp : (0 : ℝ) < (2 : ℝ) ^ k := by positivity
      nlinarith
    have := hQ.mono (rnv_two_zpow k hk) h2
    linarith

/-- full(ℝ): `y ≤ 0`, `c ≥ 2` ⇒ `y ≤ RN(RN(y)/c)` -/
theorem rnv_div_ge {y D c Q : ℝ} (hy : y ≤ 0) (hD : RNv y D) (hc : 2 ≤ c) (hQ : RNv (D / c) Q) : y ≤ Q := by
  have h := rnv_div_le (y := -y) (D := -D) (c := c) (Q := -Q) (by linarith) hD.neg hc
    (by have := hQ.neg; rwa [← neg_div] at this)
  linarith

end Statrs.Lemmas.FloatModel
