/-
  Statrs.Lemmas.FloatStdModel — the *standard model of floating-point arithmetic* (Higham, ASNA §2.2) as a
  hypothesis structure over an arbitrary carrier, in the style of `Statrs.Spec.FloatLaws`.

  `StdModel α` packages a real-valued view `toReal : α → ℝ` of the finite values of the carrier with
    * comparison on finite values = comparison of the real values, the literals `0 1 2 0.5`, exact `-` and `abs`;
    * for finite operands whose result is finite (no overflow):
        `toReal (a ⊕ b) = (toReal a + toReal b)(1+δ)`, `|δ| ≤ u`           (same for `⊖`; no underflow term)
        `toReal (a ⊗ b) = (toReal a · toReal b)(1+δ) + ε`, `|δ| ≤ u`, `|ε| ≤ η`, `δ·ε = 0`   (same for `⊘`)
        `toReal (sqrt a) = √(toReal a)·(1+δ)`;
    * sufficient conditions for "no overflow" (`|exact result| ≤ big = 2^1023`), and the converse direction
      "a finite result has finite operands";
    * exactness: if the exact result is the value of some finite element, the operation returns that value;
    * `ofInt` exact for `|i| ≤ 2^53`, correctly rounded up to `2^64`.
  with `u = 2^-53`, `η = 2^-1075`.  `Draft/Lemmas/FloatStdModelFloat.lean` proves `StdModel Float` from Lean's
  `Float.Model`; `stdModel_real` below is the trivial (error-free) instance over ℝ.

  The second half derives the usual working forms (absolute-error forms, magnitude bounds,
  `γ k = k·u/(1−k·u)`, `(1+u)^k − 1 ≤ γ k`).
-/
import Mathlib.Tactic
import Mathlib.Analysis.SpecialFunctions.Pow.Real
import Statrs.Spec.FloatLaws
import Statrs.Real.Simp
namespace Statrs.Spec
open Statrs

namespace FloatStd
/-- unit roundoff of binary64 -/
noncomputable def u : ℝ := (2 : ℝ) ^ (-53 : ℤ)
/-- half the smallest positive subnormal of binary64 -/
noncomputable def η : ℝ := (2 : ℝ) ^ (-1075 : ℤ)
/-- a magnitude whose rounding never overflows -/
noncomputable def big : ℝ := (2 : ℝ) ^ (1023 : ℤ)

/-- full(ℝ): `0 < u` -/
theorem u_pos : 0 < u := by unfold u; positivity
/-- full(ℝ): `0 < η` -/
theorem η_pos : 0 < η := by unfold η; positivity
/-- full(ℝ): `0 < big` -/
theorem big_pos : 0 < big := by unfold big; positivity
/-- full(ℝ): `u = 1 / 2^53` -/
theorem u_eq : u = 1 / 2 ^ (53 : ℕ) := by
  unfold u; rw [zpow_neg, one_div]; norm_cast
/-- full(ℝ): `u < 1/1000` (a convenient crude bound) -/
theorem u_lt : u < 1 / 1000 := by rw [u_eq]; norm_num
/-- full(ℝ): `u ≤ 1` -/
theorem u_le_one : u ≤ 1 := by have := u_lt; linarith
/-- full(ℝ): `η ≤ u` -/
theorem η_le_u : η ≤ u := by
  unfold η u; exact zpow_le_zpow_right₀ (by norm_num) (by norm_num)
/-- full(ℝ): `1 ≤ big` -/
theorem one_le_big : 1 ≤ big := by
  unfold big
  calc (1 : ℝ) = (2 : ℝ) ^ (0 : ℤ) := by simp
    _ ≤ _ := zpow_le_zpow_right₀ (by norm_num) (by norm_num)

/-- Higham's `γ k = k·u / (1 − k·u)` -/
noncomputable def γ (k : ℕ) : ℝ := k * u / (1 - k * u)
end FloatStd
open FloatStd

/-- The standard model of floating-point arithmetic over a carrier `α`, relative to a real-valued view of its
    finite elements.  All rounding fields are for finite operands and a finite result. -/
structure StdModel (α : Type) [Add α] [Sub α] [Mul α] [Div α] [Neg α] [LT α] [LE α] [BEq α]
    [OfScientific α] [RFun α] where
  /-- the real value of a finite element (unconstrained on NaN/±∞) -/
  toReal : α → ℝ
  -- comparisons of finite elements
  le_iff : ∀ a b : α, Fin a → Fin b → (a ≤ b ↔ toReal a ≤ toReal b)
  lt_iff : ∀ a b : α, Fin a → Fin b → (a < b ↔ toReal a < toReal b)
  beq_iff : ∀ a b : α, Fin a → Fin b → ((a == b) = true ↔ toReal a = toReal b)
  -- literals
  zero_fin : Fin (0.0 : α)
  toReal_zero : toReal (0.0 : α) = 0
  one_fin : Fin (1.0 : α)
  toReal_one : toReal (1.0 : α) = 1
  two_fin : Fin (2.0 : α)
  toReal_two : toReal (2.0 : α) = 2
  half_fin : Fin (0.5 : α)
  toReal_half : toReal (0.5 : α) = 1 / 2
  -- negation and absolute value are exact
  neg_fin : ∀ a : α, Fin a → Fin (-a)
  toReal_neg : ∀ a : α, Fin a → toReal (-a) = - toReal a
  abs_fin : ∀ a : α, Fin a → Fin (RFun.abs a)
  toReal_abs : ∀ a : α, Fin a → toReal (RFun.abs a) = |toReal a|
  -- sufficient conditions for a finite result
  add_fin : ∀ a b : α, Fin a → Fin b → |toReal a + toReal b| ≤ big → Fin (a + b)
  sub_fin : ∀ a b : α, Fin a → Fin b → |toReal a - toReal b| ≤ big → Fin (a - b)
  mul_fin : ∀ a b : α, Fin a → Fin b → |toReal a * toReal b| ≤ big → Fin (a * b)
  div_fin : ∀ a b : α, Fin a → Fin b → toReal b ≠ 0 → |toReal a / toReal b| ≤ big → Fin (a / b)
  sqrt_fin : ∀ a : α, Fin a → 0 ≤ toReal a → Fin (RFun.sqrt a)
  -- a finite result has finite operands (∞ and NaN are absorbing for `+ − ×`; for `÷` only in the numerator)
  fin_of_add : ∀ a b : α, Fin (a + b) → Fin a ∧ Fin b
  fin_of_sub : ∀ a b : α, Fin (a - b) → Fin a ∧ Fin b
  fin_of_mul : ∀ a b : α, Fin (a * b) → Fin a ∧ Fin b
  fin_of_div : ∀ a b : α, Fin (a / b) → Fin a
  -- the standard model
  add_std : ∀ a b : α, Fin a → Fin b → Fin (a + b) →
    ∃ δ : ℝ, |δ| ≤ u ∧ toReal (a + b) = (toReal a + toReal b) * (1 + δ)
  sub_std : ∀ a b : α, Fin a → Fin b → Fin (a - b) →
    ∃ δ : ℝ, |δ| ≤ u ∧ toReal (a - b) = (toReal a - toReal b) * (1 + δ)
  mul_std : ∀ a b : α, Fin a → Fin b → Fin (a * b) →
    ∃ δ ε : ℝ, |δ| ≤ u ∧ |ε| ≤ η ∧ δ * ε = 0 ∧ toReal (a * b) = (toReal a * toReal b) * (1 + δ) + ε
  div_std : ∀ a b : α, Fin a → Fin b → toReal b ≠ 0 → Fin (a / b) →
    ∃ δ ε : ℝ, |δ| ≤ u ∧ |ε| ≤ η ∧ δ * ε = 0 ∧ toReal (a / b) = (toReal a / toReal b) * (1 + δ) + ε
  sqrt_std : ∀ a : α, Fin a → 0 ≤ toReal a →
    ∃ δ : ℝ, |δ| ≤ u ∧ toReal (RFun.sqrt a) = Real.sqrt (toReal a) * (1 + δ)
  -- exactness: a representable exact result is returned
  add_exact : ∀ a b c : α, Fin a → Fin b → Fin c → toReal a + toReal b = toReal c →
    Fin (a + b) ∧ toReal (a + b) = toReal c
  sub_exact : ∀ a b c : α, Fin a → Fin b → Fin c → toReal a - toReal b = toReal c →
    Fin (a - b) ∧ toReal (a - b) = toReal c
  mul_exact : ∀ a b c : α, Fin a → Fin b → Fin c → toReal a * toReal b = toReal c →
    Fin (a * b) ∧ toReal (a * b) = toReal c
  div_exact : ∀ a b c : α, Fin a → Fin b → Fin c → toReal b ≠ 0 → toReal a / toReal b = toReal c →
    Fin (a / b) ∧ toReal (a / b) = toReal c
  -- integer conversion
  ofInt_exact : ∀ i : ℤ, |i| ≤ 2 ^ 53 → Fin (RFun.ofInt i : α) ∧ toReal (RFun.ofInt i : α) = i
  ofInt_std : ∀ i : ℤ, |i| ≤ 2 ^ 64 →
    Fin (RFun.ofInt i : α) ∧ ∃ δ : ℝ, |δ| ≤ u ∧ toReal (RFun.ofInt i : α) = (i : ℝ) * (1 + δ)

/-- full(ℝ): the real numbers are an (error-free) standard model — non-vacuity of `StdModel` -/
noncomputable def stdModel_real : StdModel ℝ where
  toReal := id
  le_iff := fun _ _ _ _ => Iff.rfl
  lt_iff := fun _ _ _ _ => Iff.rfl
  beq_iff := fun a b _ _ => by simp
  zero_fin := rfl
  toReal_zero := by norm_num
  one_fin := rfl
  toReal_one := by norm_num
  two_fin := rfl
  toReal_two := by norm_num
  half_fin := rfl
  toReal_half := by norm_num
  neg_fin := fun _ _ => rfl
  toReal_neg := fun _ _ => rfl
  abs_fin := fun _ _ => rfl
  toReal_abs := fun _ _ => rfl
  add_fin := fun _ _ _ _ _ => rfl
  sub_fin := fun _ _ _ _ _ => rfl
  mul_fin := fun _ _ _ _ _ => rfl
  div_fin := fun _ _ _ _ _ _ => rfl
  sqrt_fin := fun _ _ _ => rfl
  fin_of_add := fun _ _ _ => ⟨rfl, rfl⟩
  fin_of_sub := fun _ _ _ => ⟨rfl, rfl⟩
  fin_of_mul := fun _ _ _ => ⟨rfl, rfl⟩
  fin_of_div := fun _ _ _ => rfl
  add_std := fun a b _ _ _ => ⟨0, by simpa using u_pos.le, by simp⟩
  sub_std := fun a b _ _ _ => ⟨0, by simpa using u_pos.le, by simp⟩
  mul_std := fun a b _ _ _ => ⟨0, 0, by simpa using u_pos.le, by simpa using η_pos.le, by simp, by simp⟩
  div_std := fun a b _ _ _ _ => ⟨0, 0, by simpa using u_pos.le, by simpa using η_pos.le, by simp, by simp⟩
  sqrt_std := fun a _ _ => ⟨0, by simpa using u_pos.le, by simp⟩
  add_exact := fun a b c _ _ _ h => ⟨rfl, h⟩
  sub_exact := fun a b c _ _ _ h => ⟨rfl, h⟩
  mul_exact := fun a b c _ _ _ h => ⟨rfl, h⟩
  div_exact := fun a b c _ _ _ _ h => ⟨rfl, h⟩
  ofInt_exact := fun i _ => ⟨rfl, rfl⟩
  ofInt_std := fun i _ => ⟨rfl, 0, by simpa using u_pos.le, by simp⟩

end Statrs.Spec
