/-
  Statrs.Lemmas.FloatStdModelFloat — Lean's IEEE `Float` (kernel-visible `Float.Model`) satisfies the standard
  model of floating-point arithmetic: `stdModel_float : StdModel Float` with `toReal a = val (U a)`
  (the real value of a finite float, `0` on NaN/±∞).
    * `Rnd x c` : the float `c` is the packed round-to-nearest-even of the real `x`; every `+ − × ÷ √ ofInt` on
      finite operands is such a rounding of the exact result (`rnd_add`, …);
    * `Rnd.fin_of_le`, `Rnd.std`, `Rnd.std_grid`, `Rnd.exact` : no overflow below `2^1023`, the error bounds,
      exactness.
  (`stdModel_float` itself is assembled in FloatStdModelInst.)
-/
import Statrs.Lemmas.FloatModelOfInt
import Statrs.Props.Common.FloatLawsFloat_Extra
import Statrs.Lemmas.FloatStdModelRN
namespace Statrs.Lemmas.FloatModel
open Statrs Statrs.Spec Statrs.Spec.FloatStd
open Float.Model
open Float.Model.UnpackedFloat

/-- the real value of a `Float` (`0` for NaN and ±∞) -/
noncomputable def toReal (a : Float) : ℝ := val (U a)

/-- full(Float): `Fin a` is `FZ (U a)` -/
theorem fin_iff_fz (a : Float) : Fin a ↔ FZ (U a) := by
  rw [fz_iff]; exact Iff.rfl

/-- full(Float.Model): a clamped value that is still finite was not clamped -/
theorem fin64_fz {r : UF} (h : FZ (fin64 r)) : fin64 r = r := by
  rcases r with s | _ | s | ⟨s, m, e, hm⟩ <;> try rfl
  simp only [fin64] at h ⊢
  split_ifs at h ⊢ with he
  · exact absurd h (by simp [FZ])
  · rfl

/-- full(Float.Model): a canonical finite-or-zero value with the value of a representable one is representable -/
theorem rep_of_val_eq {r w : UF} (hr : FZ r) (cr : Canon r) (hw : FZ w) (rw_ : Rep w)
    (h : val r = val w) : Rep r := by
  have hk := (beq_iff_key r w (fz_nn hr) (fz_nn hw)).1 ((beq_iff_val hr hw cr rw_.canon).2 h)
  rcases r with s | _ | s | ⟨s, m, e, hm⟩
  · trivial
  · trivial
  · trivial
  · rcases w with s' | _ | s' | ⟨s', m', e', hm'⟩
    · exact absurd hw (by simp [FZ])
    · exact absurd hw (by simp [FZ])
    · cases s <;> simp [key] at hk
    · simp only [Canon] at cr
      simp only [Rep] at rw_ ⊢
      cases s <;> cases s' <;> simp [key] at hk <;> (refine ⟨cr.1, by omega, cr.2.1, cr.2.2⟩)

/-- the float `c` is the (overflow-clamped) round-to-nearest-even of the real `x` -/
def Rnd (x : ℝ) (c : Float) : Prop := ∃ r, Rounds x r ∧ U c = fin64 r

/-- full(Float): a rounding of a real of magnitude at most `2^1023` is finite -/
theorem Rnd.fin_of_le {x : ℝ} {c : Float} (h : Rnd x c) (hx : |x| ≤ big) : Fin c := by
  obtain ⟨r, h1, h2⟩ := h
  rw [fin_iff_fz, h2, fin64_of_rep (rounds_rep h1 hx)]; exact h1.1

/-- full(Float): the value of a finite rounding is the real rounding -/
theorem Rnd.rnv {x : ℝ} {c : Float} (h : Rnd x c) (hc : Fin c) : RNv x (toReal c) := by
  obtain ⟨r, h1, h2⟩ := h
  rw [fin_iff_fz, h2] at hc
  unfold toReal; rw [h2, fin64_fz hc]; exact h1.2.2

/-- full(Float): standard model of a finite rounding -/
theorem Rnd.std {x : ℝ} {c : Float} (h : Rnd x c) (hc : Fin c) :
    ∃ δ ε : ℝ, |δ| ≤ u ∧ |ε| ≤ η ∧ δ * ε = 0 ∧ toReal c = x * (1 + δ) + ε := (h.rnv hc).std

/-- full(Float): standard model without underflow term when the exact result is on the `2^-1074` grid -/
theorem Rnd.std_grid {x : ℝ} {c : Float} (h : Rnd x c) (hc : Fin c) (k : ℤ)
    (hk : x = (k : ℝ) * (2 : ℝ) ^ (-1074 : ℤ)) :
    ∃ δ : ℝ, |δ| ≤ u ∧ toReal c = x * (1 + δ) := (h.rnv hc).std_grid k hk

/-- full(Float): a representable exact result is returned -/
theorem Rnd.exact {x : ℝ} {c w : Float} (h : Rnd x c) (hw : Fin w) (hx : x = toReal w) :
    Fin c ∧ toReal c = toReal w := by
  obtain ⟨r, h1, h2⟩ := h
  rw [fin_iff_fz] at hw
  subst hx
  have hv := Rounds.val_eq h1 hw (canon_U w)
  have hrep := rep_of_val_eq h1.1 h1.2.1 hw (rep_U w) hv
  rw [fin_iff_fz, h2, fin64_of_rep hrep]
  refine ⟨h1.1, ?_⟩
  unfold toReal; rw [h2, fin64_of_rep hrep]; exact hv

/-! ### every operation is a rounding -/

/-- full(Float): `a + b` is the rounding of the exact sum -/
theorem rnd_add {a b : Float} (ha : Fin a) (hb : Fin b) : Rnd (toReal a + toReal b) (a + b) :=
  ⟨_, uadd_rounds ((fin_iff_fz a).1 ha) ((fin_iff_fz b).1 hb) (canon_U a) (canon_U b), U_add' a b⟩

/-- full(Float): `a - b` is the rounding of the exact difference -/
theorem rnd_sub {a b : Float} (ha : Fin a) (hb : Fin b) : Rnd (toReal a - toReal b) (a - b) :=
  ⟨_, usub_rounds ((fin_iff_fz a).1 ha) ((fin_iff_fz b).1 hb) (canon_U a) (canon_U b), U_sub' a b⟩

/-- full(Float): `a * b` is the rounding of the exact product -/
theorem rnd_mul {a b : Float} (ha : Fin a) (hb : Fin b) : Rnd (toReal a * toReal b) (a * b) :=
  ⟨_, umul_rounds ((fin_iff_fz a).1 ha) ((fin_iff_fz b).1 hb) (canon_U a) (canon_U b), U_mul' a b⟩

/-- full(Float): `a / b` (non-zero divisor) is the rounding of the exact quotient -/
theorem rnd_div {a b : Float} (ha : Fin a) (hb : Fin b) (h0 : toReal b ≠ 0) :
    Rnd (toReal a / toReal b) (a / b) := by
  refine ⟨_, ?_, U_div' a b⟩
  rw [fin_iff_fz] at ha hb
  unfold toReal at h0 ⊢
  rcases hB : U b with s | _ | s | ⟨s, m, e, hm⟩
  · rw [hB] at hb; exact absurd hb (by simp [FZ])
  · rw [hB] at hb; exact absurd hb (by simp [FZ])
  · rw [hB] at h0; exact absurd rfl h0
  · exact udiv_rounds ha s m e hm

/-- full(Float): a finite float with non-negative value is a zero or positive -/
theorem nonneg_cases {a : Float} (ha : Fin a) (h0 : 0 ≤ toReal a) :
    (∃ s, U a = .zero s) ∨ ∃ m e hm, U a = .finite .positive m e hm := by
  rw [fin_iff_fz] at ha
  unfold toReal at h0
  rcases hA : U a with s | _ | s | ⟨s, m, e, hm⟩
  · rw [hA] at ha; exact absurd ha (by simp [FZ])
  · rw [hA] at ha; exact absurd ha (by simp [FZ])
  · exact Or.inl ⟨s, rfl⟩
  · cases s
    · rw [hA] at h0
      have : (0 : ℝ) < (m : ℝ) * (2 : ℝ) ^ e := by positivity
      simp only [val, sgn] at h0
      linarith
    · exact Or.inr ⟨m, e, hm, rfl⟩

/-- full(Float): `sqrt a` (non-negative finite `a`) is the rounding of the exact square root -/
theorem rnd_sqrt {a : Float} (ha : Fin a) (h0 : 0 ≤ toReal a) :
    Rnd (Real.sqrt (toReal a)) (RFun.sqrt a) := by
  refine ⟨_, ?_, U_sqrt' a⟩
  unfold toReal
  rcases nonneg_cases ha h0 with ⟨s, hA⟩ | ⟨m, e, hm, hA⟩
  · rw [hA]
    simp only [val_zero, Real.sqrt_zero]
    cases s <;> exact Rounds.zero _
  · rw [hA]; exact usqrt_f m e hm

/-- full(Float): `RFun.ofInt` is `Float.ofInt` below the panic sentinel -/
theorem ofInt_eq (i : Int) (h1 : -(2 ^ 190 : Int) < i) (h2 : i < 2 ^ 190) :
    (RFun.ofInt i : Float) = Float.ofInt i := by
  show (if i ≤ -(2 ^ 190) ∨ i ≥ 2 ^ 190 then panicNaN else Float.ofInt i) = _
  rw [if_neg (by omega)]

/-- full(Float): `ofInt i` is the rounding of `i` (below the panic sentinel) -/
theorem rnd_ofInt (i : Int) (h1 : -(2 ^ 190 : Int) < i) (h2 : i < 2 ^ 190) :
    Rnd (i : ℝ) (RFun.ofInt i : Float) := by
  rw [ofInt_eq i h1 h2]; exact U_ofInt i

end Statrs.Lemmas.FloatModel
