/-
  Statrs.Lemmas.FloatStdModelInst — `stdModel_float : StdModel Float`: Lean's IEEE `Float` satisfies the standard
  model of floating-point arithmetic (with `toReal a = val (U a)`), assembled from `FloatStdModelFloat`:
  comparisons, literals, exact `neg`/`abs`, absorbing NaN/∞ (`fin_of_add` …), the rounding laws.
  Also `abs_toReal_lt` (finite floats are below `2^1024`).
-/
import Statrs.Lemmas.FloatStdModelFloat
namespace Statrs.Lemmas.FloatModel
open Statrs Statrs.Spec Statrs.Spec.FloatStd
open Float.Model
open Float.Model.UnpackedFloat

/-! ### a finite result has finite operands -/

/-- full(Float.Model): a finite-or-zero sum has finite-or-zero operands -/
theorem fz_of_uadd {x y : UF} (h : FZ (fin64 (UnpackedFloat.add .binary64 x y))) : FZ x ∧ FZ y := by
  rcases x with s | _ | s | ⟨s, m, e, hm⟩ <;> rcases y with s' | _ | s' | ⟨s', m', e', hm'⟩ <;>
    simp only [UnpackedFloat.add, fin64, FZ] at h ⊢ <;> (try trivial)
  split_ifs at h <;> simp at h

/-- full(Float.Model): negation keeps finite-or-zero -/
theorem fz_neg {x : UF} : FZ x.neg ↔ FZ x := by cases x <;> simp [FZ, UnpackedFloat.neg]

/-- full(Float.Model): a finite-or-zero difference has finite-or-zero operands -/
theorem fz_of_usub {x y : UF} (h : FZ (fin64 (UnpackedFloat.sub .binary64 x y))) : FZ x ∧ FZ y := by
  rw [usub_eq_uadd_neg] at h
  have := fz_of_uadd h
  exact ⟨this.1, fz_neg.1 this.2⟩

/-- full(Float.Model): a finite-or-zero product has finite-or-zero operands -/
theorem fz_of_umul {x y : UF} (h : FZ (fin64 (UnpackedFloat.mul .binary64 x y))) : FZ x ∧ FZ y := by
  rcases x with s | _ | s | ⟨s, m, e, hm⟩ <;> rcases y with s' | _ | s' | ⟨s', m', e', hm'⟩ <;>
    simp only [UnpackedFloat.mul, fin64, FZ] at h ⊢ <;> trivial

/-- full(Float.Model): a finite-or-zero quotient has a finite-or-zero numerator -/
theorem fz_of_udiv {x y : UF} (h : FZ (fin64 (UnpackedFloat.div .binary64 x y))) : FZ x := by
  rcases x with s | _ | s | ⟨s, m, e, hm⟩ <;> rcases y with s' | _ | s' | ⟨s', m', e', hm'⟩ <;>
    simp only [UnpackedFloat.div, fin64, FZ] at h ⊢

/-! ### literals, `neg`, `abs` -/

/-- full(Float): `2.0` is `2^52 · 2^-51` -/
theorem U_two : U (2.0 : Float) = .finite .positive (2 ^ 52) (-51) (by decide) := by decide
/-- full(Float): `0.5` is `2^52 · 2^-53` -/
theorem U_half : U (0.5 : Float) = .finite .positive (2 ^ 52) (-53) (by decide) := by decide

private theorem val_pow (e : ℤ) (h : 0 < 2 ^ 52) :
    val (.finite .positive (2 ^ 52) e h) = (2 : ℝ) ^ (52 + e) := by
  simp only [val, sgn, one_mul]
  rw [show ((2 ^ 52 : ℕ) : ℝ) = (2 : ℝ) ^ (52 : ℤ) by norm_num, ← zpow_add₀ (by norm_num : (2 : ℝ) ≠ 0)]

/-- full(Float): `toReal 0.0 = 0` -/
theorem toReal_zero : toReal (0.0 : Float) = 0 := by unfold toReal; rw [U_zero]; rfl
/-- full(Float): `toReal 1.0 = 1` -/
theorem toReal_one : toReal (1.0 : Float) = 1 := by unfold toReal; rw [U_one, val_pow]; norm_num
/-- full(Float): `toReal 2.0 = 2` -/
theorem toReal_two : toReal (2.0 : Float) = 2 := by unfold toReal; rw [U_two, val_pow]; norm_num
/-- full(Float): `toReal 0.5 = 1/2` -/
theorem toReal_half : toReal (0.5 : Float) = 1 / 2 := by unfold toReal; rw [U_half, val_pow]; norm_num

/-- full(Float): negation is exact -/
theorem toReal_neg (a : Float) : toReal (-a) = - toReal a := by
  unfold toReal; rw [U_neg, val_neg]

/-- full(Float): negation keeps finiteness -/
theorem fin_neg (a : Float) (h : Fin a) : Fin (-a) := by
  rw [fin_iff_fz] at h ⊢; rw [U_neg]; exact fz_neg.2 h

/-- full(Float.Model): the value of `abs` -/
theorem val_abs (x : UF) : val x.abs = |val x| := by
  rcases x with s | _ | s | ⟨s, m, e, hm⟩ <;> simp only [UnpackedFloat.abs, val, abs_zero]
  have : (0 : ℝ) ≤ (m : ℝ) * (2 : ℝ) ^ e := by positivity
  cases s <;> simp only [sgn, one_mul, neg_one_mul, abs_neg, abs_of_nonneg this]

/-- full(Float): `abs` is exact -/
theorem toReal_abs (a : Float) : toReal (RFun.abs a) = |toReal a| := by
  unfold toReal; rw [Statrs.Props.Common.U_abs, val_abs]

/-- full(Float): `abs` keeps finiteness -/
theorem fin_abs (a : Float) (h : Fin a) : Fin (RFun.abs a) := by
  rw [fin_iff_fz] at h ⊢; rw [Statrs.Props.Common.U_abs]
  revert h; cases U a <;> simp [FZ, UnpackedFloat.abs]

/-! ### comparisons -/

/-- full(Float): `≤` on finite floats is `≤` of the real values -/
theorem le_iff_toReal (a b : Float) (ha : Fin a) (hb : Fin b) : a ≤ b ↔ toReal a ≤ toReal b := by
  rw [le_def]; exact le_iff_val ((fin_iff_fz a).1 ha) ((fin_iff_fz b).1 hb) (canon_U a) (canon_U b)
/-- full(Float): `<` on finite floats is `<` of the real values -/
theorem lt_iff_toReal (a b : Float) (ha : Fin a) (hb : Fin b) : a < b ↔ toReal a < toReal b := by
  rw [lt_def]; exact lt_iff_val ((fin_iff_fz a).1 ha) ((fin_iff_fz b).1 hb) (canon_U a) (canon_U b)
/-- full(Float): `==` on finite floats is equality of the real values -/
theorem beq_iff_toReal (a b : Float) (ha : Fin a) (hb : Fin b) :
    (a == b) = true ↔ toReal a = toReal b := by
  rw [beq_def]; exact beq_iff_val ((fin_iff_fz a).1 ha) ((fin_iff_fz b).1 hb) (canon_U a) (canon_U b)

/-- full(Float): finite floats are below `2^1024` in magnitude -/
theorem abs_toReal_lt (a : Float) : |toReal a| < 2 * big := by
  unfold toReal
  have hb : (0 : ℝ) < 2 * big := by have := big_pos; linarith
  have hr := rep_U a
  rcases hU : U a with s | _ | s | ⟨s, m, e, hm⟩ <;> simp only [val, abs_zero] <;> try exact hb
  rw [hU] at hr
  simp only [Rep] at hr
  have h1 : (m : ℝ) < (2 : ℝ) ^ (53 : ℤ) := by
    have : (m : ℝ) < ((2 ^ 53 : ℕ) : ℝ) := by exact_mod_cast hr.2.2.1
    rwa [show ((2 ^ 53 : ℕ) : ℝ) = (2 : ℝ) ^ (53 : ℤ) by norm_num] at this
  have h2 : (2 : ℝ) ^ e ≤ (2 : ℝ) ^ (971 : ℤ) := zpow_le_zpow_right₀ (by norm_num) hr.2.1
  have hp : (0 : ℝ) < (2 : ℝ) ^ e := by positivity
  have h3 : (m : ℝ) * (2 : ℝ) ^ e < (2 : ℝ) ^ (53 : ℤ) * (2 : ℝ) ^ (971 : ℤ) := by
    calc (m : ℝ) * (2 : ℝ) ^ e < (2 : ℝ) ^ (53 : ℤ) * (2 : ℝ) ^ e := mul_lt_mul_of_pos_right h1 hp
      _ ≤ _ := mul_le_mul_of_nonneg_left h2 (by positivity)
  have e4 : (2 : ℝ) ^ (53 : ℤ) * (2 : ℝ) ^ (971 : ℤ) = 2 * big := by
    unfold big
    rw [← zpow_add₀ (by norm_num : (2 : ℝ) ≠ 0), show (53 : ℤ) + 971 = 1 + 1023 by norm_num,
      zpow_add₀ (by norm_num : (2 : ℝ) ≠ 0), zpow_one]
  have hnn : (0 : ℝ) ≤ (m : ℝ) * (2 : ℝ) ^ e := by positivity
  rw [← e4]
  cases s <;> simp only [sgn, one_mul, neg_one_mul, abs_neg, abs_of_nonneg hnn] <;> exact h3

/-! ### the instance -/

private theorem two_le_big : 2 ≤ big := by
  unfold big
  calc (2 : ℝ) = (2 : ℝ) ^ (1 : ℤ) := by simp
    _ ≤ _ := zpow_le_zpow_right₀ (by norm_num) (by norm_num)

private theorem int_grid (i : ℤ) : (i : ℝ) = ((i * 2 ^ 1074 : ℤ) : ℝ) * (2 : ℝ) ^ (-1074 : ℤ) := by
  rw [Int.cast_mul, Int.cast_pow, Int.cast_ofNat, zpow_neg, zpow_ofNat, mul_assoc, mul_inv_cancel₀ (pow_ne_zero _ (by norm_num)), mul_one]

/-- full(Float): `sqrt` of a non-negative finite float: relative error `u`, no underflow -/
theorem sqrt_std_float (a : Float) (ha : Fin a) (h0 : 0 ≤ toReal a) (hc : Fin (RFun.sqrt a)) :
    ∃ δ : ℝ, |δ| ≤ u ∧ toReal (RFun.sqrt a) = Real.sqrt (toReal a) * (1 + δ) := by
  have hr := (rnd_sqrt ha h0).rnv hc
  rcases h0.eq_or_lt with h | h
  · rw [← h, Real.sqrt_zero] at hr ⊢
    exact hr.std_grid 0 (by simp)
  · apply hr.std_of_le
    obtain ⟨k, hk⟩ := Statrs.Props.Common.val_grid ((fin_iff_fz a).1 ha) (canon_U a)
    have hp : (0 : ℝ) < (2 : ℝ) ^ (-1074 : ℤ) := by positivity
    have hk1 : (1 : ℝ) ≤ (k : ℝ) := by
      have : (0 : ℝ) < (k : ℝ) := by
        unfold toReal at h; rw [hk] at h
        exact (mul_pos_iff_of_pos_right hp).1 h
      have : (0 : ℤ) < k := by exact_mod_cast this
      exact_mod_cast this
    have hge : (2 : ℝ) ^ (-1074 : ℤ) ≤ toReal a := by
      unfold toReal; rw [hk]
      calc (2 : ℝ) ^ (-1074 : ℤ) = 1 * (2 : ℝ) ^ (-1074 : ℤ) := by ring
        _ ≤ _ := mul_le_mul_of_nonneg_right hk1 hp.le
    have hs : Real.sqrt ((2 : ℝ) ^ (-1074 : ℤ)) = (2 : ℝ) ^ (-537 : ℤ) := by
      rw [show (-1074 : ℤ) = -537 + -537 by norm_num, zpow_add₀ (by norm_num : (2 : ℝ) ≠ 0)]
      exact Real.sqrt_mul_self (by positivity)
    rw [abs_of_nonneg (Real.sqrt_nonneg _)]
    calc (2 : ℝ) ^ (-1022 : ℤ) ≤ (2 : ℝ) ^ (-537 : ℤ) := zpow_le_zpow_right₀ (by norm_num) (by norm_num)
      _ = Real.sqrt ((2 : ℝ) ^ (-1074 : ℤ)) := hs.symm
      _ ≤ _ := Real.sqrt_le_sqrt hge

private theorem int_bound {i : ℤ} {n : ℕ} (h : |i| ≤ 2 ^ n) (hn : n < 190) :
    -(2 ^ 190 : ℤ) < i ∧ i < 2 ^ 190 := by
  have h1 := abs_le.1 h
  have : (2 : ℤ) ^ n < 2 ^ 190 := pow_lt_pow_right₀ (by norm_num) hn
  omega

private theorem int_big {i : ℤ} (h : |i| ≤ 2 ^ 64) : |(i : ℝ)| ≤ big := by
  have : ((|i| : ℤ) : ℝ) ≤ ((2 ^ 64 : ℤ) : ℝ) := by exact_mod_cast h
  have e64 : ((2 ^ 64 : ℤ) : ℝ) = (2 : ℝ) ^ (64 : ℤ) := by norm_num
  rw [e64] at this
  push_cast at this
  refine this.trans ?_
  unfold big
  exact zpow_le_zpow_right₀ (by norm_num) (by norm_num)

/-- full(Float): Lean's IEEE `Float` satisfies the standard model of floating-point arithmetic -/
noncomputable def stdModel_float : StdModel Float where
  toReal := toReal
  le_iff := le_iff_toReal
  lt_iff := lt_iff_toReal
  beq_iff := beq_iff_toReal
  zero_fin := by decide
  toReal_zero := toReal_zero
  one_fin := by decide
  toReal_one := toReal_one
  two_fin := by decide
  toReal_two := toReal_two
  half_fin := by decide
  toReal_half := toReal_half
  neg_fin := fin_neg
  toReal_neg := fun a _ => toReal_neg a
  abs_fin := fin_abs
  toReal_abs := fun a _ => toReal_abs a
  add_fin := fun a b ha hb h => (rnd_add ha hb).fin_of_le h
  sub_fin := fun a b ha hb h => (rnd_sub ha hb).fin_of_le h
  mul_fin := fun a b ha hb h => (rnd_mul ha hb).fin_of_le h
  div_fin := fun a b ha hb h0 h => (rnd_div ha hb h0).fin_of_le h
  sqrt_fin := fun a ha h0 => by
    refine (rnd_sqrt ha h0).fin_of_le ?_
    have h1 := abs_toReal_lt a
    rw [abs_of_nonneg h0] at h1
    rw [abs_of_nonneg (Real.sqrt_nonneg _)]
    have hb := two_le_big
    rw [Real.sqrt_le_left (by linarith)]
    nlinarith
  fin_of_add := fun a b h => by
    rw [fin_iff_fz, U_add'] at h; rw [fin_iff_fz, fin_iff_fz]; exact fz_of_uadd h
  fin_of_sub := fun a b h => by
    rw [fin_iff_fz, U_sub'] at h; rw [fin_iff_fz, fin_iff_fz]; exact fz_of_usub h
  fin_of_mul := fun a b h => by
    rw [fin_iff_fz, U_mul'] at h; rw [fin_iff_fz, fin_iff_fz]; exact fz_of_umul h
  fin_of_div := fun a b h => by
    rw [fin_iff_fz, U_div'] at h; rw [fin_iff_fz]; exact fz_of_udiv h
  add_std := fun a b ha hb hc => by
    obtain ⟨k, hk⟩ := Statrs.Props.Common.val_grid ((fin_iff_fz a).1 ha) (canon_U a)
    obtain ⟨k', hk'⟩ := Statrs.Props.Common.val_grid ((fin_iff_fz b).1 hb) (canon_U b)
    exact (rnd_add ha hb).std_grid hc (k + k') (by unfold toReal; rw [hk, hk']; push_cast; ring)
  sub_std := fun a b ha hb hc => by
    obtain ⟨k, hk⟩ := Statrs.Props.Common.val_grid ((fin_iff_fz a).1 ha) (canon_U a)
    obtain ⟨k', hk'⟩ := Statrs.Props.Common.val_grid ((fin_iff_fz b).1 hb) (canon_U b)
    exact (rnd_sub ha hb).std_grid hc (k - k') (by unfold toReal; rw [hk, hk']; push_cast; ring)
  mul_std := fun a b ha hb hc => (rnd_mul ha hb).std hc
  div_std := fun a b ha hb h0 hc => (rnd_div ha hb h0).std hc
  sqrt_std := fun a ha h0 => sqrt_std_float a ha h0 (by
    refine (rnd_sqrt ha h0).fin_of_le ?_
    have h1 := abs_toReal_lt a
    rw [abs_of_nonneg h0] at h1
    rw [abs_of_nonneg (Real.sqrt_nonneg _)]
    have hb := two_le_big
    rw [Real.sqrt_le_left (by linarith)]
    nlinarith)
  add_exact := fun a b c ha hb hc h => (rnd_add ha hb).exact hc h
  sub_exact := fun a b c ha hb hc h => (rnd_sub ha hb).exact hc h
  mul_exact := fun a b c ha hb hc h => (rnd_mul ha hb).exact hc h
  div_exact := fun a b c ha hb hc h0 h => (rnd_div ha hb h0).exact hc h
  ofInt_exact := fun i hi => by
    have hb := int_bound hi (by norm_num)
    have hr := rnd_ofInt i hb.1 hb.2
    have hf : Fin (RFun.ofInt i : Float) :=
      hr.fin_of_le (int_big (hi.trans (by norm_num)))
    exact ⟨hf, (hr.rnv hf).int_exact hi⟩
  ofInt_std := fun i hi => by
    have hb := int_bound hi (by norm_num)
    have hr := rnd_ofInt i hb.1 hb.2
    have hf : Fin (RFun.ofInt i : Float) := hr.fin_of_le (int_big hi)
    refine ⟨hf, ?_⟩
    exact (hr.rnv hf).std_grid (i * 2 ^ 1074) (int_grid i)

/-! ### the standard model over `Float`, stated plainly -/

/-- full(Float): `toReal (a + b) = (toReal a + toReal b)(1+δ)`, `|δ| ≤ 2^-53` (finite operands, finite result; no underflow term) -/
theorem toReal_add (a b : Float) (ha : Fin a) (hb : Fin b) (hc : Fin (a + b)) :
    ∃ δ : ℝ, |δ| ≤ u ∧ toReal (a + b) = (toReal a + toReal b) * (1 + δ) := stdModel_float.add_std a b ha hb hc
/-- full(Float): `toReal (a - b) = (toReal a - toReal b)(1+δ)`, `|δ| ≤ 2^-53` -/
theorem toReal_sub (a b : Float) (ha : Fin a) (hb : Fin b) (hc : Fin (a - b)) :
    ∃ δ : ℝ, |δ| ≤ u ∧ toReal (a - b) = (toReal a - toReal b) * (1 + δ) := stdModel_float.sub_std a b ha hb hc
/-- full(Float): `toReal (a * b) = (toReal a · toReal b)(1+δ) + ε`, `|δ| ≤ 2^-53`, `|ε| ≤ 2^-1075`, `δ·ε = 0` -/
theorem toReal_mul (a b : Float) (ha : Fin a) (hb : Fin b) (hc : Fin (a * b)) :
    ∃ δ ε : ℝ, |δ| ≤ u ∧ |ε| ≤ η ∧ δ * ε = 0 ∧ toReal (a * b) = (toReal a * toReal b) * (1 + δ) + ε :=
  stdModel_float.mul_std a b ha hb hc
/-- full(Float): `toReal (a / b) = (toReal a / toReal b)(1+δ) + ε` for a non-zero finite divisor -/
theorem toReal_div (a b : Float) (ha : Fin a) (hb : Fin b) (h0 : toReal b ≠ 0) (hc : Fin (a / b)) :
    ∃ δ ε : ℝ, |δ| ≤ u ∧ |ε| ≤ η ∧ δ * ε = 0 ∧ toReal (a / b) = (toReal a / toReal b) * (1 + δ) + ε :=
  stdModel_float.div_std a b ha hb h0 hc
/-- full(Float): `toReal (sqrt a) = √(toReal a)·(1+δ)` for a finite `a` with `0 ≤ toReal a` (never over/underflows) -/
theorem toReal_sqrt (a : Float) (ha : Fin a) (h0 : 0 ≤ toReal a) :
    Fin (RFun.sqrt a) ∧ ∃ δ : ℝ, |δ| ≤ u ∧ toReal (RFun.sqrt a) = Real.sqrt (toReal a) * (1 + δ) :=
  ⟨stdModel_float.sqrt_fin a ha h0, stdModel_float.sqrt_std a ha h0⟩
/-- full(Float): `toReal (ofInt i) = i` for `|i| ≤ 2^53` -/
theorem toReal_ofInt (i : ℤ) (hi : |i| ≤ 2 ^ 53) : Fin (RFun.ofInt i : Float) ∧ toReal (RFun.ofInt i : Float) = i :=
  stdModel_float.ofInt_exact i hi
/-- full(Float): no overflow below `2^1023`: the four operations return a finite value -/
theorem fin_of_abs_le (a b : Float) (ha : Fin a) (hb : Fin b) :
    (|toReal a + toReal b| ≤ big → Fin (a + b)) ∧ (|toReal a - toReal b| ≤ big → Fin (a - b)) ∧
    (|toReal a * toReal b| ≤ big → Fin (a * b)) ∧ (toReal b ≠ 0 → |toReal a / toReal b| ≤ big → Fin (a / b)) :=
  ⟨stdModel_float.add_fin a b ha hb, stdModel_float.sub_fin a b ha hb, stdModel_float.mul_fin a b ha hb,
   stdModel_float.div_fin a b ha hb⟩

end Statrs.Lemmas.FloatModel
