/-
  Statrs.Lemmas.FloatStdModelLemmas — working forms of the standard model `StdModel α` (carrier-generic):
    * `γ k = k·u/(1−k·u)`: `(1+u)^k ≤ 1 + γ k`, `(1+u)^k − 1 ≤ γ k`, monotonicity;
    * absolute-error forms `|toReal (a ⊕ b) − (toReal a + toReal b)| ≤ u·|toReal a + toReal b|`, … and
      `|toReal (a ⊗ b) − toReal a·toReal b| ≤ u·|toReal a·toReal b| + η`;
    * small real-arithmetic helpers for error propagation.
-/
import Statrs.Lemmas.FloatStdModel
namespace Statrs.Spec
open Statrs

namespace FloatStd

/-- full(ℝ): `(1+u)^k (1 − k u) ≤ 1` -/
theorem one_add_u_pow_mul_le (k : ℕ) : (1 + u) ^ k * (1 - k * u) ≤ 1 := by
  induction k with
  | zero => simp
  | succ k ih =>
    have hu := u_pos
    have hp : (0 : ℝ) ≤ (1 + u) ^ k := by positivity
    have e : (1 + u) ^ (k + 1) * (1 - ((k + 1 : ℕ) : ℝ) * u)
        = (1 + u) ^ k * (1 - k * u) - (1 + u) ^ k * ((k + 1) * u ^ 2) := by
      push_cast; ring
    rw [e]
    have : 0 ≤ (1 + u) ^ k * (((k : ℝ) + 1) * u ^ 2) := by positivity
    linarith

/-- full(ℝ): `γ k ≥ 0` when `k u < 1` -/
theorem γ_nonneg {k : ℕ} (hk : (k : ℝ) * u < 1) : 0 ≤ γ k := by
  unfold γ
  have := u_pos
  apply div_nonneg (by positivity) (by linarith)

/-- full(ℝ): `1 + γ k = 1 / (1 − k u)` -/
theorem one_add_γ {k : ℕ} (hk : (k : ℝ) * u < 1) : 1 + γ k = 1 / (1 - k * u) := by
  unfold γ
  have : (1 - (k : ℝ) * u) ≠ 0 := by linarith
  field_simp; ring

/-- full(ℝ): `(1+u)^k ≤ 1 + γ k` when `k u < 1` -/
theorem one_add_u_pow_le {k : ℕ} (hk : (k : ℝ) * u < 1) : (1 + u) ^ k ≤ 1 + γ k := by
  rw [one_add_γ hk, le_div_iff₀ (by linarith)]
  exact one_add_u_pow_mul_le k

/-- full(ℝ): `(1+u)^k − 1 ≤ γ k` when `k u < 1` (Higham, Lemma 3.1) -/
theorem pow_sub_one_le_γ {k : ℕ} (hk : (k : ℝ) * u < 1) : (1 + u) ^ k - 1 ≤ γ k := by
  have := one_add_u_pow_le hk; linarith

/-- full(ℝ): `γ` is monotone below the pole -/
theorem γ_mono {j k : ℕ} (hjk : j ≤ k) (hk : (k : ℝ) * u < 1) : γ j ≤ γ k := by
  have hu := u_pos
  have hj : (j : ℝ) ≤ k := by exact_mod_cast hjk
  have hj1 : (j : ℝ) * u < 1 := lt_of_le_of_lt (mul_le_mul_of_nonneg_right hj hu.le) hk
  have e1 := one_add_γ hj1
  have e2 := one_add_γ hk
  have : 1 / (1 - (j : ℝ) * u) ≤ 1 / (1 - (k : ℝ) * u) :=
    one_div_le_one_div_of_le (by linarith) (by nlinarith)
  linarith

/-- full(ℝ): `1 ≤ (1+u)^k` -/
theorem one_le_one_add_u_pow (k : ℕ) : 1 ≤ (1 + u) ^ k :=
  one_le_pow₀ (by have := u_pos; linarith)

/-- full(ℝ): `|1+δ| ≤ 1+u` -/
theorem abs_one_add_le {δ : ℝ} (h : |δ| ≤ u) : |1 + δ| ≤ 1 + u :=
  calc |1 + δ| ≤ |(1 : ℝ)| + |δ| := abs_add_le _ _
    _ ≤ 1 + u := by rw [abs_one]; linarith

/-- full(ℝ): `1 − u ≤ 1+δ` -/
theorem one_sub_le {δ : ℝ} (h : |δ| ≤ u) : 1 - u ≤ 1 + δ := by
  have := (abs_le.1 h).1; linarith

/-- full(ℝ): product of bounded factors -/
theorem abs_mul_le_mul {a b x y : ℝ} (ha : |a| ≤ x) (hb : |b| ≤ y) : |a * b| ≤ x * y := by
  rw [abs_mul]
  exact mul_le_mul ha hb (abs_nonneg _) ((abs_nonneg _).trans ha)

end FloatStd
open FloatStd

namespace StdModel
variable {α : Type} [Add α] [Sub α] [Mul α] [Div α] [Neg α] [LT α] [LE α] [BEq α]
  [OfScientific α] [RFun α] (M : StdModel α)

/-- full(∀α, StdModel): absolute-error form of addition -/
theorem add_abs (a b : α) (ha : Fin a) (hb : Fin b) (hc : Fin (a + b)) :
    |M.toReal (a + b) - (M.toReal a + M.toReal b)| ≤ u * |M.toReal a + M.toReal b| := by
  obtain ⟨δ, h1, h2⟩ := M.add_std a b ha hb hc
  rw [h2, show (M.toReal a + M.toReal b) * (1 + δ) - (M.toReal a + M.toReal b)
    = δ * (M.toReal a + M.toReal b) by ring]
  exact abs_mul_le_mul h1 le_rfl

/-- full(∀α, StdModel): absolute-error form of subtraction -/
theorem sub_abs (a b : α) (ha : Fin a) (hb : Fin b) (hc : Fin (a - b)) :
    |M.toReal (a - b) - (M.toReal a - M.toReal b)| ≤ u * |M.toReal a - M.toReal b| := by
  obtain ⟨δ, h1, h2⟩ := M.sub_std a b ha hb hc
  rw [h2, show (M.toReal a - M.toReal b) * (1 + δ) - (M.toReal a - M.toReal b)
    = δ * (M.toReal a - M.toReal b) by ring]
  exact abs_mul_le_mul h1 le_rfl

/-- full(∀α, StdModel): absolute-error form of multiplication -/
theorem mul_abs (a b : α) (ha : Fin a) (hb : Fin b) (hc : Fin (a * b)) :
    |M.toReal (a * b) - M.toReal a * M.toReal b| ≤ u * |M.toReal a * M.toReal b| + η := by
  obtain ⟨δ, ε, h1, h2, _, h4⟩ := M.mul_std a b ha hb hc
  rw [h4, show M.toReal a * M.toReal b * (1 + δ) + ε - M.toReal a * M.toReal b
    = δ * (M.toReal a * M.toReal b) + ε by ring]
  exact (abs_add_le _ _).trans (add_le_add (abs_mul_le_mul h1 le_rfl) h2)

/-- full(∀α, StdModel): absolute-error form of division -/
theorem div_abs (a b : α) (ha : Fin a) (hb : Fin b) (h0 : M.toReal b ≠ 0) (hc : Fin (a / b)) :
    |M.toReal (a / b) - M.toReal a / M.toReal b| ≤ u * |M.toReal a / M.toReal b| + η := by
  obtain ⟨δ, ε, h1, h2, _, h4⟩ := M.div_std a b ha hb h0 hc
  rw [h4, show M.toReal a / M.toReal b * (1 + δ) + ε - M.toReal a / M.toReal b
    = δ * (M.toReal a / M.toReal b) + ε by ring]
  exact (abs_add_le _ _).trans (add_le_add (abs_mul_le_mul h1 le_rfl) h2)

end StdModel
end Statrs.Spec
