/-
  Statrs.Lemmas.FloatStdModelRN — the quantitative content of round-to-nearest-even (`IsRN`, `RNv` of
  FloatModelRN / FloatModelRound), pure real arithmetic:
    (`u = 2^-53`, `η = 2^-1075`, `big = 2^1023` are defined in FloatStdModel)
    * `IsRN.err`      : `|x − m·2^t| ≤ 2^t / 2`;
    * `RNv.err_rel`   : `|r − x| ≤ u·|x|` when `2^-1022 ≤ |x|`;
    * `RNv.err_abs`   : `|r − x| ≤ η` when `|x| < 2^-1022`;
    * `RNv.std`       : the standard model `r = x(1+δ) + ε`, `|δ| ≤ u`, `|ε| ≤ η`, `δ·ε = 0`;
    * `RNv.std_grid`  : no underflow term when `x` is an integer multiple of `2^-1074` (sums and differences of floats);
    * `RNv.std_of_le` : no underflow term when `2^-1022 ≤ |x|`;
    * `RNv.int_exact` : integers of magnitude ≤ 2^53 round to themselves.
-/
import Statrs.Lemmas.FloatModelRound
import Statrs.Lemmas.FloatStdModel
namespace Statrs.Lemmas.FloatModel
open Statrs.Spec.FloatStd


private theorem zp (t : ℤ) : (0 : ℝ) < (2 : ℝ) ^ t := by positivity
private theorem zadd (a b : ℤ) : (2 : ℝ) ^ (a + b) = (2 : ℝ) ^ a * (2 : ℝ) ^ b :=
  zpow_add₀ (by norm_num) a b

/-- full(ℝ): the rounding error is at most half a quantum -/
theorem IsRN.err {x : ℝ} {m : ℕ} {t : ℤ} (h : IsRN x m t) :
    |x - (m : ℝ) * (2 : ℝ) ^ t| ≤ (2 : ℝ) ^ t / 2 := by
  have hp := zp t
  have h5 := h.2.2.2.2.1
  have e : x - (m : ℝ) * (2 : ℝ) ^ t = (x / (2 : ℝ) ^ t - m) * (2 : ℝ) ^ t := by
    field_simp
  rw [e, abs_mul, abs_of_pos hp]
  calc |x / (2 : ℝ) ^ t - m| * (2 : ℝ) ^ t ≤ 1 / 2 * (2 : ℝ) ^ t :=
        mul_le_mul_of_nonneg_right h5 hp.le
    _ = (2 : ℝ) ^ t / 2 := by ring

/-- full(ℝ): in the normal range the rounding error is at most `u·x` -/
theorem IsRN.err_rel {x : ℝ} {m : ℕ} {t : ℤ} (h : IsRN x m t) (hx : (2 : ℝ) ^ (-1022 : ℤ) ≤ x) :
    |x - (m : ℝ) * (2 : ℝ) ^ t| ≤ u * x := by
  have h52 : (2 : ℝ) ^ (t + 52) ≤ x := by
    rcases h.2.2.2.1 with ht | ht
    · subst ht; norm_num at hx ⊢; exact hx
    · exact ht
  have e : (2 : ℝ) ^ t / 2 = u * (2 : ℝ) ^ (t + 52) := by
    unfold u
    rw [← zadd, show (-53 : ℤ) + (t + 52) = t + (-1) by ring, zadd]
    norm_num; ring
  calc _ ≤ (2 : ℝ) ^ t / 2 := h.err
    _ = u * (2 : ℝ) ^ (t + 52) := e
    _ ≤ u * x := mul_le_mul_of_nonneg_left h52 u_pos.le

/-- full(ℝ): below the normal range the quantum is `2^-1074` -/
theorem IsRN.t_of_lt {x : ℝ} {m : ℕ} {t : ℤ} (h : IsRN x m t) (hx : x < (2 : ℝ) ^ (-1022 : ℤ)) :
    t = -1074 := by
  rcases h.2.2.2.1 with ht | ht
  · exact ht
  · by_contra hne
    have h1 := h.1
    have : (2 : ℝ) ^ (-1022 : ℤ) ≤ (2 : ℝ) ^ (t + 52) :=
      zpow_le_zpow_right₀ (by norm_num) (by omega)
    linarith

/-- full(ℝ): in the subnormal range the rounding error is at most `η` -/
theorem IsRN.err_abs {x : ℝ} {m : ℕ} {t : ℤ} (h : IsRN x m t) (hx : x < (2 : ℝ) ^ (-1022 : ℤ)) :
    |x - (m : ℝ) * (2 : ℝ) ^ t| ≤ η := by
  have ht := h.t_of_lt hx
  have := h.err
  rw [ht] at this ⊢
  have e : (2 : ℝ) ^ (-1074 : ℤ) / 2 = η := by
    unfold η
    rw [show (-1075 : ℤ) = -1074 + (-1) by norm_num, zadd, zpow_neg_one]
    generalize (2 : ℝ) ^ (-1074 : ℤ) = q
    ring
  rwa [e] at this

/-- full(ℝ): a real whose scaled value is a natural number rounds to itself -/
theorem IsRN.of_nat_quot {x : ℝ} {m : ℕ} {t : ℤ} (h : IsRN x m t) (k : ℕ)
    (hk : x / (2 : ℝ) ^ t = k) : (m : ℝ) * (2 : ℝ) ^ t = x := by
  have h5 := h.2.2.2.2.1
  rw [hk] at h5
  have : |((k : ℤ) : ℝ) - ((m : ℤ) : ℝ)| < 1 := by push_cast; linarith
  have h2 : |(k : ℤ) - (m : ℤ)| < 1 := by
    have : ((|(k : ℤ) - (m : ℤ)| : ℤ) : ℝ) < ((1 : ℤ) : ℝ) := by push_cast; exact this
    exact_mod_cast this
  have hkm : k = m := by
    have := abs_lt.1 h2; omega
  have hp := zp t
  rw [← hkm, ← hk]; field_simp

/-- full(ℝ): the error of a signed rounding is the error of rounding the magnitude -/
theorem RNv.abs_err {x r : ℝ} (h : RNv x r) :
    ∃ m t, IsRN |x| m t ∧ |r - x| = |(|x| - (m : ℝ) * (2 : ℝ) ^ t)| := by
  obtain ⟨m, t, h1, h2, h3⟩ := h
  refine ⟨m, t, h1, ?_⟩
  rcases le_total 0 x with hx | hx
  · rw [h2 hx, abs_of_nonneg hx, abs_sub_comm]
  · rw [h3 hx, abs_of_nonpos hx]; congr 1; ring

/-- full(ℝ): relative error `≤ u` in the normal range -/
theorem RNv.err_rel {x r : ℝ} (h : RNv x r) (hx : (2 : ℝ) ^ (-1022 : ℤ) ≤ |x|) :
    |r - x| ≤ u * |x| := by
  obtain ⟨m, t, h1, h2⟩ := h.abs_err
  rw [h2]; exact h1.err_rel hx

/-- full(ℝ): absolute error `≤ η` in the subnormal range -/
theorem RNv.err_abs {x r : ℝ} (h : RNv x r) (hx : |x| < (2 : ℝ) ^ (-1022 : ℤ)) :
    |r - x| ≤ η := by
  obtain ⟨m, t, h1, h2⟩ := h.abs_err
  rw [h2]; exact h1.err_abs hx

/-- full(ℝ): a relative-error bound as a factor `1+δ` -/
theorem exists_delta {x r c : ℝ} (hc : 0 ≤ c) (h : |r - x| ≤ c * |x|) :
    ∃ δ : ℝ, |δ| ≤ c ∧ r = x * (1 + δ) := by
  by_cases hx : x = 0
  · subst hx
    simp only [abs_zero, mul_zero, sub_zero] at h
    have hr : r = 0 := abs_eq_zero.1 (le_antisymm h (abs_nonneg _))
    exact ⟨0, by simpa using hc, by simp [hr]⟩
  · refine ⟨(r - x) / x, ?_, by field_simp; ring⟩
    rw [abs_div, div_le_iff₀ (abs_pos.2 hx)]; exact h

/-- full(ℝ): the standard model of a rounding: `r = x(1+δ) + ε` with `|δ| ≤ u`, `|ε| ≤ η`, and one of the two vanishes -/
theorem RNv.std {x r : ℝ} (h : RNv x r) :
    ∃ δ ε : ℝ, |δ| ≤ u ∧ |ε| ≤ η ∧ δ * ε = 0 ∧ r = x * (1 + δ) + ε := by
  rcases le_or_gt ((2 : ℝ) ^ (-1022 : ℤ)) |x| with hx | hx
  · obtain ⟨δ, h1, h2⟩ := exists_delta u_pos.le (h.err_rel hx)
    exact ⟨δ, 0, h1, by simpa using η_pos.le, by simp, by rw [h2]; ring⟩
  · exact ⟨0, r - x, by simpa using u_pos.le, h.err_abs hx, by simp, by ring⟩

/-- full(ℝ): no underflow term in the normal range -/
theorem RNv.std_of_le {x r : ℝ} (h : RNv x r) (hx : (2 : ℝ) ^ (-1022 : ℤ) ≤ |x|) :
    ∃ δ : ℝ, |δ| ≤ u ∧ r = x * (1 + δ) :=
  exists_delta u_pos.le (h.err_rel hx)

/-- full(ℝ): an integer multiple of `2^-1074` below the normal range rounds to itself -/
theorem RNv.grid_exact {x r : ℝ} (h : RNv x r) (k : ℤ) (hk : x = (k : ℝ) * (2 : ℝ) ^ (-1074 : ℤ))
    (hx : |x| < (2 : ℝ) ^ (-1022 : ℤ)) : r = x := by
  obtain ⟨m, t, h1, h2, h3⟩ := h
  have ht := h1.t_of_lt hx
  subst ht
  have hp := zp (-1074)
  have hq : |x| / (2 : ℝ) ^ (-1074 : ℤ) = (k.natAbs : ℕ) := by
    rw [hk, abs_mul, abs_of_pos hp, mul_div_assoc, div_self hp.ne', mul_one, Nat.cast_natAbs]
    push_cast; rfl
  have := h1.of_nat_quot _ hq
  rcases le_total 0 x with hx0 | hx0
  · rw [h2 hx0, this, abs_of_nonneg hx0]
  · rw [h3 hx0, this, abs_of_nonpos hx0]; ring

/-- full(ℝ): sums/differences of floats (integer multiples of `2^-1074`): pure relative error, no underflow term -/
theorem RNv.std_grid {x r : ℝ} (h : RNv x r) (k : ℤ) (hk : x = (k : ℝ) * (2 : ℝ) ^ (-1074 : ℤ)) :
    ∃ δ : ℝ, |δ| ≤ u ∧ r = x * (1 + δ) := by
  rcases le_or_gt ((2 : ℝ) ^ (-1022 : ℤ)) |x| with hx | hx
  · exact h.std_of_le hx
  · exact ⟨0, by simpa using u_pos.le, by rw [h.grid_exact k hk hx]; ring⟩

/-- full(ℝ): natural numbers up to `2^53` round to themselves -/
theorem IsRN.nat_exact {n m : ℕ} {t : ℤ} (h : IsRN (n : ℝ) m t) (hn : n ≤ 2 ^ 53) :
    (m : ℝ) * (2 : ℝ) ^ t = n := by
  by_cases h0 : n = 0
  · subst h0
    have := IsRN.zero (by simpa using h : IsRN 0 m t)
    simp [this]
  have h1 : (1 : ℝ) ≤ n := by exact_mod_cast Nat.one_le_iff_ne_zero.2 h0
  have htl := h.1
  -- t ≠ -1074
  have ht : t ≠ -1074 := by
    intro ht; subst ht
    have := h.2.2.1
    have : (2 : ℝ) ^ ((-1074 : ℤ) + 53) ≤ (2 : ℝ) ^ (0 : ℤ) := zpow_le_zpow_right₀ (by norm_num) (by norm_num)
    simp only [zpow_zero] at this
    linarith
  have h52 := h.2.2.2.1.resolve_left ht
  have hn' : (n : ℝ) ≤ (2 : ℝ) ^ (53 : ℤ) := by
    have : (n : ℝ) ≤ ((2 ^ 53 : ℕ) : ℝ) := by exact_mod_cast hn
    rw [show ((2 ^ 53 : ℕ) : ℝ) = (2 : ℝ) ^ (53 : ℤ) by norm_num] at this
    exact this
  have ht1 : t ≤ 1 := by
    by_contra hgt
    have : (2 : ℝ) ^ (53 : ℤ) < (2 : ℝ) ^ (t + 52) := zpow_lt_zpow_right₀ (by norm_num) (by omega)
    linarith
  rcases lt_or_eq_of_le ht1 with hlt | heq
  · -- t ≤ 0: n / 2^t = n * 2^(-t)
    obtain ⟨j, hj⟩ : ∃ j : ℕ, t = -(j : ℤ) := ⟨(-t).toNat, by omega⟩
    apply h.of_nat_quot (n * 2 ^ j)
    rw [hj, zpow_neg, div_inv_eq_mul]; push_cast; norm_cast
  · subst heq
    have : (n : ℝ) = (2 : ℝ) ^ (53 : ℤ) := le_antisymm hn' (by simpa using h52)
    apply h.of_nat_quot (2 ^ 52)
    rw [this]; norm_num

/-- full(ℝ): integers of magnitude at most `2^53` round to themselves -/
theorem RNv.int_exact {k : ℤ} {r : ℝ} (h : RNv (k : ℝ) r) (hk : |k| ≤ 2 ^ 53) : r = k := by
  obtain ⟨m, t, h1, h2, h3⟩ := h
  have e : |(k : ℝ)| = (k.natAbs : ℕ) := by rw [Nat.cast_natAbs]; push_cast; rfl
  rw [e] at h1
  have hn : k.natAbs ≤ 2 ^ 53 := by
    have : (k.natAbs : ℤ) ≤ 2 ^ 53 := by rw [Int.natCast_natAbs]; exact hk
    exact_mod_cast this
  have := h1.nat_exact hn
  rw [← e] at this
  rcases le_total 0 (k : ℝ) with hx | hx
  · rw [h2 hx, this, abs_of_nonneg hx]
  · rw [h3 hx, this, abs_of_nonpos hx]; ring

/-- full(ℝ): a rounding of magnitude: `|r| ≤ |x|(1+u) + η` -/
theorem RNv.abs_le {x r : ℝ} (h : RNv x r) : |r| ≤ |x| * (1 + u) + η := by
  obtain ⟨δ, ε, h1, h2, _, h4⟩ := h.std
  rw [h4]
  calc |x * (1 + δ) + ε| ≤ |x * (1 + δ)| + |ε| := abs_add_le _ _
    _ ≤ |x| * (1 + u) + η := by
        rw [abs_mul]
        have : |1 + δ| ≤ 1 + u := by
          calc |1 + δ| ≤ |(1 : ℝ)| + |δ| := abs_add_le _ _
            _ ≤ 1 + u := by rw [abs_one]; linarith
        have := mul_le_mul_of_nonneg_left this (abs_nonneg x)
        linarith

end Statrs.Lemmas.FloatModel
