/-
  Helper lemmas for the function-layer properties (C11 / C12 / C20):
  truncated remainder on `Int` and on ℝ, the fuel-indexed `erf_impl.rec`, junk constants over ℝ,
  the factorial table `FCACHE` over ℝ, list-sum helpers.
-/
import Statrs.Real.Simp
import Statrs.Gen.R_euclid
import Statrs.Gen.F_erf
import Statrs.Gen.F_factorial
import Mathlib.Tactic
open Statrs Statrs.Gen
namespace Statrs.Lemmas.FunctionLayer

/-! ### junk constants over ℝ (see Real/Inst.lean) -/
@[simp] theorem rfun_inf_real : (RFun.inf : ℝ) = 0 := rfl
@[simp] theorem rfun_negInf_real : (RFun.negInf : ℝ) = 0 := rfl
@[simp] theorem rfun_nan_real : (RFun.nan : ℝ) = 0 := rfl

/-! ### truncated remainder on `Int` -/

theorem tmod_canon_pos (x d : Int) (hd : 0 < d) :
    0 ≤ Int.tmod (Int.tmod x d + d) d ∧ Int.tmod (Int.tmod x d + d) d < d ∧
      d ∣ x - Int.tmod (Int.tmod x d + d) d := by
  have h1 := Int.lt_tmod_of_pos x hd
  have h3 : d ∣ x - Int.tmod x d := Int.dvd_self_sub_tmod
  have h4 : d ∣ (Int.tmod x d + d) - Int.tmod (Int.tmod x d + d) d := Int.dvd_self_sub_tmod
  refine ⟨Int.tmod_nonneg _ (by omega), Int.tmod_lt_of_pos _ hd, ?_⟩
  have : x - Int.tmod (Int.tmod x d + d) d
      = (x - Int.tmod x d) + ((Int.tmod x d + d) - Int.tmod (Int.tmod x d + d) d) - d := by ring
  rw [this]
  exact Int.dvd_sub (Int.dvd_add h3 h4) (Int.dvd_refl d)

theorem tmod_canon_neg (x d : Int) (hd : d < 0) :
    d < Int.tmod (Int.tmod x d + d) d ∧ Int.tmod (Int.tmod x d + d) d ≤ 0 ∧
      d ∣ x - Int.tmod (Int.tmod x d + d) d := by
  have hd' : 0 < -d := by omega
  have h1 : Int.tmod x d < -d := by rw [← Int.tmod_neg]; exact Int.tmod_lt_of_pos x hd'
  have h3 : d ∣ x - Int.tmod x d := Int.dvd_self_sub_tmod
  have h4 : d ∣ (Int.tmod x d + d) - Int.tmod (Int.tmod x d + d) d := Int.dvd_self_sub_tmod
  have hlt : d < Int.tmod (Int.tmod x d + d) d := by
    have := Int.lt_tmod_of_pos (Int.tmod x d + d) hd'
    rw [Int.tmod_neg] at this; omega
  have hle : Int.tmod (Int.tmod x d + d) d ≤ 0 := by
    have h := Int.tmod_nonneg d (a := -(Int.tmod x d + d)) (by omega)
    rw [Int.neg_tmod] at h; omega
  refine ⟨hlt, hle, ?_⟩
  have : x - Int.tmod (Int.tmod x d + d) d
      = (x - Int.tmod x d) + ((Int.tmod x d + d) - Int.tmod (Int.tmod x d + d) d) - d := by ring
  rw [this]
  exact Int.dvd_sub (Int.dvd_add h3 h4) (Int.dvd_refl d)

theorem emod_canon_pos (x d : Int) (hd : 0 < d) :
    0 ≤ (x % d + d) % d ∧ (x % d + d) % d < d ∧ d ∣ x - (x % d + d) % d := by
  have e : (x % d + d) % d = x % d := by
    rw [Int.add_emod_right, Int.emod_emod_of_dvd _ (Int.dvd_refl d)]
  rw [e]
  exact ⟨Int.emod_nonneg _ (by omega), Int.emod_lt_of_pos _ hd, Int.dvd_self_sub_emod⟩

/-- for `0 < d`: the intermediate `x tmod d + d` exceeds `M` iff `0 ≤ x < d` and `x + d > M`
    (when `x ≤ M`). -/
theorem tmod_add_gt_iff (x d M : Int) (hd : 0 < d) (hx : x ≤ M) (hdM : d ≤ M) :
    M < Int.tmod x d + d ↔ (0 ≤ x ∧ x < d ∧ M < x + d) := by
  constructor
  · intro h
    by_cases hx0 : 0 ≤ x
    · by_cases hxd : x < d
      · rw [Int.tmod_eq_of_lt hx0 hxd] at h; exact ⟨hx0, hxd, h⟩
      · exfalso
        have : Int.tmod x d ≤ x - d := by
          have hdv : d ∣ x - Int.tmod x d := Int.dvd_self_sub_tmod
          have hlt := Int.tmod_lt_of_pos x hd
          have := Int.le_of_dvd (by omega) hdv
          omega
        omega
    · exfalso
      have : Int.tmod x d ≤ 0 := by
        have h := Int.tmod_nonneg d (a := -x) (by omega)
        rw [Int.neg_tmod] at h; omega
      omega
  · rintro ⟨h0, h1, h2⟩
    rw [Int.tmod_eq_of_lt h0 h1]; exact h2

theorem tmod_add_lt_iff (x d m : Int) (hd : d < 0) (hx : m ≤ x) (hdm : m ≤ d) :
    Int.tmod x d + d < m ↔ (d < x ∧ x ≤ 0 ∧ x + d < m) := by
  have h := tmod_add_gt_iff (-x) (-d) (-m) (by omega) (by omega) (by omega)
  rw [Int.tmod_neg, Int.neg_tmod] at h
  constructor
  · intro h'
    have := h.mp (by omega)
    omega
  · intro h'
    have := h.mpr (by omega)
    omega

theorem emod_add_gt_iff (x d M : Int) (hd : 0 < d) (hx0 : 0 ≤ x) (hx : x ≤ M) (hdM : d ≤ M) :
    M < x % d + d ↔ (x < d ∧ M < x + d) := by
  rw [← Int.tmod_eq_emod_of_nonneg hx0, tmod_add_gt_iff x d M hd hx hdM]
  constructor
  · rintro ⟨_, h1, h2⟩; exact ⟨h1, h2⟩
  · rintro ⟨h1, h2⟩; exact ⟨hx0, h1, h2⟩

/-! ### truncated remainder on ℝ (`RFun.fmod`) -/

theorem rfun_fmod (x y : ℝ) : RFun.fmod x y = x - y * (if 0 ≤ x / y then (⌊x / y⌋ : ℝ) else (⌈x / y⌉ : ℝ)) := by
  show x - y * (Int.fract (x / y) * 0 + _) = _
  simp

theorem fmod_nonneg_of_nonneg (x y : ℝ) (hy : 0 < y) (hx : 0 ≤ x) :
    0 ≤ RFun.fmod x y ∧ RFun.fmod x y < y := by
  rw [rfun_fmod]
  have hq : 0 ≤ x / y := div_nonneg hx hy.le
  rw [if_pos hq]
  have h1 := Int.floor_le (x / y)
  have h2 := Int.lt_floor_add_one (x / y)
  have e : x = y * (x / y) := (mul_div_cancel₀ x (ne_of_gt hy)).symm
  constructor
  · nlinarith
  · nlinarith

theorem fmod_bounds (x y : ℝ) (hy : 0 < y) :
    -y < RFun.fmod x y ∧ RFun.fmod x y < y := by
  rw [rfun_fmod]
  have e : x = y * (x / y) := (mul_div_cancel₀ x (ne_of_gt hy)).symm
  split_ifs with hq
  · have h1 := Int.floor_le (x / y)
    have h2 := Int.lt_floor_add_one (x / y)
    constructor <;> nlinarith
  · have h1 := Int.le_ceil (x / y)
    have h2 := Int.ceil_lt_add_one (x / y)
    constructor <;> nlinarith

theorem fmod_bounds_neg (x y : ℝ) (hy : y < 0) :
    y < RFun.fmod x y ∧ RFun.fmod x y < -y := by
  rw [rfun_fmod]
  have e : x = y * (x / y) := (mul_div_cancel₀ x (ne_of_lt hy)).symm
  split_ifs with hq
  · have h1 := Int.floor_le (x / y)
    have h2 := Int.lt_floor_add_one (x / y)
    constructor <;> nlinarith
  · have h1 := Int.le_ceil (x / y)
    have h2 := Int.ceil_lt_add_one (x / y)
    constructor <;> nlinarith

/-- `x - fmod x y` is an integer multiple of `y` -/
theorem fmod_sub_int (x y : ℝ) : ∃ k : ℤ, x - RFun.fmod x y = y * k := by
  rw [rfun_fmod]
  split_ifs
  · exact ⟨⌊x / y⌋, by ring⟩
  · exact ⟨⌈x / y⌉, by ring⟩

/-- quotient non-negative ⇒ `fmod` is the floored remainder, in `[0, y)` for `y > 0` -/
theorem fmod_floor_pos (x y : ℝ) (hy : 0 < y) (hx : 0 ≤ x) :
    0 ≤ RFun.fmod x y ∧ RFun.fmod x y < y := fmod_nonneg_of_nonneg x y hy hx

theorem fmod_floor_neg (x y : ℝ) (hy : y < 0) (hx : x ≤ 0) :
    y < RFun.fmod x y ∧ RFun.fmod x y ≤ 0 := by
  rw [rfun_fmod]
  have hq : 0 ≤ x / y := div_nonneg_of_nonpos hx hy.le
  rw [if_pos hq]
  have h1 := Int.floor_le (x / y)
  have h2 := Int.lt_floor_add_one (x / y)
  have e : x = y * (x / y) := (mul_div_cancel₀ x (ne_of_lt hy)).symm
  constructor <;> nlinarith

/-! ### `F.erf.erf_impl.rec` over ℝ: one unfolding step per branch -/

theorem erfrec_neg_false (n : Nat) (z : ℝ) (h : z < 0) :
    F.erf.erf_impl.rec (n+1) z false = - F.erf.erf_impl.rec n (-z) false := by
  rw [F.erf.erf_impl.rec]
  have h0 : z < (0.0 : ℝ) := by norm_num; exact h
  rw [if_pos h0]; simp

theorem erfrec_neg_true_far (n : Nat) (z : ℝ) (h : z < -(1/2)) :
    F.erf.erf_impl.rec (n+1) z true = 2 - F.erf.erf_impl.rec n (-z) true := by
  rw [F.erf.erf_impl.rec]
  have h0 : z < (0.0 : ℝ) := by norm_num; linarith
  have h1 : z < -(0.5 : ℝ) := by norm_num; linarith
  rw [if_pos h0]; simp only [not_true_eq_false, if_false, if_pos h1]; norm_num

theorem erfrec_neg_true_near (n : Nat) (z : ℝ) (h : z < 0) (h' : -(1/2) ≤ z) :
    F.erf.erf_impl.rec (n+1) z true = 1 + F.erf.erf_impl.rec n (-z) false := by
  rw [F.erf.erf_impl.rec]
  have h0 : z < (0.0 : ℝ) := by norm_num; linarith
  have h1 : ¬ z < -(0.5 : ℝ) := by norm_num; linarith
  rw [if_pos h0]; simp only [not_true_eq_false, if_false, if_neg h1]; norm_num

theorem erfrec_pos_compl (n : Nat) (z : ℝ) (h : 0 ≤ z) :
    F.erf.erf_impl.rec (n+1) z false + F.erf.erf_impl.rec (n+1) z true = 1 := by
  rw [F.erf.erf_impl.rec, F.erf.erf_impl.rec]
  have h0 : ¬ z < (0.0 : ℝ) := by norm_num; linarith
  rw [if_neg h0, if_neg h0]
  extract_lets r1
  by_cases h5 : (0.5:ℝ) ≤ z
  · simp only [h5]; norm_num
  · simp only [h5]; norm_num

theorem erfrec_pos_fuel (n m : Nat) (z : ℝ) (h : 0 ≤ z) (inv : Bool) :
    F.erf.erf_impl.rec (n+1) z inv = F.erf.erf_impl.rec (m+1) z inv := by
  rw [F.erf.erf_impl.rec, F.erf.erf_impl.rec]
  have h0 : ¬ z < (0.0 : ℝ) := by norm_num; linarith
  rw [if_neg h0, if_neg h0]

theorem erfrec_zero (n : Nat) (inv : Bool) :
    F.erf.erf_impl.rec (n+1) (0:ℝ) inv = if inv then 1 else 0 := by
  rw [F.erf.erf_impl.rec]
  cases inv <;> norm_num

/-! ### list sums -/

theorem foldl_add_eq_sum {β : Type} (f : β → ℝ) (l : List β) (a : ℝ) :
    List.foldl (fun acc x => acc + f x) a l = a + (l.map f).sum := by
  induction l generalizing a with
  | nil => simp
  | cons x xs ih => simp only [List.foldl_cons, List.map_cons, List.sum_cons]; rw [ih]; ring

theorem sum_map_range_eq_Icc (g : ℕ → ℝ) (N : ℕ) :
    ((List.range N).map (fun i => g (i + 1))).sum = ∑ k ∈ Finset.Icc 1 N, g k := by
  induction N with
  | zero => simp
  | succ N ih =>
    rw [List.range_succ, List.map_append, List.sum_append, ih, Finset.sum_Icc_succ_top (by omega)]
    simp


/-! ### the factorial table `FCACHE` over ℝ -/

/-- loop invariant of the `FCACHE` initialiser: the first `i` slots hold `0! … (i-1)!` -/
def FcInv (fc : List ℝ) (i : Nat) : Prop :=
  fc.length = 171 ∧ ∀ j : Nat, j < i → fc[j]? = some (j.factorial : ℝ)

theorem fcache_loop (k : Nat) : ∀ (i : Nat) (fc : List ℝ) (fuel : Nat), 1 ≤ i → i + k = 171 → k < fuel →
    FcInv fc i → ∃ fc', F.factorial.FCACHE.loop1 (α := ℝ) fuel fc (i : Int) = LoopR.done (fc', 171) ∧ FcInv fc' 171 := by
  induction k with
  | zero =>
    intro i fc fuel hi hik hf hinv
    obtain ⟨f', rfl⟩ : ∃ f', fuel = f' + 1 := ⟨fuel - 1, by omega⟩
    have : i = 171 := by omega
    subst this
    refine ⟨fc, ?_, hinv⟩
    unfold F.factorial.FCACHE.loop1
    simp [F.factorial.MAX_FACTORIAL]
  | succ k ih =>
    intro i fc fuel hi hik hf hinv
    obtain ⟨f', rfl⟩ : ∃ f', fuel = f' + 1 := ⟨fuel - 1, by omega⟩
    unfold F.factorial.FCACHE.loop1
    have hlt : (i : Int) < F.factorial.MAX_FACTORIAL (α := ℝ) + 1 := by
      simp only [F.factorial.MAX_FACTORIAL]; omega
    rw [if_pos hlt]
    simp only
    have hcast : (i : Int) + 1 = ((i + 1 : Nat) : Int) := by push_cast; ring
    rw [hcast]
    apply ih (i + 1) _ f' (by omega) (by omega) (by omega)
    obtain ⟨hlen, hval⟩ := hinv
    have hnn : ¬ ((i : Int) < 0) := by omega
    have hnn1 : ¬ ((i : Int) - 1 < 0) := by omega
    refine ⟨by simp [listSet, hnn, hlen], ?_⟩
    intro j hj
    simp only [listSet, if_neg hnn, Int.toNat_natCast]
    by_cases hji : j = i
    · subst hji
      obtain ⟨p, rfl⟩ : ∃ p, j = p + 1 := ⟨j - 1, by omega⟩
      rw [List.getElem?_set_self (by omega)]
      simp only [listGet, if_neg hnn1]
      have h1 : (((p + 1 : Nat) : Int) - 1).toNat = p := by omega
      have h2 := hval p (by omega)
      rw [h1, List.getD_eq_getElem?_getD, h2]
      simp only [Option.getD_some, rfun_ofInt, Nat.factorial_succ]
      push_cast
      rw [mul_comm]
    · rw [List.getElem?_set_ne (by omega)]
      exact hval j (by omega)

theorem fcache_spec : FcInv (F.factorial.FCACHE (α := ℝ)) 171 := by
  unfold F.factorial.FCACHE
  have hN : Int.toNat (F.factorial.MAX_FACTORIAL (α := ℝ) + 1) = 171 := rfl
  have h0 : FcInv (List.replicate (Int.toNat (F.factorial.MAX_FACTORIAL (α := ℝ) + 1)) (1.0 : ℝ)) 1 := by
    rw [hN]
    refine ⟨List.length_replicate, ?_⟩
    intro j hj
    have : j = 0 := by omega
    subst this
    rw [List.getElem?_replicate, if_pos (by omega)]
    norm_num
  obtain ⟨fc', h1, h2⟩ := fcache_loop 170 1 _ loopFuel (by omega) (by omega) (by unfold loopFuel; omega) h0
  simp only [Nat.cast_one] at h1
  show FcInv (match F.factorial.FCACHE.loop1 (α := ℝ) loopFuel _ 1 with
    | LoopR.ret v_ => v_ | LoopR.hang => panicV | LoopR.done (fcache, i) => fcache) 171
  rw [h1]
  exact h2

theorem fcache_get (n : Nat) (h : n ≤ 170) :
    listGet? (F.factorial.FCACHE (α := ℝ)) (n : Int) = some (n.factorial : ℝ) := by
  have hnn : ¬ ((n : Int) < 0) := by omega
  simp only [listGet?, if_neg hnn, Int.toNat_natCast]
  exact fcache_spec.2 n (by omega)

theorem fcache_get_none (x : Int) (h : 170 < x) :
    listGet? (F.factorial.FCACHE (α := ℝ)) x = none := by
  have hnn : ¬ (x < 0) := by omega
  simp only [listGet?, if_neg hnn]
  rw [List.getElem?_eq_none_iff, fcache_spec.1]; omega

end Statrs.Lemmas.FunctionLayer
