/-
  Helper lemmas for C12 (termination of the continued-fraction loop of `checked_gamma_lr` / `checked_gamma_ur`,
  src/function/gamma.rs:323–364, 211–250), exact real arithmetic, on top of `Lemmas/GammaSeriesCF.lean`
  (`cfA`, `cfB`: the loop's unscaled three-term recurrence; `cfTest`: the loop's stopping test).

  For `0 ≤ x`, `a ≤ x` every solution `W` of the recurrence with `0 ≤ W₀ ≤ W₁` satisfies
  `0 ≤ W_k`, `(k+1)·W_k ≤ W_{k+1}` (`CfRec.growth`).  Applied to `B`, `A − λB`, `μB − A` (`0 < x`):
    * `B_k ≥ k!·x > 0`: the zero-divisor skip of the loop is never taken;
    * the convergents `r_k = A_k/B_k` stay in `[cfLo, cfHi]`,
      `cfLo = min(1/x, 1/(x−a+1))`, `cfHi = max(1/x, 1/(x−a+1))`  (both `= 1/x` at `a = 1`);
    * `r_{k+1} − r_k = D_k/(B_k B_{k+1})`, `D_{k+1} = (k+2−a)(k+1)·D_k`: from `k ≥ ⌈a⌉` on the sign of `D_k`
      is constant, so `(r_k)` is monotone there; a bounded monotone sequence has a step `≤ δ` among any
      `⌈(hi−lo)/δ⌉ + 1` consecutive ones (`exists_small_step`).
  Hence `exists_cfTest`: for `0 < x`, `a ≤ x`, `eps > 0` the stopping test of the loop fires at some iteration
  `j ≤ ⌈a⌉ + ⌈(cfHi − cfLo)/(eps·cfLo)⌉` (a crude bound: the true count is `O(√·)`; it shows existence).
-/
import Statrs.Lemmas.GammaSeriesCF
namespace Statrs.Lemmas.GammaCF

/-- `W` satisfies the three-term recurrence of the continued-fraction loop -/
def CfRec (a x : ℝ) (W : ℕ → ℝ) : Prop :=
  ∀ k, W (k + 2) = W (k + 1) * cfZ a x (k + 1) - W k * (cfY a (k + 1) * ((k + 1 : ℕ) : ℝ))

theorem cfRec_A (a x : ℝ) : CfRec a x (cfA a x) := fun _ => rfl
theorem cfRec_B (a x : ℝ) : CfRec a x (cfB a x) := fun _ => rfl

theorem CfRec.lin {a x : ℝ} {U V : ℕ → ℝ} (hU : CfRec a x U) (hV : CfRec a x V) (p q : ℝ) :
    CfRec a x (fun k => p * U k + q * V k) := by
  intro k; simp only [hU k, hV k]; ring

/-- growth/positivity invariant of the recurrence for `0 ≤ x`, `a ≤ x` -/
theorem CfRec.growth {a x : ℝ} {W : ℕ → ℝ} (hW : CfRec a x W) (hx0 : 0 ≤ x) (hxa : a ≤ x)
    (h0 : 0 ≤ W 0) (h1 : W 0 ≤ W 1) : ∀ k : ℕ, 0 ≤ W k ∧ ((k : ℝ) + 1) * W k ≤ W (k + 1) := by
  intro k
  induction k with
  | zero => exact ⟨h0, by simpa using h1⟩
  | succ k ih =>
    obtain ⟨hk0, hk1⟩ := ih
    have hn : (0 : ℝ) ≤ (k : ℝ) := Nat.cast_nonneg k
    have hv : 0 ≤ W (k + 1) := le_trans (by positivity) hk1
    refine ⟨hv, ?_⟩
    rw [hW k]
    unfold cfZ cfY
    push_cast
    set u := W k
    set v := W (k + 1)
    set n := (k : ℝ)
    have huv : u * (n + 1) ≤ v := by nlinarith
    by_cases hc : 0 ≤ n + 2 - a
    · have h2 : u * (n + 1) * (n + 2 - a) ≤ v * (n + 2 - a) := mul_le_mul_of_nonneg_right huv hc
      nlinarith
    · have hc' : n + 2 - a < 0 := not_le.mp hc
      have h2 : 0 ≤ u * (n + 1) * (-(n + 2 - a)) := by
        apply mul_nonneg (mul_nonneg hk0 (by linarith)) (by linarith)
      nlinarith

/-- `B_k > 0` and `(k+1)·B_k ≤ B_{k+1}` for `0 < x`, `a ≤ x` -/
theorem cfB_pos {a x : ℝ} (hx0 : 0 < x) (hxa : a ≤ x) (k : ℕ) :
    0 < cfB a x k ∧ ((k : ℝ) + 1) * cfB a x k ≤ cfB a x (k + 1) := by
  have hg := (cfRec_B a x).growth hx0.le hxa (by simp only [cfB]; exact hx0.le)
    (by simp only [cfB]; nlinarith)
  refine ⟨?_, (hg k).2⟩
  induction k with
  | zero => simp only [cfB]; exact hx0
  | succ k ih => exact lt_of_lt_of_le (by positivity) (hg k).2

theorem cfB_ne_zero {a x : ℝ} (hx0 : 0 < x) (hxa : a ≤ x) (k : ℕ) : cfB a x k ≠ 0 :=
  (cfB_pos hx0 hxa k).1.ne'

/-- with all denominators non-zero, `ans` after `k` iterations is the last quotient -/
theorem cfAns_eq {a x : ℝ} (hB : ∀ k, cfB a x k ≠ 0) (k : ℕ) :
    cfAns a x k = cfA a x (k + 1) / cfB a x (k + 1) := by
  cases k with
  | zero => rfl
  | succ k => rw [cfAns, if_neg (hB (k + 2))]

/-- lower end of the interval that contains all convergents -/
noncomputable def cfLo (a x : ℝ) : ℝ := min (1 / x) (1 / (x - a + 1))
/-- upper end of the interval that contains all convergents -/
noncomputable def cfHi (a x : ℝ) : ℝ := max (1 / x) (1 / (x - a + 1))

theorem cfLo_pos {a x : ℝ} (hx0 : 0 < x) (hxa : a ≤ x) : 0 < cfLo a x := by
  unfold cfLo
  exact lt_min (by positivity) (div_pos one_pos (by linarith))

theorem cfLo_le_cfHi (a x : ℝ) : cfLo a x ≤ cfHi a x :=
  le_trans (min_le_left _ _) (le_max_left _ _)

/-- every convergent lies in `[cfLo, cfHi]` -/
theorem conv_bounds {a x : ℝ} (hx0 : 0 < x) (hxa : a ≤ x) (k : ℕ) :
    cfLo a x ≤ cfA a x k / cfB a x k ∧ cfA a x k / cfB a x k ≤ cfHi a x := by
  have hxa0 : 0 < x - a + 1 := by linarith
  have hBk := (cfB_pos hx0 hxa k).1
  have hl1 : cfLo a x * x ≤ 1 := by
    have : cfLo a x ≤ 1 / x := min_le_left _ _
    calc cfLo a x * x ≤ 1 / x * x := mul_le_mul_of_nonneg_right this hx0.le
      _ = 1 := by field_simp
  have hl2 : cfLo a x * (x - a + 1) ≤ 1 := by
    have : cfLo a x ≤ 1 / (x - a + 1) := min_le_right _ _
    calc cfLo a x * (x - a + 1) ≤ 1 / (x - a + 1) * (x - a + 1) :=
          mul_le_mul_of_nonneg_right this hxa0.le
      _ = 1 := by field_simp
  have hh1 : 1 ≤ cfHi a x * x := by
    have : 1 / x ≤ cfHi a x := le_max_left _ _
    calc 1 = 1 / x * x := by field_simp
      _ ≤ cfHi a x * x := mul_le_mul_of_nonneg_right this hx0.le
  have hh2 : 1 ≤ cfHi a x * (x - a + 1) := by
    have : 1 / (x - a + 1) ≤ cfHi a x := le_max_right _ _
    calc 1 = 1 / (x - a + 1) * (x - a + 1) := by field_simp
      _ ≤ cfHi a x * (x - a + 1) := mul_le_mul_of_nonneg_right this hxa0.le
  constructor
  · have hg := ((cfRec_A a x).lin (cfRec_B a x) 1 (-cfLo a x)).growth hx0.le hxa
      (by simp only [cfA, cfB]; linarith) (by simp only [cfA, cfB]; nlinarith)
    have := (hg k).1
    rw [le_div_iff₀ hBk]; linarith
  · have hg := ((cfRec_A a x).lin (cfRec_B a x) (-1) (cfHi a x)).growth hx0.le hxa
      (by simp only [cfA, cfB]; linarith) (by simp only [cfA, cfB]; nlinarith)
    have := (hg k).1
    rw [div_le_iff₀ hBk]; linarith

/-- the determinant `A_{k+1}B_k − A_kB_{k+1}` -/
noncomputable def cfD (a x : ℝ) (k : ℕ) : ℝ := cfA a x (k + 1) * cfB a x k - cfA a x k * cfB a x (k + 1)

theorem cfD_succ (a x : ℝ) (k : ℕ) :
    cfD a x (k + 1) = (cfY a (k + 1) * ((k + 1 : ℕ) : ℝ)) * cfD a x k := by
  unfold cfD; rw [cfA_succ_succ, cfB_succ_succ]; ring

theorem conv_diff {a x : ℝ} (hB : ∀ k, cfB a x k ≠ 0) (k : ℕ) :
    cfA a x (k + 1) / cfB a x (k + 1) - cfA a x k / cfB a x k = cfD a x k / (cfB a x k * cfB a x (k + 1)) := by
  have h1 := hB k; have h2 := hB (k + 1)
  unfold cfD; field_simp

/-- from `K0` with `a ≤ K0 + 2` on, the determinant keeps its sign -/
theorem cfD_sign {a x : ℝ} (K0 : ℕ) (hK : a ≤ (K0 : ℝ) + 2) :
    (0 ≤ cfD a x K0 → ∀ k, K0 ≤ k → 0 ≤ cfD a x k) ∧ (cfD a x K0 ≤ 0 → ∀ k, K0 ≤ k → cfD a x k ≤ 0) := by
  have hc : ∀ k, K0 ≤ k → 0 ≤ cfY a (k + 1) * ((k + 1 : ℕ) : ℝ) := by
    intro k hk
    have : (K0 : ℝ) ≤ (k : ℝ) := by exact_mod_cast hk
    unfold cfY; push_cast
    apply mul_nonneg <;> linarith [Nat.cast_nonneg (α := ℝ) k]
  constructor
  · intro h0 k hk
    induction k, hk using Nat.le_induction with
    | base => exact h0
    | succ k hk ih => rw [cfD_succ]; exact mul_nonneg (hc k hk) ih
  · intro h0 k hk
    induction k, hk using Nat.le_induction with
    | base => exact h0
    | succ k hk ih => rw [cfD_succ]; exact mul_nonpos_of_nonneg_of_nonpos (hc k hk) ih

/-- a bounded sequence that is monotone from `K0` on has a step of size `≤ δ` among the
    `⌈(hi − lo)/δ⌉ + 1` steps starting at `K0` -/
theorem exists_small_step (r : ℕ → ℝ) (K0 : ℕ) (lo hi δ : ℝ) (hδ : 0 < δ)
    (hb : ∀ k, lo ≤ r k ∧ r k ≤ hi)
    (hm : (∀ k, K0 ≤ k → r k ≤ r (k + 1)) ∨ (∀ k, K0 ≤ k → r (k + 1) ≤ r k)) :
    ∃ k, K0 ≤ k ∧ k ≤ K0 + ⌈(hi - lo) / δ⌉₊ ∧ |r (k + 1) - r k| ≤ δ := by
  by_contra hcon
  push Not at hcon
  set N := ⌈(hi - lo) / δ⌉₊ with hN
  have hNle : (hi - lo) / δ ≤ (N : ℝ) := Nat.le_ceil _
  have hNδ : hi - lo ≤ (N : ℝ) * δ := by rwa [div_le_iff₀ hδ] at hNle
  rcases hm with hm | hm
  · have key : ∀ n : ℕ, n ≤ N + 1 → r K0 + (n : ℝ) * δ ≤ r (K0 + n) := by
      intro n
      induction n with
      | zero => intro _; simp
      | succ n ih =>
        intro hn
        have h1 := ih (by omega)
        have h2 := hcon (K0 + n) (by omega) (by omega)
        have h3 := hm (K0 + n) (by omega)
        rw [abs_of_nonneg (by linarith)] at h2
        have : K0 + (n + 1) = K0 + n + 1 := by ring
        rw [this]; push_cast; linarith
    have h := key (N + 1) le_rfl
    push_cast at h
    linarith [(hb K0).1, (hb (K0 + (N + 1))).2]
  · have key : ∀ n : ℕ, n ≤ N + 1 → r (K0 + n) ≤ r K0 - (n : ℝ) * δ := by
      intro n
      induction n with
      | zero => intro _; simp
      | succ n ih =>
        intro hn
        have h1 := ih (by omega)
        have h2 := hcon (K0 + n) (by omega) (by omega)
        have h3 := hm (K0 + n) (by omega)
        rw [abs_of_nonpos (by linarith)] at h2
        have : K0 + (n + 1) = K0 + n + 1 := by ring
        rw [this]; push_cast; linarith
    have h := key (N + 1) le_rfl
    push_cast at h
    linarith [(hb K0).2, (hb (K0 + (N + 1))).1]

/-- EXISTENCE of a stopping iteration of the continued-fraction loop (exact arithmetic): for `0 < x`, `a ≤ x` and
    every tolerance `eps > 0` the test `cfTest` holds at some iteration
    `j ≤ ⌈a⌉ + ⌈(cfHi − cfLo)/(eps·cfLo)⌉`. -/
theorem exists_cfTest {a x eps : ℝ} (hx0 : 0 < x) (hxa : a ≤ x) (heps : 0 < eps) :
    ∃ j, j ≤ ⌈a⌉₊ + ⌈(cfHi a x - cfLo a x) / (eps * cfLo a x)⌉₊ ∧ cfTest a x eps j := by
  have hB : ∀ k, cfB a x k ≠ 0 := cfB_ne_zero hx0 hxa
  have hBp : ∀ k, 0 < cfB a x k := fun k => (cfB_pos hx0 hxa k).1
  have hlo := cfLo_pos hx0 hxa
  set r : ℕ → ℝ := fun k => cfA a x k / cfB a x k with hr
  set K0 := ⌈a⌉₊ + 1 with hK0
  have hK : a ≤ (K0 : ℝ) + 2 := by
    have := Nat.le_ceil a
    rw [hK0]; push_cast; linarith
  have hstep : ∀ k, r (k + 1) - r k = cfD a x k / (cfB a x k * cfB a x (k + 1)) := conv_diff hB
  have hm : (∀ k, K0 ≤ k → r k ≤ r (k + 1)) ∨ (∀ k, K0 ≤ k → r (k + 1) ≤ r k) := by
    rcases le_total 0 (cfD a x K0) with h0 | h0
    · left; intro k hk
      have := (cfD_sign (x := x) K0 hK).1 h0 k hk
      have h2 := hstep k
      have : 0 ≤ cfD a x k / (cfB a x k * cfB a x (k + 1)) :=
        div_nonneg this (mul_pos (hBp k) (hBp (k + 1))).le
      linarith
    · right; intro k hk
      have := (cfD_sign (x := x) K0 hK).2 h0 k hk
      have h2 := hstep k
      have : cfD a x k / (cfB a x k * cfB a x (k + 1)) ≤ 0 :=
        div_nonpos_of_nonpos_of_nonneg this (mul_pos (hBp k) (hBp (k + 1))).le
      linarith
  obtain ⟨k, hk1, hk2, hk3⟩ := exists_small_step r K0 (cfLo a x) (cfHi a x) (eps * cfLo a x)
    (mul_pos heps hlo) (fun k => conv_bounds hx0 hxa k) hm
  obtain ⟨j, rfl⟩ : ∃ j, k = j + 1 := ⟨k - 1, by omega⟩
  refine ⟨j, by omega, hB (j + 2), ?_⟩
  rw [cfAns_eq hB j]
  have hr2 : cfLo a x ≤ r (j + 2) := (conv_bounds hx0 hxa (j + 2)).1
  have hr2pos : 0 < r (j + 2) := lt_of_lt_of_le hlo hr2
  show |(r (j + 1) - r (j + 2)) / r (j + 2)| ≤ eps
  rw [abs_div, abs_of_pos hr2pos, div_le_iff₀ hr2pos, abs_sub_comm]
  calc |r (j + 1 + 1) - r (j + 1)| ≤ eps * cfLo a x := hk3
    _ ≤ eps * r (j + 2) := mul_le_mul_of_nonneg_left hr2 heps.le


/-! ### a usable iteration bound: geometric decay of the steps while `k + 2 ≤ M²` -/

/-- accelerated growth of the denominators: `(k+1)(1 + 1/M)·B_k ≤ B_{k+1}` as long as `k + 1 ≤ M²`
    (`1 ≤ x`, `a ≤ x`; the true growth factor is `k + 1 + √(x(k+1))`, and `√(k+1) ≥ (k+1)/M` there) -/
theorem cfB_growth_fast {a x : ℝ} (hx1 : 1 ≤ x) (hxa : a ≤ x) (M : ℕ) (hM : 1 ≤ M) :
    ∀ k : ℕ, k + 1 ≤ M ^ 2 → ((k : ℝ) + 1) * (1 + 1 / (M : ℝ)) * cfB a x k ≤ cfB a x (k + 1) := by
  have hx0 : 0 < x := lt_of_lt_of_le one_pos hx1
  have hMr : (1 : ℝ) ≤ (M : ℝ) := by exact_mod_cast hM
  have hMpos : (0 : ℝ) < (M : ℝ) := by linarith
  set θ : ℝ := 1 / (M : ℝ) with hθ
  have hθ0 : 0 < θ := by positivity
  have hθ1 : θ ≤ 1 := by rw [hθ, div_le_one hMpos]; exact hMr
  have hMθ : (M : ℝ) * θ = 1 := by rw [hθ]; field_simp
  intro k
  induction k with
  | zero =>
    intro _
    simp only [cfB]
    push_cast
    nlinarith
  | succ k ih =>
    intro hk
    have ih' := ih (by omega)
    have hu := (cfB_pos hx0 hxa k).1
    have hv := (cfB_pos hx0 hxa (k + 1)).1
    rw [cfB_succ_succ]
    unfold cfZ cfY
    push_cast
    set u := cfB a x k
    set v := cfB a x (k + 1)
    set n : ℝ := (k : ℝ) + 1 with hn
    have hn1 : 1 ≤ n := by rw [hn]; linarith [Nat.cast_nonneg (α := ℝ) k]
    have hkM : n + 1 ≤ (M : ℝ) ^ 2 := by
      have : ((k + 1 + 1 : ℕ) : ℝ) ≤ ((M ^ 2 : ℕ) : ℝ) := by exact_mod_cast hk
      push_cast at this; rw [hn]; linarith
    have hnθ : (n + 1) * θ ^ 2 ≤ 1 := by
      have h1 : (n + 1) * θ ^ 2 ≤ (M : ℝ) ^ 2 * θ ^ 2 := mul_le_mul_of_nonneg_right hkM (by positivity)
      have h2 : (M : ℝ) ^ 2 * θ ^ 2 = 1 := by rw [← mul_pow, hMθ]; norm_num
      linarith
    have e1 : (k : ℝ) + 1 + 1 = n + 1 := by rw [hn]
    have e2 : (1 : ℝ) - a + ((k : ℝ) + 1) = n + 1 - a := by rw [hn]; ring
    have e3 : x - a + 2 + 2 * ((k : ℝ) + 1) = x - a + 2 + 2 * n := by rw [hn]
    rw [e1, e2, e3]
    have ih'' : n * (1 + θ) * u ≤ v := ih'
    by_cases hc : 0 ≤ n + 1 - a
    · have h1 : u * n * (1 + θ) * (n + 1 - a) ≤ v * (n + 1 - a) := by
        apply mul_le_mul_of_nonneg_right _ hc; linarith
      have h2 : 0 ≤ v * (x * (1 + θ) - a * θ - (n + 1) * θ ^ 2) := by
        apply mul_nonneg hv.le
        have : a * θ ≤ x * θ := mul_le_mul_of_nonneg_right hxa hθ0.le
        nlinarith
      have h3 : (1 + θ) * ((n + 1) * (1 + θ) * v) ≤ (1 + θ) * (v * (x - a + 2 + 2 * n) - u * ((n + 1 - a) * n)) := by
        nlinarith
      exact le_of_mul_le_mul_left h3 (by linarith)
    · have hc' : n + 1 - a < 0 := not_le.mp hc
      have h1 : 0 ≤ u * (-(n + 1 - a) * n) := by
        apply mul_nonneg hu.le; apply mul_nonneg <;> linarith
      have h2 : 0 ≤ v * (x - a + (n + 1) * (1 - θ)) := by
        apply mul_nonneg hv.le
        have : 0 ≤ (n + 1) * (1 - θ) := mul_nonneg (by linarith) (by linarith)
        linarith
      nlinarith

/-- size of the step between consecutive convergents -/
noncomputable def cfStep (a x : ℝ) (k : ℕ) : ℝ := |cfD a x k| / (cfB a x k * cfB a x (k + 1))

theorem cfStep_eq_abs {a x : ℝ} (hx0 : 0 < x) (hxa : a ≤ x) (k : ℕ) :
    |cfA a x (k + 1) / cfB a x (k + 1) - cfA a x k / cfB a x k| = cfStep a x k := by
  rw [conv_diff (cfB_ne_zero hx0 hxa), abs_div,
    abs_of_pos (mul_pos (cfB_pos hx0 hxa k).1 (cfB_pos hx0 hxa (k + 1)).1)]
  rfl

/-- one step of geometric decay: for `a ≤ k + 2`, `k + 2 ≤ M²` the step shrinks by `(1 + 1/M)²` -/
theorem cfStep_succ_le {a x : ℝ} (ha : 0 ≤ a) (hx1 : 1 ≤ x) (hxa : a ≤ x) (M : ℕ) (hM : 1 ≤ M) (k : ℕ)
    (hka : a ≤ (k : ℝ) + 2) (hk : k + 2 ≤ M ^ 2) :
    cfStep a x (k + 1) * (1 + 1 / (M : ℝ)) ^ 2 ≤ cfStep a x k := by
  have hx0 : 0 < x := lt_of_lt_of_le one_pos hx1
  have hB0 := (cfB_pos hx0 hxa k).1
  have hB1 := (cfB_pos hx0 hxa (k + 1)).1
  have hB2 := (cfB_pos hx0 hxa (k + 2)).1
  have g1 := cfB_growth_fast hx1 hxa M hM k (by omega)
  have g2 := cfB_growth_fast hx1 hxa M hM (k + 1) (by omega)
  have hMr : (1 : ℝ) ≤ (M : ℝ) := by exact_mod_cast hM
  set q : ℝ := 1 + 1 / (M : ℝ) with hq
  have hq0 : 0 < q := by rw [hq]; positivity
  have hn : (0 : ℝ) ≤ (k : ℝ) := Nat.cast_nonneg k
  unfold cfStep
  rw [cfD_succ, abs_mul]
  set c := cfY a (k + 1) * ((k + 1 : ℕ) : ℝ) with hc
  have hc0 : 0 ≤ c := by
    rw [hc]; unfold cfY; push_cast; apply mul_nonneg <;> linarith
  have hcle : c ≤ ((k : ℝ) + 2) * ((k : ℝ) + 1) := by
    rw [hc]; unfold cfY; push_cast
    apply mul_le_mul_of_nonneg_right _ (by linarith); linarith
  rw [abs_of_nonneg hc0]
  push_cast at g2
  have hgrow : c * q ^ 2 * cfB a x k ≤ cfB a x (k + 2) := by
    have h1 : ((k : ℝ) + 1 + 1) * q * (((k : ℝ) + 1) * q * cfB a x k) ≤ cfB a x (k + 2) :=
      le_trans (mul_le_mul_of_nonneg_left g1 (by positivity)) g2
    have h2 : c * q ^ 2 * cfB a x k ≤ ((k : ℝ) + 1 + 1) * q * (((k : ℝ) + 1) * q * cfB a x k) := by
      have : c * (q ^ 2 * cfB a x k) ≤ (((k : ℝ) + 2) * ((k : ℝ) + 1)) * (q ^ 2 * cfB a x k) :=
        mul_le_mul_of_nonneg_right hcle (by positivity)
      nlinarith
    linarith
  rw [div_mul_eq_mul_div, div_le_div_iff₀ (mul_pos hB1 hB2) (mul_pos hB0 hB1)]
  have hD : 0 ≤ |cfD a x k| := abs_nonneg _
  have : c * q ^ 2 * (cfB a x k * cfB a x (k + 1)) ≤ cfB a x (k + 1) * cfB a x (k + 1 + 1) := by
    have := mul_le_mul_of_nonneg_right hgrow hB1.le
    nlinarith
  nlinarith [mul_le_mul_of_nonneg_left this hD]

/-- iterated decay from `K0 ≥ a − 2` -/
theorem cfStep_decay {a x : ℝ} (ha : 0 ≤ a) (hx1 : 1 ≤ x) (hxa : a ≤ x) (M : ℕ) (hM : 1 ≤ M) (K0 : ℕ)
    (hK : a ≤ (K0 : ℝ) + 2) :
    ∀ j : ℕ, K0 + j + 1 ≤ M ^ 2 → cfStep a x (K0 + j) * ((1 + 1 / (M : ℝ)) ^ 2) ^ j ≤ cfStep a x K0 := by
  intro j
  induction j with
  | zero => intro _; simp
  | succ j ih =>
    intro hj
    have h1 := ih (by omega)
    have h2 := cfStep_succ_le ha hx1 hxa M hM (K0 + j)
      (by push_cast; linarith [Nat.cast_nonneg (α := ℝ) j]) (by omega)
    have hq : 0 ≤ ((1 + 1 / (M : ℝ)) ^ 2) ^ j := by positivity
    calc cfStep a x (K0 + (j + 1)) * ((1 + 1 / (M : ℝ)) ^ 2) ^ (j + 1)
        = (cfStep a x (K0 + j + 1) * (1 + 1 / (M : ℝ)) ^ 2) * ((1 + 1 / (M : ℝ)) ^ 2) ^ j := by
          rw [pow_succ]; ring_nf
      _ ≤ cfStep a x (K0 + j) * ((1 + 1 / (M : ℝ)) ^ 2) ^ j := mul_le_mul_of_nonneg_right h2 hq
      _ ≤ cfStep a x K0 := h1

/-- `(1 + 1/M)^(2·M·t) ≥ 4^t` -/
theorem four_pow_le (M t : ℕ) (hM : 1 ≤ M) : (4 : ℝ) ^ t ≤ ((1 + 1 / (M : ℝ)) ^ 2) ^ (M * t) := by
  have hMpos : (0 : ℝ) < (M : ℝ) := by exact_mod_cast hM
  have h2 : (2 : ℝ) ≤ (1 + 1 / (M : ℝ)) ^ M := by
    have := one_add_mul_le_pow (show (-2 : ℝ) ≤ 1 / (M : ℝ) by
      have : (0 : ℝ) ≤ 1 / (M : ℝ) := by positivity
      linarith) M
    have e : (1 : ℝ) + (M : ℝ) * (1 / (M : ℝ)) = 2 := by field_simp; norm_num
    linarith
  calc (4 : ℝ) ^ t = ((2 : ℝ) ^ 2) ^ t := by norm_num
    _ ≤ (((1 + 1 / (M : ℝ)) ^ M) ^ 2) ^ t :=
        pow_le_pow_left₀ (by positivity) (pow_le_pow_left₀ (by norm_num) h2 2) t
    _ = ((1 + 1 / (M : ℝ)) ^ 2) ^ (M * t) := by rw [← pow_mul, ← pow_mul, ← pow_mul]; ring_nf

/-- a USABLE bound on the stopping iteration (exact arithmetic): if `⌈a⌉ + M·t + 1 ≤ M²` and
    `cfHi − cfLo ≤ 4^t·eps·cfLo`, the test `cfTest` holds at iteration `⌈a⌉ + M·t − 1`
    (after `⌈a⌉` iterations the steps between convergents shrink by `(1+1/M)²` per iteration). -/
theorem cfTest_at {a x eps : ℝ} (M t : ℕ) (hM : 1 ≤ M) (ht : 1 ≤ t) (ha : 0 ≤ a) (hx1 : 1 ≤ x) (hxa : a ≤ x)
    (heps : 0 < eps) (hfit : ⌈a⌉₊ + M * t + 1 ≤ M ^ 2)
    (hbig : cfHi a x - cfLo a x ≤ 4 ^ t * (eps * cfLo a x)) :
    cfTest a x eps (⌈a⌉₊ + M * t - 1) := by
  have hx0 : 0 < x := lt_of_lt_of_le one_pos hx1
  have hB : ∀ k, cfB a x k ≠ 0 := cfB_ne_zero hx0 hxa
  have hlo := cfLo_pos hx0 hxa
  set K0 := ⌈a⌉₊ with hK0
  have hK : a ≤ (K0 : ℝ) + 2 := by have := Nat.le_ceil a; linarith
  have hMt : 1 ≤ M * t := Nat.mul_pos hM ht
  obtain ⟨j, hj⟩ : ∃ j, K0 + M * t - 1 = j ∧ j + 1 = K0 + M * t := ⟨K0 + M * t - 1, rfl, by omega⟩
  rw [hj.1]
  refine ⟨hB (j + 2), ?_⟩
  rw [cfAns_eq hB j]
  have hr2 : cfLo a x ≤ cfA a x (j + 2) / cfB a x (j + 2) := (conv_bounds hx0 hxa (j + 2)).1
  have hr2pos : 0 < cfA a x (j + 2) / cfB a x (j + 2) := lt_of_lt_of_le hlo hr2
  rw [abs_div, abs_of_pos hr2pos, div_le_iff₀ hr2pos, abs_sub_comm]
  have hstep : |cfA a x (j + 2) / cfB a x (j + 2) - cfA a x (j + 1) / cfB a x (j + 1)| = cfStep a x (K0 + M * t) := by
    rw [cfStep_eq_abs hx0 hxa (j + 1), hj.2]
  rw [hstep]
  have hdec := cfStep_decay ha hx1 hxa M hM K0 hK (M * t) (by omega)
  have h0 : cfStep a x K0 ≤ cfHi a x - cfLo a x := by
    rw [← cfStep_eq_abs hx0 hxa K0, abs_le]
    have b1 := conv_bounds hx0 hxa K0
    have b2 := conv_bounds hx0 hxa (K0 + 1)
    constructor <;> linarith [b1.1, b1.2, b2.1, b2.2]
  have h4 := four_pow_le M t hM
  have hs0 : 0 ≤ cfStep a x (K0 + M * t) :=
    div_nonneg (abs_nonneg _) (mul_pos (cfB_pos hx0 hxa _).1 (cfB_pos hx0 hxa _).1).le
  have h4pos : (0 : ℝ) < 4 ^ t := by positivity
  have : cfStep a x (K0 + M * t) * 4 ^ t ≤ 4 ^ t * (eps * cfLo a x) :=
    le_trans (le_trans (mul_le_mul_of_nonneg_left h4 hs0) hdec) (le_trans h0 hbig)
  have h5 : cfStep a x (K0 + M * t) ≤ eps * cfLo a x := by
    rw [mul_comm] at this; exact le_of_mul_le_mul_left this h4pos
  exact le_trans h5 (mul_le_mul_of_nonneg_left hr2 heps.le)

/-- `(cfHi − cfLo)/cfLo = |1 − a| / min(x, x − a + 1) ≤ |1 − a|` for `1 ≤ x`, `a ≤ x` -/
theorem cfHi_sub_cfLo_le {a x : ℝ} (hx1 : 1 ≤ x) (hxa : a ≤ x) :
    cfHi a x - cfLo a x ≤ |1 - a| * cfLo a x := by
  have hx0 : 0 < x := lt_of_lt_of_le one_pos hx1
  have hy : 0 < x - a + 1 := by linarith
  unfold cfHi cfLo
  rcases le_total (1 / x) (1 / (x - a + 1)) with h | h
  · rw [max_eq_right h, min_eq_left h]
    have ha1 : 1 - a ≤ 0 := by
      rw [div_le_div_iff₀ hx0 hy] at h; linarith
    rw [abs_of_nonpos ha1]
    rw [div_sub_div _ _ hy.ne' hx0.ne', div_le_iff₀ (mul_pos hy hx0)]
    have : (-(1 - a)) * (1 / x) * ((x - a + 1) * x) = (a - 1) * (x - a + 1) := by field_simp; ring
    rw [this]; nlinarith
  · rw [max_eq_left h, min_eq_right h]
    have ha1 : 0 ≤ 1 - a := by
      rw [div_le_div_iff₀ hy hx0] at h; linarith
    rw [abs_of_nonneg ha1]
    rw [div_sub_div _ _ hx0.ne' hy.ne', div_le_iff₀ (mul_pos hx0 hy)]
    have : (1 - a) * (1 / (x - a + 1)) * (x * (x - a + 1)) = (1 - a) * x := by field_simp
    rw [this]; nlinarith

end Statrs.Lemmas.GammaCF
