/-
  Logarithmic moments of the standard exponential kernel,
      J_k(s) = ∫₀^∞ t^(s−1) (ln t)^k e^{−t} dt        (s > 0, k = 0, 1, 2, …),
  as iterated derivatives of Γ: `J_0 = Γ`, `J_k' = J_{k+1}` (differentiation of the Mellin transform,
  `Lemmas/DigammaIntegral.lean`), so `J_1 = Γ'`, `J_2 = Γ''`; with the trigamma value
  `ψ'(1) = π²/6` (`Lemmas/Trigamma.lean`):
      Γ''(1) = ∫₀^∞ (ln t)² e^{−t} dt = γ² + π²/6.
  Pure Mathlib statements; no model definitions.
-/
import Mathlib
import Statrs.Lemmas.DigammaIntegral
import Statrs.Lemmas.Trigamma
namespace Statrs.Lemmas.GammaLogMoments
open MeasureTheory Set Filter Asymptotics Topology Real
open Statrs.Lemmas.Transfer Statrs.Lemmas.DigammaIntegral Statrs.Lemmas.Trigamma

/-- a kernel whose Mellin transform is differentiable on the whole half-line `s > 0`: continuous on
    `(0,∞)`, faster than every power at `∞`, slower than every negative power at `0+` -/
structure MellinNice (f : ℝ → ℝ) : Prop where
  cont : ContinuousOn f (Ioi 0)
  top : ∀ a : ℝ, f =O[atTop] (· ^ (-a))
  bot : ∀ b : ℝ, 0 < b → f =O[𝓝[>] 0] (· ^ (-b))

theorem mellinNice_exp_neg : MellinNice (fun t : ℝ => Real.exp (-t)) := by
  refine ⟨by fun_prop, fun a => ?_, fun b hb => ?_⟩
  · have := (isLittleO_exp_neg_mul_rpow_atTop one_pos (-a)).isBigO
    simpa only [neg_mul, one_mul] using this
  · have h0 : (fun t : ℝ => Real.exp (-t)) =O[𝓝[>] 0] (fun _ : ℝ => (1:ℝ)) := by
      refine isBigO_const_of_tendsto (?_ : Tendsto _ _ (𝓝 (Real.exp (-0)))) one_ne_zero
      have : Continuous fun t : ℝ => Real.exp (-t) := by fun_prop
      exact this.continuousWithinAt
    refine h0.trans (IsBigO.of_bound 1 ?_)
    filter_upwards [Ioo_mem_nhdsGT (zero_lt_one' ℝ)] with t ht
    rw [one_mul, norm_one, Real.norm_of_nonneg (Real.rpow_nonneg ht.1.le _)]
    exact Real.one_le_rpow_of_pos_of_le_one_of_nonpos ht.1 ht.2.le (by linarith)

theorem MellinNice.log_mul {f : ℝ → ℝ} (hf : MellinNice f) :
    MellinNice (fun t => Real.log t * f t) := by
  refine ⟨?_, fun a => ?_, fun b hb => ?_⟩
  · exact (Real.continuousOn_log.mono (fun x (hx : x ∈ Ioi (0:ℝ)) => (ne_of_gt hx : x ≠ 0))).mul
      hf.cont
  · exact isBigO_rpow_top_log_smul (lt_add_one a) (hf.top (a + 1))
  · exact isBigO_rpow_zero_log_smul (half_lt_self hb) (hf.bot (b / 2) (by positivity))

theorem MellinNice.hasDerivAt {f : ℝ → ℝ} (hf : MellinNice f) {s : ℝ} (hs : 0 < s) :
    IntegrableOn (fun t => t ^ (s - 1) * (Real.log t * f t)) (Ioi 0) ∧
    HasDerivAt (fun u : ℝ => ∫ t in Ioi (0:ℝ), t ^ (u - 1) * f t)
      (∫ t in Ioi (0:ℝ), t ^ (s - 1) * (Real.log t * f t)) s :=
  hasDerivAt_integral_rpow_mul (hf.cont.locallyIntegrableOn measurableSet_Ioi)
    (hf.top (s + 1)) (lt_add_one s) (hf.bot (s / 2) (by positivity)) (half_lt_self hs)

theorem MellinNice.integrableOn {f : ℝ → ℝ} (hf : MellinNice f) {s : ℝ} (hs : 0 < s) :
    IntegrableOn (fun t => t ^ (s - 1) * f t) (Ioi 0) :=
  mellin_convergent_of_isBigO_scalar (hf.cont.locallyIntegrableOn measurableSet_Ioi)
    (hf.top (s + 1)) (lt_add_one s) (hf.bot (s / 2) (by positivity)) (half_lt_self hs)

/-- `J_k(s) = ∫₀^∞ t^(s−1) (ln t)^k e^{−t} dt` -/
noncomputable def J (k : ℕ) (s : ℝ) : ℝ :=
  ∫ t in Ioi (0:ℝ), t ^ (s - 1) * (Real.log t ^ k * Real.exp (-t))

theorem mellinNice_logPow (k : ℕ) : MellinNice (fun t : ℝ => Real.log t ^ k * Real.exp (-t)) := by
  induction k with
  | zero => simpa using mellinNice_exp_neg
  | succ k ih =>
    have := ih.log_mul
    refine ⟨this.cont.congr (fun t _ => by ring), fun a => (this.top a).congr_left (fun t => by ring),
      fun b hb => (this.bot b hb).congr_left (fun t => by ring)⟩

theorem integrableOn_J (k : ℕ) {s : ℝ} (hs : 0 < s) :
    IntegrableOn (fun t => t ^ (s - 1) * (Real.log t ^ k * Real.exp (-t))) (Ioi 0) :=
  (mellinNice_logPow k).integrableOn hs

/-- `J_k' = J_{k+1}` on `(0,∞)` -/
theorem hasDerivAt_J (k : ℕ) {s : ℝ} (hs : 0 < s) : HasDerivAt (J k) (J (k + 1) s) s := by
  have h := ((mellinNice_logPow k).hasDerivAt hs).2
  unfold J
  refine h.congr_deriv ?_
  refine setIntegral_congr_fun measurableSet_Ioi (fun t _ => ?_)
  ring

theorem J_zero {s : ℝ} (hs : 0 < s) : J 0 s = Real.Gamma s := by
  rw [Real.Gamma_eq_integral hs]; unfold J
  refine setIntegral_congr_fun measurableSet_Ioi (fun t _ => ?_)
  simp [mul_comm]

/-- `J_1 = Γ'` on `(0,∞)` -/
theorem J_one {s : ℝ} (hs : 0 < s) : J 1 s = deriv Real.Gamma s := by
  have h := hasDerivAt_J 0 hs
  have : J 0 =ᶠ[𝓝 s] Real.Gamma := by
    filter_upwards [lt_mem_nhds hs] with u hu using J_zero hu
  exact ((h.congr_of_eventuallyEq this.symm).deriv).symm

/-- `J_2 = Γ''` on `(0,∞)` -/
theorem hasDerivAt_deriv_Gamma {s : ℝ} (hs : 0 < s) :
    HasDerivAt (deriv Real.Gamma) (J 2 s) s := by
  have h := hasDerivAt_J 1 hs
  have : J 1 =ᶠ[𝓝 s] deriv Real.Gamma := by
    filter_upwards [lt_mem_nhds hs] with u hu using J_one hu
  exact h.congr_of_eventuallyEq this.symm

/-- `Γ''(s) = (ψ'(s) + ψ(s)²) Γ(s)` with the trigamma series for `ψ'` -/
theorem J_two {s : ℝ} (hs : 0 < s) :
    J 2 s = ((∑' n : ℕ, 1 / ((n:ℝ) + s) ^ 2) + psi s ^ 2) * Real.Gamma s := by
  have h1 := hasDerivAt_deriv_Gamma hs
  have h2 := (hasDerivAt_psi hs).mul (hasDerivAt_Gamma_psi hs)
  have : deriv Real.Gamma =ᶠ[𝓝 s] (psi * Real.Gamma) := by
    filter_upwards [lt_mem_nhds hs] with u hu
    simpa using deriv_Gamma_eq_psi_mul hu
  rw [(h1.congr_of_eventuallyEq this.symm).unique h2]
  ring

/-- `Γ''(1) = ∫₀^∞ (ln t)² e^{−t} dt = γ² + π²/6` -/
theorem J_two_one : J 2 1 = Real.eulerMascheroniConstant ^ 2 + Real.pi ^ 2 / 6 := by
  have h1 := hasDerivAt_deriv_Gamma one_pos
  have h2 := hasDerivAt_psi_one.mul (hasDerivAt_Gamma_psi one_pos)
  have : deriv Real.Gamma =ᶠ[𝓝 1] (psi * Real.Gamma) := by
    filter_upwards [lt_mem_nhds one_pos] with u hu
    simpa using deriv_Gamma_eq_psi_mul hu
  rw [(h1.congr_of_eventuallyEq this.symm).unique h2, psi_one, Real.Gamma_one]
  ring

/-- `∫₀^∞ (ln t)² e^{−t} dt = γ² + π²/6`, with integrability -/
theorem integral_log_sq_mul_exp_neg_Ioi :
    IntegrableOn (fun t : ℝ => Real.log t ^ 2 * Real.exp (-t)) (Ioi 0) ∧
    ∫ t in Ioi (0:ℝ), Real.log t ^ 2 * Real.exp (-t)
      = Real.eulerMascheroniConstant ^ 2 + Real.pi ^ 2 / 6 := by
  constructor
  · refine (integrableOn_J 2 one_pos).congr_fun (fun t ht => ?_) measurableSet_Ioi
    simp
  · rw [← J_two_one]; unfold J
    refine setIntegral_congr_fun measurableSet_Ioi (fun t ht => ?_)
    simp

/-- Apéry's constant as the series `ζ(3) = Σ_{n≥1} 1/n³` -/
noncomputable def zeta3 : ℝ := ∑' n : ℕ, 1 / ((n:ℝ) + 1) ^ 3

theorem zeta3_pos : 0 < zeta3 := by
  unfold zeta3
  have hs := summable_one_div_nat_add_cube one_pos
  have h0 : ∀ n : ℕ, 0 ≤ 1 / ((n:ℝ) + 1) ^ 3 := fun n => by positivity
  refine lt_of_lt_of_le (by norm_num : (0:ℝ) < 1 / ((0:ℕ) + 1 : ℝ) ^ 3) (hs.le_tsum 0 (fun n _ => h0 n))

/-- `Γ'''(1) = ∫₀^∞ (ln t)³ e^{−t} dt = −(γ³ + γπ²/2 + 2ζ(3))` -/
theorem J_three_one :
    J 3 1 = -(Real.eulerMascheroniConstant ^ 3 + Real.eulerMascheroniConstant * Real.pi ^ 2 / 2
      + 2 * zeta3) := by
  have h1 := hasDerivAt_J 2 one_pos
  have hT := hasDerivAt_trigamma_series one_pos
  have hpsi := hasDerivAt_psi_one
  have hG := hasDerivAt_Gamma_psi one_pos
  have h2 := (hT.add (hpsi.pow 2)).mul hG
  have heq : J 2 =ᶠ[𝓝 1] ((fun z : ℝ => ∑' n : ℕ, 1 / ((n:ℝ) + z) ^ 2) + psi ^ 2) * Real.Gamma := by
    filter_upwards [lt_mem_nhds one_pos] with u hu
    simpa using J_two hu
  have h3 := (h1.congr_of_eventuallyEq heq.symm).unique h2
  have hz : (∑' n : ℕ, -2 / ((n:ℝ) + 1) ^ 3) = -2 * zeta3 := by
    unfold zeta3; rw [← tsum_mul_left]; congr 1; funext n; ring
  rw [h3, hz]
  simp only [Pi.add_apply, Pi.pow_apply, tsum_trigamma_one, psi_one, Real.Gamma_one]
  push_cast
  ring

/-- `∫₀^∞ (ln t)³ e^{−t} dt = −(γ³ + γπ²/2 + 2ζ(3))`, with integrability -/
theorem integral_log_cube_mul_exp_neg_Ioi :
    IntegrableOn (fun t : ℝ => Real.log t ^ 3 * Real.exp (-t)) (Ioi 0) ∧
    ∫ t in Ioi (0:ℝ), Real.log t ^ 3 * Real.exp (-t)
      = -(Real.eulerMascheroniConstant ^ 3 + Real.eulerMascheroniConstant * Real.pi ^ 2 / 2
        + 2 * zeta3) := by
  constructor
  · refine (integrableOn_J 3 one_pos).congr_fun (fun t ht => ?_) measurableSet_Ioi
    simp
  · rw [← J_three_one]; unfold J
    refine setIntegral_congr_fun measurableSet_Ioi (fun t ht => ?_)
    simp

end Statrs.Lemmas.GammaLogMoments
