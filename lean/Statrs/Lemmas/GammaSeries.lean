/-
  Helper lemmas for C11 (`checked_gamma_lr`, series branch, src/function/gamma.rs:307–321): the power
  series  `Σ_{n≥0} x^n / ((a+1)…(a+n))`  as a sequence over ℝ.

  * `term a x n`  — the n-th term, defined by the loop's OWN recurrence `c ← c · (x / (a + n))`;
  * `psum a x n`  — the partial sum `Σ_{k ≤ n} term a x k` (the loop's `ans2` after `n` iterations);
  * positivity, closed form, geometric domination `term (m+k) ≤ term m · (x/(a+m+1))^k`, summability,
    the tail bound `Σ_{n>N} term n ≤ term N · x/(a+N+1−x)`;
  * `stopIdx a x eps` — the least `n ≥ 1` with `term n / psum n ≤ eps` (the loop's stopping test), its
    existence for `eps > 0`, and the bound `stopIdx ≤ ⌈a⌉ + K` in the series region `x ≤ 1 ∨ x ≤ a`
    whenever `2^(−K) ≤ eps`.
  Pure Mathlib; nothing about the generated code here.
-/
import Mathlib.Analysis.SpecificLimits.Basic
import Mathlib.Analysis.Complex.ExponentialBounds
import Mathlib.Tactic
namespace Statrs.Lemmas.GammaSeries
open Finset Filter Topology

/-- `x^n / ((a+1)…(a+n))`, by the recurrence of the loop body (`c2 *= x / r2` with `r2 = a + n`) -/
noncomputable def term (a x : ℝ) : ℕ → ℝ
  | 0 => 1
  | n + 1 => term a x n * (x / (a + ((n + 1 : ℕ) : ℝ)))

/-- `Σ_{k ≤ n} term a x k` -/
noncomputable def psum (a x : ℝ) (n : ℕ) : ℝ := ∑ k ∈ range (n + 1), term a x k

@[simp] theorem term_zero (a x : ℝ) : term a x 0 = 1 := rfl
theorem term_succ (a x : ℝ) (n : ℕ) :
    term a x (n + 1) = term a x n * (x / (a + ((n + 1 : ℕ) : ℝ))) := rfl
@[simp] theorem psum_zero (a x : ℝ) : psum a x 0 = 1 := by simp [psum]
theorem psum_succ (a x : ℝ) (n : ℕ) : psum a x (n + 1) = psum a x n + term a x (n + 1) := by
  unfold psum; rw [sum_range_succ]

theorem term_pos {a x : ℝ} (ha : 0 ≤ a) (hx : 0 < x) (n : ℕ) : 0 < term a x n := by
  induction n with
  | zero => simp
  | succ n ih => rw [term_succ]; push_cast; positivity

theorem term_nonneg {a x : ℝ} (ha : 0 ≤ a) (hx : 0 ≤ x) (n : ℕ) : 0 ≤ term a x n := by
  induction n with
  | zero => simp
  | succ n ih => rw [term_succ]; push_cast; positivity

/-- closed form `x^n / ((a+1)…(a+n))` -/
theorem term_eq_div_prod (a x : ℝ) (n : ℕ) :
    term a x n = x ^ n / ∏ k ∈ range n, (a + ((k + 1 : ℕ) : ℝ)) := by
  induction n with
  | zero => simp
  | succ n ih => rw [term_succ, ih, prod_range_succ, pow_succ, div_mul_div_comm]

theorem one_le_psum {a x : ℝ} (ha : 0 ≤ a) (hx : 0 ≤ x) (n : ℕ) : 1 ≤ psum a x n := by
  induction n with
  | zero => simp
  | succ n ih => rw [psum_succ]; linarith [term_nonneg ha hx (n + 1)]

theorem psum_pos {a x : ℝ} (ha : 0 ≤ a) (hx : 0 ≤ x) (n : ℕ) : 0 < psum a x n :=
  lt_of_lt_of_le one_pos (one_le_psum ha hx n)

theorem psum_mono {a x : ℝ} (ha : 0 ≤ a) (hx : 0 ≤ x) : Monotone (psum a x) :=
  monotone_nat_of_le_succ fun n => by rw [psum_succ]; linarith [term_nonneg ha hx (n + 1)]

/-- geometric domination from index `m` on, with ratio `x / (a + m + 1)` -/
theorem term_add_le {a x : ℝ} (ha : 0 ≤ a) (hx : 0 < x) (m k : ℕ) :
    term a x (m + k) ≤ term a x m * (x / (a + ((m + 1 : ℕ) : ℝ))) ^ k := by
  induction k with
  | zero => simp
  | succ k ih =>
    rw [← add_assoc, term_succ, pow_succ, ← mul_assoc]
    have h1 : x / (a + ((m + k + 1 : ℕ) : ℝ)) ≤ x / (a + ((m + 1 : ℕ) : ℝ)) := by
      apply div_le_div_of_nonneg_left hx.le (by positivity)
      push_cast; linarith [(Nat.cast_nonneg k : (0 : ℝ) ≤ k)]
    exact mul_le_mul ih h1 (by positivity) (mul_nonneg (term_pos ha hx m).le (by positivity))

theorem summable_term {a x : ℝ} (ha : 0 ≤ a) (hx : 0 < x) : Summable (term a x) := by
  obtain ⟨m, hm⟩ := exists_nat_gt x
  have hr : x / (a + ((m + 1 : ℕ) : ℝ)) < 1 := by
    rw [div_lt_one (by positivity)]; push_cast; linarith
  have hr0 : 0 ≤ x / (a + ((m + 1 : ℕ) : ℝ)) := by positivity
  rw [← summable_nat_add_iff m]
  refine Summable.of_nonneg_of_le (fun k => (term_pos ha hx _).le) (fun k => ?_)
    ((summable_geometric_of_lt_one hr0 hr).mul_left (term a x m))
  rw [add_comm]; exact term_add_le ha hx m k

theorem term_tendsto_zero {a x : ℝ} (ha : 0 ≤ a) (hx : 0 < x) : Tendsto (term a x) atTop (𝓝 0) :=
  (summable_term ha hx).tendsto_atTop_zero

theorem psum_le_tsum {a x : ℝ} (ha : 0 ≤ a) (hx : 0 < x) (n : ℕ) : psum a x n ≤ ∑' k, term a x k :=
  (summable_term ha hx).sum_le_tsum _ (fun k _ => (term_pos ha hx k).le)

theorem psum_add_tail {a x : ℝ} (ha : 0 ≤ a) (hx : 0 < x) (N : ℕ) :
    psum a x N + ∑' k, term a x (k + (N + 1)) = ∑' k, term a x k :=
  (summable_term ha hx).sum_add_tsum_nat_add (N + 1)

theorem tail_nonneg {a x : ℝ} (ha : 0 ≤ a) (hx : 0 < x) (N : ℕ) :
    0 ≤ ∑' k, term a x (k + (N + 1)) :=
  tsum_nonneg fun _ => (term_pos ha hx _).le

theorem tail_pos {a x : ℝ} (ha : 0 ≤ a) (hx : 0 < x) (N : ℕ) :
    0 < ∑' k, term a x (k + (N + 1)) := by
  have hs : Summable fun k => term a x (k + (N + 1)) := (summable_nat_add_iff (N + 1)).mpr (summable_term ha hx)
  have := hs.sum_le_tsum (range 1) (fun _ _ => (term_pos ha hx _).le)
  simp only [sum_range_one] at this
  exact lt_of_lt_of_le (term_pos ha hx _) this

/-- the tail after `N`, once the ratio `x/(a+N+1)` is below 1:
    `Σ_{n>N} term n ≤ term N · x/(a+N+1−x)` -/
theorem tail_le {a x : ℝ} (ha : 0 ≤ a) (hx : 0 < x) (N : ℕ) (hN : x < a + ((N + 1 : ℕ) : ℝ)) :
    ∑' k, term a x (k + (N + 1)) ≤ term a x N * (x / (a + ((N + 1 : ℕ) : ℝ) - x)) := by
  set r := x / (a + ((N + 1 : ℕ) : ℝ)) with hrdef
  have hden : 0 < a + ((N + 1 : ℕ) : ℝ) := by positivity
  have hr : r < 1 := by rw [hrdef, div_lt_one hden]; exact hN
  have hr0 : 0 ≤ r := by positivity
  have hs : Summable fun k => term a x (k + (N + 1)) := (summable_nat_add_iff (N + 1)).mpr (summable_term ha hx)
  have hg : Summable fun k : ℕ => term a x N * r * r ^ k :=
    (summable_geometric_of_lt_one hr0 hr).mul_left _
  have hle : ∀ k, term a x (k + (N + 1)) ≤ term a x N * r * r ^ k := by
    intro k
    have := term_add_le ha hx N (k + 1)
    rw [pow_succ] at this
    have e : k + (N + 1) = N + (k + 1) := by ring
    rw [e]; linarith [this]
  calc ∑' k, term a x (k + (N + 1)) ≤ ∑' k : ℕ, term a x N * r * r ^ k := hs.tsum_le_tsum hle hg
    _ = term a x N * r * (1 - r)⁻¹ := by
        rw [(summable_geometric_of_lt_one hr0 hr).tsum_mul_left, tsum_geometric_of_lt_one hr0 hr]
    _ = term a x N * (x / (a + ((N + 1 : ℕ) : ℝ) - x)) := by
        have h1 : a + ((N + 1 : ℕ) : ℝ) - x ≠ 0 := by linarith
        rw [hrdef, mul_assoc]; congr 1
        field_simp

/-! ### the stopping index -/

/-- the loop's stopping index: the least `n ≥ 1` with `term n / psum n ≤ eps` (`0` if there is none) -/
noncomputable def stopIdx (a x eps : ℝ) : ℕ := sInf {n : ℕ | 1 ≤ n ∧ term a x n / psum a x n ≤ eps}

theorem exists_stop {a x eps : ℝ} (ha : 0 ≤ a) (hx : 0 < x) (he : 0 < eps) :
    ∃ n : ℕ, 1 ≤ n ∧ term a x n / psum a x n ≤ eps := by
  have h := (term_tendsto_zero ha hx).eventually (gt_mem_nhds he)
  obtain ⟨n, hn⟩ := (h.and (eventually_ge_atTop 1)).exists
  refine ⟨n, hn.2, ?_⟩
  rw [div_le_iff₀ (psum_pos ha hx.le n)]
  nlinarith [one_le_psum ha hx.le n, hn.1, (term_pos ha hx n).le]

theorem stopIdx_spec {a x eps : ℝ} (ha : 0 ≤ a) (hx : 0 < x) (he : 0 < eps) :
    1 ≤ stopIdx a x eps ∧ term a x (stopIdx a x eps) / psum a x (stopIdx a x eps) ≤ eps :=
  Nat.sInf_mem (s := {n : ℕ | 1 ≤ n ∧ term a x n / psum a x n ≤ eps}) (exists_stop ha hx he)

theorem not_stop_of_lt {a x eps : ℝ} {j : ℕ} (h1 : 1 ≤ j) (hj : j < stopIdx a x eps) :
    ¬ term a x j / psum a x j ≤ eps := fun h =>
  Nat.notMem_of_lt_sInf hj ⟨h1, h⟩

theorem stopIdx_le {a x eps : ℝ} {n : ℕ} (h1 : 1 ≤ n) (hn : term a x n / psum a x n ≤ eps) :
    stopIdx a x eps ≤ n :=
  Nat.sInf_le (s := {n : ℕ | 1 ≤ n ∧ term a x n / psum a x n ≤ eps}) ⟨h1, hn⟩

/-- characterisation: `N` is the stopping index iff the test holds at `N ≥ 1` and fails on `1 … N−1` -/
theorem stopIdx_eq {a x eps : ℝ} {N : ℕ} (h1 : 1 ≤ N) (hN : term a x N / psum a x N ≤ eps)
    (hlt : ∀ j, 1 ≤ j → j < N → ¬ term a x j / psum a x j ≤ eps) : stopIdx a x eps = N := by
  apply le_antisymm (stopIdx_le h1 hN)
  by_contra hcon
  have hcon := not_le.mp hcon
  have hmem : stopIdx a x eps ∈ {n : ℕ | 1 ≤ n ∧ term a x n / psum a x n ≤ eps} :=
    Nat.sInf_mem ⟨N, h1, hN⟩
  exact hlt _ hmem.1 hcon hmem.2

/-! ### how long the loop runs in the series region `x ≤ 1 ∨ x ≤ a` -/

/-- in the series region every ratio `x/(a+n+1)` is below 1: the terms never exceed 1 -/
theorem term_le_one {a x : ℝ} (ha : 0 < a) (hx : 0 < x) (hs : x ≤ 1 ∨ x ≤ a) (n : ℕ) :
    term a x n ≤ 1 := by
  induction n with
  | zero => simp
  | succ n ih =>
    rw [term_succ]
    have hr : x / (a + ((n + 1 : ℕ) : ℝ)) ≤ 1 := by
      rw [div_le_one (by positivity)]; push_cast
      rcases hs with h | h <;> linarith [(Nat.cast_nonneg n : (0 : ℝ) ≤ n)]
    calc term a x n * (x / (a + ((n + 1 : ℕ) : ℝ))) ≤ 1 * 1 :=
          mul_le_mul ih hr (by positivity) zero_le_one
      _ = 1 := one_mul 1

/-- from index `⌈a⌉` on the ratio is at most `1/2` -/
theorem term_ceil_add_le {a x : ℝ} (ha : 0 < a) (hx : 0 < x) (hs : x ≤ 1 ∨ x ≤ a) (k : ℕ) :
    term a x (⌈a⌉₊ + k) ≤ (1 / 2) ^ k := by
  have hm : a ≤ (⌈a⌉₊ : ℝ) := Nat.le_ceil a
  have hm1 : (1 : ℝ) ≤ (⌈a⌉₊ : ℝ) := by exact_mod_cast Nat.ceil_pos.mpr ha
  have hr : x / (a + ((⌈a⌉₊ + 1 : ℕ) : ℝ)) ≤ 1 / 2 := by
    rw [div_le_div_iff₀ (by positivity) two_pos]; push_cast
    rcases hs with h | h <;> linarith
  calc term a x (⌈a⌉₊ + k) ≤ term a x ⌈a⌉₊ * (x / (a + ((⌈a⌉₊ + 1 : ℕ) : ℝ))) ^ k :=
        term_add_le ha.le hx _ k
    _ ≤ 1 * (1 / 2) ^ k :=
        mul_le_mul (term_le_one ha hx hs _) (pow_le_pow_left₀ (by positivity) hr k) (by positivity) zero_le_one
    _ = (1 / 2) ^ k := one_mul _

/-- fuel bound: in the series region the loop stops after at most `⌈a⌉ + K` iterations when `2^(−K) ≤ eps` -/
theorem stopIdx_le_ceil_add {a x eps : ℝ} (ha : 0 < a) (hx : 0 < x) (hs : x ≤ 1 ∨ x ≤ a) (K : ℕ)
    (hK : (1 / 2 : ℝ) ^ K ≤ eps) : stopIdx a x eps ≤ ⌈a⌉₊ + K := by
  apply stopIdx_le
  · have := Nat.ceil_pos.mpr ha; omega
  · rw [div_le_iff₀ (psum_pos ha.le hx.le _)]
    have h1 := term_ceil_add_le ha hx hs K
    have h2 := one_le_psum ha.le hx.le (⌈a⌉₊ + K)
    have h3 : 0 ≤ eps := le_trans (by positivity) hK
    nlinarith

/-- `2^(−50) ≤ 10^(−15)` -/
theorem half_pow_50 : (1 / 2 : ℝ) ^ 50 ≤ 1e-15 := by norm_num

/-! ### a sharper bound for large `a` (`x ≤ a`): about `√(70·a)` iterations -/

/-- for `x ≤ a`: after `2m` steps the term is at most `(a/(a+m))^m ≤ exp(−m²/(a+m))` -/
theorem term_two_mul_le {a x : ℝ} (ha : 0 < a) (hx : 0 < x) (hxa : x ≤ a) (m : ℕ) :
    term a x (m + m) ≤ Real.exp (-((m : ℝ) * ((m : ℝ) / (a + m)))) := by
  have hm : (0 : ℝ) ≤ m := Nat.cast_nonneg m
  have h1 := term_add_le ha.le hx m m
  have h2 := term_le_one ha hx (Or.inr hxa) m
  have hr0 : 0 ≤ x / (a + ((m + 1 : ℕ) : ℝ)) := by positivity
  have hr : x / (a + ((m + 1 : ℕ) : ℝ)) ≤ Real.exp (-((m : ℝ) / (a + m))) := by
    have hle : x / (a + ((m + 1 : ℕ) : ℝ)) ≤ 1 - (m : ℝ) / (a + m) := by
      have e : 1 - (m : ℝ) / (a + m) = a / (a + m) := by field_simp; ring
      rw [e, div_le_div_iff₀ (by positivity) (by positivity)]
      push_cast
      nlinarith
    have := Real.add_one_le_exp (-((m : ℝ) / (a + m)))
    linarith
  calc term a x (m + m) ≤ term a x m * (x / (a + ((m + 1 : ℕ) : ℝ))) ^ m := h1
    _ ≤ 1 * Real.exp (-((m : ℝ) / (a + m))) ^ m :=
        mul_le_mul h2 (pow_le_pow_left₀ hr0 hr m) (by positivity) zero_le_one
    _ = Real.exp (-((m : ℝ) * ((m : ℝ) / (a + m)))) := by
        rw [one_mul, ← Real.exp_nat_mul]; congr 1; ring

/-- `e^{−35} ≤ 10^{−15}` -/
theorem exp_neg_35_le : Real.exp (-35) ≤ 1e-15 := by
  have h1 : (1e15 : ℝ) ≤ Real.exp 35 := by
    have h := Real.exp_one_gt_d9
    have e : Real.exp 35 = Real.exp 1 ^ 35 := by rw [← Real.exp_nat_mul]; norm_num
    rw [e]
    calc (1e15 : ℝ) ≤ (2.7182818283 : ℝ) ^ 35 := by norm_num
      _ ≤ Real.exp 1 ^ 35 := pow_le_pow_left₀ (by norm_num) h.le 35
  rw [Real.exp_neg]
  have hpos : (0 : ℝ) < Real.exp 35 := Real.exp_pos 35
  rw [inv_le_comm₀ hpos (by norm_num)]
  norm_num at h1 ⊢
  exact h1

/-- sharper fuel bound for `x ≤ a`: the loop with tolerance `1e-15` stops after at most `2m` iterations as soon
    as `35·(a + m) ≤ m²` (so `m ≈ √(35a)` suffices) -/
theorem stopIdx_le_two_mul {a x : ℝ} (ha : 0 < a) (hx : 0 < x) (hxa : x ≤ a) (m : ℕ) (hm : 1 ≤ m)
    (h : 35 * (a + m) ≤ (m : ℝ) ^ 2) : stopIdx a x 1e-15 ≤ m + m := by
  apply stopIdx_le (by omega)
  rw [div_le_iff₀ (psum_pos ha.le hx.le _)]
  have h1 := term_two_mul_le ha hx hxa m
  have h2 := one_le_psum ha.le hx.le (m + m)
  have hm0 : (0 : ℝ) < a + m := by positivity
  have h3 : Real.exp (-((m : ℝ) * ((m : ℝ) / (a + m)))) ≤ Real.exp (-35) := by
    apply Real.exp_le_exp.mpr
    rw [neg_le_neg_iff, ← mul_div_assoc, le_div_iff₀ hm0]
    nlinarith
  have h4 := exp_neg_35_le
  have h5 : term a x (m + m) ≤ 1e-15 := h1.trans (h3.trans h4)
  nlinarith

end Statrs.Lemmas.GammaSeries
