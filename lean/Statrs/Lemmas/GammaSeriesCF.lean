/-
  Helper definitions for C11 (`checked_gamma_lr` / `checked_gamma_ur`, continued-fraction branch,
  src/function/gamma.rs:323–364 and 211–250): the UNSCALED three-term recurrence the loop runs.

  State after `k` iterations:  `y = 1 − a + k`,  `z = x − a + 2 + 2k`,  `c = k`, and
      `A₀ = 1, A₁ = x + 1,  A_{k+2} = A_{k+1}·z_{k+1} − A_k·(y_{k+1}·(k+1))`
      `B₀ = x, B₁ = (x−a+2)·x, B_{k+2} = B_{k+1}·z_{k+1} − B_k·(y_{k+1}·(k+1))`
  (`A_k/B_k` are the convergents of
      `1/x · (1 + (a−1)/(x−a+2 − 1·(2−a)/(x−a+4 − 2·(3−a)/(x−a+6 − …))))`,
  i.e. `Γ(a,x) = x^{a−1}e^{−x} + (a−1)Γ(a−1,x)` with Legendre's continued fraction for `Γ(a−1,x)`.)
  The code keeps `(p3,p2,q3,q2) = s·(A_k, A_{k+1}, B_k, B_{k+1})` with a scale `s` (a power of `big_inv`,
  `cfScale`) that it multiplies by `big_inv` whenever `big < |p|`; `ans` holds the last quotient with a
  non-zero denominator (`cfAns`).  `cfTest j`: iteration `j` (0-based) ends the loop.
-/
import Mathlib.Tactic
import Mathlib.Algebra.ContinuedFractions.ContinuantsRecurrence
namespace Statrs.Lemmas.GammaCF

/-- `y` after `k` iterations -/
noncomputable def cfY (a : ℝ) (k : ℕ) : ℝ := 1 - a + k
/-- `z` after `k` iterations -/
noncomputable def cfZ (a x : ℝ) (k : ℕ) : ℝ := x - a + 2 + 2 * k

/-- unscaled numerators -/
noncomputable def cfA (a x : ℝ) : ℕ → ℝ
  | 0 => 1
  | 1 => x + 1
  | k + 2 => cfA a x (k + 1) * cfZ a x (k + 1) - cfA a x k * (cfY a (k + 1) * ((k + 1 : ℕ) : ℝ))

/-- unscaled denominators -/
noncomputable def cfB (a x : ℝ) : ℕ → ℝ
  | 0 => x
  | 1 => (x - a + 2) * x
  | k + 2 => cfB a x (k + 1) * cfZ a x (k + 1) - cfB a x k * (cfY a (k + 1) * ((k + 1 : ℕ) : ℝ))

theorem cfA_succ_succ (a x : ℝ) (k : ℕ) : cfA a x (k + 2) =
    cfA a x (k + 1) * cfZ a x (k + 1) - cfA a x k * (cfY a (k + 1) * ((k + 1 : ℕ) : ℝ)) := rfl
theorem cfB_succ_succ (a x : ℝ) (k : ℕ) : cfB a x (k + 2) =
    cfB a x (k + 1) * cfZ a x (k + 1) - cfB a x k * (cfY a (k + 1) * ((k + 1 : ℕ) : ℝ)) := rfl

/-- the scale factor after `k` iterations: multiplied by `big_inv` whenever `big < |p|` -/
noncomputable def cfScale (big big_inv a x : ℝ) : ℕ → ℝ
  | 0 => 1
  | k + 1 => if big < |cfScale big big_inv a x k * cfA a x (k + 2)| then cfScale big big_inv a x k * big_inv
             else cfScale big big_inv a x k

theorem cfScale_ne_zero {big big_inv : ℝ} (a x : ℝ) (h : big_inv ≠ 0) (k : ℕ) :
    cfScale big big_inv a x k ≠ 0 := by
  induction k with
  | zero => simp [cfScale]
  | succ k ih => unfold cfScale; split_ifs <;> simp [ih, h]

/-- the scale is a power of `big_inv` -/
theorem cfScale_eq_pow (big big_inv a x : ℝ) (k : ℕ) : ∃ m : ℕ, m ≤ k ∧ cfScale big big_inv a x k = big_inv ^ m := by
  induction k with
  | zero => exact ⟨0, le_rfl, by simp [cfScale]⟩
  | succ k ih =>
    obtain ⟨m, hm, he⟩ := ih
    unfold cfScale; split_ifs
    · exact ⟨m + 1, by omega, by rw [he, pow_succ]⟩
    · exact ⟨m, by omega, he⟩

/-- `ans` after `k` iterations: the last quotient `A_{j+1}/B_{j+1}` (`j ≤ k`) with `B_{j+1} ≠ 0`
    (initially `A₁/B₁` whatever `B₁` is) -/
noncomputable def cfAns (a x : ℝ) : ℕ → ℝ
  | 0 => cfA a x 1 / cfB a x 1
  | k + 1 => if cfB a x (k + 2) = 0 then cfAns a x k else cfA a x (k + 2) / cfB a x (k + 2)

/-- iteration `j` (0-based; it produces `A_{j+2}/B_{j+2}`) ends the loop: the new denominator is non-zero and
    the relative change of the quotient is at most `eps` -/
def cfTest (a x eps : ℝ) (j : ℕ) : Prop :=
  cfB a x (j + 2) ≠ 0 ∧
    |(cfAns a x j - cfA a x (j + 2) / cfB a x (j + 2)) / (cfA a x (j + 2) / cfB a x (j + 2))| ≤ eps

/-! ### `A_k/B_k` are the convergents of a (Mathlib) generalised continued fraction -/

/-- partial numerators and denominators: `(a₀, b₀) = ((a−1)/x, x−a+2)`, and for `n ≥ 1`
    `(a_n, b_n) = (−(n+1−a)·n, x−a+2+2n)` -/
noncomputable def cfPair (a x : ℝ) : ℕ → GenContFract.Pair ℝ
  | 0 => ⟨(a - 1) / x, x - a + 2⟩
  | n + 1 => ⟨-(cfY a (n + 1) * ((n + 1 : ℕ) : ℝ)), cfZ a x (n + 1)⟩

/-- the continued fraction `1/x + ((a−1)/x) / (x−a+2 − 1·(2−a)/(x−a+4 − 2·(3−a)/(x−a+6 − …)))`
    (`= e^x x^{−a} Γ(a,x)`, by `Γ(a,x) = x^{a−1}e^{−x} + (a−1)Γ(a−1,x)` and Legendre's fraction for `Γ(a−1,x)`) -/
noncomputable def gammaCF (a x : ℝ) : GenContFract ℝ := ⟨1 / x, Stream'.Seq.ofStream (cfPair a x)⟩

theorem gammaCF_get (a x : ℝ) (n : ℕ) : (gammaCF a x).s.get? n = some (cfPair a x n) := rfl

/-- `A_k = x · (k-th numerator)`, `B_k = x · (k-th denominator)` of `gammaCF a x` -/
theorem cfAB_eq_nums_dens (a x : ℝ) (hx : x ≠ 0) (k : ℕ) :
    (cfA a x k = x * (gammaCF a x).nums k ∧ cfB a x k = x * (gammaCF a x).dens k) ∧
    (cfA a x (k + 1) = x * (gammaCF a x).nums (k + 1) ∧ cfB a x (k + 1) = x * (gammaCF a x).dens (k + 1)) := by
  induction k with
  | zero =>
    have hn1 := GenContFract.first_num_eq (gammaCF_get a x 0)
    have hd1 := GenContFract.first_den_eq (gammaCF_get a x 0)
    rw [zero_add, hn1, hd1, GenContFract.zeroth_num_eq_h, GenContFract.zeroth_den_eq_one]
    simp only [cfA, cfB, cfPair, gammaCF]
    refine ⟨⟨?_, ?_⟩, ?_, ?_⟩ <;> (field_simp; try ring)
  | succ k ih =>
    refine ⟨ih.2, ?_, ?_⟩
    · rw [GenContFract.nums_recurrence (gammaCF_get a x (k + 1)) rfl rfl, cfA_succ_succ, ih.1.1, ih.2.1]
      simp only [cfPair]; ring
    · rw [GenContFract.dens_recurrence (gammaCF_get a x (k + 1)) rfl rfl, cfB_succ_succ, ih.1.2, ih.2.2]
      simp only [cfPair]; ring

/-- the quotients of the loop's recurrence ARE the convergents of `gammaCF a x` -/
theorem cfA_div_cfB_eq_convs (a x : ℝ) (hx : x ≠ 0) (k : ℕ) :
    cfA a x k / cfB a x k = (gammaCF a x).convs k := by
  obtain ⟨⟨h1, h2⟩, -⟩ := cfAB_eq_nums_dens a x hx k
  rw [GenContFract.conv_eq_num_div_den, h1, h2, mul_div_mul_left _ _ hx]

noncomputable instance (a x eps : ℝ) (j : ℕ) : Decidable (cfTest a x eps j) := by
  unfold cfTest; infer_instance

end Statrs.Lemmas.GammaCF
