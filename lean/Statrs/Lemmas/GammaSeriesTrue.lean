/-
  Helper lemmas for C11: the power series of `Lemmas/GammaSeries.lean` and the TRUE regularised incomplete
  gamma function `P(a,x) = gammaLrR a x = (∫₀ˣ e^{−t} t^{a−1} dt)/Γ(a)` of `Props/C03/SFDerivWitness.lean`.

  Route: the recurrence `P(a,x) = x^a e^{−x}/Γ(a+1) + P(a+1,x)` (`gammaUr_succ`, proved there by "same
  derivative, same limit at 0⁺") iterated `N+1` times gives the EXACT finite identity
      `P(a,x) = x^a e^{−x}/Γ(a+1) · S_N + P(a+N+1, x)`,
  and `0 ≤ P(b,x) ≤ x^b/Γ(b+1)` sends the remainder to 0: so
      `Σ_{n≥0} x^n/((a+1)…(a+n)) = Γ(a+1) · x^{−a} · e^{x} · P(a,x)`.
-/
import Statrs.Props.C03.SFDerivWitness
import Statrs.Props.Common.Witnesses_2
import Statrs.Lemmas.GammaSeries
namespace Statrs.Lemmas.GammaSeries
open Statrs.Props.C03.Witness MeasureTheory Set Filter Topology

/-- `x^n/((a+1)…(a+n)) = x^n Γ(a+1)/Γ(a+n+1)` -/
theorem term_eq_gamma {a : ℝ} (ha : 0 < a) (x : ℝ) (n : ℕ) :
    term a x n = x ^ n * Real.Gamma (a + 1) / Real.Gamma (a + (n : ℝ) + 1) := by
  induction n with
  | zero =>
    have := (Real.Gamma_pos_of_pos (by linarith : 0 < a + 1)).ne'
    simp [this]
  | succ n ih =>
    have hn : (0 : ℝ) ≤ n := Nat.cast_nonneg n
    have h1 : a + (n : ℝ) + 1 ≠ 0 := by positivity
    have hG : Real.Gamma (a + ((n + 1 : ℕ) : ℝ) + 1) = (a + (n : ℝ) + 1) * Real.Gamma (a + (n : ℝ) + 1) := by
      push_cast; rw [← add_assoc]; exact Real.Gamma_add_one h1
    have hGp := (Real.Gamma_pos_of_pos (by positivity : 0 < a + (n : ℝ) + 1)).ne'
    rw [term_succ, ih, hG]
    push_cast
    field_simp
    ring

/-- `P(a,x) = x^a e^{−x}/Γ(a+1) + P(a+1,x)` -/
theorem gammaLrR_succ {a x : ℝ} (ha : 0 < a) (hx : 0 < x) :
    gammaLrR a x = x ^ a * Real.exp (-x) / Real.Gamma (a + 1) + gammaLrR (a + 1) x := by
  have := gammaUr_succ ha hx
  linarith

/-- exact finite form of the series identity, with the remainder:
    `P(a,x) = x^a e^{−x}/Γ(a+1) · S_N + P(a+N+1, x)` -/
theorem gammaLrR_eq_psum_add {a x : ℝ} (ha : 0 < a) (hx : 0 < x) (N : ℕ) :
    gammaLrR a x = x ^ a * Real.exp (-x) / Real.Gamma (a + 1) * psum a x N
      + gammaLrR (a + ((N + 1 : ℕ) : ℝ)) x := by
  induction N with
  | zero => rw [psum_zero, mul_one]; simpa using gammaLrR_succ ha hx
  | succ N ih =>
    have hN : (0 : ℝ) ≤ N := Nat.cast_nonneg N
    have haN : 0 < a + ((N + 1 : ℕ) : ℝ) := by positivity
    rw [ih, gammaLrR_succ haN hx, psum_succ, term_eq_gamma ha]
    have e1 : a + ((N + 1 : ℕ) : ℝ) + 1 = a + ((N + 1 + 1 : ℕ) : ℝ) := by push_cast; ring
    have hG1 := (Real.Gamma_pos_of_pos (by linarith : 0 < a + 1)).ne'
    have hG2 := (Real.Gamma_pos_of_pos (by linarith : 0 < a + ((N + 1 : ℕ) : ℝ) + 1)).ne'
    rw [Real.rpow_add hx, Real.rpow_natCast, e1] at *
    field_simp
    ring

/-- `0 ≤ P(b,x) ≤ x^b/Γ(b+1)` (drop `e^{−t} ≤ 1` under the integral) -/
theorem gammaLrR_le_rpow_div {b x : ℝ} (hb : 0 < b) (hx : 0 ≤ x) :
    gammaLrR b x ≤ x ^ b / Real.Gamma (b + 1) := by
  unfold gammaLrR
  have hG := Real.Gamma_pos_of_pos hb
  have h1 : ∫ t in (0:ℝ)..x, Real.exp (-t) * t ^ (b - 1) ≤ ∫ t in (0:ℝ)..x, t ^ (b - 1) := by
    apply intervalIntegral.integral_mono_on hx (gamma_integrand_intervalIntegrable hb hx)
      (intervalIntegral.intervalIntegrable_rpow' (by linarith))
    intro t ht
    have h0 : 0 ≤ t ^ (b - 1) := Real.rpow_nonneg ht.1 _
    have h1 : Real.exp (-t) ≤ 1 := Real.exp_le_one_iff.mpr (by linarith [ht.1])
    nlinarith
  have h2 : ∫ t in (0:ℝ)..x, t ^ (b - 1) = x ^ b / b := by
    rw [integral_rpow (Or.inl (by linarith))]
    simp [Real.zero_rpow hb.ne']
  rw [h2] at h1
  rw [Real.Gamma_add_one hb.ne', div_le_div_iff₀ hG (by positivity)]
  have := mul_le_mul_of_nonneg_right h1 (mul_nonneg hb.le hG.le)
  have e : x ^ b / b * (b * Real.Gamma b) = x ^ b * Real.Gamma b := by field_simp
  nlinarith

/-- the remainder in terms of the next term: `P(a+N+1,x) ≤ x^a/Γ(a+1) · term (N+1)` -/
theorem gammaLrR_shift_le_term {a x : ℝ} (ha : 0 < a) (hx : 0 < x) (N : ℕ) :
    gammaLrR (a + ((N + 1 : ℕ) : ℝ)) x ≤ x ^ a / Real.Gamma (a + 1) * term a x (N + 1) := by
  have haN : 0 < a + ((N + 1 : ℕ) : ℝ) := by positivity
  refine (gammaLrR_le_rpow_div haN hx.le).trans (le_of_eq ?_)
  rw [term_eq_gamma ha, Real.rpow_add hx, Real.rpow_natCast]
  have hG1 := (Real.Gamma_pos_of_pos (by linarith : 0 < a + 1)).ne'
  have hG2 := (Real.Gamma_pos_of_pos (by linarith : 0 < a + ((N + 1 : ℕ) : ℝ) + 1)).ne'
  field_simp

/-- THE SERIES IDENTITY: `Σ_{n≥0} x^n/((a+1)…(a+n))` converges to `Γ(a+1) · x^{−a} · e^{x} · P(a,x)`
    (`= a · Γ(a) · P(a,x) · x^{−a} · e^x`) for every `a > 0`, `x > 0`. -/
theorem hasSum_term {a x : ℝ} (ha : 0 < a) (hx : 0 < x) :
    HasSum (term a x) (Real.Gamma (a + 1) * x ^ (-a) * Real.exp x * gammaLrR a x) := by
  have hsum := summable_term ha.le hx
  have hG1 := Real.Gamma_pos_of_pos (by linarith : 0 < a + 1)
  have hxa : 0 < x ^ a := Real.rpow_pos_of_pos hx a
  set pref := x ^ a * Real.exp (-x) / Real.Gamma (a + 1) with hpref
  have hpref_pos : 0 < pref := by positivity
  -- the remainder tends to 0
  have hrem : Tendsto (fun N : ℕ => gammaLrR (a + ((N + 1 : ℕ) : ℝ)) x) atTop (𝓝 0) := by
    have hup : Tendsto (fun N : ℕ => x ^ a / Real.Gamma (a + 1) * term a x (N + 1)) atTop (𝓝 0) := by
      have := ((term_tendsto_zero ha.le hx).comp (tendsto_add_atTop_nat 1)).const_mul
        (x ^ a / Real.Gamma (a + 1))
      simpa using this
    refine tendsto_of_tendsto_of_tendsto_of_le_of_le tendsto_const_nhds hup (fun N => ?_)
      (fun N => gammaLrR_shift_le_term ha hx N)
    exact Statrs.Spec.Witnesses.gammaLrR_nonneg (by positivity) hx.le
  -- partial sums
  have hps : Tendsto (fun N : ℕ => psum a x N) atTop (𝓝 (gammaLrR a x / pref)) := by
    have h1 : ∀ N : ℕ, psum a x N = (gammaLrR a x - gammaLrR (a + ((N + 1 : ℕ) : ℝ)) x) / pref := by
      intro N
      rw [eq_div_iff hpref_pos.ne']
      have := gammaLrR_eq_psum_add ha hx N
      linarith
    have h2 := ((tendsto_const_nhds (x := gammaLrR a x)).sub hrem).div_const pref
    rw [sub_zero] at h2
    exact h2.congr (fun N => (h1 N).symm)
  have hps' : Tendsto (fun N : ℕ => ∑ k ∈ Finset.range N, term a x k) atTop (𝓝 (gammaLrR a x / pref)) := by
    have := hps
    unfold psum at this
    exact (tendsto_add_atTop_iff_nat 1).mp this
  have hval : gammaLrR a x / pref = Real.Gamma (a + 1) * x ^ (-a) * Real.exp x * gammaLrR a x := by
    rw [hpref, Real.rpow_neg hx.le, Real.exp_neg]
    field_simp
  rw [← hval]
  exact (hasSum_iff_tendsto_nat_of_nonneg (fun n => (term_pos ha.le hx n).le) _).mpr hps'

theorem tsum_term {a x : ℝ} (ha : 0 < a) (hx : 0 < x) :
    ∑' n, term a x n = Real.Gamma (a + 1) * x ^ (-a) * Real.exp x * gammaLrR a x :=
  (hasSum_term ha hx).tsum_eq

/-- `P(a,x) = x^a e^{−x}/Γ(a+1) · Σ_{n≥0} x^n/((a+1)…(a+n))` -/
theorem gammaLrR_eq_tsum {a x : ℝ} (ha : 0 < a) (hx : 0 < x) :
    gammaLrR a x = x ^ a * Real.exp (-x) / Real.Gamma (a + 1) * ∑' n, term a x n := by
  rw [tsum_term ha hx, Real.rpow_neg hx.le, Real.exp_neg]
  have hG1 := (Real.Gamma_pos_of_pos (by linarith : 0 < a + 1)).ne'
  have hxa := (Real.rpow_pos_of_pos hx a).ne'
  have he := (Real.exp_pos x).ne'
  field_simp

/-- the remainder after `N` terms IS the shifted function:
    `P(a+N+1, x) = x^a e^{−x}/Γ(a+1) · Σ_{n>N} x^n/((a+1)…(a+n))` -/
theorem gammaLrR_shift_eq_tail {a x : ℝ} (ha : 0 < a) (hx : 0 < x) (N : ℕ) :
    gammaLrR (a + ((N + 1 : ℕ) : ℝ)) x =
      x ^ a * Real.exp (-x) / Real.Gamma (a + 1) * ∑' k, term a x (k + (N + 1)) := by
  have h1 := gammaLrR_eq_psum_add ha hx N
  have h2 := gammaLrR_eq_tsum ha hx
  rw [← psum_add_tail ha.le hx N, mul_add] at h2
  linarith

theorem gammaLrR_pos {a x : ℝ} (ha : 0 < a) (hx : 0 < x) : 0 < gammaLrR a x := by
  rw [gammaLrR_eq_tsum ha hx]
  have hG1 := Real.Gamma_pos_of_pos (by linarith : 0 < a + 1)
  have hxa : 0 < x ^ a := Real.rpow_pos_of_pos hx a
  have := lt_of_lt_of_le one_pos ((one_le_psum ha.le hx.le 0).trans (psum_le_tsum ha.le hx 0))
  positivity

end Statrs.Lemmas.GammaSeries
