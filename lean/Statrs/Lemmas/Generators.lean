/-
  Helper lemmas for C20 (wave generators, src/generate.rs): floored residue `A * fract (x / A)`
  versus the model's truncated `RFun.fmod` / `f64.modulus`, and the one-step specifications of
  `InfinitePeriodic.next` / `InfiniteSinusoidal.next` over ℝ.
-/
import Statrs.Lemmas.FunctionLayer
import Statrs.Gen.R_generate
import Statrs.Spec.Generators
open Statrs Statrs.Gen Statrs.Lemmas.FunctionLayer Statrs.Spec.Generators
namespace Statrs.Lemmas.Generators

/-! ### floored residue -/

/-- the residue of `x` modulo `A > 0` in `[0, A)` (pure Mathlib: `A * Int.fract (x / A)`) -/
noncomputable def fres (A x : ℝ) : ℝ := A * Int.fract (x / A)

theorem fres_nonneg {A : ℝ} (hA : 0 < A) (x : ℝ) : 0 ≤ fres A x :=
  mul_nonneg hA.le (Int.fract_nonneg _)

theorem fres_lt {A : ℝ} (hA : 0 < A) (x : ℝ) : fres A x < A := by
  have := Int.fract_lt_one (x / A)
  unfold fres; nlinarith

/-- uniqueness: a value in `[0, A)` congruent to `x` modulo `A` is `fres A x` -/
theorem fres_unique {A x r : ℝ} (hA : 0 < A) (h0 : 0 ≤ r) (h1 : r < A) (k : ℤ) (e : x - r = A * k) :
    fres A x = r := by
  have hx : x / A = r / A + (k : ℝ) := by field_simp; linarith
  unfold fres
  rw [hx, Int.fract_add_intCast, Int.fract_eq_self.mpr ⟨div_nonneg h0 hA.le, (div_lt_one hA).mpr h1⟩]
  field_simp

theorem fres_add_int_mul {A : ℝ} (hA : 0 < A) (x : ℝ) (m : ℤ) : fres A (x + A * m) = fres A x := by
  have hx : (x + A * m) / A = x / A + (m : ℝ) := by field_simp
  unfold fres
  rw [hx, Int.fract_add_intCast]

theorem fres_sub_int_mul {A : ℝ} (hA : 0 < A) (x : ℝ) (m : ℤ) : fres A (x - A * m) = fres A x := by
  have := fres_add_int_mul hA x (-m)
  simpa [sub_eq_add_neg] using this

theorem fres_of_mem {A x : ℝ} (hA : 0 < A) (h0 : 0 ≤ x) (h1 : x < A) : fres A x = x :=
  fres_unique hA h0 h1 0 (by simp)

/-- `x % A` on a non-negative `x` (positive `A`) is the floored residue -/
theorem fmod_eq_fres {A x : ℝ} (hA : 0 < A) (hx : 0 ≤ x) : RFun.fmod x A = fres A x := by
  obtain ⟨h0, h1⟩ := fmod_nonneg_of_nonneg x A hA hx
  obtain ⟨k, e⟩ := fmod_sub_int x A
  exact (fres_unique hA h0 h1 k e).symm

/-- `f64.modulus` over ℝ for `d > 0`: `r = x % d`, then `r + d` when `r < 0` (the inner
    `s == d` guard of the source is dead over ℝ: `r ≠ 0` in that branch), else `r`. -/
theorem modulus_canon (x d : ℝ) (hd : 0 < d) :
    0 ≤ f64.modulus x d ∧ f64.modulus x d < d ∧ ∃ k : ℤ, x - f64.modulus x d = d * k := by
  unfold f64.modulus
  obtain ⟨h1, h2⟩ := fmod_bounds x d hd
  obtain ⟨k1, e1⟩ := fmod_sub_int x d
  have z : (0.0 : ℝ) = 0 := by norm_num
  simp only [z, real_beq]
  split_ifs with hc hs
  · exfalso
    rcases hc with ⟨h, _⟩ | ⟨_, h⟩ <;> linarith
  · have hr : RFun.fmod x d < 0 := by
      rcases hc with ⟨h, _⟩ | ⟨_, h⟩
      · exact h
      · linarith
    refine ⟨by linarith, by linarith, k1 - 1, ?_⟩
    push_cast; linarith
  · have hr : 0 ≤ RFun.fmod x d := by
      by_contra h
      exact hc (Or.inl ⟨not_le.mp h, hd⟩)
    exact ⟨hr, h2, k1, e1⟩

/-- `x.modulus(A)` for `A > 0` is the floored residue, for every `x` -/
theorem modulus_eq_fres {A : ℝ} (hA : 0 < A) (x : ℝ) : f64.modulus x A = fres A x := by
  obtain ⟨h0, h1, k, e⟩ := modulus_canon x A hA
  exact (fres_unique hA h0 h1 k e).symm

/-- integer lattice: `fres (st * P) (st * z) = st * (z mod P)` -/
theorem fres_lattice {st : ℝ} (hst : 0 < st) (P : ℤ) (hP : 0 < P) (z : ℤ) :
    fres (st * P) (st * z) = st * ((z % P : ℤ) : ℝ) := by
  have hPr : (0 : ℝ) < P := by exact_mod_cast hP
  have h0 : (0 : ℤ) ≤ z % P := Int.emod_nonneg z (by omega)
  have h1 : z % P < P := Int.emod_lt_of_pos z hP
  have h0r : (0 : ℝ) ≤ ((z % P : ℤ) : ℝ) := by exact_mod_cast h0
  have h1r : ((z % P : ℤ) : ℝ) < P := by exact_mod_cast h1
  refine fres_unique (mul_pos hst hPr) (mul_nonneg hst.le h0r) (by nlinarith) (z / P) ?_
  have e : z = P * (z / P) + z % P := (Int.mul_ediv_add_emod z P).symm
  have er : (z : ℝ) = P * ((z / P : ℤ) : ℝ) + ((z % P : ℤ) : ℝ) := by exact_mod_cast e
  rw [er]; ring

/-! ### `InfinitePeriodic.next` over ℝ -/

/-- the state invariant of `InfinitePeriodic` that makes the output bound true -/
structure PInv (s : InfinitePeriodic ℝ) : Prop where
  amp_pos : 0 < s.f_amplitude
  step_nonneg : 0 ≤ s.f_step
  phase_nonneg : 0 ≤ s.f_phase
  phase_lt : s.f_phase < s.f_amplitude
  k_nonneg : 0 ≤ s.f_k

/-- un-wrapped position of the next sample -/
def pos (s : InfinitePeriodic ℝ) : ℝ := s.f_phase + s.f_k * s.f_step

theorem pos_nonneg {s : InfinitePeriodic ℝ} (h : PInv s) : 0 ≤ pos s :=
  add_nonneg h.phase_nonneg (mul_nonneg h.k_nonneg h.step_nonneg)

/-- one call of `next`: the output is the residue of the position; amplitude and step are
    unchanged; the invariant is preserved; the position advances by `step` modulo `amplitude`. -/
theorem periodic_next_spec (s : InfinitePeriodic ℝ) (h : PInv s) :
    (InfinitePeriodic.next s).1 = some (fres s.f_amplitude (pos s)) ∧
    (InfinitePeriodic.next s).2.f_amplitude = s.f_amplitude ∧
    (InfinitePeriodic.next s).2.f_step = s.f_step ∧
    PInv (InfinitePeriodic.next s).2 ∧
    ∃ m : ℤ, pos (InfinitePeriodic.next s).2 = pos s + s.f_step - s.f_amplitude * m := by
  have hpos := pos_nonneg h
  have hA := h.amp_pos
  by_cases hc : s.f_amplitude ≤ s.f_phase + s.f_k * s.f_step
  · have hf := fmod_eq_fres hA hpos
    obtain ⟨m, hm⟩ := fmod_sub_int (pos s) s.f_amplitude
    have e : InfinitePeriodic.next s = (some (RFun.fmod (pos s) s.f_amplitude),
        { s with f_phase := RFun.fmod (pos s) s.f_amplitude, f_k := (0.0 : ℝ) + (1.0 : ℝ) }) := by
      simp only [InfinitePeriodic.next, pos, if_pos hc]
    rw [e, hf]
    rw [hf] at hm
    refine ⟨rfl, rfl, rfl, ⟨hA, h.step_nonneg, fres_nonneg hA _, fres_lt hA _, ?_⟩, m, ?_⟩
    · show (0 : ℝ) ≤ (0.0 : ℝ) + (1.0 : ℝ)
      norm_num
    · show fres s.f_amplitude (pos s) + ((0.0 : ℝ) + (1.0 : ℝ)) * s.f_step = _
      norm_num
      linarith
  · have e : InfinitePeriodic.next s = (some (pos s), { s with f_k := s.f_k + (1.0 : ℝ) }) := by
      simp only [InfinitePeriodic.next, pos, if_neg hc]
    have hlt : pos s < s.f_amplitude := not_le.mp hc
    rw [e]
    refine ⟨by rw [fres_of_mem hA hpos hlt], rfl, rfl,
      ⟨hA, h.step_nonneg, h.phase_nonneg, h.phase_lt, ?_⟩, 0, ?_⟩
    · have := h.k_nonneg
      show (0 : ℝ) ≤ s.f_k + (1.0 : ℝ)
      norm_num; linarith
    · show s.f_phase + (s.f_k + (1.0 : ℝ)) * s.f_step = _
      simp only [pos]; norm_num; ring

/-- closed form of the `n`-th output from any state satisfying the invariant -/
theorem periodic_out_fres (n : ℕ) : ∀ (s : InfinitePeriodic ℝ), PInv s →
    out InfinitePeriodic.next s n = some (fres s.f_amplitude (pos s + n * s.f_step)) := by
  induction n with
  | zero => intro s h; simpa using (periodic_next_spec s h).1
  | succ n ih =>
    intro s h
    obtain ⟨_, hA, hs, hinv, m, hm⟩ := periodic_next_spec s h
    rw [out_succ, ih _ hinv, hA, hs, hm]
    congr 1
    have : pos s + s.f_step - s.f_amplitude * m + n * s.f_step
        = (pos s + ((n + 1 : ℕ) : ℝ) * s.f_step) - s.f_amplitude * m := by push_cast; ring
    rw [this, fres_sub_int_mul h.amp_pos]

theorem periodic_stateN_inv (s : InfinitePeriodic ℝ) (h : PInv s) (n : ℕ) :
    PInv (stateN InfinitePeriodic.next s n) :=
  stateN_inv InfinitePeriodic.next PInv (fun s hs => (periodic_next_spec s hs).2.2.2.1) s h n

/-- the constructor establishes the invariant -/
theorem periodic_new_inv (sampling_rate frequency amplitude phase : ℝ) (delay : Int)
    (hA : 0 < amplitude) (hf : 0 ≤ frequency / sampling_rate) :
    PInv (InfinitePeriodic.new sampling_rate frequency amplitude phase delay) := by
  unfold InfinitePeriodic.new
  refine ⟨hA, mul_nonneg hf hA.le, ?_, ?_, by norm_num⟩
  · show 0 ≤ f64.modulus _ amplitude
    rw [modulus_eq_fres hA]; exact fres_nonneg hA _
  · show f64.modulus _ amplitude < amplitude
    rw [modulus_eq_fres hA]; exact fres_lt hA _

/-- closed form for the constructed generator, as a floored residue -/
theorem periodic_new_out_fres (sr f A ph : ℝ) (delay : Int) (hA : 0 < A) (hf : 0 ≤ f / sr) (n : ℕ) :
    out InfinitePeriodic.next (InfinitePeriodic.new sr f A ph delay) n
      = some (fres A (ph + ((n : ℝ) - delay) * (f / sr * A))) := by
  have h := periodic_new_inv sr f A ph delay hA hf
  rw [periodic_out_fres n _ h]
  show some (fres A (f64.modulus (ph - (RFun.ofInt delay : ℝ) * (f / sr * A)) A
      + (0.0 : ℝ) * (f / sr * A) + n * (f / sr * A))) = _
  obtain ⟨_, _, k, e⟩ := modulus_canon (ph - (RFun.ofInt delay : ℝ) * (f / sr * A)) A hA
  congr 1
  have : f64.modulus (ph - (RFun.ofInt delay : ℝ) * (f / sr * A)) A
      + (0.0 : ℝ) * (f / sr * A) + n * (f / sr * A)
      = (ph + ((n : ℝ) - delay) * (f / sr * A)) - A * k := by
    rw [rfun_ofInt] at e ⊢
    norm_num
    linarith
  rw [this, fres_sub_int_mul hA]

/-! ### `InfiniteSinusoidal.next` over ℝ -/

/-- un-rebased angle of the next sample -/
def angle (s : InfiniteSinusoidal ℝ) : ℝ := s.f_phase + (s.f_i : ℝ) * s.f_step

theorem sinusoidal_next_spec (s : InfiniteSinusoidal ℝ) :
    (InfiniteSinusoidal.next s).1 = some (s.f_mean + s.f_amplitude * Real.sin (angle s)) ∧
    (InfiniteSinusoidal.next s).2.f_amplitude = s.f_amplitude ∧
    (InfiniteSinusoidal.next s).2.f_mean = s.f_mean ∧
    (InfiniteSinusoidal.next s).2.f_step = s.f_step ∧
    ∃ m : ℤ, angle (InfiniteSinusoidal.next s).2 = angle s + s.f_step - (2 * Real.pi) * m := by
  by_cases hc : s.f_i + 1 = 1000
  · obtain ⟨m, hm⟩ := fmod_sub_int (s.f_phase + (1000.0 : ℝ) * s.f_step) ((RFun.pi : ℝ) * (2.0 : ℝ))
    have e : InfiniteSinusoidal.next s = (some (s.f_mean + s.f_amplitude * RFun.sin (angle s)),
        { s with f_i := 0, f_phase := RFun.fmod (s.f_phase + (1000.0 : ℝ) * s.f_step) ((RFun.pi : ℝ) * (2.0 : ℝ)) }) := by
      simp only [InfiniteSinusoidal.next, angle, if_pos hc, rfun_ofInt]
    rw [e]
    refine ⟨rfl, rfl, rfl, rfl, m, ?_⟩
    have hi : (s.f_i : ℝ) = 999 := by
      have : (s.f_i : ℝ) + 1 = 1000 := by exact_mod_cast hc
      linarith
    simp only [angle, hi]
    rfun_norm
    norm_num at hm ⊢
    linarith
  · have e : InfiniteSinusoidal.next s = (some (s.f_mean + s.f_amplitude * RFun.sin (angle s)),
        { s with f_i := s.f_i + 1 }) := by
      simp only [InfiniteSinusoidal.next, angle, if_neg hc, rfun_ofInt]
    rw [e]
    refine ⟨rfl, rfl, rfl, rfl, 0, ?_⟩
    simp only [angle]
    push_cast
    ring

theorem sinusoidal_out_closed (n : ℕ) : ∀ (s : InfiniteSinusoidal ℝ),
    out InfiniteSinusoidal.next s n
      = some (s.f_mean + s.f_amplitude * Real.sin (angle s + n * s.f_step)) := by
  induction n with
  | zero => intro s; simpa using (sinusoidal_next_spec s).1
  | succ n ih =>
    intro s
    obtain ⟨_, hA, hM, hs, m, hm⟩ := sinusoidal_next_spec s
    rw [out_succ, ih, hA, hM, hs, hm]
    congr 3
    have : angle s + s.f_step - 2 * Real.pi * m + n * s.f_step
        = (angle s + ((n + 1 : ℕ) : ℝ) * s.f_step) - m * (2 * Real.pi) := by push_cast; ring
    rw [this, Real.sin_sub_int_mul_two_pi]

end Statrs.Lemmas.Generators
