/-
  Statrs.Lemmas.IntBisect — the trait-default `DiscreteCDF::inverse_cdf` (src/distribution/mod.rs:210)
  and `internal::integral_bisection_search` (src/distribution/internal.rs:12), over ℝ.

  * `search_spec` is a theorem about the GENERATED `D.internal.integral_bisection_search`
    (it is generic in the function `f`, so no mirror is needed).
  * `dloop`/`dinv` mirror the per-family instantiations `X.inverse_cdf.loop1` / `X.inverse_cdf`
    with `X.cdf d` replaced by `f`; `dinv_spec` is the "smallest k with cdf k ≥ p" theorem.
  * Only monotonicity of `f` is assumed (`Adm`): the bisection returns `ub` only when `lb + 1 = ub`
    (the former early exit `f(ub) == z` is gone), so under the invariant `f lb < z ≤ f ub` the result
    is the smallest `k` with `f k ≥ z` on plateaus too.
-/
import Statrs.Real.Simp
import Statrs.Gen.D_internal
import Mathlib.Tactic
set_option linter.unusedVariables false
namespace Statrs.Lemmas.IntBisect
open Statrs Statrs.Gen

/-- truncating midpoint: within one half of the exact midpoint -/
theorem tdiv_two_bounds (s : Int) : s - 1 ≤ 2 * Int.tdiv s 2 ∧ 2 * Int.tdiv s 2 ≤ s + 1 := by
  rcases le_or_gt 0 s with h | h
  · rw [Int.tdiv_eq_ediv_of_nonneg h]; omega
  · have : Int.tdiv s 2 = -((-s) / 2) := by
      rw [← Int.tdiv_eq_ediv_of_nonneg (by omega), Int.neg_tdiv, neg_neg]
    rw [this]; omega

/-- hypothesis on the function being inverted (`B` is the lower end of the argument type's range,
    e.g. 0 for `u64`): non-decreasing from `B` on.  Plateaus are allowed at every level, also
    exactly at the searched level `z` (since the early exit `f(ub) == z` was removed from
    `integral_bisection_search`, no "no flat piece at level `z`" premise is needed any more). -/
structure Adm (f : Int → ℝ) (B : Int) : Prop where
  mono : ∀ a b, B ≤ a → a ≤ b → f a ≤ f b

variable {f : Int → ℝ} {z : ℝ} {B : Int}

/-- one unfolding of the generated search loop under its invariant `f lb < z ≤ f ub`: it returns
    `ub` only when `lb + 1 = ub`, otherwise it halves the bracket -/
theorem search_step (h : Adm f B) (fuel : Nat) (lb ub : Int) (hlt : lb < ub) (hB : B ≤ lb)
    (hl : f lb < z) (hu : z ≤ f ub) :
    D.internal.integral_bisection_search.loop1 (fuel + 1) f 2 z ub lb =
      if lb + 1 = ub then LoopR.ret (some ub)
      else if z ≤ f (Int.tdiv (lb + ub) 2)
        then D.internal.integral_bisection_search.loop1 fuel f 2 z (Int.tdiv (lb + ub) 2) lb
        else D.internal.integral_bisection_search.loop1 fuel f 2 z ub (Int.tdiv (lb + ub) 2) := by
  rw [D.internal.integral_bisection_search.loop1]
  have hs : sdiv (lb + ub) 2 = Int.tdiv (lb + ub) 2 := by unfold sdiv; rw [if_neg (by norm_num)]
  obtain ⟨b1, b2⟩ := tdiv_two_bounds (lb + ub)
  have hm1 : lb ≤ Int.tdiv (lb + ub) 2 := by omega
  have hm2 : Int.tdiv (lb + ub) 2 ≤ ub := by omega
  simp only [hs, real_beq]
  have c1 : ¬ ¬ (f lb ≤ f (Int.tdiv (lb + ub) 2) ∧ f (Int.tdiv (lb + ub) 2) ≤ f ub) :=
    not_not.mpr ⟨h.mono _ _ hB hm1, h.mono _ _ (hB.trans hm1) hm2⟩
  rw [if_neg c1, if_neg hl.ne]
  by_cases he : lb + 1 = ub
  · rw [if_pos he, if_pos he]
  · rw [if_neg he, if_neg he]
    by_cases hz : z ≤ f (Int.tdiv (lb + ub) 2)
    · simp only [if_pos hz]
    · simp only [if_neg hz]

/-- The generated bisection loop with `fuel > n` iterations available, started on a bracket
    `f lb < z ≤ f ub` of width `≤ 2^n`, returns the `k ∈ (lb, ub]` with `f (k-1) < z ≤ f k` — for a
    non-decreasing `f` the SMALLEST `k` with `z ≤ f k`, plateaus at level `z` included. -/
theorem search_loop_spec (h : Adm f B) (n : Nat) : ∀ (fuel : Nat) (lb ub : Int), n < fuel → lb < ub →
    ub - lb ≤ 2 ^ n → B ≤ lb → f lb < z → z ≤ f ub →
    ∃ k, D.internal.integral_bisection_search.loop1 fuel f 2 z ub lb = LoopR.ret (some k) ∧
      lb < k ∧ k ≤ ub ∧ z ≤ f k ∧ f (k - 1) < z := by
  induction n with
  | zero =>
    intro fuel lb ub hf hlt hw hB hl hu
    obtain ⟨g, rfl⟩ : ∃ g, fuel = g + 1 := ⟨fuel - 1, by omega⟩
    have he : lb + 1 = ub := by norm_num at hw; omega
    refine ⟨ub, by rw [search_step h g lb ub hlt hB hl hu, if_pos he], hlt, le_refl _, hu, ?_⟩
    have : ub - 1 = lb := by omega
    rw [this]; exact hl
  | succ n ih =>
    intro fuel lb ub hf hlt hw hB hl hu
    obtain ⟨g, rfl⟩ : ∃ g, fuel = g + 1 := ⟨fuel - 1, by omega⟩
    rw [search_step h g lb ub hlt hB hl hu]
    by_cases he : lb + 1 = ub
    · refine ⟨ub, by rw [if_pos he], hlt, le_refl _, hu, ?_⟩
      have : ub - 1 = lb := by omega
      rw [this]; exact hl
    · rw [if_neg he]
      obtain ⟨b1, b2⟩ := tdiv_two_bounds (lb + ub)
      have hp : (2:Int) ^ (n + 1) = 2 * 2 ^ n := by rw [pow_succ]; ring
      by_cases hz : z ≤ f (Int.tdiv (lb + ub) 2)
      · rw [if_pos hz]
        obtain ⟨k, e, k1, k2, k3, k4⟩ := ih g lb (Int.tdiv (lb + ub) 2) (by omega) (by omega) (by omega) hB hl hz
        exact ⟨k, e, k1, by omega, k3, k4⟩
      · rw [if_neg hz]
        obtain ⟨k, e, k1, k2, k3, k4⟩ := ih g (Int.tdiv (lb + ub) 2) ub (by omega) (by omega) (by omega)
          (by omega) (not_le.mp hz) hu
        exact ⟨k, e, by omega, k2, k3, k4⟩

/-- `integral_bisection_search f z lb ub` (generated) returns the smallest `k` in `(lb, ub]` with
    `z ≤ f k`, provided `f lb < z ≤ f ub`, `f` is non-decreasing (plateaus allowed, also at level `z`)
    and the bracket is shorter than `2^1000`. -/
theorem search_spec (h : Adm f B) (lb ub : Int) (hB : B ≤ lb) (hlt : lb < ub) (hl : f lb < z) (hu : z ≤ f ub)
    (hw : ub - lb ≤ 2 ^ 1000) :
    ∃ k, D.internal.integral_bisection_search (α := ℝ) f z lb ub = some k ∧ lb < k ∧ k ≤ ub ∧ z ≤ f k ∧
      ∀ j, B ≤ j → j < k → f j < z := by
  obtain ⟨k, e, k1, k2, k3, k4⟩ := search_loop_spec h 1000 loopFuel lb ub (by unfold loopFuel; norm_num)
    hlt hw hB hl hu
  refine ⟨k, ?_, k1, k2, k3, fun j hj hjk => lt_of_le_of_lt (h.mono j (k - 1) hj (by omega)) k4⟩
  unfold D.internal.integral_bisection_search
  have c : ¬ ¬ (f lb ≤ z ∧ z ≤ f ub) := not_not.mpr ⟨hl.le, hu⟩
  rw [if_neg c]
  dsimp only
  rw [show ((1:Int) + 1) = 2 by norm_num, e]

/-! ### the doubling loop and the whole default method, abstractly -/

/-- `while cdf(ub) < p { ub *= 2 }` -/
noncomputable def dloop (f : Int → ℝ) : Nat → ℝ → Int → Int → LoopR Int Int
  | 0, _, _, _ => LoopR.hang
  | fuel + 1, p, two, ub => if f ub < p then dloop f fuel p two (ub * two) else LoopR.done ub

/-- `DiscreteCDF::inverse_cdf` with `self.cdf = f`, `self.min() = mn`, `self.max() = mx` -/
noncomputable def dinv (f : Int → ℝ) (mn mx : Int) (p : ℝ) : Int :=
  if p ≤ f mn then mn
  else if p = 1 then mx
  else if ¬ (0 ≤ p ∧ p ≤ 1) then panicV
  else
    match dloop f loopFuel p 2 2 with
    | LoopR.ret v => v
    | LoopR.hang => panicV
    | LoopR.done ub => unwrapO (D.internal.integral_bisection_search (α := ℝ) f p mn ub)

theorem dloop_spec (h : Adm f B) (K : Int) (hKB : B ≤ K) (hK : z ≤ f K) (n : Nat) : ∀ (fuel : Nat) (ub : Int), n < fuel →
    0 < ub → B ≤ ub → K ≤ ub * 2 ^ n →
    ∃ r, dloop f fuel z 2 ub = LoopR.done r ∧ z ≤ f r ∧ ub ≤ r ∧ r ≤ ub * 2 ^ n := by
  induction n with
  | zero =>
    intro fuel ub hf hpos hB hKu
    obtain ⟨g, rfl⟩ : ∃ g, fuel = g + 1 := ⟨fuel - 1, by omega⟩
    have : z ≤ f ub := hK.trans (h.mono K ub hKB (by simpa using hKu))
    exact ⟨ub, by rw [dloop, if_neg (not_lt.mpr this)], this, le_refl _, by simp⟩
  | succ n ih =>
    intro fuel ub hf hpos hB hKu
    obtain ⟨g, rfl⟩ : ∃ g, fuel = g + 1 := ⟨fuel - 1, by omega⟩
    by_cases hb : f ub < z
    · obtain ⟨r, e, r1, r2, r3⟩ := ih g (ub * 2) (by omega) (by omega) (by omega)
        (by rw [pow_succ] at hKu; linarith)
      refine ⟨r, by rw [dloop, if_pos hb, e], r1, by omega, ?_⟩
      rw [pow_succ]; linarith
    · refine ⟨ub, by rw [dloop, if_neg hb], not_lt.mp hb, le_refl _, ?_⟩
      have : (1:Int) ≤ 2 ^ (n + 1) := one_le_pow₀ (by norm_num)
      nlinarith

theorem dinv_spec_full {p : ℝ} (h : Adm f B) (mn mx K : Int) (hB2 : B ≤ 2) (hBmn : B ≤ mn) (hmn : -2 ^ 64 ≤ mn)
    (hlow : ∀ j, B ≤ j → j < mn → f j < p) (hKB : B ≤ K) (hK : p ≤ f K) (hK2 : K ≤ 2 ^ 64)
    (hp0 : 0 < p) (hp1 : p < 1) :
    p ≤ f (dinv f mn mx p) ∧ (∀ j, B ≤ j → j < dinv f mn mx p → f j < p) ∧ mn ≤ dinv f mn mx p := by
  unfold dinv
  by_cases h0 : p ≤ f mn
  · rw [if_pos h0]; exact ⟨h0, hlow, le_rfl⟩
  · have c : ¬ ¬ (0 ≤ p ∧ p ≤ 1) := not_not.mpr ⟨hp0.le, hp1.le⟩
    rw [if_neg h0, if_neg hp1.ne, if_neg c]
    obtain ⟨r, e, r1, r2, r3⟩ := dloop_spec h K hKB hK 64 loopFuel 2 (by unfold loopFuel; norm_num)
      (by norm_num) hB2 (by linarith)
    rw [e]
    dsimp only
    have hlt : mn < r := by
      by_contra hge
      have := h.mono r mn (by omega) (by omega)
      linarith
    have hbig : (3:Int) * 2 ^ 64 ≤ 2 ^ 1000 :=
      calc (3:Int) * 2 ^ 64 ≤ 2 ^ 66 := by norm_num
        _ ≤ 2 ^ 1000 := pow_le_pow_right₀ (by norm_num) (by norm_num)
    have aux : ∀ P W : Int, r ≤ 2 * P → -P ≤ mn → 3 * P ≤ W → r - mn ≤ W := fun P W a b c => by omega
    obtain ⟨k, ek, k1, k2, k3, k4⟩ := search_spec h mn r hBmn hlt (not_le.mp h0) r1
      (aux _ _ r3 hmn hbig)
    rw [ek]
    exact ⟨k3, k4, k1.le⟩

/-- The default discrete `inverse_cdf` returns the smallest `k` (in the argument range `B ≤ k`) with
    `p ≤ f k`, for `0 < p < 1`, provided `f` is non-decreasing (plateaus included), nothing below `mn`
    reaches `p`, some `K ≤ 2^64` reaches `p` (the quantile is representable), and `mn ≥ -2^64`. -/
theorem dinv_spec {p : ℝ} (h : Adm f B) (mn mx K : Int) (hB2 : B ≤ 2) (hBmn : B ≤ mn) (hmn : -2 ^ 64 ≤ mn)
    (hlow : ∀ j, B ≤ j → j < mn → f j < p) (hKB : B ≤ K) (hK : p ≤ f K) (hK2 : K ≤ 2 ^ 64)
    (hp0 : 0 < p) (hp1 : p < 1) :
    p ≤ f (dinv f mn mx p) ∧ ∀ j, B ≤ j → j < dinv f mn mx p → f j < p :=
  let r := dinv_spec_full h mn mx K hB2 hBmn hmn hlow hKB hK hK2 hp0 hp1
  ⟨r.1, r.2.1⟩

/-- …and the result is at least `mn` -/
theorem dinv_ge {p : ℝ} (h : Adm f B) (mn mx K : Int) (hB2 : B ≤ 2) (hBmn : B ≤ mn) (hmn : -2 ^ 64 ≤ mn)
    (hlow : ∀ j, B ≤ j → j < mn → f j < p) (hKB : B ≤ K) (hK : p ≤ f K) (hK2 : K ≤ 2 ^ 64)
    (hp0 : 0 < p) (hp1 : p < 1) : mn ≤ dinv f mn mx p :=
  (dinv_spec_full h mn mx K hB2 hBmn hmn hlow hKB hK hK2 hp0 hp1).2.2

end Statrs.Lemmas.IntBisect
