/-
  Statrs.Lemmas.IntBisectMono — the trait-default `DiscreteCDF::inverse_cdf`
  (src/distribution/mod.rs:210) and `internal::integral_bisection_search`
  (src/distribution/internal.rs:12) over ℝ for a function that is ONLY assumed non-decreasing
  (plateaus allowed, including a plateau exactly at the searched level), with the loop fuel as an
  explicit parameter.

  * `search_loop_quantile` / `search_quantile` — theorems about the GENERATED
    `D.internal.integral_bisection_search(.loop1)`: the result `k` has `f (k-1) < z ≤ f k`, i.e. it is
    the smallest `k` with `z ≤ f k`.  (Before the early exit `f(ub) == z` was removed from the Rust
    source the conclusion had to allow "or `f k = z` exactly", a later point of a plateau at level `z`.)
  * `dloop_reach` — the doubling loop (mirror `Statrs.Lemmas.IntBisect.dloop`) with the extra
    information that the bound it returns is `2` or at most `2K − 2`.
-/
import Statrs.Real.Simp
import Statrs.Lemmas.IntBisect
import Mathlib.Tactic
set_option linter.unusedVariables false
namespace Statrs.Lemmas.IntBisectMono
open Statrs Statrs.Gen Statrs.Lemmas.IntBisect

/-- `f` is non-decreasing on the arguments `≥ B` (`B` = lower end of the argument type's range) -/
def MonoFrom (f : Int → ℝ) (B : Int) : Prop := ∀ a b, B ≤ a → a ≤ b → f a ≤ f b

variable {f : Int → ℝ} {z : ℝ} {B : Int}

theorem MonoFrom.adm (h : MonoFrom f B) : Adm f B := ⟨h⟩

/-- one unfolding of the generated search loop under its invariant (monotonicity only): `ub` is
    returned only when `lb + 1 = ub` -/
theorem search_step_mono (h : MonoFrom f B) (fuel : Nat) (lb ub : Int) (hlt : lb < ub) (hB : B ≤ lb)
    (hl : f lb < z) (hu : z ≤ f ub) :
    D.internal.integral_bisection_search.loop1 (fuel + 1) f 2 z ub lb =
      if lb + 1 = ub then LoopR.ret (some ub)
      else if z ≤ f (Int.tdiv (lb + ub) 2)
        then D.internal.integral_bisection_search.loop1 fuel f 2 z (Int.tdiv (lb + ub) 2) lb
        else D.internal.integral_bisection_search.loop1 fuel f 2 z ub (Int.tdiv (lb + ub) 2) :=
  search_step h.adm fuel lb ub hlt hB hl hu

/-- The generated bisection loop with `fuel > n` iterations available, started on a bracket
    `f lb < z ≤ f ub` of width `≤ 2^n`, returns the `k ∈ (lb, ub]` with `f (k-1) < z ≤ f k`: the
    smallest `k` with `z ≤ f k`, also when `f` has a plateau at level `z`. -/
theorem search_loop_quantile (h : MonoFrom f B) (n : Nat) : ∀ (fuel : Nat) (lb ub : Int), n < fuel → lb < ub →
    ub - lb ≤ 2 ^ n → B ≤ lb → f lb < z → z ≤ f ub →
    ∃ k, D.internal.integral_bisection_search.loop1 fuel f 2 z ub lb = LoopR.ret (some k) ∧
      lb < k ∧ k ≤ ub ∧ z ≤ f k ∧ f (k - 1) < z :=
  search_loop_spec h.adm n

/-- `integral_bisection_search f z lb ub` (generated; its loop runs with `loopFuel` iterations) for a
    non-decreasing `f` with `f lb < z ≤ f ub` and a bracket of width `≤ 2^n`, `n < loopFuel`:
    the result is the smallest `k ∈ (lb, ub]` with `z ≤ f k`. -/
theorem search_quantile (h : MonoFrom f B) (n : Nat) (hn : n < loopFuel) (lb ub : Int) (hB : B ≤ lb) (hlt : lb < ub)
    (hl : f lb < z) (hu : z ≤ f ub) (hw : ub - lb ≤ 2 ^ n) :
    ∃ k, D.internal.integral_bisection_search (α := ℝ) f z lb ub = some k ∧ lb < k ∧ k ≤ ub ∧ z ≤ f k ∧
      f (k - 1) < z ∧ ∀ j, B ≤ j → j < k → f j < z := by
  obtain ⟨k, e, k1, k2, k3, k4⟩ := search_loop_quantile h n loopFuel lb ub hn hlt hw hB hl hu
  refine ⟨k, ?_, k1, k2, k3, k4, fun j hj hjk => lt_of_le_of_lt (h j (k - 1) hj (by omega)) k4⟩
  unfold D.internal.integral_bisection_search
  have c : ¬ ¬ (f lb ≤ z ∧ z ≤ f ub) := not_not.mpr ⟨hl.le, hu⟩
  rw [if_neg c]
  dsimp only
  rw [show ((1:Int) + 1) = 2 by norm_num, e]

/-- The doubling loop `while cdf(ub) < p { ub *= 2 }` with `fuel > n` iterations available, when some
    `K ≤ ub·2^n` has `z ≤ f K`: it stops at an `r` with `z ≤ f r`, `ub ≤ r ≤ ub·2^n`, and `r` is the
    starting value or at most `2K − 2` (so no value larger than `2K − 2` is ever formed). -/
theorem dloop_reach (h : MonoFrom f B) (K : Int) (hKB : B ≤ K) (hK : z ≤ f K) (n : Nat) :
    ∀ (fuel : Nat) (ub : Int), n < fuel → 0 < ub → B ≤ ub → K ≤ ub * 2 ^ n →
    ∃ r, dloop f fuel z 2 ub = LoopR.done r ∧ z ≤ f r ∧ ub ≤ r ∧ r ≤ ub * 2 ^ n ∧ (r = ub ∨ r ≤ 2 * K - 2) := by
  induction n with
  | zero =>
    intro fuel ub hf hpos hB hKu
    obtain ⟨g, rfl⟩ : ∃ g, fuel = g + 1 := ⟨fuel - 1, by omega⟩
    have : z ≤ f ub := hK.trans (h K ub hKB (by simpa using hKu))
    exact ⟨ub, by rw [dloop, if_neg (not_lt.mpr this)], this, le_refl _, by simp, Or.inl rfl⟩
  | succ n ih =>
    intro fuel ub hf hpos hB hKu
    obtain ⟨g, rfl⟩ : ∃ g, fuel = g + 1 := ⟨fuel - 1, by omega⟩
    by_cases hb : f ub < z
    · obtain ⟨r, e, r1, r2, r3, r4⟩ := ih g (ub * 2) (by omega) (by omega) (by omega)
        (by rw [pow_succ] at hKu; linarith)
      have hubK : ub < K := by
        by_contra hge
        have := h K ub hKB (not_lt.mp hge)
        linarith
      refine ⟨r, by rw [dloop, if_pos hb, e], r1, by omega, ?_, Or.inr ?_⟩
      · rw [pow_succ]; linarith
      · rcases r4 with r4 | r4 <;> omega
    · refine ⟨ub, by rw [dloop, if_neg hb], not_lt.mp hb, le_refl _, ?_, Or.inl rfl⟩
      have : (1:Int) ≤ 2 ^ (n + 1) := one_le_pow₀ (by norm_num)
      nlinarith

/-- without enough fuel the doubling loop hangs: if `f` stays below `z` on `ub, 2ub, …` the mirror
    returns `LoopR.hang` (the model's stand-in for non-termination) -/
theorem dloop_hang (hlow : ∀ k, f k < z) : ∀ (fuel : Nat) (ub : Int), dloop f fuel z 2 ub = LoopR.hang := by
  intro fuel
  induction fuel with
  | zero => intro ub; rfl
  | succ g ih => intro ub; rw [dloop, if_pos (hlow ub)]; exact ih _

end Statrs.Lemmas.IntBisectMono
