/-
  Helper lemmas for C12 (integer `+`/`*` overflow, Props/C12/IntegerOverflowA|B.lean):
  sums of lists of machine integers (`Iterator::sum::<u64>()`, integer folds) and products of bounded
  factors.  Pure `Int` facts.
-/
import Mathlib.Tactic
import Statrs.Lemmas.IntegerPaths
namespace Statrs.Lemmas.IntegerOverflow
open Statrs Statrs.Lemmas.IntegerPaths

/-- `iter().sum()` / `fold(0, +)` is the list sum -/
theorem foldl_add_eq_sum (l : List Int) : ∀ a : Int, List.foldl (· + ·) a l = a + l.sum := by
  induction l with
  | nil => intro a; simp
  | cons x t ih => intro a; rw [List.foldl_cons, ih, List.sum_cons]; ring

/-- the accumulator after `k` additions is the `k`-th prefix sum; for non-negative summands the
    prefix sums are non-negative and bounded by the total -/
theorem list_sum_prefix_le (l : List Int) (h0 : ∀ x ∈ l, 0 ≤ x) (k : Nat) :
    0 ≤ (l.take k).sum ∧ (l.take k).sum ≤ l.sum := by
  have h1 : 0 ≤ (l.take k).sum := List.sum_nonneg (fun x hx => h0 x (List.mem_of_mem_take hx))
  have h2 : 0 ≤ (l.drop k).sum := List.sum_nonneg (fun x hx => h0 x (List.mem_of_mem_drop hx))
  have := List.sum_take_add_sum_drop l k
  exact ⟨h1, by omega⟩

/-- NO OVERFLOW of an unsigned sum: no intermediate accumulator leaves `u64` when the total fits -/
theorem list_sum_no_overflow (l : List Int) (h0 : ∀ x ∈ l, 0 ≤ x) (hs : l.sum ≤ u64Max) (k : Nat) :
    InU64 (l.take k).sum := by
  obtain ⟨a, b⟩ := list_sum_prefix_le l h0 k
  exact ⟨a, by omega⟩

/-- OVERFLOW SET of an unsigned sum: some accumulator leaves `u64` iff the exact total exceeds `u64::MAX` -/
theorem list_sum_overflow_iff (l : List Int) (h0 : ∀ x ∈ l, 0 ≤ x) :
    (∃ k, ¬ InU64 (l.take k).sum) ↔ u64Max < l.sum := by
  constructor
  · rintro ⟨k, hk⟩
    by_contra hle
    exact hk (list_sum_no_overflow l h0 (by omega) k)
  · intro h
    refine ⟨l.length, ?_⟩
    rw [List.take_length]
    simp only [InU64]; omega

/-- a product of two bounded non-negative factors is in `u64` when the product of the bounds is -/
theorem mul_in_u64_of_le {a b A B : Int} (ha : 0 ≤ a) (hA : a ≤ A) (hb : 0 ≤ b) (hB : b ≤ B)
    (hAB : A * B ≤ u64Max) : InU64 (a * b) := by
  refine ⟨mul_nonneg ha hb, le_trans (mul_le_mul hA hB hb (le_trans ha hA)) hAB⟩

/-- for non-negative factors the product leaves `u64` iff it exceeds `u64::MAX` -/
theorem mul_overflow_iff_u64 {a b : Int} (ha : 0 ≤ a) (hb : 0 ≤ b) : ¬ InU64 (a * b) ↔ u64Max < a * b := by
  have := mul_nonneg ha hb
  simp only [InU64]; omega

/-- non-vacuity -/
example : InU64 (([1, 2, 3] : List Int).take 2).sum := by decide

end Statrs.Lemmas.IntegerOverflow
