/-
  Helper lemmas for C12 (integer paths): checked unsigned subtraction `usub`, unsigned division
  `udiv`, membership in `rangeList`, and the machine-integer ranges.
-/
import Mathlib.Tactic
import Statrs.Basic
open Statrs
namespace Statrs.Lemmas.IntegerPaths

/-- `a - b` on `u64` does not panic when `b ≤ a` -/
theorem usub_of_le {a b : Int} (h : b ≤ a) : usub a b = a - b := by
  unfold usub; rw [if_neg (by omega)]

/-- `a - b` on `u64` panics (sentinel) when `a < b` -/
theorem usub_of_lt {a b : Int} (h : a < b) : usub a b = panicInt := by
  unfold usub; rw [if_pos h]

/-- the sentinel is reached exactly on underflow -/
theorem usub_eq_panic_iff {a b : Int} : usub a b = panicInt ↔ a < b := by
  constructor
  · intro h
    by_contra hc
    rw [usub_of_le (by omega)] at h
    simp only [panicInt] at h
    norm_num at h
    omega
  · exact usub_of_lt

theorem udiv_of_ne {a b : Int} (h : b ≠ 0) : udiv a b = a / b := by
  unfold udiv; rw [if_neg h]

theorem mem_rangeList {lo hi i : Int} (h : i ∈ rangeList lo hi) : lo ≤ i ∧ i < hi := by
  unfold rangeList at h
  simp only [List.mem_map, List.mem_range] at h
  obtain ⟨k, hk, rfl⟩ := h
  omega

/-- a value is a legal `u64` -/
def InU64 (x : Int) : Prop := 0 ≤ x ∧ x ≤ u64Max
/-- a value is a legal `i64` -/
def InI64 (x : Int) : Prop := i64Min ≤ x ∧ x ≤ i64Max
/-- a value is a legal `i32` -/
def InI32 (x : Int) : Prop := i32Min ≤ x ∧ x ≤ i32Max

instance (x : Int) : Decidable (InU64 x) := by unfold InU64; infer_instance
instance (x : Int) : Decidable (InI64 x) := by unfold InI64; infer_instance
instance (x : Int) : Decidable (InI32 x) := by unfold InI32; infer_instance

end Statrs.Lemmas.IntegerPaths
