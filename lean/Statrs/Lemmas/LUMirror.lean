/-
  Statrs.Draft.Lemmas.LUMirror — function-indexed mirror over ℝ of the hand model of nalgebra's
  `LU::new(m).determinant()` (`LA.icamax`, `LA.swapRows`, `LA.gaussStep`, `LA.luStep`, `LA.luDeterminant`,
  Statrs/Model/Multivariate.lean), with proved equations to the list model on `ofFn n A`, and the
  specification of the pivot search `icamax` (first index of maximal absolute value).
-/
import Statrs.Lemmas.CholeskySolve
set_option linter.unusedSectionVars false
set_option linter.unusedVariables false
namespace Statrs.Lemmas.Cholesky
open Statrs Statrs.Model Statrs.Lemmas.Multivariate Finset

/-! ### `icamax` -/

/-- full(ℝ): invariant of the running-maximum fold of `LA.icamax`. -/
theorem icamax_fold_spec (vs : List ℝ) : ∀ (p : List ℝ) (mx : ℝ) (k : ℕ), k < p.length →
    mx = |p.getD k 0| → (∀ r, r < p.length → |p.getD r 0| ≤ mx) →
    (vs.foldl (fun (st : ℝ × ℕ × ℕ) e =>
        let val := RFun.abs e
        if st.1 < val then (val, st.2.2, st.2.2 + 1) else (st.1, st.2.1, st.2.2 + 1))
      (mx, k, p.length)).2.1 < (p ++ vs).length ∧
    ∀ r, r < (p ++ vs).length → |(p ++ vs).getD r 0| ≤
      |(p ++ vs).getD (vs.foldl (fun (st : ℝ × ℕ × ℕ) e =>
        let val := RFun.abs e
        if st.1 < val then (val, st.2.2, st.2.2 + 1) else (st.1, st.2.1, st.2.2 + 1))
      (mx, k, p.length)).2.1 0| := by
  induction vs with
  | nil =>
    intro p mx k hk hmx hall
    simp only [List.foldl_nil, List.append_nil]
    exact ⟨hk, fun r hr => by rw [← hmx]; exact hall r hr⟩
  | cons e t ih =>
    intro p mx k hk hmx hall
    rw [List.foldl_cons]
    have happ : p ++ e :: t = (p ++ [e]) ++ t := by simp
    have hlen : (p ++ [e]).length = p.length + 1 := by simp
    have hget_old : ∀ r, r < p.length → (p ++ [e]).getD r 0 = p.getD r 0 := by
      intro r hr
      simp [List.getD_eq_getElem?_getD, List.getElem?_append_left hr]
    have hget_new : (p ++ [e]).getD p.length 0 = e := by
      simp [List.getD_eq_getElem?_getD]
    simp only [rfun_abs]
    by_cases hlt : mx < |e|
    · rw [if_pos hlt, happ, ← hlen]
      apply ih (p ++ [e]) |e| p.length (by omega) (by rw [hget_new])
      intro r hr
      rcases Nat.lt_succ_iff_lt_or_eq.mp (by omega : r < p.length + 1) with h | h
      · rw [hget_old r h]; exact (hall r h).trans hlt.le
      · rw [h, hget_new]
    · rw [if_neg hlt, happ, ← hlen]
      apply ih (p ++ [e]) mx k (by omega) (by rw [hget_old k hk]; exact hmx)
      intro r hr
      rcases Nat.lt_succ_iff_lt_or_eq.mp (by omega : r < p.length + 1) with h | h
      · rw [hget_old r h]; exact hall r h
      · rw [h, hget_new]; exact not_lt.mp hlt

/-- full(ℝ): `icamax` returns a valid index of an entry of maximal absolute value -/
theorem icamax_spec (v : List ℝ) (hv : v ≠ []) :
    LA.icamax v < v.length ∧ ∀ r, r < v.length → |v.getD r 0| ≤ |v.getD (LA.icamax v) 0| := by
  cases v with
  | nil => exact absurd rfl hv
  | cons v0 vs =>
    have := icamax_fold_spec vs [v0] |v0| 0 (by simp) (by simp) (by
      intro r hr
      have : r = 0 := by simpa using hr
      subst this; simp)
    simpa [LA.icamax] using this

/-! ### the mirror -/

/-- the pivot row chosen at step `i` -/
noncomputable def pivIdx (n : ℕ) (A : ℕ → ℕ → ℝ) (i : ℕ) : ℕ :=
  LA.icamax (((List.range n).drop i).map (fun r => A r i)) + i

/-- full(ℝ): the pivot row of step `i` lies in `[i, n)` and holds an entry of maximal absolute value of column `i` below the diagonal. -/
theorem pivIdx_spec (n : ℕ) (A : ℕ → ℕ → ℝ) (i : ℕ) (hi : i < n) :
    i ≤ pivIdx n A i ∧ pivIdx n A i < n ∧ ∀ r, i ≤ r → r < n → |A r i| ≤ |A (pivIdx n A i) i| := by
  have hlen : (((List.range n).drop i).map (fun r => A r i)).length = n - i := by simp
  have hne : ((List.range n).drop i).map (fun r => A r i) ≠ [] := by
    intro h; rw [h] at hlen; simp at hlen; omega
  have hget : ∀ j, j < n - i → (((List.range n).drop i).map (fun r => A r i)).getD j 0 = A (i + j) i := by
    intro j hj
    simp [List.getD_eq_getElem?_getD, List.getElem?_drop, List.getElem?_range (by omega : i + j < n)]
  obtain ⟨h1, h2⟩ := icamax_spec _ hne
  rw [hlen] at h1 h2
  refine ⟨by unfold pivIdx; omega, by unfold pivIdx; omega, ?_⟩
  intro r hir hrn
  have := h2 (r - i) (by omega)
  rw [hget _ (by omega), hget _ h1] at this
  have e1 : i + (r - i) = r := by omega
  rw [e1] at this
  unfold pivIdx
  rwa [add_comm] at this

/-- mirror of `LA.swapRows` -/
def swapF (A : ℕ → ℕ → ℝ) (i piv : ℕ) : ℕ → ℕ → ℝ :=
  fun r => if r = piv then A i else if r = i then A piv else A r

/-- mirror of `LA.gaussStep` -/
noncomputable def gaussF (A : ℕ → ℕ → ℝ) (diag : ℝ) (i : ℕ) : ℕ → ℕ → ℝ :=
  fun r k =>
    if r ≤ i then A r k
    else if k < i then A r k
    else if k = i then A r i * (1 / diag)
    else A r k - A i k * (A r i * (1 / diag))

/-- mirror of `LA.luStep` -/
noncomputable def luStepF (n : ℕ) (st : (ℕ → ℕ → ℝ) × ℕ) (i : ℕ) : (ℕ → ℕ → ℝ) × ℕ :=
  if st.1 (pivIdx n st.1 i) i = 0 then st
  else if pivIdx n st.1 i ≠ i then
    (gaussF (swapF st.1 i (pivIdx n st.1 i)) (st.1 (pivIdx n st.1 i) i) i, st.2 + 1)
  else (gaussF st.1 (st.1 (pivIdx n st.1 i) i) i, st.2)

/-- full(ℝ): `LA.swapRows` on `ofFn n A` is `ofFn n (swapF A i piv)`. -/
theorem swapRows_ofFn (n : ℕ) (A : ℕ → ℕ → ℝ) (i piv : ℕ) (hi : i < n) (hp : piv < n) :
    LA.swapRows (ofFn n A) i piv = ofFn n (swapF A i piv) := by
  unfold LA.swapRows
  have hgi : (ofFn n A).getD i [] = (List.range n).map (fun j => A i j) := by
    simp [ofFn, hi]
  have hgp : (ofFn n A).getD piv [] = (List.range n).map (fun j => A piv j) := by
    simp [ofFn, hp]
  apply List.ext_getElem
  · simp [ofFn_length]
  · intro r h1 h2
    rw [List.getElem_set, List.getElem_set, getElem_ofFn, getElem_ofFn, hgi, hgp]
    unfold swapF
    by_cases h : r = piv
    · rw [if_pos h.symm, if_pos h]
    · rw [if_neg (fun hh => h hh.symm), if_neg h]
      by_cases h' : r = i
      · rw [if_pos h'.symm, if_pos h']
      · rw [if_neg (fun hh => h' hh.symm), if_neg h']

/-- full(ℝ): `LA.gaussStep` on `ofFn n A` is `ofFn n (gaussF A diag i)`. -/
theorem gaussStep_ofFn (n : ℕ) (A : ℕ → ℕ → ℝ) (diag : ℝ) (i : ℕ) (hi : i < n) :
    LA.gaussStep (ofFn n A) diag i = ofFn n (gaussF A diag i) := by
  unfold LA.gaussStep
  have hgi : (ofFn n A).getD i [] = (List.range n).map (fun j => A i j) := by
    simp [ofFn, hi]
  apply List.ext_getElem
  · simp [ofFn_length]
  · intro r h1 h2
    have hr : r < n := by simpa [ofFn_length] using h2
    simp only [List.getElem_mapIdx]
    rw [getElem_ofFn, getElem_ofFn]
    by_cases hri : r ≤ i
    · rw [if_pos hri]
      apply List.map_congr_left
      intro k _
      simp [gaussF, hri]
    · rw [if_neg hri]
      apply List.ext_getElem
      · simp
      · intro k h3 h4
        have hk : k < n := by simpa using h4
        simp only [List.getElem_mapIdx, List.getElem_map, List.getElem_range, hgi, lit1, gaussF, if_neg hri]
        have e1 : ((List.range n).map (fun j => A r j)).getD i default = A r i := by simp [hi]
        have e2 : ((List.range n).map (fun j => A i j)).getD k default = A i k := by simp [hk]
        rw [e1, e2]
        split_ifs <;> ring

/-- full(ℝ): the column scanned by `icamax` at step `i`. -/
theorem col_drop_ofFn (n : ℕ) (A : ℕ → ℕ → ℝ) (i : ℕ) (hi : i < n) :
    LA.col ((ofFn n A).drop i) i = ((List.range n).drop i).map (fun r => A r i) := by
  unfold LA.col ofFn
  rw [← List.map_drop, List.map_map]
  apply List.map_congr_left
  intro r _
  simp [hi]

/-- full(ℝ): `LA.luStep` on `ofFn n A` is the mirror `luStepF`. -/
theorem luStep_ofFn (n : ℕ) (st : (ℕ → ℕ → ℝ) × ℕ) (i : ℕ) (hi : i < n) :
    LA.luStep (ofFn n st.1, st.2) i = (ofFn n (luStepF n st i).1, (luStepF n st i).2) := by
  obtain ⟨hp1, hp2, _⟩ := pivIdx_spec n st.1 i hi
  unfold LA.luStep luStepF
  simp only [col_drop_ofFn n st.1 i hi]
  have hpiv : LA.icamax (((List.range n).drop i).map (fun r => st.1 r i)) + i = pivIdx n st.1 i := rfl
  rw [hpiv, mget_ofFn n st.1 _ i hp2 hi]
  simp only [real_beq, lit0]
  by_cases h0 : st.1 (pivIdx n st.1 i) i = 0
  · rw [if_pos h0, if_pos h0]
  · rw [if_neg h0, if_neg h0]
    by_cases hne : pivIdx n st.1 i ≠ i
    · rw [if_pos hne, if_pos hne, swapRows_ofFn n st.1 i _ hi hp2, gaussStep_ofFn n _ _ i hi]
    · rw [if_neg hne, if_neg hne, gaussStep_ofFn n _ _ i hi]

/-- full(ℝ): the fold of `LA.luStep` is the fold of the mirror. -/
theorem luFold_ofFn (n : ℕ) : ∀ (l : List ℕ) (st : (ℕ → ℕ → ℝ) × ℕ), (∀ i ∈ l, i < n) →
    l.foldl LA.luStep (ofFn n st.1, st.2) =
      (ofFn n (l.foldl (luStepF n) st).1, (l.foldl (luStepF n) st).2) := by
  intro l
  induction l with
  | nil => intro st _; rfl
  | cons i t ih =>
    intro st h
    rw [List.foldl_cons, List.foldl_cons, luStep_ofFn n st i (h i List.mem_cons_self),
      ih _ (fun x hx => h x (List.mem_cons_of_mem _ hx))]

/-- full(ℝ): a product over `List.range n` as a `Finset.range n` product. -/
theorem list_prod_range_eq_finset (n : ℕ) (f : ℕ → ℝ) :
    ((List.range n).map f).prod = ∏ t ∈ Finset.range n, f t := by
  induction n with
  | zero => simp
  | succ n ih => rw [List.range_succ, List.map_append, List.prod_append, ih, Finset.prod_range_succ]; simp

/-- full(ℝ): the list `LU` determinant through the mirror: product of the final diagonal times the parity sign -/
theorem luDeterminant_ofFn (n : ℕ) (A : ℕ → ℕ → ℝ) :
    LA.luDeterminant (ofFn n A) =
      (∏ i ∈ range n, ((List.range n).foldl (luStepF n) (A, 0)).1 i i) *
        (-1) ^ ((List.range n).foldl (luStepF n) (A, 0)).2 := by
  unfold LA.luDeterminant
  simp only [ofFn_length]
  have h := luFold_ofFn n (List.range n) (A, 0) (fun i hi => List.mem_range.mp hi)
  simp only at h
  rw [h]
  simp only
  rw [foldl_mul_eq_prod, lit1, one_mul]
  have hprod : ((List.range n).map (fun i =>
      LA.mget (ofFn n ((List.range n).foldl (luStepF n) (A, 0)).1) i i)).prod =
      ∏ i ∈ range n, ((List.range n).foldl (luStepF n) (A, 0)).1 i i := by
    rw [← list_prod_range_eq_finset]
    congr 1
    apply List.map_congr_left
    intro i hi
    have := List.mem_range.mp hi
    rw [mget_ofFn n _ i i this this]
  rw [hprod]
  congr 1
  rcases Nat.even_or_odd ((List.range n).foldl (luStepF n) (A, 0)).2 with he | ho
  · rw [if_pos (Nat.even_iff.mp he), he.neg_one_pow]
  · rw [if_neg (by rw [Nat.odd_iff.mp ho]; norm_num), ho.neg_one_pow]

end Statrs.Lemmas.Cholesky
