/-
  Statrs.Draft.Lemmas.LerpLaws — the premise structure "a linear interpolation with a weight strictly below `1`
  does not overshoot its upper end", used by C05 (`Uniform::inverse_cdf`) and C14 (`Data::quantile`).
  It is a ROUNDING fact about binary64, not a consequence of the monotone laws `Statrs.Spec.FloatLaws`
  (at weight `1` it is false on `f64`); it is PROVED for `Float` in `Draft/C05/FloatLerpLaws.lean`
  (`lerpLaws_float`).
-/
import Statrs.Spec.FloatLaws
namespace Statrs.Spec
open Statrs

/-- "A linear interpolation with a weight strictly below `1` does not overshoot the upper end", in the two operand
    orders the crate uses.  True for binary64 (`fl(t·fl(b − a))` is at most the predecessor of `fl(b − a)`, which
    is `≤ b − a`); NOT a consequence of the monotone laws, and false for `t = 1`. -/
structure LerpLaws (α : Type) [Add α] [Sub α] [Mul α] [LT α] [LE α] [OfScientific α] [RFun α] : Prop where
  mul_add_le : ∀ a b t : α, Spec.Fin a → Spec.Fin b → a ≤ b → Spec.Fin (b - a) → (0.0 : α) ≤ t → t < (1.0 : α) →
    (b - a) * t + a ≤ b
  add_mul_le : ∀ a b t : α, Spec.Fin a → Spec.Fin b → a ≤ b → Spec.Fin (b - a) → (0.0 : α) ≤ t → t < (1.0 : α) →
    a + t * (b - a) ≤ b

end Statrs.Spec
