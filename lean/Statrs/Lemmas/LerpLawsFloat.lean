/-
  Statrs.Draft.Lemmas.LerpLawsFloat — `LerpLaws Float`: on IEEE binary64 (Lean's `Float.Model`) a linear
  interpolation with a weight `0 ≤ t < 1` never overshoots its upper end:  `a + t·(b − a) ≤ b`  and
  `(b − a)·t + a ≤ b`  for finite `a ≤ b` with a finite difference.  (False at `t = 1`:
  `C05.uniform_lerp_one_overshoot_counterexample`, `C14.lerp_one_overshoot_counterexample`.)
  Proof: the rounding lemma `rnv_mul_lt_one_le` (`Draft/Lemmas/FloatModelLerp.lean`) lifted through `Rounds`.
  Used by `Draft/C05/FloatQuantileClosedInst.lean` and `Draft/C14/FloatQuantileInst.lean`.
-/
import Statrs.Lemmas.LerpLaws
import Statrs.Lemmas.FloatLawsBasic
import Statrs.Lemmas.FloatLawsExtra
import Statrs.Lemmas.FloatModelLerp
import Statrs.Props.Common.FloatLawsFloat_Extra
import Statrs.Inst.Float
namespace Statrs.Props.Common
open Statrs Statrs.Spec Statrs.Lemmas.FloatModel
open Float.Model
open Float.Model.UnpackedFloat (Sign)

private abbrev L := floatLaws_float
private abbrev E := extraLaws_float

private theorem fin64_eq_of_fz {r : UF} (h : FZ (fin64 r)) : fin64 r = r := by
  rcases r with s | _ | s | ⟨s, m, e, hm⟩
  · rfl
  · rfl
  · rfl
  · simp only [fin64] at h ⊢
    split_ifs at h ⊢ with hbig
    · exact absurd h (by simp [FZ])
    · rfl

private theorem fz_of_fin {x : Float} (h : Spec.Fin x) : FZ (U x) := (fz_iff _).2 h

private theorem val_sub {x m : Float} (hx : Spec.Fin x) (hm : Spec.Fin m) (hd : Spec.Fin (x - m)) :
    RNv (val (U x) - val (U m)) (val (U (x - m))) := by
  have hr := usub_rounds (fz_of_fin hx) (fz_of_fin hm) (canon_U x) (canon_U m)
  have hfz : FZ (U (x - m)) := fz_of_fin hd
  rw [U_sub'] at hfz ⊢
  rw [fin64_eq_of_fz hfz]
  exact hr.2.2

private theorem val_mul {t d : Float} (ht : Spec.Fin t) (hd : Spec.Fin d) (hp : Spec.Fin (t * d)) :
    RNv (val (U t) * val (U d)) (val (U (t * d))) := by
  have hr := umul_rounds (fz_of_fin ht) (fz_of_fin hd) (canon_U t) (canon_U d)
  have hfz : FZ (U (t * d)) := fz_of_fin hp
  rw [U_mul'] at hfz ⊢
  rw [fin64_eq_of_fz hfz]
  exact hr.2.2

private theorem add_le_of_val {m q x : Float} (hm : Spec.Fin m) (hq : Spec.Fin q) (hx : Spec.Fin x)
    (h : val (U m) + val (U q) ≤ val (U x)) : m + q ≤ x := by
  rw [le_def, U_add']
  have hr := uadd_rounds (fz_of_fin hm) (fz_of_fin hq) (canon_U m) (canon_U q)
  have := fin64_mono (rounds_le hr (Rounds.self (fz_of_fin hx) (canon_U x)) h)
  rwa [fin64_of_rep (rep_U x)] at this

private theorem val_le_of_le {a b : Float} (ha : Spec.Fin a) (hb : Spec.Fin b) (h : a ≤ b) :
    val (U a) ≤ val (U b) :=
  (le_iff_val (fz_of_fin ha) (fz_of_fin hb) (canon_U a) (canon_U b)).1 ((le_def _ _).1 h)

private theorem val_U_one' : val (U (1.0 : Float)) = 1 := by
  rw [U_one]; simp only [val, sgn, one_mul]
  rw [show ((2 ^ 52 : ℕ) : ℝ) = (2 : ℝ) ^ (52 : ℤ) by norm_num, ← zpow_add₀ (by norm_num : (2 : ℝ) ≠ 0)]
  norm_num

/-- a canonical binary64 value below `1` is at most `1 − 2^−53` (the predecessor of `1.0`) -/
private theorem val_lt_one_le {u : UF} (hf : FZ u) (hc : Canon u) (h : val u < 1) :
    val u ≤ 1 - (2 : ℝ) ^ (-53 : ℤ) := by
  have h53 : (2 : ℝ) ^ (-53 : ℤ) ≤ 1 / 2 := by
    rw [show (1 / 2 : ℝ) = (2 : ℝ) ^ (-1 : ℤ) by norm_num]
    exact zpow_le_zpow_right₀ (by norm_num) (by norm_num)
  have hone : (2 : ℝ) ^ (53 : ℕ) * (2 : ℝ) ^ (-53 : ℤ) = 1 := by
    rw [show ((2 : ℝ) ^ (53 : ℕ)) = (2 : ℝ) ^ (53 : ℤ) by norm_num,
      ← zpow_add₀ (by norm_num : (2 : ℝ) ≠ 0)]; norm_num
  generalize hcdef : (2 : ℝ) ^ (-53 : ℤ) = c at h53 hone ⊢
  rcases u with s | _ | s | ⟨s, m, e, hm⟩
  · exact absurd hf (by simp [FZ])
  · exact absurd hf (by simp [FZ])
  · simp only [val]; linarith
  · simp only [Canon] at hc
    obtain ⟨h1, h2, h3⟩ := hc
    have hp : (0 : ℝ) < (m : ℝ) * (2 : ℝ) ^ e := by positivity
    cases s
    · simp only [val, sgn]; linarith
    · simp only [val, sgn, one_mul] at h ⊢
      -- the exponent is at most `−53`
      have he : e ≤ -53 := by
        by_contra hc
        have he' : -52 ≤ e := by omega
        have hm52 : 2 ^ 52 ≤ m := by rcases h3 with h3 | h3 <;> omega
        have : (1 : ℝ) ≤ (m : ℝ) * (2 : ℝ) ^ e := by
          have a1 : (2 : ℝ) ^ (52 : ℕ) ≤ (m : ℝ) := by exact_mod_cast hm52
          have a2 : (2 : ℝ) ^ (-52 : ℤ) ≤ (2 : ℝ) ^ e := zpow_le_zpow_right₀ (by norm_num) he'
          have a3 : (2 : ℝ) ^ (52 : ℕ) * (2 : ℝ) ^ (-52 : ℤ) = 1 := by
            rw [show ((2 : ℝ) ^ (52 : ℕ)) = (2 : ℝ) ^ (52 : ℤ) by norm_num,
              ← zpow_add₀ (by norm_num : (2 : ℝ) ≠ 0)]; norm_num
          calc (1 : ℝ) = (2 : ℝ) ^ (52 : ℕ) * (2 : ℝ) ^ (-52 : ℤ) := a3.symm
            _ ≤ (m : ℝ) * (2 : ℝ) ^ e := mul_le_mul a1 a2 (by positivity) (by positivity)
        linarith
      have a1 : (m : ℝ) + 1 ≤ (2 : ℝ) ^ (53 : ℕ) := by exact_mod_cast (by omega : m + 1 ≤ 2 ^ 53)
      have a2 : (2 : ℝ) ^ e ≤ c := by rw [← hcdef]; exact zpow_le_zpow_right₀ (by norm_num) he
      have hc0 : (0 : ℝ) ≤ c := by rw [← hcdef]; positivity
      have a4 : (m : ℝ) * (2 : ℝ) ^ e ≤ ((2 : ℝ) ^ (53 : ℕ) - 1) * c :=
        mul_le_mul (by linarith) a2 (by positivity) (by linarith [a1, (by positivity : (0 : ℝ) ≤ (m : ℝ))])
      have a3 : ((2 : ℝ) ^ (53 : ℕ) - 1) * c = 1 - c := by rw [sub_mul, hone, one_mul]
      linarith

/-- the common core: for finite `a ≤ b`, finite `d = b − a`, `0 ≤ t < 1` and the finite product `p` whose value is
    the rounding of `val t · val d`, `val a + val p ≤ val b` -/
private theorem lerp_core {a b t : Float} (ha : Spec.Fin a) (hb : Spec.Fin b) (hab : a ≤ b)
    (hd : Spec.Fin (b - a)) (ht0 : (0.0 : Float) ≤ t) (ht1 : t < (1.0 : Float)) {P : ℝ}
    (hP : RNv (val (U t) * val (U (b - a))) P) : val (U a) + P ≤ val (U b) := by
  have htf : Spec.Fin t := E.fin_of_between L L.zero_fin L.one_fin ht0 (L.lt_le ht1)
  have hD := val_sub hb ha hd
  have hy : 0 ≤ val (U b) - val (U a) := by have := val_le_of_le ha hb hab; linarith
  have hgrid : ∃ j : ℤ, val (U b) - val (U a) = (j : ℝ) * (2 : ℝ) ^ (-1074 : ℤ) := by
    obtain ⟨k1, e1⟩ := val_grid (fz_of_fin hb) (canon_U b)
    obtain ⟨k2, e2⟩ := val_grid (fz_of_fin ha) (canon_U a)
    exact ⟨k1 - k2, by rw [e1, e2]; push_cast; ring⟩
  have hv0 : 0 ≤ val (U t) := by
    have := val_le_of_le L.zero_fin htf ht0
    rwa [U_zero, val_zero] at this
  have hv1 : val (U t) ≤ 1 - (2 : ℝ) ^ (-53 : ℤ) := by
    apply val_lt_one_le (fz_of_fin htf) (canon_U t)
    have := (lt_iff_val (fz_of_fin htf) (fz_of_fin L.one_fin) (canon_U t) (canon_U _)).1 ((lt_def _ _).1 ht1)
    rwa [val_U_one'] at this
  have := rnv_mul_lt_one_le hy hgrid hD hv0 hv1 hP
  linarith

/-- the product `t·d` (either order) of a weight in `[0, 1]` and a finite non-negative `d` is finite -/
private theorem prod_fin {t d : Float} (ht0 : (0.0 : Float) ≤ t) (ht1 : t ≤ (1.0 : Float)) (hd : Spec.Fin d)
    (hd0 : (0.0 : Float) ≤ d) : Spec.Fin (t * d) ∧ Spec.Fin (d * t) := by
  have htf : Spec.Fin t := E.fin_of_between L L.zero_fin L.one_fin ht0 ht1
  have n1 : NN (t * d) := L.mul_nn htf hd
  have n2 : NN (d * t) := L.mul_nn hd htf
  have l1 : (0.0 : Float) ≤ t * d := L.mul_nonneg ht0 hd0 (Or.inl htf) n1
  have l2 : (0.0 : Float) ≤ d * t := L.mul_nonneg hd0 ht0 (Or.inl hd) n2
  have u1 : t * d ≤ d :=
    L.le_of_le_of_beq (L.mono.mul_le_mul_right t 1.0 d ht1 hd0 n1 (L.mul_nn L.one_fin hd))
      (L.exact.one_mul d (L.fin_nn' hd))
  have u2 : d * t ≤ d :=
    L.le_of_le_of_beq (L.mono.mul_le_mul_left t 1.0 d ht1 hd0 n2 (L.mul_nn hd L.one_fin))
      (L.exact.mul_one d (L.fin_nn' hd))
  exact ⟨E.fin_of_between L L.zero_fin hd l1 u1, E.fin_of_between L L.zero_fin hd l2 u2⟩

/-- full(Float): `a + t·(b − a) ≤ b` for finite `a ≤ b`, finite `b − a`, `0 ≤ t < 1` -/
theorem lerp_le_float (a b t : Float) (ha : Spec.Fin a) (hb : Spec.Fin b) (hab : a ≤ b)
    (hd : Spec.Fin (b - a)) (ht0 : (0.0 : Float) ≤ t) (ht1 : t < (1.0 : Float)) : a + t * (b - a) ≤ b := by
  have htf : Spec.Fin t := E.fin_of_between L L.zero_fin L.one_fin ht0 (L.lt_le ht1)
  have hd0 : (0.0 : Float) ≤ b - a := L.sub_nonneg_of_le ha hab
  have hp := (prod_fin ht0 (L.lt_le ht1) hd hd0).1
  exact add_le_of_val ha hp hb (lerp_core ha hb hab hd ht0 ht1 (val_mul htf hd hp))

/-- full(Float): `(b − a)·t + a ≤ b` for finite `a ≤ b`, finite `b − a`, `0 ≤ t < 1` -/
theorem lerp_le_float' (a b t : Float) (ha : Spec.Fin a) (hb : Spec.Fin b) (hab : a ≤ b)
    (hd : Spec.Fin (b - a)) (ht0 : (0.0 : Float) ≤ t) (ht1 : t < (1.0 : Float)) : (b - a) * t + a ≤ b := by
  have htf : Spec.Fin t := E.fin_of_between L L.zero_fin L.one_fin ht0 (L.lt_le ht1)
  have hd0 : (0.0 : Float) ≤ b - a := L.sub_nonneg_of_le ha hab
  have hp := (prod_fin ht0 (L.lt_le ht1) hd hd0).2
  have hP := val_mul hd htf hp
  rw [mul_comm] at hP
  have := lerp_core ha hb hab hd ht0 ht1 hP
  exact add_le_of_val hp ha hb (by linarith)

/-- full(Float): `LerpLaws Float` -/
theorem lerpLaws_float : LerpLaws Float := ⟨lerp_le_float', lerp_le_float⟩


end Statrs.Props.Common
