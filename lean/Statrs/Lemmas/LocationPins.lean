/-
  Helper lemmas for the C08 location pins (`Props/C08/LocationPins*.lean`):
  the representation of infinite support ends, and `as u64` / `as i64` of a floor over ℝ.
-/
import Statrs.Real.Simp
import Statrs.Spec.Location
import Mathlib.Tactic
namespace Statrs.Lemmas.LocationPins
open Statrs Statrs.Spec

theorem infEnd_top (α : Type) [RFun α] : Location.infEnd α ⊤ = some (RFun.inf : α) := by
  simp [Location.infEnd]

theorem infEnd_bot (α : Type) [RFun α] : Location.infEnd α ⊥ = some (RFun.negInf : α) := by
  simp [Location.infEnd]

/-- a finite end is not represented by an infinity -/
theorem infEnd_coe (α : Type) [RFun α] (x : ℝ) : Location.infEnd α (x : EReal) = none := by
  simp [Location.infEnd]

/-- `x.floor() as u64` over ℝ: `max 0 ⌊x⌋` -/
theorem toU64_floor (x : ℝ) : RFun.toU64 (RFun.floor x : ℝ) = max 0 ⌊x⌋ := by
  show max 0 ⌊((⌊x⌋ : ℤ) : ℝ)⌋ = max 0 ⌊x⌋
  rw [Int.floor_intCast]

/-- `x.floor() as i64` over ℝ: `⌊x⌋` -/
theorem toI64_floor (x : ℝ) : RFun.toI64 (RFun.floor x : ℝ) = ⌊x⌋ := by
  show (if (0 : ℝ) ≤ ((⌊x⌋ : ℤ) : ℝ) then ⌊((⌊x⌋ : ℤ) : ℝ)⌋ else ⌈((⌊x⌋ : ℤ) : ℝ)⌉) = ⌊x⌋
  split_ifs <;> simp

end Statrs.Lemmas.LocationPins
