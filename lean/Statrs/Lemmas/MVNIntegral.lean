/-
  Pure Mathlib helper lemmas for the C19 integral theorems (no model imports).

    * `pi_gaussianReal_eq_withDensity` — the product of `n` standard normal laws on `ι → ℝ` is Lebesgue
      measure with density `∏ φ(zᵢ)`.
    * `map_affine_withDensity` — push-forward of `volume.withDensity f` under `z ↦ μ + M z`
      (`det M ≠ 0`) is `volume.withDensity (|det M|⁻¹ · f (M⁻¹ (x − μ)))`.
-/
import Mathlib
set_option linter.unusedSectionVars false
set_option linter.unusedVariables false
namespace Statrs.Lemmas.MVNIntegral
open MeasureTheory ProbabilityTheory Matrix

variable {ι : Type*} [Fintype ι]

/-- density of `n` independent standard normals -/
noncomputable def stdDensity (z : ι → ℝ) : ℝ := ∏ i, gaussianPDFReal 0 1 (z i)

theorem stdDensity_nonneg (z : ι → ℝ) : 0 ≤ stdDensity z :=
  Finset.prod_nonneg (fun i _ => gaussianPDFReal_nonneg 0 1 (z i))

theorem measurable_stdDensity : Measurable (stdDensity (ι := ι)) := by
  unfold stdDensity
  exact Finset.measurable_prod _ (fun i _ => (measurable_gaussianPDFReal 0 1).comp (measurable_pi_apply i))

/-- closed form: `(2π)^(-n/2) · exp(-½ Σ zᵢ²)` -/
theorem stdDensity_eq (z : ι → ℝ) :
    stdDensity z = (Real.sqrt (2 * Real.pi))⁻¹ ^ Fintype.card ι * Real.exp (-(∑ i, z i ^ 2) / 2) := by
  unfold stdDensity
  simp only [gaussianPDFReal, NNReal.coe_one, mul_one, sub_zero]
  rw [Finset.prod_mul_distrib, Finset.prod_const, ← Real.exp_sum, Finset.card_univ]
  congr 2
  rw [neg_div, Finset.sum_div, ← Finset.sum_neg_distrib]
  apply Finset.sum_congr rfl
  intro i _
  ring

/-- the law of `n` independent standard normals has density `stdDensity` w.r.t. Lebesgue measure -/
theorem pi_gaussianReal_eq_withDensity :
    Measure.pi (fun _ : ι => gaussianReal 0 1) =
      (volume : Measure (ι → ℝ)).withDensity (fun z => ENNReal.ofReal (stdDensity z)) := by
  apply Measure.pi_eq
  intro s hs
  rw [withDensity_apply _ (MeasurableSet.univ_pi hs), ← lintegral_indicator (MeasurableSet.univ_pi hs)]
  have hind : ∀ z : ι → ℝ, (Set.univ.pi s).indicator (fun z => ENNReal.ofReal (stdDensity z)) z =
      ENNReal.ofReal (∏ i, (s i).indicator (gaussianPDFReal 0 1) (z i)) := by
    intro z
    classical
    by_cases hz : z ∈ Set.univ.pi s
    · rw [Set.indicator_of_mem hz]
      congr 1
      apply Finset.prod_congr rfl
      intro i _
      rw [Set.indicator_of_mem (hz i (Set.mem_univ i))]
    · rw [Set.indicator_of_notMem hz]
      simp only [Set.mem_pi, Set.mem_univ, forall_const, not_forall] at hz
      obtain ⟨i, hi⟩ := hz
      rw [Finset.prod_eq_zero (Finset.mem_univ i) (Set.indicator_of_notMem hi _)]
      simp
  simp_rw [hind]
  have hint : ∀ i, Integrable ((s i).indicator (gaussianPDFReal 0 1)) (volume : Measure ℝ) :=
    fun i => (integrable_gaussianPDFReal 0 1).indicator (hs i)
  rw [← ofReal_integral_eq_lintegral_ofReal]
  · rw [integral_fintype_prod_volume_eq_prod, ENNReal.ofReal_prod_of_nonneg]
    · apply Finset.prod_congr rfl
      intro i _
      rw [gaussianReal_apply_eq_integral 0 one_ne_zero, integral_indicator (hs i)]
    · intro i _
      exact integral_nonneg (fun x => Set.indicator_nonneg (fun y _ => gaussianPDFReal_nonneg 0 1 y) x)
  · exact Integrable.fintype_prod (μ := fun _ => (volume : Measure ℝ)) hint
  · exact Filter.Eventually.of_forall (fun z => Finset.prod_nonneg
      (fun i _ => Set.indicator_nonneg (fun y _ => gaussianPDFReal_nonneg 0 1 y) (z i)))

variable [DecidableEq ι]

/-- the affine bijection `z ↦ μ + M z` of `ι → ℝ`, `det M ≠ 0`, as a measurable equivalence -/
noncomputable def affineEquiv (μ : ι → ℝ) (M : Matrix ι ι ℝ) (hM : M.det ≠ 0) : (ι → ℝ) ≃ᵐ (ι → ℝ) where
  toFun z := μ + M *ᵥ z
  invFun x := M⁻¹ *ᵥ (x - μ)
  left_inv z := by
    have hu : IsUnit M.det := isUnit_iff_ne_zero.mpr hM
    simp [Matrix.mulVec_mulVec, Matrix.nonsing_inv_mul _ hu]
  right_inv x := by
    have hu : IsUnit M.det := isUnit_iff_ne_zero.mpr hM
    simp [Matrix.mulVec_mulVec, Matrix.mul_nonsing_inv _ hu]
  measurable_toFun := by
    refine measurable_const.add ?_
    exact (Matrix.toLin' M).continuous_of_finiteDimensional.measurable
  measurable_invFun := by
    have : Measurable (fun x : ι → ℝ => x - μ) := measurable_id.sub measurable_const
    exact ((Matrix.toLin' M⁻¹).continuous_of_finiteDimensional.measurable).comp this

@[simp] theorem affineEquiv_apply (μ : ι → ℝ) (M : Matrix ι ι ℝ) (hM : M.det ≠ 0) (z : ι → ℝ) :
    affineEquiv μ M hM z = μ + M *ᵥ z := rfl

@[simp] theorem affineEquiv_symm_apply (μ : ι → ℝ) (M : Matrix ι ι ℝ) (hM : M.det ≠ 0) (x : ι → ℝ) :
    (affineEquiv μ M hM).symm x = M⁻¹ *ᵥ (x - μ) := rfl

/-- Lebesgue measure under `z ↦ μ + M z` -/
theorem map_affine_volume (μ : ι → ℝ) (M : Matrix ι ι ℝ) (hM : M.det ≠ 0) :
    Measure.map (affineEquiv μ M hM) (volume : Measure (ι → ℝ)) = ENNReal.ofReal |M.det⁻¹| • volume := by
  have h1 : (affineEquiv μ M hM : (ι → ℝ) → (ι → ℝ)) = (fun x => μ + x) ∘ (Matrix.toLin' M) := by
    funext z; simp
  rw [h1, ← Measure.map_map (measurable_const_add μ) (Matrix.toLin' M).continuous_of_finiteDimensional.measurable,
    Real.map_matrix_volume_pi_eq_smul_volume_pi hM, Measure.map_smul, map_add_left_eq_self]

/-- change of variables `x = μ + M z` for a measure with a density -/
theorem map_affine_withDensity (μ : ι → ℝ) (M : Matrix ι ι ℝ) (hM : M.det ≠ 0) (f : (ι → ℝ) → ℝ)
    (hf : Measurable f) :
    Measure.map (affineEquiv μ M hM) ((volume : Measure (ι → ℝ)).withDensity (fun z => ENNReal.ofReal (f z))) =
      (volume : Measure (ι → ℝ)).withDensity
        (fun x => ENNReal.ofReal (|M.det|⁻¹ * f (M⁻¹ *ᵥ (x - μ)))) := by
  ext s hs
  have hms : MeasurableSet ((affineEquiv μ M hM) ⁻¹' s) := (affineEquiv μ M hM).measurable hs
  rw [MeasurableEquiv.map_apply, withDensity_apply _ hms, withDensity_apply _ hs]
  -- rewrite the right-hand side as an integral against the push-forward of Lebesgue measure
  have hvol : (volume : Measure (ι → ℝ)) =
      ENNReal.ofReal |M.det| • Measure.map (affineEquiv μ M hM) (volume : Measure (ι → ℝ)) := by
    rw [map_affine_volume, smul_smul, ← ENNReal.ofReal_mul (abs_nonneg _), ← abs_mul,
      mul_inv_cancel₀ hM, abs_one, ENNReal.ofReal_one, one_smul]
  conv_rhs => rw [hvol]
  rw [Measure.restrict_smul, lintegral_smul_measure, ← lintegral_indicator hs,
    lintegral_map_equiv, ← lintegral_indicator hms, smul_eq_mul, ← lintegral_const_mul']
  · apply lintegral_congr
    intro z
    by_cases hz : z ∈ (affineEquiv μ M hM) ⁻¹' s
    · have hz' : affineEquiv μ M hM z ∈ s := hz
      rw [Set.indicator_of_mem hz, Set.indicator_of_mem hz']
      have hinv : M⁻¹ *ᵥ (affineEquiv μ M hM z - μ) = z := (affineEquiv μ M hM).left_inv z
      rw [hinv, ← ENNReal.ofReal_mul (abs_nonneg _), ← mul_assoc,
        mul_inv_cancel₀ (abs_ne_zero.mpr hM), one_mul]
    · have hz' : affineEquiv μ M hM z ∉ s := hz
      rw [Set.indicator_of_notMem hz, Set.indicator_of_notMem hz']
      simp
  · exact ENNReal.ofReal_ne_top

end Statrs.Lemmas.MVNIntegral
