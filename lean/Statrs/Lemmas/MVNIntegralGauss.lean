/-
  The multivariate normal density on `ι → ℝ` (pure Mathlib, no model imports).

    * `mvnDensity μ S x = √(1 / ((2π)ⁿ det S)) · exp(-½ (x-μ)ᵀ S⁻¹ (x-μ))`
    * `withDensity_mvnDensity_eq_map` — for every factorisation `L Lᵀ = S`, `det L ≠ 0`:
      Lebesgue measure with this density is the law of `μ + L Z`, `Z` standard normal on `ι → ℝ`.
    * `integral_mvnDensity` — for positive definite `S` the density integrates to 1.
-/
import Statrs.Lemmas.MVNIntegral
set_option linter.unusedSectionVars false
set_option linter.unusedVariables false
namespace Statrs.Lemmas.MVNIntegral
open MeasureTheory ProbabilityTheory Matrix

variable {ι : Type*} [Fintype ι] [DecidableEq ι]

/-- the documented `N(μ, S)` density on `ι → ℝ` -/
noncomputable def mvnDensity (μ : ι → ℝ) (S : Matrix ι ι ℝ) (x : ι → ℝ) : ℝ :=
  Real.sqrt (1 / ((2 * Real.pi) ^ Fintype.card ι * S.det)) *
    Real.exp (-(1 / 2) * ((x - μ) ⬝ᵥ S⁻¹ *ᵥ (x - μ)))

theorem mvnDensity_nonneg (μ : ι → ℝ) (S : Matrix ι ι ℝ) (x : ι → ℝ) : 0 ≤ mvnDensity μ S x :=
  mul_nonneg (Real.sqrt_nonneg _) (Real.exp_pos _).le

theorem measurable_mvnDensity (μ : ι → ℝ) (S : Matrix ι ι ℝ) : Measurable (mvnDensity μ S) := by
  unfold mvnDensity
  have hc : Continuous (fun x : ι → ℝ => (x - μ) ⬝ᵥ S⁻¹ *ᵥ (x - μ)) := by
    have h1 : Continuous (fun x : ι → ℝ => x - μ) := continuous_id.sub continuous_const
    have h2 : Continuous (fun x : ι → ℝ => S⁻¹ *ᵥ (x - μ)) :=
      (Matrix.toLin' S⁻¹).continuous_of_finiteDimensional.comp h1
    exact h1.dotProduct h2
  exact (measurable_const.mul (Real.continuous_exp.measurable.comp (measurable_const.mul hc.measurable)))

/-- the quadratic form through a factor: `vᵀ S⁻¹ v = ‖L⁻¹ v‖²` when `L Lᵀ = S` -/
theorem quad_eq_of_factor {L S : Matrix ι ι ℝ} (hS : L * Lᵀ = S) (hL : L.det ≠ 0) (v : ι → ℝ) :
    v ⬝ᵥ S⁻¹ *ᵥ v = ∑ i, (L⁻¹ *ᵥ v) i ^ 2 := by
  have hinv : S⁻¹ = (L⁻¹)ᵀ * L⁻¹ := by
    rw [← hS, Matrix.mul_inv_rev, Matrix.transpose_nonsing_inv]
  rw [hinv, ← Matrix.mulVec_mulVec, Matrix.dotProduct_mulVec, Matrix.vecMul_transpose]
  simp only [dotProduct, pow_two]

/-- the normalising constant through a factor -/
theorem const_eq_of_factor {L S : Matrix ι ι ℝ} (hS : L * Lᵀ = S) (hL : L.det ≠ 0) :
    Real.sqrt (1 / ((2 * Real.pi) ^ Fintype.card ι * S.det)) =
      |L.det|⁻¹ * (Real.sqrt (2 * Real.pi))⁻¹ ^ Fintype.card ι := by
  have hdet : S.det = L.det ^ 2 := by rw [← hS, Matrix.det_mul, Matrix.det_transpose, pow_two]
  have h2pi : (0 : ℝ) < 2 * Real.pi := by positivity
  have hs : Real.sqrt (2 * Real.pi) ^ 2 = 2 * Real.pi := Real.sq_sqrt h2pi.le
  have hs0 : 0 < Real.sqrt (2 * Real.pi) := Real.sqrt_pos.mpr h2pi
  have hd0 : 0 < |L.det| := abs_pos.mpr hL
  have hdd : L.det ^ 2 = |L.det| ^ 2 := (sq_abs _).symm
  generalize Real.sqrt (2 * Real.pi) = s at hs hs0 ⊢
  rw [hdet, Real.sqrt_eq_iff_mul_self_eq (by positivity) (by positivity), ← hs, hdd]
  field_simp
  rw [one_div, inv_pow, inv_pow, ← pow_mul, ← pow_mul, mul_comm 2]
  exact (mul_inv_cancel₀ (by positivity)).symm

/-- the density through a factor `L Lᵀ = S`: the standard density transported by `z ↦ μ + L z` -/
theorem mvnDensity_eq_of_factor {L S : Matrix ι ι ℝ} (hS : L * Lᵀ = S) (hL : L.det ≠ 0) (μ x : ι → ℝ) :
    mvnDensity μ S x = |L.det|⁻¹ * stdDensity (L⁻¹ *ᵥ (x - μ)) := by
  unfold mvnDensity
  rw [stdDensity_eq, quad_eq_of_factor hS hL, const_eq_of_factor hS hL, mul_assoc]
  congr 3
  ring

/-- For every factorisation `L Lᵀ = S` with `det L ≠ 0`: Lebesgue measure with density
    `mvnDensity μ S` is the law of `μ + L Z`, `Z` a vector of independent standard normals. -/
theorem withDensity_mvnDensity_eq_map {L S : Matrix ι ι ℝ} (hS : L * Lᵀ = S) (hL : L.det ≠ 0) (μ : ι → ℝ) :
    (volume : Measure (ι → ℝ)).withDensity (fun x => ENNReal.ofReal (mvnDensity μ S x)) =
      (Measure.pi fun _ : ι => gaussianReal 0 1).map (fun z => μ + L *ᵥ z) := by
  rw [pi_gaussianReal_eq_withDensity]
  have h := map_affine_withDensity μ L hL stdDensity measurable_stdDensity
  rw [show (fun z => μ + L *ᵥ z) = ⇑(affineEquiv μ L hL) from rfl, h]
  congr 1
  funext x
  rw [mvnDensity_eq_of_factor hS hL]

open scoped MatrixOrder in
/-- a positive definite matrix has an invertible factor -/
theorem exists_factor {S : Matrix ι ι ℝ} (hS : S.PosDef) : ∃ L : Matrix ι ι ℝ, L * Lᵀ = S ∧ L.det ≠ 0 := by
  obtain ⟨a, ha⟩ := CStarAlgebra.nonneg_iff_eq_star_mul_self.mp hS.posSemidef.nonneg
  have ha' : S = aᵀ * a := by
    rw [ha, Matrix.star_eq_conjTranspose, Matrix.conjTranspose_eq_transpose_of_trivial]
  refine ⟨aᵀ, by rw [Matrix.transpose_transpose, ha'], ?_⟩
  have hdet : S.det ≠ 0 := hS.det_pos.ne'
  rw [ha', Matrix.det_mul] at hdet
  exact left_ne_zero_of_mul hdet

/-- `N(μ, S)` is a probability measure for positive definite `S` -/
theorem isProbabilityMeasure_withDensity_mvnDensity {S : Matrix ι ι ℝ} (hS : S.PosDef) (μ : ι → ℝ) :
    IsProbabilityMeasure
      ((volume : Measure (ι → ℝ)).withDensity (fun x => ENNReal.ofReal (mvnDensity μ S x))) := by
  obtain ⟨L, hL, hdet⟩ := exists_factor hS
  rw [withDensity_mvnDensity_eq_map hL hdet μ]
  exact Measure.isProbabilityMeasure_map (affineEquiv μ L hdet).measurable.aemeasurable

/-- the density is integrable -/
theorem integrable_mvnDensity {S : Matrix ι ι ℝ} (hS : S.PosDef) (μ : ι → ℝ) :
    Integrable (mvnDensity μ S) (volume : Measure (ι → ℝ)) := by
  have hp := isProbabilityMeasure_withDensity_mvnDensity hS μ
  refine ⟨(measurable_mvnDensity μ S).aestronglyMeasurable, ?_⟩
  rw [hasFiniteIntegral_iff_ofReal (Filter.Eventually.of_forall (mvnDensity_nonneg μ S))]
  have h1 := hp.measure_univ
  rw [withDensity_apply _ MeasurableSet.univ, Measure.restrict_univ] at h1
  rw [h1]
  exact ENNReal.one_lt_top

/-- **the multivariate normal density integrates to 1** (every finite dimension, every positive definite `S`) -/
theorem integral_mvnDensity {S : Matrix ι ι ℝ} (hS : S.PosDef) (μ : ι → ℝ) :
    ∫ x : ι → ℝ, mvnDensity μ S x = 1 := by
  have hp := isProbabilityMeasure_withDensity_mvnDensity hS μ
  have h1 := hp.measure_univ
  rw [withDensity_apply _ MeasurableSet.univ, Measure.restrict_univ] at h1
  rw [integral_eq_lintegral_of_nonneg_ae (Filter.Eventually.of_forall (mvnDensity_nonneg μ S))
    (measurable_mvnDensity μ S).aestronglyMeasurable, h1]
  simp

end Statrs.Lemmas.MVNIntegral
