/-
  Moments of the multivariate normal density on `ι → ℝ` and identification with Mathlib's
  `ProbabilityTheory.multivariateGaussian` (pure Mathlib, no model imports).

    * `mvnMeasure μ S` = Lebesgue measure with density `mvnDensity μ S`.
    * `map_affine_stdGaussian_eq_multivariateGaussian` — `μ + L Z` has law `multivariateGaussian μ (L Lᵀ)`
      for EVERY square `L` (Mathlib defines it with `L = CFC.sqrt S`).
    * `map_toLp_mvnMeasure` — for positive definite `S`, `mvnMeasure μ S` transported to `EuclideanSpace ℝ ι`
      is `multivariateGaussian μ S`.
    * `integral_coord_mul_mvnDensity`, `integral_cov_mul_mvnDensity` — first and second (central) moments,
      each with the integrability of the integrand.
-/
import Statrs.Lemmas.MVNIntegralGauss
set_option linter.unusedSectionVars false
set_option linter.unusedVariables false
namespace Statrs.Lemmas.MVNIntegral
open MeasureTheory ProbabilityTheory Matrix WithLp
open scoped RealInnerProductSpace MatrixOrder

variable {ι : Type*} [Fintype ι] [DecidableEq ι]

/-- Lebesgue measure with the `N(μ, S)` density -/
noncomputable def mvnMeasure (μ : ι → ℝ) (S : Matrix ι ι ℝ) : Measure (ι → ℝ) :=
  (volume : Measure (ι → ℝ)).withDensity (fun x => ENNReal.ofReal (mvnDensity μ S x))

/-- integrals against `mvnMeasure` are integrals against Lebesgue measure of `g · density` -/
theorem integral_mvnMeasure (μ : ι → ℝ) (S : Matrix ι ι ℝ) (g : (ι → ℝ) → ℝ) :
    ∫ x, g x ∂(mvnMeasure μ S) = ∫ x, g x * mvnDensity μ S x := by
  unfold mvnMeasure
  rw [integral_withDensity_eq_integral_toReal_smul (f := fun x => ENNReal.ofReal (mvnDensity μ S x))
    (measurable_mvnDensity μ S).ennreal_ofReal
    (Filter.Eventually.of_forall (fun x => ENNReal.ofReal_lt_top))]
  apply integral_congr_ae
  filter_upwards with x
  rw [ENNReal.toReal_ofReal (mvnDensity_nonneg μ S x), smul_eq_mul, mul_comm]

/-- integrability against `mvnMeasure` -/
theorem integrable_mvnMeasure_iff (μ : ι → ℝ) (S : Matrix ι ι ℝ) (g : (ι → ℝ) → ℝ) :
    Integrable g (mvnMeasure μ S) ↔ Integrable (fun x => g x * mvnDensity μ S x) := by
  unfold mvnMeasure
  rw [integrable_withDensity_iff (f := fun x => ENNReal.ofReal (mvnDensity μ S x))
    (measurable_mvnDensity μ S).ennreal_ofReal
    (Filter.Eventually.of_forall (fun x => ENNReal.ofReal_lt_top))]
  simp only [ENNReal.toReal_ofReal (mvnDensity_nonneg μ S _)]

/-- `μ + L Z`, `Z` standard Gaussian on `EuclideanSpace ℝ ι`, has law `multivariateGaussian μ (L Lᵀ)`, for every square `L` -/
theorem map_affine_stdGaussian_eq_multivariateGaussian {L S : Matrix ι ι ℝ} (hS : L * Lᵀ = S)
    (μ : EuclideanSpace ℝ ι) :
    (stdGaussian (EuclideanSpace ℝ ι)).map (fun x => μ + toEuclideanCLM (𝕜 := ℝ) L x) =
      multivariateGaussian μ S := by
  have hpsd : S.PosSemidef := by
    rw [← hS, ← Matrix.conjTranspose_eq_transpose_of_trivial]
    exact Matrix.posSemidef_self_mul_conjTranspose L
  have h : (fun x ↦ μ + (toEuclideanCLM (𝕜 := ℝ) L) x) =
    (fun x ↦ μ + x) ∘ ((toEuclideanCLM (𝕜 := ℝ) L)) := rfl
  have hG : IsGaussian ((stdGaussian (EuclideanSpace ℝ ι)).map (fun x => μ + toEuclideanCLM (𝕜 := ℝ) L x)) := by
    rw [h, ← Measure.map_map (measurable_const_add μ) (by fun_prop)]
    infer_instance
  apply IsGaussian.ext
  · rw [integral_id_multivariateGaussian']
    simp only [id_eq]
    rw [integral_map (by fun_prop) (by fun_prop),
      integral_add (integrable_const _), integral_const]
    · simp [ContinuousLinearMap.integral_comp_comm _ IsGaussian.integrable_fun_id]
    · exact IsGaussian.integrable_id.comp_measurable (by fun_prop)
  · ext x y
    rw [covarianceBilin_multivariateGaussian hpsd]
    rw [h, ← Measure.map_map (measurable_const_add μ) (by fun_prop), covarianceBilin_map_const_add,
      covarianceBilin_map, covarianceBilin_stdGaussian, innerSL_apply_apply,
      ContinuousLinearMap.adjoint_inner_left, ← ContinuousLinearMap.star_eq_adjoint, ← map_star,
      ← ContinuousLinearMap.comp_apply, ← ContinuousLinearMap.mul_def, ← map_mul,
      Matrix.star_eq_conjTranspose, Matrix.conjTranspose_eq_transpose_of_trivial, hS, inner_toEuclideanCLM]
    · exact IsGaussian.memLp_two_id

/-- Lebesgue measure with the `N(μ, S)` density IS Mathlib's `multivariateGaussian μ S` (transported along the
    measurable equivalence `toLp 2 : (ι → ℝ) ≃ EuclideanSpace ℝ ι`), for every positive definite `S`. -/
theorem map_toLp_mvnMeasure {S : Matrix ι ι ℝ} (hS : S.PosDef) (μ : ι → ℝ) :
    (mvnMeasure μ S).map (toLp 2) = multivariateGaussian (toLp 2 μ) S := by
  obtain ⟨L, hL, hdet⟩ := exists_factor hS
  unfold mvnMeasure
  rw [withDensity_mvnDensity_eq_map hL hdet μ, ← map_affine_stdGaussian_eq_multivariateGaussian hL,
    ← map_pi_eq_stdGaussian, Measure.map_map (by fun_prop) (by fun_prop),
    Measure.map_map (by fun_prop) (by fun_prop)]
  congr 1

/-- transfer of integrals -/
theorem integral_mvnMeasure_eq_gaussian {S : Matrix ι ι ℝ} (hS : S.PosDef) (μ : ι → ℝ)
    (h : EuclideanSpace ℝ ι → ℝ) :
    ∫ x, h (toLp 2 x) ∂(mvnMeasure μ S) = ∫ y, h y ∂(multivariateGaussian (toLp 2 μ) S) := by
  rw [← map_toLp_mvnMeasure hS μ, ← MeasurableEquiv.coe_toLp, integral_map_equiv]

/-- transfer of integrability -/
theorem integrable_mvnMeasure_of_gaussian {S : Matrix ι ι ℝ} (hS : S.PosDef) (μ : ι → ℝ)
    (h : EuclideanSpace ℝ ι → ℝ) (hh : Integrable h (multivariateGaussian (toLp 2 μ) S)) :
    Integrable (fun x => h (toLp 2 x)) (mvnMeasure μ S) := by
  rw [← map_toLp_mvnMeasure hS μ, ← MeasurableEquiv.coe_toLp] at hh
  exact (integrable_map_equiv _ _).mp hh

theorem memLp_eval_gaussian (S : Matrix ι ι ℝ) (μ : EuclideanSpace ℝ ι) (i : ι) :
    MemLp (fun y : EuclideanSpace ℝ ι => y i) 2 (multivariateGaussian μ S) := by
  have := (IsGaussian.memLp_two_id (μ := multivariateGaussian μ S))
  exact (EuclideanSpace.proj (𝕜 := ℝ) i).comp_memLp' this

theorem integral_eval_gaussian (S : Matrix ι ι ℝ) (μ : EuclideanSpace ℝ ι) (i : ι) :
    ∫ y : EuclideanSpace ℝ ι, y i ∂(multivariateGaussian μ S) = μ i := by
  have := ContinuousLinearMap.integral_comp_id_comm (μ := multivariateGaussian μ S)
    IsGaussian.integrable_id (EuclideanSpace.proj (𝕜 := ℝ) i)
  simpa using this

/-- first moments of the density: `∫ xᵢ · pdf = μᵢ` (and the integrand is integrable) -/
theorem integral_coord_mul_mvnDensity {S : Matrix ι ι ℝ} (hS : S.PosDef) (μ : ι → ℝ) (i : ι) :
    Integrable (fun x : ι → ℝ => x i * mvnDensity μ S x) ∧
    ∫ x : ι → ℝ, x i * mvnDensity μ S x = μ i := by
  constructor
  · rw [← integrable_mvnMeasure_iff]
    exact integrable_mvnMeasure_of_gaussian hS μ (fun y => y i)
      ((memLp_eval_gaussian S _ i).integrable (by norm_num))
  · rw [← integral_mvnMeasure, integral_mvnMeasure_eq_gaussian hS μ (fun y => y i), integral_eval_gaussian]

/-- second central moments of the density: `∫ (xᵢ-μᵢ)(xⱼ-μⱼ) · pdf = Sᵢⱼ` (and the integrand is integrable) -/
theorem integral_cov_mul_mvnDensity {S : Matrix ι ι ℝ} (hS : S.PosDef) (μ : ι → ℝ) (i j : ι) :
    Integrable (fun x : ι → ℝ => (x i - μ i) * (x j - μ j) * mvnDensity μ S x) ∧
    ∫ x : ι → ℝ, (x i - μ i) * (x j - μ j) * mvnDensity μ S x = S i j := by
  have hi := (memLp_eval_gaussian S (toLp 2 μ) i).sub (memLp_const (μ i))
  have hj := (memLp_eval_gaussian S (toLp 2 μ) j).sub (memLp_const (μ j))
  constructor
  · rw [← integrable_mvnMeasure_iff (g := fun x => (x i - μ i) * (x j - μ j))]
    exact integrable_mvnMeasure_of_gaussian hS μ (fun y => (y i - μ i) * (y j - μ j)) (hi.integrable_mul hj)
  · rw [← integral_mvnMeasure (g := fun x => (x i - μ i) * (x j - μ j)),
      integral_mvnMeasure_eq_gaussian hS μ (fun y => (y i - μ i) * (y j - μ j)),
      ← covariance_eval_multivariateGaussian (μ := toLp 2 μ) hS.posSemidef i j, covariance,
      integral_eval_gaussian, integral_eval_gaussian]

end Statrs.Lemmas.MVNIntegral
