/-
  The multivariate Student kernel `(1 + c|z|²)^(-p)` on `ι → ℝ` as a Gaussian scale mixture (pure Mathlib).

    * `lintegral_mul_kernel`   : `∫ W(z)(1+c|z|²)^(-p) dz = Γ(p)⁻¹ ∫₀^∞ s^(p-1)e^(-s)(π/(sc))^(n/2) E_{N(0,I/(2sc))}[W] ds`
      (Gamma-integral representation of `r^(-p)` + Tonelli), every measurable `W ≥ 0`;
    * `lintegral_kernel`       : `∫ (1+c|z|²)^(-p) dz = (π/c)^(n/2) Γ(p-n/2)/Γ(p)`            (`p > n/2`);
    * `lintegral_sq_mul_kernel`: `∫ z_k² (1+c|z|²)^(-p) dz = (π/c)^(n/2) Γ(p-n/2-1)/(2cΓ(p))`  (`p > n/2+1`).
-/
import Mathlib
set_option linter.unusedSectionVars false
set_option linter.unusedVariables false
namespace Statrs.Lemmas.MVTIntegral
open MeasureTheory ProbabilityTheory
open scoped NNReal ENNReal

variable {ι : Type*} [Fintype ι]

/-- density of `n` independent `N(0, v)` -/
noncomputable def gaussDensity (v : ℝ≥0) (z : ι → ℝ) : ℝ := ∏ i, gaussianPDFReal 0 v (z i)

theorem gaussDensity_nonneg (v : ℝ≥0) (z : ι → ℝ) : 0 ≤ gaussDensity v z :=
  Finset.prod_nonneg (fun i _ => gaussianPDFReal_nonneg 0 v (z i))

theorem measurable_gaussDensity (v : ℝ≥0) : Measurable (gaussDensity (ι := ι) v) := by
  unfold gaussDensity
  exact Finset.measurable_prod _ (fun i _ => (measurable_gaussianPDFReal 0 v).comp (measurable_pi_apply i))

/-- the law of `n` independent `N(0, v)` has density `gaussDensity v` w.r.t. Lebesgue measure -/
theorem pi_gaussianReal_eq_withDensity (v : ℝ≥0) (hv : v ≠ 0) :
    Measure.pi (fun _ : ι => gaussianReal 0 v) =
      (volume : Measure (ι → ℝ)).withDensity (fun z => ENNReal.ofReal (gaussDensity v z)) := by
  apply Measure.pi_eq
  intro s hs
  rw [withDensity_apply _ (MeasurableSet.univ_pi hs), ← lintegral_indicator (MeasurableSet.univ_pi hs)]
  have hind : ∀ z : ι → ℝ, (Set.univ.pi s).indicator (fun z => ENNReal.ofReal (gaussDensity v z)) z =
      ENNReal.ofReal (∏ i, (s i).indicator (gaussianPDFReal 0 v) (z i)) := by
    intro z
    classical
    by_cases hz : z ∈ Set.univ.pi s
    · rw [Set.indicator_of_mem hz]
      congr 1
      apply Finset.prod_congr rfl
      intro i _
      rw [Set.indicator_of_mem (hz i (Set.mem_univ i))]
    · rw [Set.indicator_of_notMem hz]
      simp only [Set.mem_pi, Set.mem_univ, forall_const, not_forall] at hz
      obtain ⟨i, hi⟩ := hz
      rw [Finset.prod_eq_zero (Finset.mem_univ i) (Set.indicator_of_notMem hi _)]
      simp
  simp_rw [hind]
  have hint : ∀ i, Integrable ((s i).indicator (gaussianPDFReal 0 v)) (volume : Measure ℝ) :=
    fun i => (integrable_gaussianPDFReal 0 v).indicator (hs i)
  rw [← ofReal_integral_eq_lintegral_ofReal]
  · rw [integral_fintype_prod_volume_eq_prod, ENNReal.ofReal_prod_of_nonneg]
    · apply Finset.prod_congr rfl
      intro i _
      rw [gaussianReal_apply_eq_integral 0 hv, integral_indicator (hs i)]
    · intro i _
      exact integral_nonneg (fun x => Set.indicator_nonneg (fun y _ => gaussianPDFReal_nonneg 0 v y) x)
  · exact Integrable.fintype_prod (μ := fun _ => (volume : Measure ℝ)) hint
  · exact Filter.Eventually.of_forall (fun z => Finset.prod_nonneg
      (fun i _ => Set.indicator_nonneg (fun y _ => gaussianPDFReal_nonneg 0 v y) (z i)))

/-- `exp(-b |z|²)` is `(π/b)^(n/2)` times the `N(0, 1/(2b) I)` density -/
theorem exp_neg_mul_sq_eq {b : ℝ} (hb : 0 < b) (z : ι → ℝ) :
    Real.exp (-(b * ∑ i, z i ^ 2)) =
      Real.sqrt (Real.pi / b) ^ Fintype.card ι * gaussDensity (Real.toNNReal (1 / (2 * b))) z := by
  unfold gaussDensity
  have hv : (0 : ℝ) ≤ 1 / (2 * b) := by positivity
  simp only [gaussianPDFReal, Real.coe_toNNReal _ hv, sub_zero]
  rw [Finset.prod_mul_distrib, Finset.prod_const, ← Real.exp_sum, Finset.card_univ]
  have h1 : 2 * Real.pi * (1 / (2 * b)) = Real.pi / b := by field_simp
  have h2 : ∑ i, -(z i) ^ 2 / (2 * (1 / (2 * b))) = -(b * ∑ i, z i ^ 2) := by
    rw [Finset.mul_sum, ← Finset.sum_neg_distrib]
    apply Finset.sum_congr rfl
    intro i _
    field_simp
  rw [h1, h2, ← mul_assoc, ← mul_pow, mul_inv_cancel₀, one_pow, one_mul]
  exact (Real.sqrt_pos.mpr (by positivity)).ne'

/-- the Gamma integral in `lintegral` form: `∫₀^∞ s^(a-1) e^(-r s) ds = r^(-a) Γ(a)` -/
theorem lintegral_rpow_mul_exp_neg_mul {a r : ℝ} (ha : 0 < a) (hr : 0 < r) :
    ∫⁻ s in Set.Ioi (0 : ℝ), ENNReal.ofReal (s ^ (a - 1) * Real.exp (-(r * s))) =
      ENNReal.ofReal (r ^ (-a) * Real.Gamma a) := by
  have h := Real.integral_rpow_mul_exp_neg_mul_Ioi ha hr
  have hpos : 0 < (1 / r) ^ a * Real.Gamma a :=
    mul_pos (Real.rpow_pos_of_pos (by positivity) _) (Real.Gamma_pos_of_pos ha)
  have hint : Integrable (fun s : ℝ => s ^ (a - 1) * Real.exp (-(r * s))) (volume.restrict (Set.Ioi 0)) := by
    by_contra hc
    rw [integral_undef hc] at h
    exact hpos.ne h
  have hnn : 0 ≤ᵐ[volume.restrict (Set.Ioi (0 : ℝ))] fun s : ℝ => s ^ (a - 1) * Real.exp (-(r * s)) := by
    filter_upwards [ae_restrict_mem measurableSet_Ioi] with s hs
    exact mul_nonneg (Real.rpow_nonneg (le_of_lt hs) _) (Real.exp_pos _).le
  rw [← ofReal_integral_eq_lintegral_ofReal hint hnn, h, one_div, Real.inv_rpow hr.le, Real.rpow_neg hr.le]

/-- pointwise Gamma mixture: `r^(-p) = Γ(p)⁻¹ ∫₀^∞ s^(p-1) e^(-r s) ds` -/
theorem ofReal_rpow_neg_eq_lintegral {p r : ℝ} (hp : 0 < p) (hr : 0 < r) :
    ENNReal.ofReal (r ^ (-p)) =
      ENNReal.ofReal (1 / Real.Gamma p) *
        ∫⁻ s in Set.Ioi (0 : ℝ), ENNReal.ofReal (s ^ (p - 1) * Real.exp (-(r * s))) := by
  have hG := Real.Gamma_pos_of_pos hp
  rw [lintegral_rpow_mul_exp_neg_mul hp hr, ← ENNReal.ofReal_mul (by positivity)]
  congr 1
  field_simp

variable (ι) in
/-- the variance of the Gaussian component at mixing value `s` -/
noncomputable def mixVar (c s : ℝ) : ℝ≥0 := Real.toNNReal (1 / (2 * (s * c)))

/-- **Gaussian scale mixture**: for every measurable weight `W ≥ 0`, `p > 0`, `c > 0`
    `∫ W(z) (1 + c|z|²)^(-p) dz = Γ(p)⁻¹ ∫₀^∞ s^(p-1) e^(-s) (π/(sc))^(n/2) E_{N(0, I/(2sc))}[W] ds`. -/
theorem lintegral_mul_kernel (W : (ι → ℝ) → ℝ≥0∞) (hW : Measurable W) {p c : ℝ} (hp : 0 < p) (hc : 0 < c) :
    ∫⁻ z, W z * ENNReal.ofReal ((1 + c * ∑ i, z i ^ 2) ^ (-p)) =
      ENNReal.ofReal (1 / Real.Gamma p) *
        ∫⁻ s in Set.Ioi (0 : ℝ),
          ENNReal.ofReal (s ^ (p - 1) * Real.exp (-s) * Real.sqrt (Real.pi / (s * c)) ^ Fintype.card ι) *
            ∫⁻ z, W z ∂(Measure.pi fun _ : ι => gaussianReal 0 (mixVar c s)) := by
  have hq : ∀ z : ι → ℝ, 0 < 1 + c * ∑ i, z i ^ 2 := by
    intro z
    have : 0 ≤ ∑ i, z i ^ 2 := Finset.sum_nonneg (fun i _ => sq_nonneg _)
    positivity
  -- step 1: mixture inside
  have h1 : ∀ z : ι → ℝ, W z * ENNReal.ofReal ((1 + c * ∑ i, z i ^ 2) ^ (-p)) =
      ENNReal.ofReal (1 / Real.Gamma p) * ∫⁻ s in Set.Ioi (0 : ℝ),
        W z * ENNReal.ofReal (s ^ (p - 1) * Real.exp (-((1 + c * ∑ i, z i ^ 2) * s))) := by
    intro z
    rw [ofReal_rpow_neg_eq_lintegral hp (hq z), lintegral_const_mul]
    · ring
    · fun_prop
  simp_rw [h1]
  rw [lintegral_const_mul' _ _ ENNReal.ofReal_ne_top]
  congr 1
  -- step 2: Tonelli
  rw [lintegral_lintegral_swap]
  · apply setLIntegral_congr_fun measurableSet_Ioi
    intro s hs
    have hs0 : 0 < s := hs
    have hb : 0 < s * c := mul_pos hs0 hc
    have hv : mixVar c s ≠ 0 := by
      unfold mixVar
      rw [ne_eq, Real.toNNReal_eq_zero, not_le]
      positivity
    have h2 : ∀ z : ι → ℝ, W z * ENNReal.ofReal (s ^ (p - 1) * Real.exp (-((1 + c * ∑ i, z i ^ 2) * s))) =
        ENNReal.ofReal (s ^ (p - 1) * Real.exp (-s) * Real.sqrt (Real.pi / (s * c)) ^ Fintype.card ι) *
          (ENNReal.ofReal (gaussDensity (mixVar c s) z) * W z) := by
      intro z
      rw [← mul_assoc, ← ENNReal.ofReal_mul (by positivity), mul_comm (W z)]
      congr 2
      rw [show -((1 + c * ∑ i, z i ^ 2) * s) = -s + -(s * c * ∑ i, z i ^ 2) by ring, Real.exp_add,
        exp_neg_mul_sq_eq hb z]
      unfold mixVar
      ring
    simp_rw [h2]
    rw [lintegral_const_mul' _ _ ENNReal.ofReal_ne_top, pi_gaussianReal_eq_withDensity _ hv,
      lintegral_withDensity_eq_lintegral_mul _ (measurable_gaussDensity _).ennreal_ofReal hW]
    rfl
  · apply Measurable.aemeasurable
    apply Measurable.mul
    · exact hW.comp measurable_fst
    · apply Measurable.ennreal_ofReal
      apply Measurable.mul
      · exact measurable_snd.pow_const _
      · apply Real.measurable_exp.comp
        apply Measurable.neg
        apply Measurable.mul _ measurable_snd
        apply Measurable.const_add
        apply Measurable.const_mul
        exact Finset.measurable_sum _ (fun i _ => ((measurable_pi_apply i).comp measurable_fst).pow_const 2)

/-- `√(π/(sc))ⁿ = √(π/c)ⁿ · s^(-n/2)` -/
theorem sqrt_pow_split {c s : ℝ} (hc : 0 < c) (hs : 0 < s) (n : ℕ) :
    Real.sqrt (Real.pi / (s * c)) ^ n = Real.sqrt (Real.pi / c) ^ n * s ^ (-(n : ℝ) / 2) := by
  have h1 : Real.pi / (s * c) = Real.pi / c * s⁻¹ := by field_simp
  rw [h1, Real.sqrt_mul (by positivity), mul_pow]
  congr 1
  rw [Real.sqrt_eq_rpow, ← Real.rpow_natCast, ← Real.rpow_mul (by positivity), Real.inv_rpow hs.le,
    ← Real.rpow_neg hs.le]
  congr 1
  ring

/-- **normalisation of the Student kernel**: for `p > n/2`, `c > 0`
    `∫ (1 + c|z|²)^(-p) dz = (π/c)^(n/2) Γ(p - n/2) / Γ(p)`. -/
theorem lintegral_kernel {p c : ℝ} (hc : 0 < c) (hp : (Fintype.card ι : ℝ) / 2 < p) :
    ∫⁻ z : ι → ℝ, ENNReal.ofReal ((1 + c * ∑ i, z i ^ 2) ^ (-p)) =
      ENNReal.ofReal (Real.sqrt (Real.pi / c) ^ Fintype.card ι *
        Real.Gamma (p - (Fintype.card ι : ℝ) / 2) / Real.Gamma p) := by
  have hp0 : 0 < p := lt_of_le_of_lt (by positivity) hp
  have ha : 0 < p - (Fintype.card ι : ℝ) / 2 := by linarith
  have h := lintegral_mul_kernel (ι := ι) (fun _ => 1) measurable_const hp0 hc
  simp only [one_mul] at h
  rw [h]
  have hinner : ∀ s ∈ Set.Ioi (0 : ℝ),
      ENNReal.ofReal (s ^ (p - 1) * Real.exp (-s) * Real.sqrt (Real.pi / (s * c)) ^ Fintype.card ι) *
          ∫⁻ z, 1 ∂(Measure.pi fun _ : ι => gaussianReal 0 (mixVar c s)) =
        ENNReal.ofReal (Real.sqrt (Real.pi / c) ^ Fintype.card ι) *
          ENNReal.ofReal (s ^ (p - (Fintype.card ι : ℝ) / 2 - 1) * Real.exp (-(1 * s))) := by
    intro s hs
    have hs0 : 0 < s := hs
    rw [lintegral_one, measure_univ, mul_one, ← ENNReal.ofReal_mul (by positivity), sqrt_pow_split hc hs0]
    congr 1
    rw [show p - (Fintype.card ι : ℝ) / 2 - 1 = (p - 1) + (-(Fintype.card ι : ℝ) / 2) by ring,
      Real.rpow_add hs0, one_mul]
    ring
  rw [setLIntegral_congr_fun measurableSet_Ioi hinner, lintegral_const_mul' _ _ ENNReal.ofReal_ne_top,
    lintegral_rpow_mul_exp_neg_mul ha one_pos, Real.one_rpow, one_mul,
    ← ENNReal.ofReal_mul (by positivity), ← ENNReal.ofReal_mul (by have := Real.Gamma_pos_of_pos hp0; positivity)]
  congr 1
  have := (Real.Gamma_pos_of_pos hp0).ne'
  field_simp

/-- second moment of one coordinate under independent `N(0, v)` coordinates -/
theorem lintegral_sq_pi_gaussianReal (v : ℝ≥0) (k : ι) :
    ∫⁻ z, ENNReal.ofReal (z k ^ 2) ∂(Measure.pi fun _ : ι => gaussianReal 0 v) = ENNReal.ofReal v := by
  have hint1 : Integrable (fun t : ℝ => t ^ 2) (gaussianReal 0 v) :=
    (memLp_id_gaussianReal (μ := 0) (v := v) 2).integrable_sq
  have hint : Integrable (fun z : ι → ℝ => z k ^ 2) (Measure.pi fun _ : ι => gaussianReal 0 v) :=
    integrable_comp_eval (μ := fun _ : ι => gaussianReal 0 v) (i := k) hint1
  rw [← ofReal_integral_eq_lintegral_ofReal hint (Filter.Eventually.of_forall (fun z => sq_nonneg _)),
    integral_comp_eval (μ := fun _ : ι => gaussianReal 0 v) (i := k) (f := fun t : ℝ => t ^ 2)
      hint1.aestronglyMeasurable]
  congr 1
  have hvar := variance_id_gaussianReal (μ := 0) (v := v)
  rw [variance_of_integral_eq_zero aemeasurable_id (by simp)] at hvar
  simpa using hvar

/-- **second moments of the Student kernel**: for `p > n/2 + 1`, `c > 0`
    `∫ z_k² (1 + c|z|²)^(-p) dz = (π/c)^(n/2) Γ(p - n/2 - 1) / (2 c Γ(p))`. -/
theorem lintegral_sq_mul_kernel {p c : ℝ} (hc : 0 < c) (hp : (Fintype.card ι : ℝ) / 2 + 1 < p) (k : ι) :
    ∫⁻ z : ι → ℝ, ENNReal.ofReal (z k ^ 2) * ENNReal.ofReal ((1 + c * ∑ i, z i ^ 2) ^ (-p)) =
      ENNReal.ofReal (Real.sqrt (Real.pi / c) ^ Fintype.card ι *
        Real.Gamma (p - (Fintype.card ι : ℝ) / 2 - 1) / (2 * c * Real.Gamma p)) := by
  have hp0 : 0 < p := lt_of_le_of_lt (by positivity) hp
  have ha : 0 < p - (Fintype.card ι : ℝ) / 2 - 1 := by linarith
  have h := lintegral_mul_kernel (ι := ι) (fun z => ENNReal.ofReal (z k ^ 2))
    ((measurable_pi_apply k).pow_const 2).ennreal_ofReal hp0 hc
  rw [h]
  have hinner : ∀ s ∈ Set.Ioi (0 : ℝ),
      ENNReal.ofReal (s ^ (p - 1) * Real.exp (-s) * Real.sqrt (Real.pi / (s * c)) ^ Fintype.card ι) *
          ∫⁻ z, ENNReal.ofReal (z k ^ 2) ∂(Measure.pi fun _ : ι => gaussianReal 0 (mixVar c s)) =
        ENNReal.ofReal (Real.sqrt (Real.pi / c) ^ Fintype.card ι / (2 * c)) *
          ENNReal.ofReal (s ^ (p - (Fintype.card ι : ℝ) / 2 - 1 - 1) * Real.exp (-(1 * s))) := by
    intro s hs
    have hs0 : 0 < s := hs
    rw [lintegral_sq_pi_gaussianReal, ← ENNReal.ofReal_mul (by positivity), ← ENNReal.ofReal_mul (by positivity),
      sqrt_pow_split hc hs0]
    congr 1
    unfold mixVar
    rw [Real.coe_toNNReal _ (by positivity),
      show p - (Fintype.card ι : ℝ) / 2 - 1 - 1 = (p - 1) + (-(Fintype.card ι : ℝ) / 2) + (-1) by ring,
      Real.rpow_add hs0, Real.rpow_add hs0, Real.rpow_neg_one, one_mul]
    field_simp
  rw [setLIntegral_congr_fun measurableSet_Ioi hinner, lintegral_const_mul' _ _ ENNReal.ofReal_ne_top,
    lintegral_rpow_mul_exp_neg_mul ha one_pos, Real.one_rpow, one_mul,
    ← ENNReal.ofReal_mul (by positivity), ← ENNReal.ofReal_mul (by have := Real.Gamma_pos_of_pos hp0; positivity)]
  congr 1
  have := (Real.Gamma_pos_of_pos hp0).ne'
  field_simp

end Statrs.Lemmas.MVTIntegral
