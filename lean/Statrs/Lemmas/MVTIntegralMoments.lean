/-
  Moments of the multivariate Student density on `ι → ℝ` (pure Mathlib, no model imports).

    * `stdTDensity ν` (standard spherical), `mvtDensity μ S ν` (location `μ`, scale matrix `S`);
    * `withDensity_mvtDensity_eq_map` — Lebesgue measure with density `mvtDensity μ S ν` is the law of `μ + L T`;
    * `integral_mvtDensity`            — `∫ pdf = 1`                              (`S` positive definite, `ν > 0`);
    * `integral_coord_mul_mvtDensity`  — `∫ xᵢ pdf = μᵢ`                          (`ν > 1`);
    * `integral_cov_mul_mvtDensity`    — `∫ (xᵢ-μᵢ)(xⱼ-μⱼ) pdf = ν/(ν-2) Sᵢⱼ`     (`ν > 2`);
    each with the integrability of its integrand (decay `(1+‖z‖²)^(-r/2)`, `r > n`).
-/
import Statrs.Lemmas.MVNIntegralGauss
import Statrs.Lemmas.MVTIntegral
set_option linter.unusedSectionVars false
set_option linter.unusedVariables false
namespace Statrs.Lemmas.MVTIntegral
open MeasureTheory ProbabilityTheory Matrix Statrs.Lemmas.MVNIntegral
open scoped NNReal ENNReal

variable {ι : Type*} [Fintype ι]

/-! ### measures with a real density -/

theorem integral_withDensity_ofReal {X : Type*} [MeasurableSpace X] (μ : Measure X) {f : X → ℝ}
    (hf : Measurable f) (h0 : ∀ x, 0 ≤ f x) (g : X → ℝ) :
    ∫ x, g x ∂(μ.withDensity (fun x => ENNReal.ofReal (f x))) = ∫ x, g x * f x ∂μ := by
  rw [integral_withDensity_eq_integral_toReal_smul (f := fun x => ENNReal.ofReal (f x)) hf.ennreal_ofReal
    (Filter.Eventually.of_forall (fun x => ENNReal.ofReal_lt_top))]
  apply integral_congr_ae
  filter_upwards with x
  rw [ENNReal.toReal_ofReal (h0 x), smul_eq_mul, mul_comm]

theorem integrable_withDensity_ofReal_iff {X : Type*} [MeasurableSpace X] (μ : Measure X) {f : X → ℝ}
    (hf : Measurable f) (h0 : ∀ x, 0 ≤ f x) (g : X → ℝ) :
    Integrable g (μ.withDensity (fun x => ENNReal.ofReal (f x))) ↔ Integrable (fun x => g x * f x) μ := by
  rw [integrable_withDensity_iff (f := fun x => ENNReal.ofReal (f x)) hf.ennreal_ofReal
    (Filter.Eventually.of_forall (fun x => ENNReal.ofReal_lt_top))]
  simp only [ENNReal.toReal_ofReal (h0 _)]

/-! ### the standard spherical Student density -/

variable (ι) in
/-- the normalising constant `Γ((ν+n)/2) / (Γ(ν/2) (νπ)^(n/2))` -/
noncomputable def tConst (ν : ℝ) : ℝ :=
  Real.Gamma ((ν + Fintype.card ι) / 2) / (Real.Gamma (ν / 2) * Real.sqrt (ν * Real.pi) ^ Fintype.card ι)

/-- the standard `n`-variate Student density with `ν` degrees of freedom -/
noncomputable def stdTDensity (ν : ℝ) (z : ι → ℝ) : ℝ :=
  tConst ι ν * (1 + (∑ i, z i ^ 2) / ν) ^ (-(ν + Fintype.card ι) / 2)

theorem tConst_pos {ν : ℝ} (hν : 0 < ν) : 0 < tConst ι ν := by
  unfold tConst
  have h1 := Real.Gamma_pos_of_pos (show 0 < (ν + Fintype.card ι) / 2 by positivity)
  have h2 := Real.Gamma_pos_of_pos (show 0 < ν / 2 by positivity)
  have h3 : 0 < Real.sqrt (ν * Real.pi) := Real.sqrt_pos.mpr (by positivity)
  positivity

theorem base_pos {ν : ℝ} (hν : 0 < ν) (z : ι → ℝ) : 0 < 1 + (∑ i, z i ^ 2) / ν := by
  have : 0 ≤ ∑ i, z i ^ 2 := Finset.sum_nonneg (fun i _ => sq_nonneg _)
  positivity

theorem stdTDensity_nonneg {ν : ℝ} (hν : 0 < ν) (z : ι → ℝ) : 0 ≤ stdTDensity ν z :=
  mul_nonneg (tConst_pos hν).le (Real.rpow_nonneg (base_pos hν z).le _)

theorem measurable_stdTDensity (ν : ℝ) : Measurable (stdTDensity (ι := ι) ν) := by
  unfold stdTDensity
  refine measurable_const.mul (Measurable.pow_const ?_ _)
  exact measurable_const.add ((Finset.measurable_sum _ (fun i _ => (measurable_pi_apply i).pow_const 2)).div_const ν)

theorem stdTDensity_eq_kernel (ν : ℝ) (z : ι → ℝ) :
    stdTDensity ν z = tConst ι ν * (1 + (1 / ν) * ∑ i, z i ^ 2) ^ (-((ν + Fintype.card ι) / 2)) := by
  unfold stdTDensity
  congr 2 <;> ring

/-- the standard Student density integrates to 1 -/
theorem lintegral_stdTDensity {ν : ℝ} (hν : 0 < ν) :
    ∫⁻ z : ι → ℝ, ENNReal.ofReal (stdTDensity ν z) = 1 := by
  simp_rw [stdTDensity_eq_kernel, ENNReal.ofReal_mul (tConst_pos (ι := ι) hν).le]
  rw [lintegral_const_mul' _ _ ENNReal.ofReal_ne_top,
    lintegral_kernel (ι := ι) (one_div_pos.mpr hν) (by linarith), ← ENNReal.ofReal_mul (tConst_pos hν).le,
    ← ENNReal.ofReal_one]
  congr 1
  unfold tConst
  have h1 := (Real.Gamma_pos_of_pos (show 0 < (ν + Fintype.card ι) / 2 by positivity)).ne'
  have h2 := (Real.Gamma_pos_of_pos (show 0 < ν / 2 by positivity)).ne'
  have h3 : Real.sqrt (ν * Real.pi) ≠ 0 := (Real.sqrt_pos.mpr (by positivity)).ne'
  rw [show Real.pi / (1 / ν) = ν * Real.pi by field_simp,
    show (ν + Fintype.card ι) / 2 - (Fintype.card ι : ℝ) / 2 = ν / 2 by ring]
  field_simp

/-- second moments of one coordinate, `ν > 2` -/
theorem lintegral_sq_mul_stdTDensity {ν : ℝ} (hν : 2 < ν) (k : ι) :
    ∫⁻ z : ι → ℝ, ENNReal.ofReal (z k ^ 2) * ENNReal.ofReal (stdTDensity ν z) = ENNReal.ofReal (ν / (ν - 2)) := by
  have hν0 : 0 < ν := by linarith
  simp_rw [stdTDensity_eq_kernel, ENNReal.ofReal_mul (tConst_pos (ι := ι) hν0).le, ← mul_assoc,
    mul_comm (ENNReal.ofReal (_ ^ 2)) (ENNReal.ofReal (tConst ι ν)), mul_assoc]
  rw [lintegral_const_mul' _ _ ENNReal.ofReal_ne_top,
    lintegral_sq_mul_kernel (ι := ι) (one_div_pos.mpr hν0) (by linarith) k,
    ← ENNReal.ofReal_mul (tConst_pos hν0).le]
  congr 1
  unfold tConst
  have h1 := (Real.Gamma_pos_of_pos (show 0 < (ν + Fintype.card ι) / 2 by positivity)).ne'
  have h2 := (Real.Gamma_pos_of_pos (show 0 < ν / 2 - 1 by linarith)).ne'
  have h3 : Real.sqrt (ν * Real.pi) ≠ 0 := (Real.sqrt_pos.mpr (by positivity)).ne'
  have hG : Real.Gamma (ν / 2) = (ν / 2 - 1) * Real.Gamma (ν / 2 - 1) := by
    have := Real.Gamma_add_one (show ν / 2 - 1 ≠ 0 by linarith)
    rwa [sub_add_cancel] at this
  have h4 : ν / 2 - 1 ≠ 0 := by linarith
  have h5 : ν - 2 ≠ 0 := by linarith
  rw [show Real.pi / (1 / ν) = ν * Real.pi by field_simp,
    show (ν + Fintype.card ι) / 2 - (Fintype.card ι : ℝ) / 2 - 1 = ν / 2 - 1 by ring, hG]
  generalize Real.Gamma (ν / 2 - 1) = g at h2 ⊢
  generalize Real.Gamma ((ν + Fintype.card ι) / 2) = g' at h1 ⊢
  have hw : Real.sqrt (ν * Real.pi) ^ Fintype.card ι ≠ 0 := pow_ne_zero _ h3
  generalize Real.sqrt (ν * Real.pi) ^ Fintype.card ι = w at hw ⊢
  field_simp

/-! ### integrability from the decay of the kernel -/

theorem norm_sq_le_sum_sq (z : ι → ℝ) : ‖z‖ ^ 2 ≤ ∑ i, z i ^ 2 := by
  have hS : 0 ≤ ∑ i, z i ^ 2 := Finset.sum_nonneg (fun i _ => sq_nonneg _)
  have h : ‖z‖ ≤ Real.sqrt (∑ i, z i ^ 2) := by
    rw [pi_norm_le_iff_of_nonneg (Real.sqrt_nonneg _)]
    intro i
    rw [Real.norm_eq_abs, ← Real.sqrt_sq_eq_abs]
    exact Real.sqrt_le_sqrt (Finset.single_le_sum (f := fun i => z i ^ 2) (fun i _ => sq_nonneg _) (Finset.mem_univ i))
  calc ‖z‖ ^ 2 ≤ Real.sqrt (∑ i, z i ^ 2) ^ 2 := pow_le_pow_left₀ (norm_nonneg _) h 2
    _ = ∑ i, z i ^ 2 := Real.sq_sqrt hS

/-- if `|g| ≤ (1 + ‖z‖²)^a` with `2a < ν` then `g · stdTDensity ν` is integrable -/
theorem integrable_mul_stdTDensity_of_bound {ν : ℝ} (hν : 0 < ν) (g : (ι → ℝ) → ℝ) (hg : Measurable g) (a : ℝ)
    (hbound : ∀ z, |g z| ≤ (1 + ‖z‖ ^ 2) ^ a) (ha : 2 * a < ν) :
    Integrable (fun z => g z * stdTDensity ν z) := by
  set p : ℝ := (ν + Fintype.card ι) / 2 with hp
  set r : ℝ := ν + Fintype.card ι - 2 * a with hr
  set m : ℝ := min 1 (1 / ν) with hm
  have hm0 : 0 < m := lt_min one_pos (one_div_pos.mpr hν)
  have hp0 : 0 < p := by positivity
  have hdom : Integrable (fun z : ι → ℝ => (tConst ι ν * m ^ (-p)) * (1 + ‖z‖ ^ 2) ^ (-r / 2)) := by
    apply Integrable.const_mul
    apply integrable_rpow_neg_one_add_norm_sq
    rw [Module.finrank_fintype_fun_eq_card, hr]
    linarith
  refine hdom.mono' (hg.mul (measurable_stdTDensity ν)).aestronglyMeasurable (Filter.Eventually.of_forall ?_)
  intro z
  have hb : 0 < 1 + ‖z‖ ^ 2 := by positivity
  have hbase : m * (1 + ‖z‖ ^ 2) ≤ 1 + (∑ i, z i ^ 2) / ν := by
    have h1 : m ≤ 1 := min_le_left _ _
    have h2 : m ≤ 1 / ν := min_le_right _ _
    have h3 := norm_sq_le_sum_sq z
    have h4 : 0 ≤ ‖z‖ ^ 2 := by positivity
    calc m * (1 + ‖z‖ ^ 2) = m + m * ‖z‖ ^ 2 := by ring
      _ ≤ 1 + 1 / ν * ‖z‖ ^ 2 := add_le_add h1 (mul_le_mul_of_nonneg_right h2 h4)
      _ ≤ 1 + 1 / ν * ∑ i, z i ^ 2 := by
        have : 0 ≤ 1 / ν := by positivity
        nlinarith
      _ = 1 + (∑ i, z i ^ 2) / ν := by ring
  have hk : (1 + (∑ i, z i ^ 2) / ν) ^ (-(ν + Fintype.card ι) / 2) ≤ m ^ (-p) * (1 + ‖z‖ ^ 2) ^ (-p) := by
    rw [← Real.mul_rpow hm0.le hb.le, show -(ν + Fintype.card ι) / 2 = -p by rw [hp]; ring]
    exact (Real.rpow_le_rpow_iff_of_neg (base_pos hν z) (by positivity) (by linarith)).mpr hbase
  rw [Real.norm_eq_abs, abs_mul, abs_of_nonneg (stdTDensity_nonneg hν z)]
  unfold stdTDensity
  have hT := (tConst_pos (ι := ι) hν).le
  calc |g z| * (tConst ι ν * (1 + (∑ i, z i ^ 2) / ν) ^ (-(ν + Fintype.card ι) / 2))
      ≤ (1 + ‖z‖ ^ 2) ^ a * (tConst ι ν * (m ^ (-p) * (1 + ‖z‖ ^ 2) ^ (-p))) := by
        apply mul_le_mul (hbound z) (mul_le_mul_of_nonneg_left hk hT)
          (mul_nonneg hT (Real.rpow_nonneg (base_pos hν z).le _)) (Real.rpow_nonneg hb.le _)
    _ = tConst ι ν * m ^ (-p) * ((1 + ‖z‖ ^ 2) ^ a * (1 + ‖z‖ ^ 2) ^ (-p)) := by ring
    _ = tConst ι ν * m ^ (-p) * (1 + ‖z‖ ^ 2) ^ (-r / 2) := by
        rw [← Real.rpow_add hb]
        congr 2
        rw [hr, hp]; ring

theorem abs_coord_le (z : ι → ℝ) (k : ι) : |z k| ≤ (1 + ‖z‖ ^ 2) ^ ((1 : ℝ) / 2) := by
  have h1 : |z k| ≤ ‖z‖ := by rw [← Real.norm_eq_abs]; exact norm_le_pi_norm z k
  have h2 : ‖z‖ ≤ Real.sqrt (1 + ‖z‖ ^ 2) := by
    rw [← Real.sqrt_sq (norm_nonneg z)]
    exact Real.sqrt_le_sqrt (by rw [Real.sqrt_sq (norm_nonneg z)]; linarith)
  rw [← Real.sqrt_eq_rpow]
  exact h1.trans h2

/-! ### reflection of one coordinate -/

variable [DecidableEq ι]

/-- reflect coordinate `k` -/
def flip (k : ι) (z : ι → ℝ) : ι → ℝ := fun i => if i = k then -z i else z i

theorem flip_flip (k : ι) (z : ι → ℝ) : flip k (flip k z) = z := by
  funext i; unfold flip; by_cases h : i = k <;> simp [h]

theorem measurable_flip (k : ι) : Measurable (flip k) := by
  rw [measurable_pi_iff]
  intro i
  unfold flip
  by_cases h : i = k
  · simp only [h, if_true]; exact (measurable_pi_apply k).neg
  · simp only [h, if_false]; exact measurable_pi_apply i

/-- the reflection as a measurable equivalence -/
def flipEquiv (k : ι) : (ι → ℝ) ≃ᵐ (ι → ℝ) where
  toFun := flip k
  invFun := flip k
  left_inv := flip_flip k
  right_inv := flip_flip k
  measurable_toFun := measurable_flip k
  measurable_invFun := measurable_flip k

theorem measurePreserving_flip (k : ι) : MeasurePreserving (flipEquiv k) (volume : Measure (ι → ℝ)) volume := by
  have h : ∀ i : ι, MeasurePreserving (fun t : ℝ => if i = k then -t else t) volume volume := by
    intro i
    by_cases hi : i = k
    · simp only [hi, if_true]; exact Measure.measurePreserving_neg _
    · simp only [hi, if_false]; exact MeasurePreserving.id _
  exact volume_preserving_pi h

theorem stdTDensity_flip (ν : ℝ) (k : ι) (z : ι → ℝ) : stdTDensity ν (flip k z) = stdTDensity ν z := by
  unfold stdTDensity flip
  congr 4
  apply Finset.sum_congr rfl
  intro i _
  by_cases h : i = k <;> simp [h]

/-- an integrand that changes sign under a reflection integrates to 0 -/
theorem integral_eq_zero_of_flip (k : ι) (f : (ι → ℝ) → ℝ) (hf : ∀ z, f (flip k z) = -f z) :
    ∫ z, f z = 0 := by
  have h := (measurePreserving_flip k).integral_comp' f
  have h' : ∫ z, f (flipEquiv k z) = -∫ z, f z := by
    rw [← integral_neg]; exact integral_congr_ae (Filter.Eventually.of_forall hf)
  rw [h'] at h
  linarith

/-! ### moments of the standard Student density -/

/-- normalisation -/
theorem integral_stdTDensity {ν : ℝ} (hν : 0 < ν) :
    Integrable (stdTDensity (ι := ι) ν) ∧ ∫ z : ι → ℝ, stdTDensity ν z = 1 := by
  have h := lintegral_stdTDensity (ι := ι) hν
  constructor
  · refine ⟨(measurable_stdTDensity ν).aestronglyMeasurable, ?_⟩
    rw [hasFiniteIntegral_iff_ofReal (Filter.Eventually.of_forall (stdTDensity_nonneg hν)), h]
    exact ENNReal.one_lt_top
  · rw [integral_eq_lintegral_of_nonneg_ae (Filter.Eventually.of_forall (stdTDensity_nonneg hν))
      (measurable_stdTDensity ν).aestronglyMeasurable, h]
    rfl

/-- first moments vanish, `ν > 1` -/
theorem integral_coord_mul_stdTDensity {ν : ℝ} (hν : 1 < ν) (k : ι) :
    Integrable (fun z : ι → ℝ => z k * stdTDensity ν z) ∧ ∫ z : ι → ℝ, z k * stdTDensity ν z = 0 := by
  constructor
  · exact integrable_mul_stdTDensity_of_bound (by linarith) (fun z => z k) (measurable_pi_apply k) (1 / 2)
      (fun z => abs_coord_le z k) (by linarith)
  · apply integral_eq_zero_of_flip k
    intro z
    rw [stdTDensity_flip]
    simp [flip]

/-- second moments, `ν > 2`: `ν/(ν-2)` on the diagonal, `0` off it -/
theorem integral_coord_mul_coord_mul_stdTDensity {ν : ℝ} (hν : 2 < ν) (k l : ι) :
    Integrable (fun z : ι → ℝ => z k * z l * stdTDensity ν z) ∧
    ∫ z : ι → ℝ, z k * z l * stdTDensity ν z = if k = l then ν / (ν - 2) else 0 := by
  have hν0 : 0 < ν := by linarith
  constructor
  · refine integrable_mul_stdTDensity_of_bound hν0 (fun z => z k * z l)
      ((measurable_pi_apply k).mul (measurable_pi_apply l)) 1 (fun z => ?_) (by linarith)
    rw [Real.rpow_one, abs_mul]
    have h1 : |z k| ≤ ‖z‖ := by rw [← Real.norm_eq_abs]; exact norm_le_pi_norm z k
    have h2 : |z l| ≤ ‖z‖ := by rw [← Real.norm_eq_abs]; exact norm_le_pi_norm z l
    nlinarith [abs_nonneg (z k), abs_nonneg (z l), norm_nonneg z]
  · by_cases hkl : k = l
    · subst hkl
      rw [if_pos rfl]
      have hnn : ∀ z : ι → ℝ, 0 ≤ z k * z k * stdTDensity ν z :=
        fun z => mul_nonneg (mul_self_nonneg _) (stdTDensity_nonneg hν0 z)
      rw [integral_eq_lintegral_of_nonneg_ae (Filter.Eventually.of_forall hnn)
        (((measurable_pi_apply k).mul (measurable_pi_apply k)).mul (measurable_stdTDensity ν)).aestronglyMeasurable]
      have := lintegral_sq_mul_stdTDensity (ι := ι) hν k
      simp_rw [← ENNReal.ofReal_mul (sq_nonneg _), pow_two] at this
      rw [this, ENNReal.toReal_ofReal (div_nonneg hν0.le (by linarith))]
    · rw [if_neg hkl]
      apply integral_eq_zero_of_flip k
      intro z
      rw [stdTDensity_flip]
      simp [flip, Ne.symm hkl]

/-! ### location `μ`, scale matrix `S` -/

/-- the `n`-variate Student density with location `μ`, scale matrix `S`, `ν` degrees of freedom -/
noncomputable def mvtDensity (μ : ι → ℝ) (S : Matrix ι ι ℝ) (ν : ℝ) (x : ι → ℝ) : ℝ :=
  tConst ι ν / Real.sqrt S.det * (1 + ((x - μ) ⬝ᵥ S⁻¹ *ᵥ (x - μ)) / ν) ^ (-(ν + Fintype.card ι) / 2)

theorem mvtDensity_eq_of_factor {L S : Matrix ι ι ℝ} (hS : L * Lᵀ = S) (hL : L.det ≠ 0) (μ : ι → ℝ) (ν : ℝ)
    (x : ι → ℝ) : mvtDensity μ S ν x = |L.det|⁻¹ * stdTDensity ν (L⁻¹ *ᵥ (x - μ)) := by
  unfold mvtDensity stdTDensity
  have hdet : S.det = L.det ^ 2 := by rw [← hS, Matrix.det_mul, Matrix.det_transpose, pow_two]
  rw [quad_eq_of_factor hS hL, hdet, Real.sqrt_sq_eq_abs]
  ring

theorem measurable_mvtDensity (μ : ι → ℝ) (S : Matrix ι ι ℝ) (ν : ℝ) : Measurable (mvtDensity μ S ν) := by
  unfold mvtDensity
  have hc : Continuous (fun x : ι → ℝ => (x - μ) ⬝ᵥ S⁻¹ *ᵥ (x - μ)) := by
    have h1 : Continuous (fun x : ι → ℝ => x - μ) := continuous_id.sub continuous_const
    have h2 : Continuous (fun x : ι → ℝ => S⁻¹ *ᵥ (x - μ)) :=
      (Matrix.toLin' S⁻¹).continuous_of_finiteDimensional.comp h1
    exact h1.dotProduct h2
  exact measurable_const.mul ((measurable_const.add (hc.measurable.div_const ν)).pow_const _)

theorem mvtDensity_nonneg {L S : Matrix ι ι ℝ} (hS : L * Lᵀ = S) (hL : L.det ≠ 0) (μ : ι → ℝ) {ν : ℝ}
    (hν : 0 < ν) (x : ι → ℝ) : 0 ≤ mvtDensity μ S ν x := by
  rw [mvtDensity_eq_of_factor hS hL]
  exact mul_nonneg (inv_nonneg.mpr (abs_nonneg _)) (stdTDensity_nonneg hν _)

/-- Lebesgue measure with density `mvtDensity μ S ν` is the law of `μ + L T`, `T` standard Student,
    for every factorisation `L Lᵀ = S`, `det L ≠ 0` -/
theorem withDensity_mvtDensity_eq_map {L S : Matrix ι ι ℝ} (hS : L * Lᵀ = S) (hL : L.det ≠ 0) (μ : ι → ℝ)
    (ν : ℝ) :
    (volume : Measure (ι → ℝ)).withDensity (fun x => ENNReal.ofReal (mvtDensity μ S ν x)) =
      Measure.map (affineEquiv μ L hL)
        ((volume : Measure (ι → ℝ)).withDensity (fun z => ENNReal.ofReal (stdTDensity ν z))) := by
  rw [map_affine_withDensity μ L hL _ (measurable_stdTDensity ν)]
  congr 1
  funext x
  rw [mvtDensity_eq_of_factor hS hL]

/-- change of variables `x = μ + L z` for integrals against the density -/
theorem integral_mul_mvtDensity {L S : Matrix ι ι ℝ} (hS : L * Lᵀ = S) (hL : L.det ≠ 0) (μ : ι → ℝ) {ν : ℝ}
    (hν : 0 < ν) (g : (ι → ℝ) → ℝ) :
    (Integrable (fun x => g x * mvtDensity μ S ν x) ↔
      Integrable (fun z => g (μ + L *ᵥ z) * stdTDensity ν z)) ∧
    ∫ x, g x * mvtDensity μ S ν x = ∫ z, g (μ + L *ᵥ z) * stdTDensity ν z := by
  have h1 := integral_withDensity_ofReal (volume : Measure (ι → ℝ)) (measurable_mvtDensity μ S ν)
    (mvtDensity_nonneg hS hL μ hν) g
  have h2 := integrable_withDensity_ofReal_iff (volume : Measure (ι → ℝ)) (measurable_mvtDensity μ S ν)
    (mvtDensity_nonneg hS hL μ hν) g
  have h3 := integral_withDensity_ofReal (volume : Measure (ι → ℝ)) (measurable_stdTDensity ν)
    (stdTDensity_nonneg hν) (fun z => g (μ + L *ᵥ z))
  have h4 := integrable_withDensity_ofReal_iff (volume : Measure (ι → ℝ)) (measurable_stdTDensity ν)
    (stdTDensity_nonneg hν) (fun z => g (μ + L *ᵥ z))
  rw [withDensity_mvtDensity_eq_map hS hL] at h1 h2
  constructor
  · rw [← h2, ← h4, integrable_map_equiv]
    rfl
  · rw [← h1, ← h3, integral_map_equiv]
    rfl

/-- **normalisation**: for positive definite `S` and `ν > 0` the density integrates to 1 -/
theorem integral_mvtDensity {S : Matrix ι ι ℝ} (hS : S.PosDef) (μ : ι → ℝ) {ν : ℝ} (hν : 0 < ν) :
    Integrable (mvtDensity μ S ν) ∧ ∫ x, mvtDensity μ S ν x = 1 := by
  obtain ⟨L, hL, hdet⟩ := exists_factor hS
  obtain ⟨h1, h2⟩ := integral_mul_mvtDensity hL hdet μ hν (fun _ => 1)
  simp only [one_mul] at h1 h2
  obtain ⟨k1, k2⟩ := integral_stdTDensity (ι := ι) hν
  exact ⟨h1.mpr k1, h2.trans k2⟩

/-- **first moments**: for `ν > 1`, `∫ xᵢ · pdf = μᵢ` -/
theorem integral_coord_mul_mvtDensity {S : Matrix ι ι ℝ} (hS : S.PosDef) (μ : ι → ℝ) {ν : ℝ} (hν : 1 < ν)
    (i : ι) :
    Integrable (fun x : ι → ℝ => x i * mvtDensity μ S ν x) ∧ ∫ x : ι → ℝ, x i * mvtDensity μ S ν x = μ i := by
  have hν0 : 0 < ν := by linarith
  obtain ⟨L, hL, hdet⟩ := exists_factor hS
  obtain ⟨h1, h2⟩ := integral_mul_mvtDensity hL hdet μ hν0 (fun x => x i)
  obtain ⟨k1, k2⟩ := integral_stdTDensity (ι := ι) hν0
  have hexp : (fun z : ι → ℝ => (μ + L *ᵥ z) i * stdTDensity ν z) =
      fun z => μ i * stdTDensity ν z + ∑ k, L i k * (z k * stdTDensity ν z) := by
    funext z
    simp only [Pi.add_apply, Matrix.mulVec, dotProduct, add_mul, Finset.sum_mul]
    congr 1
    apply Finset.sum_congr rfl
    intro k _
    ring
  have I1 : Integrable (fun z : ι → ℝ => μ i * stdTDensity ν z) := k1.const_mul _
  have I2 : Integrable (fun z : ι → ℝ => ∑ k, L i k * (z k * stdTDensity ν z)) :=
    integrable_finsetSum _ (fun k _ => (integral_coord_mul_stdTDensity hν k).1.const_mul _)
  constructor
  · rw [h1, hexp]; exact I1.add I2
  · rw [h2, hexp, integral_add I1 I2, integral_const_mul, k2,
      integral_finsetSum _ (fun k _ => (integral_coord_mul_stdTDensity hν k).1.const_mul _)]
    simp [integral_const_mul, (integral_coord_mul_stdTDensity hν _).2]

/-- **second central moments**: for `ν > 2`, `∫ (xᵢ-μᵢ)(xⱼ-μⱼ) · pdf = ν/(ν-2) · Sᵢⱼ` -/
theorem integral_cov_mul_mvtDensity {S : Matrix ι ι ℝ} (hS : S.PosDef) (μ : ι → ℝ) {ν : ℝ} (hν : 2 < ν)
    (i j : ι) :
    Integrable (fun x : ι → ℝ => (x i - μ i) * (x j - μ j) * mvtDensity μ S ν x) ∧
    ∫ x : ι → ℝ, (x i - μ i) * (x j - μ j) * mvtDensity μ S ν x = ν / (ν - 2) * S i j := by
  have hν0 : 0 < ν := by linarith
  obtain ⟨L, hL, hdet⟩ := exists_factor hS
  obtain ⟨h1, h2⟩ := integral_mul_mvtDensity hL hdet μ hν0 (fun x => (x i - μ i) * (x j - μ j))
  have hexp : (fun z : ι → ℝ => ((μ + L *ᵥ z) i - μ i) * ((μ + L *ᵥ z) j - μ j) * stdTDensity ν z) =
      fun z => ∑ k, ∑ l, L i k * L j l * (z k * z l * stdTDensity ν z) := by
    funext z
    simp only [Pi.add_apply, add_sub_cancel_left, Matrix.mulVec, dotProduct]
    rw [Finset.sum_mul_sum, Finset.sum_mul]
    apply Finset.sum_congr rfl
    intro k _
    rw [Finset.sum_mul]
    apply Finset.sum_congr rfl
    intro l _
    ring
  have I : ∀ k l, Integrable (fun z : ι → ℝ => L i k * L j l * (z k * z l * stdTDensity ν z)) :=
    fun k l => (integral_coord_mul_coord_mul_stdTDensity hν k l).1.const_mul _
  have I' : ∀ k, Integrable (fun z : ι → ℝ => ∑ l, L i k * L j l * (z k * z l * stdTDensity ν z)) :=
    fun k => integrable_finsetSum _ (fun l _ => I k l)
  constructor
  · rw [h1, hexp]; exact integrable_finsetSum _ (fun k _ => I' k)
  · rw [h2, hexp, integral_finsetSum _ (fun k _ => I' k)]
    simp_rw [integral_finsetSum _ (fun l _ => I _ l), integral_const_mul,
      (integral_coord_mul_coord_mul_stdTDensity hν _ _).2]
    simp only [mul_ite, mul_zero, Finset.sum_ite_eq, Finset.mem_univ, if_true]
    rw [← hL, Matrix.mul_apply, Finset.mul_sum]
    apply Finset.sum_congr rfl
    intro k _
    rw [Matrix.transpose_apply]
    ring

end Statrs.Lemmas.MVTIntegral
