/-
  Statrs.Lemmas.MeasureCdf — from "`F` is continuous, `F' = p ≥ 0` off finitely many points, `F → 0`
  at `−∞` (and `F → 1` at `+∞`)" to "`F` is the distribution function `ProbabilityTheory.cdf μ` of
  the measure `μ = volume.withDensity (ofReal ∘ p)`", and the C01 statement (`IsProperCdf`) for
  every function that is a `ProbabilityTheory.cdf`.  Pure measure theory, no model definitions.
-/
import Statrs.Lemmas.DensityFTC
import Mathlib.Probability.CDF
import Mathlib.MeasureTheory.Integral.IntegralEqImproper
import Mathlib.MeasureTheory.Measure.WithDensity
set_option linter.unusedVariables false
namespace Statrs.Lemmas.MeasureCdf
open MeasureTheory ProbabilityTheory Filter Topology Set Statrs.Lemmas.Density

/-- the measure on ℝ with Lebesgue density `p` -/
noncomputable def densityMeasure (p : ℝ → ℝ) : Measure ℝ :=
  volume.withDensity (fun x => ENNReal.ofReal (p x))

/-- C01 for a real function: monotone, values in `[0,1]`, right-continuous, `→ 0` at `−∞`,
    `→ 1` at `+∞` — a proper distribution function -/
structure IsProperCdf (F : ℝ → ℝ) : Prop where
  mono : Monotone F
  nonneg : ∀ x, 0 ≤ F x
  le_one : ∀ x, F x ≤ 1
  right_continuous : ∀ x, ContinuousWithinAt F (Ici x) x
  tendsto_atBot : Tendsto F atBot (𝓝 0)
  tendsto_atTop : Tendsto F atTop (𝓝 1)

/-- every `ProbabilityTheory.cdf μ` is a proper distribution function (Mathlib's `monotone_cdf`,
    `cdf_nonneg`, `cdf_le_one`, `StieltjesFunction.right_continuous`, `tendsto_cdf_atBot`,
    `tendsto_cdf_atTop`) -/
theorem isProperCdf_of_eq_cdf {F : ℝ → ℝ} (μ : Measure ℝ) (h : ∀ x, F x = cdf μ x) :
    IsProperCdf F := by
  have hF : F = fun x => cdf μ x := funext h
  rw [hF]
  exact ⟨monotone_cdf μ, cdf_nonneg μ, cdf_le_one μ, fun x => (cdf μ).right_continuous x,
    tendsto_cdf_atBot μ, tendsto_cdf_atTop μ⟩

/-- a property that holds off a finite set holds Lebesgue-almost everywhere -/
theorem ae_of_off_finset {P : ℝ → Prop} (s : Finset ℝ) (h : ∀ x, x ∉ s → P x) :
    ∀ᵐ x ∂(volume : Measure ℝ), P x := by
  rw [ae_iff]
  refine measure_mono_null (fun x hx => ?_) (s.finite_toSet.measure_zero volume)
  by_contra hxs
  exact hx (h x hxs)

/-- two densities that agree off a finite set define the same measure -/
theorem withDensity_eq_densityMeasure {g : ℝ → ENNReal} {p : ℝ → ℝ} (s : Finset ℝ)
    (h : ∀ x, x ∉ s → g x = ENNReal.ofReal (p x)) :
    volume.withDensity g = densityMeasure p :=
  withDensity_congr_ae (ae_of_off_finset s h)

section ftc
variable {F p : ℝ → ℝ} (s : Finset ℝ) (hc : Continuous F)
  (hd : ∀ x, x ∉ s → HasDerivAt F (p x) x) (hnn : ∀ x, 0 ≤ p x)
include hc hd hnn

theorem intervalIntegrable_of_kinks {a b : ℝ} (hab : a ≤ b) : IntervalIntegrable p volume a b :=
  (ftc_nonneg_finite_kinks s hab hc.continuousOn (fun x _ hx => hd x hx) (fun x _ => hnn x)).1

theorem integral_of_kinks {a b : ℝ} (hab : a ≤ b) : ∫ t in a..b, p t = F b - F a :=
  integral_eq_sub_of_kinks s hc hd hnn hab

/-- `p` is integrable on every `(−∞, x]` and `∫_{−∞}^x p = F x` -/
theorem integral_Iic_of_kinks (h0 : Tendsto F atBot (𝓝 0)) (x : ℝ) :
    IntegrableOn p (Iic x) ∧ ∫ t in Iic x, p t = F x := by
  have hev : (fun a => ∫ t in a..x, p t) =ᶠ[atBot] fun a => F x - F a := by
    filter_upwards [eventually_le_atBot x] with a ha
    exact integral_of_kinks s hc hd hnn ha
  have hlim : Tendsto (fun a => ∫ t in a..x, p t) atBot (𝓝 (F x)) := by
    have : Tendsto (fun a => F x - F a) atBot (𝓝 (F x - 0)) := h0.const_sub (F x)
    rw [sub_zero] at this
    exact this.congr' hev.symm
  have hint : IntegrableOn p (Iic x) := by
    refine integrableOn_Iic_of_intervalIntegral_norm_tendsto (F x) x (a := id) (l := atBot)
      (fun a => ?_) tendsto_id ?_
    · rcases le_total a x with h | h
      · exact (intervalIntegrable_iff_integrableOn_Ioc_of_le h).mp
          (intervalIntegrable_of_kinks s hc hd hnn h)
      · simp only [id_eq]
        rw [Ioc_eq_empty (not_lt.mpr h)]
        exact integrableOn_empty
    · simp only [id_eq, Real.norm_eq_abs]
      refine hlim.congr (fun a => ?_)
      congr 1
      funext t
      rw [abs_of_nonneg (hnn t)]
  exact ⟨hint, tendsto_nhds_unique (intervalIntegral_tendsto_integral_Iic x hint tendsto_id) hlim⟩

/-- `F ≥ 0` -/
theorem nonneg_of_kinks (h0 : Tendsto F atBot (𝓝 0)) (x : ℝ) : 0 ≤ F x := by
  rw [← (integral_Iic_of_kinks s hc hd hnn h0 x).2]
  exact setIntegral_nonneg measurableSet_Iic (fun t _ => hnn t)

/-- `μ (−∞, x] = F x` for the measure with density `p` -/
theorem densityMeasure_Iic (h0 : Tendsto F atBot (𝓝 0)) (x : ℝ) :
    densityMeasure p (Iic x) = ENNReal.ofReal (F x) := by
  obtain ⟨hint, hval⟩ := integral_Iic_of_kinks s hc hd hnn h0 x
  unfold densityMeasure
  rw [withDensity_apply _ measurableSet_Iic, ← hval,
    ofReal_integral_eq_lintegral_ofReal hint (ae_of_all _ hnn)]

/-- the measure with density `p` is a probability measure -/
theorem isProbabilityMeasure_densityMeasure (h0 : Tendsto F atBot (𝓝 0))
    (h1 : Tendsto F atTop (𝓝 1)) : IsProbabilityMeasure (densityMeasure p) := by
  constructor
  have hA := tendsto_measure_Iic_atTop (densityMeasure p)
  have hB : Tendsto (fun x => densityMeasure p (Iic x)) atTop (𝓝 (ENNReal.ofReal 1)) := by
    have := (ENNReal.continuous_ofReal.tendsto 1).comp h1
    refine this.congr (fun x => ?_)
    exact (densityMeasure_Iic s hc hd hnn h0 x).symm
  rw [tendsto_nhds_unique hA hB, ENNReal.ofReal_one]

/-- **`F` is the distribution function of the measure with density `p`** (given that this measure
    is a probability measure) -/
theorem cdf_densityMeasure_eq [IsProbabilityMeasure (densityMeasure p)]
    (h0 : Tendsto F atBot (𝓝 0)) (x : ℝ) : cdf (densityMeasure p) x = F x := by
  rw [cdf_eq_real, measureReal_def, densityMeasure_Iic s hc hd hnn h0 x,
    ENNReal.toReal_ofReal (nonneg_of_kinks s hc hd hnn h0 x)]

/-- the same for any probability measure known to be the measure with density `p` -/
theorem cdf_eq_of_eq_densityMeasure (ν : Measure ℝ) [hν : IsProbabilityMeasure ν]
    (hνp : ν = densityMeasure p) (h0 : Tendsto F atBot (𝓝 0)) (x : ℝ) : cdf ν x = F x := by
  subst hνp
  exact cdf_densityMeasure_eq s hc hd hnn h0 x

/-- both: probability measure and distribution function -/
theorem densityMeasure_spec (h0 : Tendsto F atBot (𝓝 0)) (h1 : Tendsto F atTop (𝓝 1)) :
    IsProbabilityMeasure (densityMeasure p) ∧ ∀ x, F x = cdf (densityMeasure p) x := by
  have hP := isProbabilityMeasure_densityMeasure s hc hd hnn h0 h1
  exact ⟨hP, fun x => (cdf_densityMeasure_eq s hc hd hnn h0 x).symm⟩

end ftc

/-- `F = 0` on `(−∞, c]` gives the limit at `−∞` -/
theorem tendsto_atBot_of_eq_zero {F : ℝ → ℝ} (c : ℝ) (h : ∀ x, x ≤ c → F x = 0) :
    Tendsto F atBot (𝓝 0) := by
  refine tendsto_const_nhds.congr' ?_
  filter_upwards [eventually_le_atBot c] with x hx
  exact (h x hx).symm

/-- `F = 1` on `[c, ∞)` gives the limit at `+∞` -/
theorem tendsto_atTop_of_eq_one {F : ℝ → ℝ} (c : ℝ) (h : ∀ x, c ≤ x → F x = 1) :
    Tendsto F atTop (𝓝 1) := by
  refine tendsto_const_nhds.congr' ?_
  filter_upwards [eventually_ge_atTop c] with x hx
  exact (h x hx).symm

end Statrs.Lemmas.MeasureCdf
