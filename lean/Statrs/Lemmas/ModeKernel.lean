/-
  Statrs.Lemmas.ModeKernel — elementary kernel inequalities behind the closed-form modes of the
  Gamma / Chi / InverseGamma / Beta / FisherSnedecor families (C08, mode part).  Everything is a
  consequence of `log t ≤ t − 1`.
-/
import Mathlib.Analysis.SpecialFunctions.Pow.Real
import Mathlib.Analysis.SpecialFunctions.Log.Basic
import Mathlib.Tactic
set_option linter.unusedVariables false
namespace Statrs.Lemmas.ModeKernel

/-- `a·log u − u ≤ a·log a − a` for `a, u > 0` (the log of `u^a e^{-u} ≤ a^a e^{-a}`) -/
theorem log_kernel_le (a u : ℝ) (ha : 0 < a) (hu : 0 < u) :
    a * Real.log u - u ≤ a * Real.log a - a := by
  have h := Real.log_le_sub_one_of_pos (div_pos hu ha)
  rw [Real.log_div hu.ne' ha.ne'] at h
  have : a * (u / a) = u := by field_simp
  nlinarith

/-- Gamma kernel, log form: `a·log x − r·x` is maximal at `x = a / r` -/
theorem log_gamma_kernel_le (a r x : ℝ) (ha : 0 < a) (hr : 0 < r) (hx : 0 < x) :
    a * Real.log x - r * x ≤ a * Real.log (a / r) - r * (a / r) := by
  have h := log_kernel_le a (r * x) ha (mul_pos hr hx)
  rw [Real.log_mul hr.ne' hx.ne'] at h
  rw [Real.log_div ha.ne' hr.ne']
  have : r * (a / r) = a := by field_simp
  rw [this]
  nlinarith

/-- inverse-Gamma kernel, log form: `−a·log x − r/x` is maximal at `x = r / a` -/
theorem log_inv_gamma_kernel_le (a r x : ℝ) (ha : 0 < a) (hr : 0 < r) (hx : 0 < x) :
    -(a * Real.log x) - r / x ≤ -(a * Real.log (r / a)) - r / (r / a) := by
  have h := log_kernel_le a (r / x) ha (div_pos hr hx)
  rw [Real.log_div hr.ne' hx.ne'] at h
  rw [Real.log_div hr.ne' ha.ne']
  have : r / (r / a) = a := by field_simp
  rw [this]
  nlinarith

/-- Beta kernel, log form: `p·log y + q·log (1−y)` is maximal at `y = p / (p+q)` -/
theorem log_beta_kernel_le (p q y : ℝ) (hp : 0 < p) (hq : 0 < q) (hy0 : 0 < y) (hy1 : y < 1) :
    p * Real.log y + q * Real.log (1 - y)
      ≤ p * Real.log (p / (p + q)) + q * Real.log (1 - p / (p + q)) := by
  have hpq : 0 < p + q := by linarith
  have hm : 0 < p / (p + q) := div_pos hp hpq
  have e1m : 1 - p / (p + q) = q / (p + q) := by field_simp; ring
  have hm1 : 0 < 1 - p / (p + q) := by rw [e1m]; exact div_pos hq hpq
  have hy1' : 0 < 1 - y := by linarith
  have h1 := Real.log_le_sub_one_of_pos (div_pos hy0 hm)
  have h2 := Real.log_le_sub_one_of_pos (div_pos hy1' hm1)
  rw [Real.log_div hy0.ne' hm.ne'] at h1
  rw [Real.log_div hy1'.ne' hm1.ne'] at h2
  have k1 : p * (y / (p / (p + q))) = (p + q) * y := by field_simp
  have k2 : q * ((1 - y) / (1 - p / (p + q))) = (p + q) * (1 - y) := by rw [e1m]; field_simp
  have g1 := mul_le_mul_of_nonneg_left h1 hp.le
  have g2 := mul_le_mul_of_nonneg_left h2 hq.le
  have s1 : p * (y / (p / (p + q)) - 1) = (p + q) * y - p := by rw [mul_sub, k1]; ring
  have s2 : q * ((1 - y) / (1 - p / (p + q)) - 1) = (p + q) * (1 - y) - q := by rw [mul_sub, k2]; ring
  rw [s1] at g1
  rw [s2] at g2
  nlinarith

/-- comparing `x^a · e^s` with `m^a · e^t` through logarithms -/
theorem rpow_mul_exp_le_of_log_le {a x m s t : ℝ} (hx : 0 < x) (hm : 0 < m)
    (h : a * Real.log x + s ≤ a * Real.log m + t) :
    x ^ a * Real.exp s ≤ m ^ a * Real.exp t := by
  rw [Real.rpow_def_of_pos hx, Real.rpow_def_of_pos hm, ← Real.exp_add, ← Real.exp_add]
  apply Real.exp_le_exp.mpr
  linarith [mul_comm a (Real.log x), mul_comm a (Real.log m)]

/-- comparing `x^a · (1-x)^b` with `m^a · (1-m)^b` through logarithms -/
theorem rpow_mul_rpow_le_of_log_le {a b x y m n : ℝ} (hx : 0 < x) (hy : 0 < y) (hm : 0 < m) (hn : 0 < n)
    (h : a * Real.log x + b * Real.log y ≤ a * Real.log m + b * Real.log n) :
    x ^ a * y ^ b ≤ m ^ a * n ^ b := by
  rw [Real.rpow_def_of_pos hx, Real.rpow_def_of_pos hm, Real.rpow_def_of_pos hy, Real.rpow_def_of_pos hn,
    ← Real.exp_add, ← Real.exp_add]
  apply Real.exp_le_exp.mpr
  linarith [mul_comm a (Real.log x), mul_comm a (Real.log m), mul_comm b (Real.log y), mul_comm b (Real.log n)]

end Statrs.Lemmas.ModeKernel
