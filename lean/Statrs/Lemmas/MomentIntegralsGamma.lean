/-
  Real-analysis helpers for C07 (moments as integrals of the density), Gamma family:
  integrals over `(0,∞)` / `(0,1)` of `(c₀ + c₁ x + c₂ x²) · kernel x` for the kernels
    x^(a−1) e^{−r x}            (Gamma, Erlang, ChiSquared),
    x^(−s−1) e^{−r/x}           (InverseGamma; substitution t = 1/x),
    x^(a−1) (1−x)^(b−1)         (Beta),
    x^q e^{−b x^p}              (Weibull, Chi; Mathlib's `integral_rpow_mul_exp_neg_mul_rpow`),
  in closed form through `Real.Gamma`, together with integrability (from "the integral is non-zero").
  Pure Mathlib statements; no model definitions.
-/
import Mathlib.Analysis.SpecialFunctions.Gamma.Basic
import Mathlib.MeasureTheory.Integral.Gamma
import Mathlib.Probability.Distributions.Beta
import Mathlib.MeasureTheory.Integral.IntegralEqImproper
import Mathlib.Tactic
namespace Statrs.Lemmas.MomentIntegralsGamma
open MeasureTheory Set Real

/-- full-line integral of a function vanishing on `(-∞,0)` (its value AT `0` is irrelevant) -/
theorem integral_eq_setIntegral_Ioi {f : ℝ → ℝ} (h : ∀ x, x < 0 → f x = 0) :
    ∫ x, f x = ∫ x in Ioi 0, f x := by
  rw [← integral_Ici_eq_integral_Ioi]
  refine (setIntegral_eq_integral_of_forall_compl_eq_zero ?_).symm
  intro x hx
  exact h x (by simpa using hx)

/-- full-line integral of a function vanishing outside `[0,1]` (values AT `0`, `1` irrelevant) -/
theorem integral_eq_setIntegral_Ioo {f : ℝ → ℝ} (h : ∀ x, x < 0 ∨ 1 < x → f x = 0) :
    ∫ x, f x = ∫ x in Ioo 0 1, f x := by
  rw [← integral_Icc_eq_integral_Ioo]
  refine (setIntegral_eq_integral_of_forall_compl_eq_zero ?_).symm
  intro x hx
  refine h x ?_
  by_contra hc
  rw [not_or, not_lt, not_lt] at hc
  exact hx ⟨hc.1, hc.2⟩

/-! ### `x^(a−1) e^{−r x}` -/
theorem integral_gammaKernel {a r : ℝ} (ha : 0 < a) (hr : 0 < r) :
    ∫ x in Ioi 0, x ^ (a - 1) * exp (-(r * x)) = (1 / r) ^ a * Gamma a :=
  Real.integral_rpow_mul_exp_neg_mul_Ioi ha hr

theorem integrableOn_gammaKernel {a r : ℝ} (ha : 0 < a) (hr : 0 < r) :
    IntegrableOn (fun x : ℝ => x ^ (a - 1) * exp (-(r * x))) (Ioi 0) := by
  refine Integrable.of_integral_ne_zero ?_
  rw [integral_gammaKernel ha hr]
  have := Gamma_pos_of_pos ha
  positivity

/-- `∫₀^∞ (c₀ + c₁x + c₂x²) x^(a−1) e^{−rx} = r^{−a} Γ(a) (c₀ + c₁ a/r + c₂ a(a+1)/r²)` -/
theorem integral_poly2_gammaKernel {a r : ℝ} (ha : 0 < a) (hr : 0 < r) (c0 c1 c2 : ℝ) :
    ∫ x in Ioi 0, (c0 + c1 * x + c2 * x ^ 2) * (x ^ (a - 1) * exp (-(r * x)))
      = (1 / r) ^ a * Gamma a * (c0 + c1 * (a / r) + c2 * (a * (a + 1) / r ^ 2)) := by
  have e : ∀ x ∈ Ioi (0:ℝ), (c0 + c1 * x + c2 * x ^ 2) * (x ^ (a - 1) * exp (-(r * x))) =
      c0 * (x ^ (a - 1) * exp (-(r * x))) + c1 * (x ^ (a + 1 - 1) * exp (-(r * x)))
        + c2 * (x ^ (a + 2 - 1) * exp (-(r * x))) := by
    intro x hx
    have hx' : 0 < x := hx
    rw [show a + 1 - 1 = (a - 1) + 1 by ring, show a + 2 - 1 = (a - 1) + 2 by ring,
      rpow_add hx', rpow_add hx', rpow_one, rpow_two]
    ring
  have hpos : (0:ℝ) < 1 / r := by positivity
  have p1 : (1 / r) ^ (a + 1) = (1 / r) ^ a * (1 / r) := by rw [rpow_add hpos, rpow_one]
  have p2 : (1 / r) ^ (a + 2) = (1 / r) ^ a * (1 / r) ^ 2 := by rw [rpow_add hpos, rpow_two]
  have g1 : Gamma (a + 1) = a * Gamma a := Gamma_add_one ha.ne'
  have g2 : Gamma (a + 2) = (a + 1) * (a * Gamma a) := by
    rw [show a + 2 = (a + 1) + 1 by ring, Gamma_add_one (by linarith : a + 1 ≠ 0), g1]
  have i0 := integrableOn_gammaKernel ha hr
  have i1 := integrableOn_gammaKernel (a := a + 1) (by linarith) hr
  have i2 := integrableOn_gammaKernel (a := a + 2) (by linarith) hr
  have j : IntegrableOn (fun x : ℝ => c0 * (x ^ (a - 1) * exp (-(r * x)))
      + c1 * (x ^ (a + 1 - 1) * exp (-(r * x)))) (Ioi 0) := (i0.const_mul c0).add (i1.const_mul c1)
  rw [setIntegral_congr_fun measurableSet_Ioi e, integral_add j (i2.const_mul c2),
    integral_add (i0.const_mul c0) (i1.const_mul c1),
    integral_const_mul, integral_const_mul, integral_const_mul,
    integral_gammaKernel ha hr, integral_gammaKernel (a := a + 1) (by linarith) hr,
    integral_gammaKernel (a := a + 2) (by linarith) hr, p1, p2, g1, g2]
  field_simp

/-! ### `x^(−b−1) e^{−r/x}` -/
theorem integral_invGammaKernel {b r : ℝ} (hb : 0 < b) (hr : 0 < r) :
    ∫ x in Ioi 0, x ^ (-b - 1) * exp (-(r / x)) = (1 / r) ^ b * Gamma b := by
  have h := integral_comp_rpow_Ioi (fun y : ℝ => y ^ (b - 1) * exp (-(r * y))) (p := -1)
    (by norm_num)
  rw [← integral_gammaKernel hb hr, ← h]
  refine setIntegral_congr_fun measurableSet_Ioi fun x hx => ?_
  have hx' : 0 < x := hx
  simp only [smul_eq_mul, abs_neg, abs_one, one_mul]
  rw [← rpow_mul hx'.le, ← mul_assoc, ← rpow_add hx', rpow_neg_one, div_eq_mul_inv]
  congr 2
  ring

theorem integrableOn_invGammaKernel {b r : ℝ} (hb : 0 < b) (hr : 0 < r) :
    IntegrableOn (fun x : ℝ => x ^ (-b - 1) * exp (-(r / x))) (Ioi 0) := by
  refine Integrable.of_integral_ne_zero ?_
  rw [integral_invGammaKernel hb hr]
  have := Gamma_pos_of_pos hb
  positivity

/-- degree ≤ 1 against `x^(−(b+1)−1) e^{−r/x}` (needs only `b > 0`, i.e. shape `> 1`) -/
theorem integral_poly1_invGammaKernel {b r : ℝ} (hb : 0 < b) (hr : 0 < r) (c0 c1 : ℝ) :
    ∫ x in Ioi 0, (c0 + c1 * x) * (x ^ (-(b + 1) - 1) * exp (-(r / x)))
      = (1 / r) ^ b * Gamma b * (c0 * (b / r) + c1) := by
  have e : ∀ x ∈ Ioi (0:ℝ), (c0 + c1 * x) * (x ^ (-(b + 1) - 1) * exp (-(r / x))) =
      c0 * (x ^ (-(b + 1) - 1) * exp (-(r / x))) + c1 * (x ^ (-b - 1) * exp (-(r / x))) := by
    intro x hx
    have hx' : 0 < x := hx
    rw [show -b - 1 = (-(b + 1) - 1) + 1 by ring, rpow_add hx', rpow_one]
    ring
  have hpos : (0:ℝ) < 1 / r := by positivity
  have p1 : (1 / r) ^ (b + 1) = (1 / r) ^ b * (1 / r) := by rw [rpow_add hpos, rpow_one]
  have g1 : Gamma (b + 1) = b * Gamma b := Gamma_add_one hb.ne'
  have i1 := integrableOn_invGammaKernel (b := b + 1) (by linarith) hr
  have i0 := integrableOn_invGammaKernel hb hr
  rw [setIntegral_congr_fun measurableSet_Ioi e,
    integral_add (i1.const_mul c0) (i0.const_mul c1),
    integral_const_mul, integral_const_mul,
    integral_invGammaKernel hb hr, integral_invGammaKernel (b := b + 1) (by linarith) hr, p1, g1]
  field_simp

/-- degree ≤ 2 against `x^(−(b+2)−1) e^{−r/x}` (needs `b > 0`, i.e. shape `> 2`) -/
theorem integral_poly2_invGammaKernel {b r : ℝ} (hb : 0 < b) (hr : 0 < r) (c0 c1 c2 : ℝ) :
    ∫ x in Ioi 0, (c0 + c1 * x + c2 * x ^ 2) * (x ^ (-(b + 2) - 1) * exp (-(r / x)))
      = (1 / r) ^ b * Gamma b * (c0 * (b * (b + 1) / r ^ 2) + c1 * (b / r) + c2) := by
  have e : ∀ x ∈ Ioi (0:ℝ), (c0 + c1 * x + c2 * x ^ 2) * (x ^ (-(b + 2) - 1) * exp (-(r / x))) =
      c0 * (x ^ (-(b + 2) - 1) * exp (-(r / x))) + c1 * (x ^ (-(b + 1) - 1) * exp (-(r / x)))
        + c2 * (x ^ (-b - 1) * exp (-(r / x))) := by
    intro x hx
    have hx' : 0 < x := hx
    rw [show -b - 1 = (-(b + 2) - 1) + 2 by ring, show -(b + 1) - 1 = (-(b + 2) - 1) + 1 by ring,
      rpow_add hx', rpow_add hx', rpow_one, rpow_two]
    ring
  have hpos : (0:ℝ) < 1 / r := by positivity
  have p1 : (1 / r) ^ (b + 1) = (1 / r) ^ b * (1 / r) := by rw [rpow_add hpos, rpow_one]
  have p2 : (1 / r) ^ (b + 2) = (1 / r) ^ b * (1 / r) ^ 2 := by rw [rpow_add hpos, rpow_two]
  have g1 : Gamma (b + 1) = b * Gamma b := Gamma_add_one hb.ne'
  have g2 : Gamma (b + 2) = (b + 1) * (b * Gamma b) := by
    rw [show b + 2 = (b + 1) + 1 by ring, Gamma_add_one (by linarith : b + 1 ≠ 0), g1]
  have i2 := integrableOn_invGammaKernel (b := b + 2) (by linarith) hr
  have i1 := integrableOn_invGammaKernel (b := b + 1) (by linarith) hr
  have i0 := integrableOn_invGammaKernel hb hr
  have j : IntegrableOn (fun x : ℝ => c0 * (x ^ (-(b + 2) - 1) * exp (-(r / x)))
      + c1 * (x ^ (-(b + 1) - 1) * exp (-(r / x)))) (Ioi 0) := (i2.const_mul c0).add (i1.const_mul c1)
  rw [setIntegral_congr_fun measurableSet_Ioi e, integral_add j (i0.const_mul c2),
    integral_add (i2.const_mul c0) (i1.const_mul c1),
    integral_const_mul, integral_const_mul, integral_const_mul,
    integral_invGammaKernel hb hr, integral_invGammaKernel (b := b + 1) (by linarith) hr,
    integral_invGammaKernel (b := b + 2) (by linarith) hr, p1, p2, g1, g2]
  field_simp

/-! ### `x^(a−1) (1−x)^(b−1)` on `(0,1)` -/
theorem beta_integrand_ofReal (a b : ℝ) {x : ℝ} (hx0 : 0 ≤ x) (hx1 : x ≤ 1) :
    ((x : ℂ) ^ ((a : ℂ) - 1) * (1 - (x : ℂ)) ^ ((b : ℂ) - 1)) =
      ((x ^ (a - 1) * (1 - x) ^ (b - 1) : ℝ) : ℂ) := by
  rw [Complex.ofReal_mul, Complex.ofReal_cpow hx0, Complex.ofReal_cpow (by linarith : 0 ≤ 1 - x)]
  push_cast
  rfl

theorem integral_betaKernel {a b : ℝ} (ha : 0 < a) (hb : 0 < b) :
    ∫ x in Ioo 0 1, x ^ (a - 1) * (1 - x) ^ (b - 1) = Gamma a * Gamma b / Gamma (a + b) := by
  have h1 := ProbabilityTheory.beta_eq_betaIntegralReal a b ha hb
  unfold ProbabilityTheory.beta at h1
  rw [← integral_Ioc_eq_integral_Ioo, ← intervalIntegral.integral_of_le zero_le_one, h1,
    Complex.betaIntegral]
  have hcongr : ∫ t in (0:ℝ)..1, ((t : ℂ) ^ ((a : ℂ) - 1) * (1 - (t : ℂ)) ^ ((b : ℂ) - 1)) =
      ∫ t in (0:ℝ)..1, ((t ^ (a - 1) * (1 - t) ^ (b - 1) : ℝ) : ℂ) := by
    refine intervalIntegral.integral_congr (fun t ht => ?_)
    rw [uIcc_of_le zero_le_one] at ht
    exact beta_integrand_ofReal a b ht.1 ht.2
  rw [hcongr, intervalIntegral.integral_ofReal, Complex.ofReal_re]

theorem integrableOn_betaKernel {a b : ℝ} (ha : 0 < a) (hb : 0 < b) :
    IntegrableOn (fun x : ℝ => x ^ (a - 1) * (1 - x) ^ (b - 1)) (Ioo 0 1) := by
  refine Integrable.of_integral_ne_zero ?_
  rw [integral_betaKernel ha hb]
  have := Gamma_pos_of_pos ha
  have := Gamma_pos_of_pos hb
  have := Gamma_pos_of_pos (add_pos ha hb)
  positivity

/-- `∫₀¹ (c₀ + c₁x + c₂x²) x^(a−1)(1−x)^(b−1)
      = B(a,b) (c₀ + c₁ a/(a+b) + c₂ a(a+1)/((a+b)(a+b+1)))` -/
theorem integral_poly2_betaKernel {a b : ℝ} (ha : 0 < a) (hb : 0 < b) (c0 c1 c2 : ℝ) :
    ∫ x in Ioo 0 1, (c0 + c1 * x + c2 * x ^ 2) * (x ^ (a - 1) * (1 - x) ^ (b - 1))
      = Gamma a * Gamma b / Gamma (a + b) *
        (c0 + c1 * (a / (a + b)) + c2 * (a * (a + 1) / ((a + b) * (a + b + 1)))) := by
  have e : ∀ x ∈ Ioo (0:ℝ) 1, (c0 + c1 * x + c2 * x ^ 2) * (x ^ (a - 1) * (1 - x) ^ (b - 1)) =
      c0 * (x ^ (a - 1) * (1 - x) ^ (b - 1)) + c1 * (x ^ (a + 1 - 1) * (1 - x) ^ (b - 1))
        + c2 * (x ^ (a + 2 - 1) * (1 - x) ^ (b - 1)) := by
    intro x hx
    have hx' : 0 < x := hx.1
    rw [show a + 1 - 1 = (a - 1) + 1 by ring, show a + 2 - 1 = (a - 1) + 2 by ring,
      rpow_add hx', rpow_add hx', rpow_one, rpow_two]
    ring
  have hab : 0 < a + b := add_pos ha hb
  have g1 : Gamma (a + 1) = a * Gamma a := Gamma_add_one ha.ne'
  have g2 : Gamma (a + 2) = (a + 1) * (a * Gamma a) := by
    rw [show a + 2 = (a + 1) + 1 by ring, Gamma_add_one (by linarith : a + 1 ≠ 0), g1]
  have s1 : Gamma (a + 1 + b) = (a + b) * Gamma (a + b) := by
    rw [show a + 1 + b = (a + b) + 1 by ring, Gamma_add_one hab.ne']
  have s2 : Gamma (a + 2 + b) = (a + b + 1) * ((a + b) * Gamma (a + b)) := by
    rw [show a + 2 + b = (a + b + 1) + 1 by ring, Gamma_add_one (by linarith : a + b + 1 ≠ 0),
      Gamma_add_one hab.ne']
  have i0 := integrableOn_betaKernel ha hb
  have i1 := integrableOn_betaKernel (a := a + 1) (by linarith) hb
  have i2 := integrableOn_betaKernel (a := a + 2) (by linarith) hb
  have j : IntegrableOn (fun x : ℝ => c0 * (x ^ (a - 1) * (1 - x) ^ (b - 1))
      + c1 * (x ^ (a + 1 - 1) * (1 - x) ^ (b - 1))) (Ioo 0 1) :=
    (i0.const_mul c0).add (i1.const_mul c1)
  have hGa := Gamma_pos_of_pos ha
  have hGab := Gamma_pos_of_pos hab
  rw [setIntegral_congr_fun measurableSet_Ioo e, integral_add j (i2.const_mul c2),
    integral_add (i0.const_mul c0) (i1.const_mul c1),
    integral_const_mul, integral_const_mul, integral_const_mul,
    integral_betaKernel ha hb, integral_betaKernel (a := a + 1) (by linarith) hb,
    integral_betaKernel (a := a + 2) (by linarith) hb, g1, g2, s1, s2]
  field_simp

/-! ### `x^q e^{−b x^p}` (Weibull: `p = shape`; Chi: `p = 2`) -/
theorem integrableOn_rpow_mul_exp_neg_mul_rpow' {p q b : ℝ} (hp : 0 < p) (hq : -1 < q)
    (hb : 0 < b) : IntegrableOn (fun x : ℝ => x ^ q * exp (-b * x ^ p)) (Ioi 0) := by
  refine Integrable.of_integral_ne_zero ?_
  rw [integral_rpow_mul_exp_neg_mul_rpow hp hq hb]
  have := Gamma_pos_of_pos (div_pos (by linarith : 0 < q + 1) hp)
  positivity

/-- `∫₀^∞ x^(k−1+n) e^{−l^{−k} x^k} = l^(k+n)/k · Γ(1 + n/k)` -/
theorem integral_weibullKernel {k l n : ℝ} (hk : 0 < k) (hl : 0 < l) (hn : 0 ≤ n) :
    ∫ x in Ioi 0, x ^ (k - 1 + n) * exp (-(l ^ (-k)) * x ^ k)
      = l ^ (k + n) / k * Gamma (1 + n / k) := by
  rw [integral_rpow_mul_exp_neg_mul_rpow hk (by linarith) (rpow_pos_of_pos hl _),
    ← rpow_mul hl.le, show -k * (-(k - 1 + n + 1) / k) = k + n by field_simp; ring,
    show (k - 1 + n + 1) / k = 1 + n / k by field_simp; ring]
  ring

/-- Weibull density kernel: `∫₀^∞ (c₀ + c₁x + c₂x²) · k (x/l)^(k−1) e^{−x^k l^{−k}} / l
      = c₀ + c₁ l Γ(1+1/k) + c₂ l² Γ(1+2/k)` -/
theorem integral_poly2_weibullKernel {k l : ℝ} (hk : 0 < k) (hl : 0 < l) (c0 c1 c2 : ℝ) :
    ∫ x in Ioi 0, (c0 + c1 * x + c2 * x ^ 2) *
        (k * (x / l) ^ (k - 1) * exp (-(x ^ k) * l ^ (-k)) / l)
      = c0 + c1 * (l * Gamma (1 + 1 / k)) + c2 * (l ^ 2 * Gamma (1 + 2 / k)) := by
  have hlk : 0 < l ^ k := rpow_pos_of_pos hl _
  have e : ∀ x ∈ Ioi (0:ℝ), (c0 + c1 * x + c2 * x ^ 2) *
        (k * (x / l) ^ (k - 1) * exp (-(x ^ k) * l ^ (-k)) / l) =
      (c0 * k / l ^ k) * (x ^ (k - 1 + 0) * exp (-(l ^ (-k)) * x ^ k))
        + (c1 * k / l ^ k) * (x ^ (k - 1 + 1) * exp (-(l ^ (-k)) * x ^ k))
        + (c2 * k / l ^ k) * (x ^ (k - 1 + 2) * exp (-(l ^ (-k)) * x ^ k)) := by
    intro x hx
    have hx' : 0 < x := hx
    rw [rpow_add hx', rpow_add hx', rpow_add hx', rpow_zero, rpow_one, rpow_two,
      div_rpow hx'.le hl.le, rpow_sub_one hl.ne' k,
      show -(x ^ k) * l ^ (-k) = -(l ^ (-k)) * x ^ k by ring]
    field_simp
  have i0 := integrableOn_rpow_mul_exp_neg_mul_rpow' (p := k) (q := k - 1 + 0) (b := l ^ (-k)) hk
    (by linarith) (rpow_pos_of_pos hl _)
  have i1 := integrableOn_rpow_mul_exp_neg_mul_rpow' (p := k) (q := k - 1 + 1) (b := l ^ (-k)) hk
    (by linarith) (rpow_pos_of_pos hl _)
  have i2 := integrableOn_rpow_mul_exp_neg_mul_rpow' (p := k) (q := k - 1 + 2) (b := l ^ (-k)) hk
    (by linarith) (rpow_pos_of_pos hl _)
  have j : IntegrableOn (fun x : ℝ =>
      (c0 * k / l ^ k) * (x ^ (k - 1 + 0) * exp (-(l ^ (-k)) * x ^ k))
        + (c1 * k / l ^ k) * (x ^ (k - 1 + 1) * exp (-(l ^ (-k)) * x ^ k))) (Ioi 0) :=
    (i0.const_mul _).add (i1.const_mul _)
  rw [setIntegral_congr_fun measurableSet_Ioi e, integral_add j (i2.const_mul _),
    integral_add (i0.const_mul _) (i1.const_mul _),
    integral_const_mul, integral_const_mul, integral_const_mul,
    integral_weibullKernel hk hl le_rfl, integral_weibullKernel hk hl zero_le_one,
    integral_weibullKernel hk hl zero_le_two, rpow_add hl, rpow_add hl, rpow_add hl,
    rpow_zero, rpow_one, rpow_two, zero_div, add_zero, Gamma_one]
  field_simp

/-- `∫₀^∞ x^(k−1+n) e^{−x²/2} = 2^((k+n)/2 − 1) Γ((k+n)/2)` -/
theorem integral_chiKernel {k n : ℝ} (hk : 0 < k) (hn : 0 ≤ n) :
    ∫ x in Ioi 0, x ^ (k - 1 + n) * exp (-(x * x / 2))
      = (2:ℝ) ^ ((k + n) / 2 - 1) * Gamma ((k + n) / 2) := by
  have h := integral_rpow_mul_exp_neg_mul_rpow (p := 2) (q := k - 1 + n) (b := 1 / 2) two_pos
    (by linarith) (by norm_num)
  have e : ∀ x ∈ Ioi (0:ℝ), x ^ (k - 1 + n) * exp (-(x * x / 2))
      = x ^ (k - 1 + n) * exp (-(1 / 2) * x ^ (2:ℝ)) := by
    intro x hx
    rw [rpow_two]; congr 2; ring
  rw [setIntegral_congr_fun measurableSet_Ioi e, h, one_div, inv_rpow two_pos.le, ← rpow_neg two_pos.le,
    show -(-(k - 1 + n + 1) / 2) = (k + n) / 2 by ring, show (k - 1 + n + 1) / 2 = (k + n) / 2 by ring,
    rpow_sub_one two_ne_zero]
  ring

theorem integrableOn_chiKernel {k n : ℝ} (hk : 0 < k) (hn : 0 ≤ n) :
    IntegrableOn (fun x : ℝ => x ^ (k - 1 + n) * exp (-(x * x / 2))) (Ioi 0) := by
  refine Integrable.of_integral_ne_zero ?_
  rw [integral_chiKernel hk hn]
  have := Gamma_pos_of_pos (by positivity : 0 < (k + n) / 2)
  positivity

/-- Chi density kernel: `∫₀^∞ (c₀ + c₁x + c₂x²) x^(k−1) e^{−x²/2}
      = 2^(k/2−1) (c₀ Γ(k/2) + c₁ √2 Γ((k+1)/2) + c₂ k Γ(k/2))` -/
theorem integral_poly2_chiKernel {k : ℝ} (hk : 0 < k) (c0 c1 c2 : ℝ) :
    ∫ x in Ioi 0, (c0 + c1 * x + c2 * x ^ 2) * (x ^ (k - 1) * exp (-(x * x / 2)))
      = (2:ℝ) ^ (k / 2 - 1) *
        (c0 * Gamma (k / 2) + c1 * (sqrt 2 * Gamma ((k + 1) / 2)) + c2 * (k * Gamma (k / 2))) := by
  have e : ∀ x ∈ Ioi (0:ℝ), (c0 + c1 * x + c2 * x ^ 2) * (x ^ (k - 1) * exp (-(x * x / 2))) =
      c0 * (x ^ (k - 1 + 0) * exp (-(x * x / 2))) + c1 * (x ^ (k - 1 + 1) * exp (-(x * x / 2)))
        + c2 * (x ^ (k - 1 + 2) * exp (-(x * x / 2))) := by
    intro x hx
    have hx' : 0 < x := hx
    rw [rpow_add hx', rpow_add hx', rpow_add hx', rpow_zero, rpow_one, rpow_two]
    ring
  have i0 := integrableOn_chiKernel hk (le_refl (0:ℝ))
  have i1 := integrableOn_chiKernel hk (zero_le_one (α := ℝ))
  have i2 := integrableOn_chiKernel hk (zero_le_two (α := ℝ))
  have j : IntegrableOn (fun x : ℝ => c0 * (x ^ (k - 1 + 0) * exp (-(x * x / 2)))
      + c1 * (x ^ (k - 1 + 1) * exp (-(x * x / 2)))) (Ioi 0) :=
    (i0.const_mul c0).add (i1.const_mul c1)
  have q0 : (2:ℝ) ^ ((k + 0) / 2 - 1) = 2 ^ (k / 2 - 1) := by rw [add_zero]
  have q1 : (2:ℝ) ^ ((k + 1) / 2 - 1) = 2 ^ (k / 2 - 1) * sqrt 2 := by
    rw [sqrt_eq_rpow, ← rpow_add two_pos]; congr 1; ring
  have q2 : (2:ℝ) ^ ((k + 2) / 2 - 1) = 2 ^ (k / 2 - 1) * 2 := by
    rw [show (k + 2) / 2 - 1 = (k / 2 - 1) + 1 by ring, rpow_add two_pos, rpow_one]
  have g2 : Gamma ((k + 2) / 2) = k / 2 * Gamma (k / 2) := by
    rw [show (k + 2) / 2 = k / 2 + 1 by ring, Gamma_add_one (by positivity)]
  rw [setIntegral_congr_fun measurableSet_Ioi e, integral_add j (i2.const_mul c2),
    integral_add (i0.const_mul c0) (i1.const_mul c1),
    integral_const_mul, integral_const_mul, integral_const_mul,
    integral_chiKernel hk le_rfl, integral_chiKernel hk zero_le_one,
    integral_chiKernel hk zero_le_two, q0, q1, q2, g2, add_zero]
  ring

end Statrs.Lemmas.MomentIntegralsGamma
