/-
  Real-analysis helpers for C07 (moments as integrals of the density), part 2 — the "beta prime"
  kernel behind Student's t and Fisher–Snedecor:
    ∫₀^∞ u^(a−1) (1+u)^(−(a+b)) du = B(a,b)                      (x = u/(1+u) in the Beta integral),
    ∫₀^∞ t^(2a−1) (1 + t²/ν)^(−(a+b)) dt = ν^a B(a,b) / 2         (u = t²/ν),
    ∫_ℝ |t|^(2a−1) (1 + t²/ν)^(−(a+b)) dt = ν^a B(a,b)            (evenness),
    ∫₀^∞ x^(a−1) (1 + c x)^(−(a+b)) dx = c^(−a) B(a,b)            (u = c x),
  with `B(a,b) = Γ(a)Γ(b)/Γ(a+b)`, integrability from "the integral is non-zero", and the
  location–scale transfer `∫ F((x−μ)/σ) dx = σ ∫ F`.  Pure Mathlib statements.
-/
import Statrs.Lemmas.MomentIntegralsGamma
import Mathlib.MeasureTheory.Function.JacobianOneDim
import Mathlib.MeasureTheory.Measure.Lebesgue.Integral
import Mathlib.MeasureTheory.Measure.Haar.NormedSpace
import Mathlib.Analysis.SpecialFunctions.Pow.Deriv
namespace Statrs.Lemmas.MomentIntegralsGamma
open MeasureTheory Set Real

/-- `∫₀^∞ u^(a−1) (1+u)^(−(a+b)) du = Γ(a)Γ(b)/Γ(a+b)` -/
theorem integral_betaPrimeKernel {a b : ℝ} (ha : 0 < a) (hb : 0 < b) :
    ∫ u in Ioi 0, u ^ (a - 1) * (1 + u) ^ (-(a + b)) = Gamma a * Gamma b / Gamma (a + b) := by
  have himg : (fun u : ℝ => u / (1 + u)) '' Ioi 0 = Ioo 0 1 := by
    ext x; constructor
    · rintro ⟨u, hu, rfl⟩
      have hu' : (0:ℝ) < u := hu
      exact ⟨by positivity, by rw [div_lt_one (by linarith)]; linarith⟩
    · rintro ⟨h0, h1⟩
      have h1x : 0 < 1 - x := by linarith
      refine ⟨x / (1 - x), div_pos h0 h1x, ?_⟩
      show x / (1 - x) / (1 + x / (1 - x)) = x
      field_simp
      ring
  have hderiv : ∀ u ∈ Ioi (0:ℝ),
      HasDerivWithinAt (fun u : ℝ => u / (1 + u)) (1 / (1 + u) ^ 2) (Ioi 0) u := by
    intro u hu
    have hu' : (0:ℝ) < u := hu
    have h1 : HasDerivAt (fun u : ℝ => 1 + u) 1 u := by simpa using (hasDerivAt_id u).const_add 1
    have h2 := (hasDerivAt_id u).div h1 (by linarith : 1 + u ≠ 0)
    refine (h2.congr_deriv ?_).hasDerivWithinAt
    simp
  have hinj : InjOn (fun u : ℝ => u / (1 + u)) (Ioi 0) := by
    intro x hx y hy h
    have hx' : (0:ℝ) < x := hx
    have hy' : (0:ℝ) < y := hy
    have h' : x / (1 + x) = y / (1 + y) := h
    rw [div_eq_div_iff (by linarith) (by linarith)] at h'
    linarith
  rw [← integral_betaKernel ha hb, ← himg,
    integral_image_eq_integral_abs_deriv_smul measurableSet_Ioi hderiv hinj]
  refine setIntegral_congr_fun measurableSet_Ioi fun u hu => ?_
  have hu' : (0:ℝ) < u := hu
  have h1u : 0 < 1 + u := by linarith
  simp only [smul_eq_mul]
  rw [abs_of_pos (by positivity), show 1 - u / (1 + u) = (1 + u)⁻¹ by field_simp; ring,
    div_rpow hu'.le h1u.le, inv_rpow h1u.le, rpow_neg h1u.le,
    show a + b = (a - 1) + (b - 1) + 2 by ring, rpow_add h1u, rpow_add h1u, rpow_two]
  have hA : 0 < (1 + u) ^ (a - 1) := rpow_pos_of_pos h1u _
  have hB : 0 < (1 + u) ^ (b - 1) := rpow_pos_of_pos h1u _
  field_simp

theorem integrableOn_betaPrimeKernel {a b : ℝ} (ha : 0 < a) (hb : 0 < b) :
    IntegrableOn (fun u : ℝ => u ^ (a - 1) * (1 + u) ^ (-(a + b))) (Ioi 0) := by
  refine Integrable.of_integral_ne_zero ?_
  rw [integral_betaPrimeKernel ha hb]
  have := Gamma_pos_of_pos ha
  have := Gamma_pos_of_pos hb
  have := Gamma_pos_of_pos (add_pos ha hb)
  positivity

/-- `∫₀^∞ x^(a−1) (1 + c x)^(−(a+b)) dx = c^(−a) Γ(a)Γ(b)/Γ(a+b)` -/
theorem integral_betaPrimeKernel_scaled {a b c : ℝ} (ha : 0 < a) (hb : 0 < b) (hc : 0 < c) :
    ∫ x in Ioi 0, x ^ (a - 1) * (1 + c * x) ^ (-(a + b))
      = c ^ (-a) * (Gamma a * Gamma b / Gamma (a + b)) := by
  have h := integral_comp_mul_left_Ioi (fun u : ℝ => u ^ (a - 1) * (1 + u) ^ (-(a + b))) 0 hc
  rw [mul_zero, integral_betaPrimeKernel ha hb, smul_eq_mul] at h
  have e : ∀ x ∈ Ioi (0:ℝ), x ^ (a - 1) * (1 + c * x) ^ (-(a + b)) =
      c ^ (-(a - 1)) * ((c * x) ^ (a - 1) * (1 + c * x) ^ (-(a + b))) := by
    intro x hx
    have hx' : (0:ℝ) < x := hx
    rw [mul_rpow hc.le hx'.le, rpow_neg hc.le]
    have : 0 < c ^ (a - 1) := rpow_pos_of_pos hc _
    field_simp
  rw [setIntegral_congr_fun measurableSet_Ioi e, integral_const_mul, h,
    show -a = -(a - 1) + -1 by ring, rpow_add hc, rpow_neg_one]
  ring

theorem integrableOn_betaPrimeKernel_scaled {a b c : ℝ} (ha : 0 < a) (hb : 0 < b) (hc : 0 < c) :
    IntegrableOn (fun x : ℝ => x ^ (a - 1) * (1 + c * x) ^ (-(a + b))) (Ioi 0) := by
  refine Integrable.of_integral_ne_zero ?_
  rw [integral_betaPrimeKernel_scaled ha hb hc]
  have := Gamma_pos_of_pos ha
  have := Gamma_pos_of_pos hb
  have := Gamma_pos_of_pos (add_pos ha hb)
  positivity

/-- `∫₀^∞ t^(2a−1) (1 + t²/ν)^(−(a+b)) dt = ν^a/2 · Γ(a)Γ(b)/Γ(a+b)` -/
theorem integral_Ioi_studentKernel {a b ν : ℝ} (ha : 0 < a) (hb : 0 < b) (hν : 0 < ν) :
    ∫ t in Ioi 0, t ^ (2 * a - 1) * (1 + t * t / ν) ^ (-(a + b))
      = ν ^ a / 2 * (Gamma a * Gamma b / Gamma (a + b)) := by
  have hB := integral_comp_rpow_Ioi
    (fun y : ℝ => (ν⁻¹ * y) ^ (a - 1) * (1 + ν⁻¹ * y) ^ (-(a + b))) (p := 2) two_ne_zero
  have hA := integral_comp_mul_left_Ioi (fun u : ℝ => u ^ (a - 1) * (1 + u) ^ (-(a + b))) 0
    (inv_pos.mpr hν)
  rw [mul_zero, integral_betaPrimeKernel ha hb, smul_eq_mul, inv_inv] at hA
  have e : ∀ t ∈ Ioi (0:ℝ), t ^ (2 * a - 1) * (1 + t * t / ν) ^ (-(a + b)) =
      (ν ^ (a - 1) / 2) * ((|(2:ℝ)| * t ^ ((2:ℝ) - 1)) •
        ((ν⁻¹ * t ^ (2:ℝ)) ^ (a - 1) * (1 + ν⁻¹ * t ^ (2:ℝ)) ^ (-(a + b)))) := by
    intro t ht
    have ht' : (0:ℝ) < t := ht
    have hνa : 0 < ν ^ (a - 1) := rpow_pos_of_pos hν _
    rw [smul_eq_mul, abs_of_pos two_pos, show (2:ℝ) - 1 = 1 by norm_num, rpow_one, rpow_two,
      mul_rpow (inv_pos.mpr hν).le (sq_nonneg t), inv_rpow hν.le, ← rpow_natCast t 2,
      ← rpow_mul ht'.le, show 2 * a - 1 = ((2:ℕ):ℝ) * (a - 1) + 1 by push_cast; ring,
      rpow_add ht', rpow_one, show ν⁻¹ * t ^ ((2:ℕ):ℝ) = t * t / ν by
        rw [rpow_natCast]; field_simp]
    field_simp
  rw [setIntegral_congr_fun measurableSet_Ioi e, integral_const_mul, hB, hA,
    rpow_sub_one hν.ne']
  field_simp

/-- `∫_ℝ |t|^(2a−1) (1 + t²/ν)^(−(a+b)) dt = ν^a · Γ(a)Γ(b)/Γ(a+b)` -/
theorem integral_studentKernel {a b ν : ℝ} (ha : 0 < a) (hb : 0 < b) (hν : 0 < ν) :
    ∫ t : ℝ, |t| ^ (2 * a - 1) * (1 + t * t / ν) ^ (-(a + b))
      = ν ^ a * (Gamma a * Gamma b / Gamma (a + b)) := by
  have h := integral_comp_abs (f := fun s : ℝ => s ^ (2 * a - 1) * (1 + s * s / ν) ^ (-(a + b)))
  simp only [abs_mul_abs_self] at h
  rw [h, integral_Ioi_studentKernel ha hb hν]
  ring

theorem integrable_studentKernel {a b ν : ℝ} (ha : 0 < a) (hb : 0 < b) (hν : 0 < ν) :
    Integrable (fun t : ℝ => |t| ^ (2 * a - 1) * (1 + t * t / ν) ^ (-(a + b))) := by
  refine Integrable.of_integral_ne_zero ?_
  rw [integral_studentKernel ha hb hν]
  have := Gamma_pos_of_pos ha
  have := Gamma_pos_of_pos hb
  have := Gamma_pos_of_pos (add_pos ha hb)
  positivity

/-- degree ≤ 1 against `x^(a−1) (1+cx)^(−(a+(b+1)))` (needs only `b > 0`) -/
theorem integral_poly1_betaPrimeKernel {a b c : ℝ} (ha : 0 < a) (hb : 0 < b) (hc : 0 < c)
    (c0 c1 : ℝ) :
    ∫ x in Ioi 0, (c0 + c1 * x) * (x ^ (a - 1) * (1 + c * x) ^ (-(a + (b + 1))))
      = c ^ (-a) * (Gamma a * Gamma b / Gamma (a + (b + 1))) * (c0 * b + c1 * (c⁻¹ * a)) := by
  have e : ∀ x ∈ Ioi (0:ℝ), (c0 + c1 * x) * (x ^ (a - 1) * (1 + c * x) ^ (-(a + (b + 1)))) =
      c0 * (x ^ (a - 1) * (1 + c * x) ^ (-(a + (b + 1))))
        + c1 * (x ^ (a + 1 - 1) * (1 + c * x) ^ (-(a + 1 + b))) := by
    intro x hx
    have hx' : (0:ℝ) < x := hx
    rw [show a + 1 - 1 = (a - 1) + 1 by ring, rpow_add hx', rpow_one,
      show a + 1 + b = a + (b + 1) by ring]
    ring
  have i0 := integrableOn_betaPrimeKernel_scaled ha (by linarith : 0 < b + 1) hc
  have i1 := integrableOn_betaPrimeKernel_scaled (by linarith : 0 < a + 1) hb hc
  have g1 : Gamma (a + 1) = a * Gamma a := Gamma_add_one ha.ne'
  have gb1 : Gamma (b + 1) = b * Gamma b := Gamma_add_one hb.ne'
  have p1 : c ^ (-(a + 1)) = c ^ (-a) * c⁻¹ := by
    rw [show -(a + 1) = -a + -1 by ring, rpow_add hc, rpow_neg_one]
  rw [setIntegral_congr_fun measurableSet_Ioi e, integral_add (i0.const_mul c0) (i1.const_mul c1),
    integral_const_mul, integral_const_mul,
    integral_betaPrimeKernel_scaled ha (by linarith : 0 < b + 1) hc,
    integral_betaPrimeKernel_scaled (by linarith : 0 < a + 1) hb hc, g1, gb1, p1,
    show a + 1 + b = a + (b + 1) by ring]
  ring

/-- degree ≤ 2 against `x^(a−1) (1+cx)^(−(a+(b+2)))` (needs `b > 0`) -/
theorem integral_poly2_betaPrimeKernel {a b c : ℝ} (ha : 0 < a) (hb : 0 < b) (hc : 0 < c)
    (c0 c1 c2 : ℝ) :
    ∫ x in Ioi 0, (c0 + c1 * x + c2 * x ^ 2) * (x ^ (a - 1) * (1 + c * x) ^ (-(a + (b + 2))))
      = c ^ (-a) * (Gamma a * Gamma b / Gamma (a + (b + 2))) *
        (c0 * ((b + 1) * b) + c1 * (c⁻¹ * a * b) + c2 * (c⁻¹ ^ 2 * (a * (a + 1)))) := by
  have e : ∀ x ∈ Ioi (0:ℝ),
      (c0 + c1 * x + c2 * x ^ 2) * (x ^ (a - 1) * (1 + c * x) ^ (-(a + (b + 2)))) =
      c0 * (x ^ (a - 1) * (1 + c * x) ^ (-(a + (b + 2))))
        + c1 * (x ^ (a + 1 - 1) * (1 + c * x) ^ (-(a + 1 + (b + 1))))
        + c2 * (x ^ (a + 2 - 1) * (1 + c * x) ^ (-(a + 2 + b))) := by
    intro x hx
    have hx' : (0:ℝ) < x := hx
    rw [show a + 1 - 1 = (a - 1) + 1 by ring, show a + 2 - 1 = (a - 1) + 2 by ring,
      rpow_add hx', rpow_add hx', rpow_one, rpow_two,
      show a + 1 + (b + 1) = a + (b + 2) by ring, show a + 2 + b = a + (b + 2) by ring]
    ring
  have i0 := integrableOn_betaPrimeKernel_scaled ha (by linarith : 0 < b + 2) hc
  have i1 := integrableOn_betaPrimeKernel_scaled (by linarith : 0 < a + 1) (by linarith : 0 < b + 1) hc
  have i2 := integrableOn_betaPrimeKernel_scaled (by linarith : 0 < a + 2) hb hc
  have j : IntegrableOn (fun x : ℝ => c0 * (x ^ (a - 1) * (1 + c * x) ^ (-(a + (b + 2))))
      + c1 * (x ^ (a + 1 - 1) * (1 + c * x) ^ (-(a + 1 + (b + 1))))) (Ioi 0) :=
    (i0.const_mul c0).add (i1.const_mul c1)
  have g1 : Gamma (a + 1) = a * Gamma a := Gamma_add_one ha.ne'
  have g2 : Gamma (a + 2) = (a + 1) * (a * Gamma a) := by
    rw [show a + 2 = (a + 1) + 1 by ring, Gamma_add_one (by linarith : a + 1 ≠ 0), g1]
  have gb1 : Gamma (b + 1) = b * Gamma b := Gamma_add_one hb.ne'
  have gb2 : Gamma (b + 2) = (b + 1) * (b * Gamma b) := by
    rw [show b + 2 = (b + 1) + 1 by ring, Gamma_add_one (by linarith : b + 1 ≠ 0), gb1]
  have p1 : c ^ (-(a + 1)) = c ^ (-a) * c⁻¹ := by
    rw [show -(a + 1) = -a + -1 by ring, rpow_add hc, rpow_neg_one]
  have p2 : c ^ (-(a + 2)) = c ^ (-a) * c⁻¹ ^ 2 := by
    have h2 : c ^ (-2 : ℝ) = c⁻¹ ^ 2 := by rw [rpow_neg hc.le, rpow_two, inv_pow]
    rw [show -(a + 2) = -a + -2 by ring, rpow_add hc, h2]
  rw [setIntegral_congr_fun measurableSet_Ioi e, integral_add j (i2.const_mul c2),
    integral_add (i0.const_mul c0) (i1.const_mul c1),
    integral_const_mul, integral_const_mul, integral_const_mul,
    integral_betaPrimeKernel_scaled ha (by linarith : 0 < b + 2) hc,
    integral_betaPrimeKernel_scaled (by linarith : 0 < a + 1) (by linarith : 0 < b + 1) hc,
    integral_betaPrimeKernel_scaled (by linarith : 0 < a + 2) hb hc, g1, g2, gb1, gb2, p1, p2,
    show a + 1 + (b + 1) = a + (b + 2) by ring, show a + 2 + b = a + (b + 2) by ring]
  ring

/-- location–scale substitution on the whole line -/
theorem integral_comp_sub_div (F : ℝ → ℝ) (μ : ℝ) {σ : ℝ} (hσ : 0 < σ) :
    ∫ x, F ((x - μ) / σ) = σ * ∫ t, F t := by
  rw [integral_sub_right_eq_self (fun x => F (x / σ)) μ, Measure.integral_comp_div F σ,
    abs_of_pos hσ, smul_eq_mul]

theorem integrable_comp_sub_div {F : ℝ → ℝ} (hF : Integrable F) (μ : ℝ) {σ : ℝ} (hσ : 0 < σ) :
    Integrable (fun x => F ((x - μ) / σ)) :=
  (hF.comp_div hσ.ne').comp_sub_right μ

end Statrs.Lemmas.MomentIntegralsGamma
