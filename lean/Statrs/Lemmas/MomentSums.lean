/-
  Pure-mathematics series / finite-sum identities used by the C07 "moments are those of the pmf"
  theorems for the discrete families (`Props/C07/MomentIntegralsC*.lean`).  Nothing here refers to
  the generated model.
    * index shift for series whose 0-th term vanishes,
    * geometric series  `Σ qⁿ p`, `Σ (n+1) qⁿ p`, `Σ (n+1−1/p)² qⁿ p`, `Σ qⁿp·ln(qⁿp)`,
    * binomial sums `Σ C(n,k) pᵏ(1−p)ⁿ⁻ᵏ·{1, k, (k−np)²}` (through Mathlib's Bernstein polynomials),
    * Poisson series `Σ e^{−λ} λᵏ/k!·{1, k, (k−λ)²}`,
    * hypergeometric sums `Σ C(K,k)C(N−K,n−k)/C(N,n)·{1, k, k(k−1), (k−Kn/N)²}` (Vandermonde).
-/
import Mathlib.Tactic
import Mathlib.Analysis.SpecificLimits.Normed
import Mathlib.Analysis.SpecialFunctions.Exponential
import Mathlib.Analysis.SpecialFunctions.Log.Basic
import Mathlib.RingTheory.Polynomial.Bernstein
import Mathlib.Data.Nat.Choose.Cast
import Mathlib.Data.Nat.Choose.Vandermonde
namespace Statrs.Lemmas.MomentSums
open Finset

/-! ### index shift -/

/-- a series over `ℕ` whose 0-th term is `0` has the sum of its shifted series -/
theorem hasSum_of_succ {f : ℕ → ℝ} {a : ℝ} (h0 : f 0 = 0) (h : HasSum (fun n => f (n + 1)) a) :
    HasSum f a := by
  have := (hasSum_nat_add_iff 1).mp h
  simpa [h0] using this

/-- a series over `ℕ` whose first two terms are `0` has the sum of its twice-shifted series -/
theorem hasSum_of_succ_succ {f : ℕ → ℝ} {a : ℝ} (h0 : f 0 = 0) (h1 : f 1 = 0)
    (h : HasSum (fun n => f (n + 2)) a) : HasSum f a := by
  have := (hasSum_nat_add_iff 2).mp h
  simpa [Finset.sum_range_succ, h0, h1] using this

/-- transport a `HasSum` along pointwise equality of terms and equality of sums -/
theorem hasSum_congr' {f g : ℕ → ℝ} {a b : ℝ} (h : HasSum g b) (hf : ∀ n, f n = g n)
    (ha : a = b) : HasSum f a := by
  have : f = g := funext hf
  rw [this, ha]; exact h

/-! ### geometric series (`q = 1 − p`, `0 < p ≤ 1`) -/
section geometric
variable {p : ℝ} (hp0 : 0 < p) (hp1 : p ≤ 1)
include hp0 hp1

private lemma norm_q : ‖1 - p‖ < 1 := by
  rw [Real.norm_eq_abs, abs_lt]; constructor <;> linarith

private lemma geom_A0 : HasSum (fun n : ℕ => (1 - p) ^ n) (1 / p) := by
  have h := hasSum_geometric_of_lt_one (by linarith : (0:ℝ) ≤ 1 - p) (by linarith)
  rwa [sub_sub_cancel, ← one_div] at h

private lemma geom_A1 : HasSum (fun n : ℕ => ((n : ℝ) + 1) * (1 - p) ^ n) (1 / p ^ 2) := by
  have h := hasSum_choose_mul_geometric_of_norm_lt_one 1 (norm_q hp0 hp1)
  refine hasSum_congr' h (fun n => ?_) ?_
  · simp [Nat.choose_one_right]
  · rw [sub_sub_cancel]

private lemma geom_A2 :
    HasSum (fun n : ℕ => (((n : ℝ) + 2) * ((n : ℝ) + 1) / 2) * (1 - p) ^ n) (1 / p ^ 3) := by
  have h := hasSum_choose_mul_geometric_of_norm_lt_one 2 (norm_q hp0 hp1)
  refine hasSum_congr' h (fun n => ?_) ?_
  · rw [Nat.cast_choose_two]; push_cast; ring
  · rw [sub_sub_cancel]

/-- `Σ_{n≥0} (1−p)ⁿ p = 1` -/
theorem geom_hasSum_mass : HasSum (fun n : ℕ => (1 - p) ^ n * p) 1 := by
  have h := (geom_A0 hp0 hp1).mul_right p
  refine hasSum_congr' h (fun n => rfl) ?_
  field_simp

/-- `Σ_{n≥0} (n+1)(1−p)ⁿ p = 1/p` -/
theorem geom_hasSum_mean : HasSum (fun n : ℕ => ((n : ℝ) + 1) * ((1 - p) ^ n * p)) (1 / p) := by
  have h := (geom_A1 hp0 hp1).mul_right p
  refine hasSum_congr' h (fun n => ?_) ?_
  · ring
  · field_simp

/-- `Σ_{n≥0} (n+1−1/p)² (1−p)ⁿ p = (1−p)/p²` -/
theorem geom_hasSum_variance :
    HasSum (fun n : ℕ => ((n : ℝ) + 1 - 1 / p) * ((n : ℝ) + 1 - 1 / p) * ((1 - p) ^ n * p))
      ((1 - p) / (p * p)) := by
  have h := ((((geom_A2 hp0 hp1).mul_left 2).sub ((geom_A1 hp0 hp1).mul_left (1 + 2 / p))).add
    ((geom_A0 hp0 hp1).mul_left (1 / p ^ 2))).mul_right p
  refine hasSum_congr' h (fun n => ?_) ?_
  · field_simp; ring
  · field_simp; ring

omit hp1 in
/-- `Σ_{n≥0} (qⁿp)·ln(qⁿp) = (q ln q)/p + ln p` for `0 < p < 1`, `q = 1 − p` -/
theorem geom_hasSum_plogp (hp1' : p < 1) :
    HasSum (fun n : ℕ => ((1 - p) ^ n * p) * Real.log ((1 - p) ^ n * p))
      ((1 - p) * Real.log (1 - p) / p + Real.log p) := by
  have hq : 0 < 1 - p := by linarith
  have hn : ‖1 - p‖ < 1 := norm_q hp0 hp1'.le
  have h := ((hasSum_coe_mul_geometric_of_norm_lt_one hn).mul_left (p * Real.log (1 - p))).add
    ((geom_A0 hp0 hp1'.le).mul_left (p * Real.log p))
  refine hasSum_congr' h (fun n => ?_) ?_
  · rw [Real.log_mul (pow_pos hq n).ne' hp0.ne', Real.log_pow]; ring
  · rw [sub_sub_cancel]; field_simp

end geometric

/-! ### binomial sums -/
section binomial
open Polynomial

private lemma eval_bernstein (n k : ℕ) (p : ℝ) :
    (bernsteinPolynomial ℝ n k).eval p = (n.choose k : ℝ) * p ^ k * (1 - p) ^ (n - k) := by
  simp [bernsteinPolynomial]

/-- `Σ_{k≤n} C(n,k) pᵏ (1−p)ⁿ⁻ᵏ = 1` -/
theorem binom_sum_mass (n : ℕ) (p : ℝ) :
    ∑ k ∈ range (n + 1), (n.choose k : ℝ) * p ^ k * (1 - p) ^ (n - k) = 1 := by
  have h := congrArg (Polynomial.eval p) (bernsteinPolynomial.sum ℝ n)
  rw [Polynomial.eval_finsetSum] at h
  simpa [eval_bernstein] using h

/-- `Σ_{k≤n} k·C(n,k) pᵏ (1−p)ⁿ⁻ᵏ = n p` -/
theorem binom_sum_mean (n : ℕ) (p : ℝ) :
    ∑ k ∈ range (n + 1), (k : ℝ) * ((n.choose k : ℝ) * p ^ k * (1 - p) ^ (n - k)) = n * p := by
  have h := congrArg (Polynomial.eval p) (bernsteinPolynomial.sum_smul ℝ n)
  rw [Polynomial.eval_finsetSum] at h
  simpa [eval_bernstein] using h

/-- `Σ_{k≤n} k(k−1)·C(n,k) pᵏ (1−p)ⁿ⁻ᵏ = n(n−1) p²` -/
theorem binom_sum_fact2 (n : ℕ) (p : ℝ) :
    ∑ k ∈ range (n + 1), ((k : ℝ) * ((k : ℝ) - 1)) * ((n.choose k : ℝ) * p ^ k * (1 - p) ^ (n - k))
      = (n : ℝ) * ((n : ℝ) - 1) * p ^ 2 := by
  have h := congrArg (Polynomial.eval p) (bernsteinPolynomial.sum_mul_smul ℝ n)
  rw [Polynomial.eval_finsetSum] at h
  have c : ∀ m : ℕ, ((m * (m - 1) : ℕ) : ℝ) = (m : ℝ) * ((m : ℝ) - 1) := by
    intro m; cases m with
    | zero => simp
    | succ m => push_cast; simp
  simp only [nsmul_eq_mul, Polynomial.eval_mul, Polynomial.eval_natCast, eval_bernstein,
    Polynomial.eval_pow, Polynomial.eval_X, c] at h
  exact h

/-- `Σ_{k≤n} (k−np)²·C(n,k) pᵏ (1−p)ⁿ⁻ᵏ = n p (1−p)` -/
theorem binom_sum_variance (n : ℕ) (p : ℝ) :
    ∑ k ∈ range (n + 1), (((k : ℝ) - n * p) * ((k : ℝ) - n * p))
        * ((n.choose k : ℝ) * p ^ k * (1 - p) ^ (n - k)) = n * p * (1 - p) := by
  have e : ∀ k ∈ range (n + 1), (((k : ℝ) - n * p) * ((k : ℝ) - n * p))
        * ((n.choose k : ℝ) * p ^ k * (1 - p) ^ (n - k))
      = ((k : ℝ) * ((k : ℝ) - 1)) * ((n.choose k : ℝ) * p ^ k * (1 - p) ^ (n - k))
        + (1 - 2 * n * p) * ((k : ℝ) * ((n.choose k : ℝ) * p ^ k * (1 - p) ^ (n - k)))
        + (n * p) ^ 2 * ((n.choose k : ℝ) * p ^ k * (1 - p) ^ (n - k)) := by
    intro k _; ring
  rw [Finset.sum_congr rfl e, Finset.sum_add_distrib, Finset.sum_add_distrib, ← Finset.mul_sum,
    ← Finset.mul_sum, binom_sum_mass, binom_sum_mean, binom_sum_fact2]
  ring

end binomial

/-! ### Poisson series -/
section poisson
open Nat

/-- `Σ_{k≥0} e^{−λ} λᵏ/k! = 1` -/
theorem poisson_hasSum_mass (l : ℝ) :
    HasSum (fun k : ℕ => Real.exp (-l) * l ^ k / (k ! : ℝ)) 1 := by
  have h : HasSum (fun k : ℕ => l ^ k / (k ! : ℝ)) (Real.exp l) := by
    rw [Real.exp_eq_exp_ℝ]; exact NormedSpace.expSeries_div_hasSum_exp l
  have h2 := h.mul_left (Real.exp (-l))
  rw [← Real.exp_add, neg_add_cancel, Real.exp_zero] at h2
  refine hasSum_congr' h2 (fun k => ?_) rfl
  ring

/-- `Σ_{k≥0} k·e^{−λ} λᵏ/k! = λ` -/
theorem poisson_hasSum_mean (l : ℝ) :
    HasSum (fun k : ℕ => (k : ℝ) * (Real.exp (-l) * l ^ k / (k ! : ℝ))) l := by
  apply hasSum_of_succ (by simp)
  have h := (poisson_hasSum_mass l).mul_left l
  rw [mul_one] at h
  refine hasSum_congr' h (fun k => ?_) rfl
  have : ((k + 1)! : ℝ) = ((k : ℝ) + 1) * (k ! : ℝ) := by rw [Nat.factorial_succ]; push_cast; ring
  have hk : ((k : ℝ) + 1) ≠ 0 := by positivity
  have hf : (k ! : ℝ) ≠ 0 := by exact_mod_cast Nat.factorial_ne_zero k
  rw [this]; push_cast; field_simp; ring

/-- `Σ_{k≥0} k(k−1)·e^{−λ} λᵏ/k! = λ²` -/
theorem poisson_hasSum_fact2 (l : ℝ) :
    HasSum (fun k : ℕ => ((k : ℝ) * ((k : ℝ) - 1)) * (Real.exp (-l) * l ^ k / (k ! : ℝ))) (l ^ 2) := by
  apply hasSum_of_succ_succ (by simp) (by simp)
  have h := (poisson_hasSum_mass l).mul_left (l ^ 2)
  rw [mul_one] at h
  refine hasSum_congr' h (fun k => ?_) rfl
  have : ((k + 2)! : ℝ) = ((k : ℝ) + 2) * ((k : ℝ) + 1) * (k ! : ℝ) := by
    rw [Nat.factorial_succ, Nat.factorial_succ]; push_cast; ring
  have hk : ((k : ℝ) + 1) ≠ 0 := by positivity
  have hk2 : ((k : ℝ) + 2) ≠ 0 := by positivity
  have hf : (k ! : ℝ) ≠ 0 := by exact_mod_cast Nat.factorial_ne_zero k
  rw [this]; push_cast; field_simp; ring

/-- `Σ_{k≥0} (k−λ)²·e^{−λ} λᵏ/k! = λ` -/
theorem poisson_hasSum_variance (l : ℝ) :
    HasSum (fun k : ℕ => (((k : ℝ) - l) * ((k : ℝ) - l)) * (Real.exp (-l) * l ^ k / (k ! : ℝ))) l := by
  have h := ((poisson_hasSum_fact2 l).add ((poisson_hasSum_mean l).mul_left (1 - 2 * l))).add
    ((poisson_hasSum_mass l).mul_left (l ^ 2))
  refine hasSum_congr' h (fun k => ?_) ?_
  · ring
  · ring

end poisson

/-! ### hypergeometric sums (Vandermonde) -/
section hypergeometric

/-- absorption: `(k+1)·C(K+1,k+1) = (K+1)·C(K,k)` in ℝ -/
private lemma absorb (K k : ℕ) :
    ((k : ℝ) + 1) * ((K + 1).choose (k + 1) : ℝ) = ((K : ℝ) + 1) * (K.choose k : ℝ) := by
  have := Nat.add_one_mul_choose_eq K k
  have h : (((K + 1) * K.choose k : ℕ) : ℝ) = (((K + 1).choose (k + 1) * (k + 1) : ℕ) : ℝ) := by
    rw [this]
  push_cast at h; linarith

/-- Vandermonde over a range: `Σ_{k≤n} C(K,k)·C(M,n−k) = C(K+M,n)` -/
theorem vandermonde_range (K M n : ℕ) :
    ∑ k ∈ range (n + 1), (K.choose k : ℝ) * (M.choose (n - k) : ℝ) = ((K + M).choose n : ℝ) := by
  rw [Nat.add_choose_eq, Finset.Nat.sum_antidiagonal_eq_sum_range_succ_mk]
  push_cast; rfl

/-- first factorial moment: `(K+M)·Σ_{k≤n} k·C(K,k)·C(M,n−k) = K·n·C(K+M,n)` -/
theorem vandermonde_moment1 (K M n : ℕ) :
    ((K : ℝ) + M) * ∑ k ∈ range (n + 1), (k : ℝ) * ((K.choose k : ℝ) * (M.choose (n - k) : ℝ))
      = (K : ℝ) * n * ((K + M).choose n : ℝ) := by
  rcases K with _ | K
  · have : ∀ k ∈ range (n + 1), (k : ℝ) * (((0 : ℕ).choose k : ℝ) * (M.choose (n - k) : ℝ)) = 0 := by
      intro k _; rcases k with _ | k <;> simp
    rw [Finset.sum_eq_zero this]; simp
  rcases n with _ | n
  · simp
  rw [Finset.sum_range_succ']
  have e : ∀ k ∈ range (n + 1), ((k + 1 : ℕ) : ℝ) * (((K + 1).choose (k + 1) : ℝ)
        * (M.choose (n + 1 - (k + 1)) : ℝ))
      = ((K : ℝ) + 1) * ((K.choose k : ℝ) * (M.choose (n - k) : ℝ)) := by
    intro k _
    rw [Nat.add_sub_add_right]
    have := absorb K k
    push_cast
    linear_combination (M.choose (n - k) : ℝ) * this
  rw [Finset.sum_congr rfl e, ← Finset.mul_sum, vandermonde_range]
  have h2 := absorb (K + M) n
  have e2 : K + 1 + M = K + M + 1 := by ring
  rw [e2]
  push_cast at h2 ⊢
  simp only [zero_mul, add_zero]
  linear_combination (-(K : ℝ) - 1) * h2

/-- second factorial moment:
    `(K+M)(K+M−1)·Σ_{k≤n} k(k−1)·C(K,k)·C(M,n−k) = K(K−1)·n(n−1)·C(K+M,n)` -/
theorem vandermonde_moment2 (K M n : ℕ) :
    ((K : ℝ) + M) * ((K : ℝ) + M - 1)
        * ∑ k ∈ range (n + 1), ((k : ℝ) * ((k : ℝ) - 1)) * ((K.choose k : ℝ) * (M.choose (n - k) : ℝ))
      = (K : ℝ) * ((K : ℝ) - 1) * (n * ((n : ℝ) - 1)) * ((K + M).choose n : ℝ) := by
  -- K = 0, 1: every term vanishes
  have hsmall : ∀ K' : ℕ, K' ≤ 1 → ∀ k ∈ range (n + 1),
      ((k : ℝ) * ((k : ℝ) - 1)) * ((K'.choose k : ℝ) * (M.choose (n - k) : ℝ)) = 0 := by
    intro K' hK' k _
    rcases k with _ | _ | k
    · simp
    · simp
    · have : K'.choose (k + 1 + 1) = 0 := Nat.choose_eq_zero_of_lt (by omega)
      rw [this]; simp
  rcases K with _ | _ | K
  · rw [Finset.sum_eq_zero (hsmall 0 (by omega))]; simp
  · rw [Finset.sum_eq_zero (hsmall 1 (by omega))]; simp
  rcases n with _ | _ | n
  · simp
  · simp [Finset.sum_range_succ]
  rw [Finset.sum_range_succ', Finset.sum_range_succ']
  have e : ∀ k ∈ range (n + 1), (((k + 1 + 1 : ℕ) : ℝ) * (((k + 1 + 1 : ℕ) : ℝ) - 1))
        * (((K + 1 + 1).choose (k + 1 + 1) : ℝ) * (M.choose (n + 1 + 1 - (k + 1 + 1)) : ℝ))
      = (((K : ℝ) + 2) * ((K : ℝ) + 1)) * ((K.choose k : ℝ) * (M.choose (n - k) : ℝ)) := by
    intro k _
    rw [Nat.add_sub_add_right, Nat.add_sub_add_right]
    have h1 := absorb K k
    have h2 := absorb (K + 1) (k + 1)
    push_cast at h2 ⊢
    linear_combination (M.choose (n - k) : ℝ) * ((k : ℝ) + 1) * h2
      + (M.choose (n - k) : ℝ) * ((K : ℝ) + 2) * h1
  rw [Finset.sum_congr rfl e, ← Finset.mul_sum, vandermonde_range]
  have h1 := absorb (K + M) n
  have h2 := absorb (K + M + 1) (n + 1)
  have e2 : K + 1 + 1 + M = K + M + 1 + 1 := by ring
  rw [e2]
  push_cast at h1 h2 ⊢
  simp only [zero_mul, mul_zero, add_zero, sub_self]
  linear_combination (-((K : ℝ) + 2) * ((K : ℝ) + 1) * ((n : ℝ) + 1)) * h2
    - ((K : ℝ) + 2) * ((K : ℝ) + 1) * ((K : ℝ) + M + 2) * h1

variable (N K n : ℕ) (hK : K ≤ N) (hn : n ≤ N)
include hK hn

/-- `Σ_{k≤n} C(K,k)·C(N−K,n−k)/C(N,n) = 1` -/
theorem hyper_sum_mass :
    ∑ k ∈ range (n + 1), (K.choose k : ℝ) * ((N - K).choose (n - k) : ℝ) / (N.choose n : ℝ) = 1 := by
  have hc : (N.choose n : ℝ) ≠ 0 := by exact_mod_cast (Nat.choose_pos hn).ne'
  rw [← Finset.sum_div, vandermonde_range, Nat.add_sub_cancel' hK]
  exact div_self hc

/-- `Σ_{k≤n} k·C(K,k)·C(N−K,n−k)/C(N,n) = K·n/N` -/
theorem hyper_sum_mean (hN : 0 < N) :
    ∑ k ∈ range (n + 1), (k : ℝ) * ((K.choose k : ℝ) * ((N - K).choose (n - k) : ℝ) / (N.choose n : ℝ))
      = (K : ℝ) * n / N := by
  have hc : (N.choose n : ℝ) ≠ 0 := by exact_mod_cast (Nat.choose_pos hn).ne'
  have hN' : (N : ℝ) ≠ 0 := by exact_mod_cast hN.ne'
  have h := vandermonde_moment1 K (N - K) n
  rw [Nat.add_sub_cancel' hK] at h
  have hc2 : ((K : ℝ) + ((N - K : ℕ) : ℝ)) = N := by
    rw [Nat.cast_sub hK]; ring
  rw [hc2] at h
  have e : ∀ k ∈ range (n + 1),
      (k : ℝ) * ((K.choose k : ℝ) * ((N - K).choose (n - k) : ℝ) / (N.choose n : ℝ))
      = ((k : ℝ) * ((K.choose k : ℝ) * ((N - K).choose (n - k) : ℝ))) / (N.choose n : ℝ) := by
    intro k _; ring
  rw [Finset.sum_congr rfl e, ← Finset.sum_div]
  rw [div_eq_div_iff hc hN']
  linear_combination h

/-- `Σ_{k≤n} k(k−1)·C(K,k)·C(N−K,n−k)/C(N,n) = K(K−1)·n(n−1)/(N(N−1))` -/
theorem hyper_sum_fact2 (hN : 1 < N) :
    ∑ k ∈ range (n + 1), ((k : ℝ) * ((k : ℝ) - 1))
        * ((K.choose k : ℝ) * ((N - K).choose (n - k) : ℝ) / (N.choose n : ℝ))
      = (K : ℝ) * ((K : ℝ) - 1) * (n * ((n : ℝ) - 1)) / (N * ((N : ℝ) - 1)) := by
  have hc : (N.choose n : ℝ) ≠ 0 := by exact_mod_cast (Nat.choose_pos hn).ne'
  have hN1 : (1 : ℝ) < N := by exact_mod_cast hN
  have hN' : (N : ℝ) * ((N : ℝ) - 1) ≠ 0 := by
    apply mul_ne_zero <;> linarith
  have h := vandermonde_moment2 K (N - K) n
  rw [Nat.add_sub_cancel' hK] at h
  have hc2 : ((K : ℝ) + ((N - K : ℕ) : ℝ)) = N := by
    rw [Nat.cast_sub hK]; ring
  rw [hc2] at h
  have e : ∀ k ∈ range (n + 1), ((k : ℝ) * ((k : ℝ) - 1))
        * ((K.choose k : ℝ) * ((N - K).choose (n - k) : ℝ) / (N.choose n : ℝ))
      = (((k : ℝ) * ((k : ℝ) - 1)) * ((K.choose k : ℝ) * ((N - K).choose (n - k) : ℝ)))
        / (N.choose n : ℝ) := by
    intro k _; ring
  rw [Finset.sum_congr rfl e, ← Finset.sum_div]
  rw [div_eq_div_iff hc hN']
  linear_combination h

/-- `Σ_{k≤n} (k−μ)²·C(K,k)·C(N−K,n−k)/C(N,n) = n·K·(N−n)·(N−K)/(N²(N−1))`, `μ = K·n/N` -/
theorem hyper_sum_variance (hN : 1 < N) :
    ∑ k ∈ range (n + 1), (((k : ℝ) - (K : ℝ) * n / N) * ((k : ℝ) - (K : ℝ) * n / N))
        * ((K.choose k : ℝ) * ((N - K).choose (n - k) : ℝ) / (N.choose n : ℝ))
      = (n : ℝ) * K * ((N : ℝ) - n) * ((N : ℝ) - K) / (N * N * ((N : ℝ) - 1)) := by
  have hN1 : (1 : ℝ) < N := by exact_mod_cast hN
  have hN0 : (N : ℝ) ≠ 0 := by linarith
  have hN1' : (N : ℝ) - 1 ≠ 0 := by linarith
  set μ : ℝ := (K : ℝ) * n / N with hμ
  have e : ∀ k ∈ range (n + 1), (((k : ℝ) - μ) * ((k : ℝ) - μ))
        * ((K.choose k : ℝ) * ((N - K).choose (n - k) : ℝ) / (N.choose n : ℝ))
      = ((k : ℝ) * ((k : ℝ) - 1))
          * ((K.choose k : ℝ) * ((N - K).choose (n - k) : ℝ) / (N.choose n : ℝ))
        + (1 - 2 * μ) * ((k : ℝ)
          * ((K.choose k : ℝ) * ((N - K).choose (n - k) : ℝ) / (N.choose n : ℝ)))
        + μ ^ 2 * ((K.choose k : ℝ) * ((N - K).choose (n - k) : ℝ) / (N.choose n : ℝ)) := by
    intro k _; ring
  rw [Finset.sum_congr rfl e, Finset.sum_add_distrib, Finset.sum_add_distrib, ← Finset.mul_sum,
    ← Finset.mul_sum, hyper_sum_mass N K n hK hn, hyper_sum_mean N K n hK hn (by omega),
    hyper_sum_fact2 N K n hK hn hN, hμ]
  field_simp
  ring

end hypergeometric

end Statrs.Lemmas.MomentSums
