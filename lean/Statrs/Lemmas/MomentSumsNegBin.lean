/-
  Pure-mathematics series identities for the negative binomial law with real shape `r > 0`
  (used by `Props/C07/MomentIntegralsC5.lean`); nothing here refers to the generated model.
  Weights `w(n) = p^r (1−p)ⁿ Γ(r+n)/(Γ(r)Γ(n+1))`:  `Σ w = 1`, `Σ n·w = r(1−p)/p`,
  `Σ n(n−1)·w = r(r+1)(1−p)²/p²`, `Σ (n−μ)²·w = r(1−p)/p²`.
  The mass series is Newton's binomial series `Σ C(r+n−1,n) qⁿ = (1−q)^{−r}`
  (Mathlib: `Real.one_div_one_sub_rpow_hasFPowerSeriesOnBall_zero`).
-/
import Mathlib.Tactic
import Mathlib.Analysis.Analytic.Binomial
import Mathlib.Analysis.SpecialFunctions.Gamma.Basic
import Statrs.Lemmas.MomentSums
namespace Statrs.Lemmas.MomentSums
open Finset

/-- `Γ(r+n)/(Γ(r)·Γ(n+1))` — the generalised binomial coefficient `C(r+n−1, n)` -/
noncomputable def nbCoef (r : ℝ) (n : ℕ) : ℝ :=
  Real.Gamma (r + n) / (Real.Gamma r * Real.Gamma ((n : ℝ) + 1))

private lemma gamma_add_nat (r : ℝ) (hr : 0 < r) (n : ℕ) :
    Real.Gamma (r + n) = Real.Gamma r * (ascPochhammer ℝ n).eval r := by
  induction n with
  | zero => simp
  | succ n ih =>
    have : r + ((n + 1 : ℕ) : ℝ) = (r + n) + 1 := by push_cast; ring
    rw [this, Real.Gamma_add_one (by positivity), ih, ascPochhammer_succ_eval]; ring

/-- `C(r+n−1, n) = Γ(r+n)/(Γ(r)Γ(n+1))` for `r > 0` -/
theorem ring_choose_eq_nbCoef (r : ℝ) (hr : 0 < r) (n : ℕ) :
    Ring.choose (r + n - 1) n = nbCoef r n := by
  unfold nbCoef
  rw [← Ring.multichoose_eq]
  have h := Ring.factorial_nsmul_multichoose_eq_ascPochhammer r n
  rw [Polynomial.ascPochhammer_smeval_eq_eval, nsmul_eq_mul] at h
  have hf : (n.factorial : ℝ) ≠ 0 := by exact_mod_cast Nat.factorial_ne_zero n
  have hG := (Real.Gamma_pos_of_pos hr).ne'
  rw [gamma_add_nat r hr, Real.Gamma_nat_eq_factorial, ← h]
  field_simp

/-- Newton's series: `Σ_{n≥0} C(r+n−1,n) qⁿ = (1−q)^{−r}` for `0 ≤ q < 1`, `r > 0` -/
theorem nbCoef_hasSum (r q : ℝ) (hr : 0 < r) (hq0 : 0 ≤ q) (hq1 : q < 1) :
    HasSum (fun n : ℕ => nbCoef r n * q ^ n) (1 / (1 - q) ^ r) := by
  have hb : ‖q‖₊ < 1 := by
    rw [← NNReal.coe_lt_coe]; simpa [abs_of_nonneg hq0] using hq1
  have h := (Real.one_div_one_sub_rpow_hasFPowerSeriesOnBall_zero r).hasSum (y := q) (by
    simpa [enorm_eq_nnnorm] using hb)
  simp only [ring_choose_eq_nbCoef r hr] at h
  simpa [FormalMultilinearSeries.ofScalars_apply_eq, mul_comm] using h

/-- absorption: `(n+1)·c(r,n+1) = r·c(r+1,n)` -/
theorem nbCoef_absorb (r : ℝ) (hr : 0 < r) (n : ℕ) :
    ((n : ℝ) + 1) * nbCoef r (n + 1) = r * nbCoef (r + 1) n := by
  have e1 : r + ((n + 1 : ℕ) : ℝ) = r + 1 + n := by push_cast; ring
  have e2 : Real.Gamma (((n + 1 : ℕ) : ℝ) + 1) = ((n : ℝ) + 1) * Real.Gamma ((n : ℝ) + 1) := by
    push_cast; exact Real.Gamma_add_one (by positivity)
  have hG := (Real.Gamma_pos_of_pos hr).ne'
  have hG1 := (Real.Gamma_pos_of_pos (by positivity : (0 : ℝ) < (n : ℝ) + 1)).ne'
  have hn : ((n : ℝ) + 1) ≠ 0 := by positivity
  unfold nbCoef
  rw [e1, e2, Real.Gamma_add_one hr.ne']
  field_simp

section sums
variable {r p : ℝ} (hr : 0 < r) (hp0 : 0 < p) (hp1 : p < 1)
include hr hp0 hp1

/-- `Σ_{n≥0} p^r (1−p)ⁿ c(r,n) = 1` -/
theorem negbin_hasSum_mass :
    HasSum (fun n : ℕ => p ^ r * (1 - p) ^ n * nbCoef r n) 1 := by
  have h := (nbCoef_hasSum r (1 - p) hr (by linarith) (by linarith)).mul_left (p ^ r)
  have hpr : p ^ r ≠ 0 := (Real.rpow_pos_of_pos hp0 r).ne'
  refine hasSum_congr' h (fun n => by ring) ?_
  rw [sub_sub_cancel]; field_simp

/-- `Σ_{n≥0} n·p^r (1−p)ⁿ c(r,n) = r(1−p)/p` -/
theorem negbin_hasSum_mean :
    HasSum (fun n : ℕ => (n : ℝ) * (p ^ r * (1 - p) ^ n * nbCoef r n)) (r * (1 - p) / p) := by
  apply hasSum_of_succ (by simp)
  have h := (nbCoef_hasSum (r + 1) (1 - p) (by linarith) (by linarith) (by linarith)).mul_left
    (p ^ r * (1 - p) * r)
  have hpr : p ^ r ≠ 0 := (Real.rpow_pos_of_pos hp0 r).ne'
  refine hasSum_congr' h (fun n => ?_) ?_
  · have := nbCoef_absorb r hr n
    push_cast
    linear_combination (p ^ r * (1 - p) ^ (n + 1)) * this
  · rw [sub_sub_cancel, Real.rpow_add_one hp0.ne']; field_simp

/-- `Σ_{n≥0} n(n−1)·p^r (1−p)ⁿ c(r,n) = r(r+1)(1−p)²/p²` -/
theorem negbin_hasSum_fact2 :
    HasSum (fun n : ℕ => ((n : ℝ) * ((n : ℝ) - 1)) * (p ^ r * (1 - p) ^ n * nbCoef r n))
      (r * (r + 1) * (1 - p) ^ 2 / p ^ 2) := by
  apply hasSum_of_succ_succ (by simp) (by simp)
  have h := (nbCoef_hasSum (r + 1 + 1) (1 - p) (by linarith) (by linarith) (by linarith)).mul_left
    (p ^ r * (1 - p) ^ 2 * (r * (r + 1)))
  have hpr : p ^ r ≠ 0 := (Real.rpow_pos_of_pos hp0 r).ne'
  refine hasSum_congr' h (fun n => ?_) ?_
  · have h1 := nbCoef_absorb r hr (n + 1)
    have h2 := nbCoef_absorb (r + 1) (by linarith) n
    push_cast at h1 ⊢
    linear_combination (p ^ r * (1 - p) ^ (n + 2) * ((n : ℝ) + 1)) * h1
      + (p ^ r * (1 - p) ^ (n + 2) * r) * h2
  · rw [sub_sub_cancel, Real.rpow_add_one hp0.ne', Real.rpow_add_one hp0.ne']; field_simp

/-- `Σ_{n≥0} (n−μ)²·p^r (1−p)ⁿ c(r,n) = r(1−p)/p²`, `μ = r(1−p)/p` -/
theorem negbin_hasSum_variance :
    HasSum (fun n : ℕ => (((n : ℝ) - r * (1 - p) / p) * ((n : ℝ) - r * (1 - p) / p))
        * (p ^ r * (1 - p) ^ n * nbCoef r n)) (r * (1 - p) / (p * p)) := by
  have h := ((negbin_hasSum_fact2 hr hp0 hp1).add
    ((negbin_hasSum_mean hr hp0 hp1).mul_left (1 - 2 * (r * (1 - p) / p)))).add
    ((negbin_hasSum_mass hr hp0 hp1).mul_left ((r * (1 - p) / p) ^ 2))
  refine hasSum_congr' h (fun n => by ring) ?_
  field_simp
  ring

end sums

end Statrs.Lemmas.MomentSums
