/-
  Moment identities behind the multinomial theorem (pure Mathlib, no model imports).

  For every real vector `q : ι → ℝ` (no sign or normalisation condition) and every `n`, with
  `mterm q k = multinomial(k) · ∏ qᵢ^kᵢ` and the sums ranging over all count vectors `k` with `Σ k = n`:
    * `sum_mterm`            : `Σ_k mterm q k = (Σ q)ⁿ`                                   (multinomial theorem)
    * `sum_count_mul_mterm`  : `Σ_k kᵢ · mterm q k = n qᵢ (Σ q)^(n-1)`
    * `sum_count_mul_count_mul_mterm` :
        `Σ_k kᵢ kⱼ · mterm q k = n (n-1) qᵢ qⱼ (Σ q)^(n-2) + [i = j] n qᵢ (Σ q)^(n-1)`
  obtained by differentiating the multinomial theorem along the exponential tilt `qᵢ ↦ qᵢ eᵗ`.
-/
import Mathlib
set_option linter.unusedSectionVars false
set_option linter.unusedVariables false
namespace Statrs.Lemmas.MultinomialMoments
open Finset

variable {ι : Type*} [Fintype ι] [DecidableEq ι]

/-- the multinomial-theorem term of the count vector `k` at `q` -/
noncomputable def mterm (q : ι → ℝ) (k : ι → ℕ) : ℝ := (Nat.multinomial univ k : ℝ) * ∏ i, q i ^ k i

/-- the multinomial theorem -/
theorem sum_mterm (q : ι → ℝ) (n : ℕ) : ∑ k ∈ piAntidiag univ n, mterm q k = (∑ i, q i) ^ n :=
  (sum_pow_eq_sum_piAntidiag univ q n).symm

/-- the exponential tilt of coordinate `i` -/
noncomputable def tilt (q : ι → ℝ) (i : ι) (t : ℝ) : ι → ℝ := fun j => if j = i then q j * Real.exp t else q j

theorem tilt_zero (q : ι → ℝ) (i : ι) : tilt q i 0 = q := by
  funext j; simp [tilt]

theorem mterm_tilt (q : ι → ℝ) (i : ι) (t : ℝ) (k : ι → ℕ) :
    mterm (tilt q i t) k = mterm q k * Real.exp (t * k i) := by
  unfold mterm tilt
  have h : ∀ j, (if j = i then q j * Real.exp t else q j) ^ k j =
      q j ^ k j * (if j = i then Real.exp t ^ k j else 1) := by
    intro j
    by_cases hj : j = i
    · simp [hj, mul_pow]
    · simp [hj]
  simp_rw [h]
  rw [prod_mul_distrib, prod_ite_eq' univ i, if_pos (mem_univ i), mul_assoc, mul_comm t, Real.exp_nat_mul]

theorem sum_tilt (q : ι → ℝ) (i : ι) (t : ℝ) :
    ∑ j, tilt q i t j = (∑ j, q j) + q i * (Real.exp t - 1) := by
  unfold tilt
  have h : ∀ j, (if j = i then q j * Real.exp t else q j) = q j + (if j = i then q j * (Real.exp t - 1) else 0) := by
    intro j
    by_cases hj : j = i
    · simp [hj]; ring
    · simp [hj]
  simp_rw [h]
  rw [sum_add_distrib, sum_ite_eq' univ i, if_pos (mem_univ i)]

/-- derivative of a finite exponential sum -/
theorem hasDerivAt_sum_exp {κ : Type*} (s : Finset κ) (w a : κ → ℝ) :
    HasDerivAt (fun t : ℝ => ∑ k ∈ s, w k * Real.exp (t * a k)) (∑ k ∈ s, a k * w k) 0 := by
  have h : ∀ k ∈ s, HasDerivAt (fun t : ℝ => w k * Real.exp (t * a k)) (a k * w k) 0 := by
    intro k _
    have h1 : HasDerivAt (fun t : ℝ => t * a k) (a k) 0 := by
      simpa using (hasDerivAt_id (0 : ℝ)).mul_const (a k)
    have h2 := (h1.exp).const_mul (w k)
    simpa [mul_comm] using h2
  have := HasDerivAt.fun_sum h
  simpa using this

/-- first moments of the multinomial-theorem terms -/
theorem sum_count_mul_mterm (q : ι → ℝ) (n : ℕ) (i : ι) :
    ∑ k ∈ piAntidiag univ n, (k i : ℝ) * mterm q k = n * q i * (∑ j, q j) ^ (n - 1) := by
  have hL := hasDerivAt_sum_exp (piAntidiag (univ : Finset ι) n) (mterm q) (fun k => (k i : ℝ))
  have hfun : (fun t : ℝ => ∑ k ∈ piAntidiag univ n, mterm q k * Real.exp (t * (k i : ℝ))) =
      fun t => ((∑ j, q j) + q i * (Real.exp t - 1)) ^ n := by
    funext t
    simp_rw [← mterm_tilt]
    rw [sum_mterm, sum_tilt]
  rw [hfun] at hL
  have hR : HasDerivAt (fun t : ℝ => ((∑ j, q j) + q i * (Real.exp t - 1)) ^ n)
      ((n : ℝ) * ((∑ j, q j) + q i * (Real.exp 0 - 1)) ^ (n - 1) * (q i * Real.exp 0)) 0 := by
    have h1 : HasDerivAt (fun t : ℝ => (∑ j, q j) + q i * (Real.exp t - 1)) (q i * Real.exp 0) 0 :=
      (((Real.hasDerivAt_exp 0).sub_const 1).const_mul (q i)).const_add _
    exact h1.pow n
  have := hL.unique hR
  rw [this]
  simp
  ring

/-- second (raw) moments of the multinomial-theorem terms -/
theorem sum_count_mul_count_mul_mterm (q : ι → ℝ) (n : ℕ) (i j : ι) :
    ∑ k ∈ piAntidiag univ n, (k i : ℝ) * (k j : ℝ) * mterm q k =
      n * (n - 1) * q i * q j * (∑ l, q l) ^ (n - 2) + (if i = j then n * q i * (∑ l, q l) ^ (n - 1) else 0) := by
  have hL := hasDerivAt_sum_exp (piAntidiag (univ : Finset ι) n) (fun k => (k i : ℝ) * mterm q k)
    (fun k => (k j : ℝ))
  have hfun : (fun t : ℝ => ∑ k ∈ piAntidiag univ n, (k i : ℝ) * mterm q k * Real.exp (t * (k j : ℝ))) =
      fun t => n * (if i = j then q i * Real.exp t else q i) *
        ((∑ l, q l) + q j * (Real.exp t - 1)) ^ (n - 1) := by
    funext t
    simp_rw [mul_assoc, ← mterm_tilt]
    rw [sum_count_mul_mterm, sum_tilt]
    unfold tilt
    ring
  rw [hfun] at hL
  have h1 : HasDerivAt (fun t : ℝ => (∑ l, q l) + q j * (Real.exp t - 1)) (q j * Real.exp 0) 0 :=
    (((Real.hasDerivAt_exp 0).sub_const 1).const_mul (q j)).const_add _
  have h2 := h1.pow (n - 1)
  have h3 : HasDerivAt (fun t : ℝ => (n : ℝ) * (if i = j then q i * Real.exp t else q i))
      ((n : ℝ) * (if i = j then q i * Real.exp 0 else 0)) 0 := by
    by_cases hij : i = j
    · simp only [hij, if_true]
      exact ((Real.hasDerivAt_exp 0).const_mul (q j)).const_mul _
    · simp only [hij, if_false, mul_zero]
      exact hasDerivAt_const _ _
  have hR := h3.mul h2
  have := hL.unique hR
  have hsum : ∑ k ∈ piAntidiag univ n, (k i : ℝ) * (k j : ℝ) * mterm q k =
      ∑ k ∈ piAntidiag univ n, (k j : ℝ) * ((k i : ℝ) * mterm q k) :=
    sum_congr rfl (fun k _ => by ring)
  rw [hsum, this]
  rcases n with _ | m
  · simp
  · simp only [Pi.pow_apply, Real.exp_zero, sub_self, mul_zero, add_zero, mul_one, Nat.add_sub_cancel, Nat.cast_add,
      Nat.cast_one, add_sub_cancel_right]
    rw [show m + 1 - 2 = m - 1 from rfl]
    by_cases hij : i = j
    · simp only [hij, if_true]; ring
    · simp only [hij, if_false]; ring

end Statrs.Lemmas.MultinomialMoments
