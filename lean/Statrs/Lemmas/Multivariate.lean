/-
  Helper lemmas for C19 (hand models of the multivariate distributions, Statrs/Model/Multivariate.lean):
  literal normalisation over ℝ and the one-dimensional instances of the nalgebra routines.
-/
import Statrs.Real.Simp
import Statrs.Model.Multivariate
import Mathlib.Tactic
namespace Statrs.Lemmas.Multivariate
open Statrs Statrs.Model

theorem lit0 : (0.0 : ℝ) = 0 := by norm_num
theorem lit1 : (1.0 : ℝ) = 1 := by norm_num
theorem lit2 : (2.0 : ℝ) = 2 := by norm_num
theorem lit05 : (0.5 : ℝ) = 1 / 2 := by norm_num

theorem det_one (s : ℝ) : LA.determinant [[s]] = s := by
  simp [LA.determinant, LA.mget]

theorem dotx_nil : LA.dotx ([] : List ℝ) [] = 0 := by
  simp [LA.dotx, LA.dotxAcc, lit0]

theorem dotx_one (a b : ℝ) : LA.dotx [a] [b] = a * b := by
  simp [LA.dotx, LA.dotxAcc, lit0]

theorem matvec_one (p v : ℝ) : LA.matvec [[p]] [v] = [p * v] := by
  simp [LA.matvec, LA.gemvCols, LA.col, lit1]

theorem chol_one (s : ℝ) (hs : 0 < s) : LA.choleskyNew [[s]] = some [[Real.sqrt s]] := by
  simp [LA.choleskyNew, LA.cholStep, LA.mget, List.range_succ, hs.ne', hs.le, lit0]

theorem cholInv_one (l : ℝ) : LA.choleskyInverse [[l]] = [[1 / l / l]] := by
  simp [LA.choleskyInverse, LA.adSolveLower, LA.solveLower, LA.identity, LA.col, LA.transpose,
    LA.mget, List.range_succ, dotx_nil, lit1]

theorem unpack_one (l : ℝ) : LA.choleskyUnpack [[l]] = [[l]] := by
  simp [LA.choleskyUnpack]
/-! ### folds as sums / products over ℝ -/

theorem foldl_add_eq_sum (l : List ℝ) (c : ℝ) : l.foldl (fun a b => a + b) c = c + l.sum := by
  induction l generalizing c with
  | nil => simp
  | cons h t ih => simp [ih, add_assoc]

theorem vsum_eq_sum (l : List ℝ) : LA.vsum l = l.sum := by
  unfold LA.vsum; rw [foldl_add_eq_sum, lit0, zero_add]

theorem foldl_triple {β : Type} (l : List β) (f g h : β → ℝ) (s : ℝ × ℝ × ℝ) :
    l.foldl (fun (st : ℝ × ℝ × ℝ) xa => (st.1 + f xa, st.2.1 + g xa, st.2.2 + h xa)) s =
      (s.1 + (l.map f).sum, s.2.1 + (l.map g).sum, s.2.2 + (l.map h).sum) := by
  induction l generalizing s with
  | nil => simp
  | cons a t ih => simp [ih, add_assoc]

theorem foldl_mul_eq_prod {β : Type} (l : List β) (f : β → ℝ) (c : ℝ) :
    l.foldl (fun acc q => acc * f q) c = c * (l.map f).prod := by
  induction l generalizing c with
  | nil => simp
  | cons a t ih => simp [ih, mul_assoc]

theorem mget_tabulate {α : Type} [Inhabited α] (k : Nat) (f : Nat → Nat → α) (r c : Nat) (hr : r < k) (hc : c < k) :
    LA.mget ((List.range k).map (fun r => (List.range k).map (fun c => f r c))) r c = f r c := by
  simp [LA.mget, hr, hc]

/-! ### nalgebra's `dot` / `gemv` over ℝ are the textbook sums -/

/-- the accumulators + unprocessed tail of the unrolled loop carry the same total -/
theorem dotxAcc_sum (l : List ℝ) (c : ℝ × ℝ × ℝ × ℝ × ℝ × ℝ × ℝ × ℝ) :
    ((LA.dotxAcc l c).1.1 + (LA.dotxAcc l c).1.2.1 + (LA.dotxAcc l c).1.2.2.1 + (LA.dotxAcc l c).1.2.2.2.1
      + (LA.dotxAcc l c).1.2.2.2.2.1 + (LA.dotxAcc l c).1.2.2.2.2.2.1 + (LA.dotxAcc l c).1.2.2.2.2.2.2.1
      + (LA.dotxAcc l c).1.2.2.2.2.2.2.2) + (LA.dotxAcc l c).2.sum =
    (c.1 + c.2.1 + c.2.2.1 + c.2.2.2.1 + c.2.2.2.2.1 + c.2.2.2.2.2.1 + c.2.2.2.2.2.2.1 + c.2.2.2.2.2.2.2) + l.sum := by
  fun_induction LA.dotxAcc l c with
  | case1 p0 p1 p2 p3 p4 p5 p6 p7 ps c0 c1 c2 c3 c4 c5 c6 c7 ih =>
    rw [ih]; simp only [List.sum_cons]; ring
  | case2 ps acc h => rfl

/-- over ℝ nalgebra's unrolled `dot` is the sum of the component products -/
theorem dotx_eq_sum (a b : List ℝ) : LA.dotx a b = (List.zipWith (fun x y => x * y) a b).sum := by
  unfold LA.dotx
  have h := dotxAcc_sum (List.zipWith (fun x y => x * y) a b) (0, 0, 0, 0, 0, 0, 0, 0)
  simp only [lit0]
  generalize LA.dotxAcc (List.zipWith (fun x y => x * y) a b) (0, 0, 0, 0, 0, 0, 0, 0) = r at h ⊢
  obtain ⟨⟨c0, c1, c2, c3, c4, c5, c6, c7⟩, tail⟩ := r
  simp only at h ⊢
  rw [foldl_add_eq_sum]
  linarith


theorem col_real (a : List (List ℝ)) (j : ℕ) : LA.col a j = a.map (fun r => r.getD j 0) := rfl

theorem sum_range_succ_shift (f : ℕ → ℝ) (n : ℕ) :
    ((List.range (n + 1)).map f).sum = f 0 + ((List.range n).map (fun t => f (t + 1))).sum := by
  rw [List.range_succ_eq_map, List.map_cons, List.sum_cons, List.map_map]; rfl

theorem gemvCols_eq (a : List (List ℝ)) (xs : List ℝ) : ∀ (j : ℕ) (y : List ℝ), y.length = a.length →
    LA.gemvCols a j xs y =
      List.zipWith (fun row yi => yi + ((List.range xs.length).map (fun t => row.getD (j + t) 0 * xs.getD t 0)).sum) a y := by
  induction xs with
  | nil =>
    intro j y hy
    simp only [LA.gemvCols, List.length_nil, List.range_zero, List.map_nil, List.sum_nil, add_zero]
    apply List.ext_getElem
    · simp [hy]
    · intro i h1 h2; simp
  | cons xj xs ih =>
    intro j y hy
    rw [LA.gemvCols, col_real, ih (j + 1) _ (by simp [hy])]
    apply List.ext_getElem
    · simp [hy]
    · intro i h1 h2
      simp only [List.getElem_zipWith, List.getElem_map, List.length_cons, lit1, one_mul]
      rw [sum_range_succ_shift]
      simp only [add_zero, List.getD_cons_zero, List.getD_cons_succ]
      have : ∀ t : ℕ, j + 1 + t = j + (t + 1) := fun t => by omega
      simp only [this]
      ring

/-- over ℝ nalgebra's column-oriented `gemv` is the row-by-row sum `Σ_t a[i][t] * x[t]` -/
theorem matvec_eq (a : List (List ℝ)) (x : List ℝ) :
    LA.matvec a x = a.map (fun row => ((List.range x.length).map (fun t => row.getD t 0 * x.getD t 0)).sum) := by
  have hd : (default : ℝ) = 0 := rfl
  cases x with
  | nil => simp [LA.matvec, lit0]
  | cons x0 xs =>
    rw [LA.matvec, col_real, gemvCols_eq _ _ _ _ (by simp)]
    apply List.ext_getElem
    · simp
    · intro i h1 h2
      simp only [List.getElem_zipWith, List.getElem_map, List.length_cons, lit1, one_mul]
      rw [sum_range_succ_shift]
      simp only [List.getD_cons_zero, List.getD_cons_succ]
      have : ∀ t : ℕ, 1 + t = t + 1 := fun t => by omega
      simp only [this]

theorem list_sum_range_eq_finset (n : ℕ) (f : ℕ → ℝ) :
    ((List.range n).map f).sum = ∑ t ∈ Finset.range n, f t := by
  induction n with
  | zero => simp
  | succ n ih => rw [List.range_succ, List.map_append, List.sum_append, ih, Finset.sum_range_succ]; simp

theorem zipWith_sum_eq_finset {β : Type} (F : β → ℝ → ℝ) (P : List β) (v : List ℝ) (n : ℕ) (dP : β)
    (hP : P.length = n) (hv : v.length = n) :
    (List.zipWith F P v).sum = ∑ i ∈ Finset.range n, F (P.getD i dP) (v.getD i 0) := by
  rw [← list_sum_range_eq_finset]
  congr 1
  apply List.ext_getElem
  · simp [hP, hv]
  · intro i h1 h2
    simp at h1
    simp [List.getD_eq_getElem?_getD, h1.1, h1.2]

/-- the quadratic form `(P v) · v` as computed by `matvec`/`dotx`, as a double sum -/
theorem quadForm_eq (P : List (List ℝ)) (v : List ℝ) (n : ℕ) (hP : P.length = n) (hv : v.length = n) :
    LA.dotx (LA.matvec P v) v =
      ∑ i ∈ Finset.range n, (∑ j ∈ Finset.range n, LA.mget P i j * v.getD j 0) * v.getD i 0 := by
  rw [dotx_eq_sum, matvec_eq, List.zipWith_map_left,
    zipWith_sum_eq_finset _ P v n [] hP hv]
  apply Finset.sum_congr rfl
  intro i _
  rw [list_sum_range_eq_finset, hv]
  rfl

end Statrs.Lemmas.Multivariate
