/-
  Statrs.Lemmas.OrderStats — specification-side lemmas for C14: the sorted data and its k-th
  entry, and the R-8 quantile estimator `Spec.OrderStats.quantileR8` (range and monotonicity).
  Nothing here mentions the generated model.
-/
import Statrs.Spec.OrderStats
import Mathlib.Tactic
namespace Statrs.Lemmas.OrderStats
open Statrs.Spec.OrderStats

theorem sorted_perm (l : List ℝ) : (sorted l).Perm l := List.perm_insertionSort _ l

theorem sorted_length (l : List ℝ) : (sorted l).length = l.length := (sorted_perm l).length_eq

theorem sorted_pairwise (l : List ℝ) : (sorted l).Pairwise (· ≤ ·) :=
  List.pairwise_insertionSort _ l

/-- sorting forgets the input order -/
theorem sorted_congr {l l' : List ℝ} (h : l.Perm l') : sorted l = sorted l' :=
  List.Perm.eq_of_pairwise' (sorted_pairwise l) (sorted_pairwise l')
    (((sorted_perm l).trans h).trans (sorted_perm l').symm)

theorem kth_congr {l l' : List ℝ} (h : l.Perm l') (k : ℕ) : kth l k = kth l' k := by
  unfold kth; rw [sorted_congr h]

theorem kth_eq_getElem (l : List ℝ) (k : ℕ) (h : k < l.length) :
    kth l k = (sorted l)[k]'(by rw [sorted_length]; exact h) := by
  unfold kth
  rw [List.getD_eq_getElem?_getD, List.getElem?_eq_getElem (by rw [sorted_length]; exact h)]; rfl

theorem kth_mem (l : List ℝ) (k : ℕ) (h : k < l.length) : kth l k ∈ l := by
  rw [kth_eq_getElem l k h]
  exact (sorted_perm l).mem_iff.1 (List.getElem_mem _)

/-- the order statistics are non-decreasing in the index -/
theorem kth_mono (l : List ℝ) (i j : ℕ) (hij : i ≤ j) (hj : j < l.length) :
    kth l i ≤ kth l j := by
  rw [kth_eq_getElem l i (by omega), kth_eq_getElem l j hj]
  rcases Nat.eq_or_lt_of_le hij with rfl | hlt
  · exact le_refl _
  · exact List.pairwise_iff_getElem.1 (sorted_pairwise l) i j _ _ hlt

/-- every entry is some order statistic -/
theorem exists_kth_of_mem (l : List ℝ) (x : ℝ) (hx : x ∈ l) : ∃ k, k < l.length ∧ kth l k = x := by
  have hx' : x ∈ sorted l := (sorted_perm l).mem_iff.2 hx
  obtain ⟨k, hk, e⟩ := List.getElem_of_mem hx'
  have hk' : k < l.length := by rw [← sorted_length]; exact hk
  exact ⟨k, hk', by rw [kth_eq_getElem l k hk']; exact e⟩

theorem kth_zero_le (l : List ℝ) (x : ℝ) (hx : x ∈ l) : kth l 0 ≤ x := by
  obtain ⟨k, hk, rfl⟩ := exists_kth_of_mem l x hx
  exact kth_mono l 0 k (Nat.zero_le _) hk

theorem le_kth_last (l : List ℝ) (x : ℝ) (hx : x ∈ l) : x ≤ kth l (l.length - 1) := by
  obtain ⟨k, hk, rfl⟩ := exists_kth_of_mem l x hx
  exact kth_mono l k _ (by omega) (by omega)

/-- a member that bounds the data from below is the 0-th order statistic -/
theorem eq_kth_zero (l : List ℝ) (m : ℝ) (hm : m ∈ l) (hlb : ∀ x ∈ l, m ≤ x) : m = kth l 0 := by
  have hpos : 0 < l.length := List.length_pos_of_mem hm
  exact le_antisymm (hlb _ (kth_mem l 0 hpos)) (kth_zero_le l m hm)

/-- a member that bounds the data from above is the last order statistic -/
theorem eq_kth_last (l : List ℝ) (m : ℝ) (hm : m ∈ l) (hub : ∀ x ∈ l, x ≤ m) :
    m = kth l (l.length - 1) := by
  have hpos : 0 < l.length := List.length_pos_of_mem hm
  exact le_antisymm (le_kth_last l m hm) (hub _ (kth_mem l _ (by omega)))

/-! ### piecewise-linear interpolation of a monotone integer sequence -/

theorem interp_mono (c : ℤ → ℝ) (hc : Monotone c) (x y : ℝ) (hxy : x ≤ y) :
    c ⌊x⌋ + (x - ⌊x⌋) * (c (⌊x⌋ + 1) - c ⌊x⌋) ≤ c ⌊y⌋ + (y - ⌊y⌋) * (c (⌊y⌋ + 1) - c ⌊y⌋) := by
  have hij : ⌊x⌋ ≤ ⌊y⌋ := Int.floor_mono hxy
  have fx0 : 0 ≤ x - ⌊x⌋ := sub_nonneg.2 (Int.floor_le x)
  have fx1 : x - ⌊x⌋ ≤ 1 := by have := Int.lt_floor_add_one x; linarith
  have fy0 : 0 ≤ y - ⌊y⌋ := sub_nonneg.2 (Int.floor_le y)
  have dx : 0 ≤ c (⌊x⌋ + 1) - c ⌊x⌋ := sub_nonneg.2 (hc (by omega))
  have dy : 0 ≤ c (⌊y⌋ + 1) - c ⌊y⌋ := sub_nonneg.2 (hc (by omega))
  rcases eq_or_lt_of_le hij with e | hlt
  · rw [← e]
    have : x - ⌊x⌋ ≤ y - ⌊x⌋ := by linarith
    have := mul_le_mul_of_nonneg_right this dx
    linarith
  · have h1 : c (⌊x⌋ + 1) ≤ c ⌊y⌋ := hc (by omega)
    have h2 : (x - ⌊x⌋) * (c (⌊x⌋ + 1) - c ⌊x⌋) ≤ 1 * (c (⌊x⌋ + 1) - c ⌊x⌋) :=
      mul_le_mul_of_nonneg_right fx1 dx
    have h3 : 0 ≤ (y - ⌊y⌋) * (c (⌊y⌋ + 1) - c ⌊y⌋) := mul_nonneg fy0 dy
    linarith

theorem interp_between (c : ℤ → ℝ) (hc : Monotone c) (x : ℝ) :
    c ⌊x⌋ ≤ c ⌊x⌋ + (x - ⌊x⌋) * (c (⌊x⌋ + 1) - c ⌊x⌋)
      ∧ c ⌊x⌋ + (x - ⌊x⌋) * (c (⌊x⌋ + 1) - c ⌊x⌋) ≤ c (⌊x⌋ + 1) := by
  have fx0 : 0 ≤ x - ⌊x⌋ := sub_nonneg.2 (Int.floor_le x)
  have fx1 : x - ⌊x⌋ ≤ 1 := by have := Int.lt_floor_add_one x; linarith
  have dx : 0 ≤ c (⌊x⌋ + 1) - c ⌊x⌋ := sub_nonneg.2 (hc (by omega))
  have h2 : (x - ⌊x⌋) * (c (⌊x⌋ + 1) - c ⌊x⌋) ≤ 1 * (c (⌊x⌋ + 1) - c ⌊x⌋) :=
    mul_le_mul_of_nonneg_right fx1 dx
  have h3 : 0 ≤ (x - ⌊x⌋) * (c (⌊x⌋ + 1) - c ⌊x⌋) := mul_nonneg fx0 dx
  constructor <;> linarith

/-! ### the R-8 estimator -/

/-- order statistic with the 1-based index clamped to `1..n` -/
noncomputable def clampKth (l : List ℝ) (m : ℤ) : ℝ := kth l (min (m - 1).toNat (l.length - 1))

theorem clampKth_mono (l : List ℝ) (hne : l ≠ []) : Monotone (clampKth l) := by
  intro a b hab
  have hpos : 0 < l.length := List.length_pos_of_ne_nil hne
  unfold clampKth
  apply kth_mono
  · have : (a - 1).toNat ≤ (b - 1).toNat := by omega
    omega
  · omega

theorem clampKth_ge_first (l : List ℝ) (hne : l ≠ []) (m : ℤ) : kth l 0 ≤ clampKth l m := by
  have hpos : 0 < l.length := List.length_pos_of_ne_nil hne
  exact kth_mono l 0 _ (Nat.zero_le _) (by omega)

theorem clampKth_le_last (l : List ℝ) (hne : l ≠ []) (m : ℤ) :
    clampKth l m ≤ kth l (l.length - 1) := by
  have hpos : 0 < l.length := List.length_pos_of_ne_nil hne
  exact kth_mono l _ _ (by omega) (by omega)

/-- the R-8 estimator is the interpolation of the clamped order statistics at `h` -/
theorem quantileR8_eq_interp (l : List ℝ) (hne : l ≠ []) (tau : ℝ) :
    quantileR8 l tau
      = clampKth l ⌊r8pos l tau⌋ + (r8pos l tau - ⌊r8pos l tau⌋)
          * (clampKth l (⌊r8pos l tau⌋ + 1) - clampKth l ⌊r8pos l tau⌋) := by
  have hpos : 0 < l.length := List.length_pos_of_ne_nil hne
  unfold quantileR8
  simp only []
  generalize r8pos l tau = h
  unfold clampKth
  split_ifs with h1 h2
  · have e1 : min (⌊h⌋ - 1).toNat (l.length - 1) = 0 := by omega
    have e2 : min (⌊h⌋ + 1 - 1).toNat (l.length - 1) = 0 := by omega
    rw [e1, e2]; ring
  · have e1 : min (⌊h⌋ - 1).toNat (l.length - 1) = l.length - 1 := by omega
    have e2 : min (⌊h⌋ + 1 - 1).toNat (l.length - 1) = l.length - 1 := by omega
    rw [e1, e2]; ring
  · have e1 : min (⌊h⌋ - 1).toNat (l.length - 1) = ⌊h⌋.toNat - 1 := by omega
    have e2 : min (⌊h⌋ + 1 - 1).toNat (l.length - 1) = ⌊h⌋.toNat := by omega
    rw [e1, e2]

theorem r8pos_mono (l : List ℝ) {s t : ℝ} (hst : s ≤ t) : r8pos l s ≤ r8pos l t := by
  unfold r8pos
  have : (0 : ℝ) ≤ (l.length : ℝ) + 1 / 3 := by positivity
  nlinarith

/-- the R-8 quantile never decreases in `τ` (on all of ℝ, in particular on `[0,1]`) -/
theorem quantileR8_mono (l : List ℝ) (hne : l ≠ []) {s t : ℝ} (hst : s ≤ t) :
    quantileR8 l s ≤ quantileR8 l t := by
  rw [quantileR8_eq_interp l hne, quantileR8_eq_interp l hne]
  exact interp_mono _ (clampKth_mono l hne) _ _ (r8pos_mono l hst)

/-- the R-8 quantile lies between the smallest and the largest entry -/
theorem quantileR8_bounds (l : List ℝ) (hne : l ≠ []) (tau : ℝ) :
    kth l 0 ≤ quantileR8 l tau ∧ quantileR8 l tau ≤ kth l (l.length - 1) := by
  rw [quantileR8_eq_interp l hne]
  obtain ⟨h1, h2⟩ := interp_between _ (clampKth_mono l hne) (r8pos l tau)
  exact ⟨le_trans (clampKth_ge_first l hne _) h1, le_trans h2 (clampKth_le_last l hne _)⟩

/-- at `τ = 0` the estimator is the minimum, at `τ = 1` the maximum -/
theorem quantileR8_zero (l : List ℝ) : quantileR8 l 0 = kth l 0 := by
  have : ⌊r8pos l 0⌋ = 0 := by
    unfold r8pos; rw [Int.floor_eq_iff]; constructor <;> norm_num
  unfold quantileR8; simp [this]

theorem quantileR8_one (l : List ℝ) (hne : l ≠ []) : quantileR8 l 1 = kth l (l.length - 1) := by
  have hpos : 0 < l.length := List.length_pos_of_ne_nil hne
  have : ⌊r8pos l 1⌋ = (l.length : ℤ) := by
    unfold r8pos; rw [Int.floor_eq_iff]; constructor <;> push_cast <;> linarith
  unfold quantileR8
  simp only [this]
  have h0 : ¬ ((l.length : ℤ) ≤ 0) := by omega
  rw [if_neg h0, if_pos (le_refl _)]

end Statrs.Lemmas.OrderStats
