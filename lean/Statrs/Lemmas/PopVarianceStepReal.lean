/-
  Statrs.Lemmas.PopVarianceStepReal — real-arithmetic error propagation through ONE update of
  `IterStatistics::population_variance` (`sum += x; diff = i·x − sum; variance += diff²/(i(i−1))`) under the standard
  model of rounding (`u = 2^-53`, `η = 2^-1075`; `X` bounds the data, `κ = k+1` is the new count):
    * `eta_le_of_X`  : `η ≤ u·X`, `η ≤ u·X²` for `X ≥ 2^-500` (absorbs the underflow terms);
    * `pv_sum_step`  : `|fl(ŝ + x) − (S + x)| ≤ (k+1)²·u·X` from `|ŝ − S| ≤ k²·u·X`;
    * `pv_diff_step` : `|fl(fl(κx) − ŝ') − (κx − S')| ≤ 4κ²·u·X`;
    * `pv_quot_step` : `|fl(fl(d̂²)/(κ(κ−1))) − D²/(κ(κ−1))| ≤ 93κ·u·X²`;
    * `pv_acc_step`  : the invariant `|v̂ − V| ≤ (1+u)^k·49·k(k+1)·u·X²` is preserved.
  These are the ingredients of an `O(n·u·X²)` bound for the population variance; the induction over the generated
  loop (carrier level) is NOT part of this file.
-/
import Statrs.Lemmas.FloatStdModelLemmas
namespace Statrs.Lemmas.PopVarianceStep
open Statrs Statrs.Spec Statrs.Spec.FloatStd

/-! ### real arithmetic of one update -/

/-- full(ℝ): `η ≤ u·X` and `η ≤ u·X²` for `X ≥ 2^-500` -/
theorem eta_le_of_X {X : ℝ} (hX : (2 : ℝ) ^ (-500 : ℤ) ≤ X) : η ≤ u * X ∧ η ≤ u * X ^ 2 := by
  have hp : (0 : ℝ) < (2 : ℝ) ^ (-500 : ℤ) := by positivity
  have hu := u_pos
  constructor
  · calc η = (2 : ℝ) ^ (-53 : ℤ) * (2 : ℝ) ^ (-1022 : ℤ) := by
          unfold η; rw [← zpow_add₀ (by norm_num : (2 : ℝ) ≠ 0)]; norm_num
      _ ≤ (2 : ℝ) ^ (-53 : ℤ) * (2 : ℝ) ^ (-500 : ℤ) :=
          mul_le_mul_of_nonneg_left (zpow_le_zpow_right₀ (by norm_num) (by norm_num)) (by positivity)
      _ ≤ u * X := by unfold u; exact mul_le_mul_of_nonneg_left hX (by positivity)
  · have h2 : (2 : ℝ) ^ (-500 : ℤ) * (2 : ℝ) ^ (-500 : ℤ) ≤ X ^ 2 := by
      rw [sq]; exact mul_le_mul hX hX hp.le (hp.le.trans hX)
    calc η = (2 : ℝ) ^ (-53 : ℤ) * (2 : ℝ) ^ (-1022 : ℤ) := by
          unfold η; rw [← zpow_add₀ (by norm_num : (2 : ℝ) ≠ 0)]; norm_num
      _ ≤ (2 : ℝ) ^ (-53 : ℤ) * ((2 : ℝ) ^ (-500 : ℤ) * (2 : ℝ) ^ (-500 : ℤ)) := by
          rw [← zpow_add₀ (by norm_num : (2 : ℝ) ≠ 0) (-500) (-500)]
          have : (2 : ℝ) ^ (-1022 : ℤ) ≤ (2 : ℝ) ^ ((-500 : ℤ) + (-500)) :=
            zpow_le_zpow_right₀ (by norm_num) (by norm_num)
          exact mul_le_mul_of_nonneg_left this (by positivity)
      _ ≤ u * X ^ 2 := by unfold u; exact mul_le_mul_of_nonneg_left h2 (by positivity)

/-- full(ℝ): the running sum: `|fl(ŝ + x) − (S + x)| ≤ (k+1)²·u·X` from `|ŝ − S| ≤ k²·u·X` -/
theorem pv_sum_step {k X S x rs δs : ℝ} (hk : 1 ≤ k) (hku : k * u ≤ 1) (hX : 0 ≤ X) (hS : |S| ≤ k * X)
    (hx : |x| ≤ X) (hes : |rs - S| ≤ k ^ 2 * u * X) (hδs : |δs| ≤ u) :
    |(rs + x) * (1 + δs) - (S + x)| ≤ (k + 1) ^ 2 * u * X := by
  have hu := u_pos
  have e : (rs + x) * (1 + δs) - (S + x) = (rs - S) * (1 + δs) + (S + x) * δs := by ring
  rw [e]
  have h1 : |(rs - S) * (1 + δs)| ≤ k ^ 2 * u * X * (1 + u) := abs_mul_le_mul hes (abs_one_add_le hδs)
  have hSx : |S + x| ≤ (k + 1) * X := by
    calc _ ≤ |S| + |x| := abs_add_le _ _
      _ ≤ _ := by linarith
  have h2 : |(S + x) * δs| ≤ (k + 1) * X * u := abs_mul_le_mul hSx hδs
  have h3 : k ^ 2 * u * X * u ≤ k * u * X := by
    have : k ^ 2 * u * X * u = (k * u) * (k * u * X) := by ring
    rw [this]
    have h4 : 0 ≤ k * u * X := by positivity
    nlinarith
  calc _ ≤ |(rs - S) * (1 + δs)| + |(S + x) * δs| := abs_add_le _ _
    _ ≤ k ^ 2 * u * X * (1 + u) + (k + 1) * X * u := add_le_add h1 h2
    _ ≤ (k + 1) ^ 2 * u * X := by nlinarith

/-- full(ℝ): the difference `diff = fl(fl(κ·x) − ŝ')` against `D = κ·x − S'`: `|diff − D| ≤ 4κ²·u·X` -/
theorem pv_diff_step {κ X S' x rs' δp εp δd : ℝ} (hκ : 2 ≤ κ) (hκu : κ ^ 2 * u ≤ 1 / 4) (hX : 0 ≤ X)
    (hη : η ≤ u * X) (hD : |κ * x - S'| ≤ 2 * κ * X) (hx : |x| ≤ X)
    (hes : |rs' - S'| ≤ κ ^ 2 * u * X) (hδp : |δp| ≤ u) (hεp : |εp| ≤ η) (hδd : |δd| ≤ u) :
    |((κ * x * (1 + δp) + εp) - rs') * (1 + δd) - (κ * x - S')| ≤ 4 * κ ^ 2 * u * X := by
  have hu := u_pos
  have hu1 := u_lt
  set g := κ * x * δp + εp - (rs' - S') with hg
  have e : ((κ * x * (1 + δp) + εp) - rs') * (1 + δd) - (κ * x - S')
      = g * (1 + δd) + (κ * x - S') * δd := by rw [hg]; ring
  rw [e]
  have hκx : |κ * x| ≤ κ * X := by
    rw [abs_mul, abs_of_nonneg (by linarith : 0 ≤ κ)]; exact mul_le_mul_of_nonneg_left hx (by linarith)
  have hgb : |g| ≤ (κ ^ 2 + κ + 1) * u * X := by
    rw [hg]
    have h1 : |κ * x * δp| ≤ κ * X * u := abs_mul_le_mul hκx hδp
    calc _ ≤ |κ * x * δp + εp| + |rs' - S'| := abs_sub _ _
      _ ≤ |κ * x * δp| + |εp| + |rs' - S'| := by linarith [abs_add_le (κ * x * δp) εp]
      _ ≤ _ := by nlinarith
  have h1 : |g * (1 + δd)| ≤ (κ ^ 2 + κ + 1) * u * X * (1 + u) := abs_mul_le_mul hgb (abs_one_add_le hδd)
  have h2 : |(κ * x - S') * δd| ≤ 2 * κ * X * u := abs_mul_le_mul hD hδd
  have hUX : 0 ≤ u * X := by positivity
  -- (κ²+κ+1)(1+u) + 2κ ≤ 4κ²
  have hc : (κ ^ 2 + κ + 1) * (1 + u) + 2 * κ ≤ 4 * κ ^ 2 := by
    have : (κ ^ 2 + κ + 1) * u ≤ 1 := by nlinarith
    nlinarith
  calc _ ≤ |g * (1 + δd)| + |(κ * x - S') * δd| := abs_add_le _ _
    _ ≤ (κ ^ 2 + κ + 1) * u * X * (1 + u) + 2 * κ * X * u := add_le_add h1 h2
    _ = ((κ ^ 2 + κ + 1) * (1 + u) + 2 * κ) * (u * X) := by ring
    _ ≤ 4 * κ ^ 2 * (u * X) := mul_le_mul_of_nonneg_right hc hUX
    _ = _ := by ring

/-- full(ℝ): the increment `fl(fl(diff²)/(κ(κ−1)))` against `D²/(κ(κ−1))`: error at most `93κ·u·X²` -/
theorem pv_quot_step {κ X D d δq εq δr εr : ℝ} (hκ : 2 ≤ κ) (hκu : κ ^ 2 * u ≤ 1 / 4) (hX : 0 ≤ X)
    (hη2 : η ≤ u * X ^ 2) (hD : |D| ≤ 2 * κ * X) (hd : |d - D| ≤ 4 * κ ^ 2 * u * X)
    (hδq : |δq| ≤ u) (hεq : |εq| ≤ η) (hδr : |δr| ≤ u) (hεr : |εr| ≤ η) :
    |((d * d * (1 + δq) + εq) / (κ * (κ - 1)) * (1 + δr) + εr) - D * D / (κ * (κ - 1))|
      ≤ 93 * κ * u * X ^ 2 := by
  have hu := u_pos
  have hu1 := u_lt
  have hη := η_pos
  have hκ0 : 0 < κ := by linarith
  have hkk : κ ^ 2 / 2 ≤ κ * (κ - 1) := by nlinarith
  have hkkpos : 0 < κ * (κ - 1) := by nlinarith
  have hkk2 : 2 ≤ κ * (κ - 1) := by nlinarith
  -- Ed ≤ X
  have hEd : 4 * κ ^ 2 * u * X ≤ X := by
    have : 4 * κ ^ 2 * u * X = (4 * (κ ^ 2 * u)) * X := by ring
    rw [this]; nlinarith
  have hdD : |d + D| ≤ 5 * κ * X := by
    have : d + D = (d - D) + 2 * D := by ring
    rw [this]
    calc _ ≤ |d - D| + |2 * D| := abs_add_le _ _
      _ ≤ 4 * κ ^ 2 * u * X + 2 * (2 * κ * X) := by
          rw [abs_mul, abs_of_pos (by norm_num : (0 : ℝ) < 2)]; linarith
      _ ≤ 5 * κ * X := by nlinarith
  have hsq : |d * d - D * D| ≤ 20 * κ ^ 3 * u * X ^ 2 := by
    have : d * d - D * D = (d - D) * (d + D) := by ring
    rw [this]
    have := abs_mul_le_mul hd hdD
    calc _ ≤ 4 * κ ^ 2 * u * X * (5 * κ * X) := this
      _ = _ := by ring
  have hF : |(1 + δq) * (1 + δr) - 1| ≤ 3 * u := by
    have e : (1 + δq) * (1 + δr) - 1 = δq + δr + δq * δr := by ring
    rw [e]
    have h1 : |δq * δr| ≤ u * u := abs_mul_le_mul hδq hδr
    calc _ ≤ |δq + δr| + |δq * δr| := abs_add_le _ _
      _ ≤ |δq| + |δr| + |δq * δr| := by linarith [abs_add_le δq δr]
      _ ≤ 3 * u := by nlinarith
  have hF2 : |(1 + δq) * (1 + δr)| ≤ 2 := by
    have := abs_mul_le_mul (abs_one_add_le hδq) (abs_one_add_le hδr)
    nlinarith
  have hDD : |D * D| ≤ 4 * κ ^ 2 * X ^ 2 := by
    have := abs_mul_le_mul hD hD
    calc _ ≤ 2 * κ * X * (2 * κ * X) := this
      _ = _ := by ring
  have hN : |d * d * ((1 + δq) * (1 + δr)) - D * D| ≤ (40 * κ ^ 3 + 12 * κ ^ 2) * u * X ^ 2 := by
    have e : d * d * ((1 + δq) * (1 + δr)) - D * D
        = (d * d - D * D) * ((1 + δq) * (1 + δr)) + D * D * ((1 + δq) * (1 + δr) - 1) := by ring
    rw [e]
    have h1 := abs_mul_le_mul hsq hF2
    have h2 := abs_mul_le_mul hDD hF
    calc _ ≤ |(d * d - D * D) * ((1 + δq) * (1 + δr))| + |D * D * ((1 + δq) * (1 + δr) - 1)| := abs_add_le _ _
      _ ≤ 20 * κ ^ 3 * u * X ^ 2 * 2 + 4 * κ ^ 2 * X ^ 2 * (3 * u) := add_le_add h1 h2
      _ = _ := by ring
  have hUX : 0 ≤ u * X ^ 2 := by positivity
  have hT1 : |(d * d * ((1 + δq) * (1 + δr)) - D * D) / (κ * (κ - 1))| ≤ (80 * κ + 24) * u * X ^ 2 := by
    rw [abs_div, abs_of_pos hkkpos, div_le_iff₀ hkkpos]
    refine hN.trans ?_
    have : (80 * κ + 24) * u * X ^ 2 * (κ ^ 2 / 2) ≤ (80 * κ + 24) * u * X ^ 2 * (κ * (κ - 1)) :=
      mul_le_mul_of_nonneg_left hkk (by positivity)
    calc (40 * κ ^ 3 + 12 * κ ^ 2) * u * X ^ 2 = (80 * κ + 24) * u * X ^ 2 * (κ ^ 2 / 2) := by ring
      _ ≤ _ := this
  have hT2 : |εq * (1 + δr) / (κ * (κ - 1))| ≤ η := by
    rw [abs_div, abs_of_pos hkkpos, div_le_iff₀ hkkpos]
    have := abs_mul_le_mul hεq (abs_one_add_le hδr)
    nlinarith
  have e : ((d * d * (1 + δq) + εq) / (κ * (κ - 1)) * (1 + δr) + εr) - D * D / (κ * (κ - 1))
      = (d * d * ((1 + δq) * (1 + δr)) - D * D) / (κ * (κ - 1)) + εq * (1 + δr) / (κ * (κ - 1)) + εr := by
    field_simp; ring
  rw [e]
  calc _ ≤ |(d * d * ((1 + δq) * (1 + δr)) - D * D) / (κ * (κ - 1)) + εq * (1 + δr) / (κ * (κ - 1))| + |εr| :=
        abs_add_le _ _
    _ ≤ |(d * d * ((1 + δq) * (1 + δr)) - D * D) / (κ * (κ - 1))| + |εq * (1 + δr) / (κ * (κ - 1))| + |εr| := by
        linarith [abs_add_le ((d * d * ((1 + δq) * (1 + δr)) - D * D) / (κ * (κ - 1)))
          (εq * (1 + δr) / (κ * (κ - 1)))]
    _ ≤ (80 * κ + 24) * u * X ^ 2 + 2 * (u * X ^ 2) := by linarith
    _ ≤ 93 * κ * u * X ^ 2 := by nlinarith

/-- full(ℝ): the accumulation `fl(v̂ + q̂)` against `V + Q` and the invariant `49·k(k+1)·(1+u)^k·u·X²` -/
theorem pv_acc_step {κ X V Q rv q2 β δv : ℝ} (hκ : 2 ≤ κ) (hX : 0 ≤ X) (hβ : 1 ≤ β)
    (hev : |rv - V| ≤ β * (49 * (κ - 1) * κ * (u * X ^ 2))) (hq : |q2 - Q| ≤ 93 * κ * u * X ^ 2)
    (hVQ : |V + Q| ≤ 4 * κ * X ^ 2) (hδv : |δv| ≤ u) :
    |(rv + q2) * (1 + δv) - (V + Q)| ≤ β * (1 + u) * (49 * κ * (κ + 1) * (u * X ^ 2)) := by
  have hu := u_pos
  have hu1 := u_lt
  have hUX : 0 ≤ u * X ^ 2 := mul_nonneg hu.le (pow_nonneg hX 2)
  have e : (rv + q2) * (1 + δv) - (V + Q) = ((rv - V) + (q2 - Q)) * (1 + δv) + (V + Q) * δv := by ring
  rw [e]
  have h1 : |((rv - V) + (q2 - Q)) * (1 + δv)|
      ≤ (β * (49 * (κ - 1) * κ * (u * X ^ 2)) + 93 * κ * u * X ^ 2) * (1 + u) :=
    abs_mul_le_mul ((abs_add_le _ _).trans (add_le_add hev hq)) (abs_one_add_le hδv)
  have h2 : |(V + Q) * δv| ≤ 4 * κ * X ^ 2 * u := abs_mul_le_mul hVQ hδv
  have hb : 1 ≤ β * (1 + u) := by nlinarith
  have hrest : 93 * κ * u * X ^ 2 * (1 + u) + 4 * κ * X ^ 2 * u ≤ β * (1 + u) * (98 * κ * (u * X ^ 2)) := by
    have h3 : 93 * κ * u * X ^ 2 * (1 + u) + 4 * κ * X ^ 2 * u ≤ 98 * κ * (u * X ^ 2) := by
      have : 0 ≤ κ * (u * X ^ 2) := by positivity
      nlinarith
    have h4 : 0 ≤ 98 * κ * (u * X ^ 2) := by positivity
    nlinarith
  calc _ ≤ |((rv - V) + (q2 - Q)) * (1 + δv)| + |(V + Q) * δv| := abs_add_le _ _
    _ ≤ (β * (49 * (κ - 1) * κ * (u * X ^ 2)) + 93 * κ * u * X ^ 2) * (1 + u) + 4 * κ * X ^ 2 * u :=
        add_le_add h1 h2
    _ = β * (1 + u) * (49 * (κ - 1) * κ * (u * X ^ 2)) + (93 * κ * u * X ^ 2 * (1 + u) + 4 * κ * X ^ 2 * u) := by
        ring
    _ ≤ β * (1 + u) * (49 * (κ - 1) * κ * (u * X ^ 2)) + β * (1 + u) * (98 * κ * (u * X ^ 2)) := by linarith
    _ = _ := by ring

end Statrs.Lemmas.PopVarianceStep
