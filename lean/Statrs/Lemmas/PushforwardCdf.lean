/-
  Statrs.Lemmas.PushforwardCdf — the inverse-transform principle as a Mathlib statement.

  `U = volume.restrict (Ioo a b)` with `b − a = 1` is the uniform probability law on a unit interval
  (`unif01 = volume.restrict (Ioo 0 1)`; the end points do not matter: `unif01_eq_Ico/Ioc/Icc`, so
  the half-open ranges `[0,1)` of `gen::<f64>()` and `(0,1]` of `OpenClosed01` are the same law).

  If `F` is monotone with values in `[0,1]` and `F (T u) = u − a` for every `u ∈ (a,b)`
  (resp. `F (T u) = b − u`), then the push-forward `Measure.map T U` is a probability measure whose
  distribution function `ProbabilityTheory.cdf` is `F` at EVERY real `x`
  (`cdf_map_eq_of_comp_eq` / `cdf_map_eq_of_comp_eq_compl`), hence it is THE probability measure
  with distribution function `F` (`map_eq_of_cdf_eq…`, by `Measure.eq_of_cdf`).
  No continuity of `F` is needed (right-continuity comes out of the squeeze
  `{u < F x} ⊆ {T u ≤ x} ⊆ {u ≤ F x}`), and of `T` only a.e.-measurability, which a function
  monotone or antitone on the interval has (`…_of_monotoneOn`, `…_of_antitoneOn`).

  Discrete samplers: Lebesgue measure of the pre-image interval (`unif01_Ioc`, `unif01_Ico`, …).
-/
import Mathlib.Probability.CDF
import Mathlib.MeasureTheory.Constructions.BorelSpace.Order
import Mathlib.MeasureTheory.Measure.Lebesgue.Basic
import Mathlib.Tactic
namespace Statrs.Lemmas.PushforwardCdf
open MeasureTheory ProbabilityTheory Set

/-- the uniform law on the open unit interval -/
noncomputable def unif01 : Measure ℝ := volume.restrict (Ioo 0 1)

theorem isProbabilityMeasure_restrict_Ioo {a b : ℝ} (hab : b - a = 1) :
    IsProbabilityMeasure (volume.restrict (Ioo a b)) :=
  ⟨by rw [Measure.restrict_apply MeasurableSet.univ, univ_inter, Real.volume_Ioo, hab,
        ENNReal.ofReal_one]⟩

instance : IsProbabilityMeasure unif01 := isProbabilityMeasure_restrict_Ioo (by norm_num)

/-- the end points carry no mass: uniform on `[0,1)` (the range of `gen::<f64>()`) -/
theorem unif01_eq_Ico : unif01 = volume.restrict (Ico 0 1) :=
  Measure.restrict_congr_set Ioo_ae_eq_Ico
/-- uniform on `(0,1]` (the range of `OpenClosed01`) -/
theorem unif01_eq_Ioc : unif01 = volume.restrict (Ioc 0 1) :=
  Measure.restrict_congr_set Ioo_ae_eq_Ioc
theorem unif01_eq_Icc : unif01 = volume.restrict (Icc 0 1) :=
  Measure.restrict_congr_set Ioo_ae_eq_Icc

theorem unif01_apply (S : Set ℝ) : unif01 S = volume (S ∩ Ioo 0 1) :=
  Measure.restrict_apply' measurableSet_Ioo

/-! ### squeeze -/

/-- a set squeezed between `(a,b) ∩ (−∞, a+c)` and `(a,b) ∩ (−∞, a+c]` has Lebesgue measure `c` -/
theorem volume_of_squeeze_left {a b : ℝ} (hab : b - a = 1) {S : Set ℝ} {c : ℝ}
    (hc1 : c ≤ 1)
    (h1 : ∀ u ∈ Ioo a b, u < a + c → u ∈ S) (h2 : ∀ u ∈ Ioo a b, u ∈ S → u ≤ a + c) :
    volume (S ∩ Ioo a b) = ENNReal.ofReal c := by
  apply le_antisymm
  · calc volume (S ∩ Ioo a b) ≤ volume (Ioc a (a + c)) :=
          measure_mono (fun u hu => ⟨hu.2.1, h2 u hu.2 hu.1⟩)
      _ = ENNReal.ofReal c := by rw [Real.volume_Ioc, add_sub_cancel_left]
  · calc ENNReal.ofReal c = volume (Ioo a (a + c)) := by rw [Real.volume_Ioo, add_sub_cancel_left]
      _ ≤ volume (S ∩ Ioo a b) :=
          measure_mono (fun u hu => ⟨h1 u ⟨hu.1, by linarith [hu.2]⟩ hu.2,
            ⟨hu.1, by linarith [hu.2]⟩⟩)

/-- a set squeezed between `(a,b) ∩ (b−c, ∞)` and `(a,b) ∩ [b−c, ∞)` has Lebesgue measure `c` -/
theorem volume_of_squeeze_right {a b : ℝ} (hab : b - a = 1) {S : Set ℝ} {c : ℝ}
    (hc1 : c ≤ 1)
    (h1 : ∀ u ∈ Ioo a b, b - c < u → u ∈ S) (h2 : ∀ u ∈ Ioo a b, u ∈ S → b - c ≤ u) :
    volume (S ∩ Ioo a b) = ENNReal.ofReal c := by
  apply le_antisymm
  · calc volume (S ∩ Ioo a b) ≤ volume (Ico (b - c) b) :=
          measure_mono (fun u hu => ⟨h2 u hu.2 hu.1, hu.2.2⟩)
      _ = ENNReal.ofReal c := by rw [Real.volume_Ico, sub_sub_cancel]
  · calc ENNReal.ofReal c = volume (Ioo (b - c) b) := by rw [Real.volume_Ioo, sub_sub_cancel]
      _ ≤ volume (S ∩ Ioo a b) :=
          measure_mono (fun u hu => ⟨h1 u ⟨by linarith [hu.1], hu.2⟩ hu.1,
            ⟨by linarith [hu.1], hu.2⟩⟩)

/-! ### the inverse-transform principle -/

section principle
variable {a b : ℝ} {T F : ℝ → ℝ}

/-- **Inverse transform, increasing form.**  `F` monotone with values in `[0,1]`, `F (T u) = u − a`
    on `(a,b)`, `b − a = 1`: the law of `T` under the uniform law on `(a,b)` has distribution
    function `F`. -/
theorem cdf_map_eq_of_comp_eq (hab : b - a = 1)
    (hT : AEMeasurable T (volume.restrict (Ioo a b)))
    (hF : Monotone F) (h0 : ∀ x, 0 ≤ F x) (h1 : ∀ x, F x ≤ 1)
    (hFT : ∀ u ∈ Ioo a b, F (T u) = u - a) (x : ℝ) :
    cdf (Measure.map T (volume.restrict (Ioo a b))) x = F x := by
  have := isProbabilityMeasure_restrict_Ioo hab
  have := Measure.isProbabilityMeasure_map hT
  rw [cdf_eq_real, Measure.real, Measure.map_apply_of_aemeasurable hT measurableSet_Iic,
    Measure.restrict_apply' measurableSet_Ioo,
    volume_of_squeeze_left hab (h1 x) ?_ ?_, ENNReal.toReal_ofReal (h0 x)]
  · intro u hu hlt
    show T u ≤ x
    by_contra hcon
    have := hF (not_le.mp hcon).le
    rw [hFT u hu] at this
    linarith
  · intro u hu hmem
    have := hF (show T u ≤ x from hmem)
    rw [hFT u hu] at this
    linarith

/-- **Inverse transform, decreasing form.**  `F (T u) = b − u` (for `(a,b) = (0,1)`: `1 − u`). -/
theorem cdf_map_eq_of_comp_eq_compl (hab : b - a = 1)
    (hT : AEMeasurable T (volume.restrict (Ioo a b)))
    (hF : Monotone F) (h0 : ∀ x, 0 ≤ F x) (h1 : ∀ x, F x ≤ 1)
    (hFT : ∀ u ∈ Ioo a b, F (T u) = b - u) (x : ℝ) :
    cdf (Measure.map T (volume.restrict (Ioo a b))) x = F x := by
  have := isProbabilityMeasure_restrict_Ioo hab
  have := Measure.isProbabilityMeasure_map hT
  rw [cdf_eq_real, Measure.real, Measure.map_apply_of_aemeasurable hT measurableSet_Iic,
    Measure.restrict_apply' measurableSet_Ioo,
    volume_of_squeeze_right hab (h1 x) ?_ ?_, ENNReal.toReal_ofReal (h0 x)]
  · intro u hu hlt
    show T u ≤ x
    by_contra hcon
    have := hF (not_le.mp hcon).le
    rw [hFT u hu] at this
    linarith
  · intro u hu hmem
    have := hF (show T u ≤ x from hmem)
    rw [hFT u hu] at this
    linarith

/-- increasing form, measurability from monotonicity of the transform on the interval -/
theorem cdf_map_eq_of_monotoneOn (hab : b - a = 1) (hT : MonotoneOn T (Ioo a b))
    (hF : Monotone F) (h0 : ∀ x, 0 ≤ F x) (h1 : ∀ x, F x ≤ 1)
    (hFT : ∀ u ∈ Ioo a b, F (T u) = u - a) (x : ℝ) :
    cdf (Measure.map T (volume.restrict (Ioo a b))) x = F x :=
  cdf_map_eq_of_comp_eq hab (aemeasurable_restrict_of_monotoneOn measurableSet_Ioo hT) hF h0 h1 hFT x

/-- decreasing form, measurability from antitonicity of the transform on the interval -/
theorem cdf_map_eq_of_antitoneOn (hab : b - a = 1) (hT : AntitoneOn T (Ioo a b))
    (hF : Monotone F) (h0 : ∀ x, 0 ≤ F x) (h1 : ∀ x, F x ≤ 1)
    (hFT : ∀ u ∈ Ioo a b, F (T u) = b - u) (x : ℝ) :
    cdf (Measure.map T (volume.restrict (Ioo a b))) x = F x :=
  cdf_map_eq_of_comp_eq_compl hab (aemeasurable_restrict_of_antitoneOn measurableSet_Ioo hT)
    hF h0 h1 hFT x

/-- the push-forward is a probability measure -/
theorem isProbabilityMeasure_map_of_monotoneOn (hab : b - a = 1) (hT : MonotoneOn T (Ioo a b)) :
    IsProbabilityMeasure (Measure.map T (volume.restrict (Ioo a b))) :=
  have := isProbabilityMeasure_restrict_Ioo hab
  Measure.isProbabilityMeasure_map (aemeasurable_restrict_of_monotoneOn measurableSet_Ioo hT)

theorem isProbabilityMeasure_map_of_antitoneOn (hab : b - a = 1) (hT : AntitoneOn T (Ioo a b)) :
    IsProbabilityMeasure (Measure.map T (volume.restrict (Ioo a b))) :=
  have := isProbabilityMeasure_restrict_Ioo hab
  Measure.isProbabilityMeasure_map (aemeasurable_restrict_of_antitoneOn measurableSet_Ioo hT)

/-- **uniqueness**: a probability measure on ℝ is determined by its distribution function, so the
    law of the transform IS any probability measure `ν` whose cdf agrees with the computed one -/
theorem map_eq_of_cdf_eq (μ ν : Measure ℝ) [IsProbabilityMeasure μ] [IsProbabilityMeasure ν]
    (G : ℝ → ℝ) (hμ : ∀ x, cdf μ x = G x) (hν : ∀ x, cdf ν x = G x) : μ = ν :=
  Measure.eq_of_cdf μ ν (StieltjesFunction.ext fun x => by rw [hμ x, hν x])

end principle

/-! ### `unif01` forms (`a = 0`, `b = 1`) -/

section unit
variable {T F : ℝ → ℝ}

theorem cdf_map_unif01_of_monotoneOn (hT : MonotoneOn T (Ioo 0 1))
    (hF : Monotone F) (h0 : ∀ x, 0 ≤ F x) (h1 : ∀ x, F x ≤ 1)
    (hFT : ∀ u, 0 < u → u < 1 → F (T u) = u) (x : ℝ) :
    cdf (Measure.map T unif01) x = F x :=
  cdf_map_eq_of_monotoneOn (a := 0) (b := 1) (by norm_num) hT hF h0 h1
    (fun u hu => by rw [hFT u hu.1 hu.2, sub_zero]) x

theorem cdf_map_unif01_of_antitoneOn (hT : AntitoneOn T (Ioo 0 1))
    (hF : Monotone F) (h0 : ∀ x, 0 ≤ F x) (h1 : ∀ x, F x ≤ 1)
    (hFT : ∀ u, 0 < u → u < 1 → F (T u) = 1 - u) (x : ℝ) :
    cdf (Measure.map T unif01) x = F x :=
  cdf_map_eq_of_antitoneOn (a := 0) (b := 1) (by norm_num) hT hF h0 h1
    (fun u hu => hFT u hu.1 hu.2) x

theorem isProb_map_unif01_of_monotoneOn (hT : MonotoneOn T (Ioo 0 1)) :
    IsProbabilityMeasure (Measure.map T unif01) :=
  isProbabilityMeasure_map_of_monotoneOn (a := 0) (b := 1) (by norm_num) hT

theorem isProb_map_unif01_of_antitoneOn (hT : AntitoneOn T (Ioo 0 1)) :
    IsProbabilityMeasure (Measure.map T unif01) :=
  isProbabilityMeasure_map_of_antitoneOn (a := 0) (b := 1) (by norm_num) hT

end unit

/-! ### masses of sub-intervals of the unit interval (discrete samplers) -/

theorem unif01_of_squeeze {S : Set ℝ} {l r : ℝ} (h0 : 0 ≤ l) (h1 : r ≤ 1)
    (hin : ∀ u, 0 < u → u < 1 → l < u → u < r → u ∈ S)
    (hout : ∀ u, 0 < u → u < 1 → u ∈ S → l ≤ u ∧ u ≤ r) :
    unif01 S = ENNReal.ofReal (r - l) := by
  rw [unif01_apply]
  apply le_antisymm
  · calc volume (S ∩ Ioo 0 1) ≤ volume (Icc l r) :=
          measure_mono (fun u hu => hout u hu.2.1 hu.2.2 hu.1)
      _ = ENNReal.ofReal (r - l) := Real.volume_Icc
  · calc ENNReal.ofReal (r - l) = volume (Ioo l r) := Real.volume_Ioo.symm
      _ ≤ volume (S ∩ Ioo 0 1) :=
          measure_mono (fun u hu => ⟨hin u (by linarith [hu.1]) (by linarith [hu.2]) hu.1 hu.2,
            by linarith [hu.1], by linarith [hu.2]⟩)

end Statrs.Lemmas.PushforwardCdf
