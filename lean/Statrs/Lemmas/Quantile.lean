/-
  Statrs.Lemmas.Quantile — real-analysis helper lemmas for the quantile / median / mode
  properties (C05, C08).  Nothing here mentions the generated model.
-/
import Mathlib.Analysis.SpecialFunctions.Pow.Real
import Mathlib.Analysis.SpecialFunctions.Log.Basic
import Mathlib.Analysis.SpecialFunctions.Sqrt
import Mathlib.Tactic
namespace Statrs.Lemmas.Quantile
open Real

/-- Triangular, lower branch: for `0 < p < (c-a)/(b-a)` the offset `√((c-a)(b-a)p)` lies in `(0, c-a)`. -/
theorem tri_lower (a b c p : ℝ) (hab : a < b) (hp0 : 0 < p) (h : p < (c - a) / (b - a)) :
    a < c ∧ 0 < Real.sqrt ((c - a) * (b - a) * p) ∧ Real.sqrt ((c - a) * (b - a) * p) < c - a := by
  have hba : 0 < b - a := by linarith
  have hca : 0 < c - a := by
    by_contra hh
    have : (c - a) / (b - a) ≤ 0 := div_nonpos_of_nonpos_of_nonneg (by linarith) hba.le
    linarith
  rw [lt_div_iff₀ hba] at h
  refine ⟨by linarith, Real.sqrt_pos.mpr (by positivity), ?_⟩
  rw [Real.sqrt_lt' hca]
  nlinarith

/-- Triangular, upper branch: for `(c-a)/(b-a) ≤ p < 1` the offset `√((b-a)(b-c)(1-p))` lies in `(0, b-c]`. -/
theorem tri_upper (a b c p : ℝ) (hab : a < b) (hcb : c ≤ b) (hp1 : p < 1) (h : ¬ p < (c - a) / (b - a)) :
    c < b ∧ 0 < Real.sqrt ((b - a) * (b - c) * (1 - p)) ∧ Real.sqrt ((b - a) * (b - c) * (1 - p)) ≤ b - c := by
  have hba : 0 < b - a := by linarith
  rw [not_lt, div_le_iff₀ hba] at h
  have hbc : 0 < b - c := by nlinarith
  refine ⟨by linarith, Real.sqrt_pos.mpr (by have : 0 < 1 - p := by linarith
                                             positivity), ?_⟩
  rw [Real.sqrt_le_left hbc.le]
  nlinarith

/-- `t·e^{-t} ≤ e^{-1}` (used for the Gumbel mode). -/
theorem mul_exp_neg_le (t : ℝ) : t * Real.exp (-t) ≤ Real.exp (-1) := by
  have h := Real.add_one_le_exp (t - 1)
  have e : Real.exp (-1) = Real.exp (t - 1) * Real.exp (-t) := by
    rw [← Real.exp_add]; ring_nf
  rw [e]
  have := Real.exp_pos (-t)
  nlinarith

/-- `u^a·e^{-u} ≤ a^a·e^{-a}` for `a, u > 0` (used for the Weibull mode). -/
theorem rpow_mul_exp_neg_le (a u : ℝ) (ha : 0 < a) (hu : 0 < u) :
    u ^ a * Real.exp (-u) ≤ a ^ a * Real.exp (-a) := by
  rw [Real.rpow_def_of_pos hu, Real.rpow_def_of_pos ha, ← Real.exp_add, ← Real.exp_add]
  apply Real.exp_le_exp.mpr
  have h := Real.log_le_sub_one_of_pos (div_pos hu ha)
  rw [Real.log_div hu.ne' ha.ne'] at h
  have : a * (u / a) = u := by field_simp
  nlinarith

end Statrs.Lemmas.Quantile
