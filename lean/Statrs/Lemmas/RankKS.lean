/-
  Lemmas about the hand model of the Kolmogorov–Smirnov statistics over ℝ
  (`Statrs.Model.RankTests`: `dedup`, `ks_twosample.advance/step/stats`, `ks_onesample.stats`):
  the loop invariant of the two-sample merge loop and the resulting closed form in terms of the
  empirical distribution functions.
-/
import Mathlib.Data.List.Sort
import Mathlib.Tactic
import Statrs.Model.RankTests
import Statrs.Lemmas.RankSort
import Statrs.Real.Simp
namespace Statrs.Lemmas.RankKS
open Statrs Statrs.Model Statrs.Lemmas.RankSort

/-! ## the order the KS code sorts with -/

/-- `|a, b| a.partial_cmp(b)` as the model passes it to `sortBy` -/
noncomputable abbrev leR : ℝ → ℝ → Bool := fun a b => decide (a ≤ b)

theorem leR_tot (a b : ℝ) : leR a b = true ∨ leR b a = true := by
  simp only [leR, decide_eq_true_eq]; exact le_total a b

theorem leR_tr (a b c : ℝ) : leR a b = true → leR b c = true → leR a c = true := by
  simp only [leR, decide_eq_true_eq]; exact le_trans

theorem leR_anti (a b : ℝ) : leR a b = true → leR b a = true → a = b := by
  simp only [leR, decide_eq_true_eq]; exact le_antisymm

theorem sortR_eq_of_perm {l₁ l₂ : List ℝ} (h : l₁.Perm l₂) : sortBy leR l₁ = sortBy leR l₂ :=
  sortBy_eq_of_perm leR leR_tot leR_tr leR_anti h

theorem sortR_sorted (l : List ℝ) : (sortBy leR l).Pairwise (· ≤ ·) :=
  (sortBy_pairwise leR leR_tot leR_tr l).imp (by intro a b h; simpa [leR] using h)

/-! ## `Vec::dedup` over ℝ -/

theorem dedupAux_subset (l : List ℝ) : ∀ (last x : ℝ), x ∈ dedupAux last l → x ∈ l := by
  induction l with
  | nil => intro last x h; simp [dedupAux] at h
  | cons b t ih =>
    intro last x h
    unfold dedupAux at h
    split_ifs at h with hb
    · exact List.mem_cons_of_mem _ (ih last x h)
    · rcases List.mem_cons.1 h with rfl | h
      · exact List.mem_cons_self
      · exact List.mem_cons_of_mem _ (ih b x h)

theorem mem_dedupAux_of_mem (l : List ℝ) : ∀ (last x : ℝ), x ∈ l → x = last ∨ x ∈ dedupAux last l := by
  induction l with
  | nil => intro last x h; simp at h
  | cons b t ih =>
    intro last x h
    unfold dedupAux
    split_ifs with hb
    · have hb' : b = last := by simpa using hb
      rcases List.mem_cons.1 h with rfl | h
      · exact Or.inl hb'
      · exact ih last x h
    · rcases List.mem_cons.1 h with rfl | h
      · exact Or.inr List.mem_cons_self
      · rcases ih b x h with rfl | h'
        · exact Or.inr List.mem_cons_self
        · exact Or.inr (List.mem_cons_of_mem _ h')

theorem mem_dedup (l : List ℝ) (x : ℝ) : x ∈ dedup l ↔ x ∈ l := by
  cases l with
  | nil => simp [dedup]
  | cons a t =>
    unfold dedup
    constructor
    · intro h
      rcases List.mem_cons.1 h with rfl | h
      · exact List.mem_cons_self
      · exact List.mem_cons_of_mem _ (dedupAux_subset t a x h)
    · intro h
      rcases List.mem_cons.1 h with rfl | h
      · exact List.mem_cons_self
      · rcases mem_dedupAux_of_mem t a x h with rfl | h'
        · exact List.mem_cons_self
        · exact List.mem_cons_of_mem _ h'

theorem dedupAux_sorted (l : List ℝ) (hl : l.Pairwise (· ≤ ·)) :
    ∀ last : ℝ, (∀ a ∈ l, last ≤ a) →
      (dedupAux last l).Pairwise (· < ·) ∧ ∀ a ∈ dedupAux last l, last < a := by
  induction l with
  | nil => intro last _; simp [dedupAux]
  | cons b t ih =>
    intro last hlast
    rw [List.pairwise_cons] at hl
    unfold dedupAux
    split_ifs with hb
    · exact ih hl.2 last (fun a ha => hlast a (List.mem_cons_of_mem _ ha))
    · have hb' : b ≠ last := by simpa using hb
      have hlb : last < b := lt_of_le_of_ne (hlast b List.mem_cons_self) (Ne.symm hb')
      obtain ⟨h1, h2⟩ := ih hl.2 b hl.1
      refine ⟨List.pairwise_cons.2 ⟨h2, h1⟩, ?_⟩
      intro a ha
      rcases List.mem_cons.1 ha with rfl | ha
      · exact hlb
      · exact lt_trans hlb (h2 a ha)

/-- deduplicating a sorted list gives a strictly increasing list -/
theorem dedup_sorted (l : List ℝ) (hl : l.Pairwise (· ≤ ·)) : (dedup l).Pairwise (· < ·) := by
  cases l with
  | nil => simp [dedup]
  | cons a t =>
    rw [List.pairwise_cons] at hl
    unfold dedup
    obtain ⟨h1, h2⟩ := dedupAux_sorted t hl.2 a hl.1
    exact List.pairwise_cons.2 ⟨h2, h1⟩

/-- a strictly increasing list is left alone by `dedup` -/
theorem dedupAux_of_strict (l : List ℝ) (hl : l.Pairwise (· < ·)) :
    ∀ last : ℝ, (∀ a ∈ l, last < a) → dedupAux last l = l := by
  induction l with
  | nil => intro _ _; rfl
  | cons b t ih =>
    intro last hlast
    rw [List.pairwise_cons] at hl
    unfold dedupAux
    have hb : ¬ ((b == last) = true) := by
      simpa using (ne_of_gt (hlast b List.mem_cons_self))
    rw [if_neg hb, ih hl.2 b hl.1]

theorem dedup_of_strict (l : List ℝ) (hl : l.Pairwise (· < ·)) : dedup l = l := by
  cases l with
  | nil => rfl
  | cons a t =>
    rw [List.pairwise_cons] at hl
    show a :: dedupAux a t = a :: t
    rw [dedupAux_of_strict t hl.2 a hl.1]

theorem dedupAux_length_le (l : List ℝ) : ∀ last : ℝ, (dedupAux last l).length ≤ l.length := by
  induction l with
  | nil => intro _; simp [dedupAux]
  | cons b t ih =>
    intro last
    unfold dedupAux
    split_ifs
    · exact le_trans (ih last) (Nat.le_succ _)
    · simpa using ih b

/-! ## running maxima -/

theorem foldl_max_spec (g : ℝ → ℝ) (l : List ℝ) :
    ∀ d : ℝ, d ≤ l.foldl (fun acc x => max acc (g x)) d ∧
      (∀ x ∈ l, g x ≤ l.foldl (fun acc x => max acc (g x)) d) ∧
      (l.foldl (fun acc x => max acc (g x)) d = d ∨
        ∃ x ∈ l, l.foldl (fun acc x => max acc (g x)) d = g x) := by
  induction l with
  | nil => intro d; simp
  | cons a t ih =>
    intro d
    obtain ⟨h1, h2, h3⟩ := ih (max d (g a))
    simp only [List.foldl_cons]
    refine ⟨le_trans (le_max_left _ _) h1, ?_, ?_⟩
    · intro x hx
      rcases List.mem_cons.1 hx with rfl | hx
      · exact le_trans (le_max_right _ _) h1
      · exact h2 x hx
    · rcases h3 with h3 | ⟨x, hx, h3⟩
      · rcases max_cases d (g a) with ⟨hm, _⟩ | ⟨hm, _⟩
        · left; rw [h3, hm]
        · right; exact ⟨a, List.mem_cons_self, by rw [h3, hm]⟩
      · right; exact ⟨x, List.mem_cons_of_mem _ hx, h3⟩

/-- the running maximum is the greatest element of `{d} ∪ g '' l` -/
theorem foldl_max_isGreatest (g : ℝ → ℝ) (l : List ℝ) (d : ℝ) :
    IsGreatest (insert d (g '' {x | x ∈ l})) (l.foldl (fun acc x => max acc (g x)) d) := by
  obtain ⟨h1, h2, h3⟩ := foldl_max_spec g l d
  constructor
  · rcases h3 with h3 | ⟨x, hx, h3⟩
    · rw [h3]; exact Set.mem_insert _ _
    · rw [h3]; exact Set.mem_insert_of_mem _ ⟨x, hx, rfl⟩
  · intro y hy
    rcases hy with rfl | ⟨x, hx, rfl⟩
    · exact h1
    · exact h2 x hx

theorem foldl_max_le (g : ℝ → ℝ) (l : List ℝ) (d c : ℝ) (hd : d ≤ c) (hg : ∀ x ∈ l, g x ≤ c) :
    l.foldl (fun acc x => max acc (g x)) d ≤ c := by
  rcases (foldl_max_spec g l d).2.2 with h | ⟨x, hx, h⟩
  · rw [h]; exact hd
  · rw [h]; exact hg x hx

/-- running maximum of a list of numbers -/
theorem foldl_max_list_bounds (l : List ℝ) (d c : ℝ) (hd : d ≤ c) (hl : ∀ b ∈ l, b ≤ c) :
    d ≤ l.foldl (fun a b => max a b) d ∧ l.foldl (fun a b => max a b) d ≤ c :=
  ⟨(foldl_max_spec id l d).1, foldl_max_le id l d c hd hl⟩

/-! ## the merge loop of `ks_twosample` -/

theorem countP_split (l : List ℝ) (x y : ℝ) (h : x < y) :
    l.countP (fun a => decide (a ≤ x))
        + (l.filter (fun a => decide (x < a))).countP (fun a => decide (a ≤ y))
      = l.countP (fun a => decide (a ≤ y)) := by
  induction l with
  | nil => simp
  | cons a t ih =>
    by_cases hax : a ≤ x
    · have h1 : ¬ x < a := not_lt.2 hax
      have h2 : a ≤ y := le_trans hax h.le
      simp only [List.countP_cons, List.filter_cons, hax, h1, h2, decide_true, decide_false,
        if_true] at ih ⊢
      simp only [Bool.false_eq_true, if_false]
      omega
    · have h1 : x < a := not_le.1 hax
      by_cases hay : a ≤ y
      · simp only [List.countP_cons, List.filter_cons, hax, h1, hay, decide_true, decide_false,
          if_true] at ih ⊢
        simp only [Bool.false_eq_true, if_false]
        omega
      · simp only [List.countP_cons, List.filter_cons, hax, h1, hay, decide_true, decide_false,
          if_true] at ih ⊢
        simp only [Bool.false_eq_true, if_false]
        omega

/-- the inner `while` loop on a sorted suffix whose elements are all `≥ x`: it consumes exactly
    the elements `≤ x` (i.e. `= x`) and counts them (since 5af6953 the loop only counts) -/
theorem advance_spec (x : ℝ) (rest : List ℝ) :
    ∀ c : Int, rest.Pairwise (· ≤ ·) → (∀ a ∈ rest, x ≤ a) →
      ks_twosample.advance x rest c
        = (rest.filter (fun a => decide (x < a)),
            c + ((rest.countP (fun a => decide (a ≤ x)) : ℕ) : Int)) := by
  induction rest with
  | nil => intro c _ _; simp [ks_twosample.advance]
  | cons a t ih =>
    intro c hs hx
    rw [List.pairwise_cons] at hs
    unfold ks_twosample.advance
    by_cases hax : a = x
    · have hb : ((a == x) = true) := by simpa using hax
      rw [if_pos hb, ih (c + 1) hs.2 (fun b hb => hx b (List.mem_cons_of_mem _ hb))]
      have h1 : ¬ x < a := by rw [hax]; exact lt_irrefl _
      have h2 : a ≤ x := hax.le
      simp only [List.filter_cons, h1, decide_false, Bool.false_eq_true, if_false,
        List.countP_cons, h2, decide_true, if_true]
      push_cast
      congr 1
      ring
    · have hb : ¬ ((a == x) = true) := by simpa using hax
      rw [if_neg hb]
      have hxa : x < a := lt_of_le_of_ne (hx a List.mem_cons_self) (Ne.symm hax)
      have hall : ∀ b ∈ a :: t, x < b := by
        intro b hb
        rcases List.mem_cons.1 hb with rfl | hb
        · exact hxa
        · exact lt_of_lt_of_le hxa (hs.1 b hb)
      have hf : (a :: t).filter (fun a => decide (x < a)) = a :: t :=
        List.filter_eq_self.2 (fun b hb => by simpa using hall b hb)
      have hc : (a :: t).countP (fun a => decide (a ≤ x)) = 0 :=
        List.countP_eq_zero.2 (fun b hb => by simpa using hall b hb)
      rw [hf, hc]; simp

/-- `f1 − f2 = i/n1 − j/n2` at the point `x` when the loop is in the state `(r1, c1), (r2, c2)`
    (counts `c1`, `c2`, unconsumed suffixes `r1`, `r2`) -/
noncomputable def gap (n1 n2 : ℝ) (r1 r2 : List ℝ) (c1 c2 : Int) (x : ℝ) : ℝ :=
  (((c1 + ((r1.countP (fun a => decide (a ≤ x)) : ℕ) : Int) : Int) : ℝ) / n1)
    - (((c2 + ((r2.countP (fun a => decide (a ≤ x)) : ℕ) : Int) : Int) : ℝ) / n2)

/-- LOOP INVARIANT of `for x in data_all.iter()`, in generalised form: from any state whose
    unconsumed suffixes are sorted and contained in the remaining (strictly increasing) points `Q`,
    the loop returns the running maxima of `±(i/n1 − j/n2)` over `Q` -/
theorem fold_spec (n1 n2 : ℝ) (Q : List ℝ) (hQ : Q.Pairwise (· < ·)) :
    ∀ (r1 r2 : List ℝ) (c1 c2 : Int) (dp dm : ℝ), r1.Pairwise (· ≤ ·) → r2.Pairwise (· ≤ ·) →
      (∀ a ∈ r1, a ∈ Q) → (∀ a ∈ r2, a ∈ Q) →
      (Q.foldl (ks_twosample.step n1 n2) ((r1, c1), ((r2, c2), (dp, dm)))).2.2
        = (Q.foldl (fun acc x => max acc (gap n1 n2 r1 r2 c1 c2 x)) dp,
           Q.foldl (fun acc x => max acc (gap n2 n1 r2 r1 c2 c1 x)) dm) := by
  induction Q with
  | nil => intros; rfl
  | cons x Q' ih =>
    intro r1 r2 c1 c2 dp dm hs1 hs2 hm1 hm2
    rw [List.pairwise_cons] at hQ
    have hge : ∀ (r : List ℝ), (∀ a ∈ r, a ∈ x :: Q') → ∀ a ∈ r, x ≤ a := by
      intro r hr a ha
      rcases List.mem_cons.1 (hr a ha) with rfl | h
      · exact le_refl _
      · exact (hQ.1 a h).le
    have hsub : ∀ (r : List ℝ), (∀ a ∈ r, a ∈ x :: Q') →
        ∀ a ∈ r.filter (fun a => decide (x < a)), a ∈ Q' := by
      intro r hr a ha
      obtain ⟨ha1, ha2⟩ := List.mem_filter.1 ha
      have hxa : x < a := by simpa using ha2
      rcases List.mem_cons.1 (hr a ha1) with rfl | h
      · exact absurd hxa (lt_irrefl _)
      · exact h
    simp only [List.foldl_cons]
    have hstep : ks_twosample.step n1 n2 ((r1, c1), ((r2, c2), (dp, dm))) x
        = ((r1.filter (fun a => decide (x < a)),
              c1 + ((r1.countP (fun a => decide (a ≤ x)) : ℕ) : Int)),
           ((r2.filter (fun a => decide (x < a)),
              c2 + ((r2.countP (fun a => decide (a ≤ x)) : ℕ) : Int)),
            (max dp (gap n1 n2 r1 r2 c1 c2 x),
             max dm (gap n2 n1 r2 r1 c2 c1 x)))) := by
      unfold ks_twosample.step
      simp only [advance_spec x r1 c1 hs1 (hge r1 hm1), advance_spec x r2 c2 hs2 (hge r2 hm2),
        rfun_fmax, rfun_ofInt, gap]
    rw [hstep, ih hQ.2 _ _ _ _ _ _ (hs1.filter _) (hs2.filter _) (hsub r1 hm1) (hsub r2 hm2)]
    have key : ∀ (m1 m2 : ℝ) (s1 s2 : List ℝ) (g1 g2 : Int), ∀ y ∈ Q',
        gap m1 m2 (s1.filter (fun a => decide (x < a))) (s2.filter (fun a => decide (x < a)))
          (g1 + ((s1.countP (fun a => decide (a ≤ x)) : ℕ) : Int))
          (g2 + ((s2.countP (fun a => decide (a ≤ x)) : ℕ) : Int)) y
        = gap m1 m2 s1 s2 g1 g2 y := by
      intro m1 m2 s1 s2 g1 g2 y hy
      have hxy : x < y := hQ.1 y hy
      unfold gap
      rw [← countP_split s1 x y hxy, ← countP_split s2 x y hxy]
      push_cast
      ring
    congr 1
    · exact List.foldl_ext _ _ _ (fun acc y hy => by rw [key _ _ r1 r2 c1 c2 y hy])
    · exact List.foldl_ext _ _ _ (fun acc y hy => by rw [key _ _ r2 r1 c2 c1 y hy])

/-! ## closed form of `ks_twosample.stats` -/

/-- the empirical distribution function of a sample: `#{a ∈ l | a ≤ x} / len(l)` -/
noncomputable def ecdf (l : List ℝ) (x : ℝ) : ℝ :=
  ((l.countP (fun a => decide (a ≤ x)) : ℕ) : ℝ) / ((l.length : ℕ) : ℝ)

theorem ecdf_nonneg (l : List ℝ) (x : ℝ) : 0 ≤ ecdf l x := by
  unfold ecdf; positivity

theorem ecdf_le_one (l : List ℝ) (x : ℝ) : ecdf l x ≤ 1 := by
  unfold ecdf
  apply div_le_one_of_le₀
  · exact_mod_cast List.countP_le_length
  · positivity

theorem ecdf_perm {l l' : List ℝ} (h : l.Perm l') (x : ℝ) : ecdf l x = ecdf l' x := by
  unfold ecdf; rw [h.countP_eq, h.length_eq]

/-- the pooled, sorted, de-duplicated sample points the loop runs over -/
noncomputable def pooled (data1 data2 : List ℝ) : List ℝ := dedup (sortBy leR (data1 ++ data2))

theorem mem_pooled (data1 data2 : List ℝ) (x : ℝ) :
    x ∈ pooled data1 data2 ↔ x ∈ data1 ∨ x ∈ data2 := by
  unfold pooled
  rw [mem_dedup, mem_sortBy, List.mem_append]

theorem pooled_comm (data1 data2 : List ℝ) : pooled data1 data2 = pooled data2 data1 := by
  unfold pooled
  rw [sortR_eq_of_perm (List.perm_append_comm)]

theorem pooled_strict (data1 data2 : List ℝ) : (pooled data1 data2).Pairwise (· < ·) :=
  dedup_sorted _ (sortR_sorted _)

/-- CLOSED FORM: the model's `(d_plus, d_minus)` are the running maxima, started at 0, of
    `F1 − F2` resp. `F2 − F1` over the pooled sample points -/
theorem stats_eq (data1 data2 : List ℝ) :
    ks_twosample.stats data1 data2
      = ((pooled data1 data2).foldl (fun acc x => max acc (ecdf data1 x - ecdf data2 x)) 0,
         (pooled data1 data2).foldl (fun acc x => max acc (ecdf data2 x - ecdf data1 x)) 0) := by
  unfold ks_twosample.stats
  have hA : dedup (sortBy (fun a b : ℝ => decide (a ≤ b))
      (sortBy (fun a b : ℝ => decide (a ≤ b)) data1 ++ sortBy (fun a b : ℝ => decide (a ≤ b)) data2))
      = pooled data1 data2 := by
    unfold pooled
    rw [sortR_eq_of_perm (l₁ := sortBy leR data1 ++ sortBy leR data2) (l₂ := data1 ++ data2)
      ((sortBy_perm leR data1).append (sortBy_perm leR data2))]
  simp only [hA]
  have hmem : ∀ (d : List ℝ), (∀ a ∈ d, a ∈ data1 ∨ a ∈ data2) →
      ∀ a ∈ sortBy (fun a b : ℝ => decide (a ≤ b)) d, a ∈ pooled data1 data2 := by
    intro d hd a ha
    rw [mem_pooled]
    exact hd a ((mem_sortBy _ d a).1 ha)
  rw [fold_spec _ _ _ (pooled_strict data1 data2) _ _ _ _ _ _ (sortR_sorted data1)
    (sortR_sorted data2) (hmem data1 (fun a ha => Or.inl ha)) (hmem data2 (fun a ha => Or.inr ha))]
  have hz : (0.0 : ℝ) = 0 := by norm_num
  have key : ∀ (d d' : List ℝ) (x : ℝ),
      gap (RFun.ofInt (listLen d) : ℝ) (RFun.ofInt (listLen d') : ℝ)
        (sortBy (fun a b : ℝ => decide (a ≤ b)) d) (sortBy (fun a b : ℝ => decide (a ≤ b)) d')
        (0 : Int) (0 : Int) x = ecdf d x - ecdf d' x := by
    intro d d' x
    unfold gap ecdf listLen
    rw [(sortBy_perm _ d).countP_eq, (sortBy_perm _ d').countP_eq]
    simp only [rfun_ofInt, Int.cast_natCast, zero_add]
  rw [hz]
  congr 1
  · exact List.foldl_ext _ _ _ (fun acc y _ => by rw [key])
  · exact List.foldl_ext _ _ _ (fun acc y _ => by rw [key])

/-! ## `rangeList` -/

theorem mem_rangeList' {lo hi i : Int} (h : i ∈ rangeList lo hi) : lo ≤ i ∧ i < hi := by
  unfold rangeList at h
  obtain ⟨k, hk, rfl⟩ := List.mem_map.1 h
  have := List.mem_range.1 hk
  omega

end Statrs.Lemmas.RankKS
