/-
  Statrs.Lemmas.RankMWU — the ranking loop of `rankdata_mwu` (hand model in Statrs.Model.RankTests)
  over ℝ: list-fill lemmas, counting in sorted lists, the run invariant of `rankdata_mwu.step`,
  and the final un-permutation.
-/
import Mathlib.Tactic
import Statrs.Model.RankTests
import Statrs.Real.Simp
import Statrs.Lemmas.Select
import Statrs.Lemmas.RankSort
set_option linter.unusedSectionVars false
set_option linter.unusedVariables false
namespace Statrs.Lemmas.RankMWU
open Statrs Statrs.Gen Statrs.Model Statrs.Lemmas.Select Statrs.Lemmas.RankSort

/-! ### `rangeList`, `listFill` -/
section fill
variable {β : Type}

theorem rangeList_eq (lo : Int) (m : ℕ) :
    rangeList lo (lo + m) = (List.range m).map (fun (i : ℕ) => lo + (i : Int)) := by
  unfold rangeList
  have : (lo + (m : Int) - lo).toNat = m := by simp
  rw [this]

theorem rangeList_zero (n : ℕ) : rangeList 0 (n : Int) = (List.range n).map (fun (i : ℕ) => (i : Int)) := by
  have := rangeList_eq 0 n
  simp only [zero_add] at this
  exact this

theorem listFill_eq (l : List β) (lo : Int) (m : ℕ) (v : β) :
    listFill l lo (lo + m) v = (List.range m).foldl (fun l (i : ℕ) => listSet l (lo + (i : Int)) v) l := by
  unfold listFill
  rw [rangeList_eq, List.foldl_map]

theorem listSet_length' (l : List β) (i : Int) (v : β) : (listSet l i v).length = l.length := by
  unfold listSet; split <;> simp

theorem foldSet_length (l : List β) (lo : Int) (m : ℕ) (v : β) :
    ((List.range m).foldl (fun l (i : ℕ) => listSet l (lo + (i : Int)) v) l).length = l.length := by
  induction m with
  | zero => simp
  | succ m ih =>
    rw [List.range_succ, List.foldl_append]
    simp only [List.foldl_cons, List.foldl_nil]
    rw [listSet_length', ih]

theorem listGet_foldSet [Inhabited β] (l : List β) (lo : Int) (m : ℕ) (v : β) (hlo : 0 ≤ lo)
    (hhi : lo + m ≤ l.length) (p : Int) :
    listGet ((List.range m).foldl (fun l (i : ℕ) => listSet l (lo + (i : Int)) v) l) p
      = if lo ≤ p ∧ p < lo + m then v else listGet l p := by
  induction m with
  | zero =>
    have : ¬ (lo ≤ p ∧ p < lo + ((0 : ℕ) : Int)) := by push_cast; omega
    rw [if_neg this]; simp
  | succ m ih =>
    rw [List.range_succ, List.foldl_append]
    simp only [List.foldl_cons, List.foldl_nil]
    have ih' := ih (by push_cast at hhi ⊢; omega)
    by_cases hp : p = lo + (m : Int)
    · subst hp
      rw [listGet_listSet_eq _ _ _ (by omega) (by rw [foldSet_length]; push_cast at hhi; omega)]
      have : lo ≤ lo + (m : Int) ∧ lo + (m : Int) < lo + ((m + 1 : ℕ) : Int) := by push_cast; omega
      rw [if_pos this]
    · rw [listGet_listSet_ne _ _ _ _ hp, ih']
      have : (lo ≤ p ∧ p < lo + ((m + 1 : ℕ) : Int)) ↔ (lo ≤ p ∧ p < lo + (m : Int)) := by
        push_cast; omega
      simp only [this]

theorem listFill_length (l : List β) (lo hi : Int) (v : β) :
    (listFill l lo hi v).length = l.length := by
  by_cases h : lo ≤ hi
  · obtain ⟨m, hm⟩ := Int.le.dest h
    rw [← hm, listFill_eq, foldSet_length]
  · have : (hi - lo).toNat = 0 := by omega
    unfold listFill rangeList
    rw [this]; simp

theorem listGet_listFill [Inhabited β] (l : List β) (lo hi : Int) (v : β) (hlo : 0 ≤ lo)
    (hhi : hi ≤ l.length) (p : Int) :
    listGet (listFill l lo hi v) p = if lo ≤ p ∧ p < hi then v else listGet l p := by
  by_cases h : lo ≤ hi
  · obtain ⟨m, hm⟩ := Int.le.dest h
    rw [← hm, listFill_eq, listGet_foldSet _ _ _ _ hlo (by omega)]
  · have : (hi - lo).toNat = 0 := by omega
    have h2 : ¬ (lo ≤ p ∧ p < hi) := by omega
    unfold listFill rangeList
    rw [this, if_neg h2]; simp

end fill

/-! ### counting -/

/-- if `P` holds exactly on the first `a` positions of `s` then `countP P s = a` -/
theorem countP_prefix {β : Type} (P : β → Bool) (s : List β) (a : ℕ) (ha : a ≤ s.length)
    (h : ∀ q (hq : q < s.length), P s[q] = true ↔ q < a) : s.countP P = a := by
  induction s generalizing a with
  | nil => simp at ha; simp [ha]
  | cons x t ih =>
    cases a with
    | zero =>
      rw [List.countP_eq_zero]
      intro b hb
      obtain ⟨q, hq, rfl⟩ := List.getElem_of_mem hb
      have := h q hq
      simpa using this
    | succ a =>
      have h0 : P x = true := by
        have := h 0 (by simp)
        simpa using this
      rw [List.countP_cons_of_pos h0]
      congr 1
      apply ih a (by simpa using ha)
      intro q hq
      have := h (q + 1) (by simpa using hq)
      simpa using this

theorem countP_eq_sum_ite {γ : Type} (P : γ → Bool) (m : List γ) :
    m.countP P = (m.map (fun w => if P w = true then 1 else 0)).sum := by
  induction m with
  | nil => simp
  | cons b m ihm =>
    simp only [List.countP_cons, List.map_cons, List.sum_cons, ihm]
    ring

/-- swapping a double count: `Σ_{v∈l} #{w∈m | r w v} = Σ_{w∈m} #{v∈l | r w v}` -/
theorem sum_countP_comm {β γ : Type} (r : γ → β → Bool) (l : List β) (m : List γ) :
    (l.map (fun v => m.countP (fun w => r w v))).sum = (m.map (fun w => l.countP (fun v => r w v))).sum := by
  induction l with
  | nil => simp
  | cons a l ih =>
    simp only [List.map_cons, List.sum_cons, ih, List.countP_cons]
    rw [List.sum_map_add, countP_eq_sum_ite]
    ring

/-! ### the ranking loop on the sorted values -/

/-- value at position `p` of the sorted list -/
noncomputable def g (s : List ℝ) (p : ℕ) : ℝ := listGet s (p : Int)

theorem g_eq (s : List ℝ) (p : ℕ) (hp : p < s.length) : g s p = s[p] := listGet_nat_lt s p hp

/-- number of entries `< v` -/
noncomputable def cLt (s : List ℝ) (v : ℝ) : ℕ := s.countP (fun w => decide (w < v))
/-- number of entries `≤ v` -/
noncomputable def cLe (s : List ℝ) (v : ℝ) : ℕ := s.countP (fun w => decide (w ≤ v))

/-- the final content of position `p` (in sorted order): the average rank, and the tie count at the
    first position of a run of equal values (0 elsewhere) -/
def Fin1 (s : List ℝ) (rs : List ℝ) (t : List Int) (p : ℕ) : Prop :=
  listGet rs (p : Int) = (((cLt s (g s p) : ℕ) : ℝ) + ((cLe s (g s p) : ℕ) : ℝ) + 1) / 2 ∧
  listGet t (p : Int) = if cLt s (g s p) = p then ((cLe s (g s p) : ℕ) : Int) - ((cLt s (g s p) : ℕ) : Int) else 0

/-- sortedness in terms of `g` -/
def SortedG (s : List ℝ) : Prop := ∀ p q : ℕ, p ≤ q → q < s.length → g s p ≤ g s q

theorem sortedG_of_pairwise (s : List ℝ) (h : s.Pairwise (· ≤ ·)) : SortedG s := by
  intro p q hpq hq
  rw [g_eq s p (by omega), g_eq s q hq]
  rcases Nat.lt_or_ge p q with h' | h'
  · exact List.pairwise_iff_getElem.1 h p q (by omega) hq h'
  · have : p = q := by omega
    subst this; exact le_refl _

/-- closing the run `[k, c)` writes the final content of its positions and leaves the positions
    before `k` alone -/
theorem closeRun (s rs : List ℝ) (t : List Int) (k c : ℕ) (kI cnt hiI : Int)
    (hk : kI = (k : Int)) (hcnt : cnt = (c : Int) - k) (hhi : hiI = (c : Int))
    (hs : SortedG s) (hkc : k < c) (hcn : c ≤ s.length)
    (hrs : rs.length = s.length) (ht : t.length = s.length)
    (hrun : ∀ p, k ≤ p → p < c → g s p = g s k)
    (hbelow : ∀ p, p < k → g s p < g s k)
    (habove : ∀ q, c ≤ q → q < s.length → g s k < g s q) :
    let rs' := listFill rs kI hiI
      ((RFun.ofInt (kI + (1 : Int)) : ℝ) + (((RFun.ofInt cnt : ℝ) - (1.0 : ℝ)) / (2.0 : ℝ)))
    let t' := listFill (listSet t kI cnt) (kI + (1 : Int)) hiI (0 : Int)
    rs'.length = s.length ∧ t'.length = s.length ∧
    (∀ p, k ≤ p → p < c → Fin1 s rs' t' p) ∧
    (∀ p, p < k → listGet rs' (p : Int) = listGet rs (p : Int) ∧ listGet t' (p : Int) = listGet t (p : Int)) := by
  subst hk hcnt hhi
  intro rs' t'
  have hlo : cLt s (g s k) = k := by
    apply countP_prefix _ _ _ (by omega)
    intro q hq
    rw [← g_eq s q hq, decide_eq_true_eq]
    constructor
    · intro h
      by_contra hq'
      exact absurd (hs k q (by omega) hq) (not_le.2 h)
    · exact hbelow q
  have hhi : cLe s (g s k) = c := by
    apply countP_prefix _ _ _ hcn
    intro q hq
    rw [← g_eq s q hq, decide_eq_true_eq]
    constructor
    · intro h
      by_contra hq'
      exact absurd (habove q (by omega) hq) (not_lt.2 h)
    · intro hqc
      rcases Nat.lt_or_ge q k with h' | h'
      · exact le_of_lt (hbelow q h')
      · exact le_of_eq (hrun q h' hqc)
  refine ⟨?_, ?_, ?_, ?_⟩
  · show (listFill _ _ _ _).length = _
    rw [listFill_length, hrs]
  · show (listFill _ _ _ _).length = _
    rw [listFill_length, listSet_length', ht]
  · intro p hp1 hp2
    unfold Fin1
    rw [hrun p hp1 hp2, hlo, hhi]
    constructor
    · show listGet (listFill _ _ _ _) _ = _
      rw [listGet_listFill _ _ _ _ (by omega) (by rw [hrs]; exact_mod_cast hcn)]
      have : ((k : Int) ≤ (p : Int) ∧ (p : Int) < (c : Int)) := by omega
      rw [if_pos this]
      simp only [rfun_ofInt]
      push_cast
      norm_num
      ring
    · show listGet (listFill _ _ _ _) _ = _
      rw [listGet_listFill _ _ _ _ (by omega) (by rw [listSet_length', ht]; exact_mod_cast hcn)]
      by_cases hpk : p = k
      · subst hpk
        have : ¬ ((p : Int) + 1 ≤ (p : Int) ∧ (p : Int) < (c : Int)) := by omega
        rw [if_neg this, listGet_listSet_eq _ _ _ (by omega) (by rw [ht]; omega)]
        simp
      · have : ((k : Int) + 1 ≤ (p : Int) ∧ (p : Int) < (c : Int)) := by omega
        rw [if_pos this, if_neg (by omega)]
  · intro p hp
    constructor
    · show listGet (listFill _ _ _ _) _ = _
      rw [listGet_listFill _ _ _ _ (by omega) (by rw [hrs]; exact_mod_cast hcn)]
      rw [if_neg (by omega)]
    · show listGet (listFill _ _ _ _) _ = _
      rw [listGet_listFill _ _ _ _ (by omega) (by rw [listSet_length', ht]; exact_mod_cast hcn)]
      rw [if_neg (by omega), listGet_listSet_ne _ _ _ _ (by omega)]

/-- loop state type -/
abbrev St := List ℝ × (List Int × (Int × Int))

/-- invariant after `c` positions have been examined: `[k, c)` is the current run -/
def Inv (s : List ℝ) (c : ℕ) (st : St) : Prop :=
  ∃ k : ℕ, st.2.2.1 = (k : Int) ∧ k < c ∧ st.2.2.2 = (c : Int) - k ∧
    st.1.length = s.length ∧ st.2.1.length = s.length ∧
    (∀ p, k ≤ p → p < c → g s p = g s k) ∧
    (∀ p, p < k → g s p < g s k) ∧
    (∀ p, p < k → Fin1 s st.1 st.2.1 p)

theorem step_inv (s : List ℝ) (hs : SortedG s) (c : ℕ) (hc1 : 1 ≤ c) (hcn : c < s.length) (st : St)
    (h : Inv s c st) : Inv s (c + 1) (rankdata_mwu.step s st (c : Int)) := by
  obtain ⟨k, hk, hkc, hcnt, hrs, ht, hrun, hbelow, hfin⟩ := h
  have hu : usub (c : Int) (1 : Int) = ((c - 1 : ℕ) : Int) := by
    unfold usub
    have : ¬ ((c : Int) < 1) := by omega
    rw [if_neg this]; omega
  unfold rankdata_mwu.step
  simp only [hu, real_beq]
  have hgc : listGet s (c : Int) = g s c := rfl
  have hgc1 : listGet s ((c - 1 : ℕ) : Int) = g s (c - 1) := rfl
  rw [hgc, hgc1]
  by_cases heq : g s c = g s (c - 1)
  · rw [if_neg (not_not.2 heq)]
    refine ⟨k, hk, by omega, ?_, hrs, ht, ?_, hbelow, hfin⟩
    · show st.2.2.2 + 1 = _
      rw [hcnt]; push_cast; ring
    · intro p hp1 hp2
      rcases Nat.lt_or_ge p c with h' | h'
      · exact hrun p hp1 h'
      · have : p = c := by omega
        subst this
        rw [heq]; exact hrun (p - 1) (by omega) (by omega)
  · rw [if_pos heq]
    have hlt : g s (c - 1) < g s c :=
      lt_of_le_of_ne (hs (c - 1) c (by omega) hcn) (fun e => heq e.symm)
    have hk1 : g s (c - 1) = g s k := hrun (c - 1) (by omega) (by omega)
    have habove : ∀ q, c ≤ q → q < s.length → g s k < g s q := by
      intro q hq1 hq2
      rw [← hk1]
      exact lt_of_lt_of_le hlt (hs c q hq1 hq2)
    obtain ⟨l1, l2, f1, f2⟩ := closeRun s st.1 st.2.1 k c st.2.2.1 st.2.2.2 (c : Int) hk hcnt rfl hs hkc
      (by omega) hrs ht hrun hbelow habove
    refine ⟨c, rfl, by omega, by push_cast; ring, l1, l2, ?_, ?_, ?_⟩
    · intro p hp1 hp2
      have : p = c := by omega
      rw [this]
    · intro p hp
      exact lt_of_le_of_lt (hs p (c - 1) (by omega) (by omega)) hlt
    · intro p hp
      rcases Nat.lt_or_ge p k with h' | h'
      · obtain ⟨e1, e2⟩ := f2 p h'
        obtain ⟨a1, a2⟩ := hfin p h'
        exact ⟨e1.trans a1, e2.trans a2⟩
      · exact f1 p h' hp

theorem loop_inv (s : List ℝ) (hs : SortedG s) (hn : 1 ≤ s.length) (m : ℕ) (hm : m + 1 ≤ s.length) :
    Inv s (m + 1) ((List.range m).foldl (fun st (i : ℕ) => rankdata_mwu.step s st ((1 : Int) + (i : Int)))
      (List.replicate s.length (999.0 : ℝ), (List.replicate s.length (999 : Int), ((0 : Int), (1 : Int))))) := by
  induction m with
  | zero =>
    refine ⟨0, rfl, by omega, by simp, by simp, by simp, ?_, ?_, ?_⟩
    · intro p hp1 hp2
      have : p = 0 := by omega
      rw [this]
    · intro p hp; omega
    · intro p hp; omega
  | succ m ih =>
    rw [List.range_succ, List.foldl_append]
    simp only [List.foldl_cons, List.foldl_nil]
    have := step_inv s hs (m + 1) (by omega) (by omega) _ (ih (by omega))
    have e : (((m + 1 : ℕ)) : Int) = (1 : Int) + (m : Int) := by push_cast; ring
    rw [e] at this
    exact this

/-- ranks (in sorted order) and tie vector produced from the sorted values `s`: the loop of
    `rankdata_mwu` followed by the final fill -/
noncomputable def mwuSorted (s : List ℝ) : List ℝ × List Int :=
  let n := listLen s
  let st := (rangeList (1 : Int) n).foldl (rankdata_mwu.step s)
    (List.replicate s.length (999.0 : ℝ), (List.replicate s.length (999 : Int), ((0 : Int), (1 : Int))))
  (listFill st.1 st.2.2.1 n
      ((RFun.ofInt (st.2.2.1 + (1 : Int)) : ℝ) + (((RFun.ofInt st.2.2.2 : ℝ) - (1.0 : ℝ)) / (2.0 : ℝ))),
    listFill (listSet st.2.1 st.2.2.1 st.2.2.2) (st.2.2.1 + (1 : Int)) n (0 : Int))

theorem mwuSorted_spec (s : List ℝ) (hs : SortedG s) (hn : 1 ≤ s.length) :
    (mwuSorted s).1.length = s.length ∧ (mwuSorted s).2.length = s.length ∧
    ∀ p, p < s.length → Fin1 s (mwuSorted s).1 (mwuSorted s).2 p := by
  obtain ⟨m, hm⟩ : ∃ m, s.length = m + 1 := ⟨s.length - 1, by omega⟩
  have hr : rangeList (1 : Int) (listLen s) = (List.range m).map (fun (i : ℕ) => (1 : Int) + (i : Int)) := by
    have := rangeList_eq 1 m
    have e : listLen s = (1 : Int) + (m : Int) := by unfold listLen; rw [hm]; push_cast; ring
    rw [e]; exact this
  unfold mwuSorted
  simp only [hr, List.foldl_map]
  have hinv := loop_inv s hs hn m (by omega)
  revert hinv
  generalize ((List.range m).foldl (fun st (i : ℕ) => rankdata_mwu.step s st ((1 : Int) + (i : Int)))
      (List.replicate s.length (999.0 : ℝ), (List.replicate s.length (999 : Int), ((0 : Int), (1 : Int))))) = st
  intro hinv
  obtain ⟨k, hk, hkc, hcnt, hrs, ht, hrun, hbelow, hfin⟩ := hinv
  have hcl := closeRun s st.1 st.2.1 k (m + 1) st.2.2.1 st.2.2.2 (listLen s) hk hcnt
    (by unfold listLen; rw [hm]) hs hkc (by omega) hrs ht hrun hbelow (by intro q h1 h2; omega)
  obtain ⟨l1, l2, f1, f2⟩ := hcl
  refine ⟨l1, l2, ?_⟩
  intro p hp
  rcases Nat.lt_or_ge p k with h' | h'
  · obtain ⟨e1, e2⟩ := f2 p h'
    obtain ⟨a1, a2⟩ := hfin p h'
    exact ⟨e1.trans a1, e2.trans a2⟩
  · exact f1 p h' (by omega)

/-! ### `rankdata_mwu` over ℝ -/

theorem partialCmp_isNone (a b : ℝ) : (partialCmp a b).isNone = false := by
  unfold partialCmp
  rcases le_total a b with h | h
  · rw [if_pos h]; split_ifs <;> rfl
  · by_cases h' : a ≤ b
    · rw [if_pos h', if_pos h]; rfl
    · rw [if_neg h', if_pos h]; rfl

theorem uncomparable_real (y : List ℝ) : rankdata_mwu.uncomparable y = false := by
  induction y with
  | nil => rfl
  | cons a t ih =>
    unfold rankdata_mwu.uncomparable
    rw [ih, Bool.or_false, List.any_eq_false]
    intro b _
    rw [partialCmp_isNone]; simp

theorem zip_range_eq_listEnum {β : Type} (y : List β) :
    List.zip (rangeList (0 : Int) (listLen y)) y = listEnum y := by
  unfold listLen listEnum
  rw [rangeList_zero, List.zip_map_left]
  rfl

/-- the stably sorted `(index, value)` pairs -/
noncomputable def sortedPairs (y : List ℝ) : List (Int × ℝ) :=
  sortBy (fun a b : Int × ℝ => decide (a.2 ≤ b.2)) (listEnum y)

/-- the sorted values -/
noncomputable def sortedVals (y : List ℝ) : List ℝ := (sortedPairs y).map Prod.snd

theorem rankdata_mwu_unfold (y : List ℝ) (hy : y ≠ []) :
    rankdata_mwu y = .ok
      ((sortBy (fun a b : Int × ℝ => decide (a.1 ≤ b.1))
          (List.zip ((sortedPairs y).map Prod.fst) (mwuSorted (sortedVals y)).1)).map Prod.snd,
        (mwuSorted (sortedVals y)).2) := by
  unfold rankdata_mwu
  have he : y.isEmpty = false := by
    cases y with
    | nil => exact absurd rfl hy
    | cons a t => rfl
  simp only [uncomparable_real, he, zip_range_eq_listEnum, Bool.false_eq_true, if_false]
  rfl

/-- sorting `(index, value)` pairs by index, when the indices are a permutation of `0..n`, puts the
    pair with index `i` at position `i` -/
theorem unperm (js : List Int) (rs : List ℝ) (n : ℕ) (hjl : js.length = n) (hrl : rs.length = n)
    (hperm : js.Perm ((List.range n).map (fun (i : ℕ) => (i : Int)))) :
    ((sortBy (fun a b : Int × ℝ => decide (a.1 ≤ b.1)) (List.zip js rs)).map Prod.snd).length = n ∧
    ∀ i, i < n → ∃ p, p < n ∧ js[p]? = some (i : Int) ∧
      ((sortBy (fun a b : Int × ℝ => decide (a.1 ≤ b.1)) (List.zip js rs)).map Prod.snd)[i]? = rs[p]? := by
  set res := sortBy (fun a b : Int × ℝ => decide (a.1 ≤ b.1)) (List.zip js rs) with hres
  have hp : res.Perm (List.zip js rs) := sortBy_perm _ _
  have hlen : res.length = n := by rw [hp.length_eq, List.length_zip, hjl, hrl, min_self]
  have hpw : res.Pairwise (fun a b => a.1 ≤ b.1) := by
    have := sortBy_pairwise (fun a b : Int × ℝ => decide (a.1 ≤ b.1))
      (by intro a b; simp only [decide_eq_true_eq]; exact le_total _ _)
      (by intro a b c; simp only [decide_eq_true_eq]; exact le_trans) (List.zip js rs)
    exact this.imp (by intro a b h; simpa using h)
  have hfst : res.map Prod.fst = (List.range n).map (fun (i : ℕ) => (i : Int)) := by
    apply List.Perm.eq_of_pairwise' (r := fun a b : Int => a ≤ b)
    · exact List.pairwise_map.2 hpw
    · rw [List.pairwise_map]
      exact List.pairwise_lt_range.imp (by intro a b h; exact_mod_cast le_of_lt h)
    · refine ((hp.map Prod.fst).trans ?_).trans hperm
      rw [List.map_fst_zip (by omega)]
  refine ⟨by rw [List.length_map, hlen], ?_⟩
  intro i hi
  have hi' : i < res.length := by omega
  have hmem : res[i] ∈ List.zip js rs := hp.mem_iff.1 (List.getElem_mem hi')
  obtain ⟨p, hpl, hpe⟩ := List.getElem_of_mem hmem
  rw [List.getElem_zip] at hpe
  rw [List.length_zip, hjl, hrl, min_self] at hpl
  have h1 : res[i].1 = (i : Int) := by
    have : (res.map Prod.fst)[i]'(by rw [List.length_map]; exact hi') = (i : Int) := by
      simp only [hfst]; simp
    simpa using this
  refine ⟨p, hpl, ?_, ?_⟩
  · rw [List.getElem?_eq_getElem (by omega)]
    have := congrArg Prod.fst hpe
    simp only at this
    rw [this, h1]
  · rw [List.getElem?_map, List.getElem?_eq_getElem hi', List.getElem?_eq_getElem (by omega)]
    have := congrArg Prod.snd hpe
    simp only at this
    simp [this]

theorem sortedPairs_perm (y : List ℝ) : (sortedPairs y).Perm (listEnum y) := sortBy_perm _ _

theorem sortedVals_perm (y : List ℝ) : (sortedVals y).Perm y := by
  have := (sortedPairs_perm y).map Prod.snd
  rw [listEnum_map_snd] at this
  exact this

theorem sortedPairs_lex (y : List ℝ) : (sortedPairs y).Pairwise lexLt :=
  sortBy_lex _ (by intro a b; simp) _ (listEnum_pairwise_fst y)

theorem sortedVals_pairwise (y : List ℝ) : (sortedVals y).Pairwise (· ≤ ·) := by
  unfold sortedVals
  rw [List.pairwise_map]
  exact (sortedPairs_lex y).imp (by
    intro a b h
    rcases h with h | ⟨h, _⟩
    · exact le_of_lt h
    · exact le_of_eq h)

/-- the sorted values depend only on the multiset -/
theorem sortedVals_eq_of_perm {y y' : List ℝ} (h : y'.Perm y) : sortedVals y' = sortedVals y :=
  List.Perm.eq_of_pairwise' (r := fun a b : ℝ => a ≤ b) (sortedVals_pairwise y') (sortedVals_pairwise y)
    (((sortedVals_perm y').trans h).trans (sortedVals_perm y).symm)

/-- average rank of the value `v` in the sample `y`: the mean of `1 + #{< v}` and `#{≤ v}` -/
noncomputable def avgRank (y : List ℝ) (v : ℝ) : ℝ :=
  (((y.countP (fun w => decide (w < v)) : ℕ) : ℝ) + ((y.countP (fun w => decide (w ≤ v)) : ℕ) : ℝ) + 1) / 2

/-- the tie vector returned by `rankdata_mwu` -/
noncomputable def tieVec (y : List ℝ) : List Int := (mwuSorted (sortedVals y)).2

/-- `rankdata_mwu` over ℝ: every element gets its average rank -/
theorem rankdata_mwu_real (y : List ℝ) (hy : y ≠ []) :
    rankdata_mwu y = .ok (y.map (avgRank y), tieVec y) := by
  rw [rankdata_mwu_unfold y hy]
  have hn : 1 ≤ y.length := by
    cases y with
    | nil => exact absurd rfl hy
    | cons a t => simp
  have hsl : (sortedVals y).length = y.length := (sortedVals_perm y).length_eq
  have hpl : (sortedPairs y).length = y.length := by
    rw [(sortedPairs_perm y).length_eq, listEnum_length]
  obtain ⟨l1, l2, hfin⟩ := mwuSorted_spec (sortedVals y) (sortedG_of_pairwise _ (sortedVals_pairwise y))
    (by omega)
  have hjperm : ((sortedPairs y).map Prod.fst).Perm ((List.range y.length).map (fun (i : ℕ) => (i : Int))) := by
    rw [← listEnum_map_fst]
    exact (sortedPairs_perm y).map Prod.fst
  obtain ⟨ol, oget⟩ := unperm ((sortedPairs y).map Prod.fst) (mwuSorted (sortedVals y)).1 y.length
    (by rw [List.length_map, hpl]) (by rw [l1, hsl]) hjperm
  congr 2
  apply List.ext_getElem?
  intro i
  by_cases hi : i < y.length
  · obtain ⟨p, hp, hj, ho⟩ := oget i hi
    rw [ho, List.getElem?_map, List.getElem?_eq_getElem hi, List.getElem?_eq_getElem (by rw [l1, hsl]; exact hp)]
    simp only [Option.map_some, Option.some.injEq]
    -- the pair at sorted position `p` is `(i, y[i])`
    have hpp : p < (sortedPairs y).length := by omega
    have hmem : (sortedPairs y)[p] ∈ listEnum y := (sortedPairs_perm y).mem_iff.1 (List.getElem_mem hpp)
    obtain ⟨k, hk, hke⟩ := (mem_listEnum y _).1 hmem
    have hfst : ((sortedPairs y)[p]).1 = (i : Int) := by
      rw [List.getElem?_map, List.getElem?_eq_getElem hpp] at hj
      simpa using hj
    have hki : k = i := by
      have := congrArg Prod.fst hke
      simp only at this
      rw [hfst] at this
      exact_mod_cast this.symm
    subst hki
    have hval : g (sortedVals y) p = y[k] := by
      rw [g_eq _ _ (by omega)]
      unfold sortedVals
      rw [List.getElem_map, hke]
    have hF := (hfin p (by omega)).1
    rw [listGet_nat_lt _ _ (by rw [l1, hsl]; exact hp)] at hF
    rw [hF, hval]
    unfold avgRank cLt cLe
    rw [(sortedVals_perm y).countP_eq, (sortedVals_perm y).countP_eq]
  · rw [List.getElem?_eq_none (by omega), List.getElem?_eq_none (by rw [List.length_map]; omega)]

/-! ### consequences: rank sum, permutation invariance -/

theorem fsum_real (l : List ℝ) : fsum (RFun.sumZero : ℝ) l = l.sum := by
  unfold fsum
  rw [rfun_sumZero, List.sum_eq_foldl]

theorem countP_lt_add_ge (y : List ℝ) (v : ℝ) :
    y.countP (fun w => decide (w < v)) + y.countP (fun w => decide (v ≤ w)) = y.length := by
  induction y with
  | nil => simp
  | cons a t ih =>
    simp only [List.countP_cons, List.length_cons, decide_eq_true_eq]
    by_cases h : a < v
    · rw [if_pos h, if_neg (not_le.2 h)]; omega
    · rw [if_neg h, if_pos (not_lt.1 h)]; omega

theorem sum_counts (y : List ℝ) :
    (y.map (fun v => y.countP (fun w => decide (w < v)))).sum
      + (y.map (fun v => y.countP (fun w => decide (w ≤ v)))).sum = y.length * y.length := by
  rw [sum_countP_comm (fun w v => decide (w ≤ v)) y y, ← List.sum_map_add]
  have : (y.map (fun v => y.countP (fun w => decide (w < v)) + y.countP (fun w => decide (v ≤ w))))
      = y.map (fun _ => y.length) := by
    apply List.map_congr_left
    intro v _
    exact countP_lt_add_ge y v
  rw [this, List.map_const', List.sum_replicate, smul_eq_mul]

theorem sum_map_avgRank (l y : List ℝ) :
    (l.map (avgRank y)).sum
      = ((((l.map (fun v => y.countP (fun w => decide (w < v)))).sum : ℕ) : ℝ)
          + (((l.map (fun v => y.countP (fun w => decide (w ≤ v)))).sum : ℕ) : ℝ) + (l.length : ℝ)) / 2 := by
  induction l with
  | nil => simp
  | cons a t ih =>
    simp only [List.map_cons, List.sum_cons, ih, List.length_cons]
    unfold avgRank
    push_cast
    ring

/-- the average ranks of a sample of size `n` sum to `n(n+1)/2` -/
theorem sum_avgRank (y : List ℝ) :
    (y.map (avgRank y)).sum = (y.length : ℝ) * ((y.length : ℝ) + 1) / 2 := by
  rw [sum_map_avgRank]
  have := sum_counts y
  have h2 : ((((y.map (fun v => y.countP (fun w => decide (w < v)))).sum : ℕ) : ℝ)
      + (((y.map (fun v => y.countP (fun w => decide (w ≤ v)))).sum : ℕ) : ℝ)) = (y.length : ℝ) * (y.length : ℝ) := by
    exact_mod_cast this
  rw [h2]; ring

theorem avgRank_perm {y y' : List ℝ} (h : y'.Perm y) : avgRank y' = avgRank y := by
  funext v
  unfold avgRank
  rw [h.countP_eq, h.countP_eq]

theorem tieVec_perm {y y' : List ℝ} (h : y'.Perm y) : tieVec y' = tieVec y := by
  unfold tieVec
  rw [sortedVals_eq_of_perm h]

/-! ### the tie vector -/

/-- multiplicity of `v` -/
noncomputable def mult (y : List ℝ) (v : ℝ) : ℕ := y.countP (fun w => decide (w = v))

theorem cLe_eq (s : List ℝ) (v : ℝ) : cLe s v = cLt s v + mult s v := by
  unfold cLe cLt mult
  induction s with
  | nil => simp
  | cons a t ih =>
    simp only [List.countP_cons, ih, decide_eq_true_eq]
    rcases lt_trichotomy a v with h | h | h
    · rw [if_pos (le_of_lt h), if_pos h, if_neg (ne_of_lt h)]; omega
    · rw [if_pos (le_of_eq h), if_neg (by rw [h]; exact lt_irrefl _), if_pos h]; omega
    · rw [if_neg (not_le.2 h), if_neg (not_lt.2 (le_of_lt h)), if_neg (ne_of_gt h)]; omega

/-- in a sorted list, position `#{< v}` is the first occurrence of `v` -/
theorem cLt_pos (s : List ℝ) (hs : SortedG s) (v : ℝ) (hv : v ∈ s) :
    cLt s v < s.length ∧ g s (cLt s v) = v := by
  classical
  obtain ⟨q, hq, hqe⟩ := List.getElem_of_mem hv
  have hex : ∃ p, p < s.length ∧ g s p = v := ⟨q, hq, by rw [g_eq s q hq]; exact hqe⟩
  have ha := Nat.find_spec hex
  have hmin := fun p (hp : p < Nat.find hex) => Nat.find_min hex hp
  have : cLt s v = Nat.find hex := by
    apply countP_prefix _ _ _ (le_of_lt ha.1)
    intro p hp
    rw [← g_eq s p hp, decide_eq_true_eq]
    constructor
    · intro h
      by_contra hp'
      have := hs (Nat.find hex) p (by omega) hp
      rw [ha.2] at this
      exact absurd this (not_le.2 h)
    · intro hp'
      have h1 := hs p (Nat.find hex) (le_of_lt hp') ha.1
      rw [ha.2] at h1
      exact lt_of_le_of_ne h1 (fun e => hmin p hp' ⟨hp, e⟩)
  rw [this]; exact ha

theorem tieVec_spec (y : List ℝ) (hy : y ≠ []) :
    (tieVec y).length = y.length ∧
    ∀ p, p < y.length → listGet (tieVec y) (p : Int)
      = if cLt (sortedVals y) (g (sortedVals y) p) = p then ((mult y (g (sortedVals y) p) : ℕ) : Int) else 0 := by
  have hn : 1 ≤ y.length := by
    cases y with
    | nil => exact absurd rfl hy
    | cons a t => simp
  have hsl : (sortedVals y).length = y.length := (sortedVals_perm y).length_eq
  obtain ⟨l1, l2, hfin⟩ := mwuSorted_spec (sortedVals y) (sortedG_of_pairwise _ (sortedVals_pairwise y))
    (by omega)
  refine ⟨by unfold tieVec; rw [l2, hsl], ?_⟩
  intro p hp
  have := (hfin p (by omega)).2
  unfold tieVec
  rw [this, cLe_eq]
  have : mult (sortedVals y) (g (sortedVals y) p) = mult y (g (sortedVals y) p) := by
    unfold mult; rw [(sortedVals_perm y).countP_eq]
  rw [this]
  split_ifs
  · push_cast; ring
  · rfl

theorem tieVec_nonneg (y : List ℝ) (hy : y ≠ []) : ∀ x ∈ tieVec y, (0 : Int) ≤ x := by
  obtain ⟨hl, hsp⟩ := tieVec_spec y hy
  intro x hx
  obtain ⟨p, hp, rfl⟩ := List.getElem_of_mem hx
  rw [← listGet_nat_lt _ p hp, hsp p (by omega)]
  split_ifs
  · exact Int.natCast_nonneg _
  · exact le_refl _

/-- the tie vector has an entry `> 1` iff some value occurs at least twice -/
theorem tieVec_any (y : List ℝ) (hy : y ≠ []) :
    (tieVec y).any (fun x => decide ((1 : Int) < x)) = true ↔ ∃ v ∈ y, 2 ≤ mult y v := by
  obtain ⟨hl, hsp⟩ := tieVec_spec y hy
  have hsl : (sortedVals y).length = y.length := (sortedVals_perm y).length_eq
  rw [List.any_eq_true]
  constructor
  · rintro ⟨x, hx, h1⟩
    obtain ⟨p, hp, rfl⟩ := List.getElem_of_mem hx
    rw [← listGet_nat_lt _ p hp, hsp p (by omega)] at h1
    simp only [decide_eq_true_eq] at h1
    split_ifs at h1 with hc
    · refine ⟨g (sortedVals y) p, ?_, by omega⟩
      apply (sortedVals_perm y).mem_iff.1
      rw [g_eq _ _ (by omega)]
      exact List.getElem_mem _
    · omega
  · rintro ⟨v, hv, h2⟩
    have hvs : v ∈ sortedVals y := (sortedVals_perm y).mem_iff.2 hv
    obtain ⟨hlt, hge⟩ := cLt_pos (sortedVals y) (sortedG_of_pairwise _ (sortedVals_pairwise y)) v hvs
    refine ⟨listGet (tieVec y) ((cLt (sortedVals y) v : ℕ) : Int), ?_, ?_⟩
    · rw [listGet_nat_lt _ _ (by omega)]
      exact List.getElem_mem _
    · rw [hsp _ (by omega), hge, if_pos rfl]
      simp only [decide_eq_true_eq]
      omega

/-- sums over the tie vector: only the first position of each run contributes, with the
    multiplicity of its value -/
theorem tieVec_sum (y : List ℝ) (hy : y ≠ []) (f : Int → Int) (hf : f 0 = 0) :
    ((tieVec y).map f).sum = ∑ v ∈ y.toFinset, f ((mult y v : ℕ) : Int) := by
  classical
  obtain ⟨hl, hsp⟩ := tieVec_spec y hy
  have hsl : (sortedVals y).length = y.length := (sortedVals_perm y).length_eq
  have hsG := sortedG_of_pairwise _ (sortedVals_pairwise y)
  set s := sortedVals y with hs
  have ht : tieVec y = (List.range y.length).map (fun (p : ℕ) => listGet (tieVec y) (p : Int)) := by
    apply List.ext_getElem
    · simp [hl]
    · intro i h1 h2
      simp only [List.getElem_map, List.getElem_range]
      rw [listGet_nat_lt _ i h1]
  rw [ht, List.map_map, ← List.sum_toFinset _ (List.nodup_range), List.toFinset_range]
  have hmaps : ∀ p ∈ Finset.range y.length, g s p ∈ y.toFinset := by
    intro p hp
    rw [Finset.mem_range] at hp
    rw [List.mem_toFinset]
    apply (sortedVals_perm y).mem_iff.1
    rw [g_eq _ _ (by omega)]
    exact List.getElem_mem _
  rw [← Finset.sum_fiberwise_of_maps_to hmaps]
  apply Finset.sum_congr rfl
  intro v hv
  rw [List.mem_toFinset] at hv
  have hvs : v ∈ s := (sortedVals_perm y).mem_iff.2 hv
  obtain ⟨hlt, hge⟩ := cLt_pos s hsG v hvs
  rw [Finset.sum_filter]
  rw [Finset.sum_congr rfl (g := fun p => if p = cLt s v then f ((mult y v : ℕ) : Int) else 0)]
  · rw [Finset.sum_ite_eq', if_pos (Finset.mem_range.2 (by omega))]
  · intro p hp
    rw [Finset.mem_range] at hp
    simp only [Function.comp]
    rw [hsp p hp]
    by_cases hgv : g s p = v
    · rw [if_pos hgv, hgv]
      by_cases hc : cLt s v = p
      · rw [if_pos hc, if_pos hc.symm]
      · rw [if_neg hc, if_neg (fun e => hc e.symm), hf]
    · rw [if_neg hgv, if_neg]
      intro e
      exact hgv (by rw [e]; exact hge)

end Statrs.Lemmas.RankMWU
