/-
  Lemmas about the list helpers of `Statrs.Model.RankTests`: `sortBy` (= Mathlib's
  `List.insertionSort`), its stability on index-enumerated lists, `listEnum`, `listFill`,
  and counting in sorted lists.
-/
import Mathlib.Data.List.Sort
import Mathlib.Tactic
import Statrs.Model.RankTests
import Statrs.Lemmas.Select
namespace Statrs.Lemmas.RankSort
open Statrs Statrs.Model Statrs.Lemmas.Select

section sort
variable {β : Type}

theorem insertBy_eq (le : β → β → Bool) (a : β) (l : List β) :
    insertBy le a l = List.orderedInsert (fun x y => le x y = true) a l := by
  induction l with
  | nil => rfl
  | cons b t ih =>
    by_cases h : le a b = true
    · simp [insertBy, List.orderedInsert, h]
    · simp [insertBy, List.orderedInsert, h, ih]

theorem sortBy_eq (le : β → β → Bool) (l : List β) :
    sortBy le l = List.insertionSort (fun x y => le x y = true) l := by
  induction l with
  | nil => rfl
  | cons a t ih => simp [sortBy, List.insertionSort, ih, insertBy_eq]

theorem sortBy_perm (le : β → β → Bool) (l : List β) : (sortBy le l).Perm l := by
  rw [sortBy_eq]; exact List.perm_insertionSort _ l

theorem sortBy_length (le : β → β → Bool) (l : List β) : (sortBy le l).length = l.length :=
  (sortBy_perm le l).length_eq

theorem mem_sortBy (le : β → β → Bool) (l : List β) (x : β) : x ∈ sortBy le l ↔ x ∈ l :=
  (sortBy_perm le l).mem_iff

theorem mem_insertBy (le : β → β → Bool) (a x : β) (l : List β) :
    x ∈ insertBy le a l ↔ x = a ∨ x ∈ l := by
  rw [insertBy_eq]; exact List.mem_orderedInsert _

/-- the result of `sortBy` is sorted when `le` is total and transitive -/
theorem sortBy_pairwise (le : β → β → Bool) (htot : ∀ a b, le a b = true ∨ le b a = true)
    (htr : ∀ a b c, le a b = true → le b c = true → le a c = true) (l : List β) :
    (sortBy le l).Pairwise (fun x y => le x y = true) := by
  rw [sortBy_eq]
  have : Std.Total (fun x y : β => le x y = true) := ⟨htot⟩
  have : IsTrans β (fun x y : β => le x y = true) := ⟨htr⟩
  exact List.pairwise_insertionSort _ l

/-- sorting two permutations of each other gives the same list when `le` is a total order -/
theorem sortBy_eq_of_perm (le : β → β → Bool) (htot : ∀ a b, le a b = true ∨ le b a = true)
    (htr : ∀ a b c, le a b = true → le b c = true → le a c = true)
    (hanti : ∀ a b, le a b = true → le b a = true → a = b) {l₁ l₂ : List β} (h : l₁.Perm l₂) :
    sortBy le l₁ = sortBy le l₂ := by
  have : Std.Antisymm (fun x y : β => le x y = true) := ⟨hanti⟩
  exact List.Perm.eq_of_pairwise' (r := fun x y => le x y = true)
    (sortBy_pairwise le htot htr l₁) (sortBy_pairwise le htot htr l₂)
    (((sortBy_perm le l₁).trans h).trans (sortBy_perm le l₂).symm)

/-- an already sorted list is left alone -/
theorem sortBy_of_pairwise (le : β → β → Bool) {l : List β}
    (h : l.Pairwise (fun x y => le x y = true)) : sortBy le l = l := by
  rw [sortBy_eq]; exact List.Pairwise.insertionSort_eq h

end sort

section stable
variable {γ : Type} [LinearOrder γ]

/-- the strict lexicographic order on `(index, value)` pairs: by value, then by index -/
def lexLt (a b : Int × γ) : Prop := a.2 < b.2 ∨ (a.2 = b.2 ∧ a.1 < b.1)

theorem lexLt_trans {a b c : Int × γ} (h1 : lexLt a b) (h2 : lexLt b c) : lexLt a c := by
  unfold lexLt at *
  rcases h1 with h1 | ⟨h1, h1'⟩ <;> rcases h2 with h2 | ⟨h2, h2'⟩
  · exact Or.inl (lt_trans h1 h2)
  · exact Or.inl (h2 ▸ h1)
  · exact Or.inl (h1 ▸ h2)
  · exact Or.inr ⟨h1.trans h2, lt_trans h1' h2'⟩

theorem lexLt_irrefl (a : Int × γ) : ¬ lexLt a a := by
  unfold lexLt; rintro (h | ⟨_, h⟩) <;> exact lt_irrefl _ h

theorem lexLt_asymm {a b : Int × γ} (h1 : lexLt a b) : ¬ lexLt b a :=
  fun h2 => lexLt_irrefl a (lexLt_trans h1 h2)

theorem insertBy_lex (le : (Int × γ) → (Int × γ) → Bool)
    (hle : ∀ a b, le a b = true ↔ a.2 ≤ b.2) (a : Int × γ) (s : List (Int × γ))
    (hs : s.Pairwise lexLt) (ha : ∀ b ∈ s, a.1 < b.1) : (insertBy le a s).Pairwise lexLt := by
  induction s with
  | nil => simp [insertBy]
  | cons b t ih =>
    rw [List.pairwise_cons] at hs
    by_cases h : le a b = true
    · have hab : lexLt a b := by
        have := (hle a b).1 h
        rcases lt_or_eq_of_le this with h' | h'
        · exact Or.inl h'
        · exact Or.inr ⟨h', ha b (List.mem_cons_self)⟩
      simp only [insertBy, h, if_true]
      refine List.pairwise_cons.2 ⟨?_, List.pairwise_cons.2 hs⟩
      intro c hc
      rcases List.mem_cons.1 hc with rfl | hc
      · exact hab
      · exact lexLt_trans hab (hs.1 c hc)
    · have hba : lexLt b a := by
        have : ¬ a.2 ≤ b.2 := fun h' => h ((hle a b).2 h')
        exact Or.inl (lt_of_not_ge this)
      simp only [insertBy, h]
      refine List.pairwise_cons.2 ⟨?_, ih hs.2 (fun c hc => ha c (List.mem_cons_of_mem _ hc))⟩
      intro c hc
      rcases (mem_insertBy le a c t).1 hc with rfl | hc
      · exact hba
      · exact hs.1 c hc

/-- STABILITY: sorting by value a list whose indices increase gives a list that is strictly
    increasing in `(value, index)` -/
theorem sortBy_lex (le : (Int × γ) → (Int × γ) → Bool)
    (hle : ∀ a b, le a b = true ↔ a.2 ≤ b.2) (l : List (Int × γ))
    (hl : l.Pairwise (fun a b => a.1 < b.1)) : (sortBy le l).Pairwise lexLt := by
  induction l with
  | nil => simp [sortBy]
  | cons a t ih =>
    rw [List.pairwise_cons] at hl
    exact insertBy_lex le hle a _ (ih hl.2) (fun b hb => hl.1 b ((mem_sortBy le t b).1 hb))

/-- in a strictly sorted list the position of an element is the number of smaller elements -/
theorem countP_lt_getElem {δ : Type} (lt : δ → δ → Prop) [DecidableRel lt]
    (hirr : ∀ a, ¬ lt a a) (hasym : ∀ a b, lt a b → ¬ lt b a)
    (s : List δ) (hs : s.Pairwise lt) (k : ℕ) (hk : k < s.length) :
    s.countP (fun e => decide (lt e s[k])) = k := by
  induction s generalizing k with
  | nil => simp at hk
  | cons a t ih =>
    rw [List.pairwise_cons] at hs
    cases k with
    | zero =>
      simp only [List.getElem_cons_zero]
      rw [List.countP_cons_of_neg (by simpa using hirr a)]
      rw [List.countP_eq_zero]
      intro b hb
      simpa using hasym a b (hs.1 b hb)
    | succ k =>
      simp only [List.getElem_cons_succ]
      have hk' : k < t.length := by simpa using hk
      rw [List.countP_cons_of_pos (by simpa using hs.1 _ (List.getElem_mem hk'))]
      rw [ih hs.2 k hk']

end stable

section enum
variable {β : Type}

theorem listEnum_length (l : List β) : (listEnum l).length = l.length := by
  simp [listEnum]

theorem listEnum_getElem (l : List β) (k : ℕ) (hk : k < l.length) :
    (listEnum l)[k]'(by rw [listEnum_length]; exact hk) = ((k : Int), l[k]) := by
  simp [listEnum]

theorem listEnum_map_snd (l : List β) : (listEnum l).map Prod.snd = l := by
  simp only [listEnum, List.map_map]
  have : (Prod.snd ∘ fun (p : ℕ × β) => ((p.1 : Int), p.2)) = Prod.snd := by funext p; rfl
  rw [this]
  exact List.map_snd_zip (by simp)

theorem listEnum_map_fst (l : List β) :
    (listEnum l).map Prod.fst = (List.range l.length).map (fun (i : ℕ) => (i : Int)) := by
  simp only [listEnum, List.map_map]
  have : (Prod.fst ∘ fun (p : ℕ × β) => ((p.1 : Int), p.2)) = (fun (i : ℕ) => (i : Int)) ∘ Prod.fst := by
    funext p; rfl
  rw [this, ← List.map_map, List.map_fst_zip (by simp)]

theorem listEnum_pairwise_fst (l : List β) : (listEnum l).Pairwise (fun a b => a.1 < b.1) := by
  have h : ((listEnum l).map Prod.fst).Pairwise (· < ·) := by
    rw [listEnum_map_fst, List.pairwise_map]
    exact List.pairwise_lt_range.imp (by intro a b h; exact_mod_cast h)
  exact (List.pairwise_map.1 h)

theorem mem_listEnum (l : List β) (p : Int × β) :
    p ∈ listEnum l ↔ ∃ k : ℕ, ∃ hk : k < l.length, p = ((k : Int), l[k]) := by
  constructor
  · intro h
    obtain ⟨k, hk, rfl⟩ := List.getElem_of_mem h
    rw [listEnum_length] at hk
    exact ⟨k, hk, listEnum_getElem l k hk⟩
  · rintro ⟨k, hk, rfl⟩
    rw [← listEnum_getElem l k hk]
    exact List.getElem_mem _

/-- counting over the enumeration with a predicate on the value is counting over the list -/
theorem countP_listEnum_snd (l : List β) (p : β → Bool) :
    (listEnum l).countP (fun e => p e.2) = l.countP p := by
  have := List.countP_map (p := p) (f := Prod.snd) (l := listEnum l)
  rw [listEnum_map_snd] at this
  rw [this]; rfl

end enum

end Statrs.Lemmas.RankSort
