/-
  Helper lemmas for C10 / C07 (related distributions, moments): float literals over ℝ,
  affine-map order facts, square-root facts.
-/
import Statrs.Real.Simp
import Mathlib.Tactic
import Mathlib.Algebra.Order.Interval.Finset.SuccPred
import Mathlib.Analysis.SpecialFunctions.Trigonometric.Arctan
namespace Statrs.Lemmas.Related
open Statrs

theorem lit_0 : (0.0 : ℝ) = 0 := by norm_num
theorem lit_1 : (1.0 : ℝ) = 1 := by norm_num
theorem lit_2 : (2.0 : ℝ) = 2 := by norm_num
theorem lit_3 : (3.0 : ℝ) = 3 := by norm_num
theorem lit_4 : (4.0 : ℝ) = 4 := by norm_num
theorem lit_5 : (5.0 : ℝ) = 5 := by norm_num
theorem lit_6 : (6.0 : ℝ) = 6 := by norm_num
theorem lit_8 : (8.0 : ℝ) = 8 := by norm_num
theorem lit_12 : (12.0 : ℝ) = 12 := by norm_num
theorem lit_18 : (18.0 : ℝ) = 18 := by norm_num
theorem lit_80 : (80.0 : ℝ) = 80 := by norm_num
theorem lit_160 : (160.0 : ℝ) = 160 := by norm_num
theorem lit_half : (0.5 : ℝ) = 1 / 2 := by norm_num
theorem lit_3half : (1.5 : ℝ) = 3 / 2 := by norm_num
theorem lit_1e8 : (1e8 : ℝ) = 100000000 := by norm_num

/-- rewrite the float literals occurring in the generated distribution code into numerals -/
macro "lit_norm" : tactic => `(tactic| (try simp only [lit_0, lit_1, lit_2, lit_3, lit_4, lit_5,
  lit_6, lit_8, lit_12, lit_18, lit_80, lit_160, lit_half, lit_3half, lit_1e8] at *))

theorem aff_le_left (a w z : ℝ) (hw : 0 < w) : (a + w * z ≤ a) ↔ (z ≤ 0) := by
  constructor
  · intro h; by_contra hz; rw [not_le] at hz; nlinarith [mul_pos hw hz]
  · intro h; nlinarith [mul_nonneg hw.le (neg_nonneg.mpr h)]

theorem aff_lt_left (a w z : ℝ) (hw : 0 < w) : (a + w * z < a) ↔ (z < 0) := by
  constructor
  · intro h; by_contra hz; rw [not_lt] at hz; nlinarith [mul_nonneg hw.le hz]
  · intro h; nlinarith [mul_pos hw (neg_pos.mpr h)]

theorem aff_le_aff (a w z m : ℝ) (hw : 0 < w) : (a + w * z ≤ a + w * m) ↔ (z ≤ m) := by
  constructor
  · intro h; have : w * z ≤ w * m := by linarith
    exact le_of_mul_le_mul_left this hw
  · intro h; have := mul_le_mul_of_nonneg_left h hw.le; linarith

theorem aff_lt_aff (a w z m : ℝ) (hw : 0 < w) : (a + w * z < a + w * m) ↔ (z < m) := by
  constructor
  · intro h; have : w * z < w * m := by linarith
    exact lt_of_mul_lt_mul_left this hw.le
  · intro h; have := mul_lt_mul_of_pos_left h hw; linarith

theorem sqrt_sq_mul (w t : ℝ) (hw : 0 ≤ w) : Real.sqrt (w * w * t) = w * Real.sqrt t := by
  rw [Real.sqrt_mul (mul_self_nonneg w), Real.sqrt_mul_self hw]

/-- `(sqrt v)² = v` for `v ≥ 0`, the shape every default `std_dev` needs -/
theorem sqrt_mul_self_eq (v : ℝ) (hv : 0 ≤ v) : Real.sqrt v * Real.sqrt v = v :=
  Real.mul_self_sqrt hv

/-! ### finite sums over integer intervals -/
section sums
open Finset

theorem sum_Icc_succ (f : ℤ → ℝ) (a b : ℤ) (h : a ≤ b + 1) :
    ∑ k ∈ Icc a (b + 1), f k = ∑ k ∈ Icc a b, f k + f (b + 1) := by
  rw [← Finset.insert_Icc_right_eq_Icc_add_one h, Finset.sum_insert (by simp), add_comm]

theorem sum_Icc_id (a b : ℤ) (h : a ≤ b) :
    ∑ k ∈ Icc a b, (k : ℝ) = ((a : ℝ) + b) * ((b : ℝ) - a + 1) / 2 := by
  induction b, h using Int.leInduction with
  | base => simp
  | succ n hn ih =>
    rw [sum_Icc_succ _ _ _ (by omega), ih]; push_cast; ring

theorem sum_Icc_sq (a b : ℤ) (h : a ≤ b) :
    ∑ k ∈ Icc a b, (k : ℝ) * (k : ℝ) =
      ((b : ℝ) * (b + 1) * (2 * b + 1) - ((a : ℝ) - 1) * a * (2 * a - 1)) / 6 := by
  induction b, h using Int.leInduction with
  | base => simp; ring
  | succ n hn ih =>
    rw [sum_Icc_succ _ _ _ (by omega), ih]; push_cast; ring

theorem sum_Icc_const (a b : ℤ) (h : a ≤ b) (c : ℝ) :
    ∑ _k ∈ Icc a b, c = ((b : ℝ) - a + 1) * c := by
  rw [Finset.sum_const, Int.card_Icc, nsmul_eq_mul]
  have : ((b + 1 - a).toNat : ℝ) = (b : ℝ) - a + 1 := by
    have h2 : ((b + 1 - a).toNat : ℤ) = b + 1 - a := Int.toNat_of_nonneg (by omega)
    have : (((b + 1 - a).toNat : ℤ) : ℝ) = ((b + 1 - a : ℤ) : ℝ) := by rw [h2]
    push_cast at this; rw [this]; ring
  rw [this]

end sums

/-! ### arcsine / arctangent (Student t with one degree of freedom) -/
section trig
open Real

theorem arcsin_inv_sqrt_of_nonneg (k : ℝ) (hk : 0 ≤ k) :
    arcsin (√(1 / (1 + k * k))) = π / 2 - arctan k := by
  have hpos : 0 < 1 + k ^ 2 := by positivity
  have hs : 0 < √(1 + k ^ 2) := Real.sqrt_pos.mpr hpos
  have hx : 0 ≤ k / √(1 + k ^ 2) := div_nonneg hk hs.le
  have key : 1 - (k / √(1 + k ^ 2)) ^ 2 = 1 / (1 + k * k) := by
    rw [div_pow, Real.sq_sqrt hpos.le]; field_simp; ring
  rw [arctan_eq_arcsin, ← arccos_eq_pi_div_two_sub_arcsin, arccos_eq_arcsin hx, key]

theorem arcsin_inv_sqrt_of_nonpos (k : ℝ) (hk : k ≤ 0) :
    arcsin (√(1 / (1 + k * k))) = π / 2 + arctan k := by
  have := arcsin_inv_sqrt_of_nonneg (-k) (by linarith)
  rw [arctan_neg] at this
  rw [show (-k) * (-k) = k * k by ring] at this
  rw [this]; ring

end trig

end Statrs.Lemmas.Related
