/-
  Helper lemmas for C07 (moments as integrals of the density): reduction of a full-line integral
  of a compactly supported, piecewise-polynomial function to interval integrals of polynomials,
  and the cubic antiderivative.
-/
import Mathlib.Tactic
import Mathlib.Analysis.SpecialFunctions.Integrals.Basic
import Mathlib.MeasureTheory.Integral.IntervalIntegral.FundThmCalculus
namespace Statrs.Lemmas.RelatedIntegrals
open MeasureTheory intervalIntegral Set

theorem integral_cubic (a b c0 c1 c2 c3 : ℝ) :
    ∫ x in a..b, (c0 + c1 * x + c2 * x ^ 2 + c3 * x ^ 3) =
      (c0 * b + c1 * b ^ 2 / 2 + c2 * b ^ 3 / 3 + c3 * b ^ 4 / 4)
      - (c0 * a + c1 * a ^ 2 / 2 + c2 * a ^ 3 / 3 + c3 * a ^ 4 / 4) := by
  have hd : ∀ x ∈ Set.uIcc a b, HasDerivAt
      (fun x : ℝ => c0 * x + c1 * x ^ 2 / 2 + c2 * x ^ 3 / 3 + c3 * x ^ 4 / 4)
      (c0 + c1 * x + c2 * x ^ 2 + c3 * x ^ 3) x := by
    intro x _
    have h1 : HasDerivAt (fun x : ℝ => c0 * x) c0 x := by simpa using (hasDerivAt_id x).const_mul c0
    have h2 : HasDerivAt (fun x : ℝ => c1 * x ^ 2 / 2) (c1 * x) x :=
      (((hasDerivAt_pow 2 x).const_mul c1).div_const 2).congr_deriv (by simp; ring)
    have h3 : HasDerivAt (fun x : ℝ => c2 * x ^ 3 / 3) (c2 * x ^ 2) x :=
      (((hasDerivAt_pow 3 x).const_mul c2).div_const 3).congr_deriv (by simp; ring)
    have h4 : HasDerivAt (fun x : ℝ => c3 * x ^ 4 / 4) (c3 * x ^ 3) x :=
      (((hasDerivAt_pow 4 x).const_mul c3).div_const 4).congr_deriv (by simp; ring)
    exact ((h1.add h2).add h3).add h4
  rw [integral_eq_sub_of_hasDerivAt hd (Continuous.intervalIntegrable (by fun_prop) _ _)]

/-- a function vanishing off `[a, b]` integrates over ℝ to its interval integral -/
theorem integral_eq_interval_of_support {g : ℝ → ℝ} {a b : ℝ} (hab : a ≤ b)
    (h0 : ∀ x, x ∉ Icc a b → g x = 0) : ∫ x, g x = ∫ x in a..b, g x := by
  rw [intervalIntegral.integral_of_le hab, ← integral_Icc_eq_integral_Ioc,
    setIntegral_eq_integral_of_forall_compl_eq_zero h0]

/-- one piece: `g` vanishes off `[a, b]` and is the continuous `f` on `(a, b)` -/
theorem integral_piecewise1 {g f : ℝ → ℝ} {a b : ℝ} (hab : a ≤ b)
    (h0 : ∀ x, x ∉ Icc a b → g x = 0) (h1 : ∀ x ∈ Ioo a b, g x = f x) :
    ∫ x, g x = ∫ x in a..b, f x := by
  rw [integral_eq_interval_of_support hab h0]
  apply integral_congr_uIoo
  rw [uIoo_of_le hab]; exact h1

/-- two pieces: `g` vanishes off `[a, b]`, is the continuous `f1` on `(a, c)` and `f2` on `(c, b)` -/
theorem integral_piecewise2 {g f1 f2 : ℝ → ℝ} {a c b : ℝ} (hac : a ≤ c) (hcb : c ≤ b)
    (h0 : ∀ x, x ∉ Icc a b → g x = 0)
    (h1 : ∀ x ∈ Ioo a c, g x = f1 x) (h2 : ∀ x ∈ Ioo c b, g x = f2 x)
    (hf1 : Continuous f1) (hf2 : Continuous f2) :
    ∫ x, g x = (∫ x in a..c, f1 x) + ∫ x in c..b, f2 x := by
  rw [integral_eq_interval_of_support (hac.trans hcb) h0]
  have e1 : EqOn f1 g (uIoo a c) := by rw [uIoo_of_le hac]; exact fun x hx => (h1 x hx).symm
  have e2 : EqOn f2 g (uIoo c b) := by rw [uIoo_of_le hcb]; exact fun x hx => (h2 x hx).symm
  have i1 : IntervalIntegrable g volume a c := (hf1.intervalIntegrable a c).congr_uIoo e1
  have i2 : IntervalIntegrable g volume c b := (hf2.intervalIntegrable c b).congr_uIoo e2
  rw [← integral_add_adjacent_intervals i1 i2, integral_congr_uIoo e1, integral_congr_uIoo e2]

end Statrs.Lemmas.RelatedIntegrals
