/-
  Statrs.Lemmas.Sampling — facts about the RNG primitives of `Statrs.Model.Rng` over ℝ, used by
  the C06 theorems: the exact value each primitive makes out of a word, its range, and the
  number of words consumed.
-/
import Statrs.Real.Simp
import Statrs.Model.Samplers
import Mathlib.Tactic
namespace Statrs.Lemmas.Sampling
open Statrs Statrs.Gen Statrs.Model

/-- Over ℝ `decrease_masked` is never reached on the paths the theorems cover
    (`scale * max_rand + low > high` is false in exact arithmetic; `scale` is always finite). -/
noncomputable instance instRngFloatReal : RngFloat ℝ := ⟨id⟩

/-! ### constants -/
theorem cScale53_real : (cScale53 : ℝ) = 1 / 2 ^ 53 := by unfold cScale53; norm_num
theorem cEps52_real : (cEps52 : ℝ) = 1 / 2 ^ 52 := by unfold cEps52; norm_num
theorem cOneMinusHalfEps_real : (cOneMinusHalfEps : ℝ) = 1 - 1 / 2 ^ 53 := by
  unfold cOneMinusHalfEps; norm_num
theorem cMaxRand_real : (cMaxRand : ℝ) = 1 - 1 / 2 ^ 52 := by unfold cMaxRand; norm_num
theorem cTwo64_real : (cTwo64 : ℝ) = 2 ^ 64 := by unfold cTwo64; norm_num

/-! ### the stream -/
@[simp] theorem nextU64_cons (w : Int) (t : List Int) : Rng.nextU64 ⟨w :: t⟩ = (w, ⟨t⟩) := rfl
@[simp] theorem nextU64_nil : Rng.nextU64 ⟨[]⟩ = (0, ⟨[]⟩) := rfl

theorem consumed_cons (w : Int) (t : List Int) : Rng.consumed ⟨w :: t⟩ ⟨t⟩ = 1 := by
  simp [Rng.consumed]

/-- `nextU64` consumes at most one word, and exactly one when the script is not exhausted -/
theorem nextU64_length (r : Rng) : (r.nextU64).2.ws.length = r.ws.length - 1 := by
  rcases r with ⟨ws⟩; cases ws <;> simp [Rng.nextU64]

/-! ### the unit-interval variates -/

/-- value of `rng.gen::<f64>()` on the word `w`: `(w >> 11) · 2⁻⁵³` -/
noncomputable def unit53 (w : Int) : ℝ := ((w / 2048 : Int) : ℝ) / 2 ^ 53
/-- value of `OpenClosed01` on the word `w`: `((w >> 11) + 1) · 2⁻⁵³` -/
noncomputable def unit53oc (w : Int) : ℝ := ((w / 2048 + 1 : Int) : ℝ) / 2 ^ 53
/-- value of `Open01` on the word `w`: `(2·(w >> 12) + 1) · 2⁻⁵³` -/
noncomputable def unit52o (w : Int) : ℝ := ((2 * (w / 4096) + 1 : Int) : ℝ) / 2 ^ 53
/-- value in `[0,1)` used by `UniformFloat`: `(w >> 12) · 2⁻⁵²` -/
noncomputable def unit52 (w : Int) : ℝ := ((w / 4096 : Int) : ℝ) / 2 ^ 52

theorem genF64_cons (w : Int) (t : List Int) :
    genF64 (α := ℝ) ⟨w :: t⟩ = (unit53 w, ⟨t⟩) := by
  simp only [genF64, nextU64_cons, cScale53_real, unit53, rfun_ofInt]
  congr 1; ring

theorem genOpenClosed01_cons (w : Int) (t : List Int) :
    genOpenClosed01 (α := ℝ) ⟨w :: t⟩ = (unit53oc w, ⟨t⟩) := by
  simp only [genOpenClosed01, nextU64_cons, cScale53_real, unit53oc, rfun_ofInt]
  congr 1; ring

theorem intoFloat12_real (k : Int) : intoFloat12 (α := ℝ) k = 1 + (k : ℝ) / 2 ^ 52 := by
  simp only [intoFloat12, cEps52_real, rfun_ofInt]; norm_num; ring

theorem genOpen01_cons (w : Int) (t : List Int) :
    genOpen01 (α := ℝ) ⟨w :: t⟩ = (unit52o w, ⟨t⟩) := by
  simp only [genOpen01, nextU64_cons, intoFloat12_real, cOneMinusHalfEps_real, unit52o]
  congr 1; push_cast; ring

theorem unit53_mem {w : Int} (h0 : 0 ≤ w) (h1 : w < 18446744073709551616) :
    0 ≤ unit53 w ∧ unit53 w < 1 := by
  have ha : 0 ≤ w / 2048 := by omega
  have hb : w / 2048 < 9007199254740992 := by omega
  have ha' : (0 : ℝ) ≤ ((w / 2048 : Int) : ℝ) := by exact_mod_cast ha
  have hb' : ((w / 2048 : Int) : ℝ) < 9007199254740992 := by exact_mod_cast hb
  unfold unit53
  constructor
  · positivity
  · rw [div_lt_one (by positivity)]; norm_num; linarith

/-- `gen::<f64>()` is `0` exactly for the words below `2^11` -/
theorem unit53_pos {w : Int} (h : 2048 ≤ w) : 0 < unit53 w := by
  have ha : 1 ≤ w / 2048 := by omega
  have ha' : (1 : ℝ) ≤ ((w / 2048 : Int) : ℝ) := by exact_mod_cast ha
  unfold unit53; positivity

theorem unit53oc_mem {w : Int} (h0 : 0 ≤ w) (h1 : w < 18446744073709551616) :
    0 < unit53oc w ∧ unit53oc w ≤ 1 := by
  have ha : 1 ≤ w / 2048 + 1 := by omega
  have hb : w / 2048 + 1 ≤ 9007199254740992 := by omega
  have ha' : (1 : ℝ) ≤ ((w / 2048 + 1 : Int) : ℝ) := by exact_mod_cast ha
  have hb' : ((w / 2048 + 1 : Int) : ℝ) ≤ 9007199254740992 := by exact_mod_cast hb
  push_cast at ha' hb'
  unfold unit53oc
  constructor
  · positivity
  · rw [div_le_one (by positivity)]; norm_num; linarith

/-- `OpenClosed01` returns exactly `1` on the top `2^11` words -/
theorem unit53oc_top {w : Int} (h0 : 18446744073709549568 ≤ w) (h1 : w < 18446744073709551616) :
    unit53oc w = 1 := by
  have : w / 2048 + 1 = 9007199254740992 := by omega
  unfold unit53oc; rw [this]; norm_num

theorem unit53oc_lt_one {w : Int} (h0 : 0 ≤ w) (h1 : w < 18446744073709549568) :
    unit53oc w < 1 := by
  have hb : w / 2048 + 1 < 9007199254740992 := by omega
  have ha : 1 ≤ w / 2048 + 1 := by omega
  have ha' : (1 : ℝ) ≤ ((w / 2048 + 1 : Int) : ℝ) := by exact_mod_cast ha
  have hb' : ((w / 2048 + 1 : Int) : ℝ) < 9007199254740992 := by exact_mod_cast hb
  push_cast at ha' hb'
  unfold unit53oc
  rw [div_lt_one (by positivity)]; norm_num; linarith

theorem unit52o_mem {w : Int} (h0 : 0 ≤ w) (h1 : w < 18446744073709551616) :
    0 < unit52o w ∧ unit52o w < 1 := by
  have ha : 1 ≤ 2 * (w / 4096) + 1 := by omega
  have hb : 2 * (w / 4096) + 1 < 9007199254740992 := by omega
  have ha' : (1 : ℝ) ≤ ((2 * (w / 4096) + 1 : Int) : ℝ) := by exact_mod_cast ha
  have hb' : ((2 * (w / 4096) + 1 : Int) : ℝ) < 9007199254740992 := by exact_mod_cast hb
  push_cast at ha' hb'
  unfold unit52o
  constructor
  · positivity
  · rw [div_lt_one (by positivity)]; norm_num; linarith

theorem unit52_mem {w : Int} (h0 : 0 ≤ w) (h1 : w < 18446744073709551616) :
    0 ≤ unit52 w ∧ unit52 w < 1 := by
  have ha : 0 ≤ w / 4096 := by omega
  have hb : w / 4096 < 4503599627370496 := by omega
  have ha' : (0 : ℝ) ≤ ((w / 4096 : Int) : ℝ) := by exact_mod_cast ha
  have hb' : ((w / 4096 : Int) : ℝ) < 4503599627370496 := by exact_mod_cast hb
  unfold unit52
  constructor
  · positivity
  · rw [div_lt_one (by positivity)]; norm_num; linarith

theorem unit52_pos {w : Int} (h : 4096 ≤ w) : 0 < unit52 w := by
  have ha : 1 ≤ w / 4096 := by omega
  have ha' : (1 : ℝ) ≤ ((w / 4096 : Int) : ℝ) := by exact_mod_cast ha
  unfold unit52; positivity

/-! ### `gen_range(low..high)` for f64 over ℝ: one word, `low + u·(high − low)` -/

theorem loopFuel_succ : loopFuel = 19999 + 1 := rfl

theorem genRangeF64_loop_cons (low high : ℝ) (h : low < high) (n : Nat) (w : Int) (t : List Int)
    (h0 : 0 ≤ w) (h1 : w < 18446744073709551616) :
    genRangeF64.loop (α := ℝ) low high (n + 1) (high - low) ⟨w :: t⟩
      = LoopR.ret (unit52 w * (high - low) + low, ⟨t⟩) := by
  obtain ⟨hu0, hu1⟩ := unit52_mem h0 h1
  have hv : intoFloat12 (α := ℝ) (w / 4096) - 1 = unit52 w := by
    rw [intoFloat12_real]; unfold unit52; ring
  have hres : unit52 w * (high - low) + low < high := by nlinarith
  have hlow : low ≤ unit52 w * (high - low) + low := by nlinarith
  rw [genRangeF64.loop]
  simp only [nextU64_cons, rfun_isFinite]
  norm_num [hv, hres, hlow]

theorem genRangeF64_cons (low high : ℝ) (h : low < high) (w : Int) (t : List Int)
    (h0 : 0 ≤ w) (h1 : w < 18446744073709551616) :
    genRangeF64 (α := ℝ) low high ⟨w :: t⟩ = (unit52 w * (high - low) + low, ⟨t⟩) := by
  simp only [genRangeF64, loopFuel_succ, genRangeF64_loop_cons low high h _ w t h0 h1, h,
    rfun_isFinite]
  simp

/-! ### `Uniform::new_inclusive(low, high)` + `sample` over ℝ -/

theorem uniformNewInclusive_real (low high : ℝ) (h : low ≤ high) :
    uniformNewInclusive (α := ℝ) low high = some ⟨low, (high - low) / (1 - 1 / 2 ^ 52)⟩ := by
  have hm : (0 : ℝ) < 1 - 1 / 2 ^ 52 := by norm_num
  have hle : ¬ (high < (high - low) / (1 - 1 / 2 ^ 52) * (1 - 1 / 2 ^ 52) + low) := by
    rw [div_mul_cancel₀ _ hm.ne']; linarith
  have hs : (0 : ℝ) ≤ (high - low) / (1 - 1 / 2 ^ 52) := div_nonneg (by linarith) hm.le
  have hloop : ∀ n : Nat, uniformNewInclusive.loop (α := ℝ) low high (1 - 1 / 2 ^ 52) (n + 1)
      ((high - low) / (1 - 1 / 2 ^ 52)) = LoopR.done ((high - low) / (1 - 1 / 2 ^ 52)) := by
    intro n
    simp only [uniformNewInclusive.loop, hle, if_false]
  simp only [uniformNewInclusive, loopFuel_succ, cMaxRand_real, hloop, rfun_isFinite, h]
  simp
  norm_num at hs ⊢
  exact hs

theorem uniformSample_cons (u : UniformFloat ℝ) (w : Int) (t : List Int) :
    uniformSample (α := ℝ) u ⟨w :: t⟩ = (unit52 w * u.scale + u.low, ⟨t⟩) := by
  have hv : intoFloat12 (α := ℝ) (w / 4096) - 1 = unit52 w := by
    rw [intoFloat12_real]; unfold unit52; ring
  simp only [uniformSample, nextU64_cons]
  rw [show ((1.0 : ℝ)) = 1 by norm_num, hv]

end Statrs.Lemmas.Sampling
