/-
  Statrs.Lemmas.Select — helper lemmas for C14 (order statistics): the list primitives of the
  model (`listGet`, `listSet`, `listSwap`) and the loop invariants of the generated quickselect
  `Data.select_inplace` (its lifted loops `loop213`, `loop215`, `loop112`, `loop1`) that make the
  selection a permutation of the buffer.  Everything here is for EVERY carrier `α`; the only order
  law used is spelled out as the hypothesis `DataOK` (each entry is `≤`-reflexive or NaN-like).
-/
import Statrs.Basic
import Statrs.Gen.S_slice_statistics
import Mathlib.Data.List.Perm.Basic
import Mathlib.Tactic
set_option linter.unusedSectionVars false
namespace Statrs.Lemmas.Select
open Statrs Statrs.Gen

/-! ### list primitives -/
section lists
variable {β : Type} [Inhabited β]

theorem listGet_nat (l : List β) (a : ℕ) : listGet l (a : Int) = l.getD a default := by
  unfold listGet
  have : ¬ ((a : Int) < 0) := by omega
  simp [this]

theorem listGet_nat_lt (l : List β) (a : ℕ) (h : a < l.length) : listGet l (a : Int) = l[a] := by
  rw [listGet_nat, List.getD_eq_getElem?_getD, List.getElem?_eq_getElem h]; rfl

theorem listSet_nat (l : List β) (a : ℕ) (v : β) : listSet l (a : Int) v = l.set a v := by
  unfold listSet
  have : ¬ ((a : Int) < 0) := by omega
  simp [this]

theorem listSet_neg (l : List β) (i : Int) (v : β) (h : i < 0) : listSet l i v = l := by
  unfold listSet; simp [h]

theorem listGet_neg (l : List β) (i : Int) (h : i < 0) : listGet l i = default := by
  unfold listGet; simp [h]

theorem listGet_ge (l : List β) (i : Int) (h : (l.length : Int) ≤ i) : listGet l i = default := by
  have h0 : 0 ≤ i := le_trans (by omega) h
  lift i to ℕ using h0
  rw [listGet_nat, List.getD_eq_getElem?_getD, List.getElem?_eq_none (by omega)]; rfl

theorem listSet_ge (l : List β) (i : Int) (v : β) (h : (l.length : Int) ≤ i) : listSet l i v = l := by
  have h0 : 0 ≤ i := le_trans (by omega) h
  lift i to ℕ using h0
  rw [listSet_nat, List.set_eq_of_length_le (by omega)]

@[simp] theorem listSet_length (l : List β) (i : Int) (v : β) :
    (listSet l i v).length = l.length := by
  unfold listSet; split <;> simp

@[simp] theorem listSwap_length (l : List β) (i j : Int) : (listSwap l i j).length = l.length := by
  unfold listSwap; simp

/-- an in-range read returns a member of the list -/
theorem listGet_mem (l : List β) (i : Int) (h0 : 0 ≤ i) (h1 : i < l.length) : listGet l i ∈ l := by
  lift i to ℕ using h0
  have h : i < l.length := by omega
  rw [listGet_nat_lt l i h]; exact List.getElem_mem h

theorem listGet_listSet_ne (l : List β) (i k : Int) (v : β) (h : k ≠ i) :
    listGet (listSet l i v) k = listGet l k := by
  by_cases hi : i < 0
  · rw [listSet_neg l i v hi]
  by_cases hk : k < 0
  · rw [listGet_neg _ _ hk, listGet_neg _ _ hk]
  have hi0 : 0 ≤ i := by omega
  have hk0 : 0 ≤ k := by omega
  lift i to ℕ using hi0
  lift k to ℕ using hk0
  have hne : i ≠ k := fun e => h (by rw [e])
  rw [listSet_nat, listGet_nat, listGet_nat, List.getD_eq_getElem?_getD, List.getD_eq_getElem?_getD,
    List.getElem?_set_ne hne]

theorem listGet_listSet_eq (l : List β) (i : Int) (v : β) (h0 : 0 ≤ i) (h1 : i < l.length) :
    listGet (listSet l i v) i = v := by
  lift i to ℕ using h0
  have h : i < l.length := by omega
  rw [listSet_nat, listGet_nat_lt _ _ (by simpa using h)]; simp

theorem listGet_listSwap_ne (l : List β) (i j k : Int) (hi : k ≠ i) (hj : k ≠ j) :
    listGet (listSwap l i j) k = listGet l k := by
  unfold listSwap
  rw [listGet_listSet_ne _ _ _ _ hj, listGet_listSet_ne _ _ _ _ hi]

theorem listGet_listSwap_right (l : List β) (i j : Int) (h0 : 0 ≤ j) (h1 : j < l.length) :
    listGet (listSwap l i j) j = listGet l i := by
  unfold listSwap
  rw [listGet_listSet_eq _ _ _ h0 (by simpa using h1)]

theorem listGet_listSwap_left (l : List β) (i j : Int) (h0 : 0 ≤ i) (h1 : i < l.length) :
    listGet (listSwap l i j) i = listGet l j := by
  by_cases hij : i = j
  · subst hij; exact listGet_listSwap_right l i i h0 h1
  · unfold listSwap
    rw [listGet_listSet_ne _ _ _ _ hij, listGet_listSet_eq _ _ _ h0 h1]

/-- swapping two in-range cells permutes the list -/
theorem set_set_perm (l : List β) (a b : ℕ) (ha : a < l.length) (hb : b < l.length) :
    ((l.set a l[b]).set b l[a]).Perm l := by
  classical
  rw [List.perm_iff_count]
  intro x
  have hb' : b < (l.set a l[b]).length := by simpa using hb
  rw [List.count_set hb', List.count_set ha, List.getElem_set]
  have h1 : 1 ≤ List.count l[a] l := List.count_pos_iff.2 (List.getElem_mem ha)
  have h2 : 1 ≤ List.count l[b] l := List.count_pos_iff.2 (List.getElem_mem hb)
  by_cases hxa : l[a] = x <;> by_cases hxb : l[b] = x <;> by_cases hab : a = b <;>
    simp [hxa, hxb, hab] <;> (try subst hxa) <;> (try subst hxb) <;> omega

/-- `listSwap` with both indices in range is a permutation -/
theorem listSwap_perm (l : List β) (i j : Int) (hi0 : 0 ≤ i) (hi : i < l.length)
    (hj0 : 0 ≤ j) (hj : j < l.length) : (listSwap l i j).Perm l := by
  lift i to ℕ using hi0
  lift j to ℕ using hj0
  have hi' : i < l.length := by omega
  have hj' : j < l.length := by omega
  unfold listSwap
  rw [listSet_nat, listSet_nat, listGet_nat_lt l i hi', listGet_nat_lt l j hj']
  exact set_set_perm l i j hi' hj'

/-- `listSwap` with both indices out of range leaves the list unchanged -/
theorem listSwap_out_out (l : List β) (i j : Int) (hi : i < 0 ∨ (l.length : Int) ≤ i)
    (hj : j < 0 ∨ (l.length : Int) ≤ j) : listSwap l i j = l := by
  show listSet (listSet l i (listGet l j)) j (listGet l i) = l
  have e1 : ∀ v, listSet l i v = l := fun v => by
    rcases hi with h | h
    · exact listSet_neg l i v h
    · exact listSet_ge l i v h
  rw [e1]
  rcases hj with h | h
  · exact listSet_neg l j _ h
  · exact listSet_ge l j _ h

/-- the pair of assignments `l[c] = l[e]; l[e] = p` is a swap when `p` is the old `l[c]` -/
theorem listSet_listSet_eq_swap (l : List β) (c e : Int) (p : β) (hp : listGet l c = p) :
    listSet (listSet l c (listGet l e)) e p = listSwap l c e := by
  subst hp; rfl

end lists

/-! ### the order law that is used, and the outcome predicate -/
section generic
variable {α : Type} [Add α] [Sub α] [Mul α] [Div α] [Neg α] [LT α] [LE α] [BEq α]
  [DecidableLT α] [DecidableLE α] [OfScientific α] [Inhabited α] [RFun α]

/-- a value is `≤`-reflexive, or NaN-like (`x ≤ y` fails for every `y`).  Holds for every real
    number and for every IEEE double (NaN is NaN-like, every other double is reflexive). -/
def LeOK (x : α) : Prop := x ≤ x ∨ ∀ y : α, ¬ x ≤ y

/-- every entry of the buffer satisfies `LeOK` -/
def DataOK (l : List α) : Prop := ∀ x ∈ l, LeOK x

/-- `out` is a permutation of `inp`, or it is the buffer of the model's panic value
    (`panicV : α × Data α` has the empty buffer) — the latter only arises from fuel exhaustion. -/
def PermOrPanic (out inp : List α) : Prop := out.Perm inp ∨ out = []

theorem PermOrPanic.refl (l : List α) : PermOrPanic l l := Or.inl (List.Perm.refl l)

theorem PermOrPanic.trans {a b c : List α} (h1 : PermOrPanic c b) (h2 : PermOrPanic b a) :
    PermOrPanic c a := by
  rcases h1 with h1 | h1
  · rcases h2 with h2 | h2
    · exact Or.inl (h1.trans h2)
    · subst h2; exact Or.inr (List.perm_nil.1 h1)
  · exact Or.inr h1

theorem DataOK.of_perm {a b : List α} (h : DataOK a) (p : b.Perm a) : DataOK b :=
  fun x hx => h x (p.mem_iff.1 hx)

theorem DataOK.of_permOrPanic {a b : List α} (h : DataOK a) (p : PermOrPanic b a) : DataOK b := by
  rcases p with p | p
  · exact h.of_perm p
  · subst p; intro x hx; simp at hx

theorem panicV_buffer : ((panicV : α × Data α)).2.f_0 = [] := rfl

theorem panicInt_neg : panicInt < 0 := by unfold panicInt; norm_num

theorem loopFuel_succ : loopFuel = 19999 + 1 := rfl

/-! ### `Data.swap` -/

theorem swap_buffer (self : Data α) (i j : Int) :
    (Data.swap self i j).2.f_0 = listSwap self.f_0 i j := rfl

/-! ### inner scans -/

/-- the upward scan only exits normally, strictly above its start, at a cell `≥ pivot` -/
theorem loop213_done (fuel : ℕ) (pivot : α) (self : Data α) (b0 b : Int)
    (h : Data.select_inplace.loop213 fuel pivot self b0 = LoopR.done b) :
    b0 < b ∧ pivot ≤ listGet self.f_0 b := by
  induction fuel generalizing b0 with
  | zero => simp [Data.select_inplace.loop213] at h
  | succ n ih =>
    rw [Data.select_inplace.loop213] at h
    by_cases hc : pivot ≤ listGet self.f_0 (b0 + 1)
    · simp only [hc, if_true, LoopR.done.injEq] at h
      subst h; exact ⟨by omega, hc⟩
    · simp only [hc, if_false] at h
      obtain ⟨h1, h2⟩ := ih _ h
      exact ⟨by omega, h2⟩

theorem loop213_not_ret (fuel : ℕ) (pivot : α) (self : Data α) (b0 : Int) (v : α × Data α) :
    Data.select_inplace.loop213 fuel pivot self b0 ≠ LoopR.ret v := by
  induction fuel generalizing b0 with
  | zero => simp [Data.select_inplace.loop213]
  | succ n ih =>
    rw [Data.select_inplace.loop213]
    by_cases hc : pivot ≤ listGet self.f_0 (b0 + 1)
    · simp [hc]
    · simp only [hc, if_false]; exact ih _

/-- with a NaN-like pivot the upward scan exhausts any fuel -/
theorem loop213_nanlike (fuel : ℕ) (pivot : α) (self : Data α) (b0 : Int)
    (hp : ∀ y : α, ¬ pivot ≤ y) :
    Data.select_inplace.loop213 fuel pivot self b0 = LoopR.hang := by
  induction fuel generalizing b0 with
  | zero => simp [Data.select_inplace.loop213]
  | succ n ih =>
    rw [Data.select_inplace.loop213]
    simp only [hp _, if_false]; exact ih _

theorem loop215_not_ret (fuel : ℕ) (pivot : α) (self : Data α) (e0 : Int) (v : α × Data α) :
    Data.select_inplace.loop215 fuel pivot self e0 ≠ LoopR.ret v := by
  induction fuel generalizing e0 with
  | zero => simp [Data.select_inplace.loop215]
  | succ n ih =>
    rw [Data.select_inplace.loop215]
    by_cases hc : listGet self.f_0 (usub e0 1) ≤ pivot
    · simp [hc]
    · simp only [hc, if_false]; exact ih _

/-- the downward scan started above a cell `c` holding a value `≤ pivot` exits at or above `c`,
    strictly below its start, at a cell `≤ pivot` -/
theorem loop215_done (fuel : ℕ) (pivot : α) (self : Data α) (e0 e c : Int)
    (hc0 : 0 ≤ c) (hc : c < e0) (hcell : listGet self.f_0 c ≤ pivot)
    (h : Data.select_inplace.loop215 fuel pivot self e0 = LoopR.done e) :
    c ≤ e ∧ e < e0 ∧ listGet self.f_0 e ≤ pivot := by
  induction fuel generalizing e0 with
  | zero => simp [Data.select_inplace.loop215] at h
  | succ n ih =>
    rw [Data.select_inplace.loop215] at h
    have hu : usub e0 1 = e0 - 1 := by
      unfold usub; have : ¬ e0 < 1 := by omega
      simp [this]
    rw [hu] at h
    by_cases hcmp : listGet self.f_0 (e0 - 1) ≤ pivot
    · simp only [hcmp, if_true, LoopR.done.injEq] at h
      subst h; exact ⟨by omega, by omega, hcmp⟩
    · simp only [hcmp, if_false] at h
      have hne : c ≠ e0 - 1 := fun e' => hcmp (e' ▸ hcell)
      obtain ⟨h1, h2, h3⟩ := ih (e0 - 1) (by omega) h
      exact ⟨h1, by omega, h3⟩

/-! ### the partition loop -/

/-- outcome predicate of the partition loop: never an early return; on normal exit the buffer is
    a permutation, the pivot cell `c` still holds the pivot, and the scan positions satisfy
    `c ≤ e < e0`, `b0 < b` -/
def Loop112Post (pivot : α) (l : List α) (c b0 e0 : Int) :
    LoopR (α × Data α) (Int × Int × Data α) → Prop
  | LoopR.hang => True
  | LoopR.ret _ => False
  | LoopR.done (b, e, s) =>
      s.f_0.Perm l ∧ listGet s.f_0 c = pivot ∧ c ≤ e ∧ e < e0 ∧ b0 < b

theorem loop112_inv (fuel : ℕ) (pivot : α) (self : Data α) (c b0 e0 : Int)
    (hc0 : 0 ≤ c) (hcb : c ≤ b0) (hce : c < e0) (hel : e0 ≤ self.f_0.length)
    (hcell : listGet self.f_0 c = pivot) (hrefl : pivot ≤ pivot) :
    Loop112Post pivot self.f_0 c b0 e0
      (Data.select_inplace.loop112 fuel pivot b0 e0 self) := by
  induction fuel generalizing self b0 e0 with
  | zero => simp [Data.select_inplace.loop112, Loop112Post]
  | succ n ih =>
    rw [Data.select_inplace.loop112]
    cases h1 : Data.select_inplace.loop213 loopFuel pivot self b0 with
    | ret v => exact absurd h1 (loop213_not_ret _ _ _ _ _)
    | hang => simp [Loop112Post]
    | done b =>
      obtain ⟨hb, _⟩ := loop213_done _ _ _ _ _ h1
      simp only []
      cases h2 : Data.select_inplace.loop215 loopFuel pivot self e0 with
      | ret v => exact absurd h2 (loop215_not_ret _ _ _ _ _)
      | hang => simp [Loop112Post]
      | done e =>
        obtain ⟨he1, he2, _⟩ := loop215_done _ _ _ _ _ c hc0 hce (hcell ▸ hrefl) h2
        simp only []
        by_cases hlt : e < b
        · simp only [hlt, if_true, Loop112Post]
          exact ⟨List.Perm.refl _, hcell, he1, he2, hb⟩
        · simp only [hlt, if_false]
          have hperm : (Data.swap self b e).2.f_0.Perm self.f_0 := by
            rw [swap_buffer]
            exact listSwap_perm _ _ _ (by omega) (by omega) (by omega) (by omega)
          have hcell' : listGet (Data.swap self b e).2.f_0 c = pivot := by
            rw [swap_buffer, listGet_listSwap_ne _ _ _ _ (by omega) (by omega)]; exact hcell
          have := ih (Data.swap self b e).2 b e (by omega) (by omega)
            (by rw [hperm.length_eq]; omega) hcell'
          revert this
          generalize Data.select_inplace.loop112 n pivot b e (Data.swap self b e).2 = r
          intro hr
          match r, hr with
          | LoopR.hang, _ => simp [Loop112Post]
          | LoopR.ret _, hr => simp [Loop112Post] at hr
          | LoopR.done (b', e', s'), hr =>
            simp only [Loop112Post] at hr ⊢
            obtain ⟨p1, p2, p3, p4, p5⟩ := hr
            exact ⟨p1.trans hperm, p2, p3, by omega, by omega⟩

/-- with a NaN-like pivot the partition loop exhausts its fuel -/
theorem loop112_nanlike (fuel : ℕ) (pivot : α) (self : Data α) (b0 e0 : Int)
    (hp : ∀ y : α, ¬ pivot ≤ y) :
    Data.select_inplace.loop112 fuel pivot b0 e0 self = LoopR.hang := by
  cases fuel with
  | zero => simp [Data.select_inplace.loop112]
  | succ n =>
    rw [Data.select_inplace.loop112, loop213_nanlike _ _ _ _ hp]

/-! ### the outer loop -/

/-- buffer after the median-of-three step of one outer iteration (a restatement of the
    generated code, tied to it by `loop1_step`) -/
def med3 (self : Data α) (low high : Int) : Data α :=
  let s1 := (Data.swap self (udiv (low + high) 2) (low + 1)).2
  let s2 := if listGet s1.f_0 high < listGet s1.f_0 low then (Data.swap s1 low high).2 else s1
  let s3 := if listGet s2.f_0 high < listGet s2.f_0 (low + 1) then
    (Data.swap s2 (low + 1) high).2 else s2
  if listGet s3.f_0 (low + 1) < listGet s3.f_0 low then (Data.swap s3 low (low + 1)).2 else s3

/-- buffer returned when the active window has at most two cells -/
def finish2 (self : Data α) (low high : Int) : Data α :=
  if high = low + 1 ∧ listGet self.f_0 high < listGet self.f_0 low then
    (Data.swap self low high).2 else self

/-- one iteration of the outer loop with a window of at most two cells -/
theorem loop1_small (fuel : ℕ) (rank : Int) (self : Data α) (high low : Int)
    (h : high ≤ low + 1) :
    Data.select_inplace.loop1 (fuel + 1) rank self high low
      = LoopR.ret (listGet (finish2 self low high).f_0 rank, finish2 self low high) := by
  rw [Data.select_inplace.loop1]; simp only [h, if_true]; rfl

/-- one iteration of the outer loop with a window of at least three cells -/
theorem loop1_step (fuel : ℕ) (rank : Int) (self : Data α) (high low : Int)
    (h : ¬ high ≤ low + 1) :
    Data.select_inplace.loop1 (fuel + 1) rank self high low
      = (match Data.select_inplace.loop112 loopFuel (listGet (med3 self low high).f_0 (low + 1))
            (low + 1) high (med3 self low high) with
        | LoopR.ret v => LoopR.ret v
        | LoopR.hang => LoopR.hang
        | LoopR.done (b, e, s) =>
          Data.select_inplace.loop1 fuel rank
            { f_0 := listSet (listSet s.f_0 (low + 1) (listGet s.f_0 e)) e
                (listGet (med3 self low high).f_0 (low + 1)) }
            (if rank ≤ e then usub e 1 else high) (if e ≤ rank then b else low)) := by
  rw [Data.select_inplace.loop1]; simp only [h, if_false]; rfl

theorem finish2_perm (self : Data α) (low high : Int) (hlow : 0 ≤ low)
    (hhigh : high < self.f_0.length) : (finish2 self low high).f_0.Perm self.f_0 := by
  unfold finish2
  split_ifs with h
  · rw [swap_buffer]
    exact listSwap_perm _ _ _ hlow (by omega) (by omega) hhigh
  · exact List.Perm.refl _

theorem swap_if_perm (s : Data α) (c : Prop) [Decidable c] (i j : Int) (hi0 : 0 ≤ i)
    (hi : i < s.f_0.length) (hj0 : 0 ≤ j) (hj : j < s.f_0.length) :
    (if c then (Data.swap s i j).2 else s).f_0.Perm s.f_0 := by
  split_ifs
  · rw [swap_buffer]; exact listSwap_perm _ _ _ hi0 hi hj0 hj
  · exact List.Perm.refl _

theorem med3_perm (self : Data α) (low high : Int) (hlow : 0 ≤ low) (hlh : low + 2 ≤ high)
    (hhigh : high < self.f_0.length) : (med3 self low high).f_0.Perm self.f_0 := by
  have hm : udiv (low + high) 2 = (low + high) / 2 := by unfold udiv; simp
  have p1 : (Data.swap self (udiv (low + high) 2) (low + 1)).2.f_0.Perm self.f_0 := by
    rw [swap_buffer, hm]
    exact listSwap_perm _ _ _ (by omega) (by omega) (by omega) (by omega)
  unfold med3
  simp only []
  generalize (Data.swap self (udiv (low + high) 2) (low + 1)).2 = s1 at p1 ⊢
  have l1 := p1.length_eq
  have p2 := swap_if_perm s1 (listGet s1.f_0 high < listGet s1.f_0 low) low high
    hlow (by omega) (by omega) (by omega)
  generalize (if listGet s1.f_0 high < listGet s1.f_0 low then (Data.swap s1 low high).2
    else s1) = s2 at p2 ⊢
  have l2 := p2.length_eq
  have p3 := swap_if_perm s2 (listGet s2.f_0 high < listGet s2.f_0 (low + 1)) (low + 1) high
    (by omega) (by omega) (by omega) (by omega)
  generalize (if listGet s2.f_0 high < listGet s2.f_0 (low + 1) then
    (Data.swap s2 (low + 1) high).2 else s2) = s3 at p3 ⊢
  have l3 := p3.length_eq
  have p4 := swap_if_perm s3 (listGet s3.f_0 (low + 1) < listGet s3.f_0 low) low (low + 1)
    hlow (by omega) (by omega) (by omega)
  exact ((p4.trans p3).trans p2).trans p1

/-- outcome predicate of the outer loop: it never exits normally (only by `return` or fuel
    exhaustion), and the buffer it returns is a permutation of `l` -/
def Loop1Post (l : List α) : LoopR (α × Data α) (Data α × Int × Int) → Prop
  | LoopR.hang => True
  | LoopR.ret v => v.2.f_0.Perm l
  | LoopR.done _ => False

theorem Loop1Post.of_perm {l l' : List α} (p : l'.Perm l)
    {r : LoopR (α × Data α) (Data α × Int × Int)} (h : Loop1Post l' r) : Loop1Post l r := by
  match r, h with
  | LoopR.hang, _ => trivial
  | LoopR.ret v, h => exact List.Perm.trans h p
  | LoopR.done s, h => exact h

/-- the outer loop of `select_inplace` only permutes the buffer (any fuel, any rank) -/
theorem loop1_inv (fuel : ℕ) (rank : Int) (self : Data α) (high low : Int)
    (hlow : 0 ≤ low) (hhigh : high < self.f_0.length) (hok : DataOK self.f_0) :
    Loop1Post self.f_0 (Data.select_inplace.loop1 fuel rank self high low) := by
  induction fuel generalizing self high low with
  | zero => simp [Data.select_inplace.loop1, Loop1Post]
  | succ n ih =>
    by_cases h : high ≤ low + 1
    · rw [loop1_small _ _ _ _ _ h]
      exact finish2_perm self low high hlow hhigh
    · rw [loop1_step _ _ _ _ _ h]
      have pm := med3_perm self low high hlow (by omega) hhigh
      have lm := pm.length_eq
      have okm : DataOK (med3 self low high).f_0 := hok.of_perm pm
      generalize med3 self low high = sm at pm lm okm ⊢
      have hpiv : LeOK (listGet sm.f_0 (low + 1)) :=
        okm _ (listGet_mem _ _ (by omega) (by omega))
      rcases hpiv with hrefl | hnan
      · have h112 := loop112_inv loopFuel (listGet sm.f_0 (low + 1)) sm (low + 1) (low + 1) high
          (by omega) (le_refl _) (by omega) (by omega) rfl hrefl
        revert h112
        generalize Data.select_inplace.loop112 loopFuel (listGet sm.f_0 (low + 1)) (low + 1) high
          sm = r
        intro h112
        match r, h112 with
        | LoopR.hang, _ => trivial
        | LoopR.ret _, h112 => exact absurd h112 (by simp [Loop112Post])
        | LoopR.done (b, e, s), h112 =>
          simp only [Loop112Post] at h112
          obtain ⟨p1, p2, p3, p4, p5⟩ := h112
          simp only []
          rw [listSet_listSet_eq_swap _ _ _ _ p2]
          have ls := p1.length_eq
          have psw : (listSwap s.f_0 (low + 1) e).Perm s.f_0 :=
            listSwap_perm _ _ _ (by omega) (by omega) (by omega) (by omega)
          have pall : (listSwap s.f_0 (low + 1) e).Perm self.f_0 := (psw.trans p1).trans pm
          have hu : usub e 1 = e - 1 := by
            unfold usub; have : ¬ e < 1 := by omega
            simp [this]
          apply Loop1Post.of_perm pall
          apply ih
          · split_ifs <;> omega
          · show _ < ((listSwap s.f_0 (low + 1) e).length : Int)
            rw [psw.length_eq, hu]; split_ifs <;> omega
          · exact hok.of_perm pall
      · rw [loop112_nanlike _ _ _ _ _ hnan]; trivial

/-! ### `select_inplace` -/

/-- `select_inplace` hands back a permutation of the buffer, or (fuel exhausted) the panic value -/
theorem select_inplace_permOrPanic (self : Data α) (rank : Int) (hok : DataOK self.f_0) :
    PermOrPanic (Data.select_inplace self rank).2.f_0 self.f_0 := by
  unfold Data.select_inplace
  split_ifs with h1 h2
  · exact PermOrPanic.refl _
  · exact PermOrPanic.refl _
  · have hh : usub (Data.len self) 1 < (self.f_0.length : Int) := by
      unfold usub Data.len listLen
      have := panicInt_neg
      split_ifs <;> omega
    have := loop1_inv loopFuel rank self (usub (Data.len self) 1) 0 (le_refl _) hh hok
    revert this
    simp only []
    generalize Data.select_inplace.loop1 loopFuel rank self (usub (Data.len self) 1) 0 = r
    intro hr
    match r, hr with
    | LoopR.hang, _ => exact Or.inr rfl
    | LoopR.ret v, hr => exact Or.inl hr
    | LoopR.done s, hr => exact absurd hr (by simp [Loop1Post])

/-- the panic alternative only arises when the outer loop reports fuel exhaustion -/
theorem select_inplace_perm_of_not_hang (self : Data α) (rank : Int) (hok : DataOK self.f_0)
    (hnh : Data.select_inplace.loop1 loopFuel rank self (usub (Data.len self) 1) 0 ≠ LoopR.hang) :
    (Data.select_inplace self rank).2.f_0.Perm self.f_0 := by
  unfold Data.select_inplace
  split_ifs with h1 h2
  · exact List.Perm.refl _
  · exact List.Perm.refl _
  · have hh : usub (Data.len self) 1 < (self.f_0.length : Int) := by
      unfold usub Data.len listLen
      have := panicInt_neg
      split_ifs <;> omega
    have := loop1_inv loopFuel rank self (usub (Data.len self) 1) 0 (le_refl _) hh hok
    revert this hnh
    simp only []
    generalize Data.select_inplace.loop1 loopFuel rank self (usub (Data.len self) 1) 0 = r
    intro hnh hr
    match r, hr, hnh with
    | LoopR.hang, _, hnh => exact absurd rfl hnh
    | LoopR.ret v, hr, _ => exact hr
    | LoopR.done s, hr, _ => exact absurd hr (by simp [Loop1Post])


end generic
end Statrs.Lemmas.Select
