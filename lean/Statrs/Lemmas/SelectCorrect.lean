/-
  Statrs.Lemmas.SelectCorrect — helper lemmas for the functional correctness of the generated
  quickselect `Data.select_inplace` over ℝ (C14): scans that terminate at a sentinel, the
  "rearrangement inside a window" relation and the predicates it preserves, the conditional
  swap, the median-of-three step, and the characterisation of the k-th smallest entry by its
  position.
-/
import Statrs.Lemmas.Select
import Statrs.Lemmas.OrderStats
import Statrs.Real.Simp
set_option linter.unusedSectionVars false
namespace Statrs.Lemmas.SelectCorrect
open Statrs Statrs.Gen Statrs.Lemmas.Select Statrs.Spec.OrderStats Statrs.Lemmas.OrderStats

/-! ### scans stop at the first admissible cell (every carrier) -/
section generic
variable {α : Type} [Add α] [Sub α] [Mul α] [Div α] [Neg α] [LT α] [LE α] [BEq α]
  [DecidableLT α] [DecidableLE α] [OfScientific α] [Inhabited α] [RFun α]

/-- if some cell `t > b` satisfies `pivot ≤ self[t]` and the fuel covers the distance, the upward
    scan stops at the first such cell -/
theorem loop213_run (fuel : ℕ) (pivot : α) (self : Data α) (b t : Int) (hbt : b < t)
    (ht : pivot ≤ listGet self.f_0 t) (hf : (t - b).toNat ≤ fuel) :
    ∃ b', Data.select_inplace.loop213 fuel pivot self b = LoopR.done b' ∧ b < b' ∧ b' ≤ t
      ∧ pivot ≤ listGet self.f_0 b' ∧ ∀ i, b < i → i < b' → ¬ pivot ≤ listGet self.f_0 i := by
  induction fuel generalizing b with
  | zero => omega
  | succ n ih =>
    rw [Data.select_inplace.loop213]
    by_cases hc : pivot ≤ listGet self.f_0 (b + 1)
    · refine ⟨b + 1, by simp [hc], by omega, by omega, hc, ?_⟩
      intro i h1 h2; omega
    · have hne : b + 1 ≠ t := fun e => hc (e ▸ ht)
      obtain ⟨b', e, h1, h2, h3, h4⟩ := ih (b + 1) (by omega) (by omega)
      refine ⟨b', by simp only [hc, if_false]; exact e, by omega, h2, h3, ?_⟩
      intro i hi1 hi2
      by_cases hi : i = b + 1
      · rw [hi]; exact hc
      · exact h4 i (by omega) hi2

/-- if some cell `0 ≤ t < e` satisfies `self[t] ≤ pivot` and the fuel covers the distance, the
    downward scan stops at the first such cell -/
theorem loop215_run (fuel : ℕ) (pivot : α) (self : Data α) (e t : Int) (ht0 : 0 ≤ t) (hte : t < e)
    (ht : listGet self.f_0 t ≤ pivot) (hf : (e - t).toNat ≤ fuel) :
    ∃ e', Data.select_inplace.loop215 fuel pivot self e = LoopR.done e' ∧ t ≤ e' ∧ e' < e
      ∧ listGet self.f_0 e' ≤ pivot ∧ ∀ j, e' < j → j < e → ¬ listGet self.f_0 j ≤ pivot := by
  induction fuel generalizing e with
  | zero => omega
  | succ n ih =>
    rw [Data.select_inplace.loop215]
    have hu : usub e 1 = e - 1 := by
      unfold usub; have : ¬ e < 1 := by omega
      simp [this]
    rw [hu]
    by_cases hc : listGet self.f_0 (e - 1) ≤ pivot
    · refine ⟨e - 1, by simp [hc], by omega, by omega, hc, ?_⟩
      intro j h1 h2; omega
    · have hne : e - 1 ≠ t := fun e' => hc (e' ▸ ht)
      obtain ⟨e', eq, h1, h2, h3, h4⟩ := ih (e - 1) (by omega) (by omega)
      refine ⟨e', by simp only [hc, if_false]; exact eq, h1, by omega, h3, ?_⟩
      intro j hj1 hj2
      by_cases hj : j = e - 1
      · rw [hj]; exact hc
      · exact h4 j hj1 (by omega)

end generic

/-! ### rearrangements inside a window -/

/-- `a'` is a permutation of `a` that only moves cells inside the index window `[lo, hi]` -/
def Rearr (lo hi : Int) (a a' : List ℝ) : Prop :=
  a'.Perm a ∧ ∃ σ : Int → Int, (∀ j, lo ≤ j → j ≤ hi → lo ≤ σ j ∧ σ j ≤ hi)
    ∧ (∀ j, (j < lo ∨ hi < j) → σ j = j) ∧ ∀ j, listGet a' j = listGet a (σ j)

theorem Rearr.refl (lo hi : Int) (a : List ℝ) : Rearr lo hi a a :=
  ⟨List.Perm.refl _, id, fun _ h1 h2 => ⟨h1, h2⟩, fun _ _ => rfl, fun _ => rfl⟩

theorem Rearr.trans {lo hi : Int} {a a' a'' : List ℝ} (h1 : Rearr lo hi a a')
    (h2 : Rearr lo hi a' a'') : Rearr lo hi a a'' := by
  obtain ⟨p1, σ1, w1, o1, g1⟩ := h1
  obtain ⟨p2, σ2, w2, o2, g2⟩ := h2
  refine ⟨p2.trans p1, fun j => σ1 (σ2 j), ?_, ?_, ?_⟩
  · intro j hj1 hj2
    obtain ⟨x, y⟩ := w2 j hj1 hj2
    exact w1 _ x y
  · intro j hj
    show σ1 (σ2 j) = j
    rw [o2 j hj, o1 j hj]
  · intro j; rw [g2, g1]

theorem Rearr.mono {lo hi lo' hi' : Int} {a a' : List ℝ} (h : Rearr lo hi a a')
    (hlo : lo' ≤ lo) (hhi : hi ≤ hi') : Rearr lo' hi' a a' := by
  obtain ⟨p, σ, w, o, g⟩ := h
  refine ⟨p, σ, ?_, ?_, g⟩
  · intro j hj1 hj2
    by_cases hin : lo ≤ j ∧ j ≤ hi
    · obtain ⟨x, y⟩ := w j hin.1 hin.2
      exact ⟨by omega, by omega⟩
    · rw [o j (by omega)]; exact ⟨hj1, hj2⟩
  · intro j hj; exact o j (by omega)

theorem Rearr.perm {lo hi : Int} {a a' : List ℝ} (h : Rearr lo hi a a') : a'.Perm a := h.1

theorem Rearr.length {lo hi : Int} {a a' : List ℝ} (h : Rearr lo hi a a') :
    a'.length = a.length := h.1.length_eq

theorem Rearr.get_outside {lo hi : Int} {a a' : List ℝ} (h : Rearr lo hi a a') (j : Int)
    (hj : j < lo ∨ hi < j) : listGet a' j = listGet a j := by
  obtain ⟨_, σ, _, o, g⟩ := h
  rw [g, o j hj]

/-- an in-range swap of two cells of the window -/
theorem Rearr.swap (lo hi : Int) (a : List ℝ) (x y : Int) (hx0 : 0 ≤ x) (hx : x < a.length)
    (hy0 : 0 ≤ y) (hy : y < a.length) (hxl : lo ≤ x) (hxh : x ≤ hi) (hyl : lo ≤ y) (hyh : y ≤ hi) :
    Rearr lo hi a (listSwap a x y) := by
  refine ⟨listSwap_perm a x y hx0 hx hy0 hy,
    fun j => if j = x then y else if j = y then x else j, ?_, ?_, ?_⟩
  · intro j hj1 hj2; dsimp only; split_ifs <;> omega
  · intro j hj; dsimp only; split_ifs <;> omega
  · intro j; dsimp only
    split_ifs with h1 h2
    · rw [h1]; exact listGet_listSwap_left a x y hx0 hx
    · rw [h2]; exact listGet_listSwap_right a x y hy0 hy
    · exact listGet_listSwap_ne a x y j h1 h2

/-! ### the three order predicates and their stability -/

/-- every cell left of `low` is `≤` every cell from `low` on (below `n`) -/
def LeftOK (a : List ℝ) (low n : Int) : Prop :=
  ∀ i j, 0 ≤ i → i < low → low ≤ j → j < n → listGet a i ≤ listGet a j

/-- every cell right of `high` (below `n`) is `≥` every cell up to `high` -/
def RightOK (a : List ℝ) (high n : Int) : Prop :=
  ∀ i j, 0 ≤ i → i ≤ high → high < j → j < n → listGet a i ≤ listGet a j

/-- cell `k` is in its sorted position: nothing larger before it, nothing smaller after it -/
def Final (a : List ℝ) (k n : Int) : Prop :=
  (∀ i, 0 ≤ i → i < k → listGet a i ≤ listGet a k) ∧ (∀ j, k < j → j < n → listGet a k ≤ listGet a j)

theorem LeftOK.stable {a a' : List ℝ} {lo hi low n : Int} (r : Rearr lo hi a a') (h1 : low ≤ lo)
    (h2 : hi < n) (h : LeftOK a low n) : LeftOK a' low n := by
  obtain ⟨_, σ, w, o, g⟩ := r
  intro i j hi0 hil hlj hjn
  rw [g i, g j, o i (by omega)]
  by_cases hin : lo ≤ j ∧ j ≤ hi
  · obtain ⟨x, y⟩ := w j hin.1 hin.2
    exact h i (σ j) hi0 hil (by omega) (by omega)
  · rw [o j (by omega)]; exact h i j hi0 hil hlj hjn

theorem RightOK.stable {a a' : List ℝ} {lo hi high n : Int} (r : Rearr lo hi a a') (h0 : 0 ≤ lo)
    (h1 : hi ≤ high) (h : RightOK a high n) : RightOK a' high n := by
  obtain ⟨_, σ, w, o, g⟩ := r
  intro i j hi0 hih hhj hjn
  rw [g i, g j, o j (by omega)]
  by_cases hin : lo ≤ i ∧ i ≤ hi
  · obtain ⟨x, y⟩ := w i hin.1 hin.2
    exact h (σ i) j (by omega) (by omega) hhj hjn
  · rw [o i (by omega)]; exact h i j hi0 hih hhj hjn

theorem Final.stable {a a' : List ℝ} {lo hi k n : Int} (r : Rearr lo hi a a') (h1 : k < lo)
    (h2 : hi < n) (h : Final a k n) : Final a' k n := by
  obtain ⟨_, σ, w, o, g⟩ := r
  constructor
  · intro i hi0 hik
    rw [g i, g k, o i (by omega), o k (by omega)]; exact h.1 i hi0 hik
  · intro j hkj hjn
    rw [g j, g k, o k (by omega)]
    by_cases hin : lo ≤ j ∧ j ≤ hi
    · obtain ⟨x, y⟩ := w j hin.1 hin.2
      exact h.2 (σ j) (by omega) (by omega)
    · rw [o j (by omega)]; exact h.2 j hkj hjn

/-! ### a cell in its sorted position holds the k-th smallest entry -/

theorem final_eq_kth (a l : List ℝ) (k : ℕ) (hp : a.Perm l) (hk : k < a.length)
    (hF : Final a (k : Int) (a.length : Int)) : listGet a (k : Int) = kth l k := by
  have hget : ∀ i (h : i < a.length), listGet a (i : Int) = a[i] := fun i h => listGet_nat_lt a i h
  set x := a[k] with hx
  have hsplit : a = a.take k ++ x :: a.drop (k + 1) := by
    rw [hx, List.getElem_cons_drop, List.take_append_drop]
  set L := sorted (a.take k) with hL
  set R := sorted (a.drop (k + 1)) with hR
  have hLlen : L.length = k := by
    rw [hL, sorted_length, List.length_take]; omega
  have hLmem : ∀ u ∈ L, u ≤ x := by
    intro u hu
    have hu' : u ∈ a.take k := (sorted_perm _).mem_iff.1 hu
    obtain ⟨i, hi, e⟩ := List.mem_iff_getElem.1 hu'
    rw [List.getElem_take] at e
    have hik : i < k := by rw [List.length_take] at hi; omega
    have := hF.1 (i : Int) (by omega) (by omega)
    rw [hget i (by omega), hget k hk] at this
    rw [← e]; exact this
  have hRmem : ∀ v ∈ R, x ≤ v := by
    intro v hv
    have hv' : v ∈ a.drop (k + 1) := (sorted_perm _).mem_iff.1 hv
    obtain ⟨j, hj, e⟩ := List.mem_iff_getElem.1 hv'
    rw [List.getElem_drop] at e
    rw [List.length_drop] at hj
    have := hF.2 ((k + 1 + j : ℕ) : Int) (by omega) (by omega)
    rw [hget (k + 1 + j) (by omega), hget k hk] at this
    rw [← e]; exact this
  have hcperm : (L ++ x :: R).Perm a := by
    conv_rhs => rw [hsplit]
    exact List.Perm.append (sorted_perm _) (List.Perm.cons _ (sorted_perm _))
  have hcpw : (L ++ x :: R).Pairwise (· ≤ ·) := by
    rw [List.pairwise_append]
    refine ⟨sorted_pairwise _, ?_, ?_⟩
    · rw [List.pairwise_cons]; exact ⟨hRmem, sorted_pairwise _⟩
    · intro u hu v hv
      rcases List.mem_cons.1 hv with rfl | hv
      · exact hLmem u hu
      · exact le_trans (hLmem u hu) (hRmem v hv)
  have hs : sorted l = L ++ x :: R := by
    rw [← sorted_congr hp]
    exact List.Perm.eq_of_pairwise' (sorted_pairwise a) hcpw ((sorted_perm a).trans hcperm.symm)
  unfold kth
  rw [hs, hget k hk, List.getD_eq_getElem?_getD, List.getElem?_append_right (by omega), hLlen]
  simp [hx]

/-! ### the conditional swap `if a[y] < a[x] { swap(x, y) }` -/

/-- buffer after `if self[y] < self[x] { self.swap(x, y) }` -/
noncomputable def condSwap (s : Data ℝ) (x y : Int) : Data ℝ :=
  if listGet s.f_0 y < listGet s.f_0 x then (Data.swap s x y).2 else s

theorem condSwap_spec (s : Data ℝ) (x y lo hi : Int) (hx0 : 0 ≤ x) (hx : x < s.f_0.length)
    (hy0 : 0 ≤ y) (hy : y < s.f_0.length)
    (hxl : lo ≤ x) (hxh : x ≤ hi) (hyl : lo ≤ y) (hyh : y ≤ hi) :
    Rearr lo hi s.f_0 (condSwap s x y).f_0
      ∧ listGet (condSwap s x y).f_0 x ≤ listGet (condSwap s x y).f_0 y
      ∧ listGet (condSwap s x y).f_0 y = max (listGet s.f_0 x) (listGet s.f_0 y)
      ∧ listGet (condSwap s x y).f_0 x = min (listGet s.f_0 x) (listGet s.f_0 y)
      ∧ ∀ j, j ≠ x → j ≠ y → listGet (condSwap s x y).f_0 j = listGet s.f_0 j := by
  unfold condSwap
  split_ifs with h
  · rw [swap_buffer]
    refine ⟨Rearr.swap lo hi _ x y hx0 hx hy0 hy hxl hxh hyl hyh, ?_, ?_, ?_, ?_⟩
    · rw [listGet_listSwap_left _ _ _ hx0 hx, listGet_listSwap_right _ _ _ hy0 hy]
      exact le_of_lt h
    · rw [listGet_listSwap_right _ _ _ hy0 hy, max_eq_left (le_of_lt h)]
    · rw [listGet_listSwap_left _ _ _ hx0 hx, min_eq_right (le_of_lt h)]
    · intro j h1 h2; exact listGet_listSwap_ne _ _ _ _ h1 h2
  · have h' := not_lt.1 h
    exact ⟨Rearr.refl _ _ _, h', (max_eq_right h').symm, (min_eq_left h').symm, fun _ _ _ => rfl⟩

/-! ### the median-of-three step -/

theorem med3_eq (s : Data ℝ) (low high : Int) :
    med3 s low high
      = condSwap (condSwap (condSwap (Data.swap s (udiv (low + high) 2) (low + 1)).2 low high)
          (low + 1) high) low (low + 1) := rfl

/-- the median-of-three step rearranges the window `[low, high]` and establishes
    `a[low] ≤ a[low+1] ≤ a[high]` -/
theorem med3_spec (s : Data ℝ) (low high : Int) (hlow : 0 ≤ low) (hlh : low + 2 ≤ high)
    (hhigh : high < s.f_0.length) :
    Rearr low high s.f_0 (med3 s low high).f_0
      ∧ listGet (med3 s low high).f_0 low ≤ listGet (med3 s low high).f_0 (low + 1)
      ∧ listGet (med3 s low high).f_0 (low + 1) ≤ listGet (med3 s low high).f_0 high := by
  rw [med3_eq]
  have hm : udiv (low + high) 2 = (low + high) / 2 := by unfold udiv; simp
  have r1 : Rearr low high s.f_0 (Data.swap s (udiv (low + high) 2) (low + 1)).2.f_0 := by
    rw [swap_buffer, hm]
    exact Rearr.swap low high _ _ _ (by omega) (by omega) (by omega) (by omega) (by omega)
      (by omega) (by omega) (by omega)
  generalize (Data.swap s (udiv (low + high) 2) (low + 1)).2 = s1 at r1 ⊢
  have l1 := r1.length
  obtain ⟨r2, o2, mx2, mn2, f2⟩ := condSwap_spec s1 low high low high hlow (by omega) (by omega)
    (by omega) (le_refl _) (by omega) (by omega) (le_refl _)
  generalize condSwap s1 low high = s2 at r2 o2 mx2 mn2 f2 ⊢
  have l2 := r2.length
  obtain ⟨r3, o3, mx3, mn3, f3⟩ := condSwap_spec s2 (low + 1) high low high (by omega) (by omega)
    (by omega) (by omega) (by omega) (by omega) (by omega) (le_refl _)
  generalize condSwap s2 (low + 1) high = s3 at r3 o3 mx3 mn3 f3 ⊢
  have l3 := r3.length
  obtain ⟨r4, o4, mx4, mn4, f4⟩ := condSwap_spec s3 low (low + 1) low high hlow (by omega)
    (by omega) (by omega) (le_refl _) (by omega) (by omega) (by omega)
  refine ⟨((r1.trans r2).trans r3).trans r4, o4, ?_⟩
  rw [mx4, f4 high (by omega) (by omega)]
  have e3 : listGet s3.f_0 low = listGet s2.f_0 low := f3 low (by omega) (by omega)
  have h2 : listGet s2.f_0 low ≤ listGet s2.f_0 high := o2
  have h3 : listGet s2.f_0 high ≤ listGet s3.f_0 high := by rw [mx3]; exact le_max_right _ _
  apply max_le
  · rw [e3]; exact le_trans h2 h3
  · exact o3

/-! ### the partition loop over ℝ -/

/-- Partition loop, total version.  Started with `a[c] = p`, `a[c..=b] ≤ p`, `a[e..=hi] ≥ p`
    (`c ≤ b ≤ e ≤ hi`, `b < hi`, `c < e`), a buffer no longer than the inner fuel and outer fuel
    `≥ e - b + 1`, it exits normally with crossed scan positions `e' < b'`, having only moved
    cells strictly between `c` and `hi`, and `a[c..b') ≤ p ≤ a(e'..=hi]`. -/
theorem loop112_run (fuel : ℕ) (p : ℝ) (s : Data ℝ) (c hi b e : Int)
    (hn : s.f_0.length ≤ loopFuel)
    (hc0 : 0 ≤ c) (hcb : c ≤ b) (hbe : b ≤ e) (hce : c < e) (hbh : b < hi) (heh : e ≤ hi)
    (hhn : hi < s.f_0.length) (hcell : listGet s.f_0 c = p)
    (hleft : ∀ i, c ≤ i → i ≤ b → listGet s.f_0 i ≤ p)
    (hright : ∀ j, e ≤ j → j ≤ hi → p ≤ listGet s.f_0 j)
    (hfuel : (e - b + 1).toNat ≤ fuel) :
    ∃ b' e' s', Data.select_inplace.loop112 fuel p b e s = LoopR.done (b', e', s')
      ∧ Rearr (c + 1) (hi - 1) s.f_0 s'.f_0 ∧ e' < b' ∧ c ≤ e' ∧ e' < e ∧ b < b' ∧ b' ≤ hi
      ∧ (∀ i, c ≤ i → i < b' → listGet s'.f_0 i ≤ p)
      ∧ (∀ j, e' < j → j ≤ hi → p ≤ listGet s'.f_0 j) := by
  induction fuel generalizing s b e with
  | zero => omega
  | succ n ih =>
    obtain ⟨b1, hb1, u1, u2, u3, u4⟩ := loop213_run loopFuel p s b (max (b + 1) e) (by omega)
      (hright _ (by omega) (by omega)) (by omega)
    obtain ⟨e1, he1, d1, d2, d3, d4⟩ := loop215_run loopFuel p s e c hc0 hce
      (by rw [hcell]) (by omega)
    have left' : ∀ i, c ≤ i → i < b1 → listGet s.f_0 i ≤ p := by
      intro i h1 h2
      by_cases hib : i ≤ b
      · exact hleft i h1 hib
      · exact le_of_lt (not_le.1 (u4 i (by omega) h2))
    have right' : ∀ j, e1 < j → j ≤ hi → p ≤ listGet s.f_0 j := by
      intro j h1 h2
      by_cases hje : e ≤ j
      · exact hright j hje h2
      · exact le_of_lt (not_le.1 (d4 j h1 (by omega)))
    rw [Data.select_inplace.loop112, hb1]
    simp only []
    rw [he1]
    simp only []
    by_cases hlt : e1 < b1
    · refine ⟨b1, e1, s, by simp [hlt], Rearr.refl _ _ _, hlt, d1, d2, u1, by omega, left', right'⟩
    · have hb1e1 : b1 ≤ e1 := by omega
      have rs : Rearr (c + 1) (hi - 1) s.f_0 (Data.swap s b1 e1).2.f_0 := by
        rw [swap_buffer]
        exact Rearr.swap _ _ _ _ _ (by omega) (by omega) (by omega) (by omega) (by omega)
          (by omega) (by omega) (by omega)
      have gl : listGet (Data.swap s b1 e1).2.f_0 b1 = listGet s.f_0 e1 := by
        rw [swap_buffer]; exact listGet_listSwap_left _ _ _ (by omega) (by omega)
      have gr : listGet (Data.swap s b1 e1).2.f_0 e1 = listGet s.f_0 b1 := by
        rw [swap_buffer]; exact listGet_listSwap_right _ _ _ (by omega) (by omega)
      have gn : ∀ j, j ≠ b1 → j ≠ e1 → listGet (Data.swap s b1 e1).2.f_0 j = listGet s.f_0 j := by
        intro j h1 h2; rw [swap_buffer]; exact listGet_listSwap_ne _ _ _ _ h1 h2
      obtain ⟨b', e', s', hrun, r', q1, q2, q3, q4, q5, q6, q7⟩ :=
        ih (Data.swap s b1 e1).2 b1 e1 (by rw [rs.length]; exact hn) (by omega) hb1e1 (by omega)
          (by omega) (by omega) (by rw [rs.length]; exact hhn)
          (by rw [gn c (by omega) (by omega)]; exact hcell)
          (by
            intro i h1 h2
            by_cases hi1 : i = b1
            · rw [hi1, gl]; exact d3
            · rw [gn i hi1 (by omega)]; exact left' i h1 (by omega))
          (by
            intro j h1 h2
            by_cases hj1 : j = e1
            · rw [hj1, gr]; exact u3
            · rw [gn j (by omega) hj1]; exact right' j (by omega) h2)
          (by omega)
      refine ⟨b', e', s', ?_, rs.trans r', q1, q2, by omega, by omega, q5, q6, q7⟩
      simp only [hlt, if_false]
      exact hrun

end Statrs.Lemmas.SelectCorrect
