/-
  Statrs.Draft.Lemmas.SelectFloat — helper lemmas for the functional correctness of the generated quickselect
  `Data.select_inplace` on EVERY carrier with an IEEE-style comparison (`Statrs.Spec.OrderLaws`: a total preorder
  on the non-NaN values, `<` its strict part), for NaN-free data.  Port of `Statrs.Lemmas.SelectCorrect` (ℝ):
  the order toolbox on `OrderLaws`, the "rearrangement inside a window" relation and the predicates it
  preserves (carrier-free), the conditional swap, the median-of-three step and the partition loop.
-/
import Statrs.Lemmas.SelectCorrect
import Statrs.Spec.FloatLaws
set_option linter.unusedSectionVars false
set_option linter.unusedVariables false
namespace Statrs.Lemmas.SelectFloat
open Statrs Statrs.Gen Statrs.Spec Statrs.Lemmas.Select

/-! ### rearrangements inside a window (any element type) -/
section rearr
variable {β : Type} [Inhabited β]

/-- `a'` is a permutation of `a` that only moves cells inside the index window `[lo, hi]` -/
def Rearr (lo hi : Int) (a a' : List β) : Prop :=
  a'.Perm a ∧ ∃ σ : Int → Int, (∀ j, lo ≤ j → j ≤ hi → lo ≤ σ j ∧ σ j ≤ hi)
    ∧ (∀ j, (j < lo ∨ hi < j) → σ j = j) ∧ ∀ j, listGet a' j = listGet a (σ j)

/-- full(∀β): the identity is a rearrangement -/
theorem Rearr.refl (lo hi : Int) (a : List β) : Rearr lo hi a a :=
  ⟨List.Perm.refl _, id, fun _ h1 h2 => ⟨h1, h2⟩, fun _ _ => rfl, fun _ => rfl⟩

/-- full(∀β): rearrangements of the same window compose -/
theorem Rearr.trans {lo hi : Int} {a a' a'' : List β} (h1 : Rearr lo hi a a')
    (h2 : Rearr lo hi a' a'') : Rearr lo hi a a'' := by
  obtain ⟨p1, σ1, w1, o1, g1⟩ := h1
  obtain ⟨p2, σ2, w2, o2, g2⟩ := h2
  refine ⟨p2.trans p1, fun j => σ1 (σ2 j), ?_, ?_, ?_⟩
  · intro j hj1 hj2
    obtain ⟨x, y⟩ := w2 j hj1 hj2
    exact w1 _ x y
  · intro j hj
    show σ1 (σ2 j) = j
    rw [o2 j hj, o1 j hj]
  · intro j; rw [g2, g1]

/-- full(∀β): a rearrangement of a window is one of every larger window -/
theorem Rearr.mono {lo hi lo' hi' : Int} {a a' : List β} (h : Rearr lo hi a a')
    (hlo : lo' ≤ lo) (hhi : hi ≤ hi') : Rearr lo' hi' a a' := by
  obtain ⟨p, σ, w, o, g⟩ := h
  refine ⟨p, σ, ?_, ?_, g⟩
  · intro j hj1 hj2
    by_cases hin : lo ≤ j ∧ j ≤ hi
    · obtain ⟨x, y⟩ := w j hin.1 hin.2
      exact ⟨by omega, by omega⟩
    · rw [o j (by omega)]; exact ⟨hj1, hj2⟩
  · intro j hj; exact o j (by omega)

/-- full(∀β): a rearrangement is a permutation -/
theorem Rearr.perm {lo hi : Int} {a a' : List β} (h : Rearr lo hi a a') : a'.Perm a := h.1

/-- full(∀β): a rearrangement keeps the length -/
theorem Rearr.length {lo hi : Int} {a a' : List β} (h : Rearr lo hi a a') :
    a'.length = a.length := h.1.length_eq

/-- full(∀β): cells outside the window are untouched -/
theorem Rearr.get_outside {lo hi : Int} {a a' : List β} (h : Rearr lo hi a a') (j : Int)
    (hj : j < lo ∨ hi < j) : listGet a' j = listGet a j := by
  obtain ⟨_, σ, _, o, g⟩ := h
  rw [g, o j hj]

/-- full(∀β): an in-range swap of two cells of the window is a rearrangement -/
theorem Rearr.swap (lo hi : Int) (a : List β) (x y : Int) (hx0 : 0 ≤ x) (hx : x < a.length)
    (hy0 : 0 ≤ y) (hy : y < a.length) (hxl : lo ≤ x) (hxh : x ≤ hi) (hyl : lo ≤ y) (hyh : y ≤ hi) :
    Rearr lo hi a (listSwap a x y) := by
  refine ⟨listSwap_perm a x y hx0 hx hy0 hy,
    fun j => if j = x then y else if j = y then x else j, ?_, ?_, ?_⟩
  · intro j hj1 hj2; dsimp only; split_ifs <;> omega
  · intro j hj; dsimp only; split_ifs <;> omega
  · intro j; dsimp only
    split_ifs with h1 h2
    · rw [h1]; exact listGet_listSwap_left a x y hx0 hx
    · rw [h2]; exact listGet_listSwap_right a x y hy0 hy
    · exact listGet_listSwap_ne a x y j h1 h2

/-! ### the three order predicates and their stability -/
variable [LE β]

/-- every cell left of `low` is `≤` every cell from `low` on (below `n`) -/
def LeftOK (a : List β) (low n : Int) : Prop :=
  ∀ i j, 0 ≤ i → i < low → low ≤ j → j < n → listGet a i ≤ listGet a j

/-- every cell right of `high` (below `n`) is `≥` every cell up to `high` -/
def RightOK (a : List β) (high n : Int) : Prop :=
  ∀ i j, 0 ≤ i → i ≤ high → high < j → j < n → listGet a i ≤ listGet a j

/-- cell `k` is in its sorted position: nothing larger before it, nothing smaller after it -/
def Final (a : List β) (k n : Int) : Prop :=
  (∀ i, 0 ≤ i → i < k → listGet a i ≤ listGet a k) ∧ (∀ j, k < j → j < n → listGet a k ≤ listGet a j)

/-- full(∀β): `LeftOK` survives a rearrangement right of `low` -/
theorem LeftOK.stable {a a' : List β} {lo hi low n : Int} (r : Rearr lo hi a a') (h1 : low ≤ lo)
    (h2 : hi < n) (h : LeftOK a low n) : LeftOK a' low n := by
  obtain ⟨_, σ, w, o, g⟩ := r
  intro i j hi0 hil hlj hjn
  rw [g i, g j, o i (by omega)]
  by_cases hin : lo ≤ j ∧ j ≤ hi
  · obtain ⟨x, y⟩ := w j hin.1 hin.2
    exact h i (σ j) hi0 hil (by omega) (by omega)
  · rw [o j (by omega)]; exact h i j hi0 hil hlj hjn

/-- full(∀β): `RightOK` survives a rearrangement left of `high` -/
theorem RightOK.stable {a a' : List β} {lo hi high n : Int} (r : Rearr lo hi a a') (h0 : 0 ≤ lo)
    (h1 : hi ≤ high) (h : RightOK a high n) : RightOK a' high n := by
  obtain ⟨_, σ, w, o, g⟩ := r
  intro i j hi0 hih hhj hjn
  rw [g i, g j, o j (by omega)]
  by_cases hin : lo ≤ i ∧ i ≤ hi
  · obtain ⟨x, y⟩ := w i hin.1 hin.2
    exact h (σ i) j (by omega) (by omega) hhj hjn
  · rw [o i (by omega)]; exact h i j hi0 hih hhj hjn

/-- full(∀β): a cell in sorted position survives a rearrangement to its right -/
theorem Final.stable {a a' : List β} {lo hi k n : Int} (r : Rearr lo hi a a') (h1 : k < lo)
    (h2 : hi < n) (h : Final a k n) : Final a' k n := by
  obtain ⟨_, σ, w, o, g⟩ := r
  constructor
  · intro i hi0 hik
    rw [g i, g k, o i (by omega), o k (by omega)]; exact h.1 i hi0 hik
  · intro j hkj hjn
    rw [g j, g k, o k (by omega)]
    by_cases hin : lo ≤ j ∧ j ≤ hi
    · obtain ⟨x, y⟩ := w j hin.1 hin.2
      exact h.2 (σ j) (by omega) (by omega)
    · rw [o j (by omega)]; exact h.2 j hkj hjn

end rearr

variable {α : Type} [Add α] [Sub α] [Mul α] [Div α] [Neg α] [LT α] [LE α] [BEq α]
  [DecidableLT α] [DecidableLE α] [OfScientific α] [Inhabited α] [RFun α]

/-! ### order toolbox on `OrderLaws` -/
section order
variable (O : OrderLaws α)
include O

/-- full(∀α): on non-NaN values `¬ a ≤ b` gives `b ≤ a` -/
theorem ole_of_not_le {a b : α} (ha : NN a) (hb : NN b) (h : ¬ a ≤ b) : b ≤ a := by
  rcases O.le_total a b ha hb with h1 | h1
  · exact absurd h1 h
  · exact h1

/-- full(∀α): on non-NaN values `¬ a < b` gives `b ≤ a` -/
theorem ole_of_not_lt {a b : α} (ha : NN a) (hb : NN b) (h : ¬ a < b) : b ≤ a := by
  by_contra h'
  exact h ((O.lt_iff a b).2 ⟨ole_of_not_le O hb ha h', h'⟩)

/-- full(∀α): `a < b ⇒ a ≤ b` -/
theorem olt_le {a b : α} (h : a < b) : a ≤ b := ((O.lt_iff a b).1 h).1

/-- full(∀α): `a < b ⇒ ¬ b ≤ a` -/
theorem olt_not_le {a b : α} (h : a < b) : ¬ b ≤ a := ((O.lt_iff a b).1 h).2

/-- full(∀α): on non-NaN values `¬ b ≤ a` gives `a < b` -/
theorem olt_of_not_le {a b : α} (ha : NN a) (hb : NN b) (h : ¬ b ≤ a) : a < b :=
  (O.lt_iff a b).2 ⟨ole_of_not_le O hb ha h, h⟩

end order

/-- full(∀α): an in-range cell of NaN-free data is not NaN -/
theorem nn_get {l : List α} (hnn : ∀ x ∈ l, NN x) (i : Int) (h0 : 0 ≤ i) (h1 : i < l.length) :
    NN (listGet l i) := hnn _ (listGet_mem l i h0 h1)

/-- full(∀α): NaN-freeness is carried along a permutation -/
theorem nn_perm {l l' : List α} (hnn : ∀ x ∈ l, NN x) (p : l'.Perm l) : ∀ x ∈ l', NN x :=
  fun x hx => hnn x (p.mem_iff.1 hx)

/-! ### the conditional swap `if a[y] < a[x] { swap(x, y) }` -/

/-- buffer after `if self[y] < self[x] { self.swap(x, y) }` -/
def condSwap (s : Data α) (x y : Int) : Data α :=
  if listGet s.f_0 y < listGet s.f_0 x then (Data.swap s x y).2 else s

/-- full(∀α): the conditional swap orders the two cells; the upper cell holds one of the two old values and is
    `≥` the old upper cell; the other cells are untouched -/
theorem condSwap_spec (O : OrderLaws α) (s : Data α) (x y lo hi : Int) (hx0 : 0 ≤ x)
    (hx : x < s.f_0.length) (hy0 : 0 ≤ y) (hy : y < s.f_0.length)
    (hxl : lo ≤ x) (hxh : x ≤ hi) (hyl : lo ≤ y) (hyh : y ≤ hi)
    (nx : NN (listGet s.f_0 x)) (ny : NN (listGet s.f_0 y)) :
    Rearr lo hi s.f_0 (condSwap s x y).f_0
      ∧ listGet (condSwap s x y).f_0 x ≤ listGet (condSwap s x y).f_0 y
      ∧ (listGet (condSwap s x y).f_0 y = listGet s.f_0 x ∨
          listGet (condSwap s x y).f_0 y = listGet s.f_0 y)
      ∧ listGet s.f_0 y ≤ listGet (condSwap s x y).f_0 y
      ∧ ∀ j, j ≠ x → j ≠ y → listGet (condSwap s x y).f_0 j = listGet s.f_0 j := by
  unfold condSwap
  split_ifs with h
  · rw [swap_buffer]
    refine ⟨Rearr.swap lo hi _ x y hx0 hx hy0 hy hxl hxh hyl hyh, ?_, ?_, ?_, ?_⟩
    · rw [listGet_listSwap_left _ _ _ hx0 hx, listGet_listSwap_right _ _ _ hy0 hy]
      exact olt_le O h
    · left; exact listGet_listSwap_right _ _ _ hy0 hy
    · rw [listGet_listSwap_right _ _ _ hy0 hy]; exact olt_le O h
    · intro j h1 h2; exact listGet_listSwap_ne _ _ _ _ h1 h2
  · exact ⟨Rearr.refl _ _ _, ole_of_not_lt O ny nx h, Or.inr rfl, O.le_refl _ ny, fun _ _ _ => rfl⟩

/-! ### the median-of-three step -/

/-- full(∀α): the median-of-three step is a swap followed by three conditional swaps -/
theorem med3_eq (s : Data α) (low high : Int) :
    med3 s low high
      = condSwap (condSwap (condSwap (Data.swap s (udiv (low + high) 2) (low + 1)).2 low high)
          (low + 1) high) low (low + 1) := rfl

/-- full(∀α): on NaN-free data the median-of-three step rearranges the window `[low, high]` and establishes
    `a[low] ≤ a[low+1] ≤ a[high]` -/
theorem med3_spec (O : OrderLaws α) (s : Data α) (low high : Int) (hlow : 0 ≤ low)
    (hlh : low + 2 ≤ high) (hhigh : high < s.f_0.length) (hnn : ∀ x ∈ s.f_0, NN x) :
    Rearr low high s.f_0 (med3 s low high).f_0
      ∧ listGet (med3 s low high).f_0 low ≤ listGet (med3 s low high).f_0 (low + 1)
      ∧ listGet (med3 s low high).f_0 (low + 1) ≤ listGet (med3 s low high).f_0 high := by
  rw [med3_eq]
  have hm : udiv (low + high) 2 = (low + high) / 2 := by unfold udiv; simp
  have r1 : Rearr low high s.f_0 (Data.swap s (udiv (low + high) 2) (low + 1)).2.f_0 := by
    rw [swap_buffer, hm]
    exact Rearr.swap low high _ _ _ (by omega) (by omega) (by omega) (by omega) (by omega)
      (by omega) (by omega) (by omega)
  generalize (Data.swap s (udiv (low + high) 2) (low + 1)).2 = s1 at r1 ⊢
  have l1 := r1.length
  have n1 := nn_perm hnn r1.perm
  obtain ⟨r2, o2, c2, mx2, f2⟩ := condSwap_spec O s1 low high low high hlow (by omega) (by omega)
    (by omega) (le_refl _) (by omega) (by omega) (le_refl _)
    (nn_get n1 _ hlow (by omega)) (nn_get n1 _ (by omega) (by omega))
  generalize condSwap s1 low high = s2 at r2 o2 c2 mx2 f2 ⊢
  have l2 := r2.length
  have n2 := nn_perm n1 r2.perm
  obtain ⟨r3, o3, c3, mx3, f3⟩ := condSwap_spec O s2 (low + 1) high low high (by omega) (by omega)
    (by omega) (by omega) (by omega) (by omega) (by omega) (le_refl _)
    (nn_get n2 _ (by omega) (by omega)) (nn_get n2 _ (by omega) (by omega))
  generalize condSwap s2 (low + 1) high = s3 at r3 o3 c3 mx3 f3 ⊢
  have l3 := r3.length
  have n3 := nn_perm n2 r3.perm
  obtain ⟨r4, o4, c4, mx4, f4⟩ := condSwap_spec O s3 low (low + 1) low high hlow (by omega)
    (by omega) (by omega) (le_refl _) (by omega) (by omega) (by omega)
    (nn_get n3 _ hlow (by omega)) (nn_get n3 _ (by omega) (by omega))
  refine ⟨((r1.trans r2).trans r3).trans r4, o4, ?_⟩
  rw [f4 high (by omega) (by omega)]
  have e3 : listGet s3.f_0 low = listGet s2.f_0 low := f3 low (by omega) (by omega)
  rcases c4 with c4 | c4
  · rw [c4, e3]; exact O.le_trans _ _ _ o2 mx3
  · rw [c4]; exact o3

/-! ### the partition loop -/

/-- full(∀α): partition loop, total version, on NaN-free data.  Started with `a[c] = p`, `a[c..=b] ≤ p`,
    `a[e..=hi] ≥ p` (`c ≤ b ≤ e ≤ hi`, `b < hi`, `c < e`), a buffer no longer than the inner fuel and outer fuel
    `≥ e - b + 1`, it exits normally with crossed scan positions `e' < b'`, having only moved cells strictly
    between `c` and `hi`, and `a[c..b') ≤ p ≤ a(e'..=hi]`. -/
theorem loop112_run (O : OrderLaws α) (fuel : ℕ) (p : α) (s : Data α) (c hi b e : Int)
    (hn : s.f_0.length ≤ loopFuel) (hnn : ∀ x ∈ s.f_0, NN x)
    (hc0 : 0 ≤ c) (hcb : c ≤ b) (hbe : b ≤ e) (hce : c < e) (hbh : b < hi) (heh : e ≤ hi)
    (hhn : hi < s.f_0.length) (hcell : listGet s.f_0 c = p)
    (hleft : ∀ i, c ≤ i → i ≤ b → listGet s.f_0 i ≤ p)
    (hright : ∀ j, e ≤ j → j ≤ hi → p ≤ listGet s.f_0 j)
    (hfuel : (e - b + 1).toNat ≤ fuel) :
    ∃ b' e' s', Data.select_inplace.loop112 fuel p b e s = LoopR.done (b', e', s')
      ∧ Rearr (c + 1) (hi - 1) s.f_0 s'.f_0 ∧ e' < b' ∧ c ≤ e' ∧ e' < e ∧ b < b' ∧ b' ≤ hi
      ∧ (∀ i, c ≤ i → i < b' → listGet s'.f_0 i ≤ p)
      ∧ (∀ j, e' < j → j ≤ hi → p ≤ listGet s'.f_0 j) := by
  induction fuel generalizing s b e with
  | zero => omega
  | succ n ih =>
    have np : NN p := by rw [← hcell]; exact nn_get hnn _ hc0 (by omega)
    obtain ⟨b1, hb1, u1, u2, u3, u4⟩ := SelectCorrect.loop213_run loopFuel p s b (max (b + 1) e)
      (by omega) (hright _ (by omega) (by omega)) (by omega)
    obtain ⟨e1, he1, d1, d2, d3, d4⟩ := SelectCorrect.loop215_run loopFuel p s e c hc0 hce
      (by rw [hcell]; exact O.le_refl _ np) (by omega)
    have left' : ∀ i, c ≤ i → i < b1 → listGet s.f_0 i ≤ p := by
      intro i h1 h2
      by_cases hib : i ≤ b
      · exact hleft i h1 hib
      · exact ole_of_not_le O np (nn_get hnn _ (by omega) (by omega)) (u4 i (by omega) h2)
    have right' : ∀ j, e1 < j → j ≤ hi → p ≤ listGet s.f_0 j := by
      intro j h1 h2
      by_cases hje : e ≤ j
      · exact hright j hje h2
      · exact ole_of_not_le O (nn_get hnn _ (by omega) (by omega)) np (d4 j h1 (by omega))
    rw [Data.select_inplace.loop112, hb1]
    simp only []
    rw [he1]
    simp only []
    by_cases hlt : e1 < b1
    · refine ⟨b1, e1, s, by simp [hlt], Rearr.refl _ _ _, hlt, d1, d2, u1, by omega, left', right'⟩
    · have hb1e1 : b1 ≤ e1 := by omega
      have rs : Rearr (c + 1) (hi - 1) s.f_0 (Data.swap s b1 e1).2.f_0 := by
        rw [swap_buffer]
        exact Rearr.swap _ _ _ _ _ (by omega) (by omega) (by omega) (by omega) (by omega)
          (by omega) (by omega) (by omega)
      have gl : listGet (Data.swap s b1 e1).2.f_0 b1 = listGet s.f_0 e1 := by
        rw [swap_buffer]; exact listGet_listSwap_left _ _ _ (by omega) (by omega)
      have gr : listGet (Data.swap s b1 e1).2.f_0 e1 = listGet s.f_0 b1 := by
        rw [swap_buffer]; exact listGet_listSwap_right _ _ _ (by omega) (by omega)
      have gn : ∀ j, j ≠ b1 → j ≠ e1 → listGet (Data.swap s b1 e1).2.f_0 j = listGet s.f_0 j := by
        intro j h1 h2; rw [swap_buffer]; exact listGet_listSwap_ne _ _ _ _ h1 h2
      obtain ⟨b', e', s', hrun, r', q1, q2, q3, q4, q5, q6, q7⟩ :=
        ih (Data.swap s b1 e1).2 b1 e1 (by rw [rs.length]; exact hn) (nn_perm hnn rs.perm)
          (by omega) hb1e1 (by omega)
          (by omega) (by omega) (by rw [rs.length]; exact hhn)
          (by rw [gn c (by omega) (by omega)]; exact hcell)
          (by
            intro i h1 h2
            by_cases hi1 : i = b1
            · rw [hi1, gl]; exact d3
            · rw [gn i hi1 (by omega)]; exact left' i h1 (by omega))
          (by
            intro j h1 h2
            by_cases hj1 : j = e1
            · rw [hj1, gr]; exact u3
            · rw [gn j (by omega) hj1]; exact right' j (by omega) h2)
          (by omega)
      refine ⟨b', e', s', ?_, rs.trans r', q1, q2, by omega, by omega, q5, q6, q7⟩
      simp only [hlt, if_false]
      exact hrun

end Statrs.Lemmas.SelectFloat
