/-
  Statrs.Draft.Lemmas.SelectValue — the VALUE returned by the generated quickselect `Data.select_inplace`, for
  every carrier `α` (complements `Statrs.Lemmas.Select`, which is about the buffer): whenever the call does not
  end in the panic value (fuel exhaustion), the value handed back is the cell `rank` of the permuted buffer it
  hands back — in particular it is one of the original entries.
-/
import Statrs.Lemmas.Select
set_option linter.unusedSectionVars false
namespace Statrs.Lemmas.Select
open Statrs Statrs.Gen

variable {α : Type} [Add α] [Sub α] [Mul α] [Div α] [Neg α] [LT α] [LE α] [BEq α]
  [DecidableLT α] [DecidableLE α] [OfScientific α] [Inhabited α] [RFun α]

/-- full(∀α): the partition loop never takes an early `return` -/
theorem loop112_not_ret (fuel : ℕ) (pivot : α) (self : Data α) (b0 e0 : Int) (v : α × Data α) :
    Data.select_inplace.loop112 fuel pivot b0 e0 self ≠ LoopR.ret v := by
  induction fuel generalizing self b0 e0 with
  | zero => simp [Data.select_inplace.loop112]
  | succ n ih =>
    rw [Data.select_inplace.loop112]
    cases h1 : Data.select_inplace.loop213 loopFuel pivot self b0 with
    | ret w => exact absurd h1 (loop213_not_ret _ _ _ _ _)
    | hang => simp
    | done b =>
      simp only []
      cases h2 : Data.select_inplace.loop215 loopFuel pivot self e0 with
      | ret w => exact absurd h2 (loop215_not_ret _ _ _ _ _)
      | hang => simp
      | done e =>
        simp only []
        by_cases hlt : e < b
        · simp [hlt]
        · simp only [hlt, if_false]; exact ih _ _ _

/-- full(∀α): whatever the outer loop returns is `(buffer[rank], buffer)` -/
theorem loop1_ret_value (fuel : ℕ) (rank : Int) (self : Data α) (high low : Int) (v : α × Data α)
    (h : Data.select_inplace.loop1 fuel rank self high low = LoopR.ret v) :
    v.1 = listGet v.2.f_0 rank := by
  induction fuel generalizing self high low with
  | zero => simp [Data.select_inplace.loop1] at h
  | succ n ih =>
    by_cases hs : high ≤ low + 1
    · rw [loop1_small _ _ _ _ _ hs] at h
      cases h; rfl
    · rw [loop1_step _ _ _ _ _ hs] at h
      revert h
      cases h112 : Data.select_inplace.loop112 loopFuel (listGet (med3 self low high).f_0 (low + 1))
          (low + 1) high (med3 self low high) with
      | ret w => exact absurd h112 (loop112_not_ret _ _ _ _ _ _)
      | hang => intro h; cases h
      | done t =>
        obtain ⟨b, e, s⟩ := t
        intro h
        exact ih _ _ _ h

/-- full(∀α): `select_inplace(rank)` with `0 < rank ≤ len − 1` that does not end in the panic value returns
    the cell `rank` of the buffer it hands back, which is a permutation of the input buffer; so the value is an
    entry of the input -/
theorem select_inplace_inner_value (self : Data α) (rank : Int) (hok : DataOK self.f_0) (h0 : 0 < rank)
    (h1 : rank < self.f_0.length) (hnp : (Data.select_inplace self rank).2.f_0 ≠ []) :
    (Data.select_inplace self rank).1 = listGet (Data.select_inplace self rank).2.f_0 rank ∧
    (Data.select_inplace self rank).2.f_0.Perm self.f_0 ∧
    (Data.select_inplace self rank).1 ∈ self.f_0 := by
  have hperm : (Data.select_inplace self rank).2.f_0.Perm self.f_0 := by
    rcases select_inplace_permOrPanic self rank hok with h | h
    · exact h
    · exact absurd h hnp
  have hval : (Data.select_inplace self rank).1 = listGet (Data.select_inplace self rank).2.f_0 rank := by
    revert hnp
    unfold Data.select_inplace
    have hr0 : ¬ rank = 0 := by omega
    have hlen : ¬ usub (Data.len self) 1 < rank := by
      unfold usub Data.len listLen
      split_ifs <;> omega
    simp only [hr0, hlen, if_false]
    cases hl : Data.select_inplace.loop1 loopFuel rank self (usub (Data.len self) 1) 0 with
    | ret v => intro _; exact loop1_ret_value _ _ _ _ _ _ hl
    | hang => intro hnp; exact absurd panicV_buffer hnp
    | done t => intro hnp; exact absurd panicV_buffer hnp
  refine ⟨hval, hperm, ?_⟩
  rw [hval]
  exact hperm.mem_iff.1 (listGet_mem _ _ (by omega) (by rw [hperm.length_eq]; exact h1))

end Statrs.Lemmas.Select
