/-
  Statrs.Lemmas.SpecialCdf — helper lemmas for C01/C02 on the families whose cdf/sf go through
  `SF.gamma_lr` / `SF.gamma_ur` / `SF.beta_reg`, and on Bernoulli / DiscreteUniform / Geometric.

  * `…_cdf_real`, `…_sf_real`: the generated definitions over ℝ with the IEEE-only guards
    (`isInf`, `isNaN`, `ulpsEq`) evaluated, everything else verbatim (argument shapes untouched).
  * arithmetic facts about the arguments handed to the special functions;
  * lattice (k ↦ k+1) steps in exactly the argument shapes the code uses, derived from the
    premises in `Statrs.Spec.Incomplete`.
-/
import Statrs.Real.Simp
import Statrs.Spec.SFSpec_incomplete
import Statrs.Gen.D_gamma
import Statrs.Gen.D_chi
import Statrs.Gen.D_inverse_gamma
import Statrs.Gen.D_beta
import Statrs.Gen.D_students_t
import Statrs.Gen.D_fisher_snedecor
import Statrs.Gen.D_binomial
import Statrs.Gen.D_negative_binomial
import Statrs.Gen.D_poisson
import Statrs.Gen.D_bernoulli
import Mathlib.Tactic
namespace Statrs.Lemmas.SpecialCdf
open Statrs Statrs.Gen Statrs.Spec.Incomplete

/-! ### generic -/

/-- a real sequence on ℤ that does not decrease at any step `k → k+1` (k ≥ 0) is monotone on `k ≥ 0` -/
theorem int_mono_of_step {f : ℤ → ℝ} (h : ∀ k, 0 ≤ k → f k ≤ f (k + 1)) {j k : ℤ}
    (hj : 0 ≤ j) (hjk : j ≤ k) : f j ≤ f k := by
  induction k, hjk using Int.leInduction with
  | base => exact le_rfl
  | succ k hk ih => exact ih.trans (h k (hj.trans hk))

/-- same, for non-increasing steps -/
theorem int_anti_of_step {f : ℤ → ℝ} (h : ∀ k, 0 ≤ k → f (k + 1) ≤ f k) {j k : ℤ}
    (hj : 0 ≤ j) (hjk : j ≤ k) : f k ≤ f j := by
  induction k, hjk using Int.leInduction with
  | base => exact le_rfl
  | succ k hk ih => exact (h k (hj.trans hk)).trans ih

theorem usub_of_le {a b : ℤ} (h : b ≤ a) : usub a b = a - b := by
  unfold usub; rw [if_neg (not_lt.mpr h)]

/-! ### arguments handed to the special functions -/

/-- the argument `h = ν / (ν + k²)` that `StudentsT::cdf`/`sf` hand to `beta_reg` -/
noncomputable def tArg (d : StudentsT ℝ) (x : ℝ) : ℝ :=
  d.f_freedom / (d.f_freedom + (x - d.f_location) / d.f_scale * ((x - d.f_location) / d.f_scale))

/-- the argument `d₁x / (d₁x + d₂)` of `FisherSnedecor::cdf` -/
noncomputable def fArg (d : FisherSnedecor ℝ) (x : ℝ) : ℝ :=
  d.f_freedom_1 * x / (d.f_freedom_1 * x + d.f_freedom_2)


theorem tArg_pos (d : StudentsT ℝ) (hν : 0 < d.f_freedom) (x : ℝ) : 0 < tArg d x := by
  unfold tArg; have := mul_self_nonneg ((x - d.f_location) / d.f_scale); positivity

theorem tArg_le_one (d : StudentsT ℝ) (hν : 0 < d.f_freedom) (x : ℝ) : tArg d x ≤ 1 := by
  unfold tArg
  have := mul_self_nonneg ((x - d.f_location) / d.f_scale)
  rw [div_le_one (by linarith)]; linarith

/-- `h` shrinks when `|x − μ|` grows -/
theorem tArg_le_of_sq_le (d : StudentsT ℝ) (hν : 0 < d.f_freedom) {x y : ℝ}
    (h : (y - d.f_location) / d.f_scale * ((y - d.f_location) / d.f_scale)
       ≤ (x - d.f_location) / d.f_scale * ((x - d.f_location) / d.f_scale)) :
    tArg d x ≤ tArg d y := by
  unfold tArg
  have := mul_self_nonneg ((y - d.f_location) / d.f_scale)
  apply div_le_div_of_nonneg_left hν.le (by linarith) (by linarith)

theorem fArg_nonneg (d : FisherSnedecor ℝ) (h1 : 0 < d.f_freedom_1) (h2 : 0 < d.f_freedom_2)
    {x : ℝ} (hx : 0 ≤ x) : 0 ≤ fArg d x := by
  unfold fArg; have := mul_nonneg h1.le hx; positivity

theorem fArg_le_one (d : FisherSnedecor ℝ) (h1 : 0 < d.f_freedom_1) (h2 : 0 < d.f_freedom_2)
    {x : ℝ} (hx : 0 ≤ x) : fArg d x ≤ 1 := by
  unfold fArg; have := mul_nonneg h1.le hx
  rw [div_le_one (by linarith)]; linarith

theorem fArg_mono (d : FisherSnedecor ℝ) (h1 : 0 < d.f_freedom_1) (h2 : 0 < d.f_freedom_2)
    {x y : ℝ} (hx : 0 ≤ x) (hxy : x ≤ y) : fArg d x ≤ fArg d y := by
  unfold fArg
  have hx' := mul_nonneg h1.le hx
  have hy' := mul_nonneg h1.le (hx.trans hxy)
  rw [div_le_div_iff₀ (by linarith) (by linarith)]
  have : d.f_freedom_1 * x ≤ d.f_freedom_1 * y := mul_le_mul_of_nonneg_left hxy h1.le
  nlinarith

theorem fArg_zero (d : FisherSnedecor ℝ) : fArg d 0 = 0 := by unfold fArg; simp

theorem bernoulli_cdf_real (d : Bernoulli ℝ) (k : ℤ) :
    Bernoulli.cdf d k = if 1 ≤ k then 1 else 1 - d.f_b.f_p := by
  unfold Bernoulli.cdf Binomial.p; split_ifs <;> norm_num

section SFR
variable [SF ℝ]

/-! ### normal forms over ℝ -/

/-- Unconditional normal form of `Gamma.cdf` over ℝ: the `scaled == 0.0` guard (a21bb2d) survives as
`x * rate = 0`; the `is_infinite` guards vanish (`RFun.isInf = false` over ℝ). -/
theorem gamma_cdf_real_full (d : Gamma ℝ) (x : ℝ) :
    Gamma.cdf d x = if x ≤ 0 then 0 else if x * d.f_rate = 0 then 0
      else SF.gamma_lr d.f_shape (x * d.f_rate) := by
  unfold Gamma.cdf; rfun_norm; norm_num

theorem gamma_sf_real_full (d : Gamma ℝ) (x : ℝ) :
    Gamma.sf d x = if x ≤ 0 then 1 else if x * d.f_rate = 0 then 1
      else SF.gamma_ur d.f_shape (x * d.f_rate) := by
  unfold Gamma.sf; rfun_norm; norm_num

/-- For a non-zero rate (the constructor enforces `0 < rate`) the `scaled == 0.0` guard is vacuous
beyond `x ≤ 0`. -/
theorem gamma_cdf_real (d : Gamma ℝ) (x : ℝ) (hr : d.f_rate ≠ 0) :
    Gamma.cdf d x = if x ≤ 0 then 0 else SF.gamma_lr d.f_shape (x * d.f_rate) := by
  rw [gamma_cdf_real_full]
  split_ifs with h1 h2
  · rfl
  · exact absurd h2 (mul_ne_zero (by intro h; exact h1 h.le) hr)
  · rfl

theorem gamma_sf_real (d : Gamma ℝ) (x : ℝ) (hr : d.f_rate ≠ 0) :
    Gamma.sf d x = if x ≤ 0 then 1 else SF.gamma_ur d.f_shape (x * d.f_rate) := by
  rw [gamma_sf_real_full]
  split_ifs with h1 h2
  · rfl
  · exact absurd h2 (mul_ne_zero (by intro h; exact h1 h.le) hr)
  · rfl

theorem chi_cdf_real (d : Chi) (x : ℝ) :
    Chi.cdf d x = if x = (RFun.inf : ℝ) then 1 else if x ≤ 0 then 0
      else SF.gamma_lr ((d.f_freedom : ℝ) / 2) (x * x / 2) := by
  unfold Chi.cdf Chi.freedom; simp only [real_beq, rfun_ofInt]; norm_num

theorem chi_sf_real (d : Chi) (x : ℝ) :
    Chi.sf d x = if x = (RFun.inf : ℝ) then 0 else if x ≤ 0 then 1
      else SF.gamma_ur ((d.f_freedom : ℝ) / 2) (x * x / 2) := by
  unfold Chi.sf Chi.freedom; simp only [real_beq, rfun_ofInt]; norm_num

theorem inverse_gamma_cdf_real (d : InverseGamma ℝ) (x : ℝ) :
    InverseGamma.cdf d x = if x ≤ 0 then 0 else SF.gamma_ur d.f_shape (d.f_rate / x) := by
  unfold InverseGamma.cdf; rfun_norm; norm_num

theorem inverse_gamma_sf_real (d : InverseGamma ℝ) (x : ℝ) :
    InverseGamma.sf d x = if x ≤ 0 then 1 else SF.gamma_lr d.f_shape (d.f_rate / x) := by
  unfold InverseGamma.sf; rfun_norm; norm_num

theorem beta_cdf_real (d : Beta ℝ) (x : ℝ) :
    Beta.cdf d x = if x < 0 then 0 else if 1 ≤ x then 1
      else if d.f_shape_a = 1 ∧ d.f_shape_b = 1 then x
      else SF.beta_reg d.f_shape_a d.f_shape_b x := by
  unfold Beta.cdf; rfun_norm; norm_num

theorem beta_sf_real (d : Beta ℝ) (x : ℝ) :
    Beta.sf d x = if x < 0 then 1 else if 1 ≤ x then 0
      else if d.f_shape_a = 1 ∧ d.f_shape_b = 1 then 1 - x
      else SF.beta_reg d.f_shape_b d.f_shape_a (1 - x) := by
  unfold Beta.sf; rfun_norm; norm_num

theorem students_t_cdf_real (d : StudentsT ℝ) (x : ℝ) :
    StudentsT.cdf d x =
      if x ≤ d.f_location then 0.5 * SF.beta_reg (d.f_freedom / 2) 0.5 (tArg d x)
      else 1 - 0.5 * SF.beta_reg (d.f_freedom / 2) 0.5 (tArg d x) := by
  unfold StudentsT.cdf tArg; rfun_norm; norm_num

theorem students_t_sf_real (d : StudentsT ℝ) (x : ℝ) :
    StudentsT.sf d x =
      if x ≤ d.f_location then 1 - 0.5 * SF.beta_reg (d.f_freedom / 2) 0.5 (tArg d x)
      else 0.5 * SF.beta_reg (d.f_freedom / 2) 0.5 (tArg d x) := by
  unfold StudentsT.sf tArg; rfun_norm; norm_num

theorem fisher_snedecor_cdf_real (d : FisherSnedecor ℝ) (x : ℝ) :
    FisherSnedecor.cdf d x = if x < 0 then 0
      else SF.beta_reg (d.f_freedom_1 / 2) (d.f_freedom_2 / 2) (fArg d x) := by
  unfold FisherSnedecor.cdf fArg; rfun_norm; norm_num

theorem fisher_snedecor_sf_real (d : FisherSnedecor ℝ) (x : ℝ) :
    FisherSnedecor.sf d x = if x < 0 then 1
      else SF.beta_reg (d.f_freedom_2 / 2) (d.f_freedom_1 / 2) (1 - fArg d x) := by
  unfold FisherSnedecor.sf fArg; rfun_norm; norm_num

theorem binomial_cdf_real (d : Binomial ℝ) (k : ℤ) :
    Binomial.cdf d k = if d.f_n ≤ k then 1
      else SF.beta_reg (((d.f_n - k : ℤ) : ℝ)) ((k : ℝ) + 1) (1 - d.f_p) := by
  unfold Binomial.cdf; rfun_norm
  split_ifs with h
  · norm_num
  · rw [usub_of_le (le_of_lt (not_le.mp h))]; norm_num

theorem binomial_sf_real (d : Binomial ℝ) (k : ℤ) :
    Binomial.sf d k = if d.f_n ≤ k then 0
      else SF.beta_reg ((k : ℝ) + 1) (((d.f_n - k : ℤ) : ℝ)) d.f_p := by
  unfold Binomial.sf; rfun_norm
  split_ifs with h
  · norm_num
  · rw [usub_of_le (le_of_lt (not_le.mp h))]; norm_num

theorem negative_binomial_cdf_real (d : NegativeBinomial ℝ) (k : ℤ) :
    NegativeBinomial.cdf d k = SF.beta_reg d.f_r ((k : ℝ) + 1) d.f_p := by
  unfold NegativeBinomial.cdf; rfun_norm; norm_num

theorem negative_binomial_sf_real (d : NegativeBinomial ℝ) (k : ℤ) :
    NegativeBinomial.sf d k = SF.beta_reg ((k : ℝ) + 1) d.f_r (1 - d.f_p) := by
  unfold NegativeBinomial.sf; rfun_norm; norm_num

theorem poisson_cdf_real (d : Poisson ℝ) (k : ℤ) :
    Poisson.cdf d k = SF.gamma_ur ((k : ℝ) + 1) d.f_lambda := by
  unfold Poisson.cdf; rfun_norm; norm_num

theorem poisson_sf_real (d : Poisson ℝ) (k : ℤ) :
    Poisson.sf d k = SF.gamma_lr ((k : ℝ) + 1) d.f_lambda := by
  unfold Poisson.sf; rfun_norm; norm_num

theorem bernoulli_sf_real (d : Bernoulli ℝ) (k : ℤ) : Bernoulli.sf d k = Binomial.sf d.f_b k := rfl

/-! ### lattice steps in the code's argument shapes -/

/-- Binomial cdf step: `I_q(n−k, k+1) ≤ I_q(n−(k+1), (k+1)+1)` when `k+1 < n` -/
theorem binomial_cdf_step (T : BetaShiftSpec) {n k : ℤ} (hk : 0 ≤ k) (hkn : k + 1 < n) {q : ℝ}
    (hq0 : 0 ≤ q) (hq1 : q ≤ 1) :
    SF.beta_reg (((n - k : ℤ) : ℝ)) ((k : ℝ) + 1) q
      ≤ SF.beta_reg (((n - (k + 1) : ℤ) : ℝ)) (((k + 1 : ℤ) : ℝ) + 1) q := by
  have ha : (0 : ℝ) < ((n - (k + 1) : ℤ) : ℝ) := by exact_mod_cast (by omega : 0 < n - (k + 1))
  have hb : (0 : ℝ) < (k : ℝ) + 1 := by exact_mod_cast (by omega : 0 < k + 1)
  have e1 : ((n - k : ℤ) : ℝ) = ((n - (k + 1) : ℤ) : ℝ) + 1 := by push_cast; ring
  have e2 : ((k + 1 : ℤ) : ℝ) + 1 = ((k : ℝ) + 1) + 1 := by push_cast; ring
  rw [e1, e2]
  exact (T.anti_a _ _ _ ha hb hq0 hq1).trans (T.mono_b _ _ _ ha hb hq0 hq1)

/-- NegativeBinomial cdf step: `I_p(r, k+1) ≤ I_p(r, (k+1)+1)` -/
theorem negative_binomial_cdf_step (T : BetaShiftSpec) {r : ℝ} (hr : 0 < r) {k : ℤ} (hk : 0 ≤ k)
    {p : ℝ} (hp0 : 0 ≤ p) (hp1 : p ≤ 1) :
    SF.beta_reg r ((k : ℝ) + 1) p ≤ SF.beta_reg r (((k + 1 : ℤ) : ℝ) + 1) p := by
  have hb : (0 : ℝ) < (k : ℝ) + 1 := by exact_mod_cast (by omega : 0 < k + 1)
  have e2 : ((k + 1 : ℤ) : ℝ) + 1 = ((k : ℝ) + 1) + 1 := by push_cast; ring
  rw [e2]; exact T.mono_b _ _ _ hr hb hp0 hp1

/-- Binomial sf step: `I_p((k+1)+1, n−(k+1)) ≤ I_p(k+1, n−k)` when `k+1 < n` -/
theorem binomial_sf_step (T : BetaShiftSpec) {n k : ℤ} (hk : 0 ≤ k) (hkn : k + 1 < n) {p : ℝ}
    (hp0 : 0 ≤ p) (hp1 : p ≤ 1) :
    SF.beta_reg (((k + 1 : ℤ) : ℝ) + 1) (((n - (k + 1) : ℤ) : ℝ)) p
      ≤ SF.beta_reg ((k : ℝ) + 1) (((n - k : ℤ) : ℝ)) p := by
  have hb : (0 : ℝ) < ((n - (k + 1) : ℤ) : ℝ) := by exact_mod_cast (by omega : 0 < n - (k + 1))
  have ha : (0 : ℝ) < (k : ℝ) + 1 := by exact_mod_cast (by omega : 0 < k + 1)
  have e1 : ((n - k : ℤ) : ℝ) = ((n - (k + 1) : ℤ) : ℝ) + 1 := by push_cast; ring
  have e2 : ((k + 1 : ℤ) : ℝ) + 1 = ((k : ℝ) + 1) + 1 := by push_cast; ring
  rw [e1, e2]
  exact (T.anti_a _ _ _ ha hb hp0 hp1).trans (T.mono_b _ _ _ ha hb hp0 hp1)

/-- NegativeBinomial sf step: `I_q((k+1)+1, r) ≤ I_q(k+1, r)` -/
theorem negative_binomial_sf_step (T : BetaShiftSpec) {r : ℝ} (hr : 0 < r) {k : ℤ} (hk : 0 ≤ k)
    {q : ℝ} (hq0 : 0 ≤ q) (hq1 : q ≤ 1) :
    SF.beta_reg (((k + 1 : ℤ) : ℝ) + 1) r q ≤ SF.beta_reg ((k : ℝ) + 1) r q := by
  have ha : (0 : ℝ) < (k : ℝ) + 1 := by exact_mod_cast (by omega : 0 < k + 1)
  have e2 : ((k + 1 : ℤ) : ℝ) + 1 = ((k : ℝ) + 1) + 1 := by push_cast; ring
  rw [e2]; exact T.anti_a _ _ _ ha hr hq0 hq1

/-- Poisson sf step: `P((k+1)+1, λ) ≤ P(k+1, λ)` -/
theorem poisson_lr_step (T : GammaShiftSpec) {k : ℤ} (hk : 0 ≤ k) {l : ℝ} (hl : 0 < l) :
    SF.gamma_lr (((k + 1 : ℤ) : ℝ) + 1) l ≤ SF.gamma_lr ((k : ℝ) + 1) l := by
  have hb : (0 : ℝ) < (k : ℝ) + 1 := by exact_mod_cast (by omega : 0 < k + 1)
  have e2 : ((k + 1 : ℤ) : ℝ) + 1 = ((k : ℝ) + 1) + 1 := by push_cast; ring
  rw [e2]; exact T.lr_shift _ _ hb hl

end SFR

end Statrs.Lemmas.SpecialCdf
