/-
  Statrs.Lemmas.Stats — helper lemmas for C13 (streaming descriptive statistics):
  spec-side algebra on list sums and the accumulator-generalised loop invariants of the
  generated `IterStatistics.*.loopN` definitions over ℝ.
-/
import Statrs.Real.Simp
import Statrs.Gen.S_iter_statistics
import Statrs.Spec.Stats
import Mathlib.Tactic
namespace Statrs.Lemmas.Stats
open Statrs Statrs.Gen

theorem lit_one : (1.0 : ℝ) = 1 := by norm_num
theorem lit_zero : (0.0 : ℝ) = 0 := by norm_num

/-! ### spec-side algebra -/

/-- `Σ (x - m)² = Σ x² - 2 m Σ x + n m²` for every centre `m` -/
theorem sum_sq_sub (l : List ℝ) (m : ℝ) :
    (l.map (fun x => (x - m) ^ 2)).sum
      = (l.map (fun x => x ^ 2)).sum - 2 * m * l.sum + (l.length : ℝ) * m ^ 2 := by
  induction l with
  | nil => simp
  | cons a t ih => simp only [List.map_cons, List.sum_cons, List.length_cons, ih]; push_cast; ring

/-- `Σ (x - x̄)² = Σ x² - (Σ x)² / n` -/
theorem ssd_eq (l : List ℝ) :
    Spec.Stats.ssd l = (l.map (fun x => x ^ 2)).sum - l.sum ^ 2 / (l.length : ℝ) := by
  unfold Spec.Stats.ssd Spec.Stats.mean
  rw [sum_sq_sub]
  by_cases hn : (l.length : ℝ) = 0
  · have : l = [] := by simpa using hn
    subst this; simp
  · field_simp; ring

/-- `Σ (p.1 - a)(p.2 - b)` expanded, on a list of pairs -/
theorem sum_co_sub (zs : List (ℝ × ℝ)) (a b : ℝ) :
    (zs.map (fun p => (p.1 - a) * (p.2 - b))).sum
      = (zs.map (fun p => p.1 * p.2)).sum - a * (zs.map Prod.snd).sum
        - b * (zs.map Prod.fst).sum + (zs.length : ℝ) * a * b := by
  induction zs with
  | nil => simp
  | cons p t ih => simp only [List.map_cons, List.sum_cons, List.length_cons, ih]; push_cast; ring

/-- `Σ (xᵢ - x̄)(yᵢ - ȳ) = Σ xᵢ yᵢ - (Σ x)(Σ y) / n` for samples of equal length -/
theorem coSum_eq (xs ys : List ℝ) (h : xs.length = ys.length) :
    Spec.Stats.coSum xs ys
      = ((xs.zip ys).map (fun p => p.1 * p.2)).sum - xs.sum * ys.sum / (xs.length : ℝ) := by
  unfold Spec.Stats.coSum Spec.Stats.mean
  rw [sum_co_sub]
  have h1 : (xs.zip ys).map Prod.fst = xs := List.map_fst_zip (le_of_eq h)
  have h2 : (xs.zip ys).map Prod.snd = ys := List.map_snd_zip (le_of_eq h.symm)
  have h3 : (xs.zip ys).length = xs.length := by simp [h]
  rw [h1, h2, h3, ← h]
  by_cases hn : (xs.length : ℝ) = 0
  · have : xs = [] := by simpa using hn
    subst this; simp
  · field_simp; ring

/-! ### loop invariants (ℝ), generalised over the accumulator state -/

/-- `mean` loop: starting from count `k` and running mean `m`, the loop ends with count
    `k + |l|` and a mean `m'` with `m' * (k + |l|) = k * m + Σ l`. -/
theorem mean_loop (l : List ℝ) (k : ℕ) (m : ℝ) :
    ∃ m', IterStatistics.mean.loop1 l (k : ℝ) m = LoopR.done (((k + l.length : ℕ) : ℝ), m')
      ∧ m' * ((k + l.length : ℕ) : ℝ) = k * m + l.sum := by
  induction l generalizing k m with
  | nil => exact ⟨m, by simp [IterStatistics.mean.loop1], by simp; ring⟩
  | cons a t ih =>
    unfold IterStatistics.mean.loop1
    have hk : (k : ℝ) + (1.0 : ℝ) = ((k + 1 : ℕ) : ℝ) := by push_cast; norm_num
    obtain ⟨m', e, hm⟩ := ih (k + 1) (m + (a - m) / ((k + 1 : ℕ) : ℝ))
    refine ⟨m', ?_, ?_⟩
    · simp only [hk, e, List.length_cons, LoopR.done.injEq, Prod.mk.injEq, and_true]
      push_cast; ring
    · have h1 : ((k + 1 : ℕ) : ℝ) ≠ 0 := by positivity
      have : k + (a :: t).length = k + 1 + t.length := by simp; omega
      rw [this, hm]
      push_cast at h1 ⊢
      simp only [List.sum_cons]
      field_simp; ring

/-- `quadratic_mean`'s loop is `mean`'s loop on the squared data (every carrier) -/
theorem quadratic_loop_eq {α : Type} [Add α] [Sub α] [Mul α] [Div α] [Neg α] [LT α] [LE α] [BEq α]
    [DecidableLT α] [DecidableLE α] [OfScientific α] [Inhabited α] [RFun α]
    (l : List α) (i m : α) :
    IterStatistics.quadratic_mean.loop1 l i m
      = IterStatistics.mean.loop1 (l.map (fun x => x * x)) i m := by
  induction l generalizing i m with
  | nil => simp [IterStatistics.quadratic_mean.loop1, IterStatistics.mean.loop1]
  | cons a t ih =>
    simp only [List.map_cons]
    unfold IterStatistics.quadratic_mean.loop1 IterStatistics.mean.loop1
    exact ih _ _

/-- `geometric_mean` loop: count and running `Σ log x` -/
theorem geometric_loop (l : List ℝ) (k : ℕ) (s : ℝ) :
    IterStatistics.geometric_mean.loop1 l (k : ℝ) s
      = LoopR.done (((k + l.length : ℕ) : ℝ), s + (l.map Real.log).sum) := by
  induction l generalizing k s with
  | nil => simp [IterStatistics.geometric_mean.loop1]
  | cons a t ih =>
    unfold IterStatistics.geometric_mean.loop1
    have hk : (k : ℝ) + (1.0 : ℝ) = ((k + 1 : ℕ) : ℝ) := by push_cast; norm_num
    simp only [hk, ih, rfun_ln, List.length_cons, List.map_cons, List.sum_cons,
      LoopR.done.injEq, Prod.mk.injEq]
    refine ⟨?_, ?_⟩ <;> (push_cast; ring)

/-- `harmonic_mean` loop without negative entries: count and running `Σ 1/x`
    (the code adds `1 / |x|`; on the entries that pass the `x < 0` early return `|x| = x`) -/
theorem harmonic_loop (l : List ℝ) (k : ℕ) (s : ℝ) (h : ∀ x ∈ l, ¬ x < 0) :
    IterStatistics.harmonic_mean.loop1 l (k : ℝ) s
      = LoopR.done (((k + l.length : ℕ) : ℝ), s + (l.map (fun x => 1 / x)).sum) := by
  induction l generalizing k s with
  | nil => simp [IterStatistics.harmonic_mean.loop1]
  | cons a t ih =>
    unfold IterStatistics.harmonic_mean.loop1
    have hk : (k : ℝ) + (1.0 : ℝ) = ((k + 1 : ℕ) : ℝ) := by push_cast; norm_num
    have ha : ¬ a < (0.0 : ℝ) := by rw [lit_zero]; exact h a (by simp)
    have ht : ∀ x ∈ t, ¬ x < 0 := fun x hx => h x (by simp [hx])
    have haa : RFun.abs a = a := by
      rw [rfun_abs]; exact abs_of_nonneg (not_lt.1 (h a (by simp)))
    simp only [ha, if_false, hk, haa]
    rw [ih _ _ ht]
    simp only [lit_one, List.length_cons, List.map_cons, List.sum_cons,
      LoopR.done.injEq, Prod.mk.injEq]
    refine ⟨?_, ?_⟩ <;> (push_cast; ring)

/-- `variance` loop (Welford/West update in the `i·x − Σ` form): starting from count `k ≥ 1`,
    running sum `S` and running second moment `v`, the loop ends with count `k + |l|`,
    sum `S + Σ l` and a `v'` with `v' + (S + Σ l)² / (k + |l|) = v + S² / k + Σ_{x ∈ l} x²`. -/
theorem variance_loop (l : List ℝ) (k : ℕ) (hk1 : 1 ≤ k) (S v : ℝ) :
    ∃ v', IterStatistics.variance.loop2 l (k : ℝ) S v
        = LoopR.done (((k + l.length : ℕ) : ℝ), S + l.sum, v')
      ∧ v' + (S + l.sum) ^ 2 / ((k + l.length : ℕ) : ℝ)
        = v + S ^ 2 / (k : ℝ) + (l.map (fun x => x ^ 2)).sum := by
  induction l generalizing k S v with
  | nil => exact ⟨v, by simp [IterStatistics.variance.loop2], by simp⟩
  | cons a t ih =>
    unfold IterStatistics.variance.loop2
    have hk : (k : ℝ) + (1.0 : ℝ) = ((k + 1 : ℕ) : ℝ) := by push_cast; norm_num
    obtain ⟨v', e, hv⟩ := ih (k + 1) (by omega) (S + a)
      (v + ((((k + 1 : ℕ) : ℝ) * a - (S + a)) * (((k + 1 : ℕ) : ℝ) * a - (S + a)))
        / (((k + 1 : ℕ) : ℝ) * (((k + 1 : ℕ) : ℝ) - (1.0 : ℝ))))
    refine ⟨v', ?_, ?_⟩
    · simp only [hk, e, List.length_cons, List.sum_cons, LoopR.done.injEq, Prod.mk.injEq,
        and_true]
      refine ⟨?_, ?_⟩ <;> (push_cast; ring)
    · have h0 : (k : ℝ) ≠ 0 := by positivity
      have h1 : ((k : ℝ) + 1) ≠ 0 := by positivity
      have hl : k + (a :: t).length = k + 1 + t.length := by simp; omega
      have hs : S + (a :: t).sum = S + a + t.sum := by simp; ring
      rw [hl, hs, hv, lit_one]
      simp only [List.map_cons, List.sum_cons]
      push_cast
      have hkk : (k : ℝ) + 1 - 1 = k := by ring
      rw [hkk]
      field_simp
      ring

/-- `population_variance`'s loop is `variance`'s loop (every carrier; the extra parameter is the
    shadowed first element) -/
theorem popvar_loop_eq {α : Type} [Add α] [Sub α] [Mul α] [Div α] [Neg α] [LT α] [LE α] [BEq α]
    [DecidableLT α] [DecidableLE α] [OfScientific α] [Inhabited α] [RFun α]
    (l : List α) (x i s v : α) :
    IterStatistics.population_variance.loop2 l x i s v = IterStatistics.variance.loop2 l i s v := by
  induction l generalizing x i s v with
  | nil => simp [IterStatistics.population_variance.loop2, IterStatistics.variance.loop2]
  | cons a t ih =>
    unfold IterStatistics.population_variance.loop2 IterStatistics.variance.loop2
    exact ih _ _ _ _

/-- `covariance` loop on samples of equal length: starting from count `k`, running means
    `m1, m2` and co-moment `c`, it consumes both lists and ends with count `k + |l|`, means with
    `mᵢ' (k+|l|) = k mᵢ + Σ`, and `c' + (k+|l|) m1' m2' = c + k m1 m2 + Σ xᵢ yᵢ`. -/
theorem covariance_loop (l ys : List ℝ) (hlen : l.length = ys.length) (k : ℕ) (m1 m2 c : ℝ) :
    ∃ m1' m2' c', IterStatistics.covariance.loop1 l ys (k : ℝ) m1 m2 c
        = LoopR.done ([], ((k + l.length : ℕ) : ℝ), m1', m2', c')
      ∧ m1' * ((k + l.length : ℕ) : ℝ) = k * m1 + l.sum
      ∧ m2' * ((k + l.length : ℕ) : ℝ) = k * m2 + ys.sum
      ∧ c' + ((k + l.length : ℕ) : ℝ) * m1' * m2'
        = c + k * m1 * m2 + ((l.zip ys).map (fun p => p.1 * p.2)).sum := by
  induction l generalizing ys k m1 m2 c with
  | nil =>
    cases ys with
    | nil => exact ⟨m1, m2, c, by simp [IterStatistics.covariance.loop1], by simp; ring,
        by simp; ring, by simp⟩
    | cons b r => simp at hlen
  | cons a t ih =>
    cases ys with
    | nil => simp at hlen
    | cons b r =>
      unfold IterStatistics.covariance.loop1
      have hk : (k : ℝ) + (1.0 : ℝ) = ((k + 1 : ℕ) : ℝ) := by push_cast; norm_num
      have hlen' : t.length = r.length := by simpa using hlen
      simp only [listNext, hk]
      obtain ⟨m1', m2', c', e, h1, h2, h3⟩ := ih r hlen' (k + 1)
        (m1 + (a - m1) / ((k + 1 : ℕ) : ℝ)) (m2 + (b - m2) / ((k + 1 : ℕ) : ℝ))
        (c + (a - (m1 + (a - m1) / ((k + 1 : ℕ) : ℝ))) * (b - m2))
      have hl : k + (a :: t).length = k + 1 + t.length := by simp; omega
      have hk1 : ((k : ℝ) + 1) ≠ 0 := by positivity
      refine ⟨m1', m2', c', ?_, ?_, ?_, ?_⟩
      · rw [e, hl]
      · rw [hl, h1]; simp only [List.sum_cons]; push_cast; field_simp; ring
      · rw [hl, h2]; simp only [List.sum_cons]; push_cast; field_simp; ring
      · rw [hl, h3]; simp only [List.zip_cons_cons, List.map_cons, List.sum_cons]
        push_cast; field_simp; ring

end Statrs.Lemmas.Stats
