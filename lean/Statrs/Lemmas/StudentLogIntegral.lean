/-
  Logarithmic moment of the Student kernel, by differentiating
      ∫_ℝ |t|^(2a−1) (1 + t²/ν)^(−(a+b)) dt = ν^a Γ(a)Γ(b)/Γ(a+b)      (`Lemmas/MomentIntegralsGamma2.lean`)
  in `b` under the integral sign (dominated: `ln w ≤ w^δ/δ`):
      ∫_ℝ ln(1 + t²/ν) · |t|^(2a−1) (1 + t²/ν)^(−(a+b)) dt = ν^a B(a,b) (ψ(a+b) − ψ(b)).
  Pure Mathlib statements; no model definitions.
-/
import Mathlib
import Statrs.Lemmas.MomentIntegralsGamma2
import Statrs.Lemmas.DigammaIntegral
namespace Statrs.Lemmas.StudentLogIntegral
open MeasureTheory Set Filter Topology Real
open Statrs.Lemmas.Transfer Statrs.Lemmas.DigammaIntegral Statrs.Lemmas.MomentIntegralsGamma

theorem one_le_studentBase {ν : ℝ} (hν : 0 < ν) (t : ℝ) : 1 ≤ 1 + t * t / ν := by
  have := mul_self_nonneg t
  have : 0 ≤ t * t / ν := by positivity
  linarith

theorem hasDerivAt_integral_studentKernel {a b ν : ℝ} (ha : 0 < a) (hb : 0 < b) (hν : 0 < ν) :
    Integrable (fun t : ℝ => |t| ^ (2 * a - 1)
      * (-Real.log (1 + t * t / ν) * (1 + t * t / ν) ^ (-(a + b)))) ∧
    HasDerivAt (fun b' : ℝ => ∫ t : ℝ, |t| ^ (2 * a - 1) * (1 + t * t / ν) ^ (-(a + b')))
      (∫ t : ℝ, |t| ^ (2 * a - 1) * (-Real.log (1 + t * t / ν) * (1 + t * t / ν) ^ (-(a + b)))) b := by
  have hmeasF : ∀ b' : ℝ, AEStronglyMeasurable
      (fun t : ℝ => |t| ^ (2 * a - 1) * (1 + t * t / ν) ^ (-(a + b'))) volume := fun b' =>
    (by measurability : Measurable (fun t : ℝ => |t| ^ (2 * a - 1) * (1 + t * t / ν) ^ (-(a + b')))).aestronglyMeasurable
  have hmeasF' : AEStronglyMeasurable (fun t : ℝ => |t| ^ (2 * a - 1)
      * (-Real.log (1 + t * t / ν) * (1 + t * t / ν) ^ (-(a + b)))) volume :=
    (by measurability : Measurable (fun t : ℝ => |t| ^ (2 * a - 1)
      * (-Real.log (1 + t * t / ν) * (1 + t * t / ν) ^ (-(a + b))))).aestronglyMeasurable
  refine hasDerivAt_integral_of_dominated_loc_of_deriv_le (s := Ioi (b / 2))
    (F := fun (b' : ℝ) (t : ℝ) => |t| ^ (2 * a - 1) * (1 + t * t / ν) ^ (-(a + b')))
    (F' := fun (b' : ℝ) (t : ℝ) => |t| ^ (2 * a - 1)
      * (-Real.log (1 + t * t / ν) * (1 + t * t / ν) ^ (-(a + b'))))
    (bound := fun t => (4 / b) * (|t| ^ (2 * a - 1) * (1 + t * t / ν) ^ (-(a + b / 4))))
    (Ioi_mem_nhds (half_lt_self hb)) (Eventually.of_forall hmeasF)
    (integrable_studentKernel ha hb hν) hmeasF' ?_
    ((integrable_studentKernel ha (by positivity : 0 < b / 4) hν).const_mul _) ?_
  · refine Eventually.of_forall fun t b' hb' => ?_
    have hb'' : b / 2 < b' := hb'
    have hw := one_le_studentBase hν t
    have hw0 : 0 < 1 + t * t / ν := by linarith
    have hlog0 : 0 ≤ Real.log (1 + t * t / ν) := Real.log_nonneg hw
    have hlog : Real.log (1 + t * t / ν) ≤ (1 + t * t / ν) ^ (b / 4) / (b / 4) :=
      Real.log_le_rpow_div hw0.le (by positivity)
    have hmono : (1 + t * t / ν) ^ (-(a + b')) ≤ (1 + t * t / ν) ^ (-(a + b / 2)) :=
      Real.rpow_le_rpow_of_exponent_le hw (by linarith)
    have hpw : 0 ≤ (1 + t * t / ν) ^ (-(a + b')) := (Real.rpow_pos_of_pos hw0 _).le
    have habs : 0 ≤ |t| ^ (2 * a - 1) := Real.rpow_nonneg (abs_nonneg t) _
    rw [norm_mul, norm_mul, norm_neg, Real.norm_of_nonneg habs, Real.norm_of_nonneg hlog0,
      Real.norm_of_nonneg hpw]
    have key : Real.log (1 + t * t / ν) * (1 + t * t / ν) ^ (-(a + b'))
        ≤ 4 / b * (1 + t * t / ν) ^ (-(a + b / 4)) := by
      calc Real.log (1 + t * t / ν) * (1 + t * t / ν) ^ (-(a + b'))
          ≤ ((1 + t * t / ν) ^ (b / 4) / (b / 4)) * (1 + t * t / ν) ^ (-(a + b / 2)) :=
            mul_le_mul hlog hmono hpw (le_trans hlog0 hlog)
        _ = 4 / b * (1 + t * t / ν) ^ (-(a + b / 4)) := by
            rw [show -(a + b / 4) = b / 4 + -(a + b / 2) by ring, Real.rpow_add hw0]
            field_simp
    calc |t| ^ (2 * a - 1) * (Real.log (1 + t * t / ν) * (1 + t * t / ν) ^ (-(a + b')))
        ≤ |t| ^ (2 * a - 1) * (4 / b * (1 + t * t / ν) ^ (-(a + b / 4))) :=
          mul_le_mul_of_nonneg_left key habs
      _ = 4 / b * (|t| ^ (2 * a - 1) * (1 + t * t / ν) ^ (-(a + b / 4))) := by ring
  · refine Eventually.of_forall fun t b' _ => ?_
    have hw0 : 0 < 1 + t * t / ν := by linarith [one_le_studentBase hν t]
    have h1 : HasDerivAt (fun x : ℝ => -(a + x)) (-1) b' :=
      ((hasDerivAt_id' b').const_add a).neg
    have h2 := (h1.const_rpow hw0).const_mul (|t| ^ (2 * a - 1))
    refine h2.congr_deriv ?_
    ring

/-- `∫_ℝ ln(1+t²/ν) · |t|^(2a−1) (1+t²/ν)^(−(a+b)) dt = ν^a B(a,b) (ψ(a+b) − ψ(b))` -/
theorem integral_log_studentKernel {a b ν : ℝ} (ha : 0 < a) (hb : 0 < b) (hν : 0 < ν) :
    Integrable (fun t : ℝ => Real.log (1 + t * t / ν)
      * (|t| ^ (2 * a - 1) * (1 + t * t / ν) ^ (-(a + b)))) ∧
    ∫ t : ℝ, Real.log (1 + t * t / ν) * (|t| ^ (2 * a - 1) * (1 + t * t / ν) ^ (-(a + b)))
      = ν ^ a * (Real.Gamma a * Real.Gamma b / Real.Gamma (a + b)) * (psi (a + b) - psi b) := by
  obtain ⟨hint, hder⟩ := hasDerivAt_integral_studentKernel ha hb hν
  have hab : 0 < a + b := add_pos ha hb
  have hGab : Real.Gamma (a + b) ≠ 0 := (Real.Gamma_pos_of_pos hab).ne'
  have h1 : HasDerivAt (fun u : ℝ => Real.Gamma (a + u)) (psi (a + b) * Real.Gamma (a + b)) b := by
    have := (hasDerivAt_Gamma_psi hab).comp_const_add a b
    simpa using this
  have h2 := (((hasDerivAt_Gamma_psi hb).const_mul (Real.Gamma a)).div h1 hGab).const_mul (ν ^ a)
  have heq : (fun b' : ℝ => ∫ t : ℝ, |t| ^ (2 * a - 1) * (1 + t * t / ν) ^ (-(a + b')))
      =ᶠ[𝓝 b] fun u => ν ^ a * (Real.Gamma a * Real.Gamma u / Real.Gamma (a + u)) := by
    filter_upwards [lt_mem_nhds hb] with u hu
    exact integral_studentKernel ha hu hν
  have hval := (hder.congr_of_eventuallyEq heq.symm).unique h2
  have e : (fun t : ℝ => Real.log (1 + t * t / ν)
      * (|t| ^ (2 * a - 1) * (1 + t * t / ν) ^ (-(a + b))))
      = fun t => -(|t| ^ (2 * a - 1) * (-Real.log (1 + t * t / ν) * (1 + t * t / ν) ^ (-(a + b)))) := by
    funext t; ring
  refine ⟨by rw [e]; exact hint.neg, ?_⟩
  rw [e, integral_neg, hval]
  field_simp
  ring

end Statrs.Lemmas.StudentLogIntegral
