/-
  Statrs.Lemmas.Tests — helper lemmas for C16–C18 (hypothesis tests): reading the generated
  prologues over ℝ (`fsum`, `listLen`, constructor objects), the sum-of-squares algebra of the
  one-way ANOVA, D'Agostino's constants, and (further down) the hypergeometric tails.
-/
import Statrs.Real.Simp
import Statrs.Gen.T_ttest_onesample
import Statrs.Gen.T_skewtest
import Statrs.Gen.T_chisquare
import Statrs.Gen.T_f_oneway
import Statrs.Spec.Tests
import Statrs.Lemmas.Stats
import Mathlib.Tactic
namespace Statrs.Lemmas.Tests
open Statrs Statrs.Gen
open Spec.Stats Spec.Tests

/-! ### literals, sums, lengths -/

theorem lit_one : (1.0 : ℝ) = 1 := by norm_num
theorem lit_zero : (0.0 : ℝ) = 0 := by norm_num
theorem lit_two : (2.0 : ℝ) = 2 := by norm_num
theorem lit_half : (0.5 : ℝ) = 1 / 2 := by norm_num

/-- Rust's `.iter().sum::<f64>()` over ℝ is the list sum -/
theorem fsum_real (l : List ℝ) : fsum (RFun.sumZero : ℝ) l = l.sum := by
  unfold fsum
  rw [rfun_sumZero, List.sum_eq_foldl]

theorem foldl_int_sum (l : List ℤ) : List.foldl (· + ·) (0:ℤ) l = l.sum := by
  rw [List.sum_eq_foldl]

theorem cast_listLen {β : Type} (l : List β) : ((listLen l : ℤ) : ℝ) = (l.length : ℝ) := by
  simp [listLen]

/-- over ℝ no entry is NaN -/
theorem any_isNaN_real (l : List ℝ) : l.any (fun x => RFun.isNaN x) = false := by
  simp

/-! ### the distribution objects the tests build -/

/-- the `StudentsT(0,1,ν)` object the t-test builds -/
theorem studentsT_new_std (ν : ℝ) (h : 0 < ν) :
    unwrapE (StudentsT.new (0.0 : ℝ) (1.0 : ℝ) ν) = ⟨0, 1, ν⟩ := by
  unfold StudentsT.new
  simp only [rfun_isNaN, lit_one, lit_zero]
  norm_num [not_le.mpr h, unwrapE]

theorem chisq_new (ν : ℝ) (h : 0 < ν) :
    unwrapE (ChiSquared.new (α := ℝ) ν) = ⟨ν, ⟨ν / 2, 1 / 2⟩⟩ := by
  unfold ChiSquared.new Gamma.new
  have : ¬ ν / 2 ≤ 0 := by linarith [half_pos h]
  simp only [rfun_isNaN, rfun_isInf, lit_two, lit_half, lit_zero]
  norm_num [this, unwrapE, exceptMap]

/-- the statistic of the model in spec form -/
theorem chisq_stat (obs e : List ℝ) :
    (List.map (fun p : ℝ × ℝ => match p with | (o, e) => (RFun.powi (o - e) (2 : Int)) / e) (List.zip obs e)).sum
      = Spec.Tests.chiSqStat obs e := by
  unfold Spec.Tests.chiSqStat
  congr 1


theorem chisq_tail [SF ℝ] (obsR E : List ℝ) (dof : ℤ) (h : 0 < dof) :
    (Except.ok (fsum (RFun.sumZero : ℝ) (List.map (fun p : ℝ × ℝ => match p with | (o, e) => (RFun.powi (o - e) (2 : Int)) / e) (List.zip obsR E)),
      (1.0 : ℝ) - ChiSquared.cdf (unwrapE (ChiSquared.new (α := ℝ) (RFun.ofInt dof : ℝ)))
        (fsum (RFun.sumZero : ℝ) (List.map (fun p : ℝ × ℝ => match p with | (o, e) => (RFun.powi (o - e) (2 : Int)) / e) (List.zip obsR E)))) : Except ChiSquareTestError (ℝ × ℝ))
    = .ok (Spec.Tests.chiSqStat obsR E,
        1 - ChiSquared.cdf (⟨(dof : ℝ), ⟨(dof : ℝ) / 2, 1 / 2⟩⟩ : ChiSquared ℝ) (Spec.Tests.chiSqStat obsR E)) := by
  have hpos : (0:ℝ) < (dof : ℝ) := by exact_mod_cast h
  rw [fsum_real, chisq_stat, rfun_ofInt, chisq_new _ hpos, lit_one]

/-! ### one-way ANOVA: sums of squares -/

/-- `Σ_g n_g (ȳ_g − M)² = Σ_g S_g²/n_g − 2 M Σ_g S_g + M² Σ_g n_g` for every centre `M` -/
theorem ssBetween_expand (s : List (List ℝ)) (M : ℝ) :
    (s.map (fun g => (g.length : ℝ) * (mean g - M) ^ 2)).sum
      = (s.map (fun g => g.sum ^ 2 / (g.length : ℝ))).sum - 2 * M * s.flatten.sum
        + M ^ 2 * (s.flatten.length : ℝ) := by
  induction s with
  | nil => simp
  | cons g t ih =>
    simp only [List.map_cons, List.sum_cons, List.flatten_cons, List.sum_append, List.length_append, ih]
    by_cases hg : (g.length : ℝ) = 0
    · have : g = [] := by simpa using hg
      subst this; simp
    · unfold mean; push_cast; field_simp; ring

/-- computational form of the treatment sum of squares: `Σ S_g²/n_g − G²/n = Σ n_g (ȳ_g − ȳ)²` -/
theorem sst_eq (s : List (List ℝ)) :
    (s.map (fun g => g.sum ^ 2 / (g.length : ℝ))).sum - s.flatten.sum ^ 2 / (s.flatten.length : ℝ)
      = ssBetween s := by
  unfold ssBetween
  rw [ssBetween_expand]
  unfold grandMean mean
  by_cases hn : (s.flatten.length : ℝ) = 0
  · have : s.flatten = [] := by
      have h0 : s.flatten.length = 0 := by exact_mod_cast hn
      exact List.eq_nil_of_length_eq_zero h0
    rw [this]; simp
  · field_simp; ring

/-- computational form of the error sum of squares: `ΣΣ y² − Σ S_g²/n_g = ΣΣ (y − ȳ_g)²` -/
theorem sse_eq (s : List (List ℝ)) :
    (s.flatten.map (fun x => x ^ 2)).sum - (s.map (fun g => g.sum ^ 2 / (g.length : ℝ))).sum
      = ssWithin s := by
  unfold ssWithin
  induction s with
  | nil => simp
  | cons g t ih =>
    simp only [List.map_cons, List.sum_cons, List.flatten_cons, List.map_append, List.sum_append, ← ih,
      Lemmas.Stats.ssd_eq]
    ring

theorem fs_new (d1 d2 : ℝ) (h1 : 0 < d1) (h2 : 0 < d2) :
    unwrapE (FisherSnedecor.new (α := ℝ) d1 d2) = ⟨d1, d2⟩ := by
  unfold FisherSnedecor.new
  simp only [rfun_isFinite, lit_zero, not_true_eq_false, false_or, not_le.mpr h1, not_le.mpr h2, if_false, unwrapE]

/-- the model's "all entries of the group are the same constant" check -/
theorem const_check (g : List ℝ) :
    (if ((1 : Int) < (listLen g)) then (let it := g
                      let (nx_2, it) := (listNext it)
                      let first := (unwrapO nx_2)
                      (List.all it (fun x => (decide ((x == first) = true)))) = true) else (false = true))
      ↔ (2 ≤ g.length ∧ ∃ c, ∀ x ∈ g, x = c) := by
  cases g with
  | nil => simp [listLen]
  | cons a t =>
    simp only [listLen, listNext, unwrapO, List.length_cons, List.all_eq_true, decide_eq_true_eq, real_beq]
    constructor
    · intro h
      split_ifs at h with h1
      · refine ⟨by push_cast at h1; omega, a, ?_⟩
        intro x hx
        rcases List.mem_cons.mp hx with rfl | hx
        · rfl
        · exact h x hx
    · rintro ⟨h2, c, hc⟩
      have h1 : (1 : ℤ) < ((t.length + 1 : ℕ) : ℤ) := by push_cast; omega
      rw [if_pos h1]
      intro x hx
      rw [hc x (List.mem_cons_of_mem _ hx), hc a (List.mem_cons_self)]

theorem len_le_flatten {β : Type} (s : List (List β)) (h1 : ∀ g ∈ s, 1 ≤ g.length) :
    s.length ≤ s.flatten.length := by
  induction s with
  | nil => simp
  | cons g t ih =>
    have := ih (fun g hg => h1 g (List.mem_cons_of_mem _ hg))
    have := h1 g List.mem_cons_self
    simp only [List.length_cons, List.flatten_cons, List.length_append]; omega

theorem len_lt_flatten {β : Type} (s : List (List β)) (h1 : ∀ g ∈ s, 1 ≤ g.length)
    (h2 : ∃ g ∈ s, 2 ≤ g.length) : s.length < s.flatten.length := by
  induction s with
  | nil => obtain ⟨g, hg, _⟩ := h2; simp at hg
  | cons g t ih =>
    have h1t := fun g hg => h1 g (List.mem_cons_of_mem _ hg)
    have hg1 := h1 g List.mem_cons_self
    simp only [List.length_cons, List.flatten_cons, List.length_append]
    obtain ⟨g', hg', h⟩ := h2
    rcases List.mem_cons.mp hg' with rfl | hg'
    · have := len_le_flatten t h1t; omega
    · have := ih h1t ⟨g', hg', h⟩; omega

/-! ### D'Agostino's constants -/

theorem dagBeta2_gt (n : ℝ) (h : 8 ≤ n) : 3 < dagBeta2 n := by
  unfold dagBeta2
  have h2 : 0 < n - 2 := by linarith
  have hden : 0 < (n - 2) * (n + 5) * (n + 7) * (n + 9) := by positivity
  rw [lt_div_iff₀ hden]
  have hm : 0 ≤ n - 8 := by linarith
  nlinarith [mul_nonneg hm hm, mul_nonneg (mul_nonneg hm hm) hm]

theorem dagW2_gt (n : ℝ) (h : 8 ≤ n) : 1 < dagW2 n := by
  unfold dagW2
  have := dagBeta2_gt n h
  have h4 : Real.sqrt 4 < Real.sqrt (2 * (dagBeta2 n - 1)) :=
    Real.sqrt_lt_sqrt (by norm_num) (by linarith)
  have : Real.sqrt 4 = 2 := by
    rw [show (4:ℝ) = 2 ^ 2 by norm_num, Real.sqrt_sq (by norm_num)]
  linarith

theorem root_b1_real (a : List ℝ) : T.skewtest.calc_root_b1 a = rootB1 a := by
  unfold T.skewtest.calc_root_b1 rootB1 centralMoment
  simp only [fsum_real, rfun_ofInt, cast_listLen, rfun_powi, rfun_pow]
  have : (1.5 : ℝ) = 3 / 2 := by norm_num
  rw [this]
  unfold mean
  norm_cast


/-! ### closed forms of the reference cdfs over ℝ (the `isInf` junk branches vanish) -/

theorem studentsT_cdf_std [SF ℝ] (ν x : ℝ) :
    StudentsT.cdf (⟨0, 1, ν⟩ : StudentsT ℝ) x =
      if x ≤ 0 then (1 / 2) * SF.beta_reg (ν / 2) (1 / 2) (ν / (ν + x * x))
      else 1 - (1 / 2) * SF.beta_reg (ν / 2) (1 / 2) (ν / (ν + x * x)) := by
  unfold StudentsT.cdf
  simp only [rfun_isInf, Bool.false_eq_true, if_false, lit_half, lit_two, lit_one, sub_zero, div_one]

theorem normal_cdf_std [SF ℝ] (x : ℝ) :
    Normal.cdf (⟨0, 1⟩ : Normal ℝ) x = (1 / 2) * SF.erfc (-x / Real.sqrt 2) := by
  unfold Normal.cdf D.normal.cdf_unchecked
  simp only [lit_half, rfun_sqrt2, zero_sub, one_mul]

theorem chisq_cdf_std [SF ℝ] (ν x : ℝ) :
    ChiSquared.cdf (⟨ν, ⟨ν / 2, 1 / 2⟩⟩ : ChiSquared ℝ) x
      = if x ≤ 0 then 0 else SF.gamma_lr (ν / 2) (x * (1 / 2)) := by
  unfold ChiSquared.cdf Gamma.cdf
  simp only [rfun_isInf, Bool.false_eq_true, and_false, if_false, lit_zero, lit_one, real_beq]
  split_ifs with h1 h2
  · rfl
  · exact absurd h2 (mul_ne_zero (by intro h; exact h1 h.le) (by norm_num))
  · rfl

theorem fs_cdf_std [SF ℝ] (d1 d2 x : ℝ) :
    FisherSnedecor.cdf (⟨d1, d2⟩ : FisherSnedecor ℝ) x
      = if x < 0 then 0 else SF.beta_reg (d1 / 2) (d2 / 2) (d1 * x / (d1 * x + d2)) := by
  unfold FisherSnedecor.cdf
  simp only [rfun_isInf, Bool.false_eq_true, if_false, lit_zero, lit_two]

end Statrs.Lemmas.Tests
