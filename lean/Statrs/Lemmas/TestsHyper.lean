/-
  Statrs.Lemmas.TestsHyper — hypergeometric tails for C16 (Fisher's exact test):
  spec-side combinatorics (Vandermonde, reflection `i ↦ K − i`, `K ↔ n` symmetry), the generated
  `Hypergeometric.cdf` over ℝ relative to `LnBinomialSpec`, and the branch structure of the
  generated `fishers_exact` (`match` on the table) for every carrier.
-/
import Statrs.Real.Simp
import Statrs.Gen.T_fisher
import Statrs.Spec.Tests
import Statrs.Spec.SFSpec_tests
import Mathlib.Tactic
set_option linter.unusedVariables false
set_option linter.unusedSectionVars false
namespace Statrs.Lemmas.TestsHyper
open Statrs Statrs.Gen
open Spec.Tests Statrs.Spec.TestsSF
open Finset

/-- a left fold that adds `g i` over `List.range m` is the `Finset.range` sum -/
theorem foldl_range_sum (g : ℕ → ℝ) (z : ℝ) (m : ℕ) :
    List.foldl (fun acc i => acc + g i) z (List.range m) = z + ∑ i ∈ range m, g i := by
  induction m with
  | zero => simp
  | succ m ih => rw [List.range_succ, List.foldl_append, ih, Finset.sum_range_succ]; simp [add_assoc]

theorem foldl_rangeList_sum (f : ℤ → ℝ) (m : ℕ) :
    List.foldl (fun acc i => acc + f i) (0.0 : ℝ) (rangeList 0 (m : ℤ))
      = ∑ i ∈ range m, f (i : ℤ) := by
  unfold rangeList
  rw [List.foldl_map]
  have : (0.0 : ℝ) = 0 := by norm_num
  simp only [sub_zero, Int.toNat_natCast, zero_add, this]
  rw [foldl_range_sum (fun i => f (i:ℤ)) 0 m, zero_add]

/-- Vandermonde: the hypergeometric weights sum to `C(N,n)` -/
theorem vandermonde (N K n : ℕ) (hK : K ≤ N) :
    ∑ i ∈ range (n + 1), K.choose i * (N - K).choose (n - i) = N.choose n := by
  have := Nat.add_choose_eq K (N - K) n
  rw [Nat.add_sub_cancel' hK] at this
  rw [this, Finset.Nat.sum_antidiagonal_eq_sum_range_succ (fun i j => K.choose i * (N - K).choose j)]

theorem hyperPmf_nonneg (N K n i : ℕ) : 0 ≤ hyperPmf N K n i := by
  unfold hyperPmf; split_ifs <;> positivity

/-- the pmf sums to one over `0..n` -/
theorem hyperPmf_sum (N K n : ℕ) (hK : K ≤ N) (hn : n ≤ N) :
    ∑ i ∈ range (n + 1), hyperPmf N K n i = 1 := by
  have hpos : (0:ℝ) < (N.choose n : ℝ) := by exact_mod_cast Nat.choose_pos hn
  have : ∀ i ∈ range (n + 1), hyperPmf N K n i
      = ((K.choose i * (N - K).choose (n - i) : ℕ) : ℝ) / (N.choose n : ℝ) := by
    intro i hi
    unfold hyperPmf
    rw [if_pos (by have := mem_range.mp hi; omega)]
  rw [Finset.sum_congr rfl this, ← Finset.sum_div, ← Nat.cast_sum, vandermonde N K n hK,
    div_self hpos.ne']

/-- at or beyond `min K n` the lower tail is the whole mass -/
theorem hyperLower_eq_one (N K n x : ℕ) (hK : K ≤ N) (hn : n ≤ N) (hx : min K n ≤ x) :
    hyperLower N K n x = 1 := by
  unfold hyperLower
  rw [← hyperPmf_sum N K n hK hn]
  rcases le_or_gt n x with h | h
  · symm
    apply Finset.sum_subset (by intro i hi; simp only [mem_range] at hi ⊢; omega)
    intro i hi hni
    simp only [mem_range] at hi hni
    unfold hyperPmf; rw [if_neg (by omega)]
  · have hKx : K ≤ x := by
      rcases min_le_iff.mp hx with h' | h'
      · exact h'
      · omega
    apply Finset.sum_subset (by intro i hi; simp only [mem_range] at hi ⊢; omega)
    intro i hi hni
    simp only [mem_range] at hi hni
    unfold hyperPmf
    rw [if_pos (by omega), Nat.choose_eq_zero_of_lt (by omega)]
    simp

theorem hyperLower_le_one (N K n x : ℕ) (hK : K ≤ N) (hn : n ≤ N) : hyperLower N K n x ≤ 1 := by
  rcases le_total (min K n) x with h | h
  · exact (hyperLower_eq_one N K n x hK hn h).le
  · unfold hyperLower
    rw [← hyperPmf_sum N K n hK hn]
    apply Finset.sum_le_sum_of_subset_of_nonneg
    · intro i hi; simp only [mem_range] at hi ⊢; have := min_le_right K n; omega
    · intro i _ _; exact hyperPmf_nonneg _ _ _ _

/-- the generated `Hypergeometric.cdf` is the exact lower tail, provided the summation range does
    not reach below the support (`n + K ≤ N`) or the early return `max ≤ x` is taken -/
theorem hyper_cdf_rel [SF ℝ] (L : LnBinomialSpec) (N K n x : ℕ) (hK : K ≤ N) (hn : n ≤ N)
    (hsupp : n + K ≤ N ∨ min K n ≤ x) :
    Hypergeometric.cdf (α := ℝ) ⟨(N : ℤ), (K : ℤ), (n : ℤ)⟩ (x : ℤ) = hyperLower N K n x := by
  unfold Hypergeometric.cdf Hypergeometric.min Hypergeometric.max usatSub
  simp only
  have h1 : ¬ ((x : ℤ) < if (n : ℤ) + K < N then 0 else (n : ℤ) + K - N) := by
    split_ifs
    · omega
    · rcases hsupp with h | h
      · omega
      · have : min K n ≤ x := h
        rcases min_le_iff.mp this with h' | h' <;> omega
  rw [if_neg h1]
  by_cases hmax : min K n ≤ x
  · have : (Min.min (K : ℤ) (n : ℤ)) ≤ (x : ℤ) := by
      rcases min_le_iff.mp hmax with h' | h'
      · exact min_le_iff.mpr (Or.inl (by exact_mod_cast h'))
      · exact min_le_iff.mpr (Or.inr (by exact_mod_cast h'))
    rw [if_pos this, hyperLower_eq_one N K n x hK hn hmax]; norm_num
  · have hs : n + K ≤ N := by rcases hsupp with h | h; exact h; exact absurd h hmax
    have hxK : x < K := by have := not_le.mp hmax; exact (lt_min_iff.mp this).1
    have hxn : x < n := by have := not_le.mp hmax; exact (lt_min_iff.mp this).2
    have : ¬ (Min.min (K : ℤ) (n : ℤ)) ≤ (x : ℤ) := by
      rw [not_le, lt_min_iff]; constructor <;> exact_mod_cast ‹_›
    rw [if_neg this]
    have e : ((x : ℤ) + 1) = ((x + 1 : ℕ) : ℤ) := by push_cast; ring
    rw [e, foldl_rangeList_sum]
    unfold hyperLower
    apply Finset.sum_congr rfl
    intro i hi
    have hix : i ≤ x := by have := mem_range.mp hi; omega
    have hu1 : usub (N : ℤ) (K : ℤ) = ((N - K : ℕ) : ℤ) := by
      unfold usub; rw [if_neg (by omega)]; omega
    have hu2 : usub (n : ℤ) (i : ℤ) = ((n - i : ℕ) : ℤ) := by
      unfold usub; rw [if_neg (by omega)]; omega
    rw [hu1, hu2, rfun_exp, Real.exp_sub, Real.exp_add,
      L.exp_ln_binomial _ _ (by omega) (by omega : (i : ℤ) ≤ K),
      L.exp_ln_binomial _ _ (by omega) (by omega : ((n - i : ℕ) : ℤ) ≤ ((N - K : ℕ) : ℤ)),
      L.exp_ln_binomial _ _ (by omega) (by omega : (n : ℤ) ≤ N)]
    unfold hyperPmf
    rw [if_pos (by omega)]
    simp only [Int.toNat_natCast]
    push_cast; ring

section
variable {α : Type} [Add α] [Sub α] [Mul α] [Div α] [Neg α] [LT α] [LE α] [BEq α]
  [DecidableLT α] [DecidableLE α] [OfScientific α] [Inhabited α] [RFun α] [SF α]

/-- the four early-exit patterns of `fishers_exact`: a zero row or a zero column -/
def zeroMargin (a b c d : ℤ) : Prop :=
  (a = 0 ∧ c = 0) ∨ (b = 0 ∧ d = 0) ∨ (a = 0 ∧ b = 0) ∨ (c = 0 ∧ d = 0)

theorem fishers_exact_early (a b c d : ℤ) (alt : Alternative) (h : zeroMargin a b c d) :
    T.fisher.fishers_exact (α := α) [a, b, c, d] alt = .ok (1.0 : α) := by
  unfold T.fisher.fishers_exact
  unfold zeroMargin at h
  split
  · rfl
  · rfl
  · rfl
  · rfl
  · rename_i h1 h2 h3 h4
    exfalso
    rcases h with ⟨rfl, rfl⟩ | ⟨rfl, rfl⟩ | ⟨rfl, rfl⟩ | ⟨rfl, rfl⟩
    · exact h1 _ _ rfl
    · exact h2 _ _ rfl
    · exact h3 _ _ rfl
    · exact h4 _ _ rfl

theorem fishers_exact_less_main (a b c d : ℤ) (h : ¬ zeroMargin a b c d) (dist : Hypergeometric)
    (hnew : Hypergeometric.new (α := α) ((a + b) + (c + d)) (a + b) (a + c) = .ok dist) :
    T.fisher.fishers_exact (α := α) [a, b, c, d] Alternative.Less
      = .ok (RFun.fmin (Hypergeometric.cdf (α := α) dist a) (1.0 : α)) := by
  unfold T.fisher.fishers_exact
  unfold zeroMargin at h
  split
  · rename_i h0; simp at h0; exact absurd (Or.inl ⟨h0.1, h0.2.2.1⟩) h
  · rename_i h0; simp at h0; exact absurd (Or.inr (Or.inl ⟨h0.2.1, h0.2.2.2⟩)) h
  · rename_i h0; simp at h0; exact absurd (Or.inr (Or.inr (Or.inl ⟨h0.1, h0.2.1⟩))) h
  · rename_i h0; simp at h0; exact absurd (Or.inr (Or.inr (Or.inr ⟨h0.2.2.1, h0.2.2.2⟩))) h
  · simp only [listGet]
    simp only [show ¬ ((0:ℤ) < 0) by omega, show ¬ ((1:ℤ) < 0) by omega, show ¬ ((2:ℤ) < 0) by omega,
      show ¬ ((3:ℤ) < 0) by omega, if_false, Int.toNat_zero, Int.toNat_one,
      List.getD_cons_zero, List.getD_cons_succ]
    simp [hnew]
end

theorem hyper_new_ok {α : Type} [Add α] [Sub α] [Mul α] [Div α] [Neg α] [LT α] [LE α] [BEq α]
    [DecidableLT α] [DecidableLE α] [OfScientific α] [Inhabited α] [RFun α]
    (N K n : ℤ) (hK : K ≤ N) (hn : n ≤ N) :
    Hypergeometric.new (α := α) N K n = .ok ⟨N, K, n⟩ := by
  unfold Hypergeometric.new
  rw [if_neg (by omega), if_neg (by omega)]


section
variable {α : Type} [Add α] [Sub α] [Mul α] [Div α] [Neg α] [LT α] [LE α] [BEq α]
  [DecidableLT α] [DecidableLE α] [OfScientific α] [Inhabited α] [RFun α] [SF α]

theorem fishers_exact_greater_main (a b c d : ℤ) (h : ¬ zeroMargin a b c d) (dist : Hypergeometric)
    (hnew : Hypergeometric.new (α := α) ((a + b) + (c + d)) (a + b) (b + d) = .ok dist) :
    T.fisher.fishers_exact (α := α) [a, b, c, d] Alternative.Greater
      = .ok (RFun.fmin (Hypergeometric.cdf (α := α) dist b) (1.0 : α)) := by
  unfold T.fisher.fishers_exact
  unfold zeroMargin at h
  split
  · rename_i h0; simp at h0; exact absurd (Or.inl ⟨h0.1, h0.2.2.1⟩) h
  · rename_i h0; simp at h0; exact absurd (Or.inr (Or.inl ⟨h0.2.1, h0.2.2.2⟩)) h
  · rename_i h0; simp at h0; exact absurd (Or.inr (Or.inr (Or.inl ⟨h0.1, h0.2.1⟩))) h
  · rename_i h0; simp at h0; exact absurd (Or.inr (Or.inr (Or.inr ⟨h0.2.2.1, h0.2.2.2⟩))) h
  · simp only [listGet]
    simp only [show ¬ ((0:ℤ) < 0) by omega, show ¬ ((1:ℤ) < 0) by omega, show ¬ ((2:ℤ) < 0) by omega,
      show ¬ ((3:ℤ) < 0) by omega, if_false, Int.toNat_zero, Int.toNat_one,
      List.getD_cons_zero, List.getD_cons_succ]
    simp [hnew]

theorem zeroMargin_swap_cols (a b c d : ℤ) : zeroMargin b a d c ↔ zeroMargin a b c d := by
  unfold zeroMargin; tauto

/-- the reflection the code uses: `Greater` on `[[a,b],[c,d]]` is `Less` on the table with the
    two columns exchanged, `[[b,a],[d,c]]` — every carrier, every table of non-negative counts -/
theorem fisher_greater_eq_less_swapped (a b c d : ℤ) (ha : 0 ≤ a) (hb : 0 ≤ b) (hc : 0 ≤ c)
    (hd : 0 ≤ d) :
    T.fisher.fishers_exact (α := α) [a, b, c, d] Alternative.Greater
      = T.fisher.fishers_exact (α := α) [b, a, d, c] Alternative.Less := by
  by_cases hz : zeroMargin a b c d
  · rw [fishers_exact_early _ _ _ _ _ hz,
      fishers_exact_early _ _ _ _ _ ((zeroMargin_swap_cols a b c d).mpr hz)]
  · have h1 := hyper_new_ok (α := α) ((a + b) + (c + d)) (a + b) (b + d) (by omega) (by omega)
    have h2 := hyper_new_ok (α := α) ((b + a) + (d + c)) (b + a) (b + d) (by omega) (by omega)
    rw [fishers_exact_greater_main _ _ _ _ hz _ h1,
      fishers_exact_less_main _ _ _ _ (fun h => hz ((zeroMargin_swap_cols a b c d).mp h)) _ h2]
    rw [show (b + a) + (d + c) = (a + b) + (c + d) by ring, show b + a = a + b by ring]
end

/-- termwise reflection `i ↦ K − i` of the hypergeometric weights of a 2×2 table -/
theorem hyperPmf_reflect (a b c d k : ℕ) (hk : k ≤ b) :
    hyperPmf (a + b + c + d) (a + b) (a + c) (a + k) = hyperPmf (a + b + c + d) (a + b) (b + d) (b - k) := by
  unfold hyperPmf
  have hN : (a + b + c + d).choose (b + d) = (a + b + c + d).choose (a + c) := by
    rw [← Nat.choose_symm (by omega : a + c ≤ a + b + c + d)]; congr 1; omega
  have hNK : a + b + c + d - (a + b) = c + d := by omega
  rw [if_pos (by omega : b - k ≤ b + d), hN, hNK]
  have h1 : (a + b).choose (b - k) = (a + b).choose (a + k) := by
    rw [← Nat.choose_symm (by omega : a + k ≤ a + b)]; congr 1; omega
  rw [h1]
  by_cases hi : a + k ≤ a + c
  · rw [if_pos hi]
    have h2 : (c + d).choose (b + d - (b - k)) = (c + d).choose (a + c - (a + k)) := by
      rw [← Nat.choose_symm (by omega : a + c - (a + k) ≤ c + d)]; congr 1; omega
    rw [h2]
  · rw [if_neg hi, Nat.choose_eq_zero_of_lt (by omega : c + d < b + d - (b - k))]
    simp

/-- `P(X' ≤ b) = P(X ≥ a)`: the lower tail of the reflected table is the upper tail of the table -/
theorem hyperLower_reflect (a b c d : ℕ) :
    hyperLower (a + b + c + d) (a + b) (b + d) b = hyperUpper (a + b + c + d) (a + b) (a + c) a := by
  unfold hyperLower hyperUpper
  -- upper tail as a sum over `a ≤ i ≤ a + b`
  have hU : ∑ i ∈ (range (a + c + 1)).filter (fun i => a ≤ i), hyperPmf (a + b + c + d) (a + b) (a + c) i
      = ∑ i ∈ Ico a (a + b + 1), hyperPmf (a + b + c + d) (a + b) (a + c) i := by
    rcases le_total b c with hbc | hbc
    · symm
      apply Finset.sum_subset
      · intro i hi; simp only [mem_Ico, mem_filter, mem_range] at hi ⊢; omega
      · intro i hi hni
        simp only [mem_Ico, mem_filter, mem_range] at hi hni
        unfold hyperPmf
        rw [if_pos (by omega), Nat.choose_eq_zero_of_lt (by omega)]; simp
    · apply Finset.sum_subset
      · intro i hi; simp only [mem_Ico, mem_filter, mem_range] at hi ⊢; omega
      · intro i hi hni
        simp only [mem_Ico, mem_filter, mem_range] at hi hni
        unfold hyperPmf
        rw [if_neg (by omega)]
  rw [hU, Finset.sum_Ico_eq_sum_range, show a + b + 1 - a = b + 1 by omega,
    ← Finset.sum_range_reflect]
  apply Finset.sum_congr rfl
  intro k hk
  have hk' : k ≤ b := by have := mem_range.mp hk; omega
  rw [hyperPmf_reflect a b c d k hk']
  congr 1

theorem choose_swap (M p q : ℕ) :
    M.choose p * (M - p).choose q = M.choose q * (M - q).choose p := by
  have h1 := Nat.choose_mul (n := M) (k := p + q) (s := p) (by omega)
  have h2 := Nat.choose_mul (n := M) (k := p + q) (s := q) (by omega)
  rw [Nat.add_sub_cancel_left] at h1
  rw [Nat.add_sub_cancel] at h2
  rw [← h1, ← h2, Nat.choose_symm_add]

/-- `C(K,i) C(N−K,n−i) C(N,K) = C(n,i) C(N−n,K−i) C(N,n)` -/
theorem hyper_weights_symm (N K n i : ℕ) (hK : K ≤ N) (hn : n ≤ N) (hiK : i ≤ K) (hin : i ≤ n) :
    K.choose i * (N - K).choose (n - i) * N.choose K = n.choose i * (N - n).choose (K - i) * N.choose n := by
  by_cases hs : n - i ≤ N - K
  · have e1 := Nat.choose_mul (n := N) (k := K) (s := i) hiK
    have e2 := Nat.choose_mul (n := N) (k := n) (s := i) hin
    have e3 := choose_swap (N - i) (K - i) (n - i)
    rw [show N - i - (K - i) = N - K by omega, show N - i - (n - i) = N - n by omega] at e3
    calc K.choose i * (N - K).choose (n - i) * N.choose K
        = (N.choose K * K.choose i) * (N - K).choose (n - i) := by ring
      _ = N.choose i * ((N - i).choose (K - i) * (N - K).choose (n - i)) := by rw [e1]; ring
      _ = N.choose i * ((N - i).choose (n - i) * (N - n).choose (K - i)) := by rw [e3]
      _ = (N.choose n * n.choose i) * (N - n).choose (K - i) := by rw [e2]; ring
      _ = _ := by ring
  · rw [Nat.choose_eq_zero_of_lt (by omega : N - K < n - i),
      Nat.choose_eq_zero_of_lt (by omega : N - n < K - i)]
    simp

theorem hyperPmf_symm (N K n i : ℕ) (hK : K ≤ N) (hn : n ≤ N) :
    hyperPmf N K n i = hyperPmf N n K i := by
  unfold hyperPmf
  by_cases hin : i ≤ n <;> by_cases hiK : i ≤ K
  · rw [if_pos hin, if_pos hiK]
    have p1 : (0:ℝ) < (N.choose n : ℝ) := by exact_mod_cast Nat.choose_pos hn
    have p2 : (0:ℝ) < (N.choose K : ℝ) := by exact_mod_cast Nat.choose_pos hK
    rw [div_eq_div_iff p1.ne' p2.ne']
    exact_mod_cast hyper_weights_symm N K n i hK hn hiK hin
  · rw [if_pos hin, if_neg hiK, Nat.choose_eq_zero_of_lt (by omega)]; simp
  · rw [if_neg hin, if_pos hiK, Nat.choose_eq_zero_of_lt (by omega)]; simp
  · rw [if_neg hin, if_neg hiK]

theorem hyperLower_symm (N K n x : ℕ) (hK : K ≤ N) (hn : n ≤ N) :
    hyperLower N K n x = hyperLower N n K x := by
  unfold hyperLower
  exact Finset.sum_congr rfl (fun i _ => hyperPmf_symm N K n i hK hn)

theorem hyperUpper_symm (N K n x : ℕ) (hK : K ≤ N) (hn : n ≤ N) :
    hyperUpper N K n x = hyperUpper N n K x := by
  unfold hyperUpper
  have key : ∀ K n : ℕ, K ≤ N → n ≤ N →
      ∑ i ∈ (range (n + 1)).filter (fun i => x ≤ i), hyperPmf N K n i
        = ∑ i ∈ (range (min K n + 1)).filter (fun i => x ≤ i), hyperPmf N K n i := by
    intro K n _ _
    symm
    apply Finset.sum_subset
    · intro i hi; simp only [mem_filter, mem_range] at hi ⊢
      have := min_le_right K n; omega
    · intro i hi hni
      simp only [mem_filter, mem_range] at hi hni
      have hKi : K < i := by
        by_contra hc
        have : i ≤ min K n := le_min (by omega) (by omega)
        omega
      unfold hyperPmf
      rw [if_pos (by omega), Nat.choose_eq_zero_of_lt hKi]; simp
  rw [key K n hK hn, key n K hn hK, min_comm]
  exact Finset.sum_congr rfl (fun i _ => hyperPmf_symm N K n i hK hn)

end Statrs.Lemmas.TestsHyper
