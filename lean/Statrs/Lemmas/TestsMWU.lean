/-
  Statrs.Lemmas.TestsMWU — the combination-enumeration loop of `calc_mwu_exact_pvalue`
  (src/stats_tests/mannwhitneyu.rs:155).  The generated loops are generic in the carrier `α`, but
  `α` enters only through the test `u ≤ (u_generic as f64)`; `mLoop`/`m102`/`m104` are carrier-free
  mirrors PROVED equal to the generated loops for every `α` (`loop1_eq`), so that the enumeration
  can be evaluated by the kernel (`decide`) and reasoned about once for all carriers.
-/
import Statrs.Real.Simp
import Statrs.Gen.T_mannwhitneyu
import Statrs.Spec.Tests
import Mathlib.Tactic
set_option linter.unusedSectionVars false
namespace Statrs.Lemmas.TestsMWU
open Statrs Statrs.Gen

/-- carrier-free mirror of `loop102` (find the right-most index that can still be advanced) -/
def m102 : Nat → List ℤ → ℤ → ℤ → ℤ → Option ℤ
  | 0, _, _, _, _ => none
  | fuel + 1, a, k, n, i =>
    if (0 : ℤ) < i then
      let i := usub i 1
      if listGet a i ≠ usub (i + n) k then some i else m102 fuel a k n i
    else some i

/-- carrier-free mirror of `loop104` (reset the tail of the combination) -/
def m104 : List ℤ → List ℤ → List ℤ
  | [], a => a
  | j :: l, a => m104 l (listSet a j (listGet a (usub j 1) + 1))

/-- carrier-free mirror of `loop1`; the carrier enters only through the test `P U := (u ≤ U as f64)` -/
def mLoop (P : ℤ → Bool) (k n : ℤ) : Nat → ℤ → ℤ → List ℤ → Option (ℤ × ℤ × List ℤ)
  | 0, _, _, _ => none
  | fuel + 1, num, tot, a =>
    let r1 := (List.foldl (· + ·) (0:ℤ) ((List.drop (Int.toNat 0) a).take (Int.toNat (k - 0)))) + k
    let ug := usub r1 (udiv (k * (k + 1)) 2)
    let num := if P ug = true then num + 1 else num
    let tot := tot + 1
    match m102 loopFuel a k n k with
    | none => none
    | some i =>
      if i = 0 ∧ listGet a i = usub n k then some (num, tot, a)
      else mLoop P k n fuel num tot (m104 (rangeList (i + 1) k) (listSet a i (listGet a i + 1)))

section
variable {α : Type} [Add α] [Sub α] [Mul α] [Div α] [Neg α] [LT α] [LE α] [BEq α]
  [DecidableLT α] [DecidableLE α] [OfScientific α] [Inhabited α] [RFun α]

theorem loop102_eq (fuel : Nat) (a : List ℤ) (k n i : ℤ) :
    T.mannwhitneyu.calc_mwu_exact_pvalue.loop102 (α := α) fuel a k n i
      = match m102 fuel a k n i with
        | none => LoopR.hang
        | some i => LoopR.done i := by
  induction fuel generalizing i with
  | zero => rfl
  | succ f ih =>
    unfold T.mannwhitneyu.calc_mwu_exact_pvalue.loop102 m102
    by_cases h : (0:ℤ) < i
    · simp only [h, if_true]
      by_cases h2 : listGet a (usub i 1) ≠ usub (usub i 1 + n) k
      · simp only [h2, if_true, ne_eq, not_false_eq_true]
      · simp only [h2, if_false]; exact ih _
    · simp only [h, if_false]

theorem loop104_eq (l : List ℤ) (a : List ℤ) :
    T.mannwhitneyu.calc_mwu_exact_pvalue.loop104 (α := α) l a = LoopR.done (m104 l a) := by
  induction l generalizing a with
  | nil => rfl
  | cons j l ih =>
    unfold T.mannwhitneyu.calc_mwu_exact_pvalue.loop104 m104
    exact ih _

theorem loop1_eq (fuel : Nat) (k n : ℤ) (u : α) (num tot : ℤ) (a : List ℤ) :
    T.mannwhitneyu.calc_mwu_exact_pvalue.loop1 (α := α) fuel k n u num tot a
      = match mLoop (fun U => decide (u ≤ (RFun.ofInt U : α))) k n fuel num tot a with
        | none => LoopR.hang
        | some r => LoopR.done r := by
  induction fuel generalizing num tot a with
  | zero => rfl
  | succ f ih =>
    unfold T.mannwhitneyu.calc_mwu_exact_pvalue.loop1 mLoop
    simp only [loop102_eq, loop104_eq, decide_eq_true_eq]
    cases h : m102 loopFuel a k n k with
    | none => rfl
    | some i =>
      simp only
      split_ifs <;> first | rfl | exact ih _ _ _
end

/-- numerator and total of the enumeration, carrier-free -/
def mCount (P : ℤ → Bool) (n1 n2 : ℤ) : Option (ℤ × ℤ) :=
  (mLoop P (Min.min n1 n2) (n1 + n2) loopFuel 0 0 (rangeList 0 (n1 + n2))).map (fun r => (r.1, r.2.1))

section
variable {α : Type} [Add α] [Sub α] [Mul α] [Div α] [Neg α] [LT α] [LE α] [BEq α]
  [DecidableLT α] [DecidableLE α] [OfScientific α] [Inhabited α] [RFun α]

theorem calc_mwu_exact_structure (u : α) (n1 n2 : ℤ) :
    T.mannwhitneyu.calc_mwu_exact_pvalue (α := α) u n1 n2
      = match mCount (fun U => decide (u ≤ (RFun.ofInt U : α))) n1 n2 with
        | none => panicV
        | some (num, tot) =>
          if Min.min n1 n2 = n1 then (1.0 : α) - (RFun.ofInt num : α) / (RFun.ofInt tot : α)
          else (RFun.ofInt num : α) / (RFun.ofInt tot : α) := by
  unfold T.mannwhitneyu.calc_mwu_exact_pvalue mCount
  simp only [loop1_eq]
  cases mLoop (fun U => decide (u ≤ (RFun.ofInt U : α))) (Min.min n1 n2) (n1 + n2) loopFuel 0 0
      (rangeList 0 (n1 + n2)) with
  | none => rfl
  | some r => obtain ⟨a, b, c⟩ := r; rfl
end

/-- the list of `u_generic` values of the combinations visited by the enumeration, in order -/
def mVisited (k n : ℤ) : Nat → List ℤ → Option (List ℤ)
  | 0, _ => none
  | fuel + 1, a =>
    let r1 := (List.foldl (· + ·) (0:ℤ) ((List.drop (Int.toNat 0) a).take (Int.toNat (k - 0)))) + k
    let ug := usub r1 (udiv (k * (k + 1)) 2)
    match m102 loopFuel a k n k with
    | none => none
    | some i =>
      if i = 0 ∧ listGet a i = usub n k then some [ug]
      else (mVisited k n fuel (m104 (rangeList (i + 1) k) (listSet a i (listGet a i + 1)))).map (ug :: ·)

theorem mLoop_visited (P : ℤ → Bool) (k n : ℤ) (fuel : Nat) (num tot : ℤ) (a : List ℤ) :
    (mLoop P k n fuel num tot a).map (fun r => (r.1, r.2.1))
      = (mVisited k n fuel a).map (fun us => (num + (us.countP P : ℤ), tot + (us.length : ℤ))) := by
  induction fuel generalizing num tot a with
  | zero => rfl
  | succ f ih =>
    unfold mLoop mVisited
    dsimp only
    generalize (usub ((List.foldl (· + ·) (0:ℤ) ((List.drop (Int.toNat 0) a).take (Int.toNat (k - 0)))) + k)
      (udiv (k * (k + 1)) 2)) = ug
    cases h : m102 loopFuel a k n k with
    | none => rfl
    | some i =>
      dsimp only
      split_ifs with hc hp hp
      · simp [hp]
      · simp [hp]
      · rw [ih]; simp only [Option.map_map]; congr 1; funext us
        simp only [Function.comp, List.countP_cons, hp, if_true, List.length_cons, Prod.mk.injEq]
        constructor <;> (push_cast; ring)
      · rw [ih]; simp only [Option.map_map]; congr 1; funext us
        simp only [Function.comp, List.countP_cons, hp, List.length_cons, Prod.mk.injEq]
        constructor <;> (push_cast; ring)

/-- `U` of a combination given by 0-based positions -/
def uOfPositions (S : List ℕ) : ℤ := (S.map (fun i => (i : ℤ))).sum + S.length - ((S.length * (S.length + 1) / 2 : ℕ) : ℤ)

open Spec.Tests

/-- the spec tail at an integer threshold, with a decidable predicate -/
theorem mwuUpperTail_int (u : ℤ) (n1 n2 : ℕ) :
    mwuUpperTail (u : ℝ) n1 n2
      = ((((Finset.Icc 1 (n1 + n2)).powersetCard n1).filter (fun S => u ≤ uOfRanks S)).card : ℝ)
        / ((n1 + n2).choose n1 : ℝ) := by
  unfold mwuUpperTail
  congr 3
  apply Finset.filter_congr
  intro S _
  exact Int.cast_le

/-- over ℝ the carrier test at an integer `u` is the integer comparison -/
theorem real_pred (u : ℤ) : (fun U : ℤ => decide ((u : ℝ) ≤ (RFun.ofInt U : ℝ))) = (fun U => decide (u ≤ U)) := by
  funext U
  simp only [rfun_ofInt, Int.cast_le]

end Statrs.Lemmas.TestsMWU
