/-
  Helper lemmas for the C11 error-transfer theorems of `digamma` / `harmonic`:
  the TRUE real digamma function `psi = Γ'/Γ` (logarithmic derivative of Mathlib's `Real.Gamma`),
  its recurrence `ψ(x+1) = ψ(x) + 1/x`, its reflection identity `ψ(1−x) − ψ(x) = π·cos(πx)/sin(πx)`
  (both derived here from `Real.Gamma_add_one` / `Real.Gamma_mul_Gamma_one_sub`, no premise needed),
  the link to `Complex.digamma`, and the values `ψ(1) = −γ`, `ψ(n+1) = H_n − γ`.
-/
import Mathlib
namespace Statrs.Lemmas.Transfer
open Real

/-- the true digamma function on ℝ: the logarithmic derivative `Γ'(x)/Γ(x)` of `Real.Gamma`
    (junk value `0` at the poles `0, −1, −2, …`, where Mathlib's `Γ` is `0`) -/
noncomputable def psi (x : ℝ) : ℝ := logDeriv Real.Gamma x

theorem psi_def (x : ℝ) : psi x = deriv Real.Gamma x / Real.Gamma x := logDeriv_apply _ _

/-- `x` is not a pole of `Γ` -/
def NotPole (x : ℝ) : Prop := ∀ m : ℕ, x ≠ -(m : ℝ)

theorem notPole_of_pos {x : ℝ} (hx : 0 < x) : NotPole x := by
  intro m h
  have : (0 : ℝ) ≤ m := Nat.cast_nonneg m
  linarith

theorem NotPole.add_one {x : ℝ} (h : NotPole x) : NotPole (x + 1) := by
  intro m hm
  apply h (m + 1)
  push_cast; linarith

theorem NotPole.ne_zero {x : ℝ} (h : NotPole x) : x ≠ 0 := by simpa using h 0

theorem NotPole.add_nat {x : ℝ} (h : NotPole x) (n : ℕ) : NotPole (x + n) := by
  induction n with
  | zero => simpa using h
  | succ n ih =>
    have := ih.add_one
    push_cast
    rwa [add_assoc] at this

/-- a real that is not an integer is not a pole, and neither is `1 − x` -/
theorem notPole_of_not_int {x : ℝ} (h : ∀ n : ℤ, x ≠ n) : NotPole x := by
  intro m hm; exact h (-(m : ℤ)) (by push_cast; exact hm)

theorem notPole_one_sub_of_not_int {x : ℝ} (h : ∀ n : ℤ, x ≠ n) : NotPole (1 - x) := by
  intro m hm; exact h (1 + (m : ℤ)) (by push_cast; linarith)

/-- derivative form of the functional equation: `Γ'(x+1) = Γ(x) + x·Γ'(x)` -/
theorem deriv_Gamma_add_one {x : ℝ} (hx : NotPole x) :
    deriv Real.Gamma (x + 1) = Real.Gamma x + x * deriv Real.Gamma x := by
  have hx0 : x ≠ 0 := hx.ne_zero
  have hd : HasDerivAt Real.Gamma (deriv Real.Gamma x) x := (Real.differentiableAt_Gamma hx).hasDerivAt
  have hd1 : HasDerivAt Real.Gamma (deriv Real.Gamma (x + 1)) (x + 1) :=
    (Real.differentiableAt_Gamma hx.add_one).hasDerivAt
  have h1 : HasDerivAt (fun y : ℝ => Real.Gamma (y + 1)) (deriv Real.Gamma (x + 1)) x := by
    have := hd1.comp_add_const x 1
    simpa using this
  have h2 : HasDerivAt (fun y : ℝ => y * Real.Gamma y) (1 * Real.Gamma x + x * deriv Real.Gamma x) x :=
    (hasDerivAt_id x).mul hd
  have heq : (fun y : ℝ => Real.Gamma (y + 1)) =ᶠ[nhds x] (fun y : ℝ => y * Real.Gamma y) := by
    filter_upwards [isOpen_ne.mem_nhds hx0] with y hy
    exact Real.Gamma_add_one hy
  have := (h1.congr_of_eventuallyEq heq.symm).unique h2
  rw [this]; ring

/-- recurrence of the true digamma: `ψ(x+1) = ψ(x) + 1/x` off the poles -/
theorem psi_add_one {x : ℝ} (hx : NotPole x) : psi (x + 1) = psi x + 1 / x := by
  have hx0 : x ≠ 0 := hx.ne_zero
  have hG : Real.Gamma x ≠ 0 := Real.Gamma_ne_zero hx
  rw [psi_def, psi_def, deriv_Gamma_add_one hx, Real.Gamma_add_one hx0]
  field_simp
  ring

/-- `n`-fold recurrence: `ψ(x+n) = ψ(x) + Σ_{k<n} 1/(x+k)` -/
theorem psi_add_nat {x : ℝ} (hx : NotPole x) (n : ℕ) :
    psi (x + n) = psi x + ∑ k ∈ Finset.range n, 1 / (x + k) := by
  induction n with
  | zero => simp
  | succ n ih =>
    rw [Finset.sum_range_succ, ← add_assoc, ← ih]
    have := psi_add_one (hx.add_nat n)
    push_cast
    rw [← add_assoc]; exact this

/-- reflection identity of the true digamma, derived from `Γ(x)Γ(1−x) = π/sin(πx)`:
    `ψ(1−x) − ψ(x) = π·cos(πx)/sin(πx)` for every non-integer real `x` -/
theorem psi_one_sub {x : ℝ} (hx : ∀ n : ℤ, x ≠ n) :
    psi (1 - x) - psi x = Real.pi * Real.cos (Real.pi * x) / Real.sin (Real.pi * x) := by
  have hp : NotPole x := notPole_of_not_int hx
  have hp1 : NotPole (1 - x) := notPole_one_sub_of_not_int hx
  have hG : Real.Gamma x ≠ 0 := Real.Gamma_ne_zero hp
  have hG1 : Real.Gamma (1 - x) ≠ 0 := Real.Gamma_ne_zero hp1
  have hsin : Real.sin (Real.pi * x) ≠ 0 := by
    intro h0
    obtain ⟨n, hn⟩ := Real.sin_eq_zero_iff.mp h0
    apply hx n
    have hpi : Real.pi ≠ 0 := Real.pi_ne_zero
    have : Real.pi * (n : ℝ) = Real.pi * x := by rw [← hn]; ring
    exact (mul_left_cancel₀ hpi this).symm
  have hd : HasDerivAt Real.Gamma (deriv Real.Gamma x) x := (Real.differentiableAt_Gamma hp).hasDerivAt
  have hd1 : HasDerivAt Real.Gamma (deriv Real.Gamma (1 - x)) (1 - x) :=
    (Real.differentiableAt_Gamma hp1).hasDerivAt
  have hsub : HasDerivAt (fun y : ℝ => 1 - y) (-1) x := by
    simpa using (hasDerivAt_id x).const_sub 1
  have hc : HasDerivAt (fun y : ℝ => Real.Gamma (1 - y)) (deriv Real.Gamma (1 - x) * (-1)) x :=
    HasDerivAt.comp x hd1 hsub
  have hL : HasDerivAt (fun y : ℝ => Real.Gamma y * Real.Gamma (1 - y))
      (deriv Real.Gamma x * Real.Gamma (1 - x) + Real.Gamma x * (deriv Real.Gamma (1 - x) * (-1))) x :=
    hd.mul hc
  have hs : HasDerivAt (fun y : ℝ => Real.sin (Real.pi * y)) (Real.cos (Real.pi * x) * Real.pi) x := by
    have h1 : HasDerivAt (fun y : ℝ => Real.pi * y) Real.pi x := by
      simpa using (hasDerivAt_id x).const_mul Real.pi
    exact (Real.hasDerivAt_sin _).comp x h1
  have hR : HasDerivAt (fun y : ℝ => Real.pi / Real.sin (Real.pi * y))
      ((0 * Real.sin (Real.pi * x) - Real.pi * (Real.cos (Real.pi * x) * Real.pi)) / Real.sin (Real.pi * x) ^ 2) x :=
    (hasDerivAt_const x Real.pi).div hs hsin
  have hfun : (fun y : ℝ => Real.Gamma y * Real.Gamma (1 - y)) = fun y : ℝ => Real.pi / Real.sin (Real.pi * y) := by
    funext y; exact Real.Gamma_mul_Gamma_one_sub y
  rw [hfun] at hL
  have hder := hL.unique hR
  have hprod := Real.Gamma_mul_Gamma_one_sub x
  rw [psi_def, psi_def]
  -- ψ(1-x) − ψ(x) = −(Γ'(x)Γ(1−x) − Γ(x)Γ'(1−x)) / (Γ(x)Γ(1−x))
  have key : deriv Real.Gamma (1 - x) / Real.Gamma (1 - x) - deriv Real.Gamma x / Real.Gamma x
      = -(deriv Real.Gamma x * Real.Gamma (1 - x) + Real.Gamma x * (deriv Real.Gamma (1 - x) * (-1)))
          / (Real.Gamma x * Real.Gamma (1 - x)) := by
    field_simp; ring
  rw [key, hder, hprod]
  field_simp
  ring

/-- `ψ(1) = −γ` (Euler–Mascheroni) -/
theorem psi_one : psi 1 = -Real.eulerMascheroniConstant := by
  rw [psi_def, Real.hasDerivAt_Gamma_one.deriv, Real.Gamma_one, div_one]

/-- `ψ(n+1) = H_n − γ` -/
theorem psi_nat_add_one (n : ℕ) : psi ((n : ℝ) + 1) = (harmonic n : ℝ) - Real.eulerMascheroniConstant := by
  induction n with
  | zero => simp [psi_one]
  | succ n ih =>
    have hp : NotPole ((n : ℝ) + 1) := notPole_of_pos (by positivity)
    have := psi_add_one hp
    push_cast
    rw [this, ih, harmonic_succ]
    push_cast
    ring

/-- `psi` is the real part of Mathlib's `Complex.digamma` on the real axis (all real `x`; at the
    poles both sides are the junk value `0`) -/
theorem psi_eq_re_digamma (x : ℝ) : psi x = (Complex.digamma (x : ℂ)).re := by
  rw [Complex.digamma_def, logDeriv_apply, psi_def, Complex.Gamma_ofReal]
  by_cases hx : NotPole x
  · have hc : ∀ m : ℕ, (x : ℂ) ≠ -m := by
      intro m hm
      apply hx m
      have := congrArg Complex.re hm
      simpa using this
    have hd : HasDerivAt Complex.Gamma (deriv Complex.Gamma (x : ℂ)) (x : ℂ) :=
      (Complex.differentiableAt_Gamma _ hc).hasDerivAt
    have hr := hd.real_of_complex
    have hfun : (fun y : ℝ => (Complex.Gamma (y : ℂ)).re) = Real.Gamma := by
      funext y; rw [Complex.Gamma_ofReal, Complex.ofReal_re]
    rw [hfun] at hr
    rw [hr.deriv, Complex.div_ofReal_re]
  · have : ∃ m : ℕ, x = -(m : ℝ) := by
      unfold NotPole at hx; push Not at hx; exact hx
    have h0 : Real.Gamma x = 0 := (Real.Gamma_eq_zero_iff x).mpr this
    rw [h0]; simp

end Statrs.Lemmas.Transfer
