/-
  Analysis lemmas for a QUANTITATIVE accuracy bound of the asymptotic digamma core (C11):
    * `psi_le_log`, `log_sub_inv_le_psi`: `ln x − 1/x ≤ ψ(x) ≤ ln x` for `x > 0`
      (from the log-convexity of Γ, `Real.convexOn_log_Gamma`, and `Γ(x+1) = xΓ(x)`);
    * `abs_le_of_telescope`: if `|e(y+k) − e(y+k+1)| ≤ g(y+k) − g(y+k+1)`, `g ≥ 0` and `e(y+k) → 0`, then
      `|e y| ≤ g y`;
    * `log_one_add_taylor13`: `|T₁₃(t) − ln(1+t)| ≤ t¹⁴/(1−t)` for `0 ≤ t < 1` with the explicit Taylor polynomial.
-/
import Statrs.Lemmas.TransferDigamma
namespace Statrs.Lemmas.Transfer
open Real Filter Topology

/-- `log ∘ Γ` has derivative `ψ` on `(0, ∞)` -/
theorem hasDerivAt_log_Gamma {x : ℝ} (hx : 0 < x) : HasDerivAt (Real.log ∘ Real.Gamma) (psi x) x := by
  have hG : Real.Gamma x ≠ 0 := (Real.Gamma_pos_of_pos hx).ne'
  have hd : HasDerivAt Real.Gamma (deriv Real.Gamma x) x :=
    (Real.differentiableAt_Gamma (notPole_of_pos hx)).hasDerivAt
  have := (Real.hasDerivAt_log hG).comp x hd
  rw [psi_def, div_eq_inv_mul]
  exact this

theorem slope_log_Gamma {x : ℝ} (hx : 0 < x) : slope (Real.log ∘ Real.Gamma) x (x + 1) = Real.log x := by
  rw [slope_def_field]
  simp only [Function.comp, add_sub_cancel_left, div_one]
  rw [Real.Gamma_add_one hx.ne', Real.log_mul hx.ne' (Real.Gamma_pos_of_pos hx).ne']
  ring

/-- `ψ(x) ≤ ln x` for `x > 0` -/
theorem psi_le_log {x : ℝ} (hx : 0 < x) : psi x ≤ Real.log x := by
  have h := Real.convexOn_log_Gamma.le_slope_of_hasDerivAt (x := x) (y := x + 1)
    (Set.mem_Ioi.mpr hx) (Set.mem_Ioi.mpr (by linarith)) (by linarith) (hasDerivAt_log_Gamma hx)
  rwa [slope_log_Gamma hx] at h

/-- `ln x − 1/x ≤ ψ(x)` for `x > 0` -/
theorem log_sub_inv_le_psi {x : ℝ} (hx : 0 < x) : Real.log x - 1 / x ≤ psi x := by
  have h := Real.convexOn_log_Gamma.slope_le_of_hasDerivAt (x := x) (y := x + 1)
    (Set.mem_Ioi.mpr hx) (Set.mem_Ioi.mpr (by linarith)) (by linarith)
    (hasDerivAt_log_Gamma (by linarith : 0 < x + 1))
  rw [slope_log_Gamma hx, psi_add_one (notPole_of_pos hx)] at h
  linarith

/-- telescoping comparison: a sequence of increments dominated by the increments of a non-negative `g`,
    with `e → 0` along `y, y+1, y+2, …`, gives `|e y| ≤ g y` -/
theorem abs_le_of_telescope {e g : ℝ → ℝ} {y : ℝ}
    (hstep : ∀ k : ℕ, |e (y + k) - e (y + (k + 1 : ℕ))| ≤ g (y + k) - g (y + (k + 1 : ℕ)))
    (hg : ∀ k : ℕ, 0 ≤ g (y + k))
    (hlim : Tendsto (fun k : ℕ => e (y + k)) atTop (𝓝 0)) : |e y| ≤ g y := by
  have hN : ∀ N : ℕ, |e y - e (y + N)| ≤ g y - g (y + N) := by
    intro N
    induction N with
    | zero => simp
    | succ N ih =>
      have h1 := hstep N
      have : e y - e (y + (N + 1 : ℕ)) = (e y - e (y + N)) + (e (y + N) - e (y + (N + 1 : ℕ))) := by ring
      rw [this]
      calc |e y - e (y + ↑N) + (e (y + ↑N) - e (y + ↑(N + 1)))|
          ≤ |e y - e (y + ↑N)| + |e (y + ↑N) - e (y + ↑(N + 1))| := abs_add_le _ _
        _ ≤ (g y - g (y + N)) + (g (y + N) - g (y + (N + 1 : ℕ))) := add_le_add ih h1
        _ = g y - g (y + (N + 1 : ℕ)) := by ring
  have hle : ∀ N : ℕ, |e y| ≤ g y + |e (y + N)| := by
    intro N
    have h1 := hN N
    have h2 := hg N
    have : |e y| ≤ |e y - e (y + N)| + |e (y + N)| := by
      have := abs_add_le (e y - e (y + N)) (e (y + N))
      simpa using this
    linarith
  have hlim2 : Tendsto (fun N : ℕ => g y + |e (y + N)|) atTop (𝓝 (g y + |(0 : ℝ)|)) :=
    tendsto_const_nhds.add hlim.abs
  rw [abs_zero, add_zero] at hlim2
  exact ge_of_tendsto' hlim2 hle

/-- the degree-13 Taylor polynomial of `ln(1 + t)` -/
noncomputable def logTaylor13 (t : ℝ) : ℝ :=
  t - t ^ 2 / 2 + t ^ 3 / 3 - t ^ 4 / 4 + t ^ 5 / 5 - t ^ 6 / 6 + t ^ 7 / 7 - t ^ 8 / 8 + t ^ 9 / 9 - t ^ 10 / 10
    + t ^ 11 / 11 - t ^ 12 / 12 + t ^ 13 / 13

/-- `|T₁₃(t) − ln(1+t)| ≤ t¹⁴/(1−t)` for `0 ≤ t < 1` -/
theorem log_one_add_taylor13 {t : ℝ} (h0 : 0 ≤ t) (h1 : t < 1) :
    |logTaylor13 t - Real.log (1 + t)| ≤ t ^ 14 / (1 - t) := by
  have habs : |(-t)| < 1 := by rw [abs_neg, abs_of_nonneg h0]; exact h1
  have h := Real.abs_log_sub_add_sum_range_le habs 13
  rw [abs_neg, abs_of_nonneg h0, sub_neg_eq_add] at h
  have heq : (∑ i ∈ Finset.range 13, (-t) ^ (i + 1) / ((i : ℝ) + 1)) + Real.log (1 + t)
      = -(logTaylor13 t - Real.log (1 + t)) := by
    unfold logTaylor13
    simp only [Finset.sum_range_succ, Finset.sum_range_zero]
    push_cast
    ring
  rw [heq, abs_neg] at h
  exact h

end Statrs.Lemmas.Transfer
