/-
  Elementary numeric lemmas for the small-argument branch of `digamma` (C11):
    * `log_twelve_bounds`: `ln 12` to `5e-16` (from `12 = (9/8)⁴·(4/3)⁷` and Mathlib's remainder bound for the
      series of `ln(1 − x)` at `x = 1/9` (16 terms) and `x = 1/4` (27 terms));
    * `inv_pow_add_lower/upper`: first/second-order enclosures of `(z + x)^{−m}` around `z`;
    * `log_one_add_lower/upper`: `u − 2u² ≤ ln(1+u) ≤ u` for `0 ≤ u ≤ 1/2`.
-/
import Mathlib
namespace Statrs.Lemmas.Transfer
open Real

theorem log_nine_eighths_bounds :
    |(∑ i ∈ Finset.range 16, ((1 : ℝ) / 9) ^ (i + 1) / ((i : ℝ) + 1)) - Real.log (9 / 8)|
      ≤ (1 / 9 : ℝ) ^ 17 / (8 / 9) := by
  have h := Real.abs_log_sub_add_sum_range_le (x := (1 / 9 : ℝ)) (by norm_num) 16
  have e : Real.log (1 - 1 / 9) = -Real.log (9 / 8) := by
    rw [← Real.log_inv]; norm_num
  rw [e, abs_of_pos (by norm_num : (0 : ℝ) < 1 / 9)] at h
  have e2 : (1 : ℝ) - 1 / 9 = 8 / 9 := by norm_num
  rw [e2] at h
  rwa [← sub_eq_add_neg] at h

theorem log_four_thirds_bounds :
    |(∑ i ∈ Finset.range 27, ((1 : ℝ) / 4) ^ (i + 1) / ((i : ℝ) + 1)) - Real.log (4 / 3)|
      ≤ (1 / 4 : ℝ) ^ 28 / (3 / 4) := by
  have h := Real.abs_log_sub_add_sum_range_le (x := (1 / 4 : ℝ)) (by norm_num) 27
  have e : Real.log (1 - 1 / 4) = -Real.log (4 / 3) := by
    rw [← Real.log_inv]; norm_num
  rw [e, abs_of_pos (by norm_num : (0 : ℝ) < 1 / 4)] at h
  have e2 : (1 : ℝ) - 1 / 4 = 3 / 4 := by norm_num
  rw [e2] at h
  rwa [← sub_eq_add_neg] at h

theorem log_twelve_eq : Real.log 12 = 4 * Real.log (9 / 8) + 7 * Real.log (4 / 3) := by
  have h1 := Real.log_pow (9 / 8 : ℝ) 4
  have h2 := Real.log_pow (4 / 3 : ℝ) 7
  push_cast at h1 h2
  rw [← h1, ← h2, ← Real.log_mul (by positivity) (by positivity)]
  norm_num

/-- `ln 12 = 2.48490664978800031…` to `5e-16` -/
theorem log_twelve_bounds :
    (2.4849066497879998 : ℝ) ≤ Real.log 12 ∧ Real.log 12 ≤ (2.4849066497880008 : ℝ) := by
  obtain ⟨a1, a2⟩ := abs_le.mp log_nine_eighths_bounds
  obtain ⟨b1, b2⟩ := abs_le.mp log_four_thirds_bounds
  simp only [Finset.sum_range_succ, Finset.sum_range_zero] at a1 a2 b1 b2
  norm_num at a1 a2 b1 b2
  rw [log_twelve_eq]
  constructor <;> norm_num <;> linarith

/-- `1 − m·u ≤ (1/(1+u))^m` for `u ≥ 0` -/
theorem inv_one_add_pow_lower (m : ℕ) {u : ℝ} (hu : 0 ≤ u) : 1 - m * u ≤ (1 / (1 + u)) ^ m := by
  have h1u : 0 < 1 + u := by linarith
  induction m with
  | zero => simp
  | succ m ih =>
    have hq : 0 < 1 / (1 + u) := by positivity
    have hstep : 1 - ((m + 1 : ℕ) : ℝ) * u ≤ 1 / (1 + u) * (1 - m * u) := by
      rw [one_div, inv_mul_eq_div, le_div_iff₀ h1u]
      push_cast
      nlinarith [mul_nonneg (Nat.cast_nonneg (α := ℝ) m) (mul_nonneg hu hu), mul_nonneg hu hu]
    calc 1 - ((m + 1 : ℕ) : ℝ) * u ≤ 1 / (1 + u) * (1 - m * u) := hstep
      _ ≤ 1 / (1 + u) * (1 / (1 + u)) ^ m := mul_le_mul_of_nonneg_left ih hq.le
      _ = (1 / (1 + u)) ^ (m + 1) := by ring

/-- `(1/(1+u))^m ≤ 1 − m·u + m(m+1)/2·u²` for `u ≥ 0` -/
theorem inv_one_add_pow_upper (m : ℕ) {u : ℝ} (hu : 0 ≤ u) :
    (1 / (1 + u)) ^ m ≤ 1 - m * u + (m * (m + 1) / 2) * u ^ 2 := by
  have h1u : 0 < 1 + u := by linarith
  induction m with
  | zero => simp
  | succ m ih =>
    have hq : 0 < 1 / (1 + u) := by positivity
    have hm : (0 : ℝ) ≤ m := Nat.cast_nonneg m
    have hstep : 1 / (1 + u) * (1 - m * u + (m * (m + 1) / 2) * u ^ 2)
        ≤ 1 - ((m + 1 : ℕ) : ℝ) * u + (((m + 1 : ℕ) : ℝ) * (((m + 1 : ℕ) : ℝ) + 1) / 2) * u ^ 2 := by
      rw [one_div, inv_mul_eq_div, div_le_iff₀ h1u]
      push_cast
      have h3 : 0 ≤ u ^ 3 := by positivity
      have h4 : 0 ≤ (m : ℝ) * u ^ 3 := by positivity
      have h5 : 0 ≤ (m : ℝ) * m * u ^ 3 := by positivity
      nlinarith
    calc (1 / (1 + u)) ^ (m + 1) = 1 / (1 + u) * (1 / (1 + u)) ^ m := by ring
      _ ≤ 1 / (1 + u) * (1 - m * u + (m * (m + 1) / 2) * u ^ 2) := mul_le_mul_of_nonneg_left ih hq.le
      _ ≤ _ := hstep

theorem inv_add_eq {z x : ℝ} (hz : 0 < z) (hx : 0 ≤ x) : 1 / (z + x) = 1 / z * (1 / (1 + x * (1 / z))) := by
  have : z + x ≠ 0 := by positivity
  have : 1 + x * (1 / z) ≠ 0 := by positivity
  field_simp

/-- tangent-line lower bound: `z^{−m} − m·x·z^{−m−1} ≤ (z+x)^{−m}` for `z > 0`, `x ≥ 0` -/
theorem inv_pow_add_lower (m : ℕ) {z x : ℝ} (hz : 0 < z) (hx : 0 ≤ x) :
    (1 / z) ^ m - m * x * (1 / z) ^ (m + 1) ≤ (1 / (z + x)) ^ m := by
  have hw : 0 < 1 / z := by positivity
  rw [inv_add_eq hz hx, mul_pow]
  have h := inv_one_add_pow_lower m (u := x * (1 / z)) (by positivity)
  calc (1 / z) ^ m - m * x * (1 / z) ^ (m + 1) = (1 / z) ^ m * (1 - m * (x * (1 / z))) := by ring
    _ ≤ (1 / z) ^ m * (1 / (1 + x * (1 / z))) ^ m := mul_le_mul_of_nonneg_left h (by positivity)

/-- second-order upper bound: `(z+x)^{−m} ≤ z^{−m} − m·x·z^{−m−1} + m(m+1)/2·x²·z^{−m−2}` -/
theorem inv_pow_add_upper (m : ℕ) {z x : ℝ} (hz : 0 < z) (hx : 0 ≤ x) :
    (1 / (z + x)) ^ m ≤ (1 / z) ^ m - m * x * (1 / z) ^ (m + 1) + (m * (m + 1) / 2) * x ^ 2 * (1 / z) ^ (m + 2) := by
  have hw : 0 < 1 / z := by positivity
  rw [inv_add_eq hz hx, mul_pow]
  have h := inv_one_add_pow_upper m (u := x * (1 / z)) (by positivity)
  calc (1 / z) ^ m * (1 / (1 + x * (1 / z))) ^ m
      ≤ (1 / z) ^ m * (1 - m * (x * (1 / z)) + (m * (m + 1) / 2) * (x * (1 / z)) ^ 2) :=
        mul_le_mul_of_nonneg_left h (by positivity)
    _ = _ := by ring

theorem log_one_add_upper {u : ℝ} (hu : 0 ≤ u) : Real.log (1 + u) ≤ u := by
  have := Real.log_le_sub_one_of_pos (by linarith : 0 < 1 + u)
  linarith

theorem log_one_add_lower {u : ℝ} (hu : 0 ≤ u) (hu1 : u ≤ 1 / 2) : u - 2 * u ^ 2 ≤ Real.log (1 + u) := by
  have habs : |(-u)| < 1 := by rw [abs_neg, abs_of_nonneg hu]; linarith
  have h := Real.abs_log_sub_add_sum_range_le habs 1
  rw [abs_neg, abs_of_nonneg hu, sub_neg_eq_add] at h
  simp only [Finset.sum_range_one] at h
  norm_num at h
  have h2 := (abs_le.mp h).1
  have hb : u ^ 2 / (1 - u) ≤ 2 * u ^ 2 := by
    rw [div_le_iff₀ (by linarith)]
    have : 0 ≤ u ^ 2 := by positivity
    nlinarith
  linarith

end Statrs.Lemmas.Transfer
