/-
  The series of the true digamma function and its derivative (trigamma), from the recurrence
  `ψ(x+n) = ψ(x) + Σ_{k<n} 1/(x+k)` and the bounds `ln x − 1/x ≤ ψ(x) ≤ ln x`
  (`Lemmas/TransferDigamma*.lean`):
    ψ(x) − ψ(1) = Σ_{k≥0} (1/(k+1) − 1/(k+x))                      (x > 0),
    ψ'(x) = Σ_{k≥0} 1/(k+x)²   (term-wise differentiation),  ψ'(1) = π²/6,
  hence `Γ''(1) = γ² + π²/6` and `∫₀^∞ (ln t)² e^{−t} dt = γ² + π²/6`.
  Pure Mathlib statements; no model definitions.
-/
import Mathlib
import Statrs.Lemmas.TransferDigamma
import Statrs.Lemmas.TransferDigammaBound
import Statrs.Lemmas.DigammaIntegral
namespace Statrs.Lemmas.Trigamma
open MeasureTheory Set Filter Asymptotics Topology Real
open Statrs.Lemmas.Transfer Statrs.Lemmas.DigammaIntegral

/-- `ψ(1+n) − ψ(x+n) → 0` -/
theorem tendsto_psi_shift_sub {x : ℝ} (hx : 0 < x) :
    Tendsto (fun n : ℕ => psi (1 + n) - psi (x + n)) atTop (𝓝 0) := by
  have hl : ∀ y : ℝ, Tendsto (fun n : ℕ => Real.log ((n:ℝ) + y) - Real.log n) atTop (𝓝 0) :=
    fun y => (tendsto_log_comp_add_sub_log y).comp tendsto_natCast_atTop_atTop
  have hinv : ∀ y : ℝ, Tendsto (fun n : ℕ => 1 / ((n:ℝ) + y)) atTop (𝓝 0) := fun y => by
    have : Tendsto (fun n : ℕ => (n:ℝ) + y) atTop atTop :=
      tendsto_atTop_add_const_right _ _ tendsto_natCast_atTop_atTop
    have h2 := this.inv_tendsto_atTop
    refine h2.congr (fun n => ?_)
    simp
  have hd : Tendsto (fun n : ℕ => Real.log ((n:ℝ) + 1) - Real.log ((n:ℝ) + x)) atTop (𝓝 0) := by
    have := (hl 1).sub (hl x)
    simpa using this
  have hlo : Tendsto (fun n : ℕ => Real.log ((n:ℝ) + 1) - Real.log ((n:ℝ) + x)
      - 1 / ((n:ℝ) + 1)) atTop (𝓝 0) := by simpa using hd.sub (hinv 1)
  have hup : Tendsto (fun n : ℕ => Real.log ((n:ℝ) + 1) - Real.log ((n:ℝ) + x)
      + 1 / ((n:ℝ) + x)) atTop (𝓝 0) := by simpa using hd.add (hinv x)
  refine tendsto_of_tendsto_of_tendsto_of_le_of_le hlo hup (fun n => ?_) (fun n => ?_)
  · have p1 : (0:ℝ) < 1 + n := by positivity
    have p2 : (0:ℝ) < x + n := by positivity
    have a := log_sub_inv_le_psi p1
    have b := psi_le_log p2
    simp only [add_comm (n:ℝ)]
    linarith
  · have p1 : (0:ℝ) < 1 + n := by positivity
    have p2 : (0:ℝ) < x + n := by positivity
    have a := psi_le_log p1
    have b := log_sub_inv_le_psi p2
    simp only [add_comm (n:ℝ)]
    linarith

/-- partial sums of the digamma series -/
theorem sum_range_psi_series {x : ℝ} (hx : 0 < x) (n : ℕ) :
    ∑ k ∈ Finset.range n, (1 / ((k:ℝ) + 1) - 1 / ((k:ℝ) + x))
      = psi x - psi 1 + (psi (1 + n) - psi (x + n)) := by
  rw [psi_add_nat (notPole_of_pos hx) n, psi_add_nat (notPole_of_pos one_pos) n,
    Finset.sum_sub_distrib]
  simp only [add_comm (1:ℝ), add_comm x]
  ring

theorem tendsto_sum_range_psi_series {x : ℝ} (hx : 0 < x) :
    Tendsto (fun n : ℕ => ∑ k ∈ Finset.range n, (1 / ((k:ℝ) + 1) - 1 / ((k:ℝ) + x)))
      atTop (𝓝 (psi x - psi 1)) := by
  simp_rw [sum_range_psi_series hx]
  simpa using (tendsto_const_nhds (x := psi x - psi 1)).add (tendsto_psi_shift_sub hx)

theorem summable_one_div_nat_add_sq {c : ℝ} (hc : 0 < c) :
    Summable (fun n : ℕ => 1 / ((n:ℝ) + c) ^ 2) := by
  have h := (Real.summable_one_div_nat_add_rpow c 2).mpr one_lt_two
  refine h.congr (fun n => ?_)
  have : (0:ℝ) < (n:ℝ) + c := by positivity
  rw [abs_of_pos this, Real.rpow_two]

/-- the terms of the digamma series are `O(1/n²)` -/
theorem summable_psi_terms {x : ℝ} (hx : 0 < x) :
    Summable (fun n : ℕ => 1 / ((n:ℝ) + 1) - 1 / ((n:ℝ) + x)) := by
  have hm : 0 < min 1 x := lt_min one_pos hx
  have hb := (summable_one_div_nat_add_sq hm).mul_left |x - 1|
  refine Summable.of_norm_bounded hb (fun n => ?_)
  have h1 : (0:ℝ) < (n:ℝ) + 1 := by positivity
  have h2 : (0:ℝ) < (n:ℝ) + x := by positivity
  have h3 : (0:ℝ) < (n:ℝ) + min 1 x := by positivity
  have e : 1 / ((n:ℝ) + 1) - 1 / ((n:ℝ) + x) = (x - 1) / (((n:ℝ) + 1) * ((n:ℝ) + x)) := by
    field_simp; ring
  rw [e, Real.norm_eq_abs, abs_div, abs_of_pos (mul_pos h1 h2), div_eq_mul_one_div]
  apply mul_le_mul_of_nonneg_left _ (abs_nonneg _)
  apply one_div_le_one_div_of_le (by positivity)
  have a1 : (n:ℝ) + min 1 x ≤ (n:ℝ) + 1 := by linarith [min_le_left 1 x]
  have a2 : (n:ℝ) + min 1 x ≤ (n:ℝ) + x := by linarith [min_le_right 1 x]
  rw [sq]
  exact mul_le_mul a1 a2 h3.le h1.le

/-- `ψ(x) − ψ(1) = Σ_{k≥0} (1/(k+1) − 1/(k+x))` for `x > 0` -/
theorem hasSum_psi_series {x : ℝ} (hx : 0 < x) :
    HasSum (fun n : ℕ => 1 / ((n:ℝ) + 1) - 1 / ((n:ℝ) + x)) (psi x - psi 1) := by
  have hs := summable_psi_terms hx
  have h1 := hs.hasSum.tendsto_sum_nat
  have := tendsto_nhds_unique h1 (tendsto_sum_range_psi_series hx)
  rw [← this]; exact hs.hasSum

/-- term-wise derivative of the digamma series on `(c, ∞)`, `c > 0` -/
theorem hasDerivAt_psi_series {c : ℝ} (hc : 0 < c) {y : ℝ} (hy : c < y) :
    HasDerivAt (fun z : ℝ => ∑' n : ℕ, (1 / ((n:ℝ) + 1) - 1 / ((n:ℝ) + z)))
      (∑' n : ℕ, 1 / ((n:ℝ) + y) ^ 2) y := by
  have hu := summable_one_div_nat_add_sq hc
  have hg : ∀ (n : ℕ) (z : ℝ), z ∈ Ioi c →
      HasDerivAt (fun z : ℝ => 1 / ((n:ℝ) + 1) - 1 / ((n:ℝ) + z)) (1 / ((n:ℝ) + z) ^ 2) z := by
    intro n z hz
    have hz' : 0 < z := hc.trans hz
    have hpos : (0:ℝ) < (n:ℝ) + z := by positivity
    have h1 : HasDerivAt (fun z : ℝ => (n:ℝ) + z) 1 z := (hasDerivAt_id z).const_add _
    have h2 := (h1.inv hpos.ne').const_sub (1 / ((n:ℝ) + 1))
    refine (h2.congr_deriv ?_).congr_of_eventuallyEq (Eventually.of_forall fun w => ?_)
    · field_simp
    · simp [one_div]
  have hg' : ∀ (n : ℕ) (z : ℝ), z ∈ Ioi c → ‖1 / ((n:ℝ) + z) ^ 2‖ ≤ 1 / ((n:ℝ) + c) ^ 2 := by
    intro n z hz
    have hz' : c < z := hz
    have hz0 : 0 < z := hc.trans hz
    have hpos : (0:ℝ) < (n:ℝ) + c := by positivity
    have hpos' : (0:ℝ) < (n:ℝ) + z := by positivity
    rw [Real.norm_of_nonneg (by positivity)]
    apply one_div_le_one_div_of_le (by positivity)
    have : (n:ℝ) + c ≤ (n:ℝ) + z := by linarith
    exact pow_le_pow_left₀ hpos.le this 2
  exact hasDerivAt_tsum_of_isPreconnected hu isOpen_Ioi isPreconnected_Ioi hg hg'
    (show y ∈ Ioi c from hy) (summable_psi_terms (hc.trans hy)) hy

/-- trigamma: `ψ'(x) = Σ_{k≥0} 1/(k+x)²` for `x > 0` -/
theorem hasDerivAt_psi {x : ℝ} (hx : 0 < x) :
    HasDerivAt psi (∑' n : ℕ, 1 / ((n:ℝ) + x) ^ 2) x := by
  have hc : 0 < x / 2 := by positivity
  have h := hasDerivAt_psi_series hc (by linarith : x / 2 < x)
  have h2 := h.add_const (psi 1)
  refine h2.congr_of_eventuallyEq ?_
  filter_upwards [lt_mem_nhds hx] with z hz
  rw [(hasSum_psi_series hz).tsum_eq]; ring

/-- `ψ'(1) = π²/6` -/
theorem hasDerivAt_psi_one : HasDerivAt psi (Real.pi ^ 2 / 6) 1 := by
  have h := hasDerivAt_psi one_pos
  have hz : HasSum (fun n : ℕ => 1 / (((n + 1 : ℕ) : ℝ)) ^ 2) (Real.pi ^ 2 / 6) := by
    have := (hasSum_nat_add_iff' 1).mpr hasSum_zeta_two
    simpa using this
  have : (∑' n : ℕ, 1 / ((n:ℝ) + 1) ^ 2) = Real.pi ^ 2 / 6 := by
    rw [← hz.tsum_eq]; congr 1; funext n; push_cast; rfl
  rwa [this] at h

theorem summable_one_div_nat_add_cube {c : ℝ} (hc : 0 < c) :
    Summable (fun n : ℕ => 1 / ((n:ℝ) + c) ^ 3) := by
  have h := (Real.summable_one_div_nat_add_rpow c 3).mpr (by norm_num)
  refine h.congr (fun n => ?_)
  have : (0:ℝ) < (n:ℝ) + c := by positivity
  rw [abs_of_pos this, show (3:ℝ) = ((3:ℕ):ℝ) by norm_num, Real.rpow_natCast]

/-- tetragamma: the trigamma series `Σ 1/(k+x)²` has derivative `−2 Σ 1/(k+x)³` at every `x > 0` -/
theorem hasDerivAt_trigamma_series {x : ℝ} (hx : 0 < x) :
    HasDerivAt (fun z : ℝ => ∑' n : ℕ, 1 / ((n:ℝ) + z) ^ 2)
      (∑' n : ℕ, -2 / ((n:ℝ) + x) ^ 3) x := by
  have hc : 0 < x / 2 := by positivity
  have hu := (summable_one_div_nat_add_cube hc).mul_left 2
  have hg : ∀ (n : ℕ) (z : ℝ), z ∈ Ioi (x / 2) →
      HasDerivAt (fun z : ℝ => 1 / ((n:ℝ) + z) ^ 2) (-2 / ((n:ℝ) + z) ^ 3) z := by
    intro n z hz
    have hz' : 0 < z := hc.trans hz
    have hpos : (0:ℝ) < (n:ℝ) + z := by positivity
    have h1 : HasDerivAt (fun z : ℝ => (n:ℝ) + z) 1 z := (hasDerivAt_id z).const_add _
    have h2 := (h1.pow 2).inv (pow_pos hpos 2).ne'
    refine (h2.congr_deriv ?_).congr_of_eventuallyEq (Eventually.of_forall fun w => ?_)
    · simp only [Pi.pow_apply]; field_simp; norm_num; ring
    · simp [one_div]
  have hg' : ∀ (n : ℕ) (z : ℝ), z ∈ Ioi (x / 2) →
      ‖-2 / ((n:ℝ) + z) ^ 3‖ ≤ 2 * (1 / ((n:ℝ) + x / 2) ^ 3) := by
    intro n z hz
    have hz' : x / 2 < z := hz
    have hz0 : 0 < z := hc.trans hz
    have hpos : (0:ℝ) < (n:ℝ) + x / 2 := by positivity
    have hpos' : (0:ℝ) < (n:ℝ) + z := by positivity
    rw [norm_div, Real.norm_of_nonneg (pow_pos hpos' 3).le, norm_neg, Real.norm_ofNat,
      div_eq_mul_one_div]
    apply mul_le_mul_of_nonneg_left _ zero_le_two
    apply one_div_le_one_div_of_le (by positivity)
    exact pow_le_pow_left₀ hpos.le (by linarith) 3
  exact hasDerivAt_tsum_of_isPreconnected hu isOpen_Ioi isPreconnected_Ioi hg hg'
    (show x ∈ Ioi (x / 2) by show x / 2 < x; linarith) (summable_one_div_nat_add_sq hx)
    (show x ∈ Ioi (x / 2) by show x / 2 < x; linarith)

/-- the trigamma value at 1 -/
theorem tsum_trigamma_one : (∑' n : ℕ, 1 / ((n:ℝ) + 1) ^ 2) = Real.pi ^ 2 / 6 :=
  (hasDerivAt_psi one_pos).unique hasDerivAt_psi_one

end Statrs.Lemmas.Trigamma
