/-
  Statrs.Lemmas.Unimodal — the search loops of `stats_tests::fisher::binary_search` with the
  probability mass function kept abstract (`f : ℤ → ℝ`).

  * `bsLoop1`, `scanUp`, `scanDown`, `bsearchM`: the loops of the generated
    `T.fisher.binary_search` with `Hypergeometric.pmf dist` replaced by an arbitrary `f`; the
    bridge theorems (`loop1_eq`, `loop3_eq`, …, `binary_search_eq`) prove that the generated
    definitions over ℝ ARE these functions at `f = Hypergeometric.pmf dist` (so nothing below is a
    statement about a hand copy: a change of the generated loops breaks the bridges).
  * `scanUp_spec` / `scanDown_spec`: a linear scan stops at the first index where its condition
    fails, within the fuel.
  * `bsLoop1_upper_spec` / `bsLoop1_range`: the halving loop (invariant and termination within
    `fuel` whenever `max − min ≤ 2 ^ fuel`).
-/
import Statrs.Real.Simp
import Statrs.Gen.T_fisher
import Mathlib.Tactic
set_option linter.unusedVariables false
set_option linter.unusedSectionVars false
namespace Statrs.Lemmas.Unimodal
open Statrs Statrs.Gen

/-! ### the loops over an abstract pmf -/

/-- `binary_search`'s halving loop (fisher.rs:30–60) over an abstract pmf `f` -/
noncomputable def bsLoop1 (f : ℤ → ℝ) (p : ℝ) (upper : Bool) : ℕ → ℤ → ℤ → ℤ → LoopR Int (Int × Int × Int)
  | 0, _, _, _ => LoopR.hang
  | fuel + 1, guess, max_val, min_val =>
    if usub max_val min_val ≤ 1 then LoopR.done (guess, max_val, min_val)
    else
      let guess := if (max_val = min_val + 1) ∧ (guess = min_val) then max_val
        else udiv (max_val + min_val) 2
      let ng := if upper = true then guess - 1 else guess + 1
      if (f guess ≤ p) ∧ (p < f ng) then LoopR.done (guess, max_val, min_val)
      else if f guess < p then bsLoop1 f p upper fuel guess guess min_val
      else bsLoop1 f p upper fuel guess max_val guess

/-- `loop { if c(guess) { guess += 1 } else { break } }` -/
def scanUp (c : ℤ → Prop) [DecidablePred c] : ℕ → ℤ → LoopR Int Int
  | 0, _ => LoopR.hang
  | fuel + 1, g => if c g then scanUp c fuel (g + 1) else LoopR.done g

/-- `loop { if c(guess) { guess -= 1 } else { break } }` -/
def scanDown (c : ℤ → Prop) [DecidablePred c] : ℕ → ℤ → LoopR Int Int
  | 0, _ => LoopR.hang
  | fuel + 1, g => if c g then scanDown c fuel (g - 1) else LoopR.done g

/-- `binary_search` (fisher.rs:7) over an abstract pmf -/
noncomputable def bsearchM (f : ℤ → ℝ) (n mode : ℤ) (p e : ℝ) (upper : Bool) : ℤ :=
  match bsLoop1 f p upper loopFuel 0 (if upper = true then n else mode)
      (if upper = true then mode else 0) with
  | LoopR.ret v => v
  | LoopR.hang => panicV
  | LoopR.done (guess, max_val, min_val) =>
    let guess := if guess = 0 then min_val else guess
    if upper = true then
      match scanDown (fun g => 0 < g ∧ f g < p * e) loopFuel guess with
      | LoopR.ret v => v
      | LoopR.hang => panicV
      | LoopR.done guess =>
        match scanUp (fun g => p / e < f g) loopFuel guess with
        | LoopR.ret v => v
        | LoopR.hang => panicV
        | LoopR.done guess => guess
    else
      match scanUp (fun g => f g < p * e) loopFuel guess with
      | LoopR.ret v => v
      | LoopR.hang => panicV
      | LoopR.done guess =>
        match scanDown (fun g => 0 < g ∧ p / e < f g) loopFuel guess with
        | LoopR.ret v => v
        | LoopR.hang => panicV
        | LoopR.done guess => guess

/-! ### bridges to the generated definitions -/

section bridge
variable [SF ℝ]

/-- the pmf the generated loops evaluate -/
noncomputable abbrev hpmf (dist : Hypergeometric) : ℤ → ℝ :=
  fun k => Hypergeometric.pmf (α := ℝ) dist k

theorem loop1_eq (dist : Hypergeometric) (p : ℝ) (upper : Bool) (fuel : ℕ) (g M m : ℤ) :
    T.fisher.binary_search.loop1 (α := ℝ) fuel dist p upper g M m
      = bsLoop1 (hpmf dist) p upper fuel g M m := by
  induction fuel generalizing g M m with
  | zero => rfl
  | succ k ih =>
    unfold T.fisher.binary_search.loop1 bsLoop1
    simp only [ih, hpmf]
    split_ifs <;> rfl

theorem loop3_eq (dist : Hypergeometric) (e p : ℝ) (fuel : ℕ) (g : ℤ) :
    T.fisher.binary_search.loop3 (α := ℝ) fuel dist e p g
      = scanDown (fun g => 0 < g ∧ hpmf dist g < p * e) fuel g := by
  induction fuel generalizing g with
  | zero => rfl
  | succ k ih =>
    unfold T.fisher.binary_search.loop3 scanDown
    simp only [ih, hpmf]

theorem loop5_eq (dist : Hypergeometric) (e p : ℝ) (fuel : ℕ) (g : ℤ) :
    T.fisher.binary_search.loop5 (α := ℝ) fuel dist e p g
      = scanUp (fun g => p / e < hpmf dist g) fuel g := by
  induction fuel generalizing g with
  | zero => rfl
  | succ k ih =>
    unfold T.fisher.binary_search.loop5 scanUp
    simp only [ih, hpmf]

theorem loop7_eq (dist : Hypergeometric) (e p : ℝ) (fuel : ℕ) (g : ℤ) :
    T.fisher.binary_search.loop7 (α := ℝ) fuel dist e p g
      = scanUp (fun g => hpmf dist g < p * e) fuel g := by
  induction fuel generalizing g with
  | zero => rfl
  | succ k ih =>
    unfold T.fisher.binary_search.loop7 scanUp
    simp only [ih, hpmf]

theorem loop9_eq (dist : Hypergeometric) (e p : ℝ) (fuel : ℕ) (g : ℤ) :
    T.fisher.binary_search.loop9 (α := ℝ) fuel dist e p g
      = scanDown (fun g => 0 < g ∧ p / e < hpmf dist g) fuel g := by
  induction fuel generalizing g with
  | zero => rfl
  | succ k ih =>
    unfold T.fisher.binary_search.loop9 scanDown
    simp only [ih, hpmf]

/-- the generated `binary_search` over ℝ is `bsearchM` at the hypergeometric pmf of the table
    margins (whenever `Hypergeometric::new(..).unwrap()` does not panic) -/
theorem binary_search_eq (n n1 n2 mode : ℤ) (p e : ℝ) (upper : Bool)
    (h1 : 0 ≤ n2) (h2 : n ≤ n1 + n2) :
    T.fisher.binary_search (α := ℝ) n n1 n2 mode p e upper
      = bsearchM (hpmf ⟨n1 + n2, n1, n⟩) n mode p e upper := by
  have hnew : Hypergeometric.new (α := ℝ) (n1 + n2) n1 n = .ok ⟨n1 + n2, n1, n⟩ := by
    unfold Hypergeometric.new
    rw [if_neg (by omega), if_neg (by omega)]
  unfold T.fisher.binary_search bsearchM
  simp only [hnew, unwrapE, loop1_eq, loop3_eq, loop5_eq, loop7_eq, loop9_eq]
  cases upper <;> rfl

end bridge

/-! ### linear scans -/

/-- an upward scan stops at the first index `r ≥ g` at which the condition fails, provided some
    `t ≥ g` with `¬ c t` is closer than the fuel -/
theorem scanUp_spec (c : ℤ → Prop) [DecidablePred c] (fuel : ℕ) (g t : ℤ) (hgt : g ≤ t)
    (ht : ¬ c t) (hfuel : t - g < fuel) :
    ∃ r, scanUp c fuel g = LoopR.done r ∧ g ≤ r ∧ r ≤ t ∧ ¬ c r ∧ ∀ k, g ≤ k → k < r → c k := by
  induction fuel generalizing g with
  | zero => exfalso; simp at hfuel; omega
  | succ n ih =>
    unfold scanUp
    by_cases hc : c g
    · rw [if_pos hc]
      have hne : g ≠ t := fun h => ht (h ▸ hc)
      obtain ⟨r, h1, h2, h3, h4, h5⟩ := ih (g + 1) (by omega) (by push_cast at hfuel; omega)
      refine ⟨r, h1, by omega, h3, h4, ?_⟩
      intro k hk1 hk2
      by_cases hkg : k = g
      · subst hkg; exact hc
      · exact h5 k (by omega) hk2
    · rw [if_neg hc]
      exact ⟨g, rfl, le_refl _, hgt, hc, fun k h1 h2 => by omega⟩

/-- a downward scan stops at the first index `r ≤ g` at which the condition fails -/
theorem scanDown_spec (c : ℤ → Prop) [DecidablePred c] (fuel : ℕ) (g t : ℤ) (htg : t ≤ g)
    (ht : ¬ c t) (hfuel : g - t < fuel) :
    ∃ r, scanDown c fuel g = LoopR.done r ∧ t ≤ r ∧ r ≤ g ∧ ¬ c r ∧ ∀ k, r < k → k ≤ g → c k := by
  induction fuel generalizing g with
  | zero => exfalso; simp at hfuel; omega
  | succ n ih =>
    unfold scanDown
    by_cases hc : c g
    · rw [if_pos hc]
      have hne : g ≠ t := fun h => ht (h ▸ hc)
      obtain ⟨r, h1, h2, h3, h4, h5⟩ := ih (g - 1) (by omega) (by push_cast at hfuel; omega)
      refine ⟨r, h1, h2, by omega, h4, ?_⟩
      intro k hk1 hk2
      by_cases hkg : k = g
      · subst hkg; exact hc
      · exact h5 k hk1 (by omega)
    · rw [if_neg hc]
      exact ⟨g, rfl, htg, le_refl _, hc, fun k h1 h2 => by omega⟩

/-! ### the halving loop -/

/-- Invariant rule for `bsLoop1`: an invariant `I max min` preserved by both updates holds at the
    exit; the loop exits within `fuel + 1` iterations when `max − min ≤ 2 ^ fuel`; at the exit
    either the interval has length ≤ 1, or `guess` lies strictly inside it and satisfies the
    early-exit test `f guess ≤ p < f (guess ∓ 1)`.  (The test `max == min + 1 && guess == min` of the
    source can never succeed: the loop has already stopped when `max − min ≤ 1`.) -/
theorem bsLoop1_spec (f : ℤ → ℝ) (p : ℝ) (upper : Bool) (I : ℤ → ℤ → Prop)
    (hmax : ∀ M m, I M m → m + 2 ≤ M →
      ¬ (f ((M + m) / 2) ≤ p ∧ p < f (if upper = true then (M + m) / 2 - 1 else (M + m) / 2 + 1)) →
      f ((M + m) / 2) < p → I ((M + m) / 2) m)
    (hmin : ∀ M m, I M m → m + 2 ≤ M →
      ¬ (f ((M + m) / 2) ≤ p ∧ p < f (if upper = true then (M + m) / 2 - 1 else (M + m) / 2 + 1)) →
      ¬ f ((M + m) / 2) < p → I M ((M + m) / 2))
    (fuel : ℕ) (g M m : ℤ) (hI : I M m) (hmM : m ≤ M) (hg : g = 0 ∨ (m ≤ g ∧ g ≤ M))
    (hw : M - m ≤ 2 ^ fuel) :
    ∃ g' M' m', bsLoop1 f p upper (fuel + 1) g M m = LoopR.done (g', M', m') ∧ I M' m' ∧
      m' ≤ M' ∧ m ≤ m' ∧ M' ≤ M ∧ (g' = 0 ∨ (m' ≤ g' ∧ g' ≤ M')) ∧
      (M' ≤ m' + 1 ∨ (m' < g' ∧ g' < M' ∧ f g' ≤ p ∧
        p < f (if upper = true then g' - 1 else g' + 1))) := by
  induction fuel generalizing g M m with
  | zero =>
    unfold bsLoop1
    have hu : usub M m = M - m := by unfold usub; rw [if_neg (by omega)]
    rw [hu, if_pos (by simpa using hw)]
    exact ⟨g, M, m, rfl, hI, hmM, le_refl _, le_refl _, hg, Or.inl (by simp at hw; omega)⟩
  | succ k ih =>
    unfold bsLoop1
    have hu : usub M m = M - m := by unfold usub; rw [if_neg (by omega)]
    rw [hu]
    by_cases hw1 : M - m ≤ 1
    · rw [if_pos hw1]
      exact ⟨g, M, m, rfl, hI, hmM, le_refl _, le_refl _, hg, Or.inl (by omega)⟩
    · rw [if_neg hw1]
      have hne : ¬ (M = m + 1 ∧ g = m) := fun h => hw1 (by omega)
      have hud : udiv (M + m) 2 = (M + m) / 2 := by unfold udiv; rw [if_neg (by norm_num)]
      simp only [if_neg hne, hud]
      have hpow : (2 : ℤ) ^ (k + 1) = 2 * 2 ^ k := by ring
      rw [hpow] at hw
      generalize (2 : ℤ) ^ k = X at hw ih
      have hG1 : m < (M + m) / 2 := by omega
      have hG2 : (M + m) / 2 < M := by omega
      by_cases hA : f ((M + m) / 2) ≤ p ∧
          p < f (if upper = true then (M + m) / 2 - 1 else (M + m) / 2 + 1)
      · rw [if_pos hA]
        exact ⟨(M + m) / 2, M, m, rfl, hI, hmM, le_refl _, le_refl _, Or.inr ⟨by omega, by omega⟩,
          Or.inr ⟨hG1, hG2, hA.1, hA.2⟩⟩
      · rw [if_neg hA]
        by_cases hlt : f ((M + m) / 2) < p
        · rw [if_pos hlt]
          obtain ⟨g', M', m', h1, h2, h3, h4, h5, h6, h7⟩ :=
            ih ((M + m) / 2) ((M + m) / 2) m (hmax M m hI (by omega) hA hlt) (by omega)
              (Or.inr ⟨by omega, le_refl _⟩) (by omega)
          exact ⟨g', M', m', h1, h2, h3, h4, by omega, h6, h7⟩
        · rw [if_neg hlt]
          obtain ⟨g', M', m', h1, h2, h3, h4, h5, h6, h7⟩ :=
            ih ((M + m) / 2) M ((M + m) / 2) (hmin M m hI (by omega) hA hlt) (by omega)
              (Or.inr ⟨le_refl _, by omega⟩) (by omega)
          exact ⟨g', M', m', h1, h2, h3, by omega, h5, h6, h7⟩

/-- enough fuel for every `u64` interval: `2 ^ 64 ≤ 2 ^ (loopFuel − 1)` -/
theorem loopFuel_pow : (2 : ℤ) ^ 64 ≤ 2 ^ (loopFuel - 1) := by
  unfold loopFuel
  exact pow_le_pow_right₀ (by norm_num) (by norm_num)

/-! ### `binary_search`, upper side -/

theorem le_div_self_of (p e : ℝ) (hp : 0 ≤ p) (he0 : 0 < e) (he1 : e ≤ 1) : p ≤ p / e := by
  rw [le_div_iff₀ he0]; exact mul_le_of_le_one_right hp he1

theorem mul_le_div_of (p e : ℝ) (hp : 0 ≤ p) (he0 : 0 < e) (he1 : e ≤ 1) : p * e ≤ p / e :=
  le_trans (mul_le_of_le_one_right hp he1) (le_div_self_of p e hp he0 he1)

/-- **`binary_search(.., upper = true)`**.  Let `f` be non-increasing from `mode` on, with
    `f mode > p/e ≥ f n` (the caller has excluded the near-mode case and the shortcut) and no plateau
    at the exact level `p` (`f k = p → p < f (k−1)`, true for a strictly decreasing `f`).
    Then the search terminates within the fuel for every `u64` interval (`n − mode ≤ 2^64`) and
    returns an index `r` with `mode < r ≤ n`, `f r ≤ p/e`, and `p < f k` for all `mode ≤ k < r`:
    `r` lies between the boundary of the slack set `{f ≤ p/e}` and the boundary of the exact set
    `{f ≤ p}` (both inclusive). -/
theorem bsearchM_upper_spec (f : ℤ → ℝ) (n mode : ℤ) (p e : ℝ)
    (h0 : 0 ≤ mode) (hp : 0 ≤ p) (he0 : 0 < e) (he1 : e ≤ 1)
    (hanti : ∀ i j, mode ≤ i → i ≤ j → f j ≤ f i)
    (hmode : p / e < f mode) (hn : f n ≤ p / e) (hmn : mode ≤ n)
    (hnp : ∀ k, mode < k → f k = p → p < f (k - 1))
    (hfuel : n - mode ≤ 2 ^ 64) :
    ∃ r, bsearchM f n mode p e true = r ∧ mode < r ∧ r ≤ n ∧ f r ≤ p / e ∧
      ∀ k, mode ≤ k → k < r → p < f k := by
  have hpe : p ≤ p / e := le_div_self_of p e hp he0 he1
  have hpe' : p * e ≤ p := mul_le_of_le_one_right hp he1
  -- the halving loop
  obtain ⟨g, M, m, hloop, ⟨hI1, hI2, hI3, hI4⟩, hmM, -, -, hg, hexit⟩ :=
    bsLoop1_spec f p true (fun M m => mode ≤ m ∧ M ≤ n ∧ p < f m ∧ f M ≤ p / e)
      (by
        rintro M m ⟨a1, a2, a3, a4⟩ hw hA hlt
        exact ⟨a1, by omega, a3, le_trans hlt.le hpe⟩)
      (by
        rintro M m ⟨a1, a2, a3, a4⟩ hw hA hlt
        refine ⟨by omega, a2, ?_, a4⟩
        rcases lt_or_eq_of_le (not_lt.mp hlt) with h | h
        · exact h
        · exfalso
          apply hA
          simp only [if_true]
          exact ⟨h.symm.le, hnp _ (by omega) h.symm⟩)
      (loopFuel - 1) 0 n mode ⟨le_refl _, le_refl _, lt_of_le_of_lt hpe hmode, hn⟩ hmn (Or.inl rfl)
      (le_trans hfuel loopFuel_pow)
  have hfu : loopFuel - 1 + 1 = loopFuel := by unfold loopFuel; norm_num
  rw [hfu] at hloop
  -- the start of the adjustment scans
  set g0 : ℤ := if g = 0 then m else g with hg0
  have hg0r : m ≤ g0 ∧ g0 ≤ M := by
    rw [hg0]; split_ifs with h
    · exact ⟨le_refl _, hmM⟩
    · rcases hg with h' | h'
      · exact absurd h' h
      · exact h'
  have hP0 : ∀ k, mode ≤ k → k < g0 → p < f k := by
    intro k hk1 hk2
    rcases hexit with hB | ⟨hA1, hA2, hA3, hA4⟩
    · exact lt_of_lt_of_le hI3 (hanti k m hk1 (by omega))
    · have hgne : g ≠ 0 := by omega
      rw [hg0, if_neg hgne] at hk2
      simp only [if_true] at hA4
      exact lt_of_lt_of_le hA4 (hanti k (g - 1) hk1 (by omega))
  have hT0 : ∃ t, g0 ≤ t ∧ t ≤ g0 + 1 ∧ t ≤ n ∧ f t ≤ p / e := by
    rcases hexit with hB | ⟨hA1, hA2, hA3, hA4⟩
    · exact ⟨M, hg0r.2, by omega, hI2, hI4⟩
    · have hgne : g ≠ 0 := by omega
      refine ⟨g, ?_, ?_, by omega, le_trans hA3 hpe⟩ <;> rw [hg0, if_neg hgne]
      omega
  -- first scan: down while `0 < g ∧ f g < p·e` (at most one step)
  have hc_mode : ¬ (0 < mode ∧ f mode < p * e) := by
    rintro ⟨-, h⟩
    linarith [mul_le_div_of p e hp he0 he1]
  obtain ⟨g1, hs1, hg1a, hg1b, hg1c, hg1d⟩ :
      ∃ g1, scanDown (fun g => 0 < g ∧ f g < p * e) loopFuel g0 = LoopR.done g1 ∧
        mode ≤ g1 ∧ g1 ≤ g0 ∧ g0 ≤ g1 + 1 ∧ (g1 < g0 → f g0 < p * e) := by
    by_cases hc : 0 < g0 ∧ f g0 < p * e
    · have hne : g0 ≠ mode := fun h => hc_mode (h ▸ hc)
      have hlt : mode < g0 := lt_of_le_of_ne (by omega) (Ne.symm hne)
      have hnc : ¬ (0 < g0 - 1 ∧ f (g0 - 1) < p * e) := by
        rintro ⟨-, h⟩
        have := hP0 (g0 - 1) (by omega) (by omega)
        linarith
      obtain ⟨r, h1, h2, h3, h4, h5⟩ :=
        scanDown_spec (fun g => 0 < g ∧ f g < p * e) loopFuel g0 (g0 - 1) (by omega) hnc
          (by unfold loopFuel; norm_num)
      exact ⟨r, h1, by omega, h3, by omega, fun _ => hc.2⟩
    · obtain ⟨r, h1, h2, h3, h4, h5⟩ :=
        scanDown_spec (fun g => 0 < g ∧ f g < p * e) loopFuel g0 g0 (le_refl _) hc
          (by unfold loopFuel; norm_num)
      exact ⟨r, h1, by omega, h3, by omega, fun h => by omega⟩
  have hT1 : ∃ t, g1 ≤ t ∧ t ≤ g1 + 1 ∧ t ≤ n ∧ f t ≤ p / e := by
    by_cases h : g1 < g0
    · obtain ⟨t, -, -, ht3, -⟩ := hT0
      exact ⟨g0, by omega, by omega, by omega,
        le_trans (hg1d h).le (mul_le_div_of p e hp he0 he1)⟩
    · obtain ⟨t, ht1, ht2, ht3, ht4⟩ := hT0
      exact ⟨t, by omega, by omega, ht3, ht4⟩
  -- second scan: up while `p/e < f g` (at most one step)
  obtain ⟨t, ht1, ht2, ht3, ht4⟩ := hT1
  obtain ⟨r, hs2, hr1, hr2, hr3, hr4⟩ :=
    scanUp_spec (fun g => p / e < f g) loopFuel g1 t ht1 (not_lt.mpr ht4)
      (by unfold loopFuel; push_cast; omega)
  refine ⟨r, ?_, ?_, by omega, not_lt.mp hr3, ?_⟩
  · unfold bsearchM
    simp only [if_true]
    rw [hloop]
    simp only [← hg0]
    rw [hs1]
    simp only []
    rw [hs2]
  · have : r ≠ mode := by
      intro h; rw [h] at hr3; exact hr3 hmode
    omega
  · intro k hk1 hk2
    by_cases hk : k < g1
    · exact hP0 k hk1 (by omega)
    · exact lt_of_le_of_lt hpe (hr4 k (by omega) hk2)

/-! ### `binary_search`, lower side -/

/-- **`binary_search(.., upper = false)`**.  Let `f` be non-decreasing up to `mode`, with
    `f mode > p/e ≥ f 0`.  The halving loop of the source updates `max`/`min` with the same test
    as on the upper side although `f` is increasing here, so it moves AWAY from the boundary and
    ends at one end of `[0, mode]`; the result is produced by the two linear scans alone.  Hence:
    termination within the model's fuel only for `mode < loopFuel = 20000` (the Rust code itself
    needs `O(mode)` pmf evaluations), and the returned `r` satisfies `0 ≤ r < mode`, `f r ≤ p/e`
    and `p·e ≤ f k` for all `r < k ≤ mode` — which does NOT exclude `f k ≤ p` for some `k > r`. -/
theorem bsearchM_lower_spec (f : ℤ → ℝ) (n mode : ℤ) (p e : ℝ)
    (h0 : 0 ≤ mode) (hp : 0 ≤ p) (he0 : 0 < e) (he1 : e ≤ 1)
    (hmono : ∀ i j, 0 ≤ i → i ≤ j → j ≤ mode → f i ≤ f j)
    (hmode : p / e < f mode) (hz : f 0 ≤ p / e)
    (hfuel : mode < loopFuel) :
    ∃ r g1, bsearchM f n mode p e false = r ∧ 0 ≤ r ∧ r ≤ g1 ∧ g1 ≤ mode ∧ r < mode ∧
      f r ≤ p / e ∧ p * e ≤ f g1 ∧ (∀ k, r < k → k ≤ g1 → p / e < f k) ∧
      ∀ k, r < k → k ≤ mode → p * e ≤ f k := by
  have hpe : p ≤ p / e := le_div_self_of p e hp he0 he1
  have hpe2 : p * e ≤ p / e := mul_le_div_of p e hp he0 he1
  have hlf : mode ≤ 2 ^ (loopFuel - 1) := by
    have : (2 : ℤ) ^ 64 ≤ 2 ^ (loopFuel - 1) := loopFuel_pow
    unfold loopFuel at hfuel
    norm_num at this hfuel ⊢
    omega
  obtain ⟨g, M, m, hloop, ⟨hI1, hI2⟩, hmM, -, -, hg, -⟩ :=
    bsLoop1_spec f p false (fun M m => 0 ≤ m ∧ M ≤ mode)
      (by rintro M m ⟨a1, a2⟩ hw hA hlt; exact ⟨a1, by omega⟩)
      (by rintro M m ⟨a1, a2⟩ hw hA hlt; exact ⟨by omega, a2⟩)
      (loopFuel - 1) 0 mode 0 ⟨le_refl _, le_refl _⟩ h0 (Or.inl rfl) (by simpa using hlf)
  have hfu : loopFuel - 1 + 1 = loopFuel := by unfold loopFuel; norm_num
  rw [hfu] at hloop
  set g0 : ℤ := if g = 0 then m else g with hg0
  have hg0r : 0 ≤ g0 ∧ g0 ≤ mode := by
    rw [hg0]; split_ifs with h
    · exact ⟨hI1, by omega⟩
    · rcases hg with h' | h'
      · exact absurd h' h
      · exact ⟨by omega, by omega⟩
  obtain ⟨g1, hs1, hg1a, hg1b, hg1c, -⟩ :=
    scanUp_spec (fun g => f g < p * e) loopFuel g0 mode hg0r.2
      (by simp only [not_lt]; linarith) (by omega)
  obtain ⟨r, hs2, hr1, hr2, hr3, hr4⟩ :=
    scanDown_spec (fun g => 0 < g ∧ p / e < f g) loopFuel g1 0 (by omega)
      (by rintro ⟨h, -⟩; exact lt_irrefl _ h) (by omega)
  have hfr : f r ≤ p / e := by
    by_cases h : 0 < r
    · exact not_lt.mp (fun h' => hr3 ⟨h, h'⟩)
    · have : r = 0 := by omega
      rw [this]; exact hz
  refine ⟨r, g1, ?_, hr1, hr2, hg1b, ?_, hfr, not_lt.mp hg1c, fun k h1 h2 => (hr4 k h1 h2).2, ?_⟩
  · unfold bsearchM
    simp only [Bool.false_eq_true, if_false]
    rw [hloop]
    simp only [← hg0]
    rw [hs1]
    simp only []
    rw [hs2]
  · have : r ≠ mode := by
      intro h; rw [h] at hfr; linarith
    omega
  · intro k hk1 hk2
    by_cases hk : k ≤ g1
    · exact le_trans hpe2 (hr4 k hk1 hk).2.le
    · exact le_trans (not_lt.mp hg1c) (hmono g1 k (by omega) (by omega) hk2)

end Statrs.Lemmas.Unimodal
