/-
  Statrs.Lemmas.UnimodalSums — order and summation helpers for a pmf on an integer interval:
  monotonicity from one-step inequalities, `Σ_{lo ≤ j ≤ x} f j` as a filtered sum over the
  support `[lo, hi]`, complements and unions of filtered sums.
-/
import Mathlib.Tactic
import Mathlib.Algebra.BigOperators.Intervals
import Mathlib.Order.Interval.Finset.Basic
set_option linter.unusedVariables false
namespace Statrs.Lemmas.UnimodalSums
open Finset

theorem mono_of_step (f : ℤ → ℝ) (b : ℤ) (h : ∀ k, k + 1 ≤ b → f k ≤ f (k + 1)) :
    ∀ i j, i ≤ j → j ≤ b → f i ≤ f j := by
  intro i j hij
  induction j, hij using Int.leInduction with
  | base => intro _; exact le_refl _
  | succ j hj ih => intro hb; exact le_trans (ih (by omega)) (h j hb)

theorem monoFrom_of_step (f : ℤ → ℝ) (b : ℤ) (h : ∀ k, 0 ≤ k → k + 1 ≤ b → f k ≤ f (k + 1)) :
    ∀ i j, 0 ≤ i → i ≤ j → j ≤ b → f i ≤ f j := by
  intro i j hi hij
  induction j, hij using Int.leInduction with
  | base => intro _; exact le_refl _
  | succ j hj ih => intro hb; exact le_trans (ih (by omega)) (h j (by omega) hb)

theorem anti_of_step (f : ℤ → ℝ) (a : ℤ) (h : ∀ k, a ≤ k → f (k + 1) ≤ f k) :
    ∀ i j, a ≤ i → i ≤ j → f j ≤ f i := by
  intro i j hai hij
  induction j, hij using Int.leInduction with
  | base => exact le_refl _
  | succ j hj ih => exact le_trans (h j (by omega)) ih

theorem strictMono_of_step (f : ℤ → ℝ) (a b : ℤ)
    (h : ∀ k, a ≤ k → k + 1 ≤ b → f k < f (k + 1)) :
    ∀ i j, a ≤ i → i < j → j ≤ b → f i < f j := by
  intro i j hai hij
  have hij' : i + 1 ≤ j := hij
  induction j, hij' using Int.leInduction with
  | base => intro hb; exact h i hai hb
  | succ j hj ih => intro hb; exact lt_trans (ih (by omega) (by omega)) (h j (by omega) hb)

theorem strictAnti_of_step (f : ℤ → ℝ) (a b : ℤ)
    (h : ∀ k, a ≤ k → k + 1 ≤ b → f (k + 1) < f k) :
    ∀ i j, a ≤ i → i < j → j ≤ b → f j < f i := by
  intro i j hai hij
  have hij' : i + 1 ≤ j := hij
  induction j, hij' using Int.leInduction with
  | base => intro hb; exact h i hai hb
  | succ j hj ih => intro hb; exact lt_trans (h j (by omega) hb) (ih (by omega) (by omega))

/-- `Σ_{lo ≤ j ≤ x} f j` is the sum over the part `j ≤ x` of the support -/
theorem sum_Icc_eq_filter_le (f : ℤ → ℝ) (lo hi x : ℤ) (hz : ∀ k, hi < k → f k = 0) :
    ∑ j ∈ Icc lo x, f j = ∑ j ∈ (Icc lo hi).filter (fun j => j ≤ x), f j := by
  symm
  apply Finset.sum_subset
  · intro j hj
    simp only [mem_filter, mem_Icc] at hj ⊢
    omega
  · intro j hj hnj
    simp only [mem_filter, mem_Icc] at hj hnj
    exact hz j (by omega)

/-- complement: total minus the part `j ≤ y` is the part `y < j` -/
theorem total_sub_filter_le (f : ℤ → ℝ) (lo hi y : ℤ) :
    ∑ j ∈ Icc lo hi, f j - ∑ j ∈ (Icc lo hi).filter (fun j => j ≤ y), f j
      = ∑ j ∈ (Icc lo hi).filter (fun j => y < j), f j := by
  rw [← Finset.sum_filter_add_sum_filter_not (Icc lo hi) (fun j => j ≤ y) f]
  simp only [not_le]
  ring

/-- lower part plus a disjoint upper part -/
theorem filter_le_add_filter_ge (f : ℤ → ℝ) (s : Finset ℤ) (a r : ℤ) (har : a < r) :
    ∑ j ∈ s.filter (fun j => j ≤ a), f j + ∑ j ∈ s.filter (fun j => r ≤ j), f j
      = ∑ j ∈ s.filter (fun j => j ≤ a ∨ r ≤ j), f j := by
  rw [Finset.filter_or, Finset.sum_union]
  rw [Finset.disjoint_filter]
  intro j _ h1 h2
  omega

end Statrs.Lemmas.UnimodalSums
