/-
  Two-sided rational bounds for Apéry's constant `ζ(3) = Σ_{n≥1} 1/n³` (`GammaLogMoments.zeta3`):
      1.2020563 < ζ(3) < 1.2020571,
  from the first ten terms and the telescoping tail bounds
      n/(n⁴ + 1/4) = h(n) − h(n+1) ≤ 1/n³ ≤ u(n) − u(n+1),
      h(x) = 1/(2x² − 2x + 1),  u(x) = 1/(2x² − 2x + 0.99)   (x ≥ 11).
  Pure Mathlib statements; no model definitions.
-/
import Mathlib
import Statrs.Lemmas.GammaLogMoments
namespace Statrs.Lemmas.Zeta3Bounds
open Statrs.Lemmas.GammaLogMoments Statrs.Lemmas.Trigamma

/-- lower telescoping function -/
noncomputable def hLo (x : ℝ) : ℝ := 1 / (2 * x ^ 2 - 2 * x + 1)
/-- upper telescoping function -/
noncomputable def hUp (x : ℝ) : ℝ := 1 / (2 * x ^ 2 - 2 * x + 0.99)

theorem hLo_step {x : ℝ} (hx : 1 ≤ x) : hLo x - hLo (x + 1) ≤ 1 / x ^ 3 := by
  unfold hLo
  have h1 : 0 < 2 * x ^ 2 - 2 * x + 1 := by nlinarith
  have h2 : 0 < 2 * (x + 1) ^ 2 - 2 * (x + 1) + 1 := by nlinarith
  have hx0 : 0 < x := by linarith
  rw [div_sub_div _ _ h1.ne' h2.ne', div_le_div_iff₀ (mul_pos h1 h2) (pow_pos hx0 3)]
  nlinarith [pow_pos hx0 3, pow_pos hx0 4, pow_pos hx0 2]

theorem hUp_step {x : ℝ} (hx : 11 ≤ x) : 1 / x ^ 3 ≤ hUp x - hUp (x + 1) := by
  unfold hUp
  have h1 : 0 < 2 * x ^ 2 - 2 * x + 0.99 := by nlinarith
  have h2 : 0 < 2 * (x + 1) ^ 2 - 2 * (x + 1) + 0.99 := by nlinarith
  have hx0 : 0 < x := by linarith
  rw [div_sub_div _ _ h1.ne' h2.ne', div_le_div_iff₀ (pow_pos hx0 3) (mul_pos h1 h2)]
  have : (11:ℝ) ^ 2 ≤ x ^ 2 := pow_le_pow_left₀ (by norm_num) hx 2
  nlinarith [pow_pos hx0 3, pow_pos hx0 4, pow_pos hx0 2]

theorem hLo_pos {x : ℝ} (hx : 1 ≤ x) : 0 < hLo x := by
  unfold hLo; have : 0 < 2 * x ^ 2 - 2 * x + 1 := by nlinarith
  positivity

theorem hUp_pos {x : ℝ} (hx : 1 ≤ x) : 0 < hUp x := by
  unfold hUp; have : 0 < 2 * x ^ 2 - 2 * x + 0.99 := by nlinarith
  positivity

/-- the tail `Σ_{n≥11} 1/n³` -/
noncomputable def tail11 : ℝ := ∑' i : ℕ, 1 / (((i + 10 : ℕ) : ℝ) + 1) ^ 3

theorem zeta3_split :
    zeta3 = (∑ k ∈ Finset.range 10, 1 / ((k : ℝ) + 1) ^ 3) + tail11 := by
  unfold zeta3 tail11
  exact ((summable_one_div_nat_add_cube one_pos).sum_add_tsum_nat_add 10).symm

theorem tail11_le : tail11 ≤ hUp 11 := by
  unfold tail11
  refine Real.tsum_le_of_sum_range_le (fun n => by positivity) (fun m => ?_)
  have hstep : ∀ i ∈ Finset.range m, 1 / (((i + 10 : ℕ) : ℝ) + 1) ^ 3
      ≤ (fun j : ℕ => hUp ((j : ℝ) + 11)) i - (fun j : ℕ => hUp ((j : ℝ) + 11)) (i + 1) := by
    intro i _
    have h := hUp_step (x := (i : ℝ) + 11) (by have : (0:ℝ) ≤ i := Nat.cast_nonneg i; linarith)
    simp only
    push_cast
    rw [show (i : ℝ) + 10 + 1 = (i : ℝ) + 11 by ring, show (i : ℝ) + 1 + 11 = (i : ℝ) + 11 + 1 by ring]
    exact h
  refine (Finset.sum_le_sum hstep).trans ?_
  rw [Finset.sum_range_sub']
  simp only [Nat.cast_zero, zero_add]
  have := hUp_pos (x := (m : ℝ) + 11) (by have : (0:ℝ) ≤ m := Nat.cast_nonneg m; linarith)
  linarith

theorem le_tail11 (m : ℕ) : hLo 11 - hLo ((m : ℝ) + 11) ≤ tail11 := by
  unfold tail11
  have hs : Summable (fun i : ℕ => 1 / (((i + 10 : ℕ) : ℝ) + 1) ^ 3) :=
    (summable_nat_add_iff 10).mpr (summable_one_div_nat_add_cube one_pos)
  have h0 : ∀ i : ℕ, 0 ≤ 1 / (((i + 10 : ℕ) : ℝ) + 1) ^ 3 := fun i => by positivity
  refine le_trans ?_ (hs.sum_le_tsum (Finset.range m) (fun i _ => h0 i))
  have hstep : ∀ i ∈ Finset.range m,
      (fun j : ℕ => hLo ((j : ℝ) + 11)) i - (fun j : ℕ => hLo ((j : ℝ) + 11)) (i + 1)
        ≤ 1 / (((i + 10 : ℕ) : ℝ) + 1) ^ 3 := by
    intro i _
    have h := hLo_step (x := (i : ℝ) + 11) (by have : (0:ℝ) ≤ i := Nat.cast_nonneg i; linarith)
    simp only
    push_cast
    rw [show (i : ℝ) + 10 + 1 = (i : ℝ) + 11 by ring, show (i : ℝ) + 1 + 11 = (i : ℝ) + 11 + 1 by ring]
    exact h
  refine le_trans (le_of_eq ?_) (Finset.sum_le_sum hstep)
  rw [Finset.sum_range_sub']
  simp

/-- `ζ(3) < 1.2020571` -/
theorem zeta3_lt : zeta3 < 1.2020571 := by
  rw [zeta3_split]
  have h := tail11_le
  have e : hUp 11 = 100 / 22099 := by unfold hUp; norm_num
  rw [e] at h
  have s : (∑ k ∈ Finset.range 10, 1 / ((k : ℝ) + 1) ^ 3) < 1.2020571 - 100 / 22099 := by
    simp only [Finset.sum_range_succ, Finset.sum_range_zero]
    norm_num
  linarith

/-- `1.2020563 < ζ(3)` -/
theorem lt_zeta3 : 1.2020563 < zeta3 := by
  rw [zeta3_split]
  have h := le_tail11 989
  have e : hLo 11 - hLo (((989 : ℕ) : ℝ) + 11) = 1 / 221 - 1 / 1998001 := by unfold hLo; norm_num
  rw [e] at h
  have s : 1.2020563 - (1 / 221 - 1 / 1998001) < (∑ k ∈ Finset.range 10, 1 / ((k : ℝ) + 1) ^ 3) := by
    simp only [Finset.sum_range_succ, Finset.sum_range_zero]
    norm_num
  linarith

end Statrs.Lemmas.Zeta3Bounds
