/-
  Driver entries for `Categorical` (carrier `Float`): the hand model of the constructor
  (`Statrs.Model.Categorical.new`, Model/CategoricalModel.lean) followed by the GENERATED methods of
  Gen/D_categorical.lean.  Same ids as harness/src/hand.rs (`cat::…`).  This is what pins the hand
  transcription of `Categorical::new` to the code: every method reads the three tables it builds.
-/
import Statrs.Driver.Proto
import Statrs.Gen.SFFloat
import Statrs.Gen.D_categorical
import Statrs.Model.CategoricalModel
namespace Statrs.Model.CatDispatch
open Statrs Statrs.Driver Statrs.Gen

def withCat (p : List Float) (k : Categorical Float → String) : String :=
  match Statrs.Model.Categorical.new (α := Float) p with
  | .error e => ctorErr (variantStr e)
  | .ok d => k d

def intM (f : Categorical Float → Int → String) : List Arg → String
  | [Arg.fl p, Arg.i k] => withCat p (fun d => f d k)
  | _ => "bad-args"
def fltM (f : Categorical Float → Float → String) : List Arg → String
  | [Arg.fl p, Arg.f x] => withCat p (fun d => f d x)
  | _ => "bad-args"
def nulM (f : Categorical Float → String) : List Arg → String
  | [Arg.fl p] => withCat p f
  | _ => "bad-args"

def catTable : List (String × (List Arg → String)) := [
  ("cat::new", nulM (fun _ => "ok")),
  ("cat::pmf", intM (fun d k => reply (Categorical.pmf (α := Float) d k))),
  ("cat::ln_pmf", intM (fun d k => reply (Categorical.ln_pmf (α := Float) d k))),
  ("cat::cdf", intM (fun d k => reply (Categorical.cdf (α := Float) d k))),
  ("cat::sf", intM (fun d k => reply (Categorical.sf (α := Float) d k))),
  ("cat::inverse_cdf", fltM (fun d x => reply (Categorical.inverse_cdf (α := Float) d x))),
  ("cat::min", nulM (fun d => reply (Categorical.min (α := Float) d))),
  ("cat::max", nulM (fun d => reply (Categorical.max (α := Float) d))),
  ("cat::mean", nulM (fun d => reply (Categorical.mean (α := Float) d))),
  ("cat::variance", nulM (fun d => reply (Categorical.variance (α := Float) d))),
  ("cat::std_dev", nulM (fun d => reply (Categorical.std_dev (α := Float) d))),
  ("cat::entropy", nulM (fun d => reply (Categorical.entropy (α := Float) d))),
  ("cat::skewness", nulM (fun d => reply (Categorical.skewness (α := Float) d))),
  ("cat::median", nulM (fun d => reply (Categorical.median (α := Float) d)))]

end Statrs.Model.CatDispatch
