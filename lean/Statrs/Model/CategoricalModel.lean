/-
  Statrs.Model.CategoricalModel (to live in Statrs/Model/) — HAND MODEL of `Categorical::new`
  (src/distribution/categorical.rs:84).

  The translator leaves `Categorical::new` untranslated (manifest: "list/iterator method
  .iter_mut"), and no hand model existed.  The body below is written statement-for-statement with
  the Rust, generic over the same carrier classes as the generated code, from pieces that ARE
  pinned:
    * the validation loop `for &p in prob_mass { if p.is_nan() || p < 0.0 { return Err }; prob_sum += p }`
      is token-for-token the loop of `Multinomial::new_from_nalgebra`, so `Multinomial.newLoop` is
      reused;
    * `prob_mass_to_cdf` is `Statrs.Model.prob_mass_to_cdf` (Model/Samplers.lean);
    * `cdf_to_sf` is the generated `D.categorical.cdf_to_sf`.
  PINNED by the `categorical` correspondence suite (Model/CatDispatch.lean, harness/src/hand.rs `cat::…`):
  every generated method of `Categorical` is evaluated on the tables this constructor builds, for the
  full special-value lattice of probability vectors (lengths 0–3/4) and seeded vectors, and compared bit
  for bit with the implementation.  Import-free apart from model files (no Mathlib).
-/
import Statrs.Basic
import Statrs.Gen.Types
import Statrs.Gen.D_categorical
import Statrs.Model.Multivariate
import Statrs.Model.Samplers
namespace Statrs.Model
open Statrs Statrs.Gen

section
variable {α : Type} [Add α] [Sub α] [Mul α] [Div α] [Neg α] [LT α] [LE α] [BEq α]
  [DecidableLT α] [DecidableLE α] [OfScientific α] [Inhabited α] [RFun α]

/-- categorical.rs:84 `Categorical::new(prob_mass: &[f64])` -/
def Categorical.new (prob_mass : List α) : Except CategoricalError (Categorical α) :=
  if prob_mass.isEmpty then .error CategoricalError.ProbMassEmpty
  else
    -- let mut prob_sum = 0.0; for &p in prob_mass { … }
    match Multinomial.newLoop prob_mass (0.0 : α) with
    | none => .error CategoricalError.ProbMassHasInvalidElements
    | some prob_sum =>
      if (prob_sum == (0.0 : α)) = true then .error CategoricalError.ProbMassSumZero
      else
        let cdf := prob_mass_to_cdf (α := α) prob_mass
        let sf := D.categorical.cdf_to_sf (α := α) cdf
        -- let sum = cdf[cdf.len() - 1];
        let sum : α := unwrapO (listGet? cdf (usub (listLen cdf) (1 : Int)))
        -- norm_pmf.iter_mut().zip(prob_mass.iter()).for_each(|(np, pm)| *np = *pm / sum)
        let norm_pmf := prob_mass.map (fun pm => pm / sum)
        .ok ({ f_norm_pmf := norm_pmf, f_cdf := cdf, f_sf := sf } : Categorical α)

end
end Statrs.Model
