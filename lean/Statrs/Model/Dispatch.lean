/-
  Hand-written driver entries (hand models, stateful objects). Same ids as harness/src/hand.rs.
-/
import Statrs.Driver.Proto
import Statrs.Gen.SFFloat
import Statrs.Gen.All
namespace Statrs.Model.Dispatch
open Statrs Statrs.Driver

def table : List (String × (List Arg → String)) := []

end Statrs.Model.Dispatch
