/-
  Hand-written driver entries (hand models, stateful objects, generic entry points).
  Same ids as harness/src/hand.rs.
-/
import Statrs.Driver.Proto
import Statrs.Gen.SFFloat
import Statrs.Gen.All
import Statrs.Model.FHand
import Statrs.Model.Empirical
import Statrs.Model.SamplerDispatch
import Statrs.Model.VecDispatch
import Statrs.Model.MVDispatch
import Statrs.Model.RankDispatch
import Statrs.Model.CatDispatch
namespace Statrs.Model.Dispatch
open Statrs Statrs.Driver Statrs.Gen

def stat1 (f : List Float → Float) : List Arg → String
  | [Arg.fl l] => reply (f l)
  | _ => "bad-args"
def stat2 (f : List Float → List Float → Float) : List Arg → String
  | [Arg.fl a, Arg.fl b] => reply (f a b)
  | _ => "bad-args"

/-- the same model function serves the slice, Vec, by-value-iterator and `Data` entry points -/
def statEntries (name : String) (f : List Float → Float) : List (String × (List Arg → String)) :=
  [("IterStatistics::" ++ name, stat1 f), ("IterStatistics::" ++ name ++ "@vec", stat1 f),
   ("IterStatistics::" ++ name ++ "@iter", stat1 f)]

/-- first `n` outputs of a generator (stateful `next` threaded through) -/
def iterN {σ : Type} (next : σ → Option Float × σ) : σ → Nat → List Float
  | _, 0 => []
  | s, n + 1 =>
    match next s with
    | (some x, s') => x :: iterN next s' n
    | (none, _) => []

def genTable : List (String × (List Arg → String)) := [
  ("gen::periodic", fun a => match a with
    | [Arg.f sr, Arg.f fr, Arg.f amp, Arg.f ph, Arg.i d, Arg.i n] =>
      reply (iterN (InfinitePeriodic.next (α := Float)) (InfinitePeriodic.new (α := Float) sr fr amp ph d) n.toNat)
    | _ => "bad-args"),
  ("gen::sinusoidal", fun a => match a with
    | [Arg.f sr, Arg.f fr, Arg.f amp, Arg.f mean, Arg.f ph, Arg.i d, Arg.i n] =>
      reply (iterN (InfiniteSinusoidal.next (α := Float)) (InfiniteSinusoidal.new (α := Float) sr fr amp mean ph d) n.toNat)
    | _ => "bad-args"),
  ("gen::square", fun a => match a with
    | [Arg.i hd, Arg.i ld, Arg.f hv, Arg.f lv, Arg.i d, Arg.i n] =>
      reply (iterN (InfiniteSquare.next (α := Float)) (InfiniteSquare.new (α := Float) hd ld hv lv d) n.toNat)
    | _ => "bad-args"),
  ("gen::triangle", fun a => match a with
    | [Arg.i rd, Arg.i fd, Arg.f hv, Arg.f lv, Arg.i d, Arg.i n] =>
      reply (iterN (InfiniteTriangle.next (α := Float)) (InfiniteTriangle.new (α := Float) rd fd hv lv d) n.toNat)
    | _ => "bad-args"),
  ("gen::sawtooth", fun a => match a with
    | [Arg.i per, Arg.f hv, Arg.f lv, Arg.i d, Arg.i n] =>
      reply (iterN (InfiniteSawtooth.next (α := Float)) (InfiniteSawtooth.new (α := Float) per hv lv d) n.toNat)
    | _ => "bad-args")]

instance : ToReply (Data Float) := ⟨fun d => reply d.f_0⟩

def orderTable : List (String × (List Arg → String)) := [
  ("Data::order_statistic", fun a => match a with
    | [Arg.fl l, Arg.i k] => reply (Data.order_statistic (α := Float) ⟨l⟩ k)
    | _ => "bad-args"),
  ("Data::median_os", fun a => match a with
    | [Arg.fl l] => reply (Data.median (α := Float) ⟨l⟩)
    | _ => "bad-args"),
  ("Data::quantile", fun a => match a with
    | [Arg.fl l, Arg.f t] => reply (Data.quantile (α := Float) ⟨l⟩ t)
    | _ => "bad-args"),
  ("Data::percentile", fun a => match a with
    | [Arg.fl l, Arg.i p] => reply (Data.percentile (α := Float) ⟨l⟩ p)
    | _ => "bad-args"),
  ("Data::lower_quartile", fun a => match a with
    | [Arg.fl l] => reply (Data.lower_quartile (α := Float) ⟨l⟩)
    | _ => "bad-args"),
  ("Data::upper_quartile", fun a => match a with
    | [Arg.fl l] => reply (Data.upper_quartile (α := Float) ⟨l⟩)
    | _ => "bad-args"),
  ("Data::interquartile_range", fun a => match a with
    | [Arg.fl l] => reply (Data.interquartile_range (α := Float) ⟨l⟩)
    | _ => "bad-args")]

/-- observation of an Empirical state at the points `obs` -/
def empObs (e : Statrs.Model.Empirical Float) (obs : List Float) : List Float × (Option Float × Option Float) :=
  let mm := if Statrs.Model.Empirical.min_panics e then [fNaN, fNaN]
            else [Statrs.Model.Empirical.min e, Statrs.Model.Empirical.max e]
  (obs.map (Statrs.Model.Empirical.cdf e) ++ obs.map (Statrs.Model.Empirical.sf e) ++ mm,
   (Statrs.Model.Empirical.mean e, Statrs.Model.Empirical.variance e))

def empRun (vals : List Float) (ops : List Int) (obs : List Float) :
    List (List Float × (Option Float × Option Float)) :=
  let e0 : Statrs.Model.Empirical Float := unwrapE (Statrs.Model.Empirical.new (α := Float))
  let step := fun (acc : Statrs.Model.Empirical Float × List (List Float × (Option Float × Option Float))) (vo : Float × Int) =>
    let e := if vo.2 == 0 then Statrs.Model.Empirical.add acc.1 vo.1 else Statrs.Model.Empirical.remove acc.1 vo.1
    (e, acc.2 ++ [empObs e obs])
  ((vals.zip ops).foldl step (e0, [])).2

def empTable : List (String × (List Arg → String)) := [
  ("Empirical::history", fun a => match a with
    | [Arg.fl vals, Arg.il ops, Arg.fl obs] => reply (empRun vals ops obs)
    | _ => "bad-args"),
  ("Empirical::from_iter", fun a => match a with
    | [Arg.fl vals, Arg.fl obs] => reply (empObs (Statrs.Model.Empirical.from_iter (α := Float) vals) obs)
    | _ => "bad-args")]

def table : List (String × (List Arg → String)) :=
  Statrs.Model.MVDispatch.mvTable ++ Statrs.Model.VecDispatch.vecTable ++ Statrs.Model.SamplerDispatch.sampleTable ++ Statrs.Model.RankDispatch.rankTable ++ Statrs.Model.CatDispatch.catTable ++ empTable ++ orderTable ++ genTable ++
  statEntries "min" (IterStatistics.min (α := Float)) ++
  statEntries "max" (IterStatistics.max (α := Float)) ++
  statEntries "abs_min" (IterStatistics.abs_min (α := Float)) ++
  statEntries "abs_max" (IterStatistics.abs_max (α := Float)) ++
  statEntries "mean" (IterStatistics.mean (α := Float)) ++
  statEntries "geometric_mean" (IterStatistics.geometric_mean (α := Float)) ++
  statEntries "harmonic_mean" (IterStatistics.harmonic_mean (α := Float)) ++
  statEntries "variance" (IterStatistics.variance (α := Float)) ++
  statEntries "std_dev" (IterStatistics.std_dev (α := Float)) ++
  statEntries "population_variance" (IterStatistics.population_variance (α := Float)) ++
  statEntries "population_std_dev" (IterStatistics.population_std_dev (α := Float)) ++
  statEntries "quadratic_mean" (IterStatistics.quadratic_mean (α := Float)) ++
  [("IterStatistics::covariance", stat2 (IterStatistics.covariance (α := Float))),
   ("IterStatistics::population_covariance", stat2 (IterStatistics.population_covariance (α := Float))),
   ("Data::min", stat1 (IterStatistics.min (α := Float))),
   ("Data::max", stat1 (IterStatistics.max (α := Float))),
   ("Data::mean", fun a => match a with
      | [Arg.fl l] => reply (some (IterStatistics.mean (α := Float) l))
      | _ => "bad-args"),
   ("Data::variance", fun a => match a with
      | [Arg.fl l] => reply (some (IterStatistics.variance (α := Float) l))
      | _ => "bad-args"),
   ("crate::function::beta::inv_beta_reg", fun a => match a with
      | [Arg.f x, Arg.f y, Arg.f z] => reply (FHand.F.beta.inv_beta_reg x y z)
      | _ => "bad-args")]

end Statrs.Model.Dispatch
