/-
  Hand-written driver entries (hand models, stateful objects, generic entry points).
  Same ids as harness/src/hand.rs.
-/
import Statrs.Driver.Proto
import Statrs.Gen.SFFloat
import Statrs.Gen.All
import Statrs.Model.FHand
namespace Statrs.Model.Dispatch
open Statrs Statrs.Driver Statrs.Gen

def stat1 (f : List Float → Float) : List Arg → String
  | [Arg.fl l] => reply (f l)
  | _ => "bad-args"
def stat2 (f : List Float → List Float → Float) : List Arg → String
  | [Arg.fl a, Arg.fl b] => reply (f a b)
  | _ => "bad-args"

/-- the same model function serves the slice, Vec, by-value-iterator and `Data` entry points -/
def statEntries (name : String) (f : List Float → Float) : List (String × (List Arg → String)) :=
  [("IterStatistics::" ++ name, stat1 f), ("IterStatistics::" ++ name ++ "@vec", stat1 f),
   ("IterStatistics::" ++ name ++ "@iter", stat1 f)]

def table : List (String × (List Arg → String)) :=
  statEntries "min" (IterStatistics.min (α := Float)) ++
  statEntries "max" (IterStatistics.max (α := Float)) ++
  statEntries "abs_min" (IterStatistics.abs_min (α := Float)) ++
  statEntries "abs_max" (IterStatistics.abs_max (α := Float)) ++
  statEntries "mean" (IterStatistics.mean (α := Float)) ++
  statEntries "geometric_mean" (IterStatistics.geometric_mean (α := Float)) ++
  statEntries "harmonic_mean" (IterStatistics.harmonic_mean (α := Float)) ++
  statEntries "variance" (IterStatistics.variance (α := Float)) ++
  statEntries "std_dev" (IterStatistics.std_dev (α := Float)) ++
  statEntries "population_variance" (IterStatistics.population_variance (α := Float)) ++
  statEntries "population_std_dev" (IterStatistics.population_std_dev (α := Float)) ++
  statEntries "quadratic_mean" (IterStatistics.quadratic_mean (α := Float)) ++
  [("IterStatistics::covariance", stat2 (IterStatistics.covariance (α := Float))),
   ("IterStatistics::population_covariance", stat2 (IterStatistics.population_covariance (α := Float))),
   ("Data::min", stat1 (IterStatistics.min (α := Float))),
   ("Data::max", stat1 (IterStatistics.max (α := Float))),
   ("Data::mean", fun a => match a with
      | [Arg.fl l] => reply (some (IterStatistics.mean (α := Float) l))
      | _ => "bad-args"),
   ("Data::variance", fun a => match a with
      | [Arg.fl l] => reply (some (IterStatistics.variance (α := Float) l))
      | _ => "bad-args"),
   ("crate::function::beta::inv_beta_reg", fun a => match a with
      | [Arg.f x, Arg.f y, Arg.f z] => reply (FHand.F.beta.inv_beta_reg x y z)
      | _ => "bad-args")]

end Statrs.Model.Dispatch
