/-
  Hand-written model of `src/distribution/empirical.rs` (the translator does not cover
  `BTreeMap`).  Import-free apart from `Statrs.Basic`; generic over the same carrier classes
  as the generated code, statement-for-statement with the Rust source (same arithmetic
  expressions, same association, same order of the field updates).

  Representation.  `BTreeMap<NonNan<f64>, u64>` is a `List (α × Int)` kept strictly increasing in
  the key (w.r.t. `NonNan`'s `Ord`, see `keyCmp`).  All map operations below walk the list with
  `keyCmp search_key node_key` — the same call (`key.cmp(k)`, search key on the left) the B-tree
  search performs — so they agree with the `BTreeMap` on every strictly increasing list, including
  the `-0.0`/`+0.0` case (they compare `Equal`, hence are ONE key; `entry().and_modify()` keeps the
  key that was stored first, and so does `mapIncr`).

  Rust items modelled: `NonNan::cmp` (`keyCmp`), `Empirical::{new, add, remove}`,
  `Min::min`, `Max::max`, `Distribution::{mean, variance}`, `ContinuousCDF::{cdf, sf}`,
  `FromIterator::from_iter`.  Not modelled: `__inverse_cdf`/`inverse_cdf` (loops; not part of
  C15), `Display`, `rand::Distribution::sample`.

  Panics: `cdf`/`sf` on a NaN argument (`expect("x must not be NaN")`) and `min`/`max` on an empty
  distribution (`unwrap`) are `panicV`/`unwrapO` (default value); companions `cdf_panics`,
  `min_panics` tell the driver when Rust panics.  `u64` overflow of `sum += 1` (2^64 inserts) is
  not modelled.
-/
import Statrs.Basic
namespace Statrs.Model
open Statrs

/-- `std::convert::Infallible` -/
inductive Infallible : Type

/-- src/distribution/empirical.rs:61 — field for field (`f_` prefix as in the generated structs):
    `data: BTreeMap<NonNan<f64>, u64>`, `sum: u64`, `mean: f64`, `var: f64`
    (`var` holds the running sum of squared deviations, not the variance). -/
structure Empirical (α : Type) where
  f_data : List (α × Int)
  f_sum : Int
  f_mean : α
  f_var : α

section
variable {α : Type} [Add α] [Sub α] [Mul α] [Div α] [Neg α] [LT α] [LE α] [BEq α]
  [DecidableLT α] [DecidableLE α] [OfScientific α] [Inhabited α] [RFun α]

instance : Inhabited (Empirical α) :=
  ⟨{ f_data := [], f_sum := (0 : Int), f_mean := (0.0 : α), f_var := (0.0 : α) }⟩

/-- `<NonNan<f64> as Ord>::cmp(a, b) = a.0.partial_cmp(&b.0).unwrap()` with core's
    `partial_cmp` for `f64`: `match (a <= b, a >= b) { (false,false) => None, (false,true) =>
    Greater, (true,false) => Less, (true,true) => Equal }`.  The `None.unwrap()` panic is
    unreachable for non-NaN operands (`NonNan::new` rejects NaN). -/
def keyCmp (a b : α) : Ordering :=
  if a ≤ b then (if b ≤ a then Ordering.eq else Ordering.lt)
  else (if b ≤ a then Ordering.gt else panicV)

/-- `self.data.entry(key).and_modify(|c| *c += 1).or_insert(1)` -/
def mapIncr : List (α × Int) → α → List (α × Int)
  | [], v => [(v, (1 : Int))]
  | (k, c) :: t, v =>
    match keyCmp v k with
    | Ordering.lt => (v, (1 : Int)) :: (k, c) :: t
    | Ordering.eq => (k, c + (1 : Int)) :: t
    | Ordering.gt => (k, c) :: mapIncr t v

/-- `match self.data.entry(key) { Occupied(e) => Some(*e.get()), Vacant(_) => None }` -/
def mapGet : List (α × Int) → α → Option Int
  | [], _ => none
  | (k, c) :: t, v =>
    match keyCmp v k with
    | Ordering.lt => none
    | Ordering.eq => some c
    | Ordering.gt => mapGet t v

/-- `OccupiedEntry::remove` -/
def mapRemove : List (α × Int) → α → List (α × Int)
  | [], _ => []
  | (k, c) :: t, v =>
    match keyCmp v k with
    | Ordering.lt => (k, c) :: t
    | Ordering.eq => t
    | Ordering.gt => (k, c) :: mapRemove t v

/-- `*entry.get_mut() -= 1` -/
def mapDecr : List (α × Int) → α → List (α × Int)
  | [], _ => []
  | (k, c) :: t, v =>
    match keyCmp v k with
    | Ordering.lt => (k, c) :: t
    | Ordering.eq => (k, usub c (1 : Int)) :: t
    | Ordering.gt => (k, c) :: mapDecr t v

/-- `self.data.range((Unbounded, Included(x))).map(|(_, v)| v).sum::<u64>()`:
    the entries whose key `k` satisfies `x.cmp(k) != Less` -/
def mapSumTo (data : List (α × Int)) (x : α) : Int :=
  ((data.filter (fun p => match keyCmp x p.1 with
      | Ordering.lt => false
      | _ => true)).map Prod.snd).foldl (· + ·) (0 : Int)

/-- `self.data.range((Excluded(x), Unbounded)).map(|(_, v)| v).sum::<u64>()`:
    the entries whose key `k` satisfies `x.cmp(k) == Less` -/
def mapSumFrom (data : List (α × Int)) (x : α) : Int :=
  ((data.filter (fun p => match keyCmp x p.1 with
      | Ordering.lt => true
      | _ => false)).map Prod.snd).foldl (· + ·) (0 : Int)

/-- src/distribution/empirical.rs:87 -/
def Empirical.new : Except Infallible (Empirical α) :=
  .ok ({ f_data := [], f_sum := (0 : Int), f_mean := (0.0 : α), f_var := (0.0 : α) } : Empirical α)

/-- src/distribution/empirical.rs:96 (`&mut self` ↦ returns the new state) -/
def Empirical.add (self : Empirical α) (data_point : α) : Empirical α :=
  -- let map_key = match NonNan::new(data_point) { Some(valid) => valid, None => return };
  if (RFun.isNaN data_point) = true then self
  else
    -- self.sum += 1;
    let self_sum := self.f_sum + (1 : Int)
    -- let sum = self.sum as f64;
    let sum := (RFun.ofInt self_sum : α)
    -- self.var += (sum - 1.) * (data_point - self.mean) * (data_point - self.mean) / sum;
    let self_var := self.f_var +
      ((((sum - (1.0 : α)) * (data_point - self.f_mean)) * (data_point - self.f_mean)) / sum)
    -- self.mean += (data_point - self.mean) / sum;
    let self_mean := self.f_mean + ((data_point - self.f_mean) / sum)
    -- self.data.entry(map_key).and_modify(|c| *c += 1).or_insert(1);
    let self_data := mapIncr self.f_data data_point
    { f_data := self_data, f_sum := self_sum, f_mean := self_mean, f_var := self_var }

/-- src/distribution/empirical.rs:113 (`&mut self` ↦ returns the new state) -/
def Empirical.remove (self : Empirical α) (data_point : α) : Empirical α :=
  -- let map_key = match NonNan::new(data_point) { Some(valid) => valid, None => return };
  if (RFun.isNaN data_point) = true then self
  else
    -- let mut entry = match self.data.entry(map_key) { Occupied(e) => e, Vacant(_) => return };
    match mapGet self.f_data data_point with
    | none => self
    | some count =>
      -- if *entry.get() == 1 { entry.remove(); … } else { *entry.get_mut() -= 1; }
      let self_data :=
        if count = (1 : Int) then mapRemove self.f_data data_point
        else mapDecr self.f_data data_point
      -- if self.data.is_empty() { self.sum = 0; self.mean = 0.0; self.var = 0.0; return; }
      if count = (1 : Int) ∧ self_data.isEmpty = true then
        { f_data := self_data, f_sum := (0 : Int), f_mean := (0.0 : α), f_var := (0.0 : α) }
      else
        -- let sum = self.sum as f64;
        let sum := (RFun.ofInt self.f_sum : α)
        -- self.mean = (sum * self.mean - data_point) / (sum - 1.);
        let self_mean := ((sum * self.f_mean) - data_point) / (sum - (1.0 : α))
        -- self.var -= (sum - 1.) * (data_point - self.mean) * (data_point - self.mean) / sum;
        let self_var := self.f_var -
          ((((sum - (1.0 : α)) * (data_point - self_mean)) * (data_point - self_mean)) / sum)
        -- self.sum -= 1;
        let self_sum := usub self.f_sum (1 : Int)
        { f_data := self_data, f_sum := self_sum, f_mean := self_mean, f_var := self_var }

/-- src/distribution/empirical.rs:228 — `self.data.keys().rev().map(|key| key.get()).next().unwrap()` -/
def Empirical.max (self : Empirical α) : α :=
  unwrapO ((self.f_data.map Prod.fst).reverse.head?)

/-- src/distribution/empirical.rs:235 — `self.data.keys().map(|key| key.get()).next().unwrap()` -/
def Empirical.min (self : Empirical α) : α :=
  unwrapO ((self.f_data.map Prod.fst).head?)

/-- `min`/`max` panic (`None.unwrap()`) exactly on the empty distribution -/
def Empirical.min_panics (self : Empirical α) : Bool := self.f_data.isEmpty

/-- src/distribution/empirical.rs:241 -/
def Empirical.mean (self : Empirical α) : Option α :=
  if self.f_data.isEmpty = true then none else some self.f_mean

/-- src/distribution/empirical.rs:249 -/
def Empirical.variance (self : Empirical α) : Option α :=
  if self.f_data.isEmpty = true then none
  else some (self.f_var / ((RFun.ofInt self.f_sum : α) - (1.0 : α)))

/-- src/distribution/empirical.rs:259 -/
def Empirical.cdf (self : Empirical α) (x : α) : α :=
  -- let end = Bound::Included(NonNan::new(x).expect("x must not be NaN"));
  if (RFun.isNaN x) = true then panicV
  else
    -- let sum: u64 = self.data.range((start, end)).map(|(_, v)| v).sum();
    let sum : Int := mapSumTo self.f_data x
    -- sum as f64 / self.sum as f64
    (RFun.ofInt sum : α) / (RFun.ofInt self.f_sum : α)

/-- src/distribution/empirical.rs:267 -/
def Empirical.sf (self : Empirical α) (x : α) : α :=
  -- let start = Bound::Excluded(NonNan::new(x).expect("x must not be NaN"));
  if (RFun.isNaN x) = true then panicV
  else
    let sum : Int := mapSumFrom self.f_data x
    (RFun.ofInt sum : α) / (RFun.ofInt self.f_sum : α)

/-- `cdf`/`sf` panic exactly on a NaN argument -/
def Empirical.cdf_panics (_self : Empirical α) (x : α) : Bool := RFun.isNaN x

/-- src/distribution/empirical.rs:206 — `let mut e = Self::new().unwrap(); for elt in iter { e.add(elt) }; e` -/
def Empirical.from_iter (iter : List α) : Empirical α :=
  let empirical : Empirical α := unwrapE Empirical.new
  iter.foldl (fun empirical elt => empirical.add elt) empirical

end

end Statrs.Model
