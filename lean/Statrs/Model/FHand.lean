/-
  Hand-written models of `statrs::function` items the translator does not cover.
  (Names mirror the generated ones under `FHand.`; referenced by Gen/SFFloat.lean.)
-/
import Statrs.Inst.Float
import Statrs.Gen.Types
namespace Statrs.Gen.FHand
open Statrs

end Statrs.Gen.FHand
