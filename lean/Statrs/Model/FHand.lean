/-
  Hand-written models of `statrs::function` items the translator does not cover
  (labelled breaks, uninitialised `let`).  Names mirror the generated ones under
  `FHand.`; referenced by Gen/SFFloat.lean.  Pinned to the code bit-for-bit by the
  correspondence check (fn-id `crate::function::beta::inv_beta_reg`).
-/
import Statrs.Inst.Float
import Statrs.Gen.F_beta
namespace Statrs.Gen.FHand
open Statrs Statrs.Gen

namespace F.beta

/-- innermost `loop` of `inv_beta_reg`: shrink `g` until the step is acceptable.
    returns (g, sq, pnext); `none` = fuel exhausted (the real loop would not terminate) -/
def invInner (p q prev : Float) (g : Float) : Nat → Option (Float × Float × Float)
  | 0 => none
  | fuel + 1 =>
    let adj := g * q
    let sq := adj * adj
    let pnext := p - adj
    if sq < prev && (0.0 ≤ pnext && pnext ≤ 1.0) then some (g, sq, pnext)
    else invInner p q prev (g / 3.0) fuel

/-- middle `loop`: returns (sq, pnext, brokeOuter) -/
def invMiddle (p q prev acu : Float) (g : Float) : Nat → Option (Float × Float × Bool)
  | 0 => none
  | fuel + 1 =>
    match invInner p q prev g 5000 with
    | none => none
    | some (g, sq, pnext) =>
      if prev ≤ acu || q * q ≤ acu then some (sq, pnext, true)
      else if pnext != 0.0 && pnext != 1.0 then some (sq, pnext, false)
      else invMiddle p q prev acu (g / 3.0) fuel

def invOuter (a b x lnBeta acu fpu : Float) (p qprev sq prev : Float) : Nat → Float
  | 0 => panicNaN
  | fuel + 1 =>
    let q := F.beta.beta_reg (α := Float) a b p
    let q := (q - x) * Float.exp (lnBeta + (1.0 - a) * Float.log p + (1.0 - b) * Float.log (1.0 - p))
    let prev := if q * qprev ≤ 0.0 then (if sq > fpu then sq else fpu) else prev
    match invMiddle p q prev acu 1.0 5000 with
    | none => panicNaN
    | some (sq, pnext, brk) =>
      if brk then pnext
      else if pnext == p then p
      else invOuter a b x lnBeta acu fpu pnext q sq prev fuel

def inv_beta_reg (a b x : Float) : Float :=
  let lnBeta := F.beta.ln_beta (α := Float) a b
  let fpu : Float := 1e-30   -- FPU = 10^SAE
  if x == 0.0 then 0.0
  else if x == 1.0 then 1.0
  else
    let flip := 0.5 < x
    let (a, b, x) := if flip then (b, a, 1.0 - x) else (a, b, x)
    let p := Float.sqrt (-(Float.log (x * x)))
    let q := p - (2.30753 + 0.27061 * p) / (1.0 + (0.99229 + 0.04481 * p) * p)
    let p :=
      if 1.0 < a && 1.0 < b then
        let r := (q * q - 3.0) / 6.0
        let s := 1.0 / (2.0 * a - 1.0)
        let t := 1.0 / (2.0 * b - 1.0)
        let h := 2.0 / (s + t)
        let w := q * Float.sqrt (h + r) / h - (t - s) * (r + 5.0 / 6.0 - 2.0 / (3.0 * h))
        a / (a + b * Float.exp (2.0 * w))
      else
        let t := 1.0 / (9.0 * b)
        let t := 2.0 * b * Float.pow (1.0 - t + q * Float.sqrt t) 3.0
        if t ≤ 0.0 then 1.0 - Float.exp ((Float.log ((1.0 - x) * b) + lnBeta) / b)
        else
          let t := 2.0 * (2.0 * a + b - 1.0) / t
          if t ≤ 1.0 then Float.exp ((Float.log (x * a) + lnBeta) / a)
          else 1.0 - 2.0 / (t + 1.0)
    let p := fclamp p 0.0001 0.9999
    let e : Int := (RFun.toI32 (-5.0 / a / a - 1.0 / Float.pow x 0.2 - 13.0 : Float))
    let acu := if e > -30 then Float.powi 10.0 e else fpu
    let p := invOuter a b x lnBeta acu fpu p 0.0 1.0 1.0 5000
    if flip then 1.0 - p else p

end F.beta
end Statrs.Gen.FHand
