/-
  Driver entries for the hand-written multivariate models (ids match harness/src/hand_mv.rs).
-/
import Statrs.Driver.Proto
import Statrs.Gen.SFFloat
import Statrs.Model.Multivariate
namespace Statrs.Model.MVDispatch
open Statrs Statrs.Driver Statrs.Gen

/-- `none` = the Rust call panics -/
def optReply {β : Type} [ToReply β] : Option β → String
  | some v => reply v
  | none => "panic"

def withMVN (mean cov : List Float) (k : Statrs.Model.MultivariateNormal Float → String) : String :=
  match Statrs.Model.MultivariateNormal.new? (α := Float) mean cov with
  | none => "panic"
  | some (.error e) => ctorErr (variantStr e)
  | some (.ok d) => k d

def withMVT (loc scale : List Float) (nu : Float) (k : Statrs.Model.MultivariateStudent Float → String) : String :=
  match Statrs.Model.MultivariateStudent.new? (α := Float) loc scale nu with
  | none => "panic"
  | some (.error e) => ctorErr (variantStr e)
  | some (.ok d) => k d

def withDir (alpha : List Float) (k : Statrs.Model.Dirichlet Float → String) : String :=
  match Statrs.Model.Dirichlet.new (α := Float) alpha with
  | .error e => ctorErr (variantStr e)
  | .ok d => k d

def withMul (p : List Float) (n : Int) (k : Statrs.Model.Multinomial Float → String) : String :=
  match Statrs.Model.Multinomial.new (α := Float) p n with
  | .error e => ctorErr (variantStr e)
  | .ok d => k d

def mvTable : List (String × (List Arg → String)) := [
  ("mv::mvn::pdf", fun (a : List Arg) => match a with
    | [Arg.fl m, Arg.fl c, Arg.fl x] => withMVN m c (fun d => optReply (Statrs.Model.MultivariateNormal.pdf? d x))
    | _ => "bad-args"),
  ("mv::mvn::ln_pdf", fun (a : List Arg) => match a with
    | [Arg.fl m, Arg.fl c, Arg.fl x] => withMVN m c (fun d => optReply (Statrs.Model.MultivariateNormal.ln_pdf? d x))
    | _ => "bad-args"),
  ("mv::mvn::entropy", fun (a : List Arg) => match a with
    | [Arg.fl m, Arg.fl c] => withMVN m c (fun d => reply (Statrs.Model.MultivariateNormal.entropy d))
    | _ => "bad-args"),
  ("mv::mvt::pdf", fun (a : List Arg) => match a with
    | [Arg.fl m, Arg.fl c, Arg.f nu, Arg.fl x] => withMVT m c nu (fun d => optReply (Statrs.Model.MultivariateStudent.pdf? d x))
    | _ => "bad-args"),
  ("mv::mvt::ln_pdf", fun (a : List Arg) => match a with
    | [Arg.fl m, Arg.fl c, Arg.f nu, Arg.fl x] => withMVT m c nu (fun d => optReply (Statrs.Model.MultivariateStudent.ln_pdf? d x))
    | _ => "bad-args"),
  ("mv::mvt::mean", fun (a : List Arg) => match a with
    | [Arg.fl m, Arg.fl c, Arg.f nu] => withMVT m c nu (fun d => reply (Statrs.Model.MultivariateStudent.mean d))
    | _ => "bad-args"),
  ("mv::mvt::variance", fun (a : List Arg) => match a with
    | [Arg.fl m, Arg.fl c, Arg.f nu] => withMVT m c nu (fun d => reply (Statrs.Model.MultivariateStudent.variance d))
    | _ => "bad-args"),
  ("mv::dirichlet::pdf", fun (a : List Arg) => match a with
    | [Arg.fl al, Arg.fl x] => withDir al (fun d => optReply (Statrs.Model.Dirichlet.pdf? d x))
    | _ => "bad-args"),
  ("mv::dirichlet::ln_pdf", fun (a : List Arg) => match a with
    | [Arg.fl al, Arg.fl x] => withDir al (fun d => optReply (Statrs.Model.Dirichlet.ln_pdf? d x))
    | _ => "bad-args"),
  ("mv::dirichlet::entropy", fun (a : List Arg) => match a with
    | [Arg.fl al] => withDir al (fun d => reply (Statrs.Model.Dirichlet.entropy d))
    | _ => "bad-args"),
  ("mv::dirichlet::mean", fun (a : List Arg) => match a with
    | [Arg.fl al] => withDir al (fun d => reply (Statrs.Model.Dirichlet.mean d))
    | _ => "bad-args"),
  ("mv::dirichlet::variance", fun (a : List Arg) => match a with
    | [Arg.fl al] => withDir al (fun d => reply (Statrs.Model.Dirichlet.variance d))
    | _ => "bad-args"),
  ("mv::multinomial::pmf", fun (a : List Arg) => match a with
    | [Arg.fl p, Arg.i n, Arg.il x] => withMul p n (fun d => optReply (Statrs.Model.Multinomial.pmf? d x))
    | _ => "bad-args"),
  ("mv::multinomial::ln_pmf", fun (a : List Arg) => match a with
    | [Arg.fl p, Arg.i n, Arg.il x] => withMul p n (fun d => optReply (Statrs.Model.Multinomial.ln_pmf? d x))
    | _ => "bad-args"),
  ("mv::multinomial::mean", fun (a : List Arg) => match a with
    | [Arg.fl p, Arg.i n] => withMul p n (fun d => reply (Statrs.Model.Multinomial.mean d))
    | _ => "bad-args"),
  ("mv::multinomial::variance", fun (a : List Arg) => match a with
    | [Arg.fl p, Arg.i n] => withMul p n (fun d => reply (Statrs.Model.Multinomial.variance d))
    | _ => "bad-args"),
  ("mv::multinomial::p", fun (a : List Arg) => match a with
    | [Arg.fl p, Arg.i n] => withMul p n (fun d => reply (Statrs.Model.Multinomial.p d))
    | _ => "bad-args")]

end Statrs.Model.MVDispatch
