/-
  Statrs.Model.Multivariate — HAND MODELS of the multivariate distributions of statrs

    src/distribution/multinomial.rs            → `Multinomial.*`
    src/distribution/dirichlet.rs              → `Dirichlet.*`
    src/distribution/multivariate_normal.rs    → `MultivariateNormal.*`, `density_*`
    src/distribution/multivariate_students_t.rs→ `MultivariateStudent.*`

  The translator does not cover these files (nalgebra generics), so the bodies below are
  written by hand, field-for-field and statement-for-statement with the Rust, generic over the
  same carrier classes as the generated code.  Vectors are `List α`, matrices are row-major
  `List (List α)` (entry `(i,j)` is `(m.getD i []).getD j default`).

  The nalgebra 0.33.3 routines the Rust calls are modelled in the `LA` section, each with the
  arithmetic expression and evaluation order of the nalgebra source (file/function named in the
  docstring).  All of them are the *dynamically sized* (`Dyn`/`DVector`/`DMatrix`) code paths:
  `Matrix::dot` has different summation trees for the static sizes U2/U3/U4 (see `LA.dotx`).

  Panics (`unwrap` on `None`, `assert!`, explicit `panic!`, nalgebra dimension asserts) are
  modelled by `…?` functions returning `Option` (`none` = the Rust call panics); the plain
  function is `unwrapO` of it, as for the generated code.

  Import-free apart from the model language and the `SF` class (NO Mathlib).
-/
import Statrs.Basic
import Statrs.Gen.SF
set_option linter.unusedVariables false
namespace Statrs.Model
open Statrs Statrs.Gen

/-! ## structures (fields in Rust declaration order, `f_` prefix as in `Gen/Types.lean`) -/

/-- src/distribution/multinomial.rs:23 -/
structure Multinomial (α : Type) where
  /-- normalized probabilities for each species -/
  f_p : List α
  /-- count of trials (`u64`) -/
  f_n : Int
  deriving Inhabited

/-- src/distribution/dirichlet.rs:25 -/
structure Dirichlet (α : Type) where
  f_alpha : List α
  deriving Inhabited

/-- src/distribution/multivariate_normal.rs:88 -/
structure MultivariateNormal (α : Type) where
  f_cov_chol_decomp : List (List α)
  f_mu : List α
  f_cov : List (List α)
  f_precision : List (List α)
  f_pdf_const : α
  deriving Inhabited

/-- src/distribution/multivariate_students_t.rs:25 -/
structure MultivariateStudent (α : Type) where
  f_scale_chol_decomp : List (List α)
  f_location : List α
  f_scale : List (List α)
  f_freedom : α
  f_precision : List (List α)
  f_ln_pdf_const : α
  deriving Inhabited

section
variable {α : Type} [Add α] [Sub α] [Mul α] [Div α] [Neg α] [LT α] [LE α] [BEq α]
  [DecidableLT α] [DecidableLE α] [OfScientific α] [Inhabited α] [RFun α]

/-! ## nalgebra 0.33.3 routines (Dyn code paths) -/
namespace LA

/-- `m[(i, j)]` -/
@[inline] def mget (m : List (List α)) (i j : Nat) : α := (m.getD i []).getD j default

/-- `m.column(j)` -/
@[inline] def col (m : List (List α)) (j : Nat) : List α := m.map (fun r => r.getD j default)

/-- `m.is_square()` (a `List (List α)` is a matrix when all rows have the same length) -/
def isSquare (m : List (List α)) : Bool := m.all (fun r => r.length == m.length)

/-- `m.transpose()` of a square matrix -/
def transpose (m : List (List α)) : List (List α) :=
  (List.range m.length).map (fun j => col m j)

/-- `DMatrix::from_vec(n, n, v)` (column-major fill); the Rust panics unless `v.len() = n*n` -/
def fromVecColMajor (n : Nat) (v : List α) : List (List α) :=
  (List.range n).map (fun i => (List.range n).map (fun j => v.getD (i + j * n) default))

/-- `OMatrix::identity_generic(n, n)` -/
def identity (n : Nat) : List (List α) :=
  (List.range n).map (fun i => (List.range n).map (fun j => if i = j then (1.0 : α) else (0.0 : α)))

/-- `&x - &y` on vectors (component-wise; nalgebra asserts equal shapes) -/
def vsub (x y : List α) : List α := List.zipWith (fun a b => a - b) x y

/-- `m.lower_triangle() != m.upper_triangle().transpose()` is `!symmetricEq m`: `Matrix::eq` is
    `all(|(l, r)| l == r)` over all entries; strictly-upper entries are `0 == 0`, the diagonal
    compares `m[i][i] == m[i][i]` (false exactly for NaN) and below it `m[i][j] == m[j][i]`. -/
def symmetricEq (m : List (List α)) : Bool :=
  (List.range m.length).all (fun i => (List.range (i + 1)).all (fun j => mget m i j == mget m j i))

/-- `m.iter().any(|f| f.is_nan())` -/
def anyNaN (m : List (List α)) : Bool := m.any (fun r => r.any (fun f => RFun.isNaN f))

/-- the 8-way unrolled `while nrows - i >= 8` loop of `dotx` (base/blas.rs:120), on the list of
    component products; returns the eight accumulators and the unprocessed tail -/
def dotxAcc : List α → (α × α × α × α × α × α × α × α) → (α × α × α × α × α × α × α × α) × List α
  | p0 :: p1 :: p2 :: p3 :: p4 :: p5 :: p6 :: p7 :: ps, (c0, c1, c2, c3, c4, c5, c6, c7) =>
    dotxAcc ps (c0 + p0, c1 + p1, c2 + p2, c3 + p3, c4 + p4, c5 + p5, c6 + p6, c7 + p7)
  | ps, acc => (acc, ps)

/-- `a.dot(&b)` = `Matrix::dotx` (base/blas.rs:23) for dynamically sized column vectors:
    products `a[i] * b[i]`, eight interleaved accumulators over the blocks of 8, combined as
    `res += acc0 + acc4; res += acc1 + acc5; res += acc2 + acc6; res += acc3 + acc7`, then the
    remaining `< 8` products added in order.  (For the *static* sizes nalgebra special-cases
    U2: `a + b`, U3: `a + b + c`, U4: `(a + c) + (b + d)`; not modelled — statrs' `new(Vec,…)`
    builds `Dyn` objects.) -/
def dotx (a b : List α) : α :=
  let prods := List.zipWith (fun x y => x * y) a b
  let r := dotxAcc prods ((0.0 : α), (0.0 : α), (0.0 : α), (0.0 : α), (0.0 : α), (0.0 : α), (0.0 : α), (0.0 : α))
  match r with
  | ((c0, c1, c2, c3, c4, c5, c6, c7), tail) =>
    let res := (0.0 : α)
    let res := res + (c0 + c4)
    let res := res + (c1 + c5)
    let res := res + (c2 + c6)
    let res := res + (c3 + c7)
    tail.foldl (fun res p => res + p) res

/-- columns `j, j+1, …` of `gemv_uninit` (base/blas_uninit.rs:123) after the first one:
    `y[i] = alpha * a[i][j] * x[j] + 1 * y[i]` with `alpha = 1` (`array_axcpy`) -/
def gemvCols (a : List (List α)) : Nat → List α → List α → List α
  | _, [], y => y
  | j, xj :: xs, y =>
    gemvCols a (j + 1) xs
      (List.zipWith (fun aij yi => ((1.0 : α) * aij) * xj + (1.0 : α) * yi) (col a j) y)

/-- `&a * &x` (matrix × column vector) = `gemm_uninit`→`gemv_uninit(Uninit, y, 1, a, x, 0)`:
    column-oriented, first column by `array_axc` (`y[i] = alpha * a[i][0] * x[0]`), the others
    accumulated by `array_axcpy`.  (matrixmultiply's `dgemm` is only used when all of
    `nrows1, ncols1, nrows2, ncols2 > 5`; the result has one column, so never here.) -/
def matvec (a : List (List α)) (x : List α) : List α :=
  match x with
  | [] => a.map (fun _ => (0.0 : α))
  | x0 :: xs => gemvCols a 1 xs ((col a 0).map (fun ai0 => ((1.0 : α) * ai0) * x0))

/-- `v.icamax()` (base/min_max.rs:221), `norm1 = abs`; state `(the_max, the_i, i)` -/
def icamax (v : List α) : Nat :=
  match v with
  | [] => 0
  | v0 :: vs =>
    (vs.foldl (fun (st : α × Nat × Nat) e =>
        let val := RFun.abs e
        if st.1 < val then (val, st.2.2, st.2.2 + 1) else (st.1, st.2.1, st.2.2 + 1))
      (RFun.abs v0, 0, 1)).2.1

/-- `m.swap_rows(i, piv)` (done by `swap_rows` on the left block, `coeffs.swap` on column `i`
    and the `mem::swap`s of `gauss_step_swap` on the right block) -/
def swapRows (m : List (List α)) (i piv : Nat) : List (List α) :=
  (m.set i (m.getD piv [])).set piv (m.getD i [])

/-- `gauss_step(matrix, diag, i)` (linalg/lu.rs:336): `coeffs *= 1/diag`, then for each
    column `k > i`: `down.column(k).axpy(-pivot_row[k], &coeffs, 1)`, i.e.
    `m[r][k] = (-m[i][k]) * m[r][i] * 1 + 1 * m[r][k]` for the rows `r > i` -/
def gaussStep (m : List (List α)) (diag : α) (i : Nat) : List (List α) :=
  let inv_diag := (1.0 : α) / diag
  let prow := m.getD i []
  m.mapIdx (fun r row =>
    if r ≤ i then row
    else
      let c := (row.getD i default) * inv_diag
      row.mapIdx (fun k e =>
        if k < i then e
        else if k = i then c
        else ((-(prow.getD k default)) * c) * (1.0 : α) + (1.0 : α) * e))

/-- one iteration `i` of `LU::new` (linalg/lu.rs:102, partial pivoting); state = (matrix,
    number of row transpositions recorded in the `PermutationSequence`) -/
def luStep (st : List (List α) × Nat) (i : Nat) : List (List α) × Nat :=
  let m := st.1
  let piv := icamax (col (m.drop i) i) + i
  let diag := mget m piv i
  if (diag == (0.0 : α)) = true then st
  else if piv ≠ i then (gaussStep (swapRows m i piv) diag i, st.2 + 1)
  else (gaussStep m diag i, st.2)

/-- `LU::new(m).determinant()` (linalg/lu.rs:300): `res = 1; res *= lu[i][i]` in order, times
    `p.determinant()` = `1` / `-1` for an even / odd number of transpositions -/
def luDeterminant (m : List (List α)) : α :=
  let st := (List.range m.length).foldl luStep (m, 0)
  let res := (List.range m.length).foldl (fun res i => res * mget st.1 i i) (1.0 : α)
  res * (if st.2 % 2 = 0 then (1.0 : α) else -(1.0 : α))

/-- `m.determinant()` (linalg/determinant.rs:15): closed forms for dimensions 0–3, LU above -/
def determinant (m : List (List α)) : α :=
  match m.length with
  | 0 => (1.0 : α)
  | 1 => mget m 0 0
  | 2 =>
    let m11 := mget m 0 0
    let m12 := mget m 0 1
    let m21 := mget m 1 0
    let m22 := mget m 1 1
    m11 * m22 - m21 * m12
  | 3 =>
    let m11 := mget m 0 0
    let m12 := mget m 0 1
    let m13 := mget m 0 2
    let m21 := mget m 1 0
    let m22 := mget m 1 1
    let m23 := mget m 1 2
    let m31 := mget m 2 0
    let m32 := mget m 2 1
    let m33 := mget m 2 2
    let minor_m12_m23 := m22 * m33 - m32 * m23
    let minor_m11_m23 := m21 * m33 - m31 * m23
    let minor_m11_m22 := m21 * m32 - m31 * m22
    m11 * minor_m12_m23 - m12 * minor_m11_m23 + m13 * minor_m11_m22
  | _ => luDeterminant m

/-- inner `for k in 0..j` body of `Cholesky::new_internal` (linalg/cholesky.rs:224):
    `col_j.rows(j..).axpy(-m[j][k], col_k.rows(j..), 1)`, i.e.
    `m[r][j] = (-m[j][k]) * m[r][k] * 1 + 1 * m[r][j]` for `r ≥ j` -/
def cholAxpy (m : List (List α)) (j k : Nat) : List (List α) :=
  let factor := -(mget m j k)
  m.mapIdx (fun r row =>
    if r < j then row
    else row.set j ((factor * (row.getD k default)) * (1.0 : α) + (1.0 : α) * (row.getD j default)))

/-- iteration `j` of `Cholesky::new_internal` with `substitute = None`: the axpy sweep, then
    `sqrt_denom(diag)` = `None` if `diag == 0`, else `try_sqrt` (`Some(sqrt)` iff `diag >= 0`),
    `m[j][j] = denom`, `m[r][j] /= denom` for `r > j`; `none` = the early `return None` -/
def cholStep (m : List (List α)) (j : Nat) : Option (List (List α)) :=
  let m := (List.range j).foldl (fun m k => cholAxpy m j k) m
  let diag := mget m j j
  if (diag == (0.0 : α)) = true then none
  else if (0.0 : α) ≤ diag then
    let denom := RFun.sqrt diag
    some (m.mapIdx (fun r row =>
      if r < j then row
      else if r = j then row.set j denom
      else row.set j ((row.getD j default) / denom)))
  else none

/-- `Cholesky::new(m)`: the packed ("dirty") factor — lower triangle = `L`, strict upper
    triangle = the untouched entries of `m` (only the lower triangle of `m` is read) -/
def choleskyNew (m : List (List α)) : Option (List (List α)) :=
  (List.range m.length).foldl (fun om j => om.bind (fun m => cholStep m j)) (some m)

/-- `Cholesky::unpack`: `fill_upper_triangle(0, 1)` -/
def choleskyUnpack (l : List (List α)) : List (List α) :=
  l.mapIdx (fun i row => row.mapIdx (fun j e => if i < j then (0.0 : α) else e))

/-- `l.solve_lower_triangular_vector_unchecked_mut(b)` (linalg/solve.rs:500): for `i` ascending
    `coeff = b[i] / l[i][i]; b[i] = coeff; b[i+1..].axpy(-coeff, l[i+1.., i], 1)` -/
def solveLower (l : List (List α)) (b : List α) : List α :=
  (List.range l.length).foldl (fun b i =>
    let coeff := (b.getD i default) / (mget l i i)
    b.mapIdx (fun r br =>
      if r < i then br
      else if r = i then coeff
      else ((-coeff) * (mget l r i)) * (1.0 : α) + (1.0 : α) * br)) b

/-- `l.ad_solve_lower_triangular` on one column (`xx_solve_lower_triangular_vector_unchecked_mut`,
    linalg/solve.rs:732): for `i` descending
    `b[i] = (b[i] - l[i+1.., i].dotc(b[i+1..])) / l[i][i]` (views are `Dyn` ⇒ general `dotx`) -/
def adSolveLower (l : List (List α)) (b : List α) : List α :=
  (List.range l.length).reverse.foldl (fun b i =>
    let d := dotx (col (l.drop (i + 1)) i) (b.drop (i + 1))
    b.set i (((b.getD i default) - d) / (mget l i i))) b

/-- `Cholesky::inverse` (linalg/cholesky.rs:146): `solve_mut(identity)`, column by column:
    forward substitution with `L`, then back substitution with `Lᵀ` -/
def choleskyInverse (l : List (List α)) : List (List α) :=
  transpose ((List.range l.length).map (fun c => adSolveLower l (solveLower l (col (identity l.length) c))))

/-- `m.scale(t)` / `m * t`: every entry `e * t` -/
def scale (m : List (List α)) (t : α) : List (List α) := m.map (fun r => r.map (fun e => e * t))

/-- `m / t`: every entry `e / t` -/
def unscale (m : List (List α)) (t : α) : List (List α) := m.map (fun r => r.map (fun e => e / t))

/-- `v.sum()` (base/statistics.rs:105): `fold(0, |a, b| a + b)` -/
def vsum (v : List α) : α := v.foldl (fun a b => a + b) (0.0 : α)

/-- `v.lp_norm(1)` (base/norm.rs:86): `fold(0, |a, b| a + |b|.powi(1)).powf(1.0 / 1.0)` -/
def lpNorm1 (v : List α) : α :=
  RFun.pow (v.foldl (fun a b => a + RFun.powi (RFun.abs b) 1) (0.0 : α)) ((1.0 : α) / RFun.ofInt 1)

end LA

/-- `prec::almost_eq` (src/prec.rs:14; same body as the generated `R.prec.almost_eq`, restated
    here because this file may only import `Basic` and `SF`) -/
def almost_eq (a b acc : α) : Bool :=
  if ((RFun.isInf a) = true) ∧ ((RFun.isInf b) = true) then decide ((a == b) = true)
  else absDiffEq a b acc

/-! ## Multinomial (src/distribution/multinomial.rs) -/

/-- the validation loop of `new_from_nalgebra` (multinomial.rs:104): `none` = the early
    `return Err(ProbabilityInvalid)`, `some sum` otherwise -/
def Multinomial.newLoop : List α → α → Option α
  | [], sum => some sum
  | val :: t, sum =>
    if ((RFun.isNaN val) = true) ∨ (val < (0.0 : α)) then none
    else Multinomial.newLoop t (sum + val)

/-- multinomial.rs:98 `Multinomial::new_from_nalgebra` (= `Multinomial::new` on a `Vec`) -/
def Multinomial.new_from_nalgebra (p : List α) (n : Int) : Except MultinomialError (Multinomial α) :=
  if p.length < 2 then .error MultinomialError.NotEnoughProbabilities
  else
    match Multinomial.newLoop p (0.0 : α) with
    | none => .error MultinomialError.ProbabilityInvalid
    | some sum =>
      if (sum == (0.0 : α)) = true then .error MultinomialError.ProbabilitySumZero
      else
        -- p.unscale_mut(p.lp_norm(1))
        let nrm := LA.lpNorm1 p
        .ok ({ f_p := p.map (fun e => e / nrm), f_n := n } : Multinomial α)

/-- multinomial.rs:89 -/
def Multinomial.new (p : List α) (n : Int) : Except MultinomialError (Multinomial α) :=
  Multinomial.new_from_nalgebra p n

/-- multinomial.rs:131 -/
def Multinomial.p (self : Multinomial α) : List α := self.f_p
/-- multinomial.rs:145 -/
def Multinomial.n (self : Multinomial α) : Int := self.f_n

/-- multinomial.rs:227 `MeanN::mean`: `p.map(|x| x * n as f64)` -/
def Multinomial.mean (self : Multinomial α) : Option (List α) :=
  some (self.f_p.map (fun x => x * (RFun.ofInt self.f_n : α)))

/-- multinomial.rs:248 `VarianceN::variance`: diagonal `x * (1 - x)`, the strict upper triangle
    entry `(j, i)`, `j < i`, is `-p[i] * p[j]`, the lower triangle is copied from the upper one,
    then every entry is `* n as f64` -/
def Multinomial.variance (self : Multinomial α) : Option (List (List α)) :=
  let p := self.f_p
  let k := p.length
  let cov : List (List α) := (List.range k).map (fun r => (List.range k).map (fun c =>
    if r = c then (p.getD r default) * ((1.0 : α) - (p.getD r default))
    else if c < r then (-(p.getD r default)) * (p.getD c default)
    else (-(p.getD c default)) * (p.getD r default)))
  some (LA.scale cov (RFun.ofInt self.f_n : α))

end
section
variable {α : Type} [Add α] [Sub α] [Mul α] [Div α] [Neg α] [LT α] [LE α] [BEq α]
  [DecidableLT α] [DecidableLE α] [OfScientific α] [Inhabited α] [RFun α] [SF α]

/-- multinomial.rs:306 `Discrete::pmf`; `none` = `panic!("Expected x and p to have equal lengths.")` -/
def Multinomial.pmf? (self : Multinomial α) (x : List Int) : Option α :=
  if self.f_p.length ≠ x.length then none
  else if x.foldl (fun a b => a + b) (0 : Int) ≠ self.f_n then some (0.0 : α)
  else
    let coeff : α := SF.multinomial self.f_n x
    let val := coeff *
      (List.zip self.f_p x).foldl (fun acc (pi_xi : α × Int) => acc * RFun.pow pi_xi.1 (RFun.ofInt pi_xi.2 : α)) (1.0 : α)
    some val

def Multinomial.pmf (self : Multinomial α) (x : List Int) : α := unwrapO (Multinomial.pmf? self x)

/-- multinomial.rs:341 `Discrete::ln_pmf` -/
def Multinomial.ln_pmf? (self : Multinomial α) (x : List Int) : Option α :=
  if self.f_p.length ≠ x.length then none
  else if x.foldl (fun a b => a + b) (0 : Int) ≠ self.f_n then some (RFun.negInf : α)
  else
    let coeff : α := RFun.ln (SF.multinomial self.f_n x : α)
    let val := coeff +
      ((List.zip self.f_p x).map (fun (pi_xi : α × Int) => if pi_xi.2 = 0 then (0.0 : α) else (RFun.ofInt pi_xi.2 : α) * RFun.ln pi_xi.1)).foldl
        (fun acc x => acc + x) (0.0 : α)
    some val

def Multinomial.ln_pmf (self : Multinomial α) (x : List Int) : α := unwrapO (Multinomial.ln_pmf? self x)

/-! ## Dirichlet (src/distribution/dirichlet.rs) -/

/-- dirichlet.rs:125 `Dirichlet::new_from_nalgebra` -/
def Dirichlet.new_from_nalgebra (alpha : List α) : Except DirichletError (Dirichlet α) :=
  if alpha.length < 2 then .error DirichletError.AlphaTooShort
  else if alpha.any (fun a_i => decide ((¬ ((RFun.isFinite a_i) = true)) ∨ (a_i ≤ (0.0 : α)))) then
    .error DirichletError.AlphaHasInvalidElements
  else .ok ({ f_alpha := alpha } : Dirichlet α)

/-- dirichlet.rs:84 -/
def Dirichlet.new (alpha : List α) : Except DirichletError (Dirichlet α) :=
  Dirichlet.new_from_nalgebra alpha

/-- dirichlet.rs:107 `new_with_param(alpha, n)` = `new(vec![alpha; n])` -/
def Dirichlet.new_with_param (alpha : α) (n : Int) : Except DirichletError (Dirichlet α) :=
  Dirichlet.new (List.replicate n.toNat alpha)

/-- dirichlet.rs:148 -/
def Dirichlet.alpha (self : Dirichlet α) : List α := self.f_alpha

/-- dirichlet.rs:152 `alpha_sum` = `self.alpha.sum()` -/
def Dirichlet.alpha_sum (self : Dirichlet α) : α := LA.vsum self.f_alpha

/-- dirichlet.rs:175 `entropy` -/
def Dirichlet.entropy (self : Dirichlet α) : Option α :=
  let sum := Dirichlet.alpha_sum self
  let num := self.f_alpha.foldl (fun acc x =>
    (acc + (SF.ln_gamma x)) + ((x - (1.0 : α)) * (SF.digamma x))) (0.0 : α)
  let entr :=
    ((-(SF.ln_gamma sum)) + ((sum - (RFun.ofInt (self.f_alpha.length : Int) : α)) * (SF.digamma sum))) - num
  some entr

/-- dirichlet.rs:232 `MeanN::mean` -/
def Dirichlet.mean (self : Dirichlet α) : Option (List α) :=
  let sum := Dirichlet.alpha_sum self
  some (self.f_alpha.map (fun x => x / sum))

/-- dirichlet.rs:254 `VarianceN::variance`: diagonal `x * (sum - x) / normalizing`, and for
    `j < i` both `(i, j)` and `(j, i)` are `-alpha[i] * alpha[j] / normalizing` -/
def Dirichlet.variance (self : Dirichlet α) : Option (List (List α)) :=
  let a := self.f_alpha
  let sum := Dirichlet.alpha_sum self
  let normalizing := (sum * sum) * (sum + (1.0 : α))
  let k := a.length
  some ((List.range k).map (fun r => (List.range k).map (fun c =>
    if r = c then ((a.getD r default) * (sum - (a.getD r default))) / normalizing
    else if c < r then ((-(a.getD r default)) * (a.getD c default)) / normalizing
    else ((-(a.getD c default)) * (a.getD r default)) / normalizing)))

/-- dirichlet.rs:342 `Continuous::ln_pdf`; `none` = one of the three panics (length mismatch,
    `assert!(0.0 < x_i && x_i < 1.0)` inside the loop, `assert!(almost_eq(sum_x, 1.0, 1e-4))`).
    The in-loop assertion is tested before the fold: a panic is the only effect either way. -/
def Dirichlet.ln_pdf? (self : Dirichlet α) (x : List α) : Option α :=
  if self.f_alpha.length ≠ x.length then none
  else if ¬ (x.all (fun x_i => decide (((0.0 : α) < x_i) ∧ (x_i < (1.0 : α))))) = true then none
  else
    -- state (term, sum_x, sum_alpha)
    let st := (List.zip x self.f_alpha).foldl (fun (st : α × α × α) (xa : α × α) =>
      let x_i := xa.1
      let alpha_i := xa.2
      (st.1 + (((alpha_i - (1.0 : α)) * (RFun.ln x_i)) - (SF.ln_gamma alpha_i)),
       st.2.1 + x_i,
       st.2.2 + alpha_i)) ((0.0 : α), (0.0 : α), (0.0 : α))
    if ¬ (almost_eq st.2.1 (1.0 : α) (1e-4 : α)) = true then none
    else some (st.1 + (SF.ln_gamma st.2.2))

def Dirichlet.ln_pdf (self : Dirichlet α) (x : List α) : α := unwrapO (Dirichlet.ln_pdf? self x)

/-- dirichlet.rs:312 `Continuous::pdf` = `self.ln_pdf(x).exp()` -/
def Dirichlet.pdf? (self : Dirichlet α) (x : List α) : Option α :=
  (Dirichlet.ln_pdf? self x).map (fun l => RFun.exp l)

def Dirichlet.pdf (self : Dirichlet α) (x : List α) : α := RFun.exp (Dirichlet.ln_pdf self x)

end
section
variable {α : Type} [Add α] [Sub α] [Mul α] [Div α] [Neg α] [LT α] [LE α] [BEq α]
  [DecidableLT α] [DecidableLE α] [OfScientific α] [Inhabited α] [RFun α]

/-! ## MultivariateNormal (src/distribution/multivariate_normal.rs) -/

/-- multivariate_normal.rs:29 `density_distribution_exponential` -/
def density_distribution_exponential (mu : List α) (precision : List (List α)) (x : List α) : Option α :=
  if (x.length ≠ precision.length) ∨ (x.length ≠ mu.length) ∨ (¬ (LA.isSquare precision) = true) then none
  else
    let dv := LA.vsub x mu
    let exp_term := (-(0.5 : α)) * (LA.dotx (LA.matvec precision dv) dv)
    some exp_term

/-- multivariate_normal.rs:54 `density_distribution_pdf_const` -/
def density_distribution_pdf_const (mu : List α) (cov : List (List α)) : Option α :=
  if (cov.length ≠ mu.length) ∨ (¬ (LA.isSquare cov) = true) then none
  else
    let cov_det := LA.determinant cov
    some (RFun.sqrt (RFun.recip
      ((RFun.powi ((2.0 : α) * (RFun.pi : α)) (mu.length : Int)) * (RFun.abs cov_det))))

/-- multivariate_normal.rs:9 `density_normalization_and_exponential` -/
def density_normalization_and_exponential (mu : List α) (cov precision : List (List α)) (x : List α) :
    Option (α × α) :=
  match density_distribution_pdf_const mu cov with
  | none => none
  | some c =>
    match density_distribution_exponential mu precision x with
    | none => none
    | some e => some (c, e)

/-- multivariate_normal.rs:171 `MultivariateNormal::new_from_nalgebra` -/
def MultivariateNormal.new_from_nalgebra (mean : List α) (cov : List (List α)) :
    Except MultivariateNormalError (MultivariateNormal α) :=
  if mean.any (fun f => RFun.isNaN f) then .error MultivariateNormalError.MeanInvalid
  else if (¬ (LA.isSquare cov) = true) ∨ (¬ (LA.symmetricEq cov) = true) ∨ ((LA.anyNaN cov) = true) then
    .error MultivariateNormalError.CovInvalid
  else if mean.length ≠ cov.length then .error MultivariateNormalError.DimensionMismatch
  else
    match LA.choleskyNew cov with
    | none => .error MultivariateNormalError.CholeskyFailed
    | some cholesky_decomp =>
      let precision := LA.choleskyInverse cholesky_decomp
      .ok ({ f_pdf_const := unwrapO (density_distribution_pdf_const mean cov),
             f_cov_chol_decomp := LA.choleskyUnpack cholesky_decomp,
             f_mu := mean,
             f_cov := cov,
             f_precision := precision } : MultivariateNormal α)

/-- multivariate_normal.rs:149 `MultivariateNormal::new(mean: Vec, cov: Vec)`;
    `DMatrix::from_vec` panics (`none`) unless `cov.len() = mean.len()²` -/
def MultivariateNormal.new? (mean : List α) (cov : List α) :
    Option (Except MultivariateNormalError (MultivariateNormal α)) :=
  if cov.length ≠ mean.length * mean.length then none
  else some (MultivariateNormal.new_from_nalgebra mean (LA.fromVecColMajor mean.length cov))

/-- multivariate_normal.rs:218 `entropy`: `0.5 * variance().unwrap().scale(2πe).determinant().ln()` -/
def MultivariateNormal.entropy (self : MultivariateNormal α) : Option α :=
  some ((0.5 : α) * (RFun.ln (LA.determinant
    (LA.scale self.f_cov (((2.0 : α) * (RFun.pi : α)) * (RFun.e : α))))))

/-- multivariate_normal.rs:240 -/
def MultivariateNormal.clone_cov_chol_decomp (self : MultivariateNormal α) : List (List α) := self.f_cov_chol_decomp
/-- multivariate_normal.rs:255 -/
def MultivariateNormal.mu (self : MultivariateNormal α) : List α := self.f_mu
/-- multivariate_normal.rs:270 -/
def MultivariateNormal.cov (self : MultivariateNormal α) : List (List α) := self.f_cov
/-- multivariate_normal.rs:285 -/
def MultivariateNormal.precision (self : MultivariateNormal α) : List (List α) := self.f_precision

/-- multivariate_normal.rs:334 `Min::min` -/
def MultivariateNormal.min (self : MultivariateNormal α) : List α := self.f_mu.map (fun _ => (RFun.negInf : α))
/-- multivariate_normal.rs:347 `Max::max` -/
def MultivariateNormal.max (self : MultivariateNormal α) : List α := self.f_mu.map (fun _ => (RFun.inf : α))
/-- multivariate_normal.rs:363 `MeanN::mean` -/
def MultivariateNormal.mean (self : MultivariateNormal α) : Option (List α) := some self.f_mu
/-- multivariate_normal.rs:375 `VarianceN::variance` -/
def MultivariateNormal.variance (self : MultivariateNormal α) : Option (List (List α)) := some self.f_cov
/-- multivariate_normal.rs:395 `Mode::mode` -/
def MultivariateNormal.mode (self : MultivariateNormal α) : List α := self.f_mu

/-- multivariate_normal.rs:417 `Continuous::pdf`; `none` = `.unwrap()` on a dimension mismatch -/
def MultivariateNormal.pdf? (self : MultivariateNormal α) (x : List α) : Option α :=
  (density_distribution_exponential self.f_mu self.f_precision x).map
    (fun e => self.f_pdf_const * (RFun.exp e))

def MultivariateNormal.pdf (self : MultivariateNormal α) (x : List α) : α :=
  self.f_pdf_const * (RFun.exp (unwrapO (density_distribution_exponential self.f_mu self.f_precision x)))

/-- multivariate_normal.rs:426 `Continuous::ln_pdf` -/
def MultivariateNormal.ln_pdf? (self : MultivariateNormal α) (x : List α) : Option α :=
  (density_distribution_exponential self.f_mu self.f_precision x).map
    (fun e => (RFun.ln self.f_pdf_const) + e)

def MultivariateNormal.ln_pdf (self : MultivariateNormal α) (x : List α) : α :=
  (RFun.ln self.f_pdf_const) + (unwrapO (density_distribution_exponential self.f_mu self.f_precision x))

end
section
variable {α : Type} [Add α] [Sub α] [Mul α] [Div α] [Neg α] [LT α] [LE α] [BEq α]
  [DecidableLT α] [DecidableLE α] [OfScientific α] [Inhabited α] [RFun α] [SF α]

/-! ## MultivariateStudent (src/distribution/multivariate_students_t.rs) -/

/-- multivariate_students_t.rs:118 `MultivariateStudent::new_from_nalgebra` -/
def MultivariateStudent.new_from_nalgebra (location : List α) (scale : List (List α)) (freedom : α) :
    Except MultivariateStudentError (MultivariateStudent α) :=
  let dim : Int := (location.length : Int)
  if location.any (fun f => RFun.isNaN f) then .error MultivariateStudentError.LocationInvalid
  else if (¬ (LA.isSquare scale) = true) ∨ (¬ (LA.symmetricEq scale) = true) ∨ ((LA.anyNaN scale) = true) then
    .error MultivariateStudentError.ScaleInvalid
  else if ((RFun.isNaN freedom) = true) ∨ (freedom ≤ (0.0 : α)) then
    .error MultivariateStudentError.FreedomInvalid
  else if location.length ≠ scale.length then .error MultivariateStudentError.DimensionMismatch
  else
    let scale_det := LA.determinant scale
    let ln_pdf_const :=
      (((SF.ln_gamma ((0.5 : α) * (freedom + (RFun.ofInt dim : α))))
        - (SF.ln_gamma ((0.5 : α) * freedom)))
        - (((0.5 : α) * (RFun.ofInt dim : α)) * (RFun.ln (freedom * (RFun.pi : α)))))
        - ((0.5 : α) * (RFun.ln scale_det))
    match LA.choleskyNew scale with
    | none => .error MultivariateStudentError.CholeskyFailed
    | some cholesky_decomp =>
      let precision := LA.choleskyInverse cholesky_decomp
      .ok ({ f_scale_chol_decomp := LA.choleskyUnpack cholesky_decomp,
             f_location := location,
             f_scale := scale,
             f_freedom := freedom,
             f_precision := precision,
             f_ln_pdf_const := ln_pdf_const } : MultivariateStudent α)

/-- multivariate_students_t.rs:96 `MultivariateStudent::new(location: Vec, scale: Vec, freedom)`;
    `DMatrix::from_vec` panics (`none`) unless `scale.len() = location.len()²` -/
def MultivariateStudent.new? (location : List α) (scale : List α) (freedom : α) :
    Option (Except MultivariateStudentError (MultivariateStudent α)) :=
  let dim := location.length
  if scale.length ≠ dim * dim then none
  else some (MultivariateStudent.new_from_nalgebra location (LA.fromVecColMajor dim scale) freedom)

/-- multivariate_students_t.rs:106 -/
def MultivariateStudent.dim (self : MultivariateStudent α) : Int := (self.f_location.length : Int)
/-- multivariate_students_t.rs:169 -/
def MultivariateStudent.scale_chol_decomp (self : MultivariateStudent α) : List (List α) := self.f_scale_chol_decomp
/-- multivariate_students_t.rs:174 -/
def MultivariateStudent.location (self : MultivariateStudent α) : List α := self.f_location
/-- multivariate_students_t.rs:179 -/
def MultivariateStudent.scale (self : MultivariateStudent α) : List (List α) := self.f_scale
/-- multivariate_students_t.rs:184 -/
def MultivariateStudent.freedom (self : MultivariateStudent α) : α := self.f_freedom
/-- multivariate_students_t.rs:189 -/
def MultivariateStudent.precision (self : MultivariateStudent α) : List (List α) := self.f_precision
/-- multivariate_students_t.rs:195 -/
def MultivariateStudent.ln_pdf_const (self : MultivariateStudent α) : α := self.f_ln_pdf_const

/-- multivariate_students_t.rs:241 `Min::min` -/
def MultivariateStudent.min (self : MultivariateStudent α) : List α := self.f_location.map (fun _ => (RFun.negInf : α))
/-- multivariate_students_t.rs:258 `Max::max` -/
def MultivariateStudent.max (self : MultivariateStudent α) : List α := self.f_location.map (fun _ => (RFun.inf : α))

/-- multivariate_students_t.rs:275 `MeanN::mean` -/
def MultivariateStudent.mean (self : MultivariateStudent α) : Option (List α) :=
  if (1.0 : α) < self.f_freedom then some self.f_location else none

/-- multivariate_students_t.rs:300 `VarianceN::variance`: `scale * freedom / (freedom - 2)` -/
def MultivariateStudent.variance (self : MultivariateStudent α) : Option (List (List α)) :=
  if (2.0 : α) < self.f_freedom then
    some (LA.unscale (LA.scale self.f_scale self.f_freedom) (self.f_freedom - (2.0 : α)))
  else none

/-- multivariate_students_t.rs:324 `Mode::mode` -/
def MultivariateStudent.mode (self : MultivariateStudent α) : List α := self.f_location

/-- `(&self.precision * &(x - &self.location)).dot(&dv)`; `none` = nalgebra's shape assertions
    (`x - location`, `precision * dv`) fail -/
def MultivariateStudent.expArg? (self : MultivariateStudent α) (x : List α) : Option α :=
  if (x.length ≠ self.f_location.length) ∨ (¬ (LA.isSquare self.f_precision) = true)
      ∨ (self.f_precision.length ≠ x.length) then none
  else
    let dv := LA.vsub x self.f_location
    some (LA.dotx (LA.matvec self.f_precision dv) dv)

/-- multivariate_students_t.rs:352 `Continuous::pdf` -/
def MultivariateStudent.pdf? (self : MultivariateStudent α) (x : List α) : Option α :=
  if (RFun.isInf self.f_freedom) = true then
    (density_normalization_and_exponential self.f_location self.f_scale self.f_precision x).map
      (fun (ce : α × α) => ce.1 * (RFun.exp ce.2))
  else
    (MultivariateStudent.expArg? self x).map (fun exp_arg =>
      let base_term := (1.0 : α) + (exp_arg / self.f_freedom)
      (RFun.exp self.f_ln_pdf_const) *
        (RFun.pow base_term ((-(self.f_freedom + (RFun.ofInt (self.f_location.length : Int) : α))) / (2.0 : α))))

def MultivariateStudent.pdf (self : MultivariateStudent α) (x : List α) : α :=
  unwrapO (MultivariateStudent.pdf? self x)

/-- multivariate_students_t.rs:373 `Continuous::ln_pdf` -/
def MultivariateStudent.ln_pdf? (self : MultivariateStudent α) (x : List α) : Option α :=
  if (RFun.isInf self.f_freedom) = true then
    (density_normalization_and_exponential self.f_location self.f_scale self.f_precision x).map
      (fun (ce : α × α) => (RFun.ln ce.1) + ce.2)
  else
    (MultivariateStudent.expArg? self x).map (fun exp_arg =>
      let base_term := (1.0 : α) + (exp_arg / self.f_freedom)
      self.f_ln_pdf_const -
        (((self.f_freedom + (RFun.ofInt (self.f_location.length : Int) : α)) / (2.0 : α)) * (RFun.ln base_term)))

def MultivariateStudent.ln_pdf (self : MultivariateStudent α) (x : List α) : α :=
  unwrapO (MultivariateStudent.ln_pdf? self x)

end
end Statrs.Model
