/-
  Driver entries for `Statrs.Model.RankTests` (carrier `Float`).  Same ids as
  harness/src/hand_ranktests.rs.

  Integer codes (declaration order of the Rust enums):
    RankTieBreaker                0 Average  1 Min  2 Max  3 First
    MannWhitneyUMethod            0 Automatic  1 Exact  2 AsymptoticIncl…  3 AsymptoticExcl…
    Alternative                   0 TwoSided  1 Less  2 Greater
    KSOneSampleAlternativeMethod  0 Less  1 Greater  2 TwoSidedExact  3 TwoSidedAsymptotic  4 TwoSidedApproximate
    KSTwoSampleAlternativeMethod  0 LessAsymptotic  1 GreaterAsymptotic  2 TwoSidedExact  3 TwoSidedAsymptotic
    NaNPolicy                     0 Propogate  1 Emit  2 Error

  `ks_onesample::*` take a last argument `b:<fused>`: whether `matrixmultiply::dgemm` runs its
  FMA micro-kernel on the machine that answers for the implementation (x86-64: `fma` and `avx2`
  detected at run time).  With `b:1` the model's multiply-add is the correctly rounded fused
  operation `fmaF` (software, exact integer arithmetic on the decoded operands); with `b:0` it is
  `a * b + c`.  The flag only matters for `TwoSidedExact` with matrix dimension > 5.
-/
import Statrs.Driver.Proto
import Statrs.Gen.SFFloat
import Statrs.Gen.D_normal
import Statrs.Gen.D_uniform
import Statrs.Gen.D_exponential
import Statrs.Model.RankTests
namespace Statrs.Model.RankDispatch
open Statrs Statrs.Driver Statrs.Gen

/-! ### correctly rounded `fma` on `Float` (IEEE binary64, round-to-nearest-even) -/

/-- `(negative, M, E)` with `|x| = M · 2^E` for a finite `x` -/
def decodeF (x : Float) : Bool × Nat × Int :=
  let bits := x.toBits.toNat
  let s := bits / 2 ^ 63 == 1
  let e : Nat := (bits / 2 ^ 52) % 2048
  let frac : Nat := bits % 2 ^ 52
  if e == 0 then (s, frac, -1074) else (s, frac + 2 ^ 52, (Int.ofNat e) - 1075)

/-- `(-1)^neg · mag · 2^ex` rounded to nearest, ties to even (`mag > 0`) -/
def roundF (neg : Bool) (mag : Nat) (ex : Int) : Float :=
  let len : Int := (Nat.log2 mag : Int) + 1
  let q : Int := max (ex + len - 53) (-1074)
  let mant : Nat :=
    if q ≤ ex then mag * 2 ^ (ex - q).toNat
    else
      let sh := (q - ex).toNat
      let m := mag / 2 ^ sh
      let rem := mag % 2 ^ sh
      let half := 2 ^ (sh - 1)
      if rem > half || (rem == half && m % 2 == 1) then m + 1 else m
  let (mant, q) := if mant == 2 ^ 53 then (2 ^ 52, q + 1) else (mant, q)
  let signBit : Nat := if neg then 2 ^ 63 else 0
  if mant < 2 ^ 52 then Float.ofBits (UInt64.ofNat (signBit + mant))
  else
    let e : Int := q + 1075
    if e ≥ 2047 then Float.ofBits (UInt64.ofNat (signBit + 2047 * 2 ^ 52))
    else Float.ofBits (UInt64.ofNat (signBit + e.toNat * 2 ^ 52 + (mant - 2 ^ 52)))

/-- `f64::mul_add(a, b, c)` -/
def fmaF (a b c : Float) : Float :=
  if !(a.isFinite && b.isFinite && c.isFinite) then a * b + c
  else
    let (sa, ma, ea) := decodeF a
    let (sb, mb, eb) := decodeF b
    let (sc, mc, ec) := decodeF c
    let sp := sa != sb
    let ep := ea + eb
    let emin := min ep ec
    let p : Int := (ma * mb * 2 ^ (ep - emin).toNat : Nat)
    let cc : Int := (mc * 2 ^ (ec - emin).toNat : Nat)
    let s : Int := (if sp then -p else p) + (if sc then -cc else cc)
    if s == 0 then a * b + c
    else roundF (s < 0) s.natAbs emin

def plainMadd (a b c : Float) : Float := a * b + c

/-! ### decoding of the enum codes -/

def tieBreaker : Int → RankTieBreaker
  | 0 => RankTieBreaker.Average | 1 => RankTieBreaker.Min | 2 => RankTieBreaker.Max | _ => RankTieBreaker.First
def mwuMethod : Int → MannWhitneyUMethod
  | 0 => MannWhitneyUMethod.Automatic | 1 => MannWhitneyUMethod.Exact
  | 2 => MannWhitneyUMethod.AsymptoticInclContinuityCorrection
  | _ => MannWhitneyUMethod.AsymptoticExclContinuityCorrection
def alternative : Int → Alternative
  | 0 => Alternative.TwoSided | 1 => Alternative.Less | _ => Alternative.Greater
def ks1Method : Int → KSOneSampleAlternativeMethod
  | 0 => KSOneSampleAlternativeMethod.Less | 1 => KSOneSampleAlternativeMethod.Greater
  | 2 => KSOneSampleAlternativeMethod.TwoSidedExact | 3 => KSOneSampleAlternativeMethod.TwoSidedAsymptotic
  | _ => KSOneSampleAlternativeMethod.TwoSidedApproximate
def ks2Method : Int → KSTwoSampleAlternativeMethod
  | 0 => KSTwoSampleAlternativeMethod.LessAsymptotic | 1 => KSTwoSampleAlternativeMethod.GreaterAsymptotic
  | 2 => KSTwoSampleAlternativeMethod.TwoSidedExact | _ => KSTwoSampleAlternativeMethod.TwoSidedAsymptotic
def nanPolicy : Int → NaNPolicy
  | 0 => NaNPolicy.Propogate | 1 => NaNPolicy.Emit | _ => NaNPolicy.Error

/-- `l` without position `i` -/
def removeAt (l : List Float) (i : Nat) : List Float := l.take i ++ l.drop (i + 1)

/-- `rankdata_mwu` is private in statrs and has no hook: it is observed through the public
    `mannwhitneyu` — for each position `i`, `mannwhitneyu(&[y_i], &y_without_i,
    AsymptoticExclContinuityCorrection, Greater)` returns `U₁ = rank(y_i) − 1` and a p-value that
    depends on the tie term `Σ(t³ − t)`. -/
def rankProbe (y : List Float) : List (Except MannWhitneyUError (Float × Float)) :=
  (List.range y.length).map (fun i =>
    Statrs.Model.mannwhitneyu (α := Float) [y.getD i 0.0] (removeAt y i)
      MannWhitneyUMethod.AsymptoticExclContinuityCorrection Alternative.Greater)

def ks1 (cdf : Float → Float) (data : List Float) (m p : Int) (fused : Bool) : String :=
  reply (Statrs.Model.ks_onesample (α := Float) (if fused then fmaF else plainMadd) data cdf (ks1Method m) (nanPolicy p))

def rankTable : List (String × (List Arg → String)) := [
  ("Data::ranks", fun a => match a with
    | [Arg.fl l, Arg.i tb] =>
      if Statrs.Model.Data.ranks_panics (α := Float) ⟨l⟩ then "panic"
      else reply (Statrs.Model.Data.ranks (α := Float) ⟨l⟩ (tieBreaker tb))
    | _ => "bad-args"),
  ("rankdata_mwu", fun a => match a with
    | [Arg.fl y] =>
      match Statrs.Model.rankdata_mwu (α := Float) y with
      | .error e => reply (Except.error e : Except MannWhitneyUError (List Float × List Int))
      | .ok r => if Statrs.Model.rankdata_mwu_panics y then "panic"
                 else reply (Except.ok r : Except MannWhitneyUError (List Float × List Int))
    | _ => "bad-args"),
  ("rankdata_mwu@probe", fun a => match a with
    | [Arg.fl y] => reply (rankProbe y)
    | _ => "bad-args"),
  ("mannwhitneyu", fun a => match a with
    | [Arg.fl x, Arg.fl y, Arg.i m, Arg.i alt] =>
      reply (Statrs.Model.mannwhitneyu (α := Float) x y (mwuMethod m) (alternative alt))
    | _ => "bad-args"),
  ("ks_onesample::normal", fun a => match a with
    | [Arg.fl data, Arg.f mu, Arg.f sigma, Arg.i m, Arg.i p, Arg.b fused] =>
      match Normal.new (α := Float) mu sigma with
      | .error e => ctorErr (variantStr e)
      | .ok d => ks1 (Normal.cdf (α := Float) d) data m p fused
    | _ => "bad-args"),
  ("ks_onesample::uniform", fun a => match a with
    | [Arg.fl data, Arg.f lo, Arg.f hi, Arg.i m, Arg.i p, Arg.b fused] =>
      match Uniform.new (α := Float) lo hi with
      | .error e => ctorErr (variantStr e)
      | .ok d => ks1 (Uniform.cdf (α := Float) d) data m p fused
    | _ => "bad-args"),
  ("ks_onesample::exp", fun a => match a with
    | [Arg.fl data, Arg.f rate, Arg.i m, Arg.i p, Arg.b fused] =>
      match Exp.new (α := Float) rate with
      | .error e => ctorErr (variantStr e)
      | .ok d => ks1 (Exp.cdf (α := Float) d) data m p fused
    | _ => "bad-args"),
  ("ks_twosample", fun a => match a with
    | [Arg.fl d1, Arg.fl d2, Arg.i m, Arg.i p] =>
      reply (Statrs.Model.ks_twosample (α := Float) d1 d2 (ks2Method m) (nanPolicy p))
    | _ => "bad-args"),
  -- self-test of the driver's software fma against `f64::mul_add`
  ("ranktests::fma", fun a => match a with
    | [Arg.f x, Arg.f y, Arg.f z] => reply (fmaF x y z)
    | _ => "bad-args")]

end Statrs.Model.RankDispatch
